package main

import (
	"encoding/asn1"
	"fmt"
	"math/big"
	"strings"

	"github.com/tjfoc/gmsm/sm2"
	"github.com/tjfoc/gmsm/sm3"
)

func init() {
	gens["C01"] = genC01
	gens["C02"] = genC02
	gens["C13"] = genC13
}

// keys with forced leading zero bytes in d, x or y (searched once, cached)
type testKey struct{ d, x, y *big.Int }

var specialKeys []testKey

func findSpecialKeys() []testKey {
	if specialKeys != nil {
		return specialKeys
	}
	c := sm2.P256Sm2()
	// private keys whose public coordinates have leading zero bytes (found once by search):
	// 327 and 17883: one coordinate short (1 and 2 zero bytes); 278982: both coordinates short.
	for _, d := range []int64{327, 17883, 278982} {
		x, y := c.ScalarBaseMult(big.NewInt(d).Bytes())
		specialKeys = append(specialKeys, testKey{big.NewInt(d), x, y})
	}
	for d := int64(2); d < 3000 && len(specialKeys) < 8; d++ {
		x, y := c.ScalarBaseMult(big.NewInt(d).Bytes())
		if len(x.Bytes()) < 32 || len(y.Bytes()) < 32 {
			specialKeys = append(specialKeys, testKey{big.NewInt(d), x, y})
		}
	}
	return specialKeys
}

func (r *rng) sm2key() testKey {
	c := sm2.P256Sm2()
	sk := findSpecialKeys()
	switch r.intn(5) {
	case 0:
		return sk[r.intn(len(sk))]
	case 1: // d with leading zero bytes
		d := new(big.Int).SetBytes(r.bytes(29 + r.intn(3)))
		if d.Sign() == 0 {
			d.SetInt64(3)
		}
		x, y := c.ScalarBaseMult(d.Bytes())
		return testKey{d, x, y}
	case 2: // d near n-2
		d := new(big.Int).Sub(sm2N, big.NewInt(int64(2+r.intn(5))))
		x, y := c.ScalarBaseMult(d.Bytes())
		return testKey{d, x, y}
	}
	d := new(big.Int).SetBytes(r.bytes(32))
	d.Mod(d, new(big.Int).Sub(sm2N, big.NewInt(2)))
	d.Add(d, big.NewInt(1))
	x, y := c.ScalarBaseMult(d.Bytes())
	return testKey{d, x, y}
}

func (r *rng) uid() string {
	switch r.intn(6) {
	case 0:
		return "-"
	case 1:
		return hx([]byte("1234567812345678"))
	case 2:
		return hx(r.bytes(1 + r.intn(40)))
	case 3:
		return hx(r.bytes(r.pick([]int{255, 256, 1000, 8191})))
	case 4:
		return hx(r.bytes(8192 + r.intn(3)))
	}
	return hx(r.bytes(16))
}

func (r *rng) msg() []byte {
	switch r.intn(6) {
	case 0:
		return []byte{}
	case 1:
		return r.bytes(r.pick([]int{1, 31, 32, 33, 55, 56, 64}))
	case 2:
		return r.bytes(1000 + r.intn(3000))
	}
	return r.bytes(r.intn(200))
}

// genSm2obj: one key object used for a whole sequence of sign / verify / encrypt / decrypt operations (state that
// one operation leaves in the object or in the package must not show in the next one)
func genSm2obj(r *rng, tier string, emit func(string)) {
	nobj := 8
	if tier == "thorough" {
		nobj = 100
	}
	for i := 0; i < nobj; i++ {
		k := r.sm2key()
		priv := privFromD(k.d)
		var ops []string
		var sigs [][3]string // uid, msg, "r:s"
		var cts [][2]string  // mode, ct
		for j := 0; j < 4+r.intn(5); j++ {
			switch r.intn(5) {
			case 0, 1:
				uid, msg, rnd := r.uid(), r.msg(), r.bytes(120)
				ops = append(ops, fmt.Sprintf("s:%s:%s:%s", uid, hx(msg), hx(rnd)))
				var ub []byte
				if uid != "-" {
					ub, _ = unhx(uid)
				}
				if len(ub) < 8192 {
					if rr, ss, err := sm2.Sm2Sign(priv, msg, ub, &fixedRand{append([]byte{}, rnd...)}); err == nil {
						sigs = append(sigs, [3]string{uid, hx(msg), bhex(rr) + ":" + bhex(ss)})
					}
				}
			case 2:
				if len(sigs) > 0 {
					sg := sigs[r.intn(len(sigs))]
					ops = append(ops, fmt.Sprintf("v:%s:%s:%s", sg[0], sg[1], sg[2]))
				}
			case 3:
				mode := []string{"c1c3c2", "c1c2c3", "asn1"}[r.intn(3)]
				msg, rnd := r.bytes(1+r.intn(60)), r.bytes(120)
				ops = append(ops, fmt.Sprintf("e:%s:%s:%s", mode, hx(msg), hx(rnd)))
				var ct []byte
				var err error
				if mode == "asn1" {
					ct, err = sm2.EncryptAsn1(&priv.PublicKey, msg, &fixedRand{append([]byte{}, rnd...)})
				} else {
					ct, err = sm2.Encrypt(&priv.PublicKey, msg, &fixedRand{append([]byte{}, rnd...)}, modeOf(mode))
				}
				if err == nil {
					cts = append(cts, [2]string{mode, hx(ct)})
				}
			case 4:
				if len(cts) > 0 {
					c := cts[r.intn(len(cts))]
					ops = append(ops, fmt.Sprintf("d:%s:%s", c[0], c[1]))
				}
			}
		}
		if len(ops) > 0 {
			emit(fmt.Sprintf("sm2obj %s %s", bhex(k.d), strings.Join(ops, " ")))
		}
	}
}

func genC01(r *rng, tier string, emit func(string)) {
	defer genSm2hist(r, tier, emit) // histories over families of near-equal IDs / messages (c01hist.go), after everything else
	n := 50
	if tier == "thorough" {
		n = 800
	}
	genSm2obj(r, tier, emit)
	// digest-level verification with r + s = n: then [t]P is the point at infinity and the public key drops out of
	// the equation, so for e = r - x([s]G) the tuple "verifies" under EVERY key unless r + s = 0 mod n is refused
	{
		c := sm2.P256Sm2()
		N := c.Params().N
		for i := 0; i < 12; i++ {
			k := r.sm2key()
			sv := new(big.Int).SetBytes(r.bytes(32))
			sv.Mod(sv, new(big.Int).Sub(N, big.NewInt(1))).Add(sv, big.NewInt(1))
			rv := new(big.Int).Sub(N, sv)
			x1, _ := c.ScalarBaseMult(sv.Bytes())
			e := new(big.Int).Sub(rv, x1)
			e.Mod(e, N)
			eb := e.FillBytes(make([]byte, 32))
			emit(fmt.Sprintf("sm2verifye %s %s %s %s %s", bhex(k.x), bhex(k.y), hx(eb), bhex(rv), bhex(sv)))
			// and a genuine digest-level signature for comparison
			msg := r.bytes(1 + r.intn(50))
			pub := pubFromXY(k.x, k.y)
			if dg, err := pub.Sm3Digest(msg, nil); err == nil {
				if r2, s2, err := sm2.Sm2Sign(privFromD(k.d), msg, nil, &fixedRand{r.bytes(200)}); err == nil {
					emit(fmt.Sprintf("sm2verifye %s %s %s %s %s", bhex(k.x), bhex(k.y), hx(dg), bhex(r2), bhex(s2)))
					dg[0] ^= 1
					emit(fmt.Sprintf("sm2verifye %s %s %s %s %s", bhex(k.x), bhex(k.y), hx(dg), bhex(r2), bhex(s2)))
				}
			}
		}
	}
	// digests with leading zero bytes: Sm3Digest returns e.Bytes(), i.e. 31 bytes or fewer about once in 256
	// messages; sm2.Verify takes the digest as an integer, of whatever length (also with zeros in front)
	for i := 0; i < 3; i++ {
		k := r.sm2key()
		pub := pubFromXY(k.x, k.y)
		for j := 0; j < 4000; j++ {
			msg := []byte(fmt.Sprintf("message #%d/%d", i, j))
			dg, err := pub.Sm3Digest(msg, nil)
			if err != nil || len(dg) >= 32 {
				continue
			}
			r2, s2, err := sm2.Sm2Sign(privFromD(k.d), msg, nil, &fixedRand{r.bytes(200)})
			if err != nil {
				break
			}
			emit(fmt.Sprintf("sm2verifye %s %s %s %s %s", bhex(k.x), bhex(k.y), hx(dg), bhex(r2), bhex(s2)))
			emit(fmt.Sprintf("sm2verifye %s %s %s %s %s", bhex(k.x), bhex(k.y), hx(append(make([]byte, 32-len(dg)), dg...)), bhex(r2), bhex(s2)))
			emit(fmt.Sprintf("sm2verifye %s %s %s %s %s", bhex(k.x), bhex(k.y), hx(append(make([]byte, 40-len(dg)), dg...)), bhex(r2), bhex(s2)))
			break
		}
	}
	// fresh randomness, delivered in pieces of 1 / 3 / 7 / 39 bytes or whole: no r twice
	for _, chunk := range []int{1, 1, 3, 7, 39, 0} {
		k := r.sm2key()
		cnt := 80
		if tier == "thorough" {
			cnt = 600
		}
		emit(fmt.Sprintf("sm2fresh %s %s %d %d %d", bhex(k.d), hx(r.bytes(1+r.intn(40))), chunk, r.intn(1<<30), cnt))
	}
	c := sm2.P256Sm2()
	for i := 0; i < n; i++ {
		k := r.sm2key()
		uid := r.uid()
		msg := r.msg()
		if tier == "thorough" && i%50 == 0 {
			msg = r.bytes(60000 + r.intn(5536))
		}
		rnd := r.bytes(40 * 3)
		switch r.intn(6) {
		case 0: // nonce = n-1 .. extreme values of the 40-byte integer
			copy(rnd, make([]byte, 40))
		case 1:
			for j := 0; j < 40; j++ {
				rnd[j] = 0xff
			}
		}
		emit(fmt.Sprintf("sm2sign %s %s %s %s", bhex(k.d), uid, hx(msg), hx(rnd)))
		emit(fmt.Sprintf("sm2signder %s %s %s", bhex(k.d), hx(msg), hx(rnd)))
		// a genuine signature (made by the real code) and its perturbations
		var uidb []byte
		if uid != "-" {
			uidb, _ = unhx(uid)
		}
		if len(uidb) >= 8192 {
			continue
		}
		priv := privFromD(k.d)
		rr, ss, err := sm2.Sm2Sign(priv, msg, uidb, &fixedRand{append([]byte{}, rnd...)})
		if err != nil {
			continue
		}
		v := func(x, y *big.Int, uid string, msg []byte, rr, ss *big.Int) {
			emit(fmt.Sprintf("sm2verify %s %s %s %s %s %s", bhex(x), bhex(y), uid, hx(msg), bhex(rr), bhex(ss)))
		}
		v(k.x, k.y, uid, msg, rr, ss)
		one := big.NewInt(1)
		switch i % 10 {
		case 0: // altered message
			m2 := append(append([]byte{}, msg...), 0)
			v(k.x, k.y, uid, m2, rr, ss)
		case 1: // altered id
			v(k.x, k.y, hx([]byte("other-id")), msg, rr, ss)
		case 2: // different key
			k2 := r.sm2key()
			v(k2.x, k2.y, uid, msg, rr, ss)
		case 3: // r, s out of range
			v(k.x, k.y, uid, msg, new(big.Int), ss)
			v(k.x, k.y, uid, msg, rr, new(big.Int))
			v(k.x, k.y, uid, msg, sm2N, ss)
			v(k.x, k.y, uid, msg, rr, new(big.Int).Add(ss, sm2N))
			v(k.x, k.y, uid, msg, new(big.Int).Add(rr, sm2N), ss)
		case 4: // r + s = n
			v(k.x, k.y, uid, msg, rr, new(big.Int).Sub(sm2N, rr))
		case 5: // s altered by one
			v(k.x, k.y, uid, msg, rr, new(big.Int).Add(ss, one))
			v(k.x, k.y, uid, msg, new(big.Int).Add(rr, one), ss)
		case 6: // public key coordinates swapped / negated
			v(k.y, k.x, uid, msg, rr, ss)
			v(k.x, new(big.Int).Sub(sm2P, k.y), uid, msg, rr, ss)
		}
		// DER encodings: genuine, and every kind of non-canonical variation
		if uid == "-" || uid == hx([]byte("1234567812345678")) {
			sig, err := priv.Sign(&fixedRand{append([]byte{}, rnd...)}, msg, nil)
			if err != nil {
				continue
			}
			vd := func(sig []byte) {
				emit(fmt.Sprintf("sm2verifyder %s %s %s %s", bhex(k.x), bhex(k.y), hx(msg), hx(sig)))
				// the same bytes through the TLS stack's handshake-signature verifier, both key representations
				emit(fmt.Sprintf("tlssigv ecdsa %s %s %s %s", bhex(k.x), bhex(k.y), hx(msg), hx(sig)))
				emit(fmt.Sprintf("tlssigv sm2 %s %s %s %s", bhex(k.x), bhex(k.y), hx(msg), hx(sig)))
				// and through the X.509 verifier (certificates, requests, revocation lists), see c09sig.go
				emit(fmt.Sprintf("x509sigv %s %s %s %s %s", []string{"SM2WithSM3", "SM2WithSM3", "SM2WithSHA1", "SM2WithSHA256"}[(i+len(sig))%4], bhex(k.x), bhex(k.y), hx(msg), hx(sig)))
			}
			vd(sig)
			vd(append(append([]byte{}, sig...), 0)) // trailing byte after the SEQUENCE
			vd(sig[:len(sig)-1])                    // truncated
			m := append([]byte{}, sig...)
			m[0] = 0x31
			vd(m) // wrong outer tag
			// trailing element inside the SEQUENCE (length fixed up)
			in := append(append([]byte{}, sig[2:]...), 0x02, 0x01, 0x01)
			vd(append([]byte{0x30, byte(len(in))}, in...))
			for _, extra := range [][]byte{{0x05, 0x00}, {0x04, 0x03, 'p', 'a', 'd'}, {0x30, 0x00}} {
				in := append(append([]byte{}, sig[2:]...), extra...)
				vd(append([]byte{0x30, byte(len(in))}, in...))
			}
			// non-minimal length of the SEQUENCE (0x81 form)
			if len(sig)-2 < 128 {
				vd(append([]byte{0x30, 0x81, byte(len(sig) - 2)}, sig[2:]...))
			}
			// non-minimal INTEGER: leading zero added to r
			rl := int(sig[3])
			rb := sig[4 : 4+rl]
			rest := sig[4+rl:]
			if rb[0] < 0x80 && rb[0] != 0 {
				in2 := append([]byte{0x02, byte(rl + 1), 0}, rb...)
				in2 = append(in2, rest...)
				vd(append([]byte{0x30, byte(len(in2))}, in2...))
			}
			// single byte flips
			for t := 0; t < 4; t++ {
				m := append([]byte{}, sig...)
				m[r.intn(len(m))] ^= byte(1 << uint(r.intn(8)))
				vd(m)
			}
		}
	}
	_ = c
}

// Nonces found once by search (harness/devfind.go) for which TWO of the fixed-width coordinates involved in
// one encryption have leading zero bytes ("x2y2": both coordinates of the shared point [k]P; "x1x2", "y1y2":
// one of C1 = [k]G and one of [k]P; "x1y1": both of C1; "x2two": two leading zero bytes in x2).  Roughly one
// nonce in 65536 each; columns: what, d, Px, Py, random stream.
var c02RareNonces = [][5]string{
	{"x2y2", "bdef527f431e48f0d2e1e06fcf3499a52ca70f5facb806ae28aa7c73b0a2c986", "b82beca15d39a1c58f38368279613a8edfe9f780f2253790477c4ea00b797a14", "7870b98852b5ad4ae1a0f56f0616fc0ebbf90335da10449097e3f7e7883cfc8c", "dcef7162a7c5a63e3a91f665787a7892428f32516a6375a095f28b4a38289c5452df4f4b2876c7a63e9fd05b0373ac07f314cec79cf01b722823fc2a391a23f7a43ee1f6b947a41f95d5e9bab0bda4f0"},
	{"x2y2", "0147", "d062045840b1f4b0a64d6e6c5bc582079fc0af8c366eba632b35f5e217385b", "5032f04533c064a41a7616cbb528b168c79a247d46f1c3667e1a2f5921aca9a4", "c8fb95da698afa357cb314e0678824ef4c64b5be7731bbf865338933df7ab7b77541408cc173739319b822ae47a6880ce27b5bec9448d0584c8c0770f06ba36866894e2720483fb274dd8ac85472cb5d"},
	{"x1x2", "bdef527f431e48f0d2e1e06fcf3499a52ca70f5facb806ae28aa7c73b0a2c986", "b82beca15d39a1c58f38368279613a8edfe9f780f2253790477c4ea00b797a14", "7870b98852b5ad4ae1a0f56f0616fc0ebbf90335da10449097e3f7e7883cfc8c", "be6cfd11d58d41fb760e8c68b91ae0b51e83b1a490892ed8c2501779a8eda42e292b23dc38770b1caceb7180a02508a4fcd8074bddb70a500e4fa85e7a27898076a1dcddc3fa1b313a8bdd43bf12c893"},
	{"x1x2", "0147", "d062045840b1f4b0a64d6e6c5bc582079fc0af8c366eba632b35f5e217385b", "5032f04533c064a41a7616cbb528b168c79a247d46f1c3667e1a2f5921aca9a4", "780fa333823accc7d72b063813206b36a5862e7675073fd9a878c134b8f2d179136c47ea3cd281b1fd259c41a273077fd2057387e12e99669ecd9cd0b6864a87aa476c3cf4cb49270f4ffa3154108af0"},
	{"x1y1", "bdef527f431e48f0d2e1e06fcf3499a52ca70f5facb806ae28aa7c73b0a2c986", "b82beca15d39a1c58f38368279613a8edfe9f780f2253790477c4ea00b797a14", "7870b98852b5ad4ae1a0f56f0616fc0ebbf90335da10449097e3f7e7883cfc8c", "1fba00ccfab6922cf8d0734ff60a0b75c623737140a030a0e36a7c535f46de9e0ffa2afdfc0749816e6be0bcb0f1351652817023e11b1ad79f7f51dc9f71e8efcc18151bbc220b39cd7fb9bcf007abb1"},
	{"x1y1", "0147", "d062045840b1f4b0a64d6e6c5bc582079fc0af8c366eba632b35f5e217385b", "5032f04533c064a41a7616cbb528b168c79a247d46f1c3667e1a2f5921aca9a4", "c96e5c5f680ae5beddd89f8afb4b68fb9be28fbadb66134ff6fadaa193449ba0a42342e2dc559cfce1028dfc1c9c1055f47b36bcfc34631da472b223bf17358ac46534ed5b2e15145b5606d1fcd3773c"},
	{"y1y2", "bdef527f431e48f0d2e1e06fcf3499a52ca70f5facb806ae28aa7c73b0a2c986", "b82beca15d39a1c58f38368279613a8edfe9f780f2253790477c4ea00b797a14", "7870b98852b5ad4ae1a0f56f0616fc0ebbf90335da10449097e3f7e7883cfc8c", "73c6eeb3b3e4113dbb691a32594835ebb788cb68ea84a9643e4dd8163ec16ce591912fb8c394b94de6b336ee38d09964a04faad38ec5ffb2bd71f96bb07c5f76970dd4fbe04bac79a5f1d591bfbf7415"},
	{"y1y2", "0147", "d062045840b1f4b0a64d6e6c5bc582079fc0af8c366eba632b35f5e217385b", "5032f04533c064a41a7616cbb528b168c79a247d46f1c3667e1a2f5921aca9a4", "9b4e868861d952ddf0662cd04ea6210bac758a0b2e696a46c0dc463fe80e5f10414b193f8e09b988e0427a57fc9370e026ced36a27f7c1b8f87828e527359ee4e879535d375a485c8312dbcc1b98f209"},
	{"x2two", "0147", "d062045840b1f4b0a64d6e6c5bc582079fc0af8c366eba632b35f5e217385b", "5032f04533c064a41a7616cbb528b168c79a247d46f1c3667e1a2f5921aca9a4", "96fd3b9dac4fde0ad1698ca35acbc306fcdac0713fe4e0ce3afd11285d1cd0fb7eb0e058949f075d6e341855f4120cd918539d596a679e621c55dbce9b2c9657aa5f93d0e346362b5d26683b1978f814"},
}

// c02SmallXCipher: a valid raw C1C3C2 ciphertext for the key d whose C1 has an x coordinate below 2^200 (made with
// the private key: C1 is chosen, the shared point is [d]C1), so that x + p still fits 32 bytes
func c02SmallXCipher(r *rng, d *big.Int, msg []byte) (ct []byte, x, y *big.Int) {
	c := sm2.P256Sm2()
	P, A, B := c.Params().P, new(big.Int).Sub(c.Params().P, big.NewInt(3)), c.Params().B
	for {
		x = new(big.Int).SetBytes(r.bytes(1 + r.intn(24)))
		rhs := new(big.Int).Exp(x, big.NewInt(3), P)
		rhs.Add(rhs, new(big.Int).Mul(A, x)).Add(rhs, B).Mod(rhs, P)
		y = new(big.Int).ModSqrt(rhs, P)
		if y == nil || x.Sign() == 0 {
			continue
		}
		x2, y2 := c.ScalarMult(x, y, d.Bytes())
		if x2.Sign() == 0 && y2.Sign() == 0 {
			continue
		}
		z := append(h32b(x2), h32b(y2)...)
		var t []byte
		for ctr := uint32(1); len(t) < len(msg); ctr++ {
			h := sm3.Sm3Sum(append(append([]byte{}, z...), byte(ctr>>24), byte(ctr>>16), byte(ctr>>8), byte(ctr)))
			t = append(t, h...)
		}
		c2 := make([]byte, len(msg))
		zero := true
		for i := range msg {
			c2[i] = msg[i] ^ t[i]
			if t[i] != 0 {
				zero = false
			}
		}
		if zero {
			continue
		}
		c3 := sm3.Sm3Sum(append(append(append([]byte{}, h32b(x2)...), msg...), h32b(y2)...))
		ct = append(append(append(append([]byte{0x04}, h32b(x)...), h32b(y)...), c3...), c2...)
		return ct, x, y
	}
}

func genC02(r *rng, tier string, emit func(string)) {
	genSm2obj(r, tier, emit)
	// C1 with a coordinate that is not a field element: (x + p, y) for a point (x, y) of the curve with small x
	for i := 0; i < 4; i++ {
		k := r.sm2key()
		msg := r.bytes(1 + r.intn(40))
		ct, x, _ := c02SmallXCipher(r, k.d, msg)
		emit(fmt.Sprintf("sm2dec %s c1c3c2 %s", bhex(k.d), hx(ct))) // genuine: decrypts
		f := append([]byte{}, ct...)
		copy(f[1:33], h32b(new(big.Int).Add(x, sm2P)))
		emit(fmt.Sprintf("sm2dec %s c1c3c2 %s", bhex(k.d), hx(f)))
	}
	for _, row := range c02RareNonces {
		d, _ := new(big.Int).SetString(row[1], 16)
		x, _ := new(big.Int).SetString(row[2], 16)
		y, _ := new(big.Int).SetString(row[3], 16)
		rnd, _ := unhx(row[4])
		for _, mode := range []string{"c1c3c2", "c1c2c3", "asn1"} {
			msg := r.bytes(1 + r.intn(70))
			emit(fmt.Sprintf("sm2enc %s %s %s %s %s %s", bhex(x), bhex(y), mode, hx(msg), hx(rnd), bhex(d)))
			var ct []byte
			var err error
			if mode == "asn1" {
				ct, err = sm2.EncryptAsn1(pubFromXY(x, y), msg, &fixedRand{append([]byte{}, rnd...)})
			} else {
				ct, err = sm2.Encrypt(pubFromXY(x, y), msg, &fixedRand{append([]byte{}, rnd...)}, modeOf(mode))
			}
			if err == nil {
				emit(fmt.Sprintf("sm2dec %s %s %s", bhex(d), mode, hx(ct)))
			}
		}
	}
	n := 40
	if tier == "thorough" {
		n = 600
	}
	for i, l := range []int{55, 119, 183, 247, 56, 120} { // |x2 ‖ M ‖ y2| ≡ 55 / 56 mod 64: the SM3 padding boundary, every time
		k := r.sm2key()
		mode := []string{"c1c3c2", "c1c2c3", "asn1"}[i%3]
		emit(fmt.Sprintf("sm2enc %s %s %s %s %s %s", bhex(k.x), bhex(k.y), mode, hx(r.bytes(l)), hx(r.bytes(80)), bhex(k.d)))
	}
	// around the KDF block (32) and around the SM3 padding boundary of C3 = SM3(x2 ‖ M ‖ y2): 64 + |M| ≡ 55, 56, 63, 0 mod 64
	lens := []int{1, 2, 31, 32, 33, 54, 55, 56, 57, 63, 64, 65, 95, 96, 97, 118, 119, 120, 127, 128, 129, 183, 184, 255, 256, 257}
	for i := 0; i < n; i++ {
		k := r.sm2key()
		l := r.pick(lens)
		if r.chance(1, 3) {
			l = 1 + r.intn(300)
		}
		if tier == "thorough" && i%40 == 0 {
			l = 3000 + r.intn(1097)
		}
		msg := r.bytes(l)
		rnd := r.bytes(80)
		mode := []string{"c1c3c2", "c1c2c3", "asn1"}[i%3]
		emit(fmt.Sprintf("sm2enc %s %s %s %s %s %s", bhex(k.x), bhex(k.y), mode, hx(msg), hx(rnd), bhex(k.d)))
		if i%10 == 0 {
			emit(fmt.Sprintf("sm2enc %s %s %s - %s", bhex(k.x), bhex(k.y), mode, hx(rnd))) // empty plaintext
		}
		// genuine ciphertext from the real code, then decrypt it and perturbed versions
		pub := pubFromXY(k.x, k.y)
		var ct []byte
		var err error
		if mode == "asn1" {
			ct, err = sm2.EncryptAsn1(pub, msg, &fixedRand{append([]byte{}, rnd...)})
		} else {
			ct, err = sm2.Encrypt(pub, msg, &fixedRand{append([]byte{}, rnd...)}, modeOf(mode))
		}
		if err != nil {
			continue
		}
		dec := func(d *big.Int, ct []byte) { emit(fmt.Sprintf("sm2dec %s %s %s", bhex(d), mode, hx(ct))) }
		dec(k.d, ct)
		if mode != "asn1" {
			for t := 0; t < 6; t++ { // single-byte changes in C1, C3, C2
				m := append([]byte{}, ct...)
				pos := 1 + r.intn(len(m)-1)
				if t == 0 {
					pos = 1 + r.intn(64)
				}
				m[pos] ^= byte(1 + r.intn(255))
				dec(k.d, m)
			}
			for _, pc := range []byte{0x00, 0x02, 0x03, 0x05, 0x06, 0xff} { // the point-format octet (PC = 04 for an uncompressed C1)
				m := append([]byte{}, ct...)
				m[0] = pc
				dec(k.d, m)
			}
			for _, tl := range []int{0, 1, 10, 64, 65, 96, 97, len(ct) - 1} { // truncations
				if tl < len(ct) {
					dec(k.d, ct[:tl])
				}
			}
			k2 := r.sm2key()
			dec(k2.d, ct) // wrong key
			// C1 replaced by points that are not on the curve
			m := append([]byte{}, ct...)
			copy(m[1:65], make([]byte, 64))
			m[32], m[64] = 1, 2 // (1, 2)
			dec(k.d, m)
		} else {
			dec(k.d, ct[:len(ct)-1])
			k2 := r.sm2key()
			dec(k2.d, ct)
			for t := 0; t < 6; t++ { // single-byte changes anywhere in the DER
				m := append([]byte{}, ct...)
				m[r.intn(len(m))] ^= byte(1 + r.intn(255))
				dec(k.d, m)
			}
			// re-encoded forgeries: coordinates that are the genuine ones only modulo 2^256 (or 2^264), a
			// digest or ciphertext field of another size, C1 = (1, 2)
			var sc struct {
				X, Y *big.Int
				H, C []byte
			}
			if rest, err := asn1.Unmarshal(ct, &sc); err == nil && len(rest) == 0 {
				re := func(x, y *big.Int, h, c []byte) {
					sc2 := sc
					sc2.X, sc2.Y, sc2.H, sc2.C = x, y, h, c
					if b, err := asn1.Marshal(sc2); err == nil {
						dec(k.d, b)
					}
				}
				two256 := new(big.Int).Lsh(big.NewInt(1), 256)
				re(sc.X, sc.Y, sc.H, sc.C) // as it was
				re(new(big.Int).Add(sc.X, two256), sc.Y, sc.H, sc.C)
				re(sc.X, new(big.Int).Add(sc.Y, two256), sc.H, sc.C)
				re(new(big.Int).Add(sc.X, new(big.Int).Lsh(big.NewInt(int64(1+r.intn(127))), 256)), new(big.Int).Add(sc.Y, new(big.Int).Lsh(big.NewInt(1), 264)), sc.H, sc.C)
				re(new(big.Int).Add(sc.X, sm2P), sc.Y, sc.H, sc.C)
				re(sc.X, new(big.Int).Sub(sm2P, sc.Y), sc.H, sc.C)
				re(sc.X, sc.Y, sc.H[:31], sc.C)
				re(sc.X, sc.Y, append([]byte{0}, sc.H...), sc.C)
				re(sc.X, sc.Y, sc.H, append(append([]byte{}, sc.C...), 0))
				re(big.NewInt(1), big.NewInt(2), sc.H, sc.C)
				// (-x, y), (x, -y), (-x, -y): no points of the curve, although their magnitudes are
				re(new(big.Int).Neg(sc.X), sc.Y, sc.H, sc.C)
				re(sc.X, new(big.Int).Neg(sc.Y), sc.H, sc.C)
				re(new(big.Int).Neg(sc.X), new(big.Int).Neg(sc.Y), sc.H, sc.C)
				// the same bytes re-split: a 33-byte "x" that borrows the first byte of y, and so on down to C2
				raw := append(append(append(append([]byte{}, h32b(sc.X)...), h32b(sc.Y)...), sc.H...), sc.C...)
				if len(raw) > 98 {
					re(new(big.Int).SetBytes(raw[:33]), new(big.Int).SetBytes(raw[33:65]), raw[65:97], raw[97:])
					re(sc.X, sc.Y, raw[64:95], raw[95:])
					re(sc.X, sc.Y, raw[64:97], raw[97:])
				}
			}
		}
		// nonces for which a coordinate of the shared point [k]P has leading zero bytes (about 1 in 64): the
		// KDF and C3 inputs are fixed-width 32-byte strings in GM/T 0003.4
		if i%5 == 0 {
			nm1 := new(big.Int).Sub(sm2.P256Sm2().Params().N, big.NewInt(1))
			for tries := 0; tries < 2000; tries++ {
				rnd2 := r.bytes(80)
				kk := new(big.Int).SetBytes(rnd2[:40])
				kk.Mod(kk, nm1).Add(kk, big.NewInt(1))
				x2, y2 := sm2.P256Sm2().ScalarMult(k.x, k.y, kk.Bytes())
				if len(x2.Bytes()) < 32 || len(y2.Bytes()) < 32 {
					emit(fmt.Sprintf("sm2enc %s %s %s %s %s %s", bhex(k.x), bhex(k.y), mode, hx(msg), hx(rnd2), bhex(k.d)))
					var ct2 []byte
					if mode == "asn1" {
						ct2, err = sm2.EncryptAsn1(pub, msg, &fixedRand{append([]byte{}, rnd2...)})
					} else {
						ct2, err = sm2.Encrypt(pub, msg, &fixedRand{append([]byte{}, rnd2...)}, modeOf(mode))
					}
					if err == nil {
						dec(k.d, ct2)
					}
					break
				}
			}
		}
		// a nonce whose key stream is all zero for a 1-byte plaintext (1 in 256): GM/T 0003.4 step A5 says draw
		// another nonce; nothing of the rejected attempt may remain in the ciphertext
		if i%8 == 0 {
			nm1 := new(big.Int).Sub(sm2.P256Sm2().Params().N, big.NewInt(1))
			for tries := 0; tries < 4000; tries++ {
				rnd2 := r.bytes(120)
				kk := new(big.Int).SetBytes(rnd2[:40])
				kk.Mod(kk, nm1).Add(kk, big.NewInt(1))
				x2, y2 := sm2.P256Sm2().ScalarMult(k.x, k.y, kk.Bytes())
				in := append(append(append([]byte{}, h32b(x2)...), h32b(y2)...), 0, 0, 0, 1)
				if sm3.Sm3Sum(in)[0] != 0 {
					continue
				}
				one := []byte{byte(1 + r.intn(255))}
				emit(fmt.Sprintf("sm2enc %s %s %s %s %s %s", bhex(k.x), bhex(k.y), mode, hx(one), hx(rnd2), bhex(k.d)))
				var ct2 []byte
				if mode == "asn1" {
					ct2, err = sm2.EncryptAsn1(pub, one, &fixedRand{append([]byte{}, rnd2...)})
				} else {
					ct2, err = sm2.Encrypt(pub, one, &fixedRand{append([]byte{}, rnd2...)}, modeOf(mode))
				}
				if err == nil {
					dec(k.d, ct2)
				}
				break
			}
		}
		// invalid-curve ciphertexts that are otherwise consistent (raw and ASN.1 form)
		if i%3 == 0 {
			x1, y1 := new(big.Int).SetBytes(r.bytes(31)), new(big.Int).SetBytes(r.bytes(31))
			if i%6 == 0 {
				x1, y1 = big.NewInt(1), big.NewInt(2)
			}
			if i%12 == 3 || i == 0 {
				// C1 = (0,0), the library's affine encoding of the point at infinity: [d](0,0) = (0,0) for every d, so a
				// decryptor that takes it for a curve point accepts this ciphertext under every key
				x1, y1 = big.NewInt(0), big.NewInt(0)
			}
			f := forgedOffCurve(k.d, x1, y1, msg)
			emit(fmt.Sprintf("sm2dec %s c1c3c2 %s", bhex(k.d), hx(f)))
			if a, err := sm2.CipherMarshal(f); err == nil {
				emit(fmt.Sprintf("sm2dec %s asn1 %s", bhex(k.d), hx(a)))
			}
		}
	}
}

// kdfSM3 is the harness's own KDF (GM/T 0003.4 5.4.3), used to forge ciphertexts that are
// consistent with an arbitrary shared point.
func kdfSM3(z []byte, klen int) []byte {
	var out []byte
	for ct := uint32(1); len(out) < klen; ct++ {
		out = append(out, sm3.Sm3Sum(append(append([]byte{}, z...), byte(ct>>24), byte(ct>>16), byte(ct>>8), byte(ct)))...)
	}
	return out[:klen]
}

func pad32(v *big.Int) []byte {
	b := v.Bytes()
	return append(make([]byte, 32-len(b)), b...)
}

// forgedOffCurve builds a C1C3C2 ciphertext whose C1 = (x1, y1) is NOT on the curve but whose C2/C3 are
// consistent with the point the library's own ScalarMult returns for [d]C1: a decryptor that skips
// the on-curve check accepts it.
func forgedOffCurve(d, x1, y1 *big.Int, msg []byte) []byte {
	x2, y2 := sm2.P256Sm2().ScalarMult(x1, y1, d.Bytes())
	z := append(pad32(x2), pad32(y2)...)
	t := kdfSM3(z, len(msg))
	c2 := make([]byte, len(msg))
	for i := range msg {
		c2[i] = msg[i] ^ t[i]
	}
	c3 := sm3.Sm3Sum(append(append(pad32(x2), msg...), pad32(y2)...))
	out := append([]byte{4}, pad32(x1)...)
	out = append(out, pad32(y1)...)
	out = append(out, c3...)
	return append(out, c2...)
}

func genC13(r *rng, tier string, emit func(string)) {
	defer c13gGen(r, tier, emit) // byte-level glue (kdf, ZA, assembly of k/S1/S2) against Model.KexGlue, round 12
	n := 25
	if tier == "thorough" {
		n = 400
	}
	id := func() string {
		switch r.intn(5) {
		case 0:
			return "-"
		case 1:
			return hx(r.bytes(r.pick([]int{1, 255, 1000, 8191})))
		case 2:
			return hx(r.bytes(8192))
		}
		return hx([]byte("1234567812345678"))
	}
	// the standard's example first
	emit("sm2kex 16 31323334353637383132333435363738 31323334353637383132333435363738 81EB26E941BB5AF16DF116495F90695272AE2CD63D6C4AE1678418BE48230029 785129917D45A9EA5437A59356B82338EAADDA6CEB199088F14AE10DEFA229B5 D4DE15474DB74D06491C440D305E012400990F3E390C7E87153C12DB2EA60BB3 7E07124814B309489125EAED101113164EBF0F3458C5BD88335C1F9D596243D6")
	// boundary private keys, long-term and ephemeral: 1 and 2 (public point G, [2]G) and n-1, n-2 (-G, -[2]G)
	{
		N := sm2.P256Sm2().Params().N
		bd := []*big.Int{big.NewInt(1), big.NewInt(2), new(big.Int).Sub(N, big.NewInt(1)), new(big.Int).Sub(N, big.NewInt(2))}
		for i := 0; i < 8; i++ {
			ds := []*big.Int{r.sm2key().d, r.sm2key().d, r.sm2key().d, r.sm2key().d}
			ds[i%4] = bd[(i/4*2+i)%4]
			if i >= 4 {
				ds[(i+2)%4] = bd[3-i%4]
			}
			emit(fmt.Sprintf("sm2kex %d %s %s %s %s %s %s", r.pick([]int{16, 32, 48}), id(), id(), bhex(ds[0]), bhex(ds[1]), bhex(ds[2]), bhex(ds[3])))
		}
	}
	// a party whose t = d + x̄·r mod n is sparse (2^k + small, k ≥ 129: a long run of zero digits in the recoded scalar of
	// [t](P + [x̄]R)): ordinary valid keys, built as d = t − x̄·r
	{
		c := sm2.P256Sm2()
		N := c.Params().N
		for _, sh := range []uint{129, 160, 200, 255} {
			rs, b, rb := r.sm2key(), r.sm2key(), r.sm2key()
			xbar := new(big.Int).And(rs.x, new(big.Int).Sub(new(big.Int).Lsh(big.NewInt(1), 127), big.NewInt(1)))
			xbar.Add(xbar, new(big.Int).Lsh(big.NewInt(1), 127))
			t := new(big.Int).Lsh(big.NewInt(1), sh)
			t.Add(t, big.NewInt(int64(1+r.intn(9)))).Mod(t, N)
			d := new(big.Int).Mul(xbar, rs.d)
			d.Sub(t, d).Mod(d, N)
			if d.Sign() == 0 {
				continue
			}
			emit(fmt.Sprintf("sm2kex %d %s %s %s %s %s %s", 32, id(), id(), bhex(d), bhex(b.d), bhex(rs.d), bhex(rb.d)))
		}
	}
	// the shared point V = (0, √b): a finite point of the curve whose x coordinate is zero (32 zero bytes enter the KDF);
	// only V = O is a failure. One-sided: the peer's long-term key is chosen as PB = [tA⁻¹](0, √b) − [x̄2]RB.
	{
		c := sm2.P256Sm2()
		N, P := c.Params().N, c.Params().P
		sq := new(big.Int).ModSqrt(c.Params().B, P)
		for i := 0; i < 2 && sq != nil; i++ {
			a, ra, rb := r.sm2key(), r.sm2key(), r.sm2key()
			y0 := sq
			if i == 1 {
				y0 = new(big.Int).Sub(P, sq)
			}
			xb := func(x *big.Int) *big.Int {
				v := new(big.Int).And(x, new(big.Int).Sub(new(big.Int).Lsh(big.NewInt(1), 127), big.NewInt(1)))
				return v.Add(v, new(big.Int).Lsh(big.NewInt(1), 127))
			}
			tA := new(big.Int).Mul(xb(ra.x), ra.d)
			tA.Add(tA, a.d).Mod(tA, N)
			tInv := new(big.Int).ModInverse(tA, N)
			if tInv == nil {
				continue
			}
			wx, wy := c.ScalarMult(big.NewInt(0), y0, tInv.Bytes())
			qx, qy := c.ScalarMult(rb.x, rb.y, xb(rb.x).Bytes())
			px, py := c.Add(wx, wy, qx, new(big.Int).Sub(P, qy))
			emit(fmt.Sprintf("sm2kexbad A %d %s %s %s %s %s %s %s %s", 16+16*i, hx([]byte("A")), hx([]byte("B")), bhex(a.d), bhex(ra.d), bhex(px), bhex(py), bhex(rb.x), bhex(rb.y)))
		}
	}
	// one-byte keys that come out as 00 (once in 256): GM/T 0003.3 has no "all-zero key" step, both parties get K = 00
	{
		a, b, ra := r.sm2key(), r.sm2key(), r.sm2key()
		found := 0
		for tries := 0; tries < 4000 && found < 2; tries++ {
			rb := r.sm2key()
			k, _, _, err := sm2.KeyExchangeA(1, []byte("A"), []byte("B"), privFromD(a.d), pubFromXY(b.x, b.y), privFromD(ra.d), pubFromXY(rb.x, rb.y))
			if err != nil || (len(k) == 1 && k[0] == 0) {
				emit(fmt.Sprintf("sm2kex 1 %s %s %s %s %s %s", hx([]byte("A")), hx([]byte("B")), bhex(a.d), bhex(b.d), bhex(ra.d), bhex(rb.d)))
				found++
			}
		}
	}
	for i := 0; i < n; i++ {
		a, b, ra, rb := r.sm2key(), r.sm2key(), r.sm2key(), r.sm2key()
		klen := r.pick([]int{1, 16, 32, 33, 48, 64, 100, 1024})
		emit(fmt.Sprintf("sm2kex %d %s %s %s %s %s %s", klen, id(), id(), bhex(a.d), bhex(b.d), bhex(ra.d), bhex(rb.d)))
		// a peer ephemeral point that is not on the curve, or at infinity, given to either role
		role := "A"
		if i%2 == 1 {
			role = "B"
		}
		var ex, ey *big.Int
		switch i % 4 {
		case 0:
			ex, ey = big.NewInt(1), big.NewInt(2)
			if i%8 == 4 { // a point of the curve with p added to a coordinate: not a pair of field elements
				ex, ey = new(big.Int).Add(rb.x, sm2P), rb.y
			}
			if i%16 == 8 {
				ex, ey = rb.x, new(big.Int).Add(rb.y, sm2P)
			}
		case 1:
			ex, ey = new(big.Int), new(big.Int)
		case 2:
			ex, ey = rb.x, new(big.Int).Add(rb.y, big.NewInt(1))
		default:
			ex, ey = rb.x, rb.y // genuine: must succeed
		}
		emit(fmt.Sprintf("sm2kexbad %s %d %s %s %s %s %s %s %s %s", role, klen, hx([]byte("A")), hx([]byte("B")), bhex(a.d), bhex(ra.d), bhex(b.x), bhex(b.y), bhex(ex), bhex(ey)))
		// a peer whose long-term key cancels its ephemeral one: d = -xbar(R)*r mod n makes P + [xbar]R the point at
		// infinity, so V is infinite and the standard demands failure (two OPPOSITE points are added on the way)
		if i%3 == 0 {
			c := sm2.P256Sm2()
			N := c.Params().N
			xbar := new(big.Int).And(ra.x, new(big.Int).Sub(new(big.Int).Lsh(big.NewInt(1), 127), big.NewInt(1)))
			xbar.Add(xbar, new(big.Int).Lsh(big.NewInt(1), 127))
			dp := new(big.Int).Mul(xbar, ra.d)
			dp.Neg(dp).Mod(dp, N)
			if dp.Sign() != 0 {
				px, py := c.ScalarBaseMult(dp.Bytes())
				emit(fmt.Sprintf("sm2kexbad %s %d %s %s %s %s %s %s %s %s", role, klen, hx([]byte("A")), hx([]byte("B")), bhex(b.d), bhex(rb.d), bhex(px), bhex(py), bhex(ra.x), bhex(ra.y)))
			}
		}
	}
}

func h32b(v *big.Int) []byte {
	b := v.Bytes()
	return append(make([]byte, 32-len(b)), b...)
}
