package main

// A three-level GMSSL PKI for C06 / C08: the trusted root of pkis() ("main CA") -> "main intermediate CA" ->
// signing / encryption / client end-entity certificates. Clients and servers of these cases trust ONLY the root, so
// a handshake completes exactly when the intermediate travels in the Certificate message and the peer uses it:
// GM/T 0024 lays the server's message out as signing certificate, encryption certificate, CA chain.
//
// Further intermediates for the attacks of C08: `foreign` carries the same subject name but another key and is
// issued by the CA nobody trusts; `expired` is the genuine intermediate key and name with a validity period that has
// ended.

import (
	"bytes"
	"crypto/x509/pkix"
	"math/big"
	"sync"
	"time"

	"github.com/tjfoc/gmsm/gmtls"
	"github.com/tjfoc/gmsm/sm2"
	"github.com/tjfoc/gmsm/x509"
)

type interPKI struct {
	inter, foreign, expired *x509.Certificate
	sign, enc, client       gmtls.Certificate // Certificate = the end-entity certificate alone
}

var (
	interOnce sync.Once
	interP    interPKI
)

const interCN = "main intermediate CA"

func issueCA(parent *x509.Certificate, parentKey *sm2.PrivateKey, keyID int, serial int64, cn string, nb, na time.Time) *x509.Certificate {
	key := keyFor(keyID)
	t := &x509.Certificate{SerialNumber: big.NewInt(serial), Subject: pkix.Name{CommonName: cn}, NotBefore: nb, NotAfter: na,
		IsCA: true, BasicConstraintsValid: true, KeyUsage: x509.KeyUsageCertSign | x509.KeyUsageCRLSign, SignatureAlgorithm: x509.SM2WithSM3}
	der, err := x509.CreateCertificate(t, parent, &key.PublicKey, parentKey)
	if err != nil {
		panic(err)
	}
	c, err := x509.ParseCertificate(der)
	if err != nil {
		panic(err)
	}
	return c
}

func interPKIs() *interPKI {
	m, o, _ := pkis()
	interOnce.Do(func() {
		p := &interP
		p.inter = issueCA(m.ca, m.caKey, 2400, 2400, interCN, tlsEpoch.Add(-48*time.Hour), tlsEpoch.Add(48*time.Hour))
		p.foreign = issueCA(o.ca, o.caKey, 2500, 2500, interCN, tlsEpoch.Add(-48*time.Hour), tlsEpoch.Add(48*time.Hour))
		p.expired = issueCA(m.ca, m.caKey, 2400, 2490, interCN, tlsEpoch.Add(-72*time.Hour), tlsEpoch.Add(-1*time.Hour))
		sub := &gmPKI{ca: p.inter, caKey: keyFor(2400), serial: 2400 * 1000}
		p.sign = sub.issue(leafOpt{cn: "gm.test", dns: []string{"gm.test"}, ku: kuSign, eku: []x509.ExtKeyUsage{x509.ExtKeyUsageServerAuth}, keyID: 2401})
		p.enc = sub.issue(leafOpt{cn: "gm.test", dns: []string{"gm.test"}, ku: kuEnc, eku: []x509.ExtKeyUsage{x509.ExtKeyUsageServerAuth}, keyID: 2402})
		p.client = sub.issue(leafOpt{cn: "inter client", ku: kuSign, eku: []x509.ExtKeyUsage{x509.ExtKeyUsageClientAuth}, keyID: 2403})
	})
	return &interP
}

// withChain returns the key pair with CA certificates appended to its chain (`Certificate.Certificate`: "leaf first")
func withChain(c gmtls.Certificate, cas ...*x509.Certificate) gmtls.Certificate {
	out := gmtls.Certificate{PrivateKey: c.PrivateKey, Leaf: c.Leaf}
	out.Certificate = append(out.Certificate, c.Certificate[0])
	for _, ca := range cas {
		out.Certificate = append(out.Certificate, ca.Raw)
	}
	return out
}

// gmExpectedCertList is the Certificate message a GMSSL server must send for its configured key pairs (GM/T 0024
// 6.4.4.2: signing certificate, encryption certificate, then the CA chain): the harness' own statement of the layout,
// against which the certificates the client reports are compared. For key pairs without chain it is their
// concatenation.
func gmExpectedCertList(certs []gmtls.Certificate) [][]byte {
	var list, rest [][]byte
	for i, c := range certs {
		ch := c.Certificate
		if i < 2 && len(ch) > 0 {
			list = append(list, ch[0])
			ch = ch[1:]
		}
		rest = append(rest, ch...)
	}
	n := len(list)
	for _, d := range rest {
		dup := false
		for _, s := range list[n:] {
			dup = dup || bytes.Equal(s, d)
		}
		if !dup {
			list = append(list, d)
		}
	}
	return list
}

// interLayout: the ways of supplying a server's two key pairs whose certificates come from the intermediate CA
func interLayout(layout string, ca *x509.Certificate) ([]gmtls.Certificate, bool) {
	p := interPKIs()
	switch layout {
	case "gmt": // sign | enc + chain
		return []gmtls.Certificate{p.sign, withChain(p.enc, ca)}, true
	case "both": // what LoadX509KeyPair makes of two full-chain PEM files
		return []gmtls.Certificate{withChain(p.sign, ca), withChain(p.enc, ca)}, true
	case "signchain":
		return []gmtls.Certificate{withChain(p.sign, ca), p.enc}, true
	case "third": // the CA certificates as a third entry of Config.Certificates
		return []gmtls.Certificate{p.sign, p.enc, {Certificate: [][]byte{ca.Raw}}}, true
	case "none": // the intermediate is not supplied at all: nobody who trusts only the root can verify this server
		return []gmtls.Certificate{p.sign, p.enc}, true
	}
	return nil, false
}
