package main

// C08, certificates issued by an intermediate CA (PKI: harness/tlsinter.go). The client trusts the root only.
//
//	s-inter-ok            sign | enc + intermediate            (the GM/T 0024 message: sign, enc, CA)   must complete
//	s-inter-ok-both       sign + intermediate | enc + intermediate                                       must complete
//	s-inter-ok-signchain  sign + intermediate | enc                                                      must complete
//	s-inter-ok-third      sign | enc | intermediate as a third key pair entry                            must complete
//	s-inter-missing       the intermediate is not sent                                                   must abort
//	s-inter-foreign       instead of it, a CA certificate with the same name but another key, issued by
//	                      a CA the client does not trust                                                 must abort
//	s-inter-expired       the intermediate's name and key in a certificate whose validity has ended      must abort
//
// ccert viainter: the client's certificate is issued by the intermediate and sent with it (a verifying server
// accepts: processCertsFromClient pools certs[1:]); viainter-nochain: sent alone (a verifying server refuses).

import "github.com/tjfoc/gmsm/gmtls"

var c08InterAttacks = []string{"s-inter-ok", "s-inter-ok-both", "s-inter-ok-signchain", "s-inter-ok-third", "s-inter-missing", "s-inter-foreign", "s-inter-expired"}

func c08InterServer(attack string) []gmtls.Certificate {
	p := interPKIs()
	layout, ca := "gmt", p.inter
	switch attack {
	case "s-inter-ok-both":
		layout = "both"
	case "s-inter-ok-signchain":
		layout = "signchain"
	case "s-inter-ok-third":
		layout = "third"
	case "s-inter-missing":
		layout = "none"
	case "s-inter-foreign":
		ca = p.foreign
	case "s-inter-expired":
		ca = p.expired
	}
	pairs, _ := interLayout(layout, ca)
	return pairs
}

func c08InterClient(ccert string) gmtls.Certificate {
	p := interPKIs()
	if ccert == "viainter" {
		return withChain(p.client, p.inter)
	}
	return p.client
}

func c08InterGen(su string, policies []string, op func(suite, pol, attack, cc string, isv int, params ...int)) {
	for _, a := range c08InterAttacks {
		op(su, "none", a, "absent", 0)
		op(su, "none", a, "absent", 1)
		op(su, "requireverify", a, "viainter", 0)
		op(su, "verifyifgiven", a, "viainter-nochain", 0)
	}
	for _, pol := range policies {
		op(su, pol, "honest", "viainter", 0)
		op(su, pol, "honest", "viainter-nochain", 0)
	}
}
