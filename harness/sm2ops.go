package main

import (
	"bytes"
	"fmt"
	"io"
	"math/big"
	"strconv"
	"strings"
	"time"

	"github.com/tjfoc/gmsm/gmtls"
	"github.com/tjfoc/gmsm/sm2"
)

func init() {
	evals["ecsmul"] = evalEcsmul
	evals["mecsmul"] = evalEcsmul
	evals["mecbase"] = evalEcbase
	evals["mecadd"] = evalEcadd
	evals["mecdbl"] = evalEcdbl
	evals["mecon"] = evalEcon
	evals["wnaf"] = evalWnaf
	evals["ecbase"] = evalEcbase
	evals["ecadd"] = evalEcadd
	evals["ecdbl"] = evalEcdbl
	evals["econ"] = evalEcon
	evals["eckeygen"] = evalEckeygen
	evals["sm2sign"] = evalSm2sign
	evals["sm2fresh"] = evalSm2fresh
	evals["sm2obj"] = evalSm2obj
	evals["ecsmulseq"] = evalEcsmulseq
	evals["sm2verifye"] = evalSm2verifye
	evals["sm2signder"] = evalSm2signder
	evals["sm2verify"] = evalSm2verify
	evals["sm2verifyder"] = evalSm2verifyder
	evals["tlssigv"] = evalTlssigv
	evals["sm2enc"] = evalSm2enc
	evals["sm2dec"] = evalSm2dec
	evals["sm2kex"] = evalSm2kex
	evals["sm2kexbad"] = evalSm2kexbad
}

func bi(s string) (*big.Int, bool) {
	b, ok := unhx(s)
	if !ok {
		return nil, false
	}
	return new(big.Int).SetBytes(b), true
}

func h32(v *big.Int) string {
	if v == nil {
		return "nil"
	}
	b := v.Bytes()
	if len(b) < 32 {
		b = append(make([]byte, 32-len(b)), b...)
	}
	return hx(b)
}

func pt(x, y *big.Int) string { return h32(x) + " " + h32(y) }

// ptOwn: format a result and then use the two integers as scratch, as their owner may (x.Add(x, e) is what
// sm2.Verify itself does with the result of Add): a later call must not see it - results are fresh values,
// never shared between calls (ops of one worker process run one after the other)
func ptOwn(x, y *big.Int) string {
	s := pt(x, y)
	if x != nil && y != nil {
		x.Add(x, big.NewInt(0x5eed)).Lsh(x, 3)
		y.SetInt64(-7)
	}
	return s
}

func args2big(args []string) ([]*big.Int, bool) {
	var out []*big.Int
	for _, a := range args {
		v, ok := bi(a)
		if !ok {
			return nil, false
		}
		out = append(out, v)
	}
	return out, true
}

// ecsmul <x> <y> <k bytes>
func evalEcsmul(args []string) string {
	if len(args) != 3 {
		return "bad-op"
	}
	v, ok := args2big(args[:2])
	k, ok2 := unhx(args[2])
	if !ok || !ok2 {
		return "bad-op"
	}
	kc := append([]byte{}, k...)
	x, y := sm2.P256Sm2().ScalarMult(v[0], v[1], k)
	if !bytes.Equal(k, kc) {
		return "ORACLE-FAIL:scalar-modified"
	}
	return ptOwn(x, y)
}

// ecsmulseq <x,y,k> <x,y,k> ... : several ScalarMult calls in a row in one process (state kept between calls -
// caches of tables of the last point - must not show): the results, "/"-separated
func evalEcsmulseq(args []string) string {
	var out []string
	for _, a := range args {
		f := strings.Split(a, ",")
		if len(f) != 3 {
			return "bad-op"
		}
		out = append(out, evalEcsmul(f))
	}
	return strings.Join(out, "/")
}

func evalEcbase(args []string) string {
	if len(args) != 1 {
		return "bad-op"
	}
	k, ok := unhx(args[0])
	if !ok {
		return "bad-op"
	}
	x, y := sm2.P256Sm2().ScalarBaseMult(k)
	return ptOwn(x, y)
}

func evalEcadd(args []string) string {
	v, ok := args2big(args)
	if !ok || len(v) != 4 {
		return "bad-op"
	}
	c := [4]*big.Int{new(big.Int).Set(v[0]), new(big.Int).Set(v[1]), new(big.Int).Set(v[2]), new(big.Int).Set(v[3])}
	x, y := sm2.P256Sm2().Add(v[0], v[1], v[2], v[3])
	for i := range c {
		if c[i].Cmp(v[i]) != 0 {
			return "ORACLE-FAIL:input-modified"
		}
	}
	return ptOwn(x, y)
}

func evalEcdbl(args []string) string {
	v, ok := args2big(args)
	if !ok || len(v) != 2 {
		return "bad-op"
	}
	x, y := sm2.P256Sm2().Double(v[0], v[1])
	return ptOwn(x, y)
}

func evalEcon(args []string) string {
	v, ok := args2big(args)
	if !ok || len(v) != 2 {
		return "bad-op"
	}
	if sm2.P256Sm2().IsOnCurve(v[0], v[1]) {
		return "1"
	}
	return "0"
}

// eckeygen <rand bytes> : "d x y"
func evalEckeygen(args []string) string {
	if len(args) != 1 {
		return "bad-op"
	}
	rnd, ok := unhx(args[0])
	if !ok {
		return "bad-op"
	}
	fr := &fixedRand{rnd}
	k, err := sm2.GenerateKey(fr)
	if err != nil {
		return "err"
	}
	return fmt.Sprintf("%s %s %s %d", h32(k.D), h32(k.X), h32(k.Y), len(rnd)-len(fr.b))
}

// sm2obj: while set, privFromD / pubFromXY hand out this ONE key object (and its embedded public key) for the
// matching key, so that a sequence of operations runs on a reused object
var sm2ObjOverride *sm2.PrivateKey

// sm2obj <d> <op> ... : ops s:<uid>:<msg>:<rand> (sign) | v:<uid>:<msg>:<r>:<s> (verify) | e:<mode>:<msg>:<rand>
// (encrypt) | d:<mode>:<ct> (decrypt), all on one *PrivateKey object; the results "/"-separated, each exactly what the
// single op prints. Afterwards the object's D, X, Y must be what they were.
func evalSm2obj(args []string) string {
	if len(args) < 2 {
		return "bad-op"
	}
	d, ok := bi(args[0])
	if !ok {
		return "bad-op"
	}
	obj := privFromD(d)
	d0, x0, y0 := new(big.Int).Set(obj.D), new(big.Int).Set(obj.X), new(big.Int).Set(obj.Y)
	sm2ObjOverride = obj
	defer func() { sm2ObjOverride = nil }()
	var out []string
	for _, a := range args[1:] {
		f := strings.Split(a, ":")
		switch {
		case f[0] == "s" && len(f) == 4:
			out = append(out, evalSm2sign([]string{args[0], f[1], f[2], f[3]}))
		case f[0] == "v" && len(f) == 5:
			out = append(out, evalSm2verify([]string{h32(x0), h32(y0), f[1], f[2], f[3], f[4]}))
		case f[0] == "e" && len(f) == 4:
			out = append(out, evalSm2enc([]string{h32(x0), h32(y0), f[1], f[2], f[3]}))
		case f[0] == "d" && len(f) == 3:
			out = append(out, evalSm2dec([]string{args[0], f[1], f[2]}))
		default:
			return "bad-op"
		}
		if obj.D.Cmp(d0) != 0 || obj.X.Cmp(x0) != 0 || obj.Y.Cmp(y0) != 0 {
			return "ORACLE-FAIL:key-object-modified-by:" + f[0]
		}
	}
	return strings.Join(out, "/")
}

func privFromD(d *big.Int) *sm2.PrivateKey {
	if o := sm2ObjOverride; o != nil && o.D.Cmp(d) == 0 {
		return o
	}
	c := sm2.P256Sm2()
	k := new(sm2.PrivateKey)
	k.Curve = c
	k.D = new(big.Int).Set(d)
	k.X, k.Y = c.ScalarBaseMult(d.Bytes())
	return k
}

func pubFromXY(x, y *big.Int) *sm2.PublicKey {
	if o := sm2ObjOverride; o != nil && o.X.Cmp(x) == 0 && o.Y.Cmp(y) == 0 {
		return &o.PublicKey
	}
	return &sm2.PublicKey{Curve: sm2.P256Sm2(), X: x, Y: y}
}

// sm2sign <d> <uid> <msg> <rand> : "r s"
func evalSm2sign(args []string) string {
	if len(args) != 4 {
		return "bad-op"
	}
	d, ok := bi(args[0])
	uid, ok2 := unhx(args[1])
	msg, ok3 := unhx(args[2])
	rnd, ok4 := unhx(args[3])
	if !ok || !ok2 || !ok3 || !ok4 {
		return "bad-op"
	}
	if args[1] == "-" {
		uid = nil
	}
	fr := &fixedRand{rnd}
	r, s, err := sm2.Sm2Sign(privFromD(d), msg, uid, shortReads(fr, rnd))
	if err != nil {
		return "err"
	}
	return fmt.Sprintf("%s %s %d", h32(r), h32(s), len(rnd)-len(fr.b))
}

// sm2signder <d> <msg> <rand> : DER signature from PrivateKey.Sign
func evalSm2signder(args []string) string {
	if len(args) != 3 {
		return "bad-op"
	}
	d, ok := bi(args[0])
	msg, ok3 := unhx(args[1])
	rnd, ok4 := unhx(args[2])
	if !ok || !ok3 || !ok4 {
		return "bad-op"
	}
	sig, err := privFromD(d).Sign(shortReads(&fixedRand{rnd}, rnd), msg, nil)
	if err != nil {
		return "err"
	}
	return hx(sig)
}

// sm2verify <x> <y> <uid> <msg> <r> <s>
func evalSm2verify(args []string) string {
	if len(args) != 6 {
		return "bad-op"
	}
	x, ok1 := bi(args[0])
	y, ok2 := bi(args[1])
	uid, ok3 := unhx(args[2])
	msg, ok4 := unhx(args[3])
	r, ok5 := bi(args[4])
	s, ok6 := bi(args[5])
	if !ok1 || !ok2 || !ok3 || !ok4 || !ok5 || !ok6 {
		return "bad-op"
	}
	if args[2] == "-" {
		uid = nil
	}
	if sm2.Sm2Verify(pubFromXY(x, y), msg, uid, r, s) {
		return "1"
	}
	return "0"
}

// sm2verifye <x> <y> <e> <r> <s> : the digest-level entry point sm2.Verify(pub, hash, r, s)
func evalSm2verifye(args []string) string {
	if len(args) != 5 {
		return "bad-op"
	}
	x, ok1 := bi(args[0])
	y, ok2 := bi(args[1])
	e, ok3 := unhx(args[2])
	r, ok4 := bi(args[3])
	s, ok5 := bi(args[4])
	if !ok1 || !ok2 || !ok3 || !ok4 || !ok5 {
		return "bad-op"
	}
	if sm2.Verify(pubFromXY(x, y), e, r, s) {
		return "1"
	}
	return "0"
}

// sm2verifyder <x> <y> <msg> <sig>
func evalSm2verifyder(args []string) string {
	if len(args) != 4 {
		return "bad-op"
	}
	x, ok1 := bi(args[0])
	y, ok2 := bi(args[1])
	msg, ok4 := unhx(args[2])
	sig, ok5 := unhx(args[3])
	if !ok1 || !ok2 || !ok4 || !ok5 {
		return "bad-op"
	}
	if pubFromXY(x, y).Verify(msg, sig) {
		return "1"
	}
	return "0"
}

func modeOf(s string) int {
	if s == "c1c2c3" {
		return sm2.C1C2C3
	}
	return sm2.C1C3C2
}

// sm2enc <x> <y> <mode|asn1> <msg> <rand>
func evalSm2enc(args []string) string {
	if len(args) == 6 { // the private key, for the judge op of ./check; not used here
		args = args[:5]
	}
	if len(args) != 5 {
		return "bad-op"
	}
	x, ok1 := bi(args[0])
	y, ok2 := bi(args[1])
	msg, ok3 := unhx(args[3])
	rnd, ok4 := unhx(args[4])
	if !ok1 || !ok2 || !ok3 || !ok4 {
		return "bad-op"
	}
	pub := pubFromXY(x, y)
	enc := func(m []byte) ([]byte, error) {
		if args[2] == "asn1" {
			return sm2.EncryptAsn1(pub, m, shortReads(&fixedRand{append([]byte{}, rnd...)}, rnd))
		}
		return sm2.Encrypt(pub, m, shortReads(&fixedRand{append([]byte{}, rnd...)}, rnd), modeOf(args[2]))
	}
	if len(msg) == 0 {
		// every way of writing the empty plaintext: nil, empty non-nil, an empty slice of a larger buffer
		buf := make([]byte, 8)
		var res []string
		for _, m := range [][]byte{nil, {}, buf[:0], buf[3:3]} {
			ct, err := enc(m)
			if err != nil {
				res = append(res, "err")
			} else {
				res = append(res, hx(ct))
			}
		}
		for _, x := range res[1:] {
			if x != res[0] {
				return "ORACLE-FAIL:empty-plaintext-forms-differ:" + strings.Join(res, "/")
			}
		}
		// and with a random source that never ends (as crypto/rand): encryption of the empty plaintext terminates
		for i, m := range [][]byte{nil, {}, buf[:0]} {
			done := make(chan struct{})
			go func(m []byte) {
				defer close(done)
				defer func() { recover() }()
				if args[2] == "asn1" {
					sm2.EncryptAsn1(pub, m, newRng(uint64(77+i)))
				} else {
					sm2.Encrypt(pub, m, newRng(uint64(77+i)), modeOf(args[2]))
				}
			}(m)
			select {
			case <-done:
			case <-time.After(3 * time.Second):
				return "ORACLE-FAIL:hang:encrypt-of-empty-plaintext-does-not-terminate"
			}
		}
		return res[0]
	}
	ct, err := enc(msg)
	if err != nil {
		return "err"
	}
	return hx(ct)
}

// sm2dec <d> <mode|asn1> <ct>
func evalSm2dec(args []string) string {
	if len(args) != 3 {
		return "bad-op"
	}
	d, ok1 := bi(args[0])
	ct, ok2 := unhx(args[2])
	if !ok1 || !ok2 {
		return "bad-op"
	}
	priv := privFromD(d)
	ctc := append([]byte{}, ct...)
	var ptx []byte
	var err error
	if args[1] == "asn1" {
		ptx, err = sm2.DecryptAsn1(priv, ct)
	} else {
		ptx, err = sm2.Decrypt(priv, ct, modeOf(args[1]))
	}
	if !bytes.Equal(ct, ctc) {
		return "ORACLE-FAIL:ciphertext-modified"
	}
	if err != nil {
		return "err"
	}
	return "ok " + hx(ptx)
}

func kexSide(klen int, ida, idb []byte, self, selfEph *sm2.PrivateKey, peer, peerEph *sm2.PublicKey, isA bool) string {
	var k, s1, s2 []byte
	var err error
	if isA {
		k, s1, s2, err = sm2.KeyExchangeA(klen, ida, idb, self, peer, selfEph, peerEph)
	} else {
		k, s1, s2, err = sm2.KeyExchangeB(klen, ida, idb, self, peer, selfEph, peerEph)
	}
	if err != nil {
		return "err"
	}
	return hx(k) + "," + hx(s1) + "," + hx(s2)
}

// sm2kex <klen> <ida> <idb> <dA> <dB> <rA> <rB> : "<A's k,s1,s2> <B's k,s1,s2>"
func evalSm2kex(args []string) string {
	if len(args) != 7 {
		return "bad-op"
	}
	klen, err := strconv.Atoi(args[0])
	ida, ok1 := unhx(args[1])
	idb, ok2 := unhx(args[2])
	v, ok3 := args2big(args[3:])
	if err != nil || !ok1 || !ok2 || !ok3 {
		return "bad-op"
	}
	da, db, ra, rb := privFromD(v[0]), privFromD(v[1]), privFromD(v[2]), privFromD(v[3])
	a := kexSide(klen, ida, idb, da, ra, &db.PublicKey, &rb.PublicKey, true)
	b := kexSide(klen, ida, idb, db, rb, &da.PublicKey, &ra.PublicKey, false)
	// the long-term and ephemeral keys are the caller's: an exchange must leave them as they were, and a
	// second exchange with the same key objects must give the same result
	for i, k := range []*sm2.PrivateKey{da, db, ra, rb} {
		if k.D.Cmp(v[i]) != 0 {
			return "ORACLE-FAIL:private-key-modified-by-key-exchange"
		}
		x, y := sm2.P256Sm2().ScalarBaseMult(v[i].Bytes())
		if k.X.Cmp(x) != 0 || k.Y.Cmp(y) != 0 {
			return "ORACLE-FAIL:public-key-modified-by-key-exchange"
		}
	}
	if a2 := kexSide(klen, ida, idb, da, ra, &db.PublicKey, &rb.PublicKey, true); a2 != a {
		return "ORACLE-FAIL:second-exchange-with-the-same-keys-differs"
	}
	return a + " " + b
}

// sm2kexbad <role A|B> <klen> <ida> <idb> <dSelf> <rSelf> <peerX> <peerY> <ephX> <ephY> : one side with an arbitrary peer ephemeral point
func evalSm2kexbad(args []string) string {
	if len(args) != 10 {
		return "bad-op"
	}
	klen, err := strconv.Atoi(args[1])
	ida, ok1 := unhx(args[2])
	idb, ok2 := unhx(args[3])
	v, ok3 := args2big(args[4:])
	if err != nil || !ok1 || !ok2 || !ok3 {
		return "bad-op"
	}
	self, eph := privFromD(v[0]), privFromD(v[1])
	return kexSide(klen, ida, idb, self, eph, pubFromXY(v[2], v[3]), pubFromXY(v[4], v[5]), args[0] == "A")
}

// wnaf <k bytes> : the windowed-NAF digits ScalarMult uses, most significant first
func evalWnaf(args []string) string {
	if len(args) != 1 {
		return "bad-op"
	}
	k, ok := unhx(args[0])
	if !ok {
		return "bad-op"
	}
	var out []string
	for _, d := range sm2.VerifWNaf(k) {
		out = append(out, strconv.Itoa(int(d)))
	}
	return join(out)
}

// shortReads hands the bytes of a fixed random stream out in reads of 1, 7, 16 or 39 bytes (or unrestricted),
// chosen by the stream itself: a source of randomness may return fewer bytes than asked for without an error
// (io.Reader contract), and the library must keep reading until it has what it needs.
type chunkedRand struct {
	f     *fixedRand
	chunk int
}

func (c *chunkedRand) Read(p []byte) (int, error) {
	if c.chunk > 0 && len(p) > c.chunk {
		p = p[:c.chunk]
	}
	return c.f.Read(p)
}

// sm2fresh <d> <msg> <chunk> <seed> <n> : n signatures of one message with n independent random streams, each
// delivered <chunk> bytes per Read (0 = whole reads). Intrinsic oracle for "two signatures made with fresh
// randomness never share the same r" and for completeness: all r distinct, every signature verifies.
func evalSm2fresh(args []string) string {
	if len(args) != 5 {
		return "bad-op"
	}
	d, ok := bi(args[0])
	msg, ok2 := unhx(args[1])
	chunk, e1 := strconv.Atoi(args[2])
	seed, e2 := strconv.ParseUint(args[3], 10, 64)
	n, e3 := strconv.Atoi(args[4])
	if !ok || !ok2 || e1 != nil || e2 != nil || e3 != nil || n > 5000 {
		return "bad-op"
	}
	r := newRng(seed)
	priv := privFromD(d)
	seen := map[string]int{}
	for i := 0; i < n; i++ {
		stream := r.bytes(200)
		rr, ss, err := sm2.Sm2Sign(priv, msg, nil, &chunkedRand{&fixedRand{stream}, chunk})
		if err != nil {
			return "ORACLE-FAIL:sign-error"
		}
		if !sm2.Sm2Verify(&priv.PublicKey, msg, nil, rr, ss) {
			return "ORACLE-FAIL:own-signature-rejected"
		}
		if j, dup := seen[rr.String()]; dup {
			return fmt.Sprintf("ORACLE-FAIL:r-repeats:streams-%d-and-%d", j, i)
		}
		seen[rr.String()] = i
	}
	return "ok"
}

func shortReads(f *fixedRand, rnd []byte) io.Reader {
	k := 0
	if len(rnd) > 0 {
		k = []int{0, 1, 7, 16, 39}[int(rnd[len(rnd)-1])%5]
	}
	return &chunkedRand{f, k}
}

// tlssigv <ecdsa|sm2> <x> <y> <msg> <sig> : gmtls.verifyHandshakeSignature for a key on the SM2 curve (the signed
// "digest" is the message of an SM2 signature with the default ID); expected: exactly what sm2verifyder gives
func evalTlssigv(args []string) string {
	if len(args) != 5 {
		return "bad-op"
	}
	x, ok1 := bi(args[1])
	y, ok2 := bi(args[2])
	msg, ok4 := unhx(args[3])
	sig, ok5 := unhx(args[4])
	if !ok1 || !ok2 || !ok4 || !ok5 || (args[0] != "ecdsa" && args[0] != "sm2") {
		return "bad-op"
	}
	if gmtls.VerifHandshakeSig(args[0], x, y, msg, sig) == nil {
		return "1"
	}
	return "0"
}
