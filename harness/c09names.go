package main

import (
	"crypto/x509/pkix"
	"encoding/asn1"
	"fmt"
	"math/big"
	"net"
	"strconv"
	"strings"
	"time"

	"github.com/tjfoc/gmsm/x509"
)

// C09 name / identifier extensions: subjectAltName, nameConstraints, extKeyUsage, subjectKeyId, authorityKeyId,
// certificatePolicies, cRLDistributionPoints as x509.CreateCertificate writes them (the value bytes are taken
// out of the created certificate with a plain encoding/asn1 walk, so that they are seen even when the package
// cannot parse its own output) and as x509.ParseCertificate reads them (created values, and crafted values
// carried in ExtraExtensions), compared byte for byte / field for field with Model.X509Names.
//
// Lists: elements separated by `|`, empty list `-`; a byte-string element is hex, the empty one `_`; an OID
// element is dotted decimal.

func init() {
	evals["sanext"] = c09nEvalSanext
	evals["sanparse"] = c09nEvalSanparse
	evals["ncext"] = c09nEvalNcext
	evals["ncparse"] = c09nEvalNcparse
	evals["ekuext"] = c09nEvalEkuext
	evals["ekuparse"] = c09nEvalEkuparse
	evals["skiext"] = c09nEvalSkiext
	evals["skiparse"] = c09nEvalSkiparse
	evals["akiext"] = c09nEvalAkiext
	evals["akiparse"] = c09nEvalAkiparse
	evals["polext"] = c09nEvalPolext
	evals["polparse"] = c09nEvalPolparse
	evals["crlext"] = c09nEvalCrlext
	evals["crlparse"] = c09nEvalCrlparse
	evals["extlist"] = c09nEvalExtlist
	gens["C09names"] = c09nGen
}

var (
	c09nOidSKI  = asn1.ObjectIdentifier{2, 5, 29, 14}
	c09nOidSAN  = asn1.ObjectIdentifier{2, 5, 29, 17}
	c09nOidNC   = asn1.ObjectIdentifier{2, 5, 29, 30}
	c09nOidCRL  = asn1.ObjectIdentifier{2, 5, 29, 31}
	c09nOidPol  = asn1.ObjectIdentifier{2, 5, 29, 32}
	c09nOidAKI  = asn1.ObjectIdentifier{2, 5, 29, 35}
	c09nOidEKU  = asn1.ObjectIdentifier{2, 5, 29, 37}
	c09nOidAIA  = asn1.ObjectIdentifier{1, 3, 6, 1, 5, 5, 7, 1, 1}
	c09nOidBase = asn1.ObjectIdentifier{2, 5, 29}
)

// ---- list syntax ------------------------------------------------------------------------------------------

func c09nNames(s string) ([][]byte, bool) {
	if s == "-" {
		return nil, true
	}
	var out [][]byte
	for _, e := range strings.Split(s, "|") {
		if e == "_" {
			out = append(out, []byte{})
			continue
		}
		if e == "" || e == "-" {
			return nil, false
		}
		b, ok := unhx(e)
		if !ok {
			return nil, false
		}
		out = append(out, b)
	}
	return out, true
}

func c09nStrings(bs [][]byte) []string {
	var out []string
	for _, b := range bs {
		out = append(out, string(b))
	}
	return out
}

func c09nOIDs(s string) ([]asn1.ObjectIdentifier, bool) {
	if s == "-" {
		return nil, true
	}
	var out []asn1.ObjectIdentifier
	for _, e := range strings.Split(s, "|") {
		var oid asn1.ObjectIdentifier
		for _, a := range strings.Split(e, ".") {
			n, err := strconv.ParseUint(a, 10, 63)
			if err != nil {
				return nil, false
			}
			oid = append(oid, int(n))
		}
		out = append(out, oid)
	}
	return out, true
}

func c09nShowName(b []byte) string {
	if len(b) == 0 {
		return "_"
	}
	return hx(b)
}

func c09nShowNames(l [][]byte) string {
	if len(l) == 0 {
		return "-"
	}
	var out []string
	for _, b := range l {
		out = append(out, c09nShowName(b))
	}
	return strings.Join(out, "|")
}

func c09nShowStrings(l []string) string {
	var bs [][]byte
	for _, s := range l {
		bs = append(bs, []byte(s))
	}
	return c09nShowNames(bs)
}

func c09nShowOIDs(l []asn1.ObjectIdentifier) string {
	if len(l) == 0 {
		return "-"
	}
	var out []string
	for _, o := range l {
		var as []string
		for _, a := range o {
			as = append(as, strconv.Itoa(a))
		}
		out = append(out, strings.Join(as, "."))
	}
	return strings.Join(out, "|")
}

// ---- certificates around the extension -------------------------------------------------------------------

// c09nCreate creates a certificate from the template with the package under test: self-signed when parent is
// nil.  Returns the DER or "create-error"; a panic of the creator propagates to main.go ("panic").
func c09nCreate(t *x509.Certificate, subjectEmpty bool, parent *x509.Certificate) ([]byte, string) {
	k := keyFor(991)
	t.SerialNumber = big.NewInt(991)
	if !subjectEmpty {
		t.Subject = pkix.Name{CommonName: "c09n"}
	}
	t.NotBefore = time.Date(2024, 1, 1, 0, 0, 0, 0, time.UTC)
	t.NotAfter = time.Date(2034, 1, 1, 0, 0, 0, 0, time.UTC)
	t.SignatureAlgorithm = x509.SM2WithSM3
	if parent == nil {
		parent = t
	}
	der, err := x509.CreateCertificate(t, parent, &k.PublicKey, k)
	if err != nil {
		return nil, "create-error"
	}
	return der, ""
}

// the framing of a certificate, read with encoding/asn1 only (no x509 logic): the extension list
type c09nCertificate struct {
	TBS c09nTBS
	Alg asn1.RawValue
	Sig asn1.BitString
}
type c09nTBS struct {
	Version    int `asn1:"optional,explicit,default:0,tag:0"`
	Serial     *big.Int
	SigAlg     asn1.RawValue
	Issuer     asn1.RawValue
	Validity   asn1.RawValue
	Subject    asn1.RawValue
	SPKI       asn1.RawValue
	Extensions []pkix.Extension `asn1:"optional,explicit,tag:3"`
}

func c09nExtensions(der []byte) ([]pkix.Extension, bool) {
	var c c09nCertificate
	rest, err := asn1.Unmarshal(der, &c)
	if err != nil || len(rest) != 0 {
		return nil, false
	}
	return c.TBS.Extensions, true
}

// "<value hex | none | dup> crit=<0|1>" of the extension with the given id in the created certificate
func c09nExtOf(der []byte, id asn1.ObjectIdentifier) string {
	exts, ok := c09nExtensions(der)
	if !ok {
		return "frame-error"
	}
	res, crit, n := "none", false, 0
	for _, e := range exts {
		if e.Id.Equal(id) {
			n++
			res, crit = hx(e.Value), e.Critical
		}
	}
	if n > 1 {
		return "dup"
	}
	return res + " crit=" + c09xBit(crit)
}

// ParseCertificate of the package under test: the certificate, or "err" / "unhandled-critical"
func c09nParse(der []byte) (*x509.Certificate, string) {
	c, err := x509.ParseCertificate(der)
	if err != nil {
		if _, ok := err.(x509.UnhandledCriticalExtension); ok {
			return nil, "unhandled-critical"
		}
		return nil, "err"
	}
	return c, ""
}

// a certificate that carries the crafted extension (id, critical, value) in ExtraExtensions, parsed
func c09nParseWith(id asn1.ObjectIdentifier, critical bool, value []byte) (*x509.Certificate, string) {
	t := &x509.Certificate{ExtraExtensions: []pkix.Extension{{Id: id, Critical: critical, Value: value}}}
	der, e := c09nCreate(t, false, nil)
	if e != "" {
		return nil, e
	}
	return c09nParse(der)
}

func c09nUnhandled(c *x509.Certificate, id asn1.ObjectIdentifier) bool {
	for _, u := range c.UnhandledCriticalExtensions {
		if u.Equal(id) {
			return true
		}
	}
	return false
}

// ---- subjectAltName -----------------------------------------------------------------------------------------

func c09nShowSAN(c *x509.Certificate, e string) string {
	if e != "" {
		return e
	}
	var ips [][]byte
	for _, ip := range c.IPAddresses {
		ips = append(ips, []byte(ip))
	}
	return fmt.Sprintf("dns=%s em=%s ip=%s unh=%s", c09nShowStrings(c.DNSNames), c09nShowStrings(c.EmailAddresses),
		c09nShowNames(ips), c09xBit(c09nUnhandled(c, c09nOidSAN)))
}

// sanext <subjectEmpty 0|1> <dns> <emails> <ips> : <value hex | none> crit=<0|1> <parsed>
func c09nEvalSanext(args []string) string {
	if len(args) != 4 || (args[0] != "0" && args[0] != "1") {
		return "bad-op"
	}
	dns, ok1 := c09nNames(args[1])
	em, ok2 := c09nNames(args[2])
	ipb, ok3 := c09nNames(args[3])
	if !ok1 || !ok2 || !ok3 {
		return "bad-op"
	}
	var ips []net.IP
	for _, b := range ipb {
		ips = append(ips, net.IP(b))
	}
	der, e := c09nCreate(&x509.Certificate{DNSNames: c09nStrings(dns), EmailAddresses: c09nStrings(em), IPAddresses: ips}, args[0] == "1", nil)
	if e != "" {
		return e
	}
	c, e := c09nParse(der)
	return c09nExtOf(der, c09nOidSAN) + " " + c09nShowSAN(c, e)
}

// sanparse <critical 0|1> <value hex>
func c09nEvalSanparse(args []string) string {
	if len(args) != 2 || (args[0] != "0" && args[0] != "1") {
		return "bad-op"
	}
	v, ok := unhx(args[1])
	if !ok {
		return "bad-op"
	}
	return c09nShowSAN(c09nParseWith(c09nOidSAN, args[0] == "1", v))
}

// ---- nameConstraints ---------------------------------------------------------------------------------------

func c09nShowNC(c *x509.Certificate, e string) string {
	if e != "" {
		return e
	}
	return fmt.Sprintf("ok %s pc=%s", c09nShowStrings(c.PermittedDNSDomains), c09xBit(c.PermittedDNSDomainsCritical))
}

// ncext <critical 0|1> <permitted>
func c09nEvalNcext(args []string) string {
	if len(args) != 2 || (args[0] != "0" && args[0] != "1") {
		return "bad-op"
	}
	p, ok := c09nNames(args[1])
	if !ok {
		return "bad-op"
	}
	der, e := c09nCreate(&x509.Certificate{PermittedDNSDomains: c09nStrings(p), PermittedDNSDomainsCritical: args[0] == "1"}, false, nil)
	if e != "" {
		return e
	}
	c, e := c09nParse(der)
	return c09nExtOf(der, c09nOidNC) + " " + c09nShowNC(c, e)
}

func c09nEvalNcparse(args []string) string {
	if len(args) != 2 || (args[0] != "0" && args[0] != "1") {
		return "bad-op"
	}
	v, ok := unhx(args[1])
	if !ok {
		return "bad-op"
	}
	return c09nShowNC(c09nParseWith(c09nOidNC, args[0] == "1", v))
}

// ---- extKeyUsage ---------------------------------------------------------------------------------------------

func c09nShowEKU(c *x509.Certificate, e string) string {
	if e != "" {
		return e
	}
	known := "-"
	if len(c.ExtKeyUsage) > 0 {
		var ks []string
		for _, k := range c.ExtKeyUsage {
			ks = append(ks, strconv.Itoa(int(k)))
		}
		known = strings.Join(ks, "|")
	}
	return "known=" + known + " unknown=" + c09nShowOIDs(c.UnknownExtKeyUsage)
}

// the value part of c09nExtOf (these extensions are never critical: a critical one is reported as such)
func c09nValueOnly(s string) string {
	if strings.HasSuffix(s, " crit=0") {
		return strings.TrimSuffix(s, " crit=0")
	}
	return s
}

// ekuext <known usages> <unknown OIDs>
func c09nEvalEkuext(args []string) string {
	if len(args) != 2 {
		return "bad-op"
	}
	var known []x509.ExtKeyUsage
	if args[0] != "-" {
		for _, e := range strings.Split(args[0], "|") {
			n, err := strconv.Atoi(e)
			if err != nil || n < 0 {
				return "bad-op"
			}
			known = append(known, x509.ExtKeyUsage(n))
		}
	}
	unknown, ok := c09nOIDs(args[1])
	if !ok {
		return "bad-op"
	}
	der, e := c09nCreate(&x509.Certificate{ExtKeyUsage: known, UnknownExtKeyUsage: unknown}, false, nil)
	if e != "" {
		return e
	}
	c, e := c09nParse(der)
	return c09nValueOnly(c09nExtOf(der, c09nOidEKU)) + " " + c09nShowEKU(c, e)
}

func c09nEvalEkuparse(args []string) string {
	if len(args) != 1 {
		return "bad-op"
	}
	v, ok := unhx(args[0])
	if !ok {
		return "bad-op"
	}
	return c09nShowEKU(c09nParseWith(c09nOidEKU, false, v))
}

// ---- key identifiers -----------------------------------------------------------------------------------------

// skiext <id hex>
func c09nEvalSkiext(args []string) string {
	if len(args) != 1 {
		return "bad-op"
	}
	id, ok := unhx(args[0])
	if !ok {
		return "bad-op"
	}
	der, e := c09nCreate(&x509.Certificate{SubjectKeyId: id}, false, nil)
	if e != "" {
		return e
	}
	c, e := c09nParse(der)
	if e != "" {
		return c09nValueOnly(c09nExtOf(der, c09nOidSKI)) + " " + e
	}
	return c09nValueOnly(c09nExtOf(der, c09nOidSKI)) + " " + hx(c.SubjectKeyId)
}

func c09nEvalSkiparse(args []string) string {
	if len(args) != 1 {
		return "bad-op"
	}
	v, ok := unhx(args[0])
	if !ok {
		return "bad-op"
	}
	c, e := c09nParseWith(c09nOidSKI, false, v)
	if e != "" {
		return e
	}
	return hx(c.SubjectKeyId)
}

// akiext <sameName 0|1> <parent SubjectKeyId hex> <template AuthorityKeyId hex> : the parent is the template
// itself (sameName = 1: then its SubjectKeyId is the second argument) or another certificate with a different
// subject and that SubjectKeyId
func c09nEvalAkiext(args []string) string {
	if len(args) != 3 || (args[0] != "0" && args[0] != "1") {
		return "bad-op"
	}
	pski, ok1 := unhx(args[1])
	aki, ok2 := unhx(args[2])
	if !ok1 || !ok2 {
		return "bad-op"
	}
	t := &x509.Certificate{AuthorityKeyId: aki}
	var parent *x509.Certificate
	if args[0] == "1" {
		// the extension under test is the AKI: keep the template free of an SKI extension of its own by
		// presenting the parent as a copy with the same subject
		parent = &x509.Certificate{Subject: pkix.Name{CommonName: "c09n"}, SubjectKeyId: pski}
	} else {
		parent = &x509.Certificate{Subject: pkix.Name{CommonName: "c09n parent"}, SubjectKeyId: pski}
	}
	der, e := c09nCreate(t, false, parent)
	if e != "" {
		return e
	}
	c, e := c09nParse(der)
	if e != "" {
		return c09nValueOnly(c09nExtOf(der, c09nOidAKI)) + " " + e
	}
	return c09nValueOnly(c09nExtOf(der, c09nOidAKI)) + " " + hx(c.AuthorityKeyId)
}

func c09nEvalAkiparse(args []string) string {
	if len(args) != 1 {
		return "bad-op"
	}
	v, ok := unhx(args[0])
	if !ok {
		return "bad-op"
	}
	c, e := c09nParseWith(c09nOidAKI, false, v)
	if e != "" {
		return e
	}
	return hx(c.AuthorityKeyId)
}

// ---- certificatePolicies, cRLDistributionPoints ----------------------------------------------------------------

func c09nEvalPolext(args []string) string {
	if len(args) != 1 {
		return "bad-op"
	}
	oids, ok := c09nOIDs(args[0])
	if !ok {
		return "bad-op"
	}
	der, e := c09nCreate(&x509.Certificate{PolicyIdentifiers: oids}, false, nil)
	if e != "" {
		return e
	}
	c, e := c09nParse(der)
	if e != "" {
		return c09nValueOnly(c09nExtOf(der, c09nOidPol)) + " " + e
	}
	return c09nValueOnly(c09nExtOf(der, c09nOidPol)) + " " + c09nShowOIDs(c.PolicyIdentifiers)
}

func c09nEvalPolparse(args []string) string {
	if len(args) != 1 {
		return "bad-op"
	}
	v, ok := unhx(args[0])
	if !ok {
		return "bad-op"
	}
	c, e := c09nParseWith(c09nOidPol, false, v)
	if e != "" {
		return e
	}
	return c09nShowOIDs(c.PolicyIdentifiers)
}

func c09nEvalCrlext(args []string) string {
	if len(args) != 1 {
		return "bad-op"
	}
	uris, ok := c09nNames(args[0])
	if !ok {
		return "bad-op"
	}
	der, e := c09nCreate(&x509.Certificate{CRLDistributionPoints: c09nStrings(uris)}, false, nil)
	if e != "" {
		return e
	}
	c, e := c09nParse(der)
	if e != "" {
		return c09nValueOnly(c09nExtOf(der, c09nOidCRL)) + " " + e
	}
	return c09nValueOnly(c09nExtOf(der, c09nOidCRL)) + " " + c09nShowStrings(c.CRLDistributionPoints)
}

func c09nEvalCrlparse(args []string) string {
	if len(args) != 1 {
		return "bad-op"
	}
	v, ok := unhx(args[0])
	if !ok {
		return "bad-op"
	}
	c, e := c09nParseWith(c09nOidCRL, false, v)
	if e != "" {
		return e
	}
	return c09nShowStrings(c.CRLDistributionPoints)
}

// ---- which extensions, in which order -------------------------------------------------------------------------

// extlist <subjectEmpty 0|1> <14 flags: ku eku ueku bc ski aki aia dns em ip pol perm permcrit crl>
func c09nEvalExtlist(args []string) string {
	if len(args) != 2 || (args[0] != "0" && args[0] != "1") || len(args[1]) != 14 || strings.Trim(args[1], "01") != "" {
		return "bad-op"
	}
	f := func(i int) bool { return args[1][i] == '1' }
	t := &x509.Certificate{}
	if f(0) {
		t.KeyUsage = x509.KeyUsageDigitalSignature
	}
	if f(1) {
		t.ExtKeyUsage = []x509.ExtKeyUsage{x509.ExtKeyUsageServerAuth}
	}
	if f(2) {
		t.UnknownExtKeyUsage = []asn1.ObjectIdentifier{{1, 2, 3}}
	}
	t.BasicConstraintsValid = f(3)
	if f(4) {
		t.SubjectKeyId = []byte{1}
	}
	if f(5) {
		t.AuthorityKeyId = []byte{2}
	}
	if f(6) {
		t.OCSPServer = []string{"http://o"}
	}
	if f(7) {
		t.DNSNames = []string{"a"}
	}
	if f(8) {
		t.EmailAddresses = []string{"b"}
	}
	if f(9) {
		t.IPAddresses = []net.IP{{1, 2, 3, 4}}
	}
	if f(10) {
		t.PolicyIdentifiers = []asn1.ObjectIdentifier{{1, 2, 4}}
	}
	if f(11) {
		t.PermittedDNSDomains = []string{"c"}
	}
	t.PermittedDNSDomainsCritical = f(12)
	if f(13) {
		t.CRLDistributionPoints = []string{"d"}
	}
	der, e := c09nCreate(t, args[0] == "1", nil)
	if e != "" {
		return e
	}
	exts, ok := c09nExtensions(der)
	if !ok {
		return "frame-error"
	}
	var out []string
	for _, x := range exts {
		s := "?"
		if len(x.Id) == 4 && x.Id[:3].Equal(c09nOidBase) {
			s = strconv.Itoa(x.Id[3])
		} else if x.Id.Equal(c09nOidAIA) {
			s = "1"
		}
		if x.Critical {
			s += "c"
		}
		out = append(out, s)
	}
	if len(out) == 0 {
		return "-"
	}
	return strings.Join(out, ",")
}

// ---- generator --------------------------------------------------------------------------------------------------

// DER length octets / TLV with an arbitrary identifier octet string
func c09nLen(n int) []byte {
	if n < 128 {
		return []byte{byte(n)}
	}
	var b []byte
	for m := n; m > 0; m >>= 8 {
		b = append([]byte{byte(m)}, b...)
	}
	return append([]byte{0x80 | byte(len(b))}, b...)
}

func c09nTLV(id []byte, content []byte) []byte {
	out := append([]byte{}, id...)
	out = append(out, c09nLen(len(content))...)
	return append(out, content...)
}

func c09nT(id byte, content []byte) []byte { return c09nTLV([]byte{id}, content) }

func c09nCat(parts ...[]byte) []byte {
	var out []byte
	for _, p := range parts {
		out = append(out, p...)
	}
	return out
}

// name bytes: mostly letters, sometimes NUL / high bytes / arbitrary
func c09nName(r *rng, n int, ia5 bool) []byte {
	b := make([]byte, n)
	mode := r.intn(6)
	for i := range b {
		switch {
		case mode == 0 && !ia5:
			b[i] = byte(r.u64())
		case mode == 1:
			b[i] = byte(r.intn(128))
		default:
			b[i] = "abcdefghijklmnopqrstuvwxyz0123456789.-@"[r.intn(39)]
		}
	}
	if n > 0 && mode == 2 && !ia5 {
		b[r.intn(n)] = byte(0x80 + r.intn(128))
	}
	if n > 0 && mode == 3 {
		b[r.intn(n)] = 0
	}
	return b
}

func c09nIP(r *rng) []byte {
	switch r.intn(10) {
	case 0, 1, 2:
		return r.bytes(4)
	case 3, 4:
		return r.bytes(16)
	case 5, 6:
		return append([]byte{0, 0, 0, 0, 0, 0, 0, 0, 0, 0, 0xff, 0xff}, r.bytes(4)...)
	case 7: // almost IPv4-mapped
		b := append([]byte{0, 0, 0, 0, 0, 0, 0, 0, 0, 0, 0xff, 0xff}, r.bytes(4)...)
		b[r.intn(12)] ^= byte(1 << uint(r.intn(8)))
		return b
	case 8:
		return r.bytes(r.pick([]int{0, 1, 3, 5, 12, 15, 17, 32}))
	default:
		return make([]byte, r.pick([]int{4, 16}))
	}
}

var c09nLens = []int{0, 1, 2, 63, 64, 126, 127, 128, 129, 255, 256, 257}

func c09nNameList(r *rng, ia5 bool, maxN int) [][]byte {
	var l [][]byte
	for n := r.intn(maxN + 1); n > 0; n-- {
		ln := r.intn(20)
		if r.chance(1, 3) {
			ln = r.pick(c09nLens)
		}
		l = append(l, c09nName(r, ln, ia5))
	}
	return l
}

func c09nOIDStr(r *rng) string {
	arcs := []string{"0", "1", "39", "40", "127", "128", "16383", "16384", "2097151", "2097152", "268435455", "268435456",
		"2147483647", "2147483648", "4294967295", "34359738367", "34359738368", "9223372036854775807"}
	corner := []string{"2.39", "2.40", "2.999", "1.39", "0.0", "0.39", "1.0", "2.0", "2.47", "2.48", "2.2147483567", "2.2147483568",
		"2.9223372036854775727", "2.9223372036854775728", "2.9223372036854775807", "1.40", "0.40", "3.1", "2", "1", "2.5.29.37.0",
		"1.3.6.1.5.5.7.3.1", "1.3.6.1.5.5.7.3.9", "2.16.840.1.113730.4.1", "1.3.6.1.4.1.311.10.3.3", "1.3.6.1.5.5.7.3.10", "1.3.6.1.5.5.7.3"}
	var s string
	switch r.intn(4) {
	case 0:
		s = corner[r.intn(len(corner))]
		if r.chance(1, 2) || !strings.Contains(s, ".") {
			return s
		}
	case 1:
		s = fmt.Sprintf("2.%d", r.intn(3000))
	default:
		s = fmt.Sprintf("%d.%d", r.intn(2), r.intn(40))
	}
	for n := r.intn(5); n > 0; n-- {
		if r.chance(1, 3) {
			s += "." + arcs[r.intn(len(arcs))]
		} else {
			s += "." + strconv.Itoa(r.intn(1<<uint(1+r.intn(31))))
		}
	}
	return s
}

func c09nOIDList(r *rng, maxN int) string {
	var l []string
	for n := r.intn(maxN + 1); n > 0; n-- {
		l = append(l, c09nOIDStr(r))
	}
	if len(l) == 0 {
		return "-"
	}
	return strings.Join(l, "|")
}

// content octets of an OBJECT IDENTIFIER for the parse direction: valid and invalid base-128 strings
func c09nOIDContent(r *rng) []byte {
	switch r.intn(30) {
	case 0:
		return []byte{}
	case 1:
		return []byte{0x80, 0x01} // leading 0x80
	case 2:
		return []byte{0x2a, 0x80, 0x01} // leading 0x80 in a later subidentifier
	case 3:
		return []byte{0x2a, 0x81} // truncated
	case 4:
		return []byte{0x2a, 0x87, 0xff, 0xff, 0xff, 0x7f} // MaxInt32
	case 5:
		return []byte{0x2a, 0x88, 0x80, 0x80, 0x80, 0x00} // MaxInt32 + 1
	case 6:
		return []byte{0x2a, 0x81, 0x80, 0x80, 0x80, 0x80, 0x00} // six octets
	case 7:
		return []byte{byte(r.intn(256))}
	case 8:
		return []byte{0x88, 0x80, 0x80, 0x80, 0x4f, 0x01} // first subidentifier MaxInt32+80 > limit
	case 9:
		return []byte{0x87, 0xff, 0xff, 0xff, 0x7f} // 2.(MaxInt32-80)
	case 10:
		return r.bytes(1 + r.intn(8))
	default: // well formed: first octet below 0x80 or a two-octet first subidentifier, then arcs below 2^31
		out := []byte{byte(r.intn(128))}
		if r.chance(1, 4) {
			out = c09nB128(80 + r.intn(3000))
		}
		for k := r.intn(5); k > 0; k-- {
			out = append(out, c09nB128(r.intn(1<<uint(1+r.intn(31))))...)
		}
		return out
	}
}

// base-128 octets of n (the test generator's own encoder)
func c09nB128(n int) []byte {
	out := []byte{byte(n & 0x7f)}
	for n >>= 7; n > 0; n >>= 7 {
		out = append([]byte{byte(n&0x7f) | 0x80}, out...)
	}
	return out
}

// identifier octets for GeneralName-like elements
func c09nIdOctets(r *rng) []byte {
	switch r.intn(12) {
	case 0:
		return []byte{byte(r.pick([]int{0x01, 0x02, 0x07}))} // universal BOOLEAN / INTEGER / ObjectDescriptor numbers
	case 1:
		return []byte{byte(r.pick([]int{0x41, 0x42, 0x47, 0xc1, 0xc2, 0xc7}))} // application / private class
	case 2:
		return []byte{byte(r.pick([]int{0xa1, 0xa2, 0xa7, 0x21, 0x22, 0x27}))} // constructed
	case 3:
		return []byte{byte(r.pick([]int{0x80, 0x83, 0x84, 0x85, 0x86, 0x88, 0xa0, 0xa4, 0x9e}))}
	case 4: // high tag number form
		return [][]byte{{0x9f, 0x1f}, {0x9f, 0x21}, {0x9f, 0x01}, {0x9f, 0x07}, {0x9f, 0x80, 0x21}, {0x9f, 0x81, 0x00}, {0x9f, 0x87, 0xff, 0xff, 0xff, 0x7f},
			{0x9f, 0x88, 0x80, 0x80, 0x80, 0x00}, {0x9f, 0x81}, {0x9f, 0x1e}, {0xbf, 0x22}, {0x1f, 0x1f}}[r.intn(12)]
	default:
		return []byte{byte(r.pick([]int{0x81, 0x82, 0x87}))}
	}
}

// one GeneralName-like element for the SAN parse direction
func c09nSANElem(r *rng) []byte {
	id := c09nIdOctets(r)
	var c []byte
	if id[len(id)-1]&0x1f == 7 && len(id) == 1 {
		c = c09nIP(r)
	} else {
		ln := r.intn(12)
		if r.chance(1, 6) {
			ln = r.pick(c09nLens)
		}
		c = c09nName(r, ln, false)
	}
	return c09nTLV(id, c)
}

// damage a well-formed value: truncate, extend, flip, rewrite a length
func c09nMutate(r *rng, v []byte) []byte {
	out := append([]byte{}, v...)
	switch r.intn(9) {
	case 0:
		if len(out) > 0 {
			out = out[:r.intn(len(out))]
		}
	case 1:
		out = append(out, r.bytes(1+r.intn(3))...)
	case 2, 3:
		if len(out) > 0 {
			out[r.intn(len(out))] ^= byte(1 << uint(r.intn(8)))
		}
	case 4:
		if len(out) > 1 {
			out[1] = byte(r.pick([]int{0x80, 0x81, 0x82, 0x84, 0x85, 0x7f, 0x00, 0xff}))
		}
	case 5: // non-minimal long form of the outer length
		if len(out) > 1 && out[1] < 0x80 {
			out = c09nCat(out[:1], [][]byte{{0x81, out[1]}, {0x82, 0, out[1]}, {0x84, 0, 0, 0, out[1]}}[r.intn(3)], out[2:])
		}
	case 6:
		if len(out) > 0 {
			out[r.intn(len(out))] = byte(r.u64())
		}
	case 7:
		if len(out) > 2 {
			i := 2 + r.intn(len(out)-2)
			out = c09nCat(out[:i], r.bytes(1), out[i:])
		}
	default:
		if len(out) > 2 {
			i := 2 + r.intn(len(out)-2)
			out = c09nCat(out[:i], out[i+1:])
		}
	}
	return out
}

func c09nB(b bool) string {
	if b {
		return "1"
	}
	return "0"
}

// c09nGen: about 400 ops quick, 4000 thorough.
func c09nGen(r *rng, tier string, emit func(string)) {
	n := 1
	if tier == "thorough" {
		n = 10
	}
	rep := func(k int, f func()) {
		for i := 0; i < k*n; i++ {
			f()
		}
	}
	nm := func(ln int) []byte { return c09nName(r, ln, true) }

	// --- SAN, create direction: the fixed corners (every tier) -------------------------------------------------
	for _, ln := range []int{0, 1, 63, 127, 128, 255, 256, 65535, 65536} {
		emit(fmt.Sprintf("sanext 0 %s - -", c09nShowName(nm(ln))))
		emit(fmt.Sprintf("sanext %d - %s -", ln%2, c09nShowName(nm(ln))))
	}
	// the content of the SEQUENCE crosses 127/128, 255/256, 65535/65536 (one element, and three elements)
	for _, total := range []int{126, 127, 128, 129, 254, 255, 256, 257, 65534, 65535, 65536, 65537} {
		hdr := 2
		if total-2 >= 128 {
			hdr = 3
		}
		if total-3 >= 256 {
			hdr = 4
		}
		emit(fmt.Sprintf("sanext 0 %s - -", c09nShowName(nm(total-hdr))))
		rest := total - 2 - 6
		if rest-3 >= 256 {
			rest -= 4
		} else if rest-2 >= 128 {
			rest -= 3
		} else {
			rest -= 2
		}
		emit(fmt.Sprintf("sanext 1 %s %s 01020304", c09nShowName(nm(rest)), c09nShowName(nm(0))))
	}
	for _, ip := range []string{"01020304", "00000000", "00000000000000000000ffff01020304", "00000000000000000000ffff00000000",
		"20010db8000000000000000000000001", "00000000000000000000000000000001", "00000000000000000000fffe01020304", "00000000000000000100ffff01020304",
		"00000000000000000000ff0001020304", "_", "01", "0102030405", "000000000000000000ffff01020304", "0000000000000000000000ffff01020304",
		"01020304|00000000000000000000ffff01020304", "00000000000000000000ffff01020304|01020304|20010db8000000000000000000000001"} {
		emit("sanext 0 - - " + ip)
	}
	emit("sanext 0 - - -")
	emit("sanext 1 - - -")
	emit("sanext 1 61 - -")
	emit("sanext 1 _ _ -")
	emit("sanext 0 6100 6200ff c0a80001") // NUL and high bytes inside names
	rep(40, func() {
		var ips [][]byte
		for k := r.intn(4); k > 0; k-- {
			ips = append(ips, c09nIP(r))
		}
		emit(fmt.Sprintf("sanext %d %s %s %s", r.intn(2), c09nShowNames(c09nNameList(r, false, 4)), c09nShowNames(c09nNameList(r, false, 3)), c09nShowNames(ips)))
	})

	// --- SAN, parse direction ---------------------------------------------------------------------------------
	for _, v := range []string{"-", "30", "3000", "3100", "1000", "b000", "7000", "308000", "30810000", "30030201ff", "30038201ff00", "30038201ff",
		"30820000", "3081030201ff", "308180" + strings.Repeat("82026161", 32), "3003010161", "300387010a", "30068704010203048700", "30050101ff870100",
		"30049f1f0161", "30049f210161", "30059f80210161", "3084000000038201ff", "308501000000038201ff", "30840100000000", "3003a20161", "3005a203820161",
		"30089f87ffffff7f0161", "30089f88808080000161", "0403820161", "300382016130", "30038201613000", "3005820161820162ff"} {
		emit("sanparse 0 " + v)
	}
	for _, ln := range []int{0, 3, 4, 5, 15, 16, 17, 127, 128} {
		emit("sanparse 1 " + hx(c09nT(0x30, c09nT(0x87, r.bytes(ln)))))
		emit("sanparse 0 " + hx(c09nT(0x30, c09nCat(c09nT(0x82, nm(3)), c09nT(0x87, r.bytes(ln)), c09nT(0x81, nm(2))))))
	}
	emit("sanparse 1 " + hx(c09nT(0x30, c09nT(0x86, nm(5))))) // only a URI: nothing parsed, critical: unhandled
	emit("sanparse 0 " + hx(c09nT(0x30, c09nT(0x86, nm(5)))))
	emit("sanparse 1 " + hx(c09nT(0x30, c09nCat(c09nT(0xa4, nm(5)), c09nT(0x88, []byte{0x2a, 3})))))
	rep(60, func() {
		var body []byte
		for k := r.intn(5); k > 0; k-- {
			body = append(body, c09nSANElem(r)...)
		}
		v := c09nT(byte(r.pick([]int{0x30, 0x30, 0x30, 0x30, 0x30, 0x30, 0x31, 0x10, 0xb0, 0x70, 0x20})), body)
		if r.chance(1, 3) {
			v = c09nMutate(r, v)
		}
		emit(fmt.Sprintf("sanparse %d %s", r.intn(2), hx(v)))
	})

	// --- nameConstraints -----------------------------------------------------------------------------------------
	for _, l := range []string{"-", "61", "_", "61|_", "_|61", "_|_", "6100", "80", "61|ff", "2e6578616d706c652e636f6d|6578616d706c652e6f7267"} {
		emit("ncext 0 " + l)
		emit("ncext 1 " + l)
	}
	for _, ln := range []int{1, 121, 122, 123, 124, 127, 128, 249, 250, 251, 255, 256, 65535} {
		emit(fmt.Sprintf("ncext %d %s", ln%2, c09nShowName(nm(ln))))
	}
	rep(20, func() {
		emit(fmt.Sprintf("ncext %d %s", r.intn(2), c09nShowNames(c09nNameList(r, r.chance(5, 6), 5))))
	})
	sub := func(parts ...[]byte) []byte { return c09nT(0x30, c09nCat(parts...)) }
	dnsN := func(s string) []byte { return c09nT(0x82, []byte(s)) }
	ncFixed := [][]byte{
		{}, {0x30, 0}, {0x30, 2, 0xa0, 0}, {0x30, 2, 0xa1, 0}, {0x30, 4, 0xa0, 0, 0xa1, 0}, {0x30, 4, 0xa1, 0, 0xa0, 0},
		c09nT(0x30, c09nT(0xa0, sub(dnsN("a")))),
		c09nT(0x30, c09nT(0xa0, c09nCat(sub(dnsN("a")), sub(dnsN("b.c"))))),
		c09nT(0x30, c09nT(0xa0, sub(dnsN("a"), []byte{0x80, 1, 0}))),                     // minimum 0 spelled out
		c09nT(0x30, c09nT(0xa0, sub(dnsN("a"), []byte{0x80, 1, 5}))),                     // minimum 5
		c09nT(0x30, c09nT(0xa0, sub(dnsN("a"), []byte{0x81, 1, 7}))),                     // maximum 7
		c09nT(0x30, c09nT(0xa0, sub(dnsN("a"), []byte{0xff}))),                           // garbage after the base
		c09nT(0x30, c09nT(0xa0, sub(c09nT(0x81, []byte("x@y"))))),                        // rfc822Name
		c09nT(0x30, c09nT(0xa0, sub(c09nT(0x87, []byte{10, 0, 0, 0, 255, 0, 0, 0})))),    // iPAddress
		c09nT(0x30, c09nT(0xa0, sub(c09nT(0xa4, []byte{0x30, 0})))),                      // directoryName
		c09nT(0x30, c09nT(0xa0, sub(c09nT(0xa2, []byte("a"))))),                          // [2] constructed
		c09nT(0x30, c09nT(0xa0, sub(c09nT(0x16, []byte("a"))))),                          // universal IA5String
		c09nT(0x30, c09nT(0xa0, sub())),                                                  // empty subtree
		c09nT(0x30, c09nT(0xa0, c09nCat(sub(dnsN("a")), sub(c09nT(0x81, []byte("x")))))), // one handled, one not
		c09nT(0x30, c09nT(0xa0, sub(dnsN("a\xffb")))),                                    // not IA5
		c09nT(0x30, c09nT(0xa0, sub(dnsN("a\x00b")))),                                    // NUL
		c09nT(0x30, c09nT(0xa0, sub(dnsN("")))),                                          // empty dNSName
		c09nT(0x30, c09nT(0xa1, sub(dnsN("x")))),                                         // excluded only
		c09nT(0x30, c09nCat(c09nT(0xa0, sub(dnsN("a"))), c09nT(0xa1, sub(dnsN("x"))))),   // both
		c09nT(0x30, c09nCat(c09nT(0xa1, sub(dnsN("x"))), c09nT(0xa0, sub(dnsN("a"))))),   // wrong order: permitted ignored
		c09nT(0x30, c09nCat(c09nT(0xa0, sub(dnsN("a"))), c09nT(0xa1, []byte{0xff}))),     // malformed excluded
		c09nT(0x30, c09nCat(c09nT(0xa0, sub(dnsN("a"))), c09nT(0xa1, nil))),              // empty excluded
		c09nT(0x30, c09nCat(c09nT(0xa0, sub(dnsN("a"))), c09nT(0xa2, []byte{0xff}))),     // unknown third field
		c09nT(0x30, c09nCat(c09nT(0xa0, sub(dnsN("a"))), []byte{0xff})),                  // junk after permitted: header error
		c09nT(0x30, c09nCat(c09nT(0xa0, sub(dnsN("a"))), []byte{0x05, 0x7f})),            // other tag, impossible length: ignored
		c09nT(0x30, c09nT(0x80, sub(dnsN("a")))),                                         // [0] primitive
		c09nT(0x30, c09nT(0xa0, dnsN("a"))),                                              // subtree is not a SEQUENCE
		c09nT(0x30, c09nT(0xa0, c09nT(0x31, dnsN("a")))),                                 // SET
		c09nCat(c09nT(0x30, c09nT(0xa0, sub(dnsN("a")))), []byte{0}),                     // trailing data
		c09nT(0x31, c09nT(0xa0, sub(dnsN("a")))),
		c09nT(0x30, c09nT(0xa0, c09nCat(sub(dnsN("a")), []byte{0x30}))),
		c09nT(0x30, c09nT(0xa0, sub(dnsN(strings.Repeat("a", 200))))),
		c09nT(0x30, c09nT(0xa0, sub([]byte{0x82, 0x81, 0x01, 'a'}))), // non-minimal length inside
	}
	for _, v := range ncFixed {
		emit("ncparse 0 " + hx(v))
		emit("ncparse 1 " + hx(v))
	}
	rep(25, func() {
		var perm, excl []byte
		for k := r.intn(4); k > 0; k-- {
			var base []byte
			if r.chance(2, 3) {
				base = c09nT(0x82, c09nName(r, r.intn(6), r.chance(4, 5)))
			} else {
				base = c09nTLV(c09nIdOctets(r), c09nName(r, r.intn(6), false))
			}
			if r.chance(1, 5) {
				base = nil
			}
			var tail []byte
			if r.chance(1, 4) {
				tail = [][]byte{{0x80, 1, 0}, {0x80, 1, 1}, {0x81, 1, 3}, {0x80, 1, 0, 0x81, 1, 9}, {0xff}, {0x02}}[r.intn(6)]
			}
			perm = append(perm, sub(base, tail)...)
		}
		for k := r.intn(3) - 1; k > 0; k-- {
			excl = append(excl, sub(c09nT(0x82, c09nName(r, 1+r.intn(4), true)))...)
		}
		var body []byte
		if len(perm) > 0 || r.chance(1, 4) {
			body = append(body, c09nT(0xa0, perm)...)
		}
		if len(excl) > 0 || r.chance(1, 8) {
			body = append(body, c09nT(0xa1, excl)...)
		}
		v := c09nT(0x30, body)
		if r.chance(1, 3) {
			v = c09nMutate(r, v)
		}
		emit(fmt.Sprintf("ncparse %d %s", r.intn(2), hx(v)))
	})

	// --- extKeyUsage -----------------------------------------------------------------------------------------------
	for _, o := range []string{"2.39", "2.40", "2.999", "1.39", "1.40", "0.39", "0.40", "3.0", "2", "2.5.2147483647", "2.5.2147483648", "2.5.9223372036854775807",
		"2.2147483567", "2.2147483568", "2.9223372036854775727", "2.9223372036854775728", "2.9223372036854775807", "1.2.127", "1.2.128", "1.2.16383", "1.2.16384",
		"1.2.0", "2.5.29.37.0", "1.3.6.1.5.5.7.3.1|1.2.3|1.3.6.1.5.5.7.3.2", "1.2.3|2.16.840.1.113730.4.1|1.2.4"} {
		emit("ekuext - " + o)
		emit("ekuext 3|1 " + o)
	}
	emit("ekuext - -")
	emit("ekuext 0|1|2|3|4|5|6|7|8|9|10|11 -")
	emit("ekuext 11|10|9|8|7|6|5|4|3|2|1|0 1.2.3")
	emit("ekuext 1|1 -")
	emit("ekuext 12 -")
	emit("ekuext 1|12 1.2.3")
	emit("ekuext 1 " + strings.TrimSuffix(strings.Repeat("1.2.840.113549.1.1.11|", 30), "|")) // long form length
	rep(30, func() {
		var ks []string
		for k := r.intn(4); k > 0; k-- {
			ks = append(ks, strconv.Itoa(r.intn(12)))
		}
		k := "-"
		if len(ks) > 0 {
			k = strings.Join(ks, "|")
		}
		emit(fmt.Sprintf("ekuext %s %s", k, c09nOIDList(r, 4)))
	})
	oidSeq := func(elemTag byte, wrap bool) []byte {
		var body []byte
		for k := r.intn(4); k > 0; k-- {
			e := c09nT(elemTag, c09nOIDContent(r))
			if r.chance(1, 8) {
				e = c09nT(byte(r.pick([]int{0x26, 0x86, 0x04, 0x0d, 0x30})), []byte{0x2a, 3})
			}
			if wrap {
				e = c09nT(0x30, e)
				if r.chance(1, 6) {
					e = c09nT(0x30, c09nCat(c09nT(elemTag, []byte{0x2a, 3}), c09nT(0x30, []byte{0x05, 0x00}))) // qualifiers after the policy
				}
				if r.chance(1, 10) {
					e = c09nT(0x30, nil)
				}
			}
			body = append(body, e...)
		}
		v := c09nT(0x30, body)
		if r.chance(1, 4) {
			v = c09nMutate(r, v)
		}
		return v
	}
	for _, v := range []string{"-", "3000", "300406022a03", "300406022a0300", "30060604551d2500", "300c06082b0601050507030106002a", "30020600", "3003060180",
		"300406028001", "30050603550080", "3007060587ffffff7f", "300706058880808000", "3008060681808080800" + "0", "310406022a03", "300426022a03", "30030601" + "28", "30030601" + "4f", "30030601" + "50",
		"30030601" + "7f", "3004060281" + "00", "300b0609" + "2a864886f70d01010b"} {
		if strings.Contains(v, "|") {
			continue
		}
		emit("ekuparse " + v)
		emit("polparse " + v)
	}
	rep(30, func() { emit("ekuparse " + hx(oidSeq(0x06, false))) })

	// --- key identifiers ------------------------------------------------------------------------------------------
	for _, ln := range []int{0, 1, 20, 32, 127, 128, 255, 256, 65536} {
		id := r.bytes(ln)
		emit("skiext " + hx(id))
		emit("akiext 1 - " + hx(id))
		emit("akiext 0 - " + hx(id))
		emit("akiext 0 " + hx(id) + " 0a0b")
		emit("akiext 1 " + hx(id) + " 0a0b")
	}
	emit("akiext 0 0c -")
	emit("akiext 1 0c -")
	for _, v := range []string{"-", "0400", "040101", "04020102", "0402010200", "04810101", "0481800" + strings.Repeat("0", 255), "240101", "030101", "840101", "04", "0405010203",
		"3000", "30038001" + "01", "3003a001" + "01", "30038101" + "01", "30068001018101" + "02", "30068101018001" + "02", "3003817f00", "3003807f00", "300380", "30048001" + "0100",
		"30038001" + "0100", "3102800101", "30028000", "300ca00a3008310630040603550403", "30158001" + "01a10a3008310630040603550403820102"} {
		emit("skiparse " + v)
		emit("akiparse " + v)
	}
	rep(15, func() {
		id := r.bytes(r.intn(24))
		emit("skiparse " + hx(c09nMutate(r, c09nT(0x04, id))))
		body := c09nT(byte(r.pick([]int{0x80, 0x80, 0x80, 0xa0, 0x81, 0x82, 0x04})), id)
		if r.chance(1, 3) {
			body = append(body, c09nT(byte(r.pick([]int{0x81, 0x82, 0xa1, 0x80})), r.bytes(r.intn(4)))...)
		}
		v := c09nT(0x30, body)
		if r.chance(1, 2) {
			v = c09nMutate(r, v)
		}
		emit("akiparse " + hx(v))
	})

	// --- certificatePolicies, cRLDistributionPoints ---------------------------------------------------------------
	emit("polext -")
	emit("polext 2.5.29.32.0")
	emit("polext 1.2.3|2.39|2.999.2147483647")
	emit("polext 1.2.2147483648")
	emit("polext 1.40")
	rep(8, func() { emit("polext " + c09nOIDList(r, 3)) })
	rep(12, func() { emit("polparse " + hx(oidSeq(0x06, true))) })
	uri := func(s string) []byte { return c09nT(0x86, []byte(s)) }
	dp := func(fullNameContent []byte) []byte { return c09nT(0x30, c09nT(0xa0, c09nT(0xa0, fullNameContent))) }
	for _, ln := range []int{0, 1, 117, 118, 119, 120, 127, 128, 255, 256, 65536} {
		emit("crlext " + c09nShowName(nm(ln)))
	}
	emit("crlext -")
	emit("crlext 687474703a2f2f612f31|_|687474703a2f2f622f32ff")
	rep(6, func() { emit("crlext " + c09nShowNames(c09nNameList(r, false, 4))) })
	for _, v := range [][]byte{{}, {0x30, 0}, c09nT(0x30, dp(uri("http://a"))), c09nT(0x30, c09nCat(dp(uri("u1")), dp(uri("u2")))), c09nT(0x30, dp(c09nCat(uri("u1"), uri("u2")))),
		c09nT(0x30, dp(c09nT(0x82, []byte("dns")))), c09nT(0x30, dp(c09nCat(c09nT(0x82, []byte("dns")), uri("u")))), c09nT(0x30, c09nT(0x30, nil)), c09nT(0x30, c09nT(0x30, c09nT(0xa0, nil))),
		c09nT(0x30, dp(nil)), c09nT(0x30, dp([]byte{0xff})), c09nT(0x30, dp([]byte{0x86, 5, 'a'})), c09nT(0x30, c09nT(0x30, c09nT(0xa0, c09nT(0x80, uri("prim"))))),
		c09nT(0x30, c09nT(0x30, c09nT(0x80, c09nT(0xa0, uri("x"))))), c09nT(0x30, c09nCat(c09nT(0x30, nil), dp(uri("u")))), c09nCat(c09nT(0x30, dp(uri("u"))), []byte{0}),
		c09nT(0x31, dp(uri("u"))), c09nT(0x30, c09nT(0x31, c09nT(0xa0, c09nT(0xa0, uri("u"))))), c09nT(0x30, dp(c09nT(0x06, []byte("univ")))), c09nT(0x30, dp(c09nT(0xa6, []byte("cons")))),
		c09nT(0x30, dp(uri(""))), c09nT(0x30, c09nT(0x30, c09nT(0xa0, []byte{0xff}))),
		// reasons [1] and cRLIssuer [2] after the name: parsed (and able to fail) although unused
		c09nT(0x30, c09nT(0x30, c09nCat(c09nT(0xa0, c09nT(0xa0, uri("u"))), []byte{0x81, 2, 7, 0x80}))),
		c09nT(0x30, c09nT(0x30, c09nCat(c09nT(0xa0, c09nT(0xa0, uri("u"))), []byte{0x81, 2, 8, 0x00}))),
		c09nT(0x30, c09nT(0x30, c09nCat(c09nT(0xa0, c09nT(0xa0, uri("u"))), []byte{0x81, 2, 1, 0x81}))),
		c09nT(0x30, c09nT(0x30, c09nCat(c09nT(0xa0, c09nT(0xa0, uri("u"))), []byte{0x81, 1, 1}))),
		c09nT(0x30, c09nT(0x30, c09nCat(c09nT(0xa0, c09nT(0xa0, uri("u"))), []byte{0x81, 1, 0}))),
		c09nT(0x30, c09nT(0x30, c09nCat(c09nT(0xa0, c09nT(0xa0, uri("u"))), []byte{0x81, 0}))),
		c09nT(0x30, c09nT(0x30, c09nCat(c09nT(0xa0, c09nT(0xa0, uri("u"))), []byte{0xa1, 2, 7, 0x80}))),
		c09nT(0x30, c09nT(0x30, c09nCat(c09nT(0xa0, c09nT(0xa0, uri("u"))), []byte{0x81, 2, 7, 0x80, 0xa2, 2, 0x30, 0}))),
		c09nT(0x30, c09nT(0x30, c09nCat(c09nT(0xa0, c09nT(0xa0, uri("u"))), []byte{0x82, 1, 0xff}))),
		c09nT(0x30, c09nT(0x30, c09nCat(c09nT(0xa0, c09nT(0xa0, uri("u"))), []byte{0xa2, 5, 0xff}))),
		c09nT(0x30, c09nT(0x30, c09nCat(c09nT(0xa0, c09nT(0xa0, uri("u"))), []byte{0xa2, 0, 0xff}))),
		c09nT(0x30, c09nT(0x30, c09nCat(c09nT(0xa0, c09nT(0xa0, uri("u"))), []byte{0xff}))),
		c09nT(0x30, c09nT(0x30, []byte{0xa2, 2, 0x30, 0})), c09nT(0x30, c09nT(0x30, []byte{0x81, 2, 0, 0xff, 0x05, 0x7f}))} {
		emit("crlparse " + hx(v))
	}

	// --- which extensions are written, in which order ----------------------------------------------------------------
	emit("extlist 0 00000000000000")
	emit("extlist 1 00000000000000")
	emit("extlist 0 11111111111111")
	emit("extlist 1 11111111111111")
	for i := 0; i < 14; i++ {
		f := []byte("00000000000000")
		f[i] = '1'
		emit("extlist " + c09nB(i%2 == 0) + " " + string(f))
	}
	emit("extlist 1 00000001000000")
	emit("extlist 1 00000000100000")
	emit("extlist 1 00000000010000")
	emit("extlist 0 00000000000110")
	rep(12, func() {
		f := make([]byte, 14)
		for i := range f {
			f[i] = byte('0' + r.intn(2))
		}
		emit(fmt.Sprintf("extlist %d %s", r.intn(2), f))
	})
}
