package main

// C17: the PKCS#12 integrity check accepts only the WHOLE MAC (Model.PKCS12.verifyMac, Props.C17MacLen).
//
//   p12macd <saltHex> <pwHex> <iterations> <msgHex> <mode> <k>
//        verifyMac (mac.go) on a stored digest derived from the right one: verdict ok | incorrect-password.
//        Expected from the model (Driver/P12MacLen.lean evaluates Model.PKCS12.verifyMac on the same digest).
//   p12mactrunc <seed> <variant> <mode> <k>
//        a bundle made by pkcs12.Encode, re-assembled with the macData digest OCTET STRING replaced by the
//        derived digest (all enclosing DER lengths recomputed) and the authenticated content kept (same),
//        replaced by a plain SafeContents holding ANOTHER certificate (swap: what somebody without the
//        password can do) or with one octet flipped (flip); then Decode / DecodeAll / ToPEM with the RIGHT
//        password: accept | reject:incorrect-password | reject:other.  Expected from the model
//        (Model.PKCS12.getSafeContents on a PFX with the derived digest).  Intrinsic oracle:
//        ORACLE-FAIL:truncated-mac-accepted:<mode>-<k>:<variant>… when a bundle whose stored digest is not
//        the whole HMAC (or whose content is not the MACed one) is opened.
//
// <mode> <k> (L = 20, full = the right HMAC-SHA1 value):
//   pre k   full[:k]               suf k   full[L-k:]            ext k   full ++ k zero octets
//   dup k   full ++ full[:k]       flip k  bit 0 of octet k%L flipped
//   prez k  full[:k] ++ zeros up to L octets                     zero k  k zero octets
// (k above L is clamped to L for pre / suf / dup / prez)

import (
	"bytes"
	"crypto/ecdsa"
	"encoding/asn1"
	"fmt"
	"strconv"
	"sync"

	"github.com/tjfoc/gmsm/pkcs12"
	"github.com/tjfoc/gmsm/sm2"
)

func init() {
	evals["p12macd"] = c17EvalMacDigest
	evals["p12mactrunc"] = c17EvalMacTrunc
}

func c17DeriveDigest(full []byte, mode string, k int) ([]byte, bool) {
	l := len(full)
	if k < 0 || k > 4096 {
		return nil, false
	}
	kc := k
	if kc > l {
		kc = l
	}
	switch mode {
	case "pre":
		return append([]byte{}, full[:kc]...), true
	case "suf":
		return append([]byte{}, full[l-kc:]...), true
	case "ext":
		return append(append([]byte{}, full...), make([]byte, k)...), true
	case "dup":
		return append(append([]byte{}, full...), full[:kc]...), true
	case "flip":
		d := append([]byte{}, full...)
		if l > 0 {
			d[k%l] ^= 1
		}
		return d, true
	case "prez":
		d := make([]byte, l)
		copy(d, full[:kc])
		return d, true
	case "zero":
		return make([]byte, k), true
	}
	return nil, false
}

func c17EvalMacDigest(args []string) string {
	if len(args) != 6 {
		return "bad-op"
	}
	salt, ok1 := unhx(args[0])
	pw, ok2 := unhx(args[1])
	it, err := strconv.Atoi(args[2])
	msg, ok3 := unhx(args[3])
	k, err2 := strconv.Atoi(args[5])
	if !ok1 || !ok2 || !ok3 || err != nil || err2 != nil {
		return "bad-op"
	}
	full, e1, _ := pkcs12.VerifMac(salt, pw, it, msg)
	if e1 != nil {
		return "err"
	}
	d, ok := c17DeriveDigest(full, args[4], k)
	if !ok {
		return "bad-op"
	}
	verr := pkcs12.VerifMacCheck(salt, pw, it, msg, d)
	if verr == nil && !bytes.Equal(d, full) {
		return fmt.Sprintf("ORACLE-FAIL:truncated-mac-accepted:%s-%d:verifyMac-accepts-%d-octets", args[4], k, len(d))
	}
	return c17kVerdict(verr)
}

// ---- DER surgery on a PFX ------------------------------------------------------------------------------------

// the elements of a DER SEQUENCE content
func c17Elems(content []byte) ([]asn1.RawValue, bool) {
	var out []asn1.RawValue
	for len(content) > 0 {
		var rv asn1.RawValue
		rest, err := asn1.Unmarshal(content, &rv)
		if err != nil {
			return nil, false
		}
		out = append(out, rv)
		content = rest
	}
	return out, true
}

type c17PfxParts struct {
	version  []byte // full TLV
	authSafe []byte // full TLV of the ContentInfo
	macAlg   []byte // full TLV of the digest AlgorithmIdentifier
	digest   []byte // the digest octets
	macTail  []byte // macSalt and iterations, full TLVs
}

// PFX ::= SEQUENCE { version, authSafe ContentInfo, macData SEQUENCE { mac SEQUENCE { alg, digest OCTET STRING }, macSalt, iterations } }
func c17PfxSplit(pfx []byte) (*c17PfxParts, bool) {
	var outer asn1.RawValue
	if rest, err := asn1.Unmarshal(pfx, &outer); err != nil || len(rest) != 0 || outer.Tag != 16 {
		return nil, false
	}
	top, ok := c17Elems(outer.Bytes)
	if !ok || len(top) != 3 {
		return nil, false
	}
	md, ok := c17Elems(top[2].Bytes)
	if !ok || len(md) < 2 {
		return nil, false
	}
	di, ok := c17Elems(md[0].Bytes)
	if !ok || len(di) != 2 || di[1].Tag != 4 {
		return nil, false
	}
	p := &c17PfxParts{version: top[0].FullBytes, authSafe: top[1].FullBytes, macAlg: di[0].FullBytes, digest: di[1].Bytes}
	for _, e := range md[1:] {
		p.macTail = append(p.macTail, e.FullBytes...)
	}
	return p, true
}

func (p *c17PfxParts) join(authSafe, digest []byte) []byte {
	di := derTLV(0x30, append(append([]byte{}, p.macAlg...), derTLV(0x04, digest)...))
	md := derTLV(0x30, append(di, p.macTail...))
	body := append(append(append([]byte{}, p.version...), authSafe...), md...)
	return derTLV(0x30, body)
}

// ---- the bundles ---------------------------------------------------------------------------------------------

type c17TruncBundle struct {
	pfx      []byte
	parts    *c17PfxParts
	swapped  []byte // ContentInfo TLV of an authenticated safe that holds the key and ANOTHER certificate, unencrypted
	flipped  []byte // the ContentInfo TLV with one content octet flipped
	password string
	id       int
	err      string
}

var c17TruncMu sync.Mutex
var c17TruncCache = map[int]*c17TruncBundle{}

var c17TruncPwds = []string{"", "victim-pässword", "123", "密码!", "a-rather-long-password-of-more-than-32-characters"}

func c17TruncGet(seed int) *c17TruncBundle {
	c17TruncMu.Lock()
	defer c17TruncMu.Unlock()
	if seed < 0 {
		seed = -seed
	}
	key := seed % 40
	if b, ok := c17TruncCache[key]; ok {
		return b
	}
	b := &c17TruncBundle{password: c17TruncPwds[key%len(c17TruncPwds)], id: key % 8}
	c17TruncCache[key] = b
	cert, priv := sm2Party(b.id)
	evilCert, evilKey := sm2Party((b.id + 1) % 8)
	var err error
	if b.pfx, err = pkcs12.Encode(priv, cert, nil, b.password); err != nil {
		b.err = "encode"
		return b
	}
	var ok bool
	if b.parts, ok = c17PfxSplit(b.pfx); !ok {
		b.err = "split"
		return b
	}
	// the forger's own bundle gives a certificate SafeContents; the victim's key SafeContents is kept
	_, vparts, err := pkcs12.VerifPfxOpen(b.pfx, b.password)
	if err != nil || len(vparts) != 2 {
		b.err = "open"
		return b
	}
	evilPfx, err := pkcs12.Encode(evilKey, evilCert, nil, "forger")
	if err != nil {
		b.err = "encode2"
		return b
	}
	_, eparts, err := pkcs12.VerifPfxOpen(evilPfx, "forger")
	if err != nil || len(eparts) != 2 {
		b.err = "open2"
		return b
	}
	plain, err := pkcs12.VerifAuthSafePlain([][]byte{eparts[0], vparts[1]})
	if err != nil {
		b.err = "plain"
		return b
	}
	resealed, err := pkcs12.VerifPfxSeal(plain, "forger", []byte{1, 2, 3, 4, 5, 6, 7, 8}, 1)
	if err != nil {
		b.err = "seal"
		return b
	}
	rp, ok := c17PfxSplit(resealed)
	if !ok {
		b.err = "split2"
		return b
	}
	b.swapped = rp.authSafe
	// self-test of the swapped content: sealed properly (by someone who knows a password) it opens to the other certificate
	if _, cs, err := pkcs12.DecodeAll(resealed, "forger"); err != nil || len(cs) != 1 || !bytes.Equal(cs[0].Raw, evilCert.Raw) {
		// the shrouded key bag is under the victim's password, so "forger" cannot open it: only the MAC and the
		// certificate part are checked here, through the safe bag count
		if nb, _, _, gerr := pkcs12.VerifGetSafeContents(resealed, mustBmp("forger")); gerr != nil || nb != 2 {
			b.err = "swap-self-test"
			return b
		}
	}
	b.flipped = append([]byte{}, b.parts.authSafe...)
	b.flipped[len(b.flipped)*2/3] ^= 0x10
	return b
}

func mustBmp(s string) []byte {
	b, err := pkcs12.VerifBmpString(s)
	if err != nil {
		return nil
	}
	return b
}

func c17EvalMacTrunc(args []string) string {
	if len(args) != 4 {
		return "bad-op"
	}
	seed, err := strconv.Atoi(args[0])
	k, err2 := strconv.Atoi(args[3])
	variant, mode := args[1], args[2]
	if err != nil || err2 != nil {
		return "bad-op"
	}
	b := c17TruncGet(seed)
	if b.err != "" {
		return "err:setup:" + b.err
	}
	if len(b.parts.digest) != 20 {
		return "ORACLE-FAIL:encode-stores-a-" + strconv.Itoa(len(b.parts.digest)) + "-octet-mac"
	}
	// self test of the surgery: the untouched parts give the bundle back, octet for octet
	if !bytes.Equal(b.parts.join(b.parts.authSafe, b.parts.digest), b.pfx) {
		return "err:surgery-self-test"
	}
	d, ok := c17DeriveDigest(b.parts.digest, mode, k)
	if !ok {
		return "bad-op"
	}
	var authSafe []byte
	switch variant {
	case "same":
		authSafe = b.parts.authSafe
	case "swap":
		authSafe = b.swapped
	case "flip":
		authSafe = b.flipped
	default:
		return "bad-op"
	}
	forged := b.parts.join(authSafe, d)
	genuine := variant == "same" && bytes.Equal(d, b.parts.digest)
	cert, priv := sm2Party(b.id)

	key, certs, derr := pkcs12.DecodeAll(forged, b.password)
	_, _, derr1 := pkcs12.Decode(forged, b.password)
	_, perr := pkcs12.ToPEM(forged, b.password)
	nb, _, _, gerr := pkcs12.VerifGetSafeContents(forged, mustBmp(b.password))
	tag := fmt.Sprintf("%s-%d:%s", mode, k, variant)
	if genuine {
		if derr != nil || gerr != nil || perr != nil {
			return "ORACLE-FAIL:genuine-bundle-refused:" + tag
		}
		sk, isEC := key.(*ecdsa.PrivateKey)
		if !isEC || sk.Curve != sm2.P256Sm2() || sk.D.Cmp(priv.D) != 0 || len(certs) != 1 || !bytes.Equal(certs[0].Raw, cert.Raw) {
			return "ORACLE-FAIL:decoded-differs:" + tag
		}
		return "accept"
	}
	// not the whole MAC over these octets: nothing may be handed out by any entry point
	if derr == nil {
		what := ":same-certificate"
		for _, c := range certs {
			if !bytes.Equal(c.Raw, cert.Raw) {
				what = ":OTHER-certificate"
			}
		}
		return "ORACLE-FAIL:truncated-mac-accepted:" + tag + ":DecodeAll" + what
	}
	if gerr == nil || nb != 0 {
		return "ORACLE-FAIL:truncated-mac-accepted:" + tag + ":getSafeContents"
	}
	if derr1 == nil {
		return "ORACLE-FAIL:truncated-mac-accepted:" + tag + ":Decode"
	}
	if perr == nil {
		return "ORACLE-FAIL:truncated-mac-accepted:" + tag + ":ToPEM"
	}
	if pkcs12.VerifIsIncorrectPassword(gerr) {
		return "reject:incorrect-password"
	}
	return "reject:other"
}

// ---- generator -----------------------------------------------------------------------------------------------

func c17MacTruncGen(r *rng, tier string, emit func(string)) {
	type mk struct {
		mode string
		k    int
	}
	// the lengths around 0 / the 96-bit truncation some tokens use / L-1 / L / L+1
	fixed := []mk{{"pre", 0}, {"pre", 1}, {"pre", 10}, {"pre", 12}, {"pre", 19}, {"pre", 20}, {"suf", 0}, {"suf", 1}, {"suf", 19},
		{"suf", 20}, {"ext", 0}, {"ext", 1}, {"ext", 20}, {"dup", 1}, {"dup", 20}, {"flip", 0}, {"flip", 19}, {"prez", 0},
		{"prez", 12}, {"prez", 19}, {"zero", 0}, {"zero", 1}, {"zero", 20}}
	random := func() mk {
		modes := []string{"pre", "suf", "ext", "dup", "flip", "prez", "zero"}
		return mk{modes[r.intn(len(modes))], r.intn(24)}
	}
	nsets, nb := 2, 3
	if tier == "thorough" {
		nsets, nb = 8, 12
	}
	for i := 0; i < nsets; i++ {
		salt := r.bytes(r.pick([]int{0, 8, 20}))
		pw := c17kBmp([]string{"", "pw", "пароль"}[i%3])
		if i%4 == 3 {
			pw = nil
		}
		it := r.pick([]int{1, 2, 3})
		msg := r.bytes(r.pick([]int{0, 1, 55, 64, 100}))
		ms := append([]mk{}, fixed...)
		for j := 0; j < 6; j++ {
			ms = append(ms, random())
		}
		for _, m := range ms {
			emit(fmt.Sprintf("p12macd %s %s %d %s %s %d", hx(salt), hx(pw), it, hx(msg), m.mode, m.k))
		}
	}
	for i := 0; i < nb; i++ {
		seed := r.intn(40)
		if i == 0 {
			seed = 5 * r.intn(8) // the empty password (retry with the nil password) is always in the family
		}
		for _, variant := range []string{"same", "swap", "flip"} {
			ms := []mk{{"pre", 0}, {"pre", 1}, {"pre", 10}, {"pre", 19}, {"pre", 20}, {"suf", 0}, {"suf", 19}, {"ext", 1}, {"prez", 12}, {"zero", 20}}
			if tier == "thorough" {
				ms = append([]mk{}, fixed...)
			}
			ms = append(ms, random(), random())
			for _, m := range ms {
				emit(fmt.Sprintf("p12mactrunc %d %s %s %d", seed, variant, m.mode, m.k))
			}
		}
	}
}
