package main

import (
	"bytes"
	"crypto"
	"crypto/ecdsa"
	"crypto/elliptic"
	"crypto/rand"
	"crypto/rsa"
	"crypto/x509/pkix"
	"encoding/asn1"
	"fmt"
	"math/big"
	"net"
	"reflect"
	"strconv"
	"sync"
	"time"

	"github.com/tjfoc/gmsm/sm2"
	"github.com/tjfoc/gmsm/x509"
)

func init() {
	evals["certrt"] = evalCertrt
	evals["csrrt"] = evalCsrrt
	evals["crlrt"] = evalCrlrt
	evals["issue2"] = evalIssue2
	evals["tmplreuse"] = evalTmplreuse
	gens["C09"] = genC09
}

var algoByName = map[string]x509.SignatureAlgorithm{
	"unset": 0, "MD5WithRSA": x509.MD5WithRSA, "SHA1WithRSA": x509.SHA1WithRSA, "SHA256WithRSA": x509.SHA256WithRSA,
	"SHA384WithRSA": x509.SHA384WithRSA, "SHA512WithRSA": x509.SHA512WithRSA, "SHA256WithRSAPSS": x509.SHA256WithRSAPSS,
	"SHA384WithRSAPSS": x509.SHA384WithRSAPSS, "SHA512WithRSAPSS": x509.SHA512WithRSAPSS,
	"DSAWithSHA1": x509.DSAWithSHA1, "DSAWithSHA256": x509.DSAWithSHA256,
	"ECDSAWithSHA1": x509.ECDSAWithSHA1, "ECDSAWithSHA256": x509.ECDSAWithSHA256, "ECDSAWithSHA384": x509.ECDSAWithSHA384,
	"ECDSAWithSHA512": x509.ECDSAWithSHA512, "SM2WithSM3": x509.SM2WithSM3, "SM2WithSHA1": x509.SM2WithSHA1,
	"SM2WithSHA256": x509.SM2WithSHA256, "MD2WithRSA": x509.MD2WithRSA,
}

var (
	signerOnce sync.Once
	rsaKey     *rsa.PrivateKey
	rsaKey2    *rsa.PrivateKey
	ecKey      *ecdsa.PrivateKey
	ecKey2     *ecdsa.PrivateKey
)

func initSigners() {
	signerOnce.Do(func() {
		rsaKey, _ = rsa.GenerateKey(rand.Reader, 2048)
		rsaKey2, _ = rsa.GenerateKey(rand.Reader, 2048)
		ecKey, _ = ecdsa.GenerateKey(elliptic.P256(), rand.Reader)
		ecKey2, _ = ecdsa.GenerateKey(elliptic.P256(), rand.Reader)
	})
}

// signer, its public key as the verifier holds it, another key of the same family
func signerOf(kind string) (crypto.Signer, *x509.Certificate, *x509.Certificate) {
	initSigners()
	ca := func(pub interface{}, alg x509.PublicKeyAlgorithm) *x509.Certificate {
		return &x509.Certificate{PublicKey: pub, PublicKeyAlgorithm: alg, BasicConstraintsValid: true, IsCA: true, Version: 3,
			Subject: pkix.Name{CommonName: "issuer"}, SubjectKeyId: []byte{1, 2, 3}, KeyUsage: x509.KeyUsageCertSign | x509.KeyUsageCRLSign}
	}
	switch kind {
	case "rsa":
		return rsaKey, ca(&rsaKey.PublicKey, x509.RSA), ca(&rsaKey2.PublicKey, x509.RSA)
	case "ecdsa":
		return ecKey, ca(&ecKey.PublicKey, x509.ECDSA), ca(&ecKey2.PublicKey, x509.ECDSA)
	}
	k, k2 := keyFor(501), keyFor(502)
	asEC := func(k *sm2.PrivateKey) *ecdsa.PublicKey { return &ecdsa.PublicKey{Curve: k.Curve, X: k.X, Y: k.Y} }
	return k, ca(asEC(k), x509.ECDSA), ca(asEC(k2), x509.ECDSA)
}

func randName(r *rng) pkix.Name {
	n := pkix.Name{CommonName: "cn-" + strconv.Itoa(r.intn(1000))}
	if r.chance(1, 2) {
		n.Organization = []string{"Org" + strconv.Itoa(r.intn(9))}
	}
	if r.chance(1, 3) {
		n.Organization = append(n.Organization, "Second Org") // multi-valued
	}
	if r.chance(1, 3) {
		n.Country = []string{"CN"}
	}
	if r.chance(1, 3) {
		n.OrganizationalUnit = []string{"unit", "部门"}
	}
	if r.chance(1, 4) {
		n.Locality, n.Province = []string{"L"}, []string{"P"}
	}
	if r.chance(1, 4) {
		n.SerialNumber = "SN123"
	}
	if r.chance(1, 4) {
		n.ExtraNames = []pkix.AttributeTypeAndValue{{Type: asn1.ObjectIdentifier{2, 5, 4, 42}, Value: "Given"}}
	}
	return n
}

func randTemplate(r *rng) *x509.Certificate {
	t := &x509.Certificate{Subject: randName(r)}
	switch r.intn(4) {
	case 0:
		t.SerialNumber = big.NewInt(int64(r.intn(1000)))
	case 1:
		t.SerialNumber = new(big.Int).SetBytes(r.bytes(20))
	case 2:
		t.SerialNumber = big.NewInt(-int64(1 + r.intn(1000)))
	default:
		t.SerialNumber = new(big.Int).SetBytes(r.bytes(1 + r.intn(16)))
	}
	base := time.Date(1990+r.intn(50), time.Month(1+r.intn(12)), 1+r.intn(28), r.intn(24), r.intn(60), r.intn(60), 0, time.UTC)
	if r.chance(1, 6) {
		base = time.Date(2051+r.intn(20), 3, 4, 5, 6, 7, 0, time.UTC) // GeneralizedTime range
	}
	t.NotBefore, t.NotAfter = base, base.Add(time.Duration(1+r.intn(100000))*time.Hour)
	// DER times carry whole seconds: a fraction in the template is dropped (truncated, never rounded up: a
	// certificate must not become valid later or stay valid longer than asked), whatever the time zone
	if r.chance(1, 3) {
		fr := []time.Duration{1, 499999999, 500000000, 600 * time.Millisecond, 999999999}
		t.NotBefore = t.NotBefore.Add(fr[r.intn(len(fr))])
		t.NotAfter = t.NotAfter.Add(fr[r.intn(len(fr))])
		if r.chance(1, 2) {
			zone := time.FixedZone("x", (r.intn(25)-12)*3600+r.intn(2)*1800)
			t.NotBefore, t.NotAfter = t.NotBefore.In(zone), t.NotAfter.In(zone)
		}
	}
	t.KeyUsage = x509.KeyUsage(r.intn(512))
	for i := 0; i < r.intn(3); i++ {
		t.ExtKeyUsage = append(t.ExtKeyUsage, x509.ExtKeyUsage(r.intn(12)))
	}
	if r.chance(1, 5) {
		t.UnknownExtKeyUsage = []asn1.ObjectIdentifier{{1, 2, 3, 4, r.intn(100)}}
	}
	if r.chance(1, 2) {
		t.BasicConstraintsValid = true
		t.IsCA = r.chance(1, 2)
		if t.IsCA {
			switch r.intn(3) {
			case 0:
				t.MaxPathLen, t.MaxPathLenZero = 0, true
			case 1:
				t.MaxPathLen = 1 + r.intn(5)
			default:
				t.MaxPathLen = -1
			}
		} else {
			t.MaxPathLen = -1
		}
	}
	if r.chance(1, 2) {
		t.SubjectKeyId = r.bytes(1 + r.intn(20))
	}
	if r.chance(1, 2) {
		t.DNSNames = []string{"a.example.com", "*.example.org"}[:1+r.intn(2)]
	}
	if r.chance(1, 3) {
		t.EmailAddresses = []string{"x@example.com"}
	}
	if r.chance(1, 3) {
		t.IPAddresses = []net.IP{net.ParseIP("10.0.0.1").To4(), net.ParseIP("2001:db8::1")}[:1+r.intn(2)]
	}
	if r.chance(1, 4) {
		t.PermittedDNSDomains = []string{".example.com", "example.org"}[:1+r.intn(2)]
		t.PermittedDNSDomainsCritical = r.chance(1, 2)
	}
	if r.chance(1, 4) {
		t.PolicyIdentifiers = []asn1.ObjectIdentifier{{1, 2, 3, 4}, {2, 23, 140, 1, 2, 1}}[:1+r.intn(2)]
	}
	if r.chance(1, 4) {
		t.OCSPServer = []string{"http://ocsp.example.com"}
		t.IssuingCertificateURL = []string{"http://ca.example.com/ca.crt"}
	}
	if r.chance(1, 4) {
		t.CRLDistributionPoints = []string{"http://crl.example.com/a.crl"}
	}
	if r.chance(1, 5) {
		t.ExtraExtensions = []pkix.Extension{{Id: asn1.ObjectIdentifier{1, 2, 3, 4, 5, 6}, Critical: false, Value: []byte{4, 2, 1, 2}}}
	}
	return t
}

func sameIPs(a, b []net.IP) bool {
	if len(a) != len(b) {
		return false
	}
	for i := range a {
		if !a[i].Equal(b[i]) {
			return false
		}
	}
	return true
}

// compares the fields the package documents as round-tripping
func compareCert(t, c *x509.Certificate) string {
	switch {
	case t.SerialNumber.Cmp(c.SerialNumber) != 0:
		return "serial"
	case !t.NotBefore.Truncate(time.Second).Equal(c.NotBefore) || !t.NotAfter.Truncate(time.Second).Equal(c.NotAfter):
		return "validity"
	case t.KeyUsage != c.KeyUsage:
		return "keyusage"
	case !reflect.DeepEqual(append([]x509.ExtKeyUsage{}, t.ExtKeyUsage...), append([]x509.ExtKeyUsage{}, c.ExtKeyUsage...)):
		return "extkeyusage"
	case len(t.UnknownExtKeyUsage) != len(c.UnknownExtKeyUsage):
		return "unknowneku"
	case t.BasicConstraintsValid != c.BasicConstraintsValid || t.IsCA != c.IsCA:
		return "basicconstraints"
	case t.BasicConstraintsValid && t.IsCA && (t.MaxPathLen != c.MaxPathLen || t.MaxPathLenZero != c.MaxPathLenZero) && !(t.MaxPathLen == 0 && !t.MaxPathLenZero && c.MaxPathLen == -1):
		return "pathlen"
	case !bytes.Equal(t.SubjectKeyId, c.SubjectKeyId):
		return "ski"
	case !reflect.DeepEqual(append([]string{}, t.DNSNames...), append([]string{}, c.DNSNames...)):
		return "dns"
	case !reflect.DeepEqual(append([]string{}, t.EmailAddresses...), append([]string{}, c.EmailAddresses...)):
		return "email"
	case !sameIPs(t.IPAddresses, c.IPAddresses):
		return "ip"
	case !reflect.DeepEqual(append([]string{}, t.PermittedDNSDomains...), append([]string{}, c.PermittedDNSDomains...)) || (len(t.PermittedDNSDomains) > 0 && t.PermittedDNSDomainsCritical != c.PermittedDNSDomainsCritical):
		return "nameconstraints"
	case len(t.PolicyIdentifiers) != len(c.PolicyIdentifiers):
		return "policies"
	case !reflect.DeepEqual(append([]string{}, t.OCSPServer...), append([]string{}, c.OCSPServer...)) || !reflect.DeepEqual(append([]string{}, t.IssuingCertificateURL...), append([]string{}, c.IssuingCertificateURL...)):
		return "aia"
	case !reflect.DeepEqual(append([]string{}, t.CRLDistributionPoints...), append([]string{}, c.CRLDistributionPoints...)):
		return "crldp"
	case t.Subject.CommonName != c.Subject.CommonName || !reflect.DeepEqual(append([]string{}, t.Subject.Organization...), append([]string{}, c.Subject.Organization...)) ||
		!reflect.DeepEqual(append([]string{}, t.Subject.OrganizationalUnit...), append([]string{}, c.Subject.OrganizationalUnit...)) || t.Subject.SerialNumber != c.Subject.SerialNumber:
		return "subject"
	}
	for _, e := range t.ExtraExtensions {
		found := false
		for _, ce := range c.Extensions {
			if ce.Id.Equal(e.Id) && bytes.Equal(ce.Value, e.Value) {
				found = true
			}
		}
		if !found {
			return "extraext"
		}
	}
	return ""
}

// tamper sweep over [from, to): each byte xor 1 and xor 0x80; returns the first position at which the
// object still parses and still verifies
func tamperSweep(der []byte, from, to int, check func([]byte) bool, step int) int {
	for pos := from; pos < to; pos += step {
		for _, m := range []byte{1, 0x80} {
			d := append([]byte{}, der...)
			d[pos] ^= m
			if check(d) {
				return pos
			}
		}
	}
	return -1
}

func evalCertrt(args []string) string {
	if len(args) != 3 {
		return "bad-op"
	}
	seed, _ := strconv.ParseUint(args[2], 10, 64)
	r := newRng(seed)
	signer, issuer, other := signerOf(args[0])
	alg, ok := algoByName[args[1]]
	if !ok {
		return "bad-op"
	}
	t := randTemplate(r)
	t.SignatureAlgorithm = alg
	subj := keyFor(600 + r.intn(5))
	if r.chance(1, 3) { // a public key with a short coordinate (leading zero octets in X or Y)
		subj = shortCoordKey(r)
	}
	der, err := x509.CreateCertificate(t, issuer, &subj.PublicKey, signer)
	if err != nil {
		return "reject"
	}
	c, err := x509.ParseCertificate(der)
	if err != nil {
		return "ORACLE-FAIL:parse-back"
	}
	if f := compareCert(t, c); f != "" {
		return "ORACLE-FAIL:field-differs:" + f
	}
	if c.PublicKey.(*ecdsa.PublicKey).X.Cmp(subj.X) != 0 {
		return "ORACLE-FAIL:subject-key"
	}
	if !bytes.Equal(c.RawIssuer, mustRawName(issuer.Subject)) {
		return "ORACLE-FAIL:issuer-name"
	}
	if err := c.CheckSignatureFrom(issuer); err != nil {
		return "ORACLE-FAIL:verify-under-issuer"
	}
	if err := c.CheckSignatureFrom(other); err == nil {
		return "ORACLE-FAIL:verifies-under-other-key"
	}
	// every change to the signed bytes or the signature value must be rejected
	tbsStart := bytes.Index(der, c.RawTBSCertificate)
	check := func(d []byte) bool {
		cc, err := x509.ParseCertificate(d)
		return err == nil && cc.CheckSignatureFrom(issuer) == nil
	}
	step := 1
	if len(der) > 400 {
		step = 3
	}
	if p := tamperSweep(der, tbsStart, tbsStart+len(c.RawTBSCertificate), check, step); p >= 0 {
		return "ORACLE-FAIL:tampered-tbs-accepted@" + strconv.Itoa(p)
	}
	sigStart := len(der) - len(c.Signature) - 1 // includes the unused-bits octet of the BIT STRING
	if p := tamperSweep(der, sigStart, len(der), check, 1); p >= 0 {
		return "ORACLE-FAIL:tampered-signature-accepted@" + strconv.Itoa(p-sigStart)
	}
	if v := reencodedSigAccepted(der, c.Signature, check); v != "" {
		return "ORACLE-FAIL:reencoded-signature-accepted:" + v
	}
	return "ok"
}

func mustRawName(n pkix.Name) []byte {
	b, _ := asn1.Marshal(n.ToRDNSequence())
	return b
}

func evalCsrrt(args []string) string {
	if len(args) != 3 {
		return "bad-op"
	}
	seed, _ := strconv.ParseUint(args[2], 10, 64)
	r := newRng(seed)
	alg, ok := algoByName[args[1]]
	if !ok {
		return "bad-op"
	}
	// the request is signed by the key it certifies: an SM2 key, or the RSA / P-256 signer of certrt and crlrt
	// (CreateCertificateRequest marshals all three kinds of subject key)
	var k crypto.Signer
	switch args[0] {
	case "sm2":
		sk := keyFor(700 + r.intn(5))
		if r.chance(1, 3) {
			sk = shortCoordKey(r)
		}
		k = sk
	case "rsa", "ecdsa":
		k, _, _ = signerOf(args[0])
	default:
		return "bad-op"
	}
	t := &x509.CertificateRequest{Subject: randName(r), SignatureAlgorithm: alg}
	if r.chance(1, 2) {
		t.DNSNames = []string{"req.example.com"}
	}
	if r.chance(1, 3) {
		t.EmailAddresses = []string{"r@example.com"}
	}
	if r.chance(1, 3) {
		t.IPAddresses = []net.IP{net.ParseIP("10.9.8.7").To4()}
	}
	// requested extensions, through both mechanisms the template offers (and both at once): ExtraExtensions, and
	// the (older) Attributes field holding an extensionRequest attribute
	want := map[string][]byte{}
	if r.chance(1, 2) {
		for i, n := 0, 1+r.intn(2); i < n; i++ {
			e := pkix.Extension{Id: asn1.ObjectIdentifier{1, 2, 3, 5, 10 + i}, Value: append([]byte{0x04, 0x03}, r.bytes(3)...)}
			t.ExtraExtensions = append(t.ExtraExtensions, e)
			want[e.Id.String()] = e.Value
		}
	}
	if r.chance(1, 2) {
		var atvs []pkix.AttributeTypeAndValue
		for i, n := 0, 1+r.intn(2); i < n; i++ {
			id := asn1.ObjectIdentifier{1, 2, 3, 4, 20 + i}
			v := append([]byte{0x0c, 0x02}, byte('a'+r.intn(26)), byte('a'+r.intn(26)))
			atvs = append(atvs, pkix.AttributeTypeAndValue{Type: id, Value: v})
			want[id.String()] = v
		}
		t.Attributes = []pkix.AttributeTypeAndValueSET{{Type: asn1.ObjectIdentifier{1, 2, 840, 113549, 1, 9, 14}, Value: [][]pkix.AttributeTypeAndValue{atvs}}}
	}
	der, err := x509.CreateCertificateRequest(rand.Reader, t, k)
	if err != nil {
		return "reject"
	}
	c, err := x509.ParseCertificateRequest(der)
	if err != nil {
		return "ORACLE-FAIL:parse-back"
	}
	for id, v := range want {
		found := false
		for _, e := range c.Extensions {
			if e.Id.String() == id && bytes.Equal(e.Value, v) {
				found = true
			}
		}
		if !found {
			return "ORACLE-FAIL:requested-extension-lost:" + id
		}
	}
	if c.Subject.CommonName != t.Subject.CommonName || !reflect.DeepEqual(append([]string{}, t.DNSNames...), append([]string{}, c.DNSNames...)) ||
		!reflect.DeepEqual(append([]string{}, t.EmailAddresses...), append([]string{}, c.EmailAddresses...)) || !sameIPs(t.IPAddresses, c.IPAddresses) {
		return "ORACLE-FAIL:field-differs"
	}
	if !samePublicKey(c.PublicKey, k.Public()) {
		return "ORACLE-FAIL:subject-key"
	}
	if err := c.CheckSignature(); err != nil {
		return "ORACLE-FAIL:verify"
	}
	check := func(d []byte) bool {
		cc, err := x509.ParseCertificateRequest(d)
		return err == nil && cc.CheckSignature() == nil && bytes.Equal(cc.RawSubjectPublicKeyInfo, c.RawSubjectPublicKeyInfo)
	}
	tbsStart := bytes.Index(der, c.RawTBSCertificateRequest)
	if p := tamperSweep(der, tbsStart, tbsStart+len(c.RawTBSCertificateRequest), check, 1); p >= 0 {
		return "ORACLE-FAIL:tampered-tbs-accepted@" + strconv.Itoa(p)
	}
	sigStart := len(der) - len(c.Signature) - 1
	if p := tamperSweep(der, sigStart, len(der), check, 1); p >= 0 {
		return "ORACLE-FAIL:tampered-signature-accepted@" + strconv.Itoa(p-sigStart)
	}
	if v := reencodedSigAccepted(der, c.Signature, check); v != "" {
		return "ORACLE-FAIL:reencoded-signature-accepted:" + v
	}
	return "ok"
}

func evalCrlrt(args []string) string {
	if len(args) != 4 {
		return "bad-op"
	}
	seed, _ := strconv.ParseUint(args[3], 10, 64)
	r := newRng(seed)
	signer, issuer, other := signerOf(args[0])
	alg, ok := algoByName[args[1]]
	if !ok {
		return "bad-op"
	}
	var revoked []pkix.RevokedCertificate
	for i := 0; i < r.intn(4); i++ {
		revoked = append(revoked, pkix.RevokedCertificate{SerialNumber: big.NewInt(int64(r.intn(100000))), RevocationTime: time.Date(2020, 1, 1+i, 0, 0, 0, 0, time.UTC)})
	}
	now := time.Date(2024, 5, 6, 7, 8, 9, 0, time.UTC)
	var der []byte
	var err error
	if args[2] == "legacy" {
		if alg != 0 {
			return "bad-op"
		}
		der, err = issuer.CreateCRL(rand.Reader, signer, revoked, now, now.Add(24*time.Hour))
	} else {
		der, err = x509.CreateRevocationList(rand.Reader, &x509.RevocationList{SignatureAlgorithm: alg, RevokedCertificates: revoked,
			Number: big.NewInt(int64(r.intn(1000))), ThisUpdate: now, NextUpdate: now.Add(24 * time.Hour)}, issuer, signer)
	}
	if err != nil {
		return "reject"
	}
	crl, err := x509.ParseDERCRL(der)
	if err != nil {
		return "ORACLE-FAIL:parse-back"
	}
	if len(crl.TBSCertList.RevokedCertificates) != len(revoked) {
		return "ORACLE-FAIL:field-differs"
	}
	for i := range revoked {
		if crl.TBSCertList.RevokedCertificates[i].SerialNumber.Cmp(revoked[i].SerialNumber) != 0 {
			return "ORACLE-FAIL:field-differs"
		}
	}
	if err := issuer.CheckCRLSignature(crl); err != nil {
		return "ORACLE-FAIL:verify-under-issuer"
	}
	if err := other.CheckCRLSignature(crl); err == nil {
		return "ORACLE-FAIL:verifies-under-other-key"
	}
	check := func(d []byte) bool {
		cc, err := x509.ParseDERCRL(d)
		return err == nil && issuer.CheckCRLSignature(cc) == nil
	}
	tbsStart := bytes.Index(der, crl.TBSCertList.Raw)
	if p := tamperSweep(der, tbsStart, tbsStart+len(crl.TBSCertList.Raw), check, 1); p >= 0 {
		return "ORACLE-FAIL:tampered-tbs-accepted@" + strconv.Itoa(p)
	}
	sigStart := len(der) - len(crl.SignatureValue.Bytes) - 1
	if p := tamperSweep(der, sigStart, len(der), check, 1); p >= 0 {
		return "ORACLE-FAIL:tampered-signature-accepted@" + strconv.Itoa(p-sigStart)
	}
	if v := reencodedSigAccepted(der, crl.SignatureValue.Bytes, check); v != "" {
		return "ORACLE-FAIL:reencoded-signature-accepted:" + v
	}
	return "ok"
}

// issue2 <seed> : a root with an unusual subject is created and PARSED, then used as parent; the child's
// issuer must be the parent's subject byte for byte, and the chain must verify.
func evalIssue2(args []string) string {
	if len(args) != 1 {
		return "bad-op"
	}
	seed, _ := strconv.ParseUint(args[0], 10, 64)
	r := newRng(seed)
	ck, lk := keyFor(801), keyFor(802)
	rt := &x509.Certificate{SerialNumber: big.NewInt(1), Subject: randName(r), NotBefore: time.Now().Add(-time.Hour), NotAfter: time.Now().Add(time.Hour),
		BasicConstraintsValid: true, IsCA: true, KeyUsage: x509.KeyUsageCertSign, SubjectKeyId: []byte{9, 9}}
	switch r.intn(3) {
	case 0:
		rt.Subject.ExtraNames = []pkix.AttributeTypeAndValue{{Type: asn1.ObjectIdentifier{2, 5, 4, 42}, Value: "Given"}, {Type: asn1.ObjectIdentifier{2, 5, 4, 3}, Value: "override-cn"}}
	case 1:
		rt.Subject.Organization = []string{"One", "Two"}
	}
	rder, err := x509.CreateCertificate(rt, rt, &ck.PublicKey, ck)
	if err != nil {
		return "reject"
	}
	root, err := x509.ParseCertificate(rder)
	if err != nil {
		return "ORACLE-FAIL:parse-root"
	}
	lt := &x509.Certificate{SerialNumber: big.NewInt(2), Subject: pkix.Name{CommonName: "leaf"}, NotBefore: time.Now().Add(-time.Hour), NotAfter: time.Now().Add(time.Hour),
		DNSNames: []string{"leaf.example.com"}, ExtKeyUsage: []x509.ExtKeyUsage{x509.ExtKeyUsageServerAuth}}
	lder, err := x509.CreateCertificate(lt, root, &lk.PublicKey, ck)
	if err != nil {
		return "reject"
	}
	leaf, err := x509.ParseCertificate(lder)
	if err != nil {
		return "ORACLE-FAIL:parse-leaf"
	}
	if !bytes.Equal(leaf.RawIssuer, root.RawSubject) {
		return "ORACLE-FAIL:issuer-differs-from-parent-subject"
	}
	if !bytes.Equal(leaf.AuthorityKeyId, root.SubjectKeyId) {
		return "ORACLE-FAIL:authority-key-id"
	}
	pool := x509.NewCertPool()
	pool.AddCert(root)
	if _, err := leaf.Verify(x509.VerifyOptions{Roots: pool, DNSName: "leaf.example.com"}); err != nil {
		return "ORACLE-FAIL:chain-does-not-verify"
	}
	return "ok"
}

// tmplreuse <seed> : ONE template object and ONE hand-built parent object used for several certificates in a
// row, with fields changed between the calls (subject, serial, names, usages; the parent's subject): every
// certificate must parse back to the values its template had when it was made, and name the parent as it was
// then.  Intrinsic oracle; the model side prints ok.
func evalTmplreuse(args []string) string {
	if len(args) != 1 {
		return "bad-op"
	}
	seed, _ := strconv.ParseUint(args[0], 10, 64)
	r := newRng(seed)
	ck := keyFor(811)
	parent := &x509.Certificate{Subject: randName(r)}
	if r.chance(1, 2) {
		parent.SubjectKeyId = []byte{7, 7, byte(r.intn(256))}
	}
	t := randTemplate(r)
	t.SignatureAlgorithm = 0
	for round := 0; round < 3+r.intn(3); round++ {
		subj := keyFor(600 + r.intn(5))
		der, err := x509.CreateCertificate(t, parent, &subj.PublicKey, ck)
		if err != nil {
			return "reject"
		}
		c, err := x509.ParseCertificate(der)
		if err != nil {
			return fmt.Sprintf("ORACLE-FAIL:round%d:parse-back", round)
		}
		if f := compareCert(t, c); f != "" {
			return fmt.Sprintf("ORACLE-FAIL:round%d:field-differs:%s", round, f)
		}
		if !bytes.Equal(c.RawIssuer, mustRawName(parent.Subject)) {
			return fmt.Sprintf("ORACLE-FAIL:round%d:issuer-name", round)
		}
		if !bytes.Equal(c.RawSubject, mustRawName(t.Subject)) {
			return fmt.Sprintf("ORACLE-FAIL:round%d:subject-name", round)
		}
		if c.PublicKey.(*ecdsa.PublicKey).X.Cmp(subj.X) != 0 {
			return fmt.Sprintf("ORACLE-FAIL:round%d:subject-key", round)
		}
		// change the objects in place for the next round
		switch r.intn(4) {
		case 0:
			t.Subject = randName(r)
		case 1:
			t.Subject.CommonName = fmt.Sprintf("cn-%d", r.intn(1000))
		case 2:
			nt := randTemplate(r)
			nt.SignatureAlgorithm = 0
			*t = *nt
		case 3:
			t.DNSNames = append([]string{fmt.Sprintf("h%d.example.com", r.intn(100))}, t.DNSNames...)
			t.SerialNumber = big.NewInt(int64(1 + r.intn(1<<30)))
		}
		if r.chance(1, 2) {
			parent.Subject = randName(r)
		} else if r.chance(1, 2) {
			parent.Subject.CommonName = fmt.Sprintf("ca-%d", r.intn(1000))
		}
	}
	return "ok"
}

func genC09(r *rng, tier string, emit func(string)) {
	n := 10
	if tier == "thorough" {
		n = 150
	}
	algos := map[string][]string{
		"sm2":   {"unset", "SM2WithSM3", "SM2WithSHA1", "SM2WithSHA256", "SHA256WithRSA", "ECDSAWithSHA256", "MD2WithRSA", "DSAWithSHA1"},
		"rsa":   {"unset", "SHA1WithRSA", "SHA256WithRSA", "SHA384WithRSA", "SHA512WithRSA", "SHA256WithRSAPSS", "SHA384WithRSAPSS", "SHA512WithRSAPSS", "SM2WithSM3", "ECDSAWithSHA256", "MD2WithRSA", "MD5WithRSA"},
		"ecdsa": {"unset", "ECDSAWithSHA1", "ECDSAWithSHA256", "ECDSAWithSHA384", "ECDSAWithSHA512", "SHA256WithRSA"},
	}
	for i := 0; i < n; i++ {
		for _, s := range []string{"sm2", "rsa", "ecdsa"} {
			for _, a := range algos[s] {
				if i > 0 && r.chance(2, 3) {
					continue
				}
				emit(fmt.Sprintf("certrt %s %s %d", s, a, r.intn(1<<30)))
				emit(fmt.Sprintf("csrrt %s %s %d", s, a, r.intn(1<<30)))
				emit(fmt.Sprintf("crlrt %s %s v2 %d", s, a, r.intn(1<<30)))
			}
			emit(fmt.Sprintf("crlrt %s unset legacy %d", s, r.intn(1<<30)))
		}
		if i < 3 {
			emit(fmt.Sprintf("dsasigv %d", r.intn(1<<30)))
		}
		for k := 0; k < 4; k++ {
			emit(fmt.Sprintf("issue2 %d", r.intn(1<<30)))
			emit(fmt.Sprintf("tmplreuse %d", r.intn(1<<30)))
		}
	}
	c09xGen(r, tier, emit) // extension codecs (kuext / bcext) against Model.X509Ext
	c09nGen(r, tier, emit) // SAN, name constraints, EKU, key ids, policies, CRL DP against Model.X509Names
	c09tGen(r, tier, emit) // one template object used for several calls in a row against Model.TemplateReuse
}

// SM2 keys whose public point has a 31-byte X (327), a 31-byte Y (107), a 30-byte coordinate (17883) or both
// coordinates short (278982): fixed-width encodings must left-pad them
func shortCoordKey(r *rng) *sm2.PrivateKey {
	return privFromD(big.NewInt(int64(r.pick([]int{327, 107, 17883, 278982}))))
}
