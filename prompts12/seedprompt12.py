import json,sys
pid=sys.argv[1]
extra=sys.argv[2] if len(sys.argv)>2 else ""
for l in open('/verif/properties.jsonl'):
    p=json.loads(l)
    if p['id']==pid: break
txt=f"""You are helping test a verification effort by seeding a realistic bug. Work ONLY inside the scratch git worktree /tmp/wt12/{pid} (a checkout of the Go library github.com/tjfoc/gmsm: SM2/SM3/SM4, x509, pkcs12 and a GM/T 0024 TLS stack). Do not touch /repo or /verif, and do not read anything under /verif.

Environment: no network. In every shell call first run: export GOFLAGS=-mod=mod GOPROXY=off GOSUMDB=off GOTOOLCHAIN=local . The existing test suite is run with: cd /tmp/wt12/{pid} && unshare -n sh -c 'ip link set lo up 2>/dev/null; go test -vet=off -count=1 ./...'   (ALWAYS inside `unshare -n` as shown - other people run the same tests at the same time and the TLS tests listen on fixed ports; it takes about a minute; a file pkcs12/test.p12 may be created by the tests, ignore it).

Here is a semantic property the library is supposed to satisfy:

  id: {p['id']}
  title: {p['title']}
  statement: {p['statement']}
  quantified over: {p['quantifier']['text']}
  relevant files: {', '.join(p['anchors']['files'])}

{extra}
Step 0 (before seeding anything): read the relevant code with the property in mind and look for a place where the UNMODIFIED library already violates the statement for some input, history or configuration in the quantified space (earlier readers found, this way: a parser doing exponential work on 90 bytes; an error return that was dropped; a message that could be skipped in one configuration). Spend a moderate effort on this - about a quarter of your time, you have roughly 30 minutes in total - and prefer corners that ordinary tests never reach: unusual lengths, empty/nil values, options that are rarely set, error paths, second calls on the same object, interactions of two features. If you find one, write /tmp/seeded12/{pid}/defect/README.md (what fails, why it contradicts the statement) and a demo test/program there that FAILS on the pristine tree, and mention it FIRST in your final answer. A genuine pre-existing violation is worth more than the seeded changes. If you find none, say in one or two sentences which corners you examined.

Task: produce TWO different, independent source changes to the library (each a separate small patch against the pristine worktree) such that each one
  (a) BREAKS the property above (some input/history/configuration in the quantified space now violates the statement),
  (b) still compiles and still passes the complete existing test suite (run it and confirm), and
  (c) is realistic — the kind of slip a maintainer could make in a refactor or "optimisation" — and needs something SPECIFIC to manifest: an unusual input, a particular length/boundary, a multi-step sequence of operations, a particular interleaving, or two cooperating sites that each look fine alone. NOT something ordinary use would expose at once (e.g. do not simply break every encryption).
The two changes should exercise different mechanisms/areas of the property.

For each change i in {{1,2}} write into /tmp/seeded12/{pid}/m{{i}}/ :
  - patch.diff : `git diff` of the change against the pristine worktree (apply-able with `git apply`),
  - a demonstration: a Go test file (e.g. demo_test.go, say in which package directory it must be placed) or a small program that FAILS with the change applied and PASSES on the pristine tree; say exactly how to run it,
  - meta.json : {{"property": "{pid}", "summary": "...", "needs_to_manifest": "...", "files_changed": [...], "demo": {{"place_at": "...", "run": "..."}}, "verified": "what you ran and saw"}}.
Verify both directions yourself (demo passes on pristine tree, fails with patch; full suite passes with patch). NEVER use `git stash` (the stash is shared by all worktrees of the repository and other people work in sibling worktrees at the same time; use `git diff > file; git checkout -- .; git apply file` instead). After saving each patch, restore the worktree to pristine (git checkout -- . and remove added files) before starting the next one, and leave the worktree pristine at the end. Keep your final answer short: the two summaries and confirmation of what you verified."""
print(txt)
