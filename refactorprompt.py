import json,sys
pid=sys.argv[1]
for l in open('/verif/properties.jsonl'):
    p=json.loads(l)
    if p['id']==pid: break
txt=f"""You are helping test a verification effort from the OTHER side: you produce HARMLESS changes. Work ONLY inside the scratch git worktree /tmp/wth/{pid} (a checkout of the Go library github.com/tjfoc/gmsm: SM2/SM3/SM4, x509, pkcs12 and a GM/T 0024 TLS stack). Do not touch /repo or /verif, and do not read anything under /verif.

Environment: no network. In every shell call first run: export GOFLAGS=-mod=mod GOPROXY=off GOSUMDB=off GOTOOLCHAIN=local . Run the existing test suite as: cd /tmp/wth/{pid} && unshare -rn sh -c "ip link set lo up; go test -vet=off -count=1 ./..." (other jobs use the same fixed TCP ports; the package gmtls/gmcredentials fails on the pristine tree too because of expired test certificates — ignore it; a file pkcs12/test.p12 may be created by the tests, ignore it). Never use `git stash` (shared between worktrees): use `git diff > file`, `git checkout -- .`, `git apply`.

Here is a semantic property the library satisfies (after some repairs that are already in this tree):

  id: {p['id']}
  title: {p['title']}
  statement: {p['statement']}
  quantified over: {p['quantifier']['text']}
  relevant files: {', '.join(p['anchors']['files'])}

Task: produce TWO different, independent source changes to the relevant files (each a separate patch against the pristine worktree, each of moderate size: say 15-80 changed lines) that a maintainer might well make and after which the property STILL HOLDS for every input / history / configuration it quantifies over, and all existing tests still pass. The point is to see whether a checker raises a false alarm, so make the changes real, not cosmetic whitespace:
  - restructure a loop or a chain of conditions (same results), extract or inline a helper, split a function,
  - rename unexported identifiers, reorder struct fields or independent statements / independent validity checks,
  - change an internal representation (e.g. a table layout, a buffer strategy, a precomputation) with identical results,
  - replace a hand-written helper by a standard-library call with identical semantics (or vice versa),
  - reword an error message, return a different (but still non-nil) error value for an input that is rejected anyway,
  - pick a different but equally valid internal choice where the property leaves it open (be careful: say exactly why the property does not fix it).
Do NOT change exported identifiers or signatures, do not delete functionality, and do not weaken any check. The files named export_verif*.go (build tag `verif`) are test hooks of the checker that call unexported functions: prefer changes that keep those compiling (`go build -tags verif ./...` must still succeed); if one of your two changes deliberately renames something a hook uses, say so.
One of the two changes should be purely structural (behaviour byte-for-byte identical on every input); the other may change something observable that the property does not fix (an error text, which of two applicable errors is reported, an internal order) — state precisely what changes observably.

For each change i in {{1,2}} write into /tmp/harmless/{pid}/h{{i}}/ :
  - patch.diff : `git diff` of the change against the pristine worktree (apply-able with `git apply`),
  - meta.json : {{"property": "{pid}", "summary": "...", "why_property_still_holds": "...", "observable_differences": "none | ...", "files_changed": [...], "verified": "what you ran and saw"}},
  - optionally sanity_test.go with a test you used to convince yourself (say where it goes).
Verify: full suite passes with each patch; `go build -tags verif ./...` succeeds; then restore the worktree to pristine (git checkout -- . and remove added files) before the next one, and leave it pristine at the end. Keep your final answer short: the two summaries and what you verified."""
print(txt)
