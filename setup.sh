#!/bin/sh
# Build the framework from files on disk only (offline). Run once after a fresh restore.
set -e
cd "$(dirname "$0")"
export GOFLAGS=-mod=mod GOPROXY=off GOSUMDB=off GOTOOLCHAIN=local
mkdir -p bin work replays evidence
(cd extract && go build -o ../bin/extract .)
./bin/extract -repo "${VERIF_REPO:-/repo}" -out lean/Gmsm/Gen || true
cp "${VERIF_REPO:-/repo}/go.sum" harness/go.sum 2>/dev/null || true
(cd harness && go build -tags verif -o ../bin/h .)
(cd lean && lake build Gmsm driver specdriver)
echo "setup done"
