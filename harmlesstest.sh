#!/bin/sh
# harmlesstest.sh <dir-with-patch.diff> <Cnn> : apply a HARMLESS change to /repo, run the check, undo it. A check
# that is right passes, or - when the change breaks the tie between model and code - reports
# "VIOLATION … no-failing-input-found"; a VIOLATION with a concrete replay on a harmless change is a false alarm.
D=$(cd "$1" && pwd); P=$2
cd /repo || exit 2
if ! git diff --quiet; then echo "/repo has uncommitted changes; refusing"; exit 2; fi
git apply "$D/patch.diff" || { echo "patch does not apply"; exit 2; }
cd /verif && ./check $P --tier quick > /tmp/harmless.$$.log 2>&1; rc=$?
cd /repo && git reset -q --hard HEAD
v=$(grep '^VIOLATION' /tmp/harmless.$$.log | head -1); s=$(grep '^\[check\]' /tmp/harmless.$$.log | tail -1)
rm -f /tmp/harmless.$$.log
if [ -z "$v" ]; then echo "PASS  $s"
elif echo "$v" | grep -q 'no-failing-input-found$'; then echo "TIE   $v | $s"
else echo "ALARM $v | $s"; fi
