#!/bin/sh
# confirm_seed.sh <seed-dir> : in a scratch worktree of /repo HEAD, confirm that (1) the demo passes
# on the unchanged tree, (2) fails with patch.diff applied, (3) the pinned 35-test baseline passes
# with the patch.  meta.json must have demo.place_at (path relative to the repo root, a file or dir)
# and demo.run (shell command, run from the repo root).
D=$(cd "$1" && pwd)
export GOFLAGS=-mod=mod GOPROXY=off GOSUMDB=off GOTOOLCHAIN=local
W=/tmp/wt/confirm.$$
git -C /repo worktree add -q --detach $W HEAD || exit 2
trap 'git -C /repo worktree remove --force $W; rm -f /tmp/confirm[123].$$.*' EXIT
cd $W
PLACE=$(python3 -c "import json,sys;print(json.load(open('$D/meta.json'))['demo']['place_at'].split()[0])")
RUN=$(python3 -c "
import json,re
r=json.load(open('$D/meta.json'))['demo']['run']
r=re.split(r'\s{2,}and\s{2,}', r)[0]      # first of several alternative commands
r=re.sub(r'\s{2,}\(.*\$', '', r)           # trailing remark in parentheses
print(r.strip())")
DEMO=$(ls $D | grep '\.go$' | head -1)
case "$PLACE" in
  *.go) mkdir -p $(dirname $PLACE); cp $D/$DEMO $PLACE;;
  *) mkdir -p $PLACE; cp $D/$DEMO $PLACE/;;
esac
RUN=$(echo "$RUN" | sed "s#/tmp/wt[0-9]*/C[0-9]*#$W#g; s#<worktree>#$W#g")
echo "-- demo on unchanged tree"
( eval "$RUN" ) > /tmp/confirm1.$$.log 2>&1; r1=$?
tail -3 /tmp/confirm1.$$.log
git apply $D/patch.diff || { echo "PATCH DOES NOT APPLY"; exit 1; }
echo "-- demo with patch"
( eval "$RUN" ) > /tmp/confirm2.$$.log 2>&1; r2=$?
tail -5 /tmp/confirm2.$$.log
echo "-- baseline with patch (demo removed)"
case "$PLACE" in
  *.go) rm -f $PLACE;;
  *) rm -f $PLACE/$DEMO;;
esac
unshare -n sh -c "ip link set lo up 2>/dev/null; go test -json -vet=off -count=1 -timeout 25m ./..." > /tmp/confirm3.$$.json 2>/dev/null
python3 - <<PY
import json
base=json.load(open('/root/.vp/BASELINE.json'))['stable_pass']
res={}
for l in open('/tmp/confirm3.$$.json'):
    try: e=json.loads(l)
    except: continue
    if e.get('Test') and e.get('Action') in('pass','fail'):
        res[e['Package']+'::'+e['Test']]=e['Action']
bad=[t for t in base if res.get(t)!='pass']
print("baseline with patch: %d/%d pass"%(len(base)-len(bad),len(base)), bad[:5])
print("RESULT demo_unchanged_exit=$r1 demo_patched_exit=$r2 baseline_ok=%s"%(not bad))
PY
