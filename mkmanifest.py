#!/usr/bin/env python3
"""Regenerates MANIFEST.json from props.py (single source of truth for what is claimed)."""
import json, os, sys
ROOT = os.path.dirname(os.path.abspath(__file__))
sys.path.insert(0, ROOT)
import props as P

ids = [json.loads(l)["id"] for l in open(os.path.join(ROOT, "properties.jsonl"))]
checks, na = [], []
for pid in ids:
    c = P.PROPS.get(pid)
    if c and c.get("claimed", True):
        checks.append({
            "property_id": pid,
            "quick_cmd": "./check %s --tier quick" % pid,
            "thorough_cmd": "./check %s --tier thorough" % pid,
            "evidence_file": "/verif/evidence/%s.json" % pid,
            "replay_cmd_template": "./check %s --replay {path}" % pid,
            "engine": "lean-proof+correspondence",
            "level_claimed": {"category": c.get("level", "proof"), "text": c["claim"], "design_ref": "DESIGN.md §7 " + pid},
            "level_note": c["note"],
            "technique": c.get("technique", "Lean 4 machine-checked proof over a model of the code, tied to /repo by regenerated facts and a Go/Lean correspondence check"),
        })
    else:
        na.append({"property_id": pid, "reason": (c or {}).get("na_reason", P.NOT_BUILT_REASON)})
m = {
    "version": 1,
    "setup_cmd": "./setup.sh",
    "hooks": {
        "guard": "verif",
        "enable": "go build -tags verif (the harness module /verif/harness replaces github.com/tjfoc/gmsm by /repo)",
        "baseline_off_cmd": "for m in $(cat /w/out/gomods.txt); do MF=$(cd /repo/$m && . /w/out/goenv.sh && gomodflag); (cd /repo/$m && go test $MF -json -vet=off -count=1 -timeout 25m ./...); done",
        "source_commits": P.HOOK_COMMITS,
        "add_only": True,
    },
    "engines": [{
        "name": "lean-proof+correspondence", "path": "/verif/check",
        "serves_properties": [c["property_id"] for c in checks],
        "kind_free_text": "Lean 4 theorems about a model of the code (lean/Gmsm), tied to /repo on every run by regenerated facts (extract/) and a Go-vs-Lean line-protocol correspondence check (harness/, lean/Driver)",
    }],
    "checks": checks,
    "not_applicable": na,
    "notes": "See DESIGN.md. KNOWN_FINDINGS.txt lists recorded findings and fix: commits.",
}
json.dump(m, open(os.path.join(ROOT, "MANIFEST.json"), "w"), indent=1)
print("claimed:", [c["property_id"] for c in checks], "not claimed:", [x["property_id"] for x in na])
