#!/bin/sh
# seedsweep.sh : apply every seeded change in turn, run the check of its property (and of the properties
# listed in seeded/<id>/also_check, if any), record what the check said in seeded/<id>/verif_result.json.
# Optional arguments: property ids (C15 C06 ...) - only the seeded changes of those properties are re-run.
cd /verif || exit 2
for d in seeded/*/; do
  id=$(basename $d)
  if [ $# -gt 0 ]; then
    case " $* " in *" ${id%%-*} "*) ;; *) continue;; esac
  fi
  [ -f $d/patch.diff ] || continue
  prop=$(python3 -c "import json;print(json.load(open('$d/meta.json'))['property'])" 2>/dev/null || echo ${id%%-*})
  props="$prop $(cat $d/also_check 2>/dev/null)"
  res=""
  for p in $props; do
    out=$(./seedtest.sh /verif/$d $p 2>&1 | grep -v '^??')
    line=$(echo "$out" | grep '\[check\]' | tail -1)
    viol=$(echo "$out" | grep -c '^VIOLATION')
    kinds=$(python3 - <<PY 2>/dev/null
import json,collections
try:
    d=json.load(open('/verif/replays/$p-1-quick.json'))
    c=collections.Counter(x.get('kind','?') for x in d.get('cases',[]))
    b=d.get('broken_obligations',[])
    print(", ".join("%s x%d"%(k,v) for k,v in c.most_common(6)) + (("; broken: "+", ".join(map(str,b[:3]))) if b else ""))
except Exception as e:
    print("")
PY
)
    [ $viol -gt 0 ] || kinds=""
    res="$res{\"check\": \"./seedtest.sh seeded/$id $p  (git apply patch.diff; ./check $p --tier quick; git reset --hard)\", \"violation_reported\": $([ $viol -gt 0 ] && echo true || echo false), \"summary\": \"$(echo $line | sed 's/"/\\"/g')\", \"failing_op_kinds\": \"$kinds\"},"
    echo "$id $p viol=$viol $line"
  done
  echo "{\"runs\": [${res%,}]}" > $d/verif_result.json
done
