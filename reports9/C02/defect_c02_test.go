package sm2_test

// Demonstrations of pre-existing (unmodified tree) violations of property C02:
// Decrypt / DecryptAsn1 accept ciphertexts whose C1 is not a point of the SM2 curve
// or whose C3/C2 fields were altered.
//
// place at: sm2/defect_c02_test.go
// run:      go test -vet=off -count=1 -run TestC02Defect ./sm2/

import (
	"bytes"
	"crypto/rand"
	"encoding/asn1"
	"encoding/binary"
	"math/big"
	"testing"

	"github.com/tjfoc/gmsm/sm2"
	"github.com/tjfoc/gmsm/sm3"
)

func b32(v *big.Int) []byte { b := make([]byte, 32); v.FillBytes(b); return b }

func refKDF(n int, z []byte) []byte {
	var out []byte
	for ct := uint32(1); len(out) < n; ct++ {
		var c [4]byte
		binary.BigEndian.PutUint32(c[:], ct)
		out = append(out, sm3.Sm3Sum(append(append([]byte{}, z...), c[:]...))...)
	}
	return out[:n]
}

// TestC02DefectNonCanonicalC1: C1 = (x+p, y).  x+p >= p is not a field element, so (x+p, y) is
// not a point of the curve, yet IsOnCurve (which reduces its arguments mod p) lets it through and
// Decrypt returns the plaintext: a second, different byte string decrypts like the valid ciphertext.
func TestC02DefectNonCanonicalC1(t *testing.T) {
	priv, err := sm2.GenerateKey(rand.Reader)
	if err != nil {
		t.Fatal(err)
	}
	curve := sm2.P256Sm2()
	p := curve.Params().P
	msg := []byte("GM/T 0003.4 B1: C1 must satisfy the curve equation")

	// a curve point with a tiny x coordinate (so that x+p still fits in 32 bytes); it is k*G for
	// some k (the group has prime order), i.e. a C1 that Encrypt itself can produce.
	var C1 *sm2.PublicKey
	for x := byte(1); C1 == nil; x++ {
		comp := make([]byte, 33)
		comp[32] = x
		C1 = sm2.Decompress(comp)
	}
	if !curve.IsOnCurve(C1.X, C1.Y) {
		t.Fatal("setup: C1 not on curve")
	}
	x2, y2 := curve.ScalarMult(C1.X, C1.Y, priv.D.Bytes())
	z := append(b32(x2), b32(y2)...)
	c2 := refKDF(len(msg), z)
	for i := range c2 {
		c2[i] ^= msg[i]
	}
	c3 := sm3.Sm3Sum(append(append(b32(x2), msg...), b32(y2)...))
	build := func(x, y *big.Int) []byte {
		ct := []byte{4}
		ct = append(ct, b32(x)...)
		ct = append(ct, b32(y)...)
		ct = append(ct, c3...)
		return append(ct, c2...)
	}
	valid := build(C1.X, C1.Y)
	if pt, err := sm2.Decrypt(priv, valid, sm2.C1C3C2); err != nil || !bytes.Equal(pt, msg) {
		t.Fatalf("setup: the hand-built valid ciphertext does not decrypt: %v", err)
	}
	xp := new(big.Int).Add(C1.X, p) // >= p, still < 2^256
	if xp.BitLen() > 256 {
		t.Fatal("setup: x+p does not fit")
	}
	forged := build(xp, C1.Y)
	if pt, err := sm2.Decrypt(priv, forged, sm2.C1C3C2); err == nil {
		t.Errorf("Decrypt accepted C1 = (x+p, y) with x+p = %x (not a field element, not a curve point) and returned %q", xp, pt)
	}
}

type gmCipher struct {
	X, Y *big.Int
	Hash []byte
	C2   []byte
}

// TestC02DefectAsn1NegativeX: in the ASN.1 form the INTEGER X is replaced by -X.  (-X, Y) is not a
// curve point; CipherUnmarshal uses big.Int.Bytes(), which drops the sign, and DecryptAsn1 succeeds.
func TestC02DefectAsn1NegativeX(t *testing.T) {
	priv, _ := sm2.GenerateKey(rand.Reader)
	msg := []byte("negative coordinate")
	raw, err := sm2.Encrypt(&priv.PublicKey, msg, rand.Reader, sm2.C1C3C2)
	if err != nil {
		t.Fatal(err)
	}
	x := new(big.Int).SetBytes(raw[1:33])
	y := new(big.Int).SetBytes(raw[33:65])
	der, err := asn1.Marshal(gmCipher{new(big.Int).Neg(x), y, raw[65:97], raw[97:]})
	if err != nil {
		t.Fatal(err)
	}
	if pt, err := sm2.DecryptAsn1(priv, der); err == nil {
		t.Errorf("DecryptAsn1 accepted C1 = (-x, y) and returned %q", pt)
	}
}

// TestC02DefectAsn1Resplit: C3 shortened to 31 bytes, its last byte moved to the front of C2.
// Both fields are altered; CipherUnmarshal concatenates them without checking len(C3) == 32.
func TestC02DefectAsn1Resplit(t *testing.T) {
	priv, _ := sm2.GenerateKey(rand.Reader)
	msg := []byte("field boundaries")
	raw, err := sm2.Encrypt(&priv.PublicKey, msg, rand.Reader, sm2.C1C3C2)
	if err != nil {
		t.Fatal(err)
	}
	x := new(big.Int).SetBytes(raw[1:33])
	y := new(big.Int).SetBytes(raw[33:65])
	der, _ := asn1.Marshal(gmCipher{x, y, raw[65:96], raw[96:]})
	if pt, err := sm2.DecryptAsn1(priv, der); err == nil {
		t.Errorf("DecryptAsn1 accepted a 31-byte C3 / %d-byte C2 for a %d-byte plaintext and returned %q", len(raw)-96, len(msg), pt)
	}
	// bytes after the SEQUENCE are ignored as well
	good, _ := sm2.CipherMarshal(raw)
	if pt, err := sm2.DecryptAsn1(priv, append(good, 0xde, 0xad)); err == nil {
		t.Errorf("DecryptAsn1 accepted trailing bytes after the SEQUENCE and returned %q", pt)
	}
}

// TestC02DefectFormatByte: a single-byte change of a valid raw ciphertext (byte 0, the point format
// octet PC of C1) is never noticed; 0x02/0x03 would even announce a compressed point.
func TestC02DefectFormatByte(t *testing.T) {
	priv, _ := sm2.GenerateKey(rand.Reader)
	msg := []byte("format octet")
	for _, mode := range []int{sm2.C1C3C2, sm2.C1C2C3} {
		raw, err := sm2.Encrypt(&priv.PublicKey, msg, rand.Reader, mode)
		if err != nil {
			t.Fatal(err)
		}
		for _, pc := range []byte{0x00, 0x02, 0x03, 0x05, 0xff} {
			c := append([]byte{}, raw...)
			c[0] = pc
			if pt, err := sm2.Decrypt(priv, c, mode); err == nil {
				t.Errorf("mode %d: Decrypt accepted PC=%#02x and returned %q", mode, pc, pt)
			}
		}
	}
}
