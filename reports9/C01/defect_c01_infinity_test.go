package sm2

// Secondary (weaker) observation. Place at sm2/defect_c01_infinity_test.go and run
//   go test -vet=off -count=1 -run TestC01DefectInfinity -v ./sm2/
// FAILS on the pristine tree.
//
// GM/T 0003.2 verification step B6 computes (x1', y1') = [s']G + [t]PA and B7 R = (e' + x1') mod n.
// When that sum is the point at infinity there is no x1'; Sm2Verify/Verify silently use x1' = 0
// (sm2P256ToAffine maps Z = 0 to (0,0)), so the pair r = e mod n, s = -r*d/(1+d) mod n -- the
// "signature" a signer would get from the forbidden nonce k = 0 -- is accepted. Only the key holder
// can compute it, so this is not a forgery, but it is a pair that no conformant signer (k in [1,n-1])
// can emit and that the standard's verification cannot accept.

import (
	"crypto/rand"
	"math/big"
	"testing"
)

func TestC01DefectInfinity(t *testing.T) {
	priv, err := GenerateKey(rand.Reader)
	if err != nil {
		t.Fatal(err)
	}
	msg := []byte("hello")
	N := priv.Curve.Params().N
	dg, _ := priv.PublicKey.Sm3Digest(msg, nil)
	e := new(big.Int).SetBytes(dg)
	r := new(big.Int).Mod(e, N)
	d1 := new(big.Int).Add(priv.D, big.NewInt(1))
	d1.ModInverse(d1, N)
	s := new(big.Int).Mul(r, priv.D)
	s.Mul(s, d1)
	s.Neg(s)
	s.Mod(s, N)
	if r.Sign() == 0 || s.Sign() == 0 || new(big.Int).Mod(new(big.Int).Add(r, s), N).Sign() == 0 {
		t.Skip("degenerate")
	}
	if Sm2Verify(&priv.PublicKey, msg, nil, r, s) {
		t.Errorf("Sm2Verify accepts the k=0 pair: [s]G+[t]P is the point at infinity, which has no x coordinate")
	}
	if Verify(&priv.PublicKey, dg, r, s) {
		t.Errorf("Verify (pre-hashed) accepts the k=0 pair")
	}
}
