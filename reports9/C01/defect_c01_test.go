package x509_test

// Place this file at x509/defect_c01_test.go and run
//   go test -vet=off -count=1 -run TestC01Defect -v ./x509/
//
// It FAILS on the pristine tree: the X.509 signature check for SM2 keys
// (x509.checkSignature -> encoding/asn1.Unmarshal into struct{R,S}) accepts a
// signature value that is NOT a strict DER SEQUENCE of exactly two INTEGERs.

import (
	"crypto/ecdsa"
	"crypto/rand"
	"encoding/asn1"
	"math/big"
	"testing"
	"time"

	"crypto/x509/pkix"

	"github.com/tjfoc/gmsm/sm2"
	"github.com/tjfoc/gmsm/x509"
)

type sig2 struct{ R, S *big.Int }
type sig3 struct {
	R, S  *big.Int
	Extra asn1.RawValue
}

// Direct: Certificate.CheckSignature with a three-member SEQUENCE.
func TestC01DefectCheckSignatureTrailingMember(t *testing.T) {
	priv, err := sm2.GenerateKey(rand.Reader)
	if err != nil {
		t.Fatal(err)
	}
	msg := []byte("to be signed")
	r, s, err := sm2.Sm2Sign(priv, msg, nil, rand.Reader)
	if err != nil {
		t.Fatal(err)
	}
	good, _ := asn1.Marshal(sig2{r, s})
	c := &x509.Certificate{PublicKey: &ecdsa.PublicKey{Curve: priv.Curve, X: priv.X, Y: priv.Y}}
	if err := c.CheckSignature(x509.SM2WithSM3, msg, good); err != nil {
		t.Fatalf("genuine signature rejected: %v", err)
	}
	for name, extra := range map[string]asn1.RawValue{
		"NULL":          {Tag: asn1.TagNull},
		"third INTEGER": {Tag: asn1.TagInteger, Bytes: []byte{1}},
		"OCTET STRING":  {Tag: asn1.TagOctetString, Bytes: []byte("any attacker chosen bytes")},
	} {
		bad, err := asn1.Marshal(sig3{r, s, extra})
		if err != nil {
			t.Fatal(err)
		}
		// the strict verifier of package sm2 refuses it ...
		if priv.PublicKey.Verify(msg, bad) {
			t.Errorf("%s: sm2.PublicKey.Verify accepted SEQUENCE{r,s,extra}", name)
		}
		// ... the X.509 verifier must too
		if err := c.CheckSignature(x509.SM2WithSM3, msg, bad); err == nil {
			t.Errorf("%s: x509 CheckSignature accepted a signature that is not a SEQUENCE of two INTEGERs: % x", name, bad)
		}
	}
}

// End to end: a certificate whose signatureValue was re-encoded with a trailing member still
// verifies against its issuer (certificate malleability: same TBS, different certificate bytes).
func TestC01DefectCertificateMalleable(t *testing.T) {
	priv, err := sm2.GenerateKey(rand.Reader)
	if err != nil {
		t.Fatal(err)
	}
	tmpl := &x509.Certificate{
		SerialNumber:          big.NewInt(1),
		Subject:               pkix.Name{CommonName: "c01 root"},
		NotBefore:             time.Now().Add(-time.Hour),
		NotAfter:              time.Now().Add(time.Hour),
		KeyUsage:              x509.KeyUsageCertSign | x509.KeyUsageDigitalSignature,
		BasicConstraintsValid: true,
		IsCA:                  true,
		SignatureAlgorithm:    x509.SM2WithSM3,
	}
	der, err := x509.CreateCertificate(tmpl, tmpl, &priv.PublicKey, priv)
	if err != nil {
		t.Fatal(err)
	}
	root, err := x509.ParseCertificate(der)
	if err != nil {
		t.Fatal(err)
	}
	if err := root.CheckSignatureFrom(root); err != nil {
		t.Fatalf("genuine certificate rejected: %v", err)
	}

	var outer struct {
		TBS asn1.RawValue
		Alg asn1.RawValue
		Sig asn1.BitString
	}
	if rest, err := asn1.Unmarshal(der, &outer); err != nil || len(rest) != 0 {
		t.Fatalf("re-parse: %v", err)
	}
	var rs sig2
	if _, err := asn1.Unmarshal(outer.Sig.Bytes, &rs); err != nil {
		t.Fatal(err)
	}
	bad, _ := asn1.Marshal(sig3{rs.R, rs.S, asn1.RawValue{Tag: asn1.TagOctetString, Bytes: []byte("padding")}})
	forged, err := asn1.Marshal(struct {
		TBS asn1.RawValue
		Alg asn1.RawValue
		Sig asn1.BitString
	}{asn1.RawValue{FullBytes: outer.TBS.FullBytes}, asn1.RawValue{FullBytes: outer.Alg.FullBytes}, asn1.BitString{Bytes: bad, BitLength: 8 * len(bad)}})
	if err != nil {
		t.Fatal(err)
	}
	fc, err := x509.ParseCertificate(forged)
	if err != nil {
		t.Skipf("forged certificate does not parse: %v", err)
	}
	if err := fc.CheckSignatureFrom(root); err == nil {
		t.Errorf("certificate with signatureValue SEQUENCE{r,s,OCTET STRING} verifies against its issuer")
	}
}
