package gmtls

// Second PRE-EXISTING violation of C15 (unmodified tree), TLS (non-GM) client.
// Place this file in gmtls/ and run:
//   go test -vet=off -count=1 -run TestDefectC15RsaSuiteWithEcCert ./gmtls/
//
// The server selects an RSA key-exchange suite (TLS_RSA_WITH_AES_128_CBC_SHA, offered by default) but its
// Certificate message carries an EC certificate; then ServerHelloDone. The client must abort with an error.
// Instead rsaKeyAgreement.generateClientKeyExchange does cert.PublicKey.(*rsa.PublicKey) unchecked and the
// client goroutine panics ("interface conversion"). No key is needed by the peer.

import (
	"encoding/pem"
	"fmt"
	"io/ioutil"
	"net"
	"testing"
	"time"
)

func defectEvilRsaServer(conn net.Conn, certDER []byte) error {
	c := Server(conn, &Config{})
	msg, err := c.readHandshake()
	if err != nil {
		return err
	}
	ch, ok := msg.(*clientHelloMsg)
	if !ok {
		return fmt.Errorf("no ClientHello")
	}
	offered := false
	for _, id := range ch.cipherSuites {
		if id == TLS_RSA_WITH_AES_128_CBC_SHA {
			offered = true
		}
	}
	if !offered {
		return fmt.Errorf("client did not offer TLS_RSA_WITH_AES_128_CBC_SHA")
	}
	c.vers = VersionTLS12
	c.haveVers = true
	c.buffering = true
	sh := &serverHelloMsg{vers: VersionTLS12, random: make([]byte, 32), cipherSuite: TLS_RSA_WITH_AES_128_CBC_SHA, compressionMethod: compressionNone}
	if _, err := c.writeRecord(recordTypeHandshake, sh.marshal()); err != nil {
		return err
	}
	cm := &certificateMsg{certificates: [][]byte{certDER}}
	if _, err := c.writeRecord(recordTypeHandshake, cm.marshal()); err != nil {
		return err
	}
	if _, err := c.writeRecord(recordTypeHandshake, new(serverHelloDoneMsg).marshal()); err != nil {
		return err
	}
	if _, err := c.flush(); err != nil {
		return err
	}
	conn.SetReadDeadline(time.Now().Add(3 * time.Second))
	buf := make([]byte, 4096)
	for {
		if _, err := conn.Read(buf); err != nil {
			return nil
		}
	}
}

func TestDefectC15RsaSuiteWithEcCert(t *testing.T) {
	pemBytes, err := ioutil.ReadFile("websvr/certs/sm2_sign_cert.cer")
	if err != nil {
		t.Fatal(err)
	}
	blk, _ := pem.Decode(pemBytes)
	if blk == nil {
		t.Fatal("no PEM block")
	}
	cc, sc := net.Pipe()
	defer cc.Close()
	defer sc.Close()
	go func() {
		if err := defectEvilRsaServer(sc, blk.Bytes); err != nil {
			fmt.Println("scripted server:", err)
		}
		sc.Close()
	}()
	type res struct {
		err      error
		panicked interface{}
	}
	done := make(chan res, 1)
	go func() {
		var r res
		defer func() {
			r.panicked = recover()
			done <- r
		}()
		cli := Client(cc, &Config{InsecureSkipVerify: true})
		r.err = cli.Handshake()
	}()
	select {
	case r := <-done:
		if r.panicked != nil {
			t.Fatalf("client Handshake PANICKED instead of returning an error: %v", r.panicked)
		}
		if r.err == nil {
			t.Fatalf("client reported the handshake as complete")
		}
		t.Logf("client returned error (as required): %v", r.err)
	case <-time.After(10 * time.Second):
		t.Fatalf("client hangs")
	}
}
