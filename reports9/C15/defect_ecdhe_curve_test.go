package gmtls

// Demo of a PRE-EXISTING violation of C15 (unmodified tree).
// Place this file in gmtls/ and run:
//   go test -vet=off -count=1 -run TestDefectC15EcdheCurve ./gmtls/
//
// A GMSSL client offers GMTLS_ECDHE_SM4_CBC_SM3 (0xe011) by default. A server that owns a valid
// SM2 signing/encryption certificate pair selects that suite and sends a correctly signed
// ServerKeyExchange whose named-curve field is (a) an id the library does not know or (b) P-256.
// The client must answer with an error. Instead (*ecdheKeyAgreementGM).generateClientKeyExchange
// panics: "internal error" for (a), and crypto/elliptic's invalid-point panic for (b), because the
// point was parsed on the SM2 curve but is then multiplied on the curve named by the peer.

import (
	"crypto"
	"crypto/elliptic"
	"crypto/rand"
	"fmt"
	"net"
	"testing"
	"time"

	"github.com/tjfoc/gmsm/sm2"
)

func defectLoadGMServerConfig(t *testing.T) *Config {
	sig, err := LoadX509KeyPair("websvr/certs/sm2_sign_cert.cer", "websvr/certs/sm2_sign_key.pem")
	if err != nil {
		t.Fatal(err)
	}
	enc, err := LoadX509KeyPair("websvr/certs/sm2_enc_cert.cer", "websvr/certs/sm2_enc_key.pem")
	if err != nil {
		t.Fatal(err)
	}
	return &Config{GMSupport: &GMSupport{}, Certificates: []Certificate{sig, enc}}
}

// scripted GM server: honest up to the choice of the ECDHE suite and the curve id in ServerKeyExchange
func defectEvilEcdheServer(conn net.Conn, cfg *Config, curve uint16) error {
	c := Server(conn, cfg)
	c.config.serverInitOnce.Do(func() { c.config.serverInit(nil) })
	hs := serverHandshakeStateGM{c: c}
	if _, err := hs.readClientHello(); err != nil {
		return err
	}
	offered := false
	for _, id := range hs.clientHello.cipherSuites {
		if id == GMTLS_ECDHE_SM4_CBC_SM3 {
			offered = true
		}
	}
	if !offered {
		return fmt.Errorf("client did not offer the ECDHE suite")
	}
	for _, s := range gmCipherSuites {
		if s.id == GMTLS_ECDHE_SM4_CBC_SM3 {
			hs.suite = s
		}
	}
	hs.hello.cipherSuite = hs.suite.id
	c.buffering = true
	if _, err := c.writeRecord(recordTypeHandshake, hs.hello.marshal()); err != nil {
		return err
	}
	certMsg := new(certificateMsg)
	for i := range hs.cert {
		certMsg.certificates = append(certMsg.certificates, hs.cert[i].Certificate...)
	}
	if _, err := c.writeRecord(recordTypeHandshake, certMsg.marshal()); err != nil {
		return err
	}
	// ephemeral key on the SM2 curve, as GM/T 0024 wants it
	_, x, y, err := elliptic.GenerateKey(sm2.P256Sm2(), rand.Reader)
	if err != nil {
		return err
	}
	pub := elliptic.Marshal(sm2.P256Sm2(), x, y)
	params := append([]byte{3, byte(curve >> 8), byte(curve), byte(len(pub))}, pub...)
	digest, _ := hashForServerKeyExchange(signatureECDSA, crypto.SHA1, VersionGMSSL, hs.clientHello.random, hs.hello.random, params)
	sig, err := hs.cert[0].PrivateKey.(crypto.Signer).Sign(rand.Reader, digest, nil)
	if err != nil {
		return err
	}
	skx := new(serverKeyExchangeMsg)
	skx.key = append(append([]byte{}, params...), byte(len(sig)>>8), byte(len(sig)))
	skx.key = append(skx.key, sig...)
	if _, err := c.writeRecord(recordTypeHandshake, skx.marshal()); err != nil {
		return err
	}
	if _, err := c.writeRecord(recordTypeHandshake, new(serverHelloDoneMsg).marshal()); err != nil {
		return err
	}
	if _, err := c.flush(); err != nil {
		return err
	}
	// drain whatever the client answers until it goes away
	conn.SetReadDeadline(time.Now().Add(3 * time.Second))
	buf := make([]byte, 4096)
	for {
		if _, err := conn.Read(buf); err != nil {
			return nil
		}
	}
}

func defectRun(t *testing.T, curve uint16) {
	cfg := defectLoadGMServerConfig(t)
	cc, sc := net.Pipe()
	defer cc.Close()
	defer sc.Close()
	go func() {
		if err := defectEvilEcdheServer(sc, cfg, curve); err != nil {
			fmt.Println("scripted server:", err)
		}
		sc.Close()
	}()
	type res struct {
		err      error
		panicked interface{}
	}
	done := make(chan res, 1)
	go func() {
		var r res
		defer func() {
			r.panicked = recover()
			done <- r
		}()
		cli := Client(cc, &Config{GMSupport: &GMSupport{}, InsecureSkipVerify: true})
		r.err = cli.Handshake()
	}()
	select {
	case r := <-done:
		if r.panicked != nil {
			t.Fatalf("curve id %#04x: client Handshake PANICKED instead of returning an error: %v", curve, r.panicked)
		}
		if r.err == nil {
			t.Fatalf("curve id %#04x: client reported the handshake as complete", curve)
		}
		t.Logf("curve id %#04x: client returned error (as required): %v", curve, r.err)
	case <-time.After(10 * time.Second):
		t.Fatalf("curve id %#04x: client hangs", curve)
	}
}

func TestDefectC15EcdheCurveUnknown(t *testing.T) { defectRun(t, 0x0100) }
func TestDefectC15EcdheCurveP256(t *testing.T)    { defectRun(t, 23) }
