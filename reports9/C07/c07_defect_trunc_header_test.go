package gmtls_test

// Demo for a PRE-EXISTING violation of C07 (fails on the pristine tree).
// Place in gmtls/ (it loads websvr/certs/* relative to that directory) and run:
//   go test -vet=off -count=1 -run TestC07DefectTruncatedHeaderIsCleanEOF ./gmtls/
//
// A protected record that is truncated to 1..4 bytes (i.e. inside its 5-byte header) followed by
// the end of the transport stream is reported to the application as a clean io.EOF - exactly what
// an authenticated close_notify produces - instead of being rejected with a fatal error.

import (
	"bytes"
	"io"
	"net"
	"sync"
	"testing"
	"time"

	"github.com/tjfoc/gmsm/gmtls"
)

type d0Wire struct {
	mu     sync.Mutex
	cond   *sync.Cond
	in     []byte
	closed bool
	peer   *d0Wire
	hold   bool
	capt   []byte
}

func d0NewWire() (*d0Wire, *d0Wire) {
	a, b := &d0Wire{}, &d0Wire{}
	a.cond, b.cond = sync.NewCond(&a.mu), sync.NewCond(&b.mu)
	a.peer, b.peer = b, a
	return a, b
}
func (w *d0Wire) Read(p []byte) (int, error) {
	w.mu.Lock()
	defer w.mu.Unlock()
	for len(w.in) == 0 && !w.closed {
		w.cond.Wait()
	}
	if len(w.in) == 0 {
		return 0, io.EOF
	}
	n := copy(p, w.in)
	w.in = w.in[n:]
	return n, nil
}
func (w *d0Wire) feed(p []byte) {
	w.mu.Lock()
	w.in = append(w.in, p...)
	w.cond.Broadcast()
	w.mu.Unlock()
}
func (w *d0Wire) eof() {
	w.mu.Lock()
	w.closed = true
	w.cond.Broadcast()
	w.mu.Unlock()
}
func (w *d0Wire) Write(p []byte) (int, error) {
	w.mu.Lock()
	hold := w.hold
	if hold {
		w.capt = append(w.capt, p...)
	}
	w.mu.Unlock()
	if !hold {
		w.peer.feed(p)
	}
	return len(p), nil
}
func (w *d0Wire) setHold(h bool) { w.mu.Lock(); w.hold = h; w.mu.Unlock() }
func (w *d0Wire) take() []byte {
	w.mu.Lock()
	defer w.mu.Unlock()
	c := w.capt
	w.capt = nil
	return c
}
func (w *d0Wire) Close() error                       { w.peer.eof(); w.eof(); return nil }
func (w *d0Wire) LocalAddr() net.Addr                { return &net.TCPAddr{} }
func (w *d0Wire) RemoteAddr() net.Addr               { return &net.TCPAddr{} }
func (w *d0Wire) SetDeadline(t time.Time) error      { return nil }
func (w *d0Wire) SetReadDeadline(t time.Time) error  { return nil }
func (w *d0Wire) SetWriteDeadline(t time.Time) error { return nil }

func d0Session(t *testing.T, suite uint16) (cli, srv *gmtls.Conn, cw, sw *d0Wire) {
	sig, err := gmtls.LoadX509KeyPair("websvr/certs/sm2_sign_cert.cer", "websvr/certs/sm2_sign_key.pem")
	if err != nil {
		t.Fatal(err)
	}
	enc, err := gmtls.LoadX509KeyPair("websvr/certs/sm2_enc_cert.cer", "websvr/certs/sm2_enc_key.pem")
	if err != nil {
		t.Fatal(err)
	}
	scfg := &gmtls.Config{GMSupport: &gmtls.GMSupport{}, Certificates: []gmtls.Certificate{sig, enc}, CipherSuites: []uint16{suite}}
	ccfg := &gmtls.Config{GMSupport: &gmtls.GMSupport{}, InsecureSkipVerify: true, CipherSuites: []uint16{suite}}
	cw, sw = d0NewWire()
	cli, srv = gmtls.Client(cw, ccfg), gmtls.Server(sw, scfg)
	errc := make(chan error, 1)
	go func() { errc <- srv.Handshake() }()
	if err := cli.Handshake(); err != nil {
		t.Fatalf("client handshake: %v", err)
	}
	if err := <-errc; err != nil {
		t.Fatalf("server handshake: %v", err)
	}
	return
}

func d0Split(b []byte) [][]byte {
	var out [][]byte
	for len(b) >= 5 {
		n := int(b[3])<<8 | int(b[4])
		out = append(out, b[:5+n])
		b = b[5+n:]
	}
	return out
}

func d0ReadAll(c *gmtls.Conn) ([]byte, error) {
	var buf bytes.Buffer
	tmp := make([]byte, 4096)
	for {
		n, err := c.Read(tmp)
		buf.Write(tmp[:n])
		if err != nil {
			return buf.Bytes(), err
		}
	}
}

func TestC07DefectTruncatedHeaderIsCleanEOF(t *testing.T) {
	for _, suite := range []uint16{gmtls.GMTLS_ECC_SM4_CBC_SM3, gmtls.GMTLS_ECC_SM4_GCM_SM3} {
		for dir := 0; dir < 2; dir++ {
			// reference: what an orderly, authenticated end of stream looks like
			for cut := 1; cut <= 6; cut++ {
				cli, srv, cw, sw := d0Session(t, suite)
				w, r, ww, rw := cli, srv, cw, sw
				if dir == 1 {
					w, r, ww, rw = srv, cli, sw, cw
				}
				ww.setHold(true)
				w.Write([]byte("pay 100 to alice"))
				w.Write([]byte("... but only if bob agrees"))
				recs := d0Split(ww.take())
				last := recs[len(recs)-1]
				for _, rec := range recs[:len(recs)-1] {
					rw.feed(rec)
				}
				rw.feed(last[:cut]) // the last record is truncated to cut bytes
				rw.eof()            // and the attacker closes the TCP stream
				data, err := d0ReadAll(r)
				t.Logf("suite %04x dir %d: last record (%d bytes) truncated to %d: delivered %q, err=%v", suite, dir, len(last), cut, data, err)
				if err == io.EOF {
					t.Errorf("suite %04x dir %d: record truncated to %d bytes was NOT rejected: Read reports a clean io.EOF (same as after close_notify)", suite, dir, cut)
				}
			}
		}
	}
}
