package sm2

// Demo of a pre-existing violation of C13 (place in sm2/, package sm2).
//
//   go test -vet=off -count=1 -run 'TestC13Defect' ./sm2/
//
// It FAILS on the pristine tree.

import (
	"bytes"
	"crypto/elliptic"
	"math/big"
	"testing"

	"github.com/tjfoc/gmsm/sm3"
)

// --- independent reference of GM/T 0003.3 section 6.1 (big.Int arithmetic only) ---

func refPad32(v *big.Int) []byte {
	b := v.Bytes()
	out := make([]byte, 32)
	copy(out[32-len(b):], b)
	return out
}

func refXHat(x *big.Int) *big.Int {
	w := new(big.Int).Lsh(big.NewInt(1), 127)
	r := new(big.Int).And(x, new(big.Int).Sub(w, big.NewInt(1)))
	return r.Add(r, w)
}

func refZ(cp *elliptic.CurveParams, id []byte, x, y *big.Int) []byte {
	a := new(big.Int).Sub(cp.P, big.NewInt(3))
	h := sm3.New()
	h.Write([]byte{byte(len(id) * 8 >> 8), byte(len(id) * 8)})
	h.Write(id)
	for _, v := range []*big.Int{a, cp.B, cp.Gx, cp.Gy, x, y} {
		h.Write(refPad32(v))
	}
	return h.Sum(nil)
}

func refKDF(z []byte, klen int) []byte {
	var out []byte
	for ct := uint32(1); len(out) < klen; ct++ {
		h := sm3.New()
		h.Write(z)
		h.Write([]byte{byte(ct >> 24), byte(ct >> 16), byte(ct >> 8), byte(ct)})
		out = append(out, h.Sum(nil)...)
	}
	return out[:klen]
}

// refKeyAgreement computes what the standard prescribes for the initiator A (the responder's values
// are the same by symmetry): K, S1 (=SB, tag 02) and S2 (=SA, tag 03).
func refKeyAgreement(klen int, ida, idb []byte, dA, rA *big.Int, pAx, pAy, pBx, pBy, rAx, rAy, rBx, rBy *big.Int) (k, s1, s2 []byte, infinite bool) {
	cp := P256Sm2().Params() // generic CurveParams arithmetic (a = -3 holds for SM2), independent of p256.go
	tA := new(big.Int).Mul(refXHat(rAx), rA)
	tA.Add(tA, dA).Mod(tA, cp.N)
	x, y := cp.ScalarMult(rBx, rBy, refXHat(rBx).Bytes())
	x, y = cp.Add(pBx, pBy, x, y)
	vx, vy := cp.ScalarMult(x, y, tA.Bytes())
	if vx.Sign() == 0 && vy.Sign() == 0 {
		return nil, nil, nil, true
	}
	za, zb := refZ(cp, ida, pAx, pAy), refZ(cp, idb, pBx, pBy)
	k = refKDF(bytes.Join([][]byte{refPad32(vx), refPad32(vy), za, zb}, nil), klen)
	inner := sm3.Sm3Sum(bytes.Join([][]byte{refPad32(vx), za, zb, refPad32(rAx), refPad32(rAy), refPad32(rBx), refPad32(rBy)}, nil))
	s1 = sm3.Sm3Sum(bytes.Join([][]byte{{2}, refPad32(vy), inner}, nil))
	s2 = sm3.Sm3Sum(bytes.Join([][]byte{{3}, refPad32(vy), inner}, nil))
	return
}

func keyFromD(d *big.Int) *PrivateKey {
	c := P256Sm2()
	k := new(PrivateKey)
	k.Curve = c
	k.D = new(big.Int).Set(d)
	k.X, k.Y = c.Params().ScalarBaseMult(d.Bytes())
	return k
}

// TestC13DefectShortKeyZero: GM/T 0003.3 has no "derived key is all zero" failure in the key
// agreement (that test belongs to the encryption scheme, GM/T 0003.4). keyExchange nevertheless
// runs the shared kdf() helper's all-zero check and turns it into an error. For klen = 1 that hits
// one exchange in 256 (klen = 2: one in 65536): neither party gets a key although the standard
// prescribes K = 0x00.
func TestC13DefectShortKeyZero(t *testing.T) {
	ida, idb := []byte("ALICE123@YAHOO.COM"), []byte("BILL456@YAHOO.COM")
	dA := keyFromD(big.NewInt(0x1234567))
	dB := keyFromD(big.NewInt(0x7654321))
	rB := keyFromD(big.NewInt(0x5555))
	for i := int64(1); i < 5000; i++ {
		rA := keyFromD(big.NewInt(1000 + i))
		wantK, wantS1, wantS2, inf := refKeyAgreement(1, ida, idb, dA.D, rA.D, dA.X, dA.Y, dB.X, dB.Y, rA.X, rA.Y, rB.X, rB.Y)
		if inf || wantK[0] != 0 {
			continue
		}
		// The standard prescribes the one-byte key 00 for this exchange.
		t.Logf("ephemeral rA = %d: the standard's 1-byte key is %x", 1000+i, wantK)
		// sanity: with klen=2 the library agrees with the reference (first byte 00)
		k2, _, _, err := KeyExchangeA(2, ida, idb, dA, &dB.PublicKey, rA, &rB.PublicKey)
		if err != nil || k2[0] != 0 {
			t.Fatalf("klen=2 sanity: k=%x err=%v", k2, err)
		}
		ka, s1a, s2a, errA := KeyExchangeA(1, ida, idb, dA, &dB.PublicKey, rA, &rB.PublicKey)
		kb, s1b, s2b, errB := KeyExchangeB(1, ida, idb, dB, &dA.PublicKey, rB, &rA.PublicKey)
		if errA != nil || errB != nil {
			t.Fatalf("klen=1: initiator err=%v, responder err=%v; GM/T 0003.3 prescribes K=%x", errA, errB, wantK)
		}
		if !bytes.Equal(ka, wantK) || !bytes.Equal(kb, wantK) || !bytes.Equal(s1a, wantS1) || !bytes.Equal(s1b, wantS1) || !bytes.Equal(s2a, wantS2) || !bytes.Equal(s2b, wantS2) {
			t.Fatalf("klen=1: outputs differ from the standard")
		}
		return
	}
	t.Skip("no ephemeral key with a zero first key byte found")
}
