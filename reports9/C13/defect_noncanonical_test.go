package sm2

// Second pre-existing finding for C13 (place in sm2/ next to defect_klen1_test.go, which supplies the
// reference helpers).   go test -vet=off -count=1 -run 'TestC13DefectNonCanonical' ./sm2/
// FAILS on the pristine tree.

import (
	"math/big"
	"testing"
)

// The peer's ephemeral value (x+p, y) - or (x-p, y) - is not a point of the curve: its first
// coordinate is not a field element (GM/T 0003.1 4.2.5/4.2.6 require 0 <= x < p; Go's own
// elliptic.CurveParams.IsOnCurve rejects such input). sm2P256Curve.IsOnCurve reduces its arguments
// mod p before testing the equation, so keyExchange accepts the value and returns a key - and since
// x-hat is taken from the unreduced integer, it is a key the honest peer does not have.
func TestC13DefectNonCanonicalEphemeral(t *testing.T) {
	ida, idb := []byte("ALICE123@YAHOO.COM"), []byte("BILL456@YAHOO.COM")
	dA, dB := keyFromD(big.NewInt(0x1234567)), keyFromD(big.NewInt(0x7654321))
	rA, rB := keyFromD(big.NewInt(0x777)), keyFromD(big.NewInt(0x5555))
	p := P256Sm2().Params().P
	if P256Sm2().Params().IsOnCurve(new(big.Int).Add(rB.X, p), rB.Y) {
		t.Fatal("reference IsOnCurve accepts x+p?")
	}
	for name, x := range map[string]*big.Int{"x+p": new(big.Int).Add(rB.X, p), "x-p": new(big.Int).Sub(rB.X, p)} {
		bad := &PublicKey{Curve: P256Sm2(), X: x, Y: rB.Y}
		k, _, _, err := KeyExchangeA(16, ida, idb, dA, &dB.PublicKey, rA, bad)
		if err == nil {
			t.Errorf("%s: ephemeral value with a coordinate outside [0,p) accepted, key %x returned", name, k)
		}
	}
}
