package x509

// Pre-existing defect demo (property C09). Place in x509/ of the PRISTINE tree and run:
//   go test -vet=off -count=1 -run 'TestDefect' ./x509/
// TestDefectCSRRSAPSS fails on the unmodified library.

import (
	"crypto/rand"
	"crypto/rsa"
	"crypto/x509/pkix"
	"math/big"
	"testing"
	"time"

	"github.com/tjfoc/gmsm/sm2"
)

// A CSR created by an RSA signer with an RSA-PSS SignatureAlgorithm (RSA key family, accepted by
// CreateCertificateRequest) does not verify: it is labelled RSASSA-PSS but carries a PKCS#1 v1.5 signature.
func TestDefectCSRRSAPSS(t *testing.T) {
	rk, err := rsa.GenerateKey(rand.Reader, 2048)
	if err != nil {
		t.Fatal(err)
	}
	for _, alg := range []SignatureAlgorithm{SHA256WithRSAPSS, SHA384WithRSAPSS, SHA512WithRSAPSS} {
		der, err := CreateCertificateRequest(rand.Reader, &CertificateRequest{
			Subject: pkix.Name{CommonName: "pss"}, SignatureAlgorithm: alg}, rk)
		if err != nil {
			t.Fatalf("%v: template rejected: %v", alg, err)
		}
		csr, err := ParseCertificateRequest(der)
		if err != nil {
			t.Fatalf("%v: parse: %v", alg, err)
		}
		if csr.SignatureAlgorithm != alg {
			t.Errorf("%v: parsed back as %v", alg, csr.SignatureAlgorithm)
		}
		if err := csr.CheckSignature(); err != nil {
			t.Errorf("CSR with %v does not verify under its own key: %v", alg, err)
			// what it really carries:
			if e2 := checkSignature(SHA256WithRSA+(alg-SHA256WithRSAPSS), csr.RawTBSCertificateRequest, csr.Signature, &rk.PublicKey); e2 == nil {
				t.Logf("  (the signature value is a valid PKCS#1 v1.5 signature instead)")
			}
		}
	}
}

// Control: the same algorithms work for certificates and v2 CRLs (both build rsa.PSSOptions).
func TestDefectControlCertAndCRLPSS(t *testing.T) {
	rk, _ := rsa.GenerateKey(rand.Reader, 2048)
	sk, _ := sm2.GenerateKey(rand.Reader)
	for _, alg := range []SignatureAlgorithm{SHA256WithRSAPSS, SHA384WithRSAPSS, SHA512WithRSAPSS} {
		tmpl := &Certificate{SerialNumber: big.NewInt(7), Subject: pkix.Name{CommonName: "ca"},
			NotBefore: time.Now(), NotAfter: time.Now().Add(time.Hour), BasicConstraintsValid: true, IsCA: true,
			KeyUsage: KeyUsageCertSign | KeyUsageCRLSign, SubjectKeyId: []byte{1, 2, 3}, SignatureAlgorithm: alg}
		der, err := CreateCertificate(tmpl, tmpl, &sk.PublicKey, rk)
		if err != nil {
			t.Fatal(err)
		}
		c, err := ParseCertificate(der)
		if err != nil {
			t.Fatal(err)
		}
		issuer := &Certificate{Version: 3, PublicKey: &rk.PublicKey, PublicKeyAlgorithm: RSA, BasicConstraintsValid: true, IsCA: true,
			KeyUsage: KeyUsageCertSign | KeyUsageCRLSign, SubjectKeyId: []byte{1, 2, 3}}
		if err := c.CheckSignatureFrom(issuer); err != nil {
			t.Errorf("cert %v: %v", alg, err)
		}
		crlDer, err := CreateRevocationList(rand.Reader, &RevocationList{SignatureAlgorithm: alg, Number: big.NewInt(1),
			ThisUpdate: time.Now(), NextUpdate: time.Now().Add(time.Hour)}, issuer, rk)
		if err != nil {
			t.Fatal(err)
		}
		crl, err := ParseCRL(crlDer)
		if err != nil {
			t.Fatal(err)
		}
		if err := issuer.CheckCRLSignature(crl); err != nil {
			t.Errorf("crl %v: %v", alg, err)
		}
	}
}
