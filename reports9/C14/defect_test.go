package x509

// Place at: x509/defect_c14_test.go      Run: go test -vet=off -count=1 -run TestC14DefectOtherPasswordAccepted ./x509/
//
// FAILS on the pristine tree: a password-protected PKCS#8 PEM written by WritePrivateKeyToPem is
// decoded without error by ReadPrivateKeyFromPem under a DIFFERENT password.

import (
	"bytes"
	"crypto/sha1"
	"testing"

	"github.com/tjfoc/gmsm/sm2"
)

func TestC14DefectOtherPasswordAccepted(t *testing.T) {
	k, err := sm2.GenerateKey(nil)
	if err != nil {
		t.Fatal(err)
	}
	long := bytes.Repeat([]byte("0123456789abcdef"), 64) // 1 KiB
	longDigest := sha1.Sum(long)
	cases := []struct {
		name       string
		pwd, other []byte
	}{
		{"ASCII password vs. the same password with one more byte (0x00)", []byte("secret"), []byte("secret\x00")},
		{"UTF-8 password vs. the same password with two more bytes", []byte("пароль"), []byte("пароль\x00\x00")},
		{"empty password vs. a one-byte password", []byte{}, []byte{0}},
		{"1 KiB password vs. its 20-byte SHA-1 digest", long, longDigest[:]},
	}
	for _, c := range cases {
		if bytes.Equal(c.pwd, c.other) {
			t.Fatalf("%s: test bug, passwords are equal", c.name)
		}
		pemBytes, err := WritePrivateKeyToPem(k, c.pwd)
		if err != nil {
			t.Fatalf("%s: write: %v", c.name, err)
		}
		if got, err := ReadPrivateKeyFromPem(pemBytes, c.pwd); err != nil || got.D.Cmp(k.D) != 0 {
			t.Fatalf("%s: round trip with the right password failed: %v", c.name, err)
		}
		if got, err := ReadPrivateKeyFromPem(pemBytes, c.other); err == nil {
			t.Errorf("%s: key written under %d-byte password decoded WITHOUT error under a different %d-byte password (same D: %v)",
				c.name, len(c.pwd), len(c.other), got.D.Cmp(k.D) == 0)
		}
	}
}
