package gmtls

// Demo of a pre-existing C16 violation: a ticket the server itself issued can be too large
// to be carried in a ClientHello. See README.md next to this file.
//
// place at: gmtls/defect_c16_test.go      run: go test -vet=off -count=1 -run TestC16Defect ./gmtls/

import (
	"crypto/ecdsa"
	"crypto/elliptic"
	"crypto/rand"
	stdx509 "crypto/x509"
	"crypto/x509/pkix"
	"encoding/asn1"
	"fmt"
	"io"
	"math/big"
	"net"
	"testing"
	"time"
)

type c16dResult struct {
	cliErr, srvErr error
	cli, srv       ConnectionState
}

func c16dConnect(ccfg, scfg *Config) c16dResult {
	a, b := net.Pipe()
	cli := Client(a, ccfg)
	srv := Server(b, scfg)
	var r c16dResult
	done := make(chan struct{})
	go func() {
		defer close(done)
		r.srvErr = srv.Handshake()
		if r.srvErr != nil {
			b.Close()
			return
		}
		buf := make([]byte, 5)
		if _, err := io.ReadFull(srv, buf); err != nil {
			r.srvErr = err
			b.Close()
			return
		}
		srv.Write([]byte("world"))
		r.srv = srv.ConnectionState()
	}()
	a.SetDeadline(time.Now().Add(4 * time.Second))
	b.SetDeadline(time.Now().Add(4 * time.Second))
	r.cliErr = cli.Handshake()
	if r.cliErr == nil {
		if _, err := cli.Write([]byte("hello")); err != nil {
			r.cliErr = err
		} else {
			buf := make([]byte, 5)
			if _, err := io.ReadFull(cli, buf); err != nil {
				r.cliErr = err
			} else if string(buf) != "world" {
				r.cliErr = fmt.Errorf("bad echo %q", buf)
			}
		}
		r.cli = cli.ConnectionState()
	}
	if r.cliErr != nil {
		a.Close()
	}
	<-done
	a.Close()
	b.Close()
	return r
}

// bigClientCert returns a self-signed ECDSA client certificate whose DER encoding is padded
// (with an unrecognised non-critical extension) to exactly `size` bytes.
func bigClientCert(t *testing.T, size int) Certificate {
	key, err := ecdsa.GenerateKey(elliptic.P256(), rand.Reader)
	if err != nil {
		t.Fatal(err)
	}
	mk := func(pad int) []byte {
		tmpl := &stdx509.Certificate{
			SerialNumber: big.NewInt(1),
			Subject:      pkix.Name{CommonName: "big client"},
			NotBefore:    time.Now().Add(-time.Hour),
			NotAfter:     time.Now().Add(24 * time.Hour),
			KeyUsage:     stdx509.KeyUsageDigitalSignature,
			ExtKeyUsage:  []stdx509.ExtKeyUsage{stdx509.ExtKeyUsageClientAuth},
			ExtraExtensions: []pkix.Extension{{
				Id:    asn1.ObjectIdentifier{1, 2, 3, 4, 5, 6, 7},
				Value: make([]byte, pad),
			}},
		}
		der, err := stdx509.CreateCertificate(rand.Reader, tmpl, tmpl, &key.PublicKey, key)
		if err != nil {
			t.Fatal(err)
		}
		return der
	}
	pad := size - 600
	var der []byte
	for i := 0; i < 50; i++ { // the ECDSA signature length varies by a byte or two
		der = mk(pad)
		if len(der) == size {
			return Certificate{Certificate: [][]byte{der}, PrivateKey: key}
		}
		pad += size - len(der)
	}
	t.Fatalf("could not build a certificate of %d bytes (got %d)", size, len(der))
	return Certificate{}
}

func TestC16DefectOversizedTicket(t *testing.T) {
	srvCert, err := LoadX509KeyPair("websvr/certs/rsa_sign.cer", "websvr/certs/rsa_sign_key.pem")
	if err != nil {
		t.Fatal(err)
	}
	suite := TLS_ECDHE_RSA_WITH_AES_128_GCM_SHA256
	scfg := &Config{
		Certificates: []Certificate{srvCert},
		CipherSuites: []uint16{suite},
		ClientAuth:   RequireAnyClientCert,
	}
	scfg.SetSessionTicketKeys([][32]byte{{1}})

	// control: an ordinary-size client certificate resumes
	for _, size := range []int{2000, 65350} {
		ccfg := &Config{
			InsecureSkipVerify: true,
			ServerName:         "c16",
			CipherSuites:       []uint16{suite},
			Certificates:       []Certificate{bigClientCert(t, size)},
			ClientSessionCache: NewLRUClientSessionCache(2),
		}
		r1 := c16dConnect(ccfg, scfg)
		if r1.cliErr != nil || r1.srvErr != nil {
			t.Fatalf("size %d: first (full) handshake failed: client %v / server %v", size, r1.cliErr, r1.srvErr)
		}
		if r1.cli.DidResume {
			t.Fatalf("size %d: first connection resumed?", size)
		}
		cs, ok := ccfg.ClientSessionCache.Get("c16")
		if !ok {
			t.Fatalf("size %d: no ticket was issued", size)
		}
		t.Logf("client certificate %d bytes -> ticket of %d bytes issued and cached", size, len(cs.sessionTicket))

		// Second connection: same client cache, unchanged server configuration. C16: the server
		// either resumes or silently performs a full handshake.
		for i := 2; i <= 3; i++ {
			r := c16dConnect(ccfg, scfg)
			if r.cliErr != nil || r.srvErr != nil {
				t.Errorf("size %d: connection %d offering the server's own ticket neither resumed nor fell back: client: %v / server: %v",
					size, i, r.cliErr, r.srvErr)
				continue
			}
			if !r.cli.DidResume || !r.srv.DidResume {
				t.Errorf("size %d: connection %d: valid ticket under unchanged configuration was not resumed", size, i)
			}
		}
	}
}
