package pkcs12_test

// Place this file at pkcs12/defect_demo_test.go of the PRISTINE tree and run
//   go test -vet=off -count=1 -run 'TestDefect' ./pkcs12/
// Every test below FAILS on the unmodified library.

import (
	"crypto/ecdsa"
	"crypto/rand"
	"crypto/rsa"
	"crypto/x509/pkix"
	"math/big"
	"testing"
	"time"

	"github.com/tjfoc/gmsm/pkcs12"
	"github.com/tjfoc/gmsm/sm2"
	x "github.com/tjfoc/gmsm/x509"
)

func defectCert(t *testing.T) (*x.Certificate, *sm2.PrivateKey) {
	priv, err := sm2.GenerateKey(nil)
	if err != nil {
		t.Fatal(err)
	}
	tpl := x.Certificate{SerialNumber: big.NewInt(1), Subject: pkix.Name{CommonName: "holder"},
		NotBefore: time.Now(), NotAfter: time.Now().Add(time.Hour), SignatureAlgorithm: x.SM2WithSM3}
	der, err := x.CreateCertificate(&tpl, &tpl, &priv.PublicKey, priv)
	if err != nil {
		t.Fatal(err)
	}
	c, err := x.ParseCertificate(der)
	if err != nil {
		t.Fatal(err)
	}
	return c, priv
}

// 1. A bundle is accepted with a password different from the one it was encoded with.
//    bmpString appends the 00 00 terminator and the PKCS#12 KDF repeats the encoded password to a
//    multiple of 64 bytes, so p and p+"\x00"+p (and ""/"\x00"/"\x00\x00"...) give the same P string,
//    hence the same MAC key and the same two PBE keys.
func TestDefectOtherPasswordAccepted(t *testing.T) {
	c, k := defectCert(t)
	for _, pw := range [][2]string{{"", "\x00"}, {"a", "a\x00a"}, {"abc", "abc\x00abc"}, {"\xff", "\xfe"}} {
		pfx, err := pkcs12.Encode(k, c, nil, pw[0])
		if err != nil {
			t.Fatalf("Encode(%q): %v", pw[0], err)
		}
		key, certs, err := pkcs12.DecodeAll(pfx, pw[1])
		if err == nil {
			same := key.(*ecdsa.PrivateKey).D.Cmp(k.D) == 0 && len(certs) == 1
			t.Errorf("bundle encoded with password %q is opened by the different password %q (key recovered: %v)", pw[0], pw[1], same)
		}
	}
}

// 2. Encode accepts an RSA private key (marshalPKCS8PrivateKey has an RSA branch) but nothing can read
//    the result back: ParsePKCS8PrivateKey only knows id-ecPublicKey.
func TestDefectRSAKeyDoesNotRoundTrip(t *testing.T) {
	c, _ := defectCert(t)
	rk, err := rsa.GenerateKey(rand.Reader, 1024)
	if err != nil {
		t.Fatal(err)
	}
	pfx, err := pkcs12.Encode(rk, c, nil, "pw")
	if err != nil {
		t.Skipf("Encode refuses RSA keys: %v", err)
	}
	key, _, err := pkcs12.DecodeAll(pfx, "pw")
	if err != nil {
		t.Fatalf("bundle produced by Encode(rsaKey, ..., \"pw\") does not decode with \"pw\": %v", err)
	}
	if got, ok := key.(*rsa.PrivateKey); !ok || got.D.Cmp(rk.D) != 0 {
		t.Fatalf("decoded key differs: %T", key)
	}
}

// 3. Decode (the single-certificate entry point) can never return a bundle made by Encode for an
//    SM2 certificate: it parses the certificate with crypto/x509, which rejects the SM2 curve.
func TestDefectDecodeRejectsOwnBundles(t *testing.T) {
	c, k := defectCert(t)
	pfx, err := pkcs12.Encode(k, c, nil, "pw")
	if err != nil {
		t.Fatal(err)
	}
	if _, _, err := pkcs12.Decode(pfx, "pw"); err != nil {
		t.Fatalf("Decode of a bundle made by Encode with the same password: %v", err)
	}
}
