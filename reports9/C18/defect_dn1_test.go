package x509

// Secondary pre-existing finding (pristine tree): the PKCS#8 / SEC1 private key decoders accept d = n-1
// (and d = 0). GM/T 0003 allows d in [1, n-2]; with d = n-1, (1+d) has no inverse mod n and Sign
// dereferences the nil result of ModInverse. The decoder should fail closed ("invalid private key value").
//
// place at: x509/defect_dn1_test.go
// run:      cd x509 && go test -vet=off -count=1 -run TestC18DefectPrivateKeyNMinus1 .

import (
	"crypto/rand"
	"math/big"
	"testing"

	"github.com/tjfoc/gmsm/sm2"
)

func TestC18DefectPrivateKeyNMinus1(t *testing.T) {
	c := sm2.P256Sm2()
	d := new(big.Int).Sub(c.Params().N, big.NewInt(1))
	k := &sm2.PrivateKey{D: d}
	k.Curve = c
	k.X, k.Y = c.ScalarBaseMult(d.Bytes())
	der, err := MarshalSm2UnecryptedPrivateKey(k)
	if err != nil {
		t.Fatal(err)
	}
	k2, err := ParsePKCS8UnecryptedPrivateKey(der)
	if err != nil {
		t.Logf("decoder rejects d = n-1: %v", err)
		return
	}
	defer func() {
		if p := recover(); p != nil {
			t.Fatalf("decoder accepted d = n-1 and Sign with the decoded key panicked: %v", p)
		}
	}()
	if _, err = k2.Sign(rand.Reader, []byte("m"), nil); err != nil {
		t.Logf("Sign failed closed: %v", err)
	}
}
