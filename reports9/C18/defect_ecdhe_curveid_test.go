package gmtls

// Demo of a pre-existing C18 violation (pristine tree): a GM/T 0024 client panics on the bytes of a
// ServerKeyExchange message when the server selects the ECDHE suite (which the client offers by default).
//
// place at: gmtls/defect_ecdhe_curveid_test.go
// run:      cd gmtls && go test -vet=off -count=1 -run TestC18DefectECDHEServerKeyExchange .

import (
	"crypto/elliptic"
	"crypto/rand"
	"fmt"
	"io"
	"net"
	"testing"
	"time"

	"github.com/tjfoc/gmsm/sm2"
)

func c18WriteHandshakeRecord(w io.Writer, msgs ...[]byte) error {
	var body []byte
	for _, m := range msgs {
		body = append(body, m...)
	}
	rec := append([]byte{byte(recordTypeHandshake), 0x01, 0x01, byte(len(body) >> 8), byte(len(body))}, body...)
	_, err := w.Write(rec)
	return err
}

// c18ScriptedServer plays the server side of a GM handshake up to ServerHelloDone. The ServerKeyExchange
// names curve curveID and carries an SM2 point; it is correctly signed with the server's signing key.
func c18ScriptedServer(conn net.Conn, sign, enc Certificate, curveID uint16) error {
	defer conn.Close()
	hdr := make([]byte, 5)
	if _, err := io.ReadFull(conn, hdr); err != nil {
		return err
	}
	body := make([]byte, int(hdr[3])<<8|int(hdr[4]))
	if _, err := io.ReadFull(conn, body); err != nil {
		return err
	}
	ch := new(clientHelloMsg)
	if !ch.unmarshal(body) {
		return fmt.Errorf("scripted server: cannot parse ClientHello")
	}
	offered := false
	for _, s := range ch.cipherSuites {
		offered = offered || s == GMTLS_ECDHE_SM2_WITH_SM4_SM3
	}
	if !offered {
		return fmt.Errorf("scripted server: client did not offer the ECDHE suite")
	}

	sh := &serverHelloMsg{vers: VersionGMSSL, random: make([]byte, 32), cipherSuite: GMTLS_ECDHE_SM2_WITH_SM4_SM3, compressionMethod: compressionNone}
	rand.Read(sh.random)
	certMsg := &certificateMsg{certificates: [][]byte{sign.Certificate[0], enc.Certificate[0]}}

	eph, err := sm2.GenerateKey(rand.Reader)
	if err != nil {
		return err
	}
	point := elliptic.Marshal(sm2.P256Sm2(), eph.X, eph.Y)
	params := append([]byte{3, byte(curveID >> 8), byte(curveID), byte(len(point))}, point...)
	digest := sha1Hash([][]byte{ch.random, sh.random, params})
	sig, err := sign.PrivateKey.(*sm2.PrivateKey).Sign(rand.Reader, digest, nil)
	if err != nil {
		return err
	}
	skx := &serverKeyExchangeMsg{key: append(append(append([]byte{}, params...), byte(len(sig)>>8), byte(len(sig))), sig...)}

	if err := c18WriteHandshakeRecord(conn, sh.marshal(), certMsg.marshal(), skx.marshal(), new(serverHelloDoneMsg).marshal()); err != nil {
		return err
	}
	// swallow whatever the client answers (alert or ClientKeyExchange) until it closes
	io.Copy(io.Discard, conn)
	return nil
}

func c18ClientHandshake(t *testing.T, curveID uint16) (err error, panicked interface{}) {
	sign, e := LoadX509KeyPair("websvr/certs/sm2_sign_cert.cer", "websvr/certs/sm2_sign_key.pem")
	if e != nil {
		t.Fatal(e)
	}
	enc, e := LoadX509KeyPair("websvr/certs/sm2_enc_cert.cer", "websvr/certs/sm2_enc_key.pem")
	if e != nil {
		t.Fatal(e)
	}
	cc, sc := net.Pipe()
	srvErr := make(chan error, 1)
	go func() { srvErr <- c18ScriptedServer(sc, sign, enc, curveID) }()

	// default cipher suites: {GMTLS_SM2_WITH_SM4_SM3, GMTLS_ECDHE_SM2_WITH_SM4_SM3}
	client := Client(cc, &Config{GMSupport: &GMSupport{}, InsecureSkipVerify: true})
	cc.SetDeadline(time.Now().Add(10 * time.Second))
	func() {
		defer func() { panicked = recover() }()
		err = client.Handshake()
	}()
	cc.Close()
	if e := <-srvErr; e != nil && panicked == nil && err == nil {
		t.Fatalf("scripted server: %v", e)
	}
	return err, panicked
}

func TestC18DefectECDHEServerKeyExchange(t *testing.T) {
	for _, curveID := range []uint16{0x0017 /* secp256r1 */, 0x0018, 0x0019, 0x1234 /* unknown */, 0x0000} {
		err, p := c18ClientHandshake(t, curveID)
		if p != nil {
			t.Errorf("named curve %#04x in ServerKeyExchange: client Handshake PANICKED: %v", curveID, p)
			continue
		}
		if err == nil {
			t.Errorf("named curve %#04x: handshake unexpectedly succeeded", curveID)
			continue
		}
		t.Logf("named curve %#04x: handshake failed closed: %v", curveID, err)
	}
}
