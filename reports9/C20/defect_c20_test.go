package x509_test

// Demonstrates a pre-existing C20 violation in the UNMODIFIED library:
// x509.PKCS7EncryptSM2 / x509.PKCS7Encrypt (default DES-CBC content encryption) pad the
// plaintext with   pad(): return append(data, pad...)   -- i.e. they append the padding to the
// CALLER's content slice.  When that slice has spare capacity (it is a sub-slice of a larger
// buffer) the padding bytes are written into memory just past len(content), memory that belongs
// to somebody else.  Goroutines that encrypt disjoint records of one buffer therefore write
// into each other's data: a data race, and ciphertexts that depend on the interleaving.
//
// Place in x509/ and run:
//   go test -vet=off -count=1 -run TestDefectC20 ./x509/            (deterministic part)
//   go test -race -vet=off -count=1 -run TestDefectC20 ./x509/      (also reports the data race)

import (
	"bytes"
	"crypto/x509/pkix"
	"math/big"
	"sync"
	"testing"
	"time"

	"github.com/tjfoc/gmsm/sm2"
	"github.com/tjfoc/gmsm/x509"
)

func defectRecipient(t *testing.T) (*x509.Certificate, *sm2.PrivateKey) {
	priv, err := sm2.GenerateKey(nil)
	if err != nil {
		t.Fatal(err)
	}
	tmpl := x509.Certificate{
		SerialNumber:          big.NewInt(7),
		Subject:               pkix.Name{CommonName: "recipient"},
		NotBefore:             time.Now().Add(-time.Hour),
		NotAfter:              time.Now().Add(time.Hour),
		SignatureAlgorithm:    x509.SM2WithSM3,
		BasicConstraintsValid: true,
		IsCA:                  true,
	}
	pem, err := x509.CreateCertificateToPem(&tmpl, &tmpl, &priv.PublicKey, priv)
	if err != nil {
		t.Fatal(err)
	}
	cert, err := x509.ReadCertificateFromPem(pem)
	if err != nil {
		t.Fatal(err)
	}
	return cert, priv
}

const recLen = 13 // not a multiple of the DES block size: 3 bytes of padding are appended

// Sequential, deterministic: one call must not modify memory outside its argument.
func TestDefectC20PadWritesOutsideContent(t *testing.T) {
	cert, _ := defectRecipient(t)
	arena := bytes.Repeat([]byte{'A'}, 2*recLen)
	want := append([]byte(nil), arena...)
	rec0 := arena[:recLen] // record 0; record 1 = arena[recLen:] is somebody else's data
	if _, err := x509.PKCS7EncryptSM2(rec0, []*x509.Certificate{cert}, sm2.C1C3C2); err != nil {
		t.Fatal(err)
	}
	if !bytes.Equal(arena, want) {
		t.Fatalf("PKCS7EncryptSM2(arena[:%d]) modified the bytes after its argument:\n have %q\n want %q", recLen, arena, want)
	}
}

// Concurrent: N goroutines each encrypt their own record (disjoint byte ranges of one buffer);
// every ciphertext must decrypt to the record, as it does when each record lives in its own slice.
func TestDefectC20ConcurrentRecords(t *testing.T) {
	cert, priv := defectRecipient(t)
	const n = 16
	arena := make([]byte, n*recLen)
	for i := range arena {
		arena[i] = byte('a' + i/recLen)
	}
	orig := append([]byte(nil), arena...)
	out := make([][]byte, n)
	var wg sync.WaitGroup
	for round := 0; round < 20; round++ {
		copy(arena, orig)
		for i := 0; i < n; i++ {
			wg.Add(1)
			go func(i int) {
				defer wg.Done()
				rec := arena[i*recLen : (i+1)*recLen]
				der, err := x509.PKCS7EncryptSM2(rec, []*x509.Certificate{cert}, sm2.C1C3C2)
				if err != nil {
					t.Error(err)
					return
				}
				out[i] = der
			}(i)
		}
		wg.Wait()
		for i := 0; i < n; i++ {
			p7, err := x509.ParsePKCS7(out[i])
			if err != nil {
				t.Fatal(err)
			}
			got, err := p7.DecryptSM2(cert, priv, sm2.C1C3C2)
			if err != nil {
				t.Fatal(err)
			}
			if w := orig[i*recLen : (i+1)*recLen]; !bytes.Equal(got, w) {
				t.Fatalf("round %d record %d: decrypts to %q, want %q (another goroutine's padding was written into it)", round, i, got, w)
			}
		}
	}
}
