package websvr

// Pre-existing defect demo (C06), part 2: a GMSSL server whose certificates were issued by an
// intermediate CA cannot be verified by a gmtls client that trusts the root, whatever way the chain is supplied.
// Self-contained (generates its own SM2 certificates). Place at gmtls/websvr/c06_defect_chain_test.go
// (any package directory works if the package clause is adapted) and run
//   cd gmtls/websvr && go test -vet=off -count=1 -run TestC06DefectChain -v .
// On the pristine tree the control case passes and all three ways of supplying the intermediate fail.

import (
	"crypto/rand"
	"crypto/x509/pkix"
	"io"
	"math/big"
	"net"
	"testing"
	"time"

	"github.com/tjfoc/gmsm/gmtls"
	"github.com/tjfoc/gmsm/sm2"
	"github.com/tjfoc/gmsm/x509"
)

type c06Chain struct {
	cert *x509.Certificate
	der  []byte
	key  *sm2.PrivateKey
}

var c06Serial int64 = 7000

func c06Issue(t *testing.T, parent *c06Chain, cn string, isCA bool, ku x509.KeyUsage) *c06Chain {
	key, err := sm2.GenerateKey(rand.Reader)
	if err != nil {
		t.Fatal(err)
	}
	c06Serial++
	tmpl := &x509.Certificate{
		SerialNumber:          big.NewInt(c06Serial),
		Subject:               pkix.Name{CommonName: cn, Organization: []string{"C06 demo"}},
		NotBefore:             time.Now().Add(-time.Hour),
		NotAfter:              time.Now().Add(24 * time.Hour),
		KeyUsage:              ku,
		BasicConstraintsValid: true,
		IsCA:                  isCA,
		SignatureAlgorithm:    x509.SM2WithSM3,
	}
	if !isCA {
		tmpl.DNSNames = []string{"localhost"}
		tmpl.ExtKeyUsage = []x509.ExtKeyUsage{x509.ExtKeyUsageServerAuth}
	}
	issuer, signer := tmpl, key
	if parent != nil {
		issuer, signer = parent.cert, parent.key
	}
	der, err := x509.CreateCertificate(tmpl, issuer, &key.PublicKey, signer)
	if err != nil {
		t.Fatal(err)
	}
	cert, err := x509.ParseCertificate(der)
	if err != nil {
		t.Fatal(err)
	}
	return &c06Chain{cert, der, key}
}

func c06Handshake(t *testing.T, scfg, ccfg *gmtls.Config) (serr, cerr error) {
	ln, err := net.Listen("tcp", "127.0.0.1:0")
	if err != nil {
		t.Fatal(err)
	}
	defer ln.Close()
	done := make(chan error, 1)
	go func() {
		raw, err := ln.Accept()
		if err != nil {
			done <- err
			return
		}
		defer raw.Close()
		raw.SetDeadline(time.Now().Add(10 * time.Second))
		s := gmtls.Server(raw, scfg)
		if err := s.Handshake(); err != nil {
			done <- err
			return
		}
		buf := make([]byte, 5)
		if _, err := io.ReadFull(s, buf); err != nil {
			done <- err
			return
		}
		_, err = s.Write(buf)
		done <- err
	}()
	raw, err := net.Dial("tcp", ln.Addr().String())
	if err != nil {
		t.Fatal(err)
	}
	defer raw.Close()
	raw.SetDeadline(time.Now().Add(10 * time.Second))
	c := gmtls.Client(raw, ccfg)
	if cerr = c.Handshake(); cerr == nil {
		if _, cerr = c.Write([]byte("hello")); cerr == nil {
			buf := make([]byte, 5)
			_, cerr = io.ReadFull(c, buf)
		}
	}
	if cerr != nil {
		raw.Close()
	}
	return <-done, cerr
}

func TestC06DefectChain(t *testing.T) {
	root := c06Issue(t, nil, "C06 root", true, x509.KeyUsageCertSign)
	inter := c06Issue(t, root, "C06 intermediate", true, x509.KeyUsageCertSign)
	sig := c06Issue(t, inter, "localhost", false, x509.KeyUsageDigitalSignature)
	enc := c06Issue(t, inter, "localhost", false, x509.KeyUsageKeyEncipherment|x509.KeyUsageDataEncipherment)

	trust := func(c *c06Chain) *gmtls.Config {
		pool := x509.NewCertPool()
		pool.AddCert(c.cert)
		return &gmtls.Config{GMSupport: &gmtls.GMSupport{}, RootCAs: pool, ServerName: "localhost"}
	}
	server := func(sigChain, encChain [][]byte) *gmtls.Config {
		return &gmtls.Config{GMSupport: &gmtls.GMSupport{}, Certificates: []gmtls.Certificate{
			{Certificate: sigChain, PrivateKey: sig.key},
			{Certificate: encChain, PrivateKey: enc.key},
		}}
	}

	// control: the client trusts the issuing CA directly, no intermediate needed
	if serr, cerr := c06Handshake(t, server([][]byte{sig.der}, [][]byte{enc.der}), trust(inter)); serr != nil || cerr != nil {
		t.Fatalf("control (client trusts the issuing CA): client: %v; server: %v", cerr, serr)
	}

	// the client trusts only the root; the server supplies the intermediate in its chains
	cases := []struct {
		name               string
		sigChain, encChain [][]byte
	}{
		// Certificate message = sign, enc, intermediate: exactly the layout of GM/T 0024 6.4.4.2
		{"GM/T 0024 layout: {sign}, {enc, intermediate}", [][]byte{sig.der}, [][]byte{enc.der, inter.der}},
		// both entries carry a full chain, as tls.Certificate documents ("a chain of one or more certificates, leaf first")
		{"both entries are chains: {sign, intermediate}, {enc, intermediate}", [][]byte{sig.der, inter.der}, [][]byte{enc.der, inter.der}},
		{"only the signing entry is a chain: {sign, intermediate}, {enc}", [][]byte{sig.der, inter.der}, [][]byte{enc.der}},
	}
	for _, tc := range cases {
		serr, cerr := c06Handshake(t, server(tc.sigChain, tc.encChain), trust(root))
		if serr != nil || cerr != nil {
			t.Errorf("%s: client: %v; server: %v", tc.name, cerr, serr)
		}
	}
}
