package websvr

// Pre-existing defect demo (C06), part 1: two exported TLS cipher suites cannot be negotiated at all.
// Place at gmtls/websvr/c06_defect_suites_test.go (package websvr, uses ./certs) and run
//   cd gmtls/websvr && go test -vet=off -count=1 -run TestC06DefectSuites -v .
// FAILS on the pristine tree for TLS_ECDHE_RSA_WITH_AES_128_CBC_SHA (TLS 1.0, 1.1, 1.2) and
// TLS_ECDHE_RSA_WITH_AES_128_CBC_SHA256 (TLS 1.2); every other RSA suite passes.

import (
	"crypto/tls"
	"fmt"
	"io"
	"net"
	"testing"
	"time"

	"github.com/tjfoc/gmsm/gmtls"
)

type c06dConn interface {
	io.ReadWriter
	Handshake() error
}

func c06dPair(server, client func(net.Conn) c06dConn) (serr, cerr error) {
	ln, err := net.Listen("tcp", "127.0.0.1:0")
	if err != nil {
		return err, err
	}
	defer ln.Close()
	done := make(chan error, 1)
	go func() {
		raw, err := ln.Accept()
		if err != nil {
			done <- err
			return
		}
		defer raw.Close()
		raw.SetDeadline(time.Now().Add(10 * time.Second))
		s := server(raw)
		if err := s.Handshake(); err != nil {
			done <- err
			return
		}
		buf := make([]byte, 1000)
		if _, err := io.ReadFull(s, buf); err != nil {
			done <- err
			return
		}
		_, err = s.Write(buf)
		done <- err
	}()
	raw, err := net.Dial("tcp", ln.Addr().String())
	if err != nil {
		return <-done, err
	}
	defer raw.Close()
	raw.SetDeadline(time.Now().Add(10 * time.Second))
	c := client(raw)
	if cerr = c.Handshake(); cerr == nil {
		msg := make([]byte, 1000)
		for i := range msg {
			msg[i] = byte(i)
		}
		if _, cerr = c.Write(msg); cerr == nil {
			got := make([]byte, 1000)
			if _, cerr = io.ReadFull(c, got); cerr == nil && string(got) != string(msg) {
				cerr = fmt.Errorf("echo differs")
			}
		}
	}
	if cerr != nil {
		raw.Close()
	}
	return <-done, cerr
}

func TestC06DefectSuites(t *testing.T) {
	// the RSA-certificate suites exported by gmtls ("implemented by this package"), with the lowest version they exist in
	suites := []struct {
		id      uint16
		minVers uint16
	}{
		{gmtls.TLS_RSA_WITH_AES_128_CBC_SHA, tls.VersionTLS10},
		{gmtls.TLS_RSA_WITH_AES_256_CBC_SHA, tls.VersionTLS10},
		{gmtls.TLS_RSA_WITH_3DES_EDE_CBC_SHA, tls.VersionTLS10},
		{gmtls.TLS_ECDHE_RSA_WITH_3DES_EDE_CBC_SHA, tls.VersionTLS10},
		{gmtls.TLS_ECDHE_RSA_WITH_AES_128_CBC_SHA, tls.VersionTLS10},
		{gmtls.TLS_ECDHE_RSA_WITH_AES_256_CBC_SHA, tls.VersionTLS10},
		{gmtls.TLS_RSA_WITH_AES_128_CBC_SHA256, tls.VersionTLS12},
		{gmtls.TLS_ECDHE_RSA_WITH_AES_128_CBC_SHA256, tls.VersionTLS12},
		{gmtls.TLS_RSA_WITH_AES_128_GCM_SHA256, tls.VersionTLS12},
		{gmtls.TLS_RSA_WITH_AES_256_GCM_SHA384, tls.VersionTLS12},
		{gmtls.TLS_ECDHE_RSA_WITH_AES_128_GCM_SHA256, tls.VersionTLS12},
		{gmtls.TLS_ECDHE_RSA_WITH_AES_256_GCM_SHA384, tls.VersionTLS12},
		{gmtls.TLS_ECDHE_RSA_WITH_CHACHA20_POLY1305, tls.VersionTLS12},
	}
	gmCert, err := gmtls.LoadX509KeyPair(rsaCertPath, rsaKeyPath)
	if err != nil {
		t.Fatal(err)
	}
	stdCert, err := tls.LoadX509KeyPair(rsaCertPath, rsaKeyPath)
	if err != nil {
		t.Fatal(err)
	}
	for _, s := range suites {
		for _, vers := range []uint16{tls.VersionTLS10, tls.VersionTLS11, tls.VersionTLS12} {
			if vers < s.minVers {
				continue
			}
			id, vers := s.id, vers
			name := fmt.Sprintf("%s, version %x", tls.CipherSuiteName(id), vers)
			gmServer := func(raw net.Conn) c06dConn {
				return gmtls.Server(raw, &gmtls.Config{Certificates: []gmtls.Certificate{gmCert}, CipherSuites: []uint16{id}, MinVersion: vers, MaxVersion: vers})
			}
			gmClient := func(raw net.Conn) c06dConn {
				return gmtls.Client(raw, &gmtls.Config{InsecureSkipVerify: true, CipherSuites: []uint16{id}, MinVersion: vers, MaxVersion: vers})
			}
			stdServer := func(raw net.Conn) c06dConn {
				return tls.Server(raw, &tls.Config{Certificates: []tls.Certificate{stdCert}, CipherSuites: []uint16{id}, MinVersion: vers, MaxVersion: vers})
			}
			stdClient := func(raw net.Conn) c06dConn {
				return tls.Client(raw, &tls.Config{InsecureSkipVerify: true, CipherSuites: []uint16{id}, MinVersion: vers, MaxVersion: vers})
			}
			if serr, cerr := c06dPair(gmServer, stdClient); serr != nil || cerr != nil {
				t.Errorf("%s: crypto/tls client -> gmtls server: client: %v; server: %v", name, cerr, serr)
			}
			if serr, cerr := c06dPair(stdServer, gmClient); serr != nil || cerr != nil {
				t.Errorf("%s: gmtls client -> crypto/tls server: client: %v; server: %v", name, cerr, serr)
			}
			if serr, cerr := c06dPair(gmServer, gmClient); serr != nil || cerr != nil {
				t.Errorf("%s: gmtls client -> gmtls server: client: %v; server: %v", name, cerr, serr)
			}
		}
	}
}
