package x509

// Second pre-existing deviation (place in x509/, run with
//   go test -vet=off -count=1 -run TestC10DefectAKIDShadowsValidIssuer ./x509/ ).
//
// CertPool.findVerifiedParents looks issuers up by authorityKeyIdentifier first and falls back
// to the issuer NAME only when the key-identifier lookup returned nothing at all. If the pool
// holds an unusable certificate with the matching subjectKeyIdentifier (here: the expired
// predecessor of a renewed CA certificate) the perfectly valid certificate of the same CA that
// carries a different key identifier is never tried, and Verify reports an error although a
// chain satisfying every condition of the statement exists.

import (
	"crypto/rand"
	"crypto/x509/pkix"
	"math/big"
	"testing"
	"time"

	"github.com/tjfoc/gmsm/sm2"
)

func TestC10DefectAKIDShadowsValidIssuer(t *testing.T) {
	now := time.Now()
	mk := func(tmpl, parent *Certificate, pub *sm2.PublicKey, signer *sm2.PrivateKey) *Certificate {
		der, err := CreateCertificate(tmpl, parent, pub, signer)
		if err != nil {
			t.Fatal(err)
		}
		c, err := ParseCertificate(der)
		if err != nil {
			t.Fatal(err)
		}
		return c
	}
	rootKey, _ := sm2.GenerateKey(rand.Reader)
	caKey, _ := sm2.GenerateKey(rand.Reader)
	leafKey, _ := sm2.GenerateKey(rand.Reader)

	rootT := &Certificate{SerialNumber: big.NewInt(1), Subject: pkix.Name{CommonName: "root"},
		NotBefore: now.Add(-100 * time.Hour), NotAfter: now.Add(100 * time.Hour),
		BasicConstraintsValid: true, IsCA: true, KeyUsage: KeyUsageCertSign, SubjectKeyId: []byte{0xaa}}
	root := mk(rootT, rootT, &rootKey.PublicKey, rootKey)

	// the CA's first certificate: key id K1, expired an hour ago
	oldT := &Certificate{SerialNumber: big.NewInt(2), Subject: pkix.Name{CommonName: "issuing ca"},
		NotBefore: now.Add(-50 * time.Hour), NotAfter: now.Add(-time.Hour),
		BasicConstraintsValid: true, IsCA: true, KeyUsage: KeyUsageCertSign, SubjectKeyId: []byte{0x01, 0x01}}
	caOld := mk(oldT, root, &caKey.PublicKey, rootKey)
	// the renewal: same name, same key, currently valid; the key id was derived differently
	newT := &Certificate{SerialNumber: big.NewInt(3), Subject: pkix.Name{CommonName: "issuing ca"},
		NotBefore: now.Add(-2 * time.Hour), NotAfter: now.Add(50 * time.Hour),
		BasicConstraintsValid: true, IsCA: true, KeyUsage: KeyUsageCertSign, SubjectKeyId: []byte{0x02, 0x02}}
	caNew := mk(newT, root, &caKey.PublicKey, rootKey)

	// leaf issued (while caOld was current) => authorityKeyIdentifier = K1
	leafT := &Certificate{SerialNumber: big.NewInt(4), Subject: pkix.Name{CommonName: "leaf"},
		NotBefore: now.Add(-10 * time.Hour), NotAfter: now.Add(10 * time.Hour), DNSNames: []string{"leaf.example"}}
	leaf := mk(leafT, caOld, &leafKey.PublicKey, caKey)

	// The reference chain leaf <- caNew <- root is fine link by link.
	if err := leaf.CheckSignatureFrom(caNew); err != nil {
		t.Fatalf("setup: %v", err)
	}
	if err := caNew.CheckSignatureFrom(root); err != nil {
		t.Fatalf("setup: %v", err)
	}

	roots := NewCertPool()
	roots.AddCert(root)
	opts := VerifyOptions{Roots: roots, CurrentTime: now, DNSName: "leaf.example"}

	// with only the renewed certificate available the chain is found ...
	opts.Intermediates = NewCertPool()
	opts.Intermediates.AddCert(caNew)
	if _, err := leaf.Verify(opts); err != nil {
		t.Fatalf("setup: chain via renewed CA certificate not accepted: %v", err)
	}
	// ... adding one more (useless) certificate to the pool must not make it disappear.
	opts.Intermediates = NewCertPool()
	opts.Intermediates.AddCert(caOld)
	opts.Intermediates.AddCert(caNew)
	if _, err := leaf.Verify(opts); err != nil {
		t.Errorf("valid chain leaf <- renewed CA <- root exists in the pools but Verify failed: %v", err)
	}
}
