package x509

// Demo of a pre-existing violation of property C10 (place in x509/, run with
//   go test -vet=off -count=1 -run TestC10DefectEntrustChildExemption ./x509/ ).
//
// A root that is explicitly marked "not a CA" (basicConstraints cA=FALSE) must never be accepted
// as the issuer of another certificate. CheckSignatureFrom waives that requirement whenever the
// CHILD certificate carries the (public, well known) Entrust 2048 RSA SubjectPublicKeyInfo, and
// isValid does not re-check the CA flag for certificates taken from the root pool.

import (
	"crypto/rand"
	"encoding/asn1"
	"crypto/x509/pkix"
	"math/big"
	"testing"
	"time"

	"github.com/tjfoc/gmsm/sm2"
)

func TestC10DefectEntrustChildExemption(t *testing.T) {
	now := time.Now()
	rootKey, err := sm2.GenerateKey(rand.Reader)
	if err != nil {
		t.Fatal(err)
	}
	// A self-signed END-ENTITY certificate (cA=FALSE), e.g. a pinned server certificate.
	rootTmpl := &Certificate{
		SerialNumber:          big.NewInt(1),
		Subject:               pkix.Name{CommonName: "pinned end entity, not a CA"},
		NotBefore:             now.Add(-time.Hour),
		NotAfter:              now.Add(time.Hour),
		BasicConstraintsValid: true,
		IsCA:                  false,
		SignatureAlgorithm:    SM2WithSM3,
	}
	rootDER, err := CreateCertificate(rootTmpl, rootTmpl, &rootKey.PublicKey, rootKey)
	if err != nil {
		t.Fatal(err)
	}
	root, err := ParseCertificate(rootDER)
	if err != nil {
		t.Fatal(err)
	}
	if !root.BasicConstraintsValid || root.IsCA {
		t.Fatal("setup: root should be an explicit non-CA")
	}
	roots := NewCertPool()
	roots.AddCert(root)
	opts := VerifyOptions{Roots: roots, CurrentTime: now, KeyUsages: []ExtKeyUsage{ExtKeyUsageAny}}

	// Control: an ordinary leaf signed with the non-CA's key is (correctly) rejected.
	leafKey, _ := sm2.GenerateKey(rand.Reader)
	ctlTmpl := &Certificate{
		SerialNumber: big.NewInt(2),
		Subject:      pkix.Name{CommonName: "leaf"},
		NotBefore:    now.Add(-time.Hour),
		NotAfter:     now.Add(time.Hour),
		DNSNames:     []string{"leaf.example"},
	}
	ctlDER, err := CreateCertificate(ctlTmpl, root, &leafKey.PublicKey, rootKey)
	if err != nil {
		t.Fatal(err)
	}
	ctl, err := ParseCertificate(ctlDER)
	if err != nil {
		t.Fatal(err)
	}
	if chains, err := ctl.Verify(opts); err == nil {
		t.Fatalf("control: leaf issued by a non-CA root was accepted: %d chain(s)", len(chains))
	}

	// Same issuer, same names, same validity - only the subject public key differs: it is the
	// Entrust.net 2048 RSA key, which anybody can copy out of the library source.
	var spki publicKeyInfo
	if rest, err := asn1.Unmarshal(entrustBrokenSPKI, &spki); err != nil || len(rest) != 0 {
		t.Fatalf("setup: %v", err)
	}
	ext, err := buildExtensions(&Certificate{DNSNames: []string{"leaf.example"}})
	if err != nil {
		t.Fatal(err)
	}
	sigAlg := pkix.AlgorithmIdentifier{Algorithm: oidSignatureSM2WithSM3}
	subj, _ := asn1.Marshal(pkix.Name{CommonName: "leaf"}.ToRDNSequence())
	tbs := tbsCertificate{
		Version:            2,
		SerialNumber:       big.NewInt(3),
		SignatureAlgorithm: sigAlg,
		Issuer:             asn1.RawValue{FullBytes: root.RawSubject},
		Validity:           validity{now.Add(-time.Hour).UTC(), now.Add(time.Hour).UTC()},
		Subject:            asn1.RawValue{FullBytes: subj},
		PublicKey:          spki,
		Extensions:         ext,
	}
	tbsDER, err := asn1.Marshal(tbs)
	if err != nil {
		t.Fatal(err)
	}
	tbs.Raw = tbsDER
	sig, err := rootKey.Sign(rand.Reader, tbsDER, nil)
	if err != nil {
		t.Fatal(err)
	}
	der, err := asn1.Marshal(certificate{nil, tbs, sigAlg, asn1.BitString{Bytes: sig, BitLength: len(sig) * 8}})
	if err != nil {
		t.Fatal(err)
	}
	leaf, err := ParseCertificate(der)
	if err != nil {
		t.Fatal(err)
	}
	opts.DNSName = "leaf.example"
	chains, err := leaf.Verify(opts)
	if err == nil {
		for _, ch := range chains {
			iss := ch[len(ch)-1]
			t.Errorf("Verify returned a chain of length %d whose issuer %q has BasicConstraintsValid=%v IsCA=%v (not a CA permitted to sign)",
				len(ch), iss.Subject.CommonName, iss.BasicConstraintsValid, iss.IsCA)
		}
	}
}
