package gmtls

// C08 pre-existing defect demo. Place this file at gmtls/c08_defect_test.go and run
//   go test -vet=off -count=1 -run 'TestC08Defect' -v ./gmtls/

import (
	"crypto"
	"crypto/elliptic"
	"crypto/rand"
	"crypto/x509/pkix"
	"errors"
	"math/big"
	"net"
	"sync/atomic"
	"testing"
	"time"

	"github.com/tjfoc/gmsm/sm2"
	"github.com/tjfoc/gmsm/x509"
)

type c08PKI struct {
	caKey  *sm2.PrivateKey
	caCert *x509.Certificate
	pool   *x509.CertPool
	serial int64
}

func c08NewPKI(t testing.TB, cn string) *c08PKI {
	key, err := sm2.GenerateKey(rand.Reader)
	if err != nil {
		t.Fatal(err)
	}
	tmpl := &x509.Certificate{
		SerialNumber:          big.NewInt(1),
		Subject:               pkix.Name{CommonName: cn},
		NotBefore:             time.Now().Add(-time.Hour),
		NotAfter:              time.Now().Add(24 * time.Hour),
		KeyUsage:              x509.KeyUsageCertSign | x509.KeyUsageCRLSign,
		BasicConstraintsValid: true,
		IsCA:                  true,
		SignatureAlgorithm:    x509.SM2WithSM3,
	}
	der, err := x509.CreateCertificate(tmpl, tmpl, &key.PublicKey, key)
	if err != nil {
		t.Fatal(err)
	}
	cert, err := x509.ParseCertificate(der)
	if err != nil {
		t.Fatal(err)
	}
	pool := x509.NewCertPool()
	pool.AddCert(cert)
	return &c08PKI{caKey: key, caCert: cert, pool: pool, serial: 100}
}

// issue creates a leaf certificate; mod may adjust the template.
func (p *c08PKI) issue(t testing.TB, cn string, ku x509.KeyUsage, eku []x509.ExtKeyUsage, mod func(*x509.Certificate)) Certificate {
	key, err := sm2.GenerateKey(rand.Reader)
	if err != nil {
		t.Fatal(err)
	}
	p.serial++
	tmpl := &x509.Certificate{
		SerialNumber:       big.NewInt(p.serial),
		Subject:            pkix.Name{CommonName: cn},
		NotBefore:          time.Now().Add(-time.Hour),
		NotAfter:           time.Now().Add(12 * time.Hour),
		KeyUsage:           ku,
		ExtKeyUsage:        eku,
		DNSNames:           []string{cn},
		SignatureAlgorithm: x509.SM2WithSM3,
	}
	if mod != nil {
		mod(tmpl)
	}
	der, err := x509.CreateCertificate(tmpl, p.caCert, &key.PublicKey, p.caKey)
	if err != nil {
		t.Fatal(err)
	}
	return Certificate{Certificate: [][]byte{der}, PrivateKey: key}
}

func (p *c08PKI) serverPair(t testing.TB, name string) (sig, enc Certificate) {
	sig = p.issue(t, name, x509.KeyUsageDigitalSignature, []x509.ExtKeyUsage{x509.ExtKeyUsageServerAuth}, nil)
	enc = p.issue(t, name, x509.KeyUsageKeyEncipherment|x509.KeyUsageDataEncipherment|x509.KeyUsageKeyAgreement, []x509.ExtKeyUsage{x509.ExtKeyUsageServerAuth}, nil)
	return
}

func (p *c08PKI) clientCert(t testing.TB, name string) Certificate {
	return p.issue(t, name, x509.KeyUsageDigitalSignature, []x509.ExtKeyUsage{x509.ExtKeyUsageClientAuth}, nil)
}

// c08Run runs a handshake between a library client and a library server over a pipe.
func c08Run(t testing.TB, ccfg, scfg *Config) (cerr, serr error, cli, srv *Conn) {
	cc, sc := net.Pipe()
	cli = Client(cc, ccfg)
	srv = Server(sc, scfg)
	done := make(chan error, 1)
	go func() {
		err := srv.Handshake()
		if err != nil {
			sc.Close()
		}
		done <- err
	}()
	cc.SetDeadline(time.Now().Add(10 * time.Second))
	sc.SetDeadline(time.Now().Add(10 * time.Second))
	cerr = cli.Handshake()
	if cerr != nil {
		cc.Close()
	}
	serr = <-done
	return
}

// c08EcdheServer is a scripted GMSSL server that answers with an ECDHE-SM2 suite. It holds the
// private key of the signing certificate only: cert[1] is a genuine, trusted encryption
// certificate whose private key it does not have.
func c08EcdheServer(c *Conn, curve CurveID) error {
	c.handshakeMutex.Lock()
	defer c.handshakeMutex.Unlock()
	c.in.Lock()
	defer c.in.Unlock()

	c.config.serverInitOnce.Do(func() { c.config.serverInit(nil) })
	hs := serverHandshakeStateGM{c: c}
	if _, err := hs.readClientHello(); err != nil {
		return err
	}
	hs.suite = nil
	for _, id := range hs.clientHello.cipherSuites {
		for _, s := range gmCipherSuites {
			if s.id == id && s.flags&suiteECDHE != 0 && hs.suite == nil {
				hs.suite = s
			}
		}
	}
	if hs.suite == nil {
		return errors.New("client offered no ECDHE suite")
	}
	c.buffering = true
	hs.hello.cipherSuite = hs.suite.id
	hs.finishedHash = newFinishedHashGM(hs.suite)
	hs.finishedHash.discardHandshakeBuffer()
	hs.finishedHash.Write(hs.clientHello.marshal())
	hs.finishedHash.Write(hs.hello.marshal())
	if _, err := c.writeRecord(recordTypeHandshake, hs.hello.marshal()); err != nil {
		return err
	}
	certMsg := new(certificateMsg)
	for i := range hs.cert {
		certMsg.certificates = append(certMsg.certificates, hs.cert[i].Certificate...)
	}
	hs.finishedHash.Write(certMsg.marshal())
	if _, err := c.writeRecord(recordTypeHandshake, certMsg.marshal()); err != nil {
		return err
	}

	// ServerKeyExchange: ECDH parameters signed with the signing key
	gx, gy := sm2.P256Sm2().Params().Gx, sm2.P256Sm2().Params().Gy
	pub := elliptic.Marshal(sm2.P256Sm2(), gx, gy)
	params := append([]byte{3, byte(curve >> 8), byte(curve), byte(len(pub))}, pub...)
	digest := sha1Hash([][]byte{hs.clientHello.random, hs.hello.random, params})
	sig, err := hs.cert[0].PrivateKey.(crypto.Signer).Sign(rand.Reader, digest, nil)
	if err != nil {
		return err
	}
	skx := new(serverKeyExchangeMsg)
	skx.key = append(append([]byte{}, params...), byte(len(sig)>>8), byte(len(sig)))
	skx.key = append(skx.key, sig...)
	hs.finishedHash.Write(skx.marshal())
	if _, err := c.writeRecord(recordTypeHandshake, skx.marshal()); err != nil {
		return err
	}
	helloDone := new(serverHelloDoneMsg)
	hs.finishedHash.Write(helloDone.marshal())
	if _, err := c.writeRecord(recordTypeHandshake, helloDone.marshal()); err != nil {
		return err
	}
	if _, err := c.flush(); err != nil {
		return err
	}

	msg, err := c.readHandshake()
	if err != nil {
		return err
	}
	ckx, ok := msg.(*clientKeyExchangeMsg)
	if !ok {
		return unexpectedMessageError(ckx, msg)
	}
	hs.finishedHash.Write(ckx.marshal())
	// X25519 with the peer value the client never stored: the shared secret is all zero
	preMaster := make([]byte, 32)
	hs.masterSecret = masterFromPreMasterSecret(c.vers, hs.suite, preMaster, hs.clientHello.random, hs.hello.random)
	if err := hs.establishKeys(); err != nil {
		return err
	}
	if err := hs.readFinished(c.clientFinished[:]); err != nil {
		return err
	}
	c.buffering = true
	if err := hs.sendFinished(nil); err != nil {
		return err
	}
	if _, err := c.flush(); err != nil {
		return err
	}
	atomic.StoreUint32(&c.handshakeStatus, 1)
	return nil
}

func TestC08DefectEcdheNoEncKey(t *testing.T) {
	pki := c08NewPKI(t, "C08 Root")
	sig, enc := pki.serverPair(t, "server.test")
	// the attacker has the encryption CERTIFICATE but some other private key
	other, _ := sm2.GenerateKey(rand.Reader)
	encNoKey := Certificate{Certificate: enc.Certificate, PrivateKey: other}

	run := func(ccfg *Config, evil bool) (error, error) {
		cc, sc := net.Pipe()
		cc.SetDeadline(time.Now().Add(10 * time.Second))
		sc.SetDeadline(time.Now().Add(10 * time.Second))
		cli := Client(cc, ccfg)
		srv := Server(sc, &Config{GMSupport: NewGMSupport(), Certificates: []Certificate{sig, encNoKey}})
		done := make(chan error, 1)
		go func() {
			var err error
			if evil {
				err = c08EcdheServer(srv, X25519)
			} else {
				err = srv.Handshake()
			}
			if err != nil {
				sc.Close()
			}
			done <- err
		}()
		cerr := cli.Handshake()
		if cerr != nil {
			cc.Close()
		}
		return cerr, <-done
	}

	// control: with the ECC suite the same attacker fails (it cannot decrypt the pre-master secret)
	cerr, serr := run(&Config{GMSupport: NewGMSupport(), RootCAs: pki.pool, ServerName: "server.test"}, false)
	if cerr == nil && serr == nil {
		t.Fatal("control: ECC handshake completed without the encryption key")
	}
	t.Logf("control (ECC suite): client=%v server=%v", cerr, serr)

	// default client configuration: the ECDHE suites are offered
	cerr, serr = run(&Config{GMSupport: NewGMSupport(), RootCAs: pki.pool, ServerName: "server.test"}, true)
	t.Logf("ECDHE suite: client=%v server=%v", cerr, serr)
	if cerr == nil {
		t.Fatal("client completed a handshake with a server that does not hold the key of its encryption certificate")
	}
}

// Secondary observation: a resumed GMSSL handshake completes although every certificate of the
// server (and its CA) has expired at the configured time.
func TestC08DefectResumeAfterExpiry(t *testing.T) {
	pki := c08NewPKI(t, "C08 Root")
	sig, enc := pki.serverPair(t, "server.test")
	scfg := &Config{GMSupport: NewGMSupport(), Certificates: []Certificate{sig, enc}, CipherSuites: []uint16{GMTLS_ECC_SM4_CBC_SM3, GMTLS_ECC_SM4_GCM_SM3}}
	now := time.Now()
	ccfg := &Config{GMSupport: NewGMSupport(), RootCAs: pki.pool, ServerName: "server.test", ClientSessionCache: NewLRUClientSessionCache(8), Time: func() time.Time { return now }}
	if cerr, serr, _, _ := c08Run(t, ccfg, scfg); cerr != nil || serr != nil {
		t.Fatalf("first handshake: %v / %v", cerr, serr)
	}
	now = now.Add(48 * time.Hour) // leaf certificates live 12h, the CA 24h
	cerr, _, cli, _ := c08Run(t, ccfg, scfg)
	if cerr == nil {
		t.Fatalf("client (verification enabled, configured time after NotAfter of every certificate) completed; resumed=%v", cli.ConnectionState().DidResume)
	}
}
