package sm3_test

// Place at: sm3/zerovalue_test.go     Run: go test -vet=off -count=1 -run TestZeroValueSM3 ./sm3/
// FAILS on the pristine tree.

import (
	"crypto/hmac"
	"encoding/hex"
	"hash"
	"testing"

	"github.com/tjfoc/gmsm/sm3"
)

// GM/T 0004-2012 appendix A.1: SM3("abc")
const abcDigest = "66c7f0f462eeedd9d1f2d46bdc10e4e24167c4875cf2f7a2297da02b8f4ba8e0"

func TestZeroValueSM3(t *testing.T) {
	// sm3.SM3 is an exported type whose pointer implements hash.Hash, and the doc comment of
	// (*SM3).Reset says: "This can be skipped for a newly-created hash state; the default
	// zero-allocated state is correct."
	var h sm3.SM3
	h.Write([]byte("abc"))
	if got := hex.EncodeToString(h.Sum(nil)); got != abcDigest {
		t.Errorf("zero-value SM3: Sum = %s, want %s", got, abcDigest)
	}

	// same object after Reset is fine, i.e. Reset does NOT return it to the state it was created in
	h.Reset()
	h.Write([]byte("abc"))
	if got := hex.EncodeToString(h.Sum(nil)); got != abcDigest {
		t.Errorf("after Reset: Sum = %s, want %s", got, abcDigest)
	}

	// consequence: HMAC built by the standard library over new(sm3.SM3) differs from HMAC-SM3
	good := hmac.New(sm3.New, []byte("key"))
	bad := hmac.New(func() hash.Hash { return new(sm3.SM3) }, []byte("key"))
	good.Write([]byte("msg"))
	bad.Write([]byte("msg"))
	if !hmac.Equal(good.Sum(nil), bad.Sum(nil)) {
		t.Errorf("HMAC over new(sm3.SM3) = %x, HMAC over sm3.New() = %x", bad.Sum(nil), good.Sum(nil))
	}
}
