package gmtls

// Demo of a pre-existing violation of C06 (place in gmtls/, run:
//   go test -vet=off -count=1 -run TestC06DefectAutoSwitchNameToCertificate -v ./gmtls/ )
//
// Server in GMSSL/TLS auto-switch mode, the two SM2 certificates given statically in
// Config.Certificates = {sign, enc}, Config.BuildNameToCertificate() called (documented, optional),
// GMSSL client that sends SNI ("localhost", the name in both certificates).
// The very same configuration in GMSSL-only mode completes; in auto-switch mode it fails on both sides.

import (
	"io/ioutil"
	"net"
	"testing"
	"time"

	"github.com/tjfoc/gmsm/x509"
)

func c06DefectHandshake(t *testing.T, ccfg, scfg *Config) (cerr, serr error) {
	ln, err := net.Listen("tcp", "127.0.0.1:0")
	if err != nil {
		t.Fatal(err)
	}
	defer ln.Close()
	done := make(chan struct{})
	go func() {
		defer close(done)
		raw, err := ln.Accept()
		if err != nil {
			serr = err
			return
		}
		defer raw.Close()
		raw.SetDeadline(time.Now().Add(20 * time.Second))
		serr = Server(raw, scfg).Handshake()
	}()
	raw, err := net.Dial("tcp", ln.Addr().String())
	if err != nil {
		t.Fatal(err)
	}
	defer raw.Close()
	raw.SetDeadline(time.Now().Add(20 * time.Second))
	cerr = Client(raw, ccfg).Handshake()
	if cerr != nil {
		raw.Close()
	}
	<-done
	return
}

func TestC06DefectAutoSwitchNameToCertificate(t *testing.T) {
	sig, err := LoadX509KeyPair("websvr/certs/sm2_sign_cert.cer", "websvr/certs/sm2_sign_key.pem")
	if err != nil {
		t.Fatal(err)
	}
	enc, err := LoadX509KeyPair("websvr/certs/sm2_enc_cert.cer", "websvr/certs/sm2_enc_key.pem")
	if err != nil {
		t.Fatal(err)
	}
	pool := x509.NewCertPool()
	ca, err := ioutil.ReadFile("websvr/certs/SM2_CA.cer")
	if err != nil {
		t.Fatal(err)
	}
	pool.AppendCertsFromPEM(ca)

	ccfg := &Config{GMSupport: &GMSupport{}, RootCAs: pool, ServerName: "localhost"}

	// control: GMSSL-only server
	only := &Config{GMSupport: NewGMSupport(), Certificates: []Certificate{sig, enc}}
	only.BuildNameToCertificate()
	if cerr, serr := c06DefectHandshake(t, ccfg, only); cerr != nil || serr != nil {
		t.Fatalf("GMSSL-only control failed: client=%v server=%v", cerr, serr)
	}

	// same certificates, same client, auto-switch server
	sup := NewGMSupport()
	sup.EnableMixMode()
	auto := &Config{GMSupport: sup, Certificates: []Certificate{sig, enc}}
	auto.BuildNameToCertificate()
	if cerr, serr := c06DefectHandshake(t, ccfg, auto); cerr != nil || serr != nil {
		t.Fatalf("auto-switch server with static {sign,enc} certificates + BuildNameToCertificate + SNI: client=%v server=%v", cerr, serr)
	}
}
