package sm4

// Place in sm4/ and run:  go test -race -vet=off -count=1 -run TestC20SetIVRace ./sm4/
// (without -race the second half of the test still fails most runs: a goroutine's
// ciphertext is computed under the other goroutine's IV).

import (
	"bytes"
	"crypto/cipher"
	"sync"
	"testing"
)

func TestC20SetIVRace(t *testing.T) {
	key := []byte("0123456789abcdef")
	ivs := [][]byte{bytes.Repeat([]byte{0x11}, 16), bytes.Repeat([]byte{0x22}, 16)}
	msgs := [][]byte{bytes.Repeat([]byte{'a'}, 64), bytes.Repeat([]byte{'b'}, 64)}

	// single-threaded reference through the (race-free) cipher.Block object
	want := make([][]byte, 2)
	for i := range want {
		blk, _ := NewCipher(key)
		p := pkcs7Padding(msgs[i])
		want[i] = make([]byte, len(p))
		cipher.NewCBCEncrypter(blk, ivs[i]).CryptBlocks(want[i], p)
	}
	defer SetIV(make([]byte, 16))

	var wg sync.WaitGroup
	bad := make([]int, 2)
	for g := 0; g < 2; g++ {
		wg.Add(1)
		go func(g int) {
			defer wg.Done()
			for n := 0; n < 2000; n++ {
				SetIV(ivs[g])
				out, err := Sm4Cbc(key, msgs[g], true)
				if err != nil || !bytes.Equal(out, want[g]) {
					bad[g]++
				}
			}
		}(g)
	}
	wg.Wait()
	if bad[0]+bad[1] > 0 {
		t.Fatalf("concurrent SetIV+Sm4Cbc on separate data: %d/%d results differ from the single-threaded result", bad[0]+bad[1], 4000)
	}
}
