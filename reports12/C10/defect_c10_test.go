package x509

// Demo of pre-existing C10 violations. Place in x509/ and run:
//   go test -vet=off -count=1 -run 'TestC10Defect' ./x509/

import (
	"crypto/rand"
	"crypto/x509/pkix"
	"encoding/asn1"
	"math/big"
	"testing"
	"time"

	"github.com/tjfoc/gmsm/sm2"
)

var c10dSerial int64 = 100

func c10dMk(t *testing.T, tmpl *Certificate, parent *Certificate, parentKey *sm2.PrivateKey) (*Certificate, *sm2.PrivateKey) {
	t.Helper()
	key, err := sm2.GenerateKey(rand.Reader)
	if err != nil {
		t.Fatal(err)
	}
	c10dSerial++
	tmpl.SerialNumber = big.NewInt(c10dSerial)
	if tmpl.NotBefore.IsZero() {
		tmpl.NotBefore = time.Unix(1500000000, 0)
		tmpl.NotAfter = time.Unix(1900000000, 0)
	}
	signer := key
	if parent == nil {
		parent = tmpl
	} else {
		signer = parentKey
	}
	der, err := CreateCertificate(tmpl, parent, &key.PublicKey, signer)
	if err != nil {
		t.Fatal(err)
	}
	c, err := ParseCertificate(der)
	if err != nil {
		t.Fatal(err)
	}
	return c, key
}

func c10dCA(cn string) *Certificate {
	return &Certificate{
		Subject:               pkix.Name{CommonName: cn},
		BasicConstraintsValid: true,
		IsCA:                  true,
		KeyUsage:              KeyUsageCertSign,
		SubjectKeyId:          []byte(cn),
	}
}

// A requested usage equal to the internal "crossed out" marker (-1) is never
// crossed out, so it is satisfied by every certificate: a leaf whose EKU is
// clientAuth only is accepted for a usage it does not carry.
func TestC10DefectRequestedUsageMinusOne(t *testing.T) {
	root, rootKey := c10dMk(t, c10dCA("D Root"), nil, nil)
	leaf, _ := c10dMk(t, &Certificate{
		Subject:     pkix.Name{CommonName: "leaf.example.com"},
		DNSNames:    []string{"leaf.example.com"},
		ExtKeyUsage: []ExtKeyUsage{ExtKeyUsageClientAuth},
	}, root, rootKey)
	roots := NewCertPool()
	roots.AddCert(root)
	at := time.Unix(1700000000, 0)

	// sanity: a usage the leaf does not carry is refused
	if _, err := leaf.Verify(VerifyOptions{Roots: roots, CurrentTime: at, DNSName: "leaf.example.com",
		KeyUsages: []ExtKeyUsage{ExtKeyUsageServerAuth}}); err == nil {
		t.Fatal("serverAuth accepted for a clientAuth-only leaf")
	}
	if _, err := leaf.Verify(VerifyOptions{Roots: roots, CurrentTime: at, DNSName: "leaf.example.com",
		KeyUsages: []ExtKeyUsage{ExtKeyUsage(99)}}); err == nil {
		t.Fatal("usage 99 accepted for a clientAuth-only leaf")
	}
	for _, req := range [][]ExtKeyUsage{{ExtKeyUsage(-1)}, {ExtKeyUsageServerAuth, ExtKeyUsage(-1)}} {
		chains, err := leaf.Verify(VerifyOptions{Roots: roots, CurrentTime: at, DNSName: "leaf.example.com", KeyUsages: req})
		if err == nil {
			t.Errorf("requested usages %v: %d chain(s) returned for a leaf whose EKU is clientAuth only", req, len(chains))
		}
	}
}

// An issuer whose keyUsage extension is present but asserts none of the nine
// defined bits (here: empty BIT STRING) is "key usage without certSign", yet it
// is accepted as an issuer, because KeyUsage==0 is read as "no extension".
func TestC10DefectEmptyKeyUsageIssuer(t *testing.T) {
	root, rootKey := c10dMk(t, c10dCA("D Root 2"), nil, nil)
	at := time.Unix(1700000000, 0)
	for name, ku := range map[string][]byte{
		"empty bit string":         {0x03, 0x01, 0x00},
		"only undefined bit 9":     {0x03, 0x03, 0x06, 0x00, 0x40},
		"control: digitalSig only": {0x03, 0x02, 0x07, 0x80},
	} {
		tm := c10dCA("D Inter " + name)
		tm.KeyUsage = 0
		tm.ExtraExtensions = []pkix.Extension{{Id: asn1.ObjectIdentifier{2, 5, 29, 15}, Critical: true, Value: ku}}
		inter, interKey := c10dMk(t, tm, root, rootKey)
		leaf, _ := c10dMk(t, &Certificate{
			Subject:  pkix.Name{CommonName: "leaf.example.com"},
			DNSNames: []string{"leaf.example.com"},
		}, inter, interKey)
		roots, inters := NewCertPool(), NewCertPool()
		roots.AddCert(root)
		inters.AddCert(inter)
		chains, err := leaf.Verify(VerifyOptions{Roots: roots, Intermediates: inters, CurrentTime: at, DNSName: "leaf.example.com"})
		if err == nil {
			t.Errorf("%s: %d chain(s) through an intermediate whose keyUsage extension does not assert keyCertSign (parsed KeyUsage=%d)", name, len(chains), inter.KeyUsage)
		}
	}
}
