package padding

import (
	"bytes"
	"testing"
)

// Place in sm4/padding/ ; run: go test -vet=off -count=1 -run TestDefectC19 ./sm4/padding/
//
// A stream whose total length is NOT a multiple of the block size is not a
// PKCS#7 padded stream at all: its final block is a partial block. The
// un-padding writer nevertheless accepts it whenever the last blockSize bytes
// *seen as a sliding window* happen to end in a valid pad, and emits output.
func TestDefectC19_MisalignedTotalAccepted(t *testing.T) {
	for _, bs := range []int{8, 16} {
		// bs+1 .. 3*bs-1 bytes, not multiples of bs, ending in 0x01
		for total := bs + 1; total < 3*bs; total++ {
			if total%bs == 0 {
				continue
			}
			in := bytes.Repeat([]byte{0xAA}, total)
			in[total-1] = 0x01
			var out bytes.Buffer
			w := NewPKCS7PaddingWriter(&out, bs)
			if _, err := w.Write(in); err != nil {
				t.Fatal(err)
			}
			if err := w.Final(); err == nil {
				t.Errorf("bs=%d total=%d (final block has only %d bytes): Final() = nil, emitted %d bytes; want an invalid-padding error",
					bs, total, total%bs, out.Len())
			}
		}
	}
}

// Second call on the same object: Final() does not consume the cached block,
// so calling it again emits the tail of the plaintext a second time.
func TestDefectC19_FinalTwiceDuplicatesTail(t *testing.T) {
	src := []byte("0123456789") // 10 bytes -> pad 6 with bs=16
	padded := append(append([]byte{}, src...), bytes.Repeat([]byte{6}, 6)...)
	var out bytes.Buffer
	w := NewPKCS7PaddingWriter(&out, 16)
	_, _ = w.Write(padded)
	if err := w.Final(); err != nil {
		t.Fatal(err)
	}
	_ = w.Final()
	if !bytes.Equal(out.Bytes(), src) {
		t.Errorf("after a second Final() output is %q, want exactly %q", out.Bytes(), src)
	}
}
