package gmtls

// Demo of a pre-existing violation of C08: the GMSSL client resumes a cached session
// without looking at the configured time (nor at anything else of its verification
// policy): a handshake completes with a server whose certificates are expired at
// Config.Time.  Place in gmtls/ and run:
//   go test -vet=off -count=1 -run TestC08DefectResumeExpired ./gmtls/

import (
	"crypto/rand"
	"math/big"
	"net"
	"testing"
	"time"

	"crypto/x509/pkix"
	"github.com/tjfoc/gmsm/sm2"
	"github.com/tjfoc/gmsm/x509"
)

type c08dPKI struct {
	caCert              *x509.Certificate
	caKey               *sm2.PrivateKey
	pool                *x509.CertPool
	sign, enc           Certificate
	notBefore, notAfter time.Time
}

func c08dMakePKI(t *testing.T, name string) *c08dPKI {
	p := &c08dPKI{}
	p.notBefore = time.Date(2030, 1, 1, 0, 0, 0, 0, time.UTC)
	p.notAfter = time.Date(2030, 2, 1, 0, 0, 0, 0, time.UTC)
	var err error
	p.caKey, err = sm2.GenerateKey(rand.Reader)
	if err != nil {
		t.Fatal(err)
	}
	caT := &x509.Certificate{
		SerialNumber: big.NewInt(1), Subject: pkix.Name{CommonName: "c08 demo CA"},
		NotBefore: time.Date(2020, 1, 1, 0, 0, 0, 0, time.UTC), NotAfter: time.Date(2040, 1, 1, 0, 0, 0, 0, time.UTC),
		IsCA: true, BasicConstraintsValid: true, KeyUsage: x509.KeyUsageCertSign,
		SignatureAlgorithm: x509.SM2WithSM3,
	}
	der, err := x509.CreateCertificate(caT, caT, &p.caKey.PublicKey, p.caKey)
	if err != nil {
		t.Fatal(err)
	}
	p.caCert, err = x509.ParseCertificate(der)
	if err != nil {
		t.Fatal(err)
	}
	p.pool = x509.NewCertPool()
	p.pool.AddCert(p.caCert)
	leaf := func(serial int64, ku x509.KeyUsage) Certificate {
		k, err := sm2.GenerateKey(rand.Reader)
		if err != nil {
			t.Fatal(err)
		}
		tpl := &x509.Certificate{
			SerialNumber: big.NewInt(serial), Subject: pkix.Name{CommonName: name}, DNSNames: []string{name},
			NotBefore: p.notBefore, NotAfter: p.notAfter, KeyUsage: ku,
			ExtKeyUsage:        []x509.ExtKeyUsage{x509.ExtKeyUsageServerAuth, x509.ExtKeyUsageClientAuth},
			SignatureAlgorithm: x509.SM2WithSM3,
		}
		der, err := x509.CreateCertificate(tpl, p.caCert, &k.PublicKey, p.caKey)
		if err != nil {
			t.Fatal(err)
		}
		return Certificate{Certificate: [][]byte{der}, PrivateKey: k}
	}
	p.sign = leaf(2, x509.KeyUsageDigitalSignature)
	p.enc = leaf(3, x509.KeyUsageKeyEncipherment|x509.KeyUsageDataEncipherment)
	return p
}

// one handshake over an in-memory pipe; returns the two handshake errors and the client connection state
func c08dHandshake(clientCfg, serverCfg *Config) (cerr, serr error, cs ConnectionState) {
	a, b := net.Pipe()
	cli := Client(a, clientCfg)
	srv := Server(b, serverCfg)
	done := make(chan error, 1)
	go func() {
		err := srv.Handshake()
		if err != nil {
			b.Close()
		}
		done <- err
	}()
	a.SetDeadline(time.Now().Add(10 * time.Second))
	b.SetDeadline(time.Now().Add(10 * time.Second))
	cerr = cli.Handshake()
	if cerr != nil {
		a.Close()
	}
	serr = <-done
	cs = cli.ConnectionState()
	a.Close()
	b.Close()
	return
}

func TestC08DefectResumeExpired(t *testing.T) {
	p := c08dMakePKI(t, "server.c08.test")
	now := p.notBefore.Add(24 * time.Hour)
	serverCfg := &Config{GMSupport: &GMSupport{}, Certificates: []Certificate{p.sign, p.enc}, CipherSuites: []uint16{GMTLS_ECC_SM4_CBC_SM3}}
	clientCfg := &Config{
		GMSupport: &GMSupport{}, RootCAs: p.pool, ServerName: "server.c08.test",
		ClientSessionCache: NewLRUClientSessionCache(4),
		Time:               func() time.Time { return now },
	}

	// 1. while the certificates are valid: full handshake, the session is cached
	cerr, serr, cs := c08dHandshake(clientCfg, serverCfg)
	if cerr != nil || serr != nil {
		t.Fatalf("first handshake: client %v, server %v", cerr, serr)
	}
	if cs.DidResume {
		t.Fatal("first handshake resumed?")
	}

	// control: a fresh client (no cached session) at the later time refuses the expired certificates
	later := p.notAfter.Add(24 * time.Hour)
	fresh := &Config{GMSupport: &GMSupport{}, RootCAs: p.pool, ServerName: "server.c08.test", Time: func() time.Time { return later }}
	if cerr, _, _ := c08dHandshake(fresh, serverCfg); cerr == nil {
		t.Fatal("control: a full handshake at the later time accepted expired certificates")
	}

	// 2. the configured time moves behind NotAfter of both server certificates
	now = later
	cerr, serr, cs = c08dHandshake(clientCfg, serverCfg)
	if cerr == nil && serr == nil {
		t.Fatalf("C08 violated: the verifying client completed a handshake (resumed=%v) at %v with a server whose certificates expired at %v",
			cs.DidResume, now, p.notAfter)
	}
	t.Logf("second handshake refused: client %v / server %v", cerr, serr)
}

// Same root cause, other policy inputs: the cached session carries no trace of the policy it was accepted under.
// A session made by a Config with InsecureSkipVerify (same ServerName, same ClientSessionCache - e.g. a Clone used
// for a probe) is resumed by the verifying Config: it completes with a server whose certificates chain to no
// trusted root.
func TestC08DefectResumeUnverifiedSession(t *testing.T) {
	trusted := c08dMakePKI(t, "server.c08.test")
	rogue := c08dMakePKI(t, "server.c08.test") // another CA, not in the client's roots
	now := trusted.notBefore.Add(24 * time.Hour)
	serverCfg := &Config{GMSupport: &GMSupport{}, Certificates: []Certificate{rogue.sign, rogue.enc}, CipherSuites: []uint16{GMTLS_ECC_SM4_CBC_SM3}}
	verifying := &Config{
		GMSupport: &GMSupport{}, RootCAs: trusted.pool, ServerName: "server.c08.test",
		ClientSessionCache: NewLRUClientSessionCache(4),
		Time:               func() time.Time { return now },
	}
	if cerr, _, _ := c08dHandshake(verifying, serverCfg); cerr == nil {
		t.Fatal("control: the verifying client accepted the rogue server in a full handshake")
	}
	probe := verifying.Clone()
	probe.InsecureSkipVerify = true
	if cerr, serr, _ := c08dHandshake(probe, serverCfg); cerr != nil || serr != nil {
		t.Fatalf("probe handshake: %v / %v", cerr, serr)
	}
	cerr, serr, cs := c08dHandshake(verifying, serverCfg)
	if cerr == nil && serr == nil {
		t.Fatalf("C08 violated: the verifying client completed a handshake (resumed=%v, verifiedChains=%d) with a server whose certificates chain to no trusted root",
			cs.DidResume, len(cs.VerifiedChains))
	}
}
