package pkcs12

// Place in <tree>/pkcs12/ and run:
//   go test -vet=off -count=1 -run TestC17Defect ./pkcs12/
// FAILS on the pristine tree.

import (
	"crypto/x509/pkix"
	"math/big"
	"testing"
	"time"

	"github.com/tjfoc/gmsm/sm2"
	x "github.com/tjfoc/gmsm/x509"
)

func c17DefectBundle(t *testing.T, password string) (*sm2.PrivateKey, []byte) {
	priv, err := sm2.GenerateKey(nil)
	if err != nil {
		t.Fatal(err)
	}
	tpl := &x.Certificate{
		SerialNumber:       big.NewInt(7),
		Subject:            pkix.Name{CommonName: "c17-defect"},
		NotBefore:          time.Now().Add(-time.Hour),
		NotAfter:           time.Now().Add(time.Hour),
		SignatureAlgorithm: x.SM2WithSM3,
	}
	der, err := x.CreateCertificate(tpl, tpl, &priv.PublicKey, priv)
	if err != nil {
		t.Fatal(err)
	}
	cert, err := x.ParseCertificate(der)
	if err != nil {
		t.Fatal(err)
	}
	pfx, err := Encode(priv, cert, nil, password)
	if err != nil {
		t.Fatal(err)
	}
	if _, _, err := DecodeAll(pfx, password); err != nil {
		t.Fatalf("right password rejected: %v", err)
	}
	return priv, pfx
}

func TestC17DefectPasswordCollisions(t *testing.T) {
	cases := []struct{ name, enc, other string }{
		// non-UTF-8 password bytes (e.g. a GBK-encoded Chinese password): every invalid byte
		// becomes U+FFFD in bmpString, so all such passwords of equal length are the same password
		{"GBK ni3 vs GBK hao3", "\xc4\xe3", "\xba\xc3"},
		{"invalid byte vs U+FFFD", "pass\xff", "pass�"},
		// an embedded NUL makes the BMP string "a" 0000 "a" 0000; the PKCS#12 KDF repeats the
		// password to fill 64 bytes, so it derives the same keys as "a" 0000
		{"a vs a<NUL>a", "a", "a\x00a"},
		{"ab vs ab<NUL>ab<NUL>ab", "ab", "ab\x00ab\x00ab"},
	}
	for _, c := range cases {
		_, pfx := c17DefectBundle(t, c.enc)
		if c.enc == c.other {
			t.Fatal("bad case")
		}
		key, certs, err := DecodeAll(pfx, c.other)
		if err == nil {
			t.Errorf("%s: bundle encoded with password %q was decoded with the different password %q (key %T, %d certs)",
				c.name, c.enc, c.other, key, len(certs))
		}
	}
}
