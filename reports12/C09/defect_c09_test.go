package x509

// Place in x509/ of the pristine tree and run:
//   go test -vet=off -count=1 -run 'TestC09Defect' -v ./x509/
// Both tests FAIL on the unmodified library.

import (
	"crypto/rand"
	"crypto/rsa"
	"crypto/x509/pkix"
	"math/big"
	"reflect"
	"testing"
	"time"

	"github.com/tjfoc/gmsm/sm2"
)

func c09DefectTemplate() *Certificate {
	return &Certificate{
		SerialNumber:          big.NewInt(7),
		Subject:               pkix.Name{CommonName: "ca"},
		NotBefore:             time.Unix(1000000000, 0),
		NotAfter:              time.Unix(2000000000, 0),
		KeyUsage:              KeyUsageCertSign | KeyUsageCRLSign,
		BasicConstraintsValid: true,
		IsCA:                  true,
		SubjectKeyId:          []byte{1, 2, 3},
	}
}

// An RSA signer with an RSA algorithm (MD5WithRSA): all three constructors accept the
// template and sign, but the package itself can never verify what it issued.
func TestC09DefectMD5WithRSA(t *testing.T) {
	subj, _ := sm2.GenerateKey(nil)
	k, err := rsa.GenerateKey(rand.Reader, 2048)
	if err != nil {
		t.Fatal(err)
	}
	tm := c09DefectTemplate()
	tm.SignatureAlgorithm = MD5WithRSA
	if der, err := CreateCertificate(tm, tm, &subj.PublicKey, k); err != nil {
		t.Logf("certificate refused (fine): %v", err)
	} else if c, err := ParseCertificate(der); err != nil {
		t.Errorf("certificate does not parse back: %v", err)
	} else if err := checkSignature(c.SignatureAlgorithm, c.RawTBSCertificate, c.Signature, &k.PublicKey); err != nil {
		t.Errorf("issued certificate does not verify under the issuer key: %v", err)
	}
	if der, err := CreateCertificateRequest(rand.Reader, &CertificateRequest{Subject: tm.Subject, SignatureAlgorithm: MD5WithRSA}, k); err != nil {
		t.Logf("csr refused (fine): %v", err)
	} else if r, err := ParseCertificateRequest(der); err != nil {
		t.Errorf("csr does not parse back: %v", err)
	} else if err := r.CheckSignature(); err != nil {
		t.Errorf("issued CSR does not verify: %v", err)
	}
	iss := c09DefectTemplate()
	iss.PublicKey = &k.PublicKey
	rl := &RevocationList{SignatureAlgorithm: MD5WithRSA, Number: big.NewInt(1), ThisUpdate: time.Unix(1000000000, 0), NextUpdate: time.Unix(1000000001, 0)}
	if der, err := CreateRevocationList(rand.Reader, rl, iss, k); err != nil {
		t.Logf("crl refused (fine): %v", err)
	} else if l, err := ParseDERCRL(der); err != nil {
		t.Errorf("crl does not parse back: %v", err)
	} else if err := iss.CheckCRLSignature(l); err != nil {
		t.Errorf("issued CRL does not verify under the issuer key: %v", err)
	}
}

// A name constraint with the empty DNS domain "" (RFC 5280: matches every name) is accepted,
// encoded as an empty GeneralSubtree (the base is dropped by the "optional" tag), and then
// the package's own parser rejects the certificate (critical) or silently loses the entry.
func TestC09DefectEmptyPermittedDomain(t *testing.T) {
	subj, _ := sm2.GenerateKey(nil)
	k, _ := sm2.GenerateKey(nil)
	for _, critical := range []bool{true, false} {
		tm := c09DefectTemplate()
		tm.PermittedDNSDomains = []string{"", "example.com"}
		tm.PermittedDNSDomainsCritical = critical
		der, err := CreateCertificate(tm, tm, &subj.PublicKey, k)
		if err != nil {
			t.Logf("refused (fine): %v", err)
			continue
		}
		c, err := ParseCertificate(der)
		if err != nil {
			t.Errorf("critical=%v: issued certificate does not parse back: %v", critical, err)
			continue
		}
		if !reflect.DeepEqual(c.PermittedDNSDomains, tm.PermittedDNSDomains) {
			t.Errorf("critical=%v: PermittedDNSDomains %q parsed back as %q", critical, tm.PermittedDNSDomains, c.PermittedDNSDomains)
		}
	}
}
