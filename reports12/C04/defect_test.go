package sm3

import (
	"bytes"
	"encoding/hex"
	"testing"
)

// The doc comment of Reset says: "This can be skipped for a newly-created hash state; the default
// zero-allocated state is correct."  It is not: a zero SM3 value hashes with an all-zero IV.
func TestZeroValueIsNotInitialState(t *testing.T) {
	var z SM3 // exported type, zero value, a valid hash.Hash
	z.Write([]byte("abc"))
	got := z.Sum(nil)
	want, _ := hex.DecodeString("66c7f0f462eeedd9d1f2d46bdc10e4e24167c4875cf2f7a2297da02b8f4ba8e0")
	if !bytes.Equal(got, want) {
		t.Errorf("zero-value SM3: Sum(abc) = %x, want GM/T 0004 value %x", got, want)
	}
	z.Reset()
	z.Write([]byte("abc"))
	if got2 := z.Sum(nil); !bytes.Equal(got2, got) {
		t.Errorf("Reset does not return the object to the state it had before the first write: %x vs %x", got2, got)
	}
}

// On 32-bit platforms len(p)*8 is computed in int and overflows for one Write of >= 256 MiB.
func TestBigWrite32(t *testing.T) {
	if ^uint(0)>>32 != 0 {
		t.Skip("64-bit int")
	}
	const n = 1 << 28
	big := make([]byte, n)
	a := New()
	a.Write(big)
	b := New()
	b.Write(big[:n/2])
	b.Write(big[n/2:])
	if !bytes.Equal(a.Sum(nil), b.Sum(nil)) {
		t.Errorf("one write of 256 MiB: %x, two writes of 128 MiB: %x", a.Sum(nil), b.Sum(nil))
	}
}
