package x509

// Place at x509/defect_pwd_test.go and run:
//   go test -vet=off -count=1 -run TestDefectOtherPasswordAccepted ./x509/
// FAILS on the pristine tree.

import (
	"crypto/rand"
	"crypto/sha1"
	"testing"

	"github.com/tjfoc/gmsm/sm2"
)

func TestDefectOtherPasswordAccepted(t *testing.T) {
	key, err := sm2.GenerateKey(rand.Reader)
	if err != nil {
		t.Fatal(err)
	}

	// (1) wrong password differing in length only: one NUL appended
	pwd := []byte("Secret-1")
	pemBytes, err := WritePrivateKeyToPem(key, pwd)
	if err != nil {
		t.Fatal(err)
	}
	other := append(append([]byte{}, pwd...), 0)
	if k, err := ReadPrivateKeyFromPem(pemBytes, other); err == nil {
		t.Errorf("key protected with %q was decoded with the other password %q (D equal: %v)", pwd, other, k.D.Cmp(key.D) == 0)
	}

	// (2) the empty password and a single NUL byte
	pemBytes, err = WritePrivateKeyToPem(key, []byte{})
	if err != nil {
		t.Fatal(err)
	}
	if _, err := ReadPrivateKeyFromPem(pemBytes, []byte{0}); err == nil {
		t.Errorf("key protected with the empty password was decoded with the password \"\\x00\"")
	}

	// (3) a 1 KiB password and its 20-byte SHA-1 digest
	long := make([]byte, 1024)
	for i := range long {
		long[i] = byte('a' + i%26)
	}
	pemBytes, err = WritePrivateKeyToPem(key, long)
	if err != nil {
		t.Fatal(err)
	}
	sum := sha1.Sum(long)
	if _, err := ReadPrivateKeyFromPem(pemBytes, sum[:]); err == nil {
		t.Errorf("key protected with a 1 KiB password was decoded with the 20-byte password SHA1(password)")
	}
}
