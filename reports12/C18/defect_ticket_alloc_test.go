package gmtls

// Place in gmtls/ and run:
//   go test -vet=off -count=1 -run TestDefectSessionStateAlloc ./gmtls/
//
// sessionState.unmarshal (the decoder of the plaintext of a session ticket) allocates
// make([][]byte, numCerts) from the 16-bit certificate count BEFORE it checks that the
// remaining bytes can hold that many entries (each entry needs at least 4 bytes).
// A ~58-byte state whose count byte is substituted by 0xff makes it allocate ~1.5 MB
// and then return false: memory is ~27000 times the input size.

import (
	"runtime"
	"testing"
)

func TestDefectSessionStateAlloc(t *testing.T) {
	st := &sessionState{vers: 0x0101, cipherSuite: 0xe013, masterSecret: make([]byte, 48)}
	data := st.marshal()
	// single-byte substitution (alphabet value 0xff) of the high byte of the certificate count
	off := 2 + 2 + 2 + 48
	mut := append([]byte(nil), data...)
	mut[off] = 0xff

	var before, after runtime.MemStats
	runtime.GC()
	runtime.ReadMemStats(&before)
	var out sessionState
	ok := out.unmarshal(mut)
	runtime.ReadMemStats(&after)
	if ok {
		t.Fatalf("mutated state accepted")
	}
	alloc := after.TotalAlloc - before.TotalAlloc
	limit := uint64(64*len(mut) + 4096)
	t.Logf("input %d bytes, allocated %d bytes while rejecting it", len(mut), alloc)
	if alloc > limit {
		t.Errorf("sessionState.unmarshal allocated %d bytes for a %d-byte input (limit %d): memory is not a small multiple of the input size", alloc, len(mut), limit)
	}
}
