package gmtls

// Demo of a pre-existing violation of C15 (place in gmtls/, run:
//   go test -vet=off -count=1 -run TestDefectGMOnlyServerHybridVersion ./gmtls/ )
//
// A server in GMSSL-only mode (Config.GMSupport = NewGMSupport(), WorkMode "GMSSLOnly") supports exactly
// one protocol version, GMSSL 1.1 = 0x0101. A ClientHello that offers 0x0300, 0x0301, 0x0302, 0x0303 (or
// anything above, clamped to 0x0303) together with a GM suite is not refused: readClientHello takes
// Config.mutualVersion(vers), which (default MinVersion 0x0101, MaxVersion 0x0303) accepts it, and the
// GM handshake goes on with c.vers = 0x0300..0x0303 and suite 0xe013 - a protocol nobody defines (master
// secret and key block from the SSL3 / TLS1.0 MD5+SHA1 PRF or the SHA-256 PRF, Finished from the SM3 PRF).
// A peer that plays along gets Handshake() == nil and HandshakeComplete with Version 0x0300.

import (
	"net"
	"testing"
	"time"
)

func probeServerCfg(t *testing.T) *Config {
	sig, err := LoadX509KeyPair("websvr/certs/sm2_sign_cert.cer", "websvr/certs/sm2_sign_key.pem")
	if err != nil {
		t.Fatal(err)
	}
	enc, err := LoadX509KeyPair("websvr/certs/sm2_enc_cert.cer", "websvr/certs/sm2_enc_key.pem")
	if err != nil {
		t.Fatal(err)
	}
	return &Config{GMSupport: NewGMSupport(), Certificates: []Certificate{sig, enc}}
}

// a peer that is the library's GMSSL client in everything except the version it offers and accepts
func hybridPeer(c *Conn, v uint16) error {
	cfg := c.config
	hello, err := makeClientHelloGM(cfg)
	if err != nil {
		return err
	}
	hello.vers = v
	hs := &clientHandshakeStateGM{c: c, hello: hello}
	c.vers = VersionGMSSL
	if _, err := c.writeRecord(recordTypeHandshake, hello.marshal()); err != nil {
		return err
	}
	msg, err := c.readHandshake()
	if err != nil {
		return err
	}
	hs.serverHello = msg.(*serverHelloMsg)
	c.vers = hs.serverHello.vers
	c.haveVers = true
	if err := hs.pickCipherSuite(); err != nil {
		return err
	}
	hs.finishedHash = newFinishedHashGM(hs.suite)
	hs.finishedHash.discardHandshakeBuffer()
	hs.finishedHash.Write(hello.marshal())
	hs.finishedHash.Write(hs.serverHello.marshal())
	c.buffering = true
	if err := hs.doFullHandshake(); err != nil {
		return err
	}
	if err := hs.establishKeys(); err != nil {
		return err
	}
	if err := hs.sendFinished(nil); err != nil {
		return err
	}
	if _, err := c.flush(); err != nil {
		return err
	}
	return hs.readFinished(nil)
}


func TestDefectGMOnlyServerHybridVersion(t *testing.T) {
	for _, v := range []uint16{0x0300, 0x0301, 0x0302, 0x0303, 0x0304, 0x0400} {
		cs, ss := net.Pipe()
		dl := time.Now().Add(5 * time.Second)
		cs.SetDeadline(dl)
		ss.SetDeadline(dl)
		srv := Server(ss, probeServerCfg(t))
		done := make(chan error, 1)
		go func() { done <- srv.Handshake() }()
		cli := Client(cs, &Config{GMSupport: NewGMSupport(), InsecureSkipVerify: true})
		perr := hybridPeer(cli, v)
		serr := <-done
		st := srv.ConnectionState()
		cs.Close()
		ss.Close()
		if serr == nil || st.HandshakeComplete {
			t.Errorf("GMSSL-only server, ClientHello version %04x: Handshake()=%v, complete=%v, negotiated version %04x suite %04x (peer err %v); want an error",
				v, serr, st.HandshakeComplete, st.Version, st.CipherSuite, perr)
		}
	}
}
