package x509

// Reproduction for C18: x509.ReadPublicKeyFromHex does not fail closed.
// Place this file in the x509/ directory of the checkout and run
//
//	go test -vet=off -count=1 -run TestC18ReadPublicKeyFromHex ./x509
//
// It FAILS on the tree as it is.

import (
	"fmt"
	"math/big"
	"strings"
	"testing"

	"github.com/tjfoc/gmsm/sm2"
)

func isHexDigit(c byte) bool {
	return (c >= '0' && c <= '9') || (c >= 'a' && c <= 'f') || (c >= 'A' && c <= 'F')
}

// use runs the library's own consumers of a public key on k and reports a panic.
func c18use(k *sm2.PublicKey) (panicked string) {
	defer func() {
		if r := recover(); r != nil {
			panicked = fmt.Sprint(r)
		}
	}()
	if _, err := WritePublicKeyToPem(k); err != nil { // -> MarshalSm2PublicKey -> elliptic.Marshal
		return ""
	}
	return ""
}

func TestC18ReadPublicKeyFromHexSubstitution(t *testing.T) {
	// a fixed valid key (d = 1: the base point), so that the test is deterministic
	priv, err := ReadPrivateKeyFromHex("0000000000000000000000000000000000000000000000000000000000000001")
	if err != nil {
		t.Fatal(err)
	}
	valid := WritePublicKeyToHex(&priv.PublicKey) // "04" || X || Y, what the library itself writes
	if k, err := ReadPublicKeyFromHex(valid); err != nil || c18use(k) != "" {
		t.Fatalf("valid key: %v", err)
	}
	accepted, panics := 0, 0
	var firstBad, firstPanic string
	for i := 2; i < len(valid); i++ { // every single-byte substitution b -> b^1 that is still a hex digit
		c := valid[i] ^ 1
		if !isHexDigit(c) {
			continue
		}
		m := valid[:i] + string(c) + valid[i+1:]
		k, err := ReadPublicKeyFromHex(m)
		if err != nil {
			continue // failed closed: fine
		}
		if !k.Curve.IsOnCurve(k.X, k.Y) {
			accepted++
			if firstBad == "" {
				firstBad = m
			}
			if p := c18use(k); p != "" {
				panics++
				if firstPanic == "" {
					firstPanic = fmt.Sprintf("%s: %s", m, p)
				}
			}
		}
	}
	if accepted > 0 {
		t.Errorf("ReadPublicKeyFromHex returned err == nil for %d single-character substitutions that are not points of the SM2 curve, e.g. %s", accepted, firstBad)
	}
	if panics > 0 {
		t.Errorf("WritePublicKeyToPem panicked on %d of the keys so obtained, e.g. %s", panics, firstPanic)
	}
}

func TestC18ReadPublicKeyFromHexOutOfRange(t *testing.T) {
	// coordinates that are not even field elements (>= p), and the pair (0, 1)
	for _, h := range []string{
		"04" + strings.Repeat("ff", 64),
		strings.Repeat("ff", 64),
		"04" + strings.Repeat("00", 63) + "01",
	} {
		k, err := ReadPublicKeyFromHex(h)
		if err != nil {
			continue
		}
		p := sm2.P256Sm2().Params().P
		t.Errorf("ReadPublicKeyFromHex(%s...) = key, nil; X >= p: %v, on curve: %v", h[:10], k.X.Cmp(p) >= 0, k.Curve.IsOnCurve(k.X, k.Y))
		if pan := c18use(k); pan != "" {
			t.Errorf("  and WritePublicKeyToPem(key) panics: %s", pan)
		}
		// the same key handed to a CA: CreateCertificate panics as well
		func() {
			defer func() {
				if r := recover(); r != nil {
					t.Errorf("  and CreateCertificate(template, parent, key, signer) panics: %v", r)
				}
			}()
			priv, _ := ReadPrivateKeyFromHex("0000000000000000000000000000000000000000000000000000000000000002")
			tmpl := &Certificate{SerialNumber: big.NewInt(1), SignatureAlgorithm: SM2WithSM3}
			_, _ = CreateCertificate(tmpl, tmpl, k, priv)
		}()
	}
}
