package x509

// Place in x509/ and run:
//   cd /tmp/wt11/C10 && go test -vet=off -count=1 -run TestC10LeafOwnNameConstraints ./x509/

import (
	"crypto/rand"
	"crypto/x509/pkix"
	"math/big"
	"testing"
	"time"

	"github.com/tjfoc/gmsm/sm2"
)

func TestC10LeafOwnNameConstraints(t *testing.T) {
	now := time.Date(2020, 1, 1, 0, 0, 0, 0, time.UTC)
	nb, na := now.Add(-time.Hour), now.Add(time.Hour)
	rk, _ := sm2.GenerateKey(rand.Reader)
	lk, _ := sm2.GenerateKey(rand.Reader)
	mk := func(tmpl, parent *Certificate, pub *sm2.PublicKey, signer *sm2.PrivateKey) *Certificate {
		der, err := CreateCertificate(tmpl, parent, pub, signer)
		if err != nil {
			t.Fatal(err)
		}
		c, err := ParseCertificate(der)
		if err != nil {
			t.Fatal(err)
		}
		return c
	}
	rootT := &Certificate{SerialNumber: big.NewInt(1), Subject: pkix.Name{CommonName: "R"}, NotBefore: nb, NotAfter: na,
		BasicConstraintsValid: true, IsCA: true, KeyUsage: KeyUsageCertSign}
	root := mk(rootT, rootT, &rk.PublicKey, rk)
	roots := NewCertPool()
	roots.AddCert(root)

	for _, withConstraint := range []bool{false, true} {
		// the certificate being verified: a (sub-CA) certificate for host foo.org whose own
		// name constraints speak about what IT may issue (example.com), not about itself
		leafT := &Certificate{SerialNumber: big.NewInt(2), Subject: pkix.Name{CommonName: "L"}, NotBefore: nb, NotAfter: na,
			BasicConstraintsValid: true, IsCA: true, DNSNames: []string{"foo.org"}}
		if withConstraint {
			leafT.PermittedDNSDomains = []string{"example.com"}
		}
		leaf := mk(leafT, root, &lk.PublicKey, rk)
		chains, err := leaf.Verify(VerifyOptions{DNSName: "foo.org", Roots: roots, CurrentTime: now})
		// chain leaf <- R: correctly signed, in validity, R is a CA with certSign and no constraints,
		// leaf matches foo.org, default EKU fine, no critical extension unhandled  => must verify
		if err != nil || len(chains) != 1 {
			t.Errorf("leaf with own PermittedDNSDomains=%v: Verify = %d chains, err %v; want 1 chain", leaf.PermittedDNSDomains, len(chains), err)
		}
	}
}
