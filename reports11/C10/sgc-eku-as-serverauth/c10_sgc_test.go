package x509

// Place in x509/ and run:
//   cd /tmp/wt11/C10 && go test -vet=off -count=1 -run TestC10SGCIsNotServerAuth ./x509/

import (
	"crypto/rand"
	"crypto/x509/pkix"
	"math/big"
	"testing"
	"time"

	"github.com/tjfoc/gmsm/sm2"
)

func TestC10SGCIsNotServerAuth(t *testing.T) {
	now := time.Date(2020, 1, 1, 0, 0, 0, 0, time.UTC)
	nb, na := now.Add(-time.Hour), now.Add(time.Hour)
	rk, _ := sm2.GenerateKey(rand.Reader)
	lk, _ := sm2.GenerateKey(rand.Reader)
	mk := func(tmpl, parent *Certificate, pub *sm2.PublicKey, signer *sm2.PrivateKey) *Certificate {
		der, err := CreateCertificate(tmpl, parent, pub, signer)
		if err != nil {
			t.Fatal(err)
		}
		c, err := ParseCertificate(der)
		if err != nil {
			t.Fatal(err)
		}
		return c
	}
	rootT := &Certificate{SerialNumber: big.NewInt(1), Subject: pkix.Name{CommonName: "R"}, NotBefore: nb, NotAfter: na,
		BasicConstraintsValid: true, IsCA: true}
	root := mk(rootT, rootT, &rk.PublicKey, rk)
	roots := NewCertPool()
	roots.AddCert(root)
	for _, eku := range []ExtKeyUsage{ExtKeyUsageNetscapeServerGatedCrypto, ExtKeyUsageMicrosoftServerGatedCrypto} {
		leaf := mk(&Certificate{SerialNumber: big.NewInt(2), Subject: pkix.Name{CommonName: "L"}, NotBefore: nb, NotAfter: na,
			ExtKeyUsage: []ExtKeyUsage{eku}}, root, &lk.PublicKey, rk)
		// requested: serverAuth (explicitly, and as the default of an empty list); the leaf's EKU set does not contain it
		for _, req := range [][]ExtKeyUsage{{ExtKeyUsageServerAuth}, nil} {
			chains, err := leaf.Verify(VerifyOptions{Roots: roots, CurrentTime: now, KeyUsages: req})
			if err == nil {
				t.Errorf("leaf EKU %v, requested %v: Verify returned %d chain(s), want IncompatibleUsage", leaf.ExtKeyUsage, req, len(chains))
			}
		}
	}
}
