// Place in /tmp/wt11/C16/gmtls/ and run:
//   cd /tmp/wt11/C16 && unshare -n sh -c "ip link set lo up; go test -vet=off -count=1 -run TestC16GetConfigTicketKeys -v ./gmtls/"
// Public API only. All three tests FAIL on the tree as it is and pass with repair.diff.
package gmtls_test

import (
	"crypto/rand"
	"crypto/x509/pkix"
	"fmt"
	"io"
	"math/big"
	"net"
	"testing"
	"time"

	"github.com/tjfoc/gmsm/gmtls"
	"github.com/tjfoc/gmsm/sm2"
	"github.com/tjfoc/gmsm/x509"
)

type c16pki struct {
	pool     *x509.CertPool
	sig, enc gmtls.Certificate
}

func c16NewPKI(t *testing.T) *c16pki {
	caKey, err := sm2.GenerateKey(rand.Reader)
	if err != nil {
		t.Fatal(err)
	}
	caT := &x509.Certificate{SerialNumber: big.NewInt(1), Subject: pkix.Name{CommonName: "c16 ca"},
		NotBefore: time.Now().Add(-time.Hour), NotAfter: time.Now().Add(24 * time.Hour),
		KeyUsage: x509.KeyUsageCertSign, BasicConstraintsValid: true, IsCA: true, SignatureAlgorithm: x509.SM2WithSM3}
	caDER, err := x509.CreateCertificate(caT, caT, &caKey.PublicKey, caKey)
	if err != nil {
		t.Fatal(err)
	}
	ca, err := x509.ParseCertificate(caDER)
	if err != nil {
		t.Fatal(err)
	}
	issue := func(serial int64, ku x509.KeyUsage) gmtls.Certificate {
		k, _ := sm2.GenerateKey(rand.Reader)
		tm := &x509.Certificate{SerialNumber: big.NewInt(serial), Subject: pkix.Name{CommonName: "server.test"}, DNSNames: []string{"server.test"},
			NotBefore: time.Now().Add(-time.Hour), NotAfter: time.Now().Add(24 * time.Hour), KeyUsage: ku,
			ExtKeyUsage: []x509.ExtKeyUsage{x509.ExtKeyUsageServerAuth}, SignatureAlgorithm: x509.SM2WithSM3}
		der, err := x509.CreateCertificate(tm, ca, &k.PublicKey, caKey)
		if err != nil {
			t.Fatal(err)
		}
		return gmtls.Certificate{Certificate: [][]byte{der}, PrivateKey: k}
	}
	p := &c16pki{pool: x509.NewCertPool()}
	p.pool.AddCert(ca)
	p.sig = issue(2, x509.KeyUsageDigitalSignature)
	p.enc = issue(3, x509.KeyUsageKeyEncipherment|x509.KeyUsageDataEncipherment|x509.KeyUsageKeyAgreement)
	return p
}

func (p *c16pki) server() *gmtls.Config {
	return &gmtls.Config{GMSupport: &gmtls.GMSupport{}, Certificates: []gmtls.Certificate{p.sig, p.enc},
		CipherSuites: []uint16{gmtls.GMTLS_ECC_SM4_CBC_SM3}}
}

func (p *c16pki) client(cache gmtls.ClientSessionCache) *gmtls.Config {
	return &gmtls.Config{GMSupport: &gmtls.GMSupport{}, RootCAs: p.pool, ServerName: "server.test",
		ClientSessionCache: cache, CipherSuites: []uint16{gmtls.GMTLS_ECC_SM4_CBC_SM3}}
}

// c16Connect makes one connection, exchanges data both ways and reports whether the server resumed.
func c16Connect(t *testing.T, ccfg, scfg *gmtls.Config) (resumed bool) {
	ln, err := net.Listen("tcp", "127.0.0.1:0")
	if err != nil {
		t.Fatal(err)
	}
	defer ln.Close()
	type res struct {
		resumed bool
		err     error
	}
	ch := make(chan res, 1)
	go func() {
		raw, err := ln.Accept()
		if err != nil {
			ch <- res{err: err}
			return
		}
		defer raw.Close()
		raw.SetDeadline(time.Now().Add(5 * time.Second))
		s := gmtls.Server(raw, scfg)
		if err := s.Handshake(); err != nil {
			ch <- res{err: err}
			return
		}
		b := make([]byte, 4)
		if _, err := io.ReadFull(s, b); err != nil || string(b) != "ping" {
			ch <- res{err: fmt.Errorf("server read %q %v", b, err)}
			return
		}
		s.Write([]byte("pong"))
		ch <- res{resumed: s.ConnectionState().DidResume}
	}()
	raw, err := net.Dial("tcp", ln.Addr().String())
	if err != nil {
		t.Fatal(err)
	}
	defer raw.Close()
	raw.SetDeadline(time.Now().Add(5 * time.Second))
	c := gmtls.Client(raw, ccfg)
	if err := c.Handshake(); err != nil {
		t.Fatalf("client handshake: %v", err)
	}
	c.Write([]byte("ping"))
	b := make([]byte, 4)
	if _, err := io.ReadFull(c, b); err != nil || string(b) != "pong" {
		t.Fatalf("client read %q %v", b, err)
	}
	r := <-ch
	if r.err != nil {
		t.Fatalf("server: %v", r.err)
	}
	if r.resumed != c.ConnectionState().DidResume {
		t.Fatalf("the two ends disagree about resumption")
	}
	return r.resumed
}

// A: the keys the operator removed with SetSessionTicketKeys keep working (and keep being used for new
// tickets) on the Config that GetConfigForClient returns.
func TestC16GetConfigTicketKeysRotationIgnored(t *testing.T) {
	p := c16NewPKI(t)
	inner := p.server()
	outer := &gmtls.Config{GMSupport: &gmtls.GMSupport{},
		GetConfigForClient: func(*gmtls.ClientHelloInfo) (*gmtls.Config, error) { return inner, nil }}
	outer.SetSessionTicketKeys([][32]byte{{1}})
	cl := p.client(gmtls.NewLRUClientSessionCache(1))

	if c16Connect(t, cl, outer) {
		t.Fatal("first connection resumed?")
	}
	outer.SetSessionTicketKeys([][32]byte{{2}}) // key {1} is no longer configured anywhere
	if c16Connect(t, cl, outer) {
		t.Errorf("resumed a ticket that was issued under a key removed by SetSessionTicketKeys")
	}
	// and the tickets issued from now on are still sealed with the removed key: a fresh server that
	// knows only key {2} cannot resume them, one that knows only the removed key {1} can
	cl2 := p.client(gmtls.NewLRUClientSessionCache(1))
	c16Connect(t, cl2, outer)
	onlyOld := p.server()
	onlyOld.SetSessionTicketKeys([][32]byte{{1}})
	if c16Connect(t, cl2, onlyOld) {
		t.Errorf("after the rotation new tickets are still issued under the removed key")
	}
}

// B: Config.SessionTicketKey of the Config returned by GetConfigForClient is ignored, against the
// documentation of GetConfigForClient ("duplicated from the original Config if not set") and of
// SessionTicketKey ("multiple servers ... should all have the same SessionTicketKey").
func TestC16GetConfigTicketKeysExplicitKeyIgnored(t *testing.T) {
	p := c16NewPKI(t)
	key := [32]byte{7, 7, 7}
	inner := p.server()
	inner.SessionTicketKey = key
	outer := &gmtls.Config{GMSupport: &gmtls.GMSupport{},
		GetConfigForClient: func(*gmtls.ClientHelloInfo) (*gmtls.Config, error) { return inner, nil }}
	plain := p.server() // a second listener of the same service, same settings, same key
	plain.SessionTicketKey = key
	cl := p.client(gmtls.NewLRUClientSessionCache(1))

	c16Connect(t, cl, plain)
	if !c16Connect(t, cl, outer) {
		t.Errorf("ticket of a server with the same SessionTicketKey and the same settings not resumed")
	}
}

// C: replacing the explicit key of the returned Config (a new Config with a new SessionTicketKey, the
// only way since a returned Config may not be modified) revokes nothing.
func TestC16GetConfigTicketKeysExplicitKeyReplaced(t *testing.T) {
	p := c16NewPKI(t)
	cur := p.server()
	cur.SessionTicketKey = [32]byte{1}
	outer := &gmtls.Config{GMSupport: &gmtls.GMSupport{},
		GetConfigForClient: func(*gmtls.ClientHelloInfo) (*gmtls.Config, error) { return cur, nil }}
	cl := p.client(gmtls.NewLRUClientSessionCache(1))

	c16Connect(t, cl, outer)
	next := p.server()
	next.SessionTicketKey = [32]byte{2}
	cur = next
	if c16Connect(t, cl, outer) {
		t.Errorf("resumed although the SessionTicketKey the ticket was issued with is no longer configured")
	}
}
