package x509

// Place in /tmp/wt11/C09/x509/ and run:
//   go test -vet=off -count=1 -run TestC09FromX509 ./x509/

import (
	"crypto/ecdsa"
	"crypto/elliptic"
	"crypto/rand"
	"crypto/x509/pkix"
	"math/big"
	"testing"
	"time"

	"github.com/tjfoc/gmsm/sm2"
)

func TestC09FromX509(t *testing.T) {
	eck, _ := ecdsa.GenerateKey(elliptic.P256(), rand.Reader)
	pub := &sm2.PublicKey{Curve: eck.Curve, X: eck.X, Y: eck.Y}
	tmpl := &Certificate{SerialNumber: big.NewInt(1), Subject: pkix.Name{CommonName: "ca"},
		NotBefore: time.Unix(1e9, 0), NotAfter: time.Unix(2e9, 0),
		BasicConstraintsValid: true, IsCA: true, KeyUsage: KeyUsageCertSign,
		ExtKeyUsage: []ExtKeyUsage{ExtKeyUsageServerAuth}}
	der, err := CreateCertificate(tmpl, tmpl, pub, eck) // NIST-curve signer, algorithm left to default
	if err != nil {
		t.Fatal(err)
	}
	c, err := ParseCertificate(der)
	if err != nil {
		t.Fatal(err)
	}
	if err := c.CheckSignatureFrom(c); err != nil {
		t.Fatal(err)
	}
	std, err := ParseSm2CertifateToX509(der) // = ParseCertificate + ToX509Certificate
	if err != nil {
		t.Fatal(err)
	}
	if err := std.CheckSignatureFrom(std); err != nil {
		t.Fatalf("crypto/x509 view: %v", err)
	}
	var back Certificate
	back.FromX509Certificate(std)
	if back.SignatureAlgorithm != c.SignatureAlgorithm {
		t.Errorf("SignatureAlgorithm %v became %v", c.SignatureAlgorithm, back.SignatureAlgorithm)
	}
	if err := back.CheckSignatureFrom(&back); err != nil {
		t.Errorf("the certificate no longer verifies under its issuer: %v", err)
	}
	back.FromX509Certificate(std) // second call on the same object
	if len(back.ExtKeyUsage) != len(c.ExtKeyUsage) {
		t.Errorf("ExtKeyUsage %v became %v", c.ExtKeyUsage, back.ExtKeyUsage)
	}
}
