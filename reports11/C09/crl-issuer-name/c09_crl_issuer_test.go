package x509

// Place in /tmp/wt11/C09/x509/ and run:
//   go test -vet=off -count=1 -run TestC09CRLIssuerName ./x509/
//
// A CA certificate is created by the package (subject with attributes outside the fixed
// pkix.Name set, given through ExtraNames, or simply in an order of its own), parsed back, and
// then used - as every caller has to - as the issuer of a CRL. The CRL that CreateRevocationList
// / CreateCRL produce names another issuer than the certificate whose key signed it.

import (
	"bytes"
	"crypto/rand"
	"crypto/x509/pkix"
	"encoding/asn1"
	"math/big"
	"testing"
	"time"

	"github.com/tjfoc/gmsm/sm2"
)

func TestC09CRLIssuerName(t *testing.T) {
	priv, err := sm2.GenerateKey(rand.Reader)
	if err != nil {
		t.Fatal(err)
	}
	subjects := map[string]pkix.Name{
		"extra attributes (emailAddress, DC)": {
			CommonName: "ca",
			ExtraNames: []pkix.AttributeTypeAndValue{
				{Type: asn1.ObjectIdentifier{1, 2, 840, 113549, 1, 9, 1}, Value: "ca@example.com"},
				{Type: asn1.ObjectIdentifier{0, 9, 2342, 19200300, 100, 1, 25}, Value: "example"},
			},
		},
		"standard attributes only, CN before O": {
			ExtraNames: []pkix.AttributeTypeAndValue{
				{Type: asn1.ObjectIdentifier{2, 5, 4, 3}, Value: "ca"},
				{Type: asn1.ObjectIdentifier{2, 5, 4, 10}, Value: "org"},
			},
		},
	}
	for name, subj := range subjects {
		tmpl := &Certificate{
			SerialNumber:          big.NewInt(1),
			Subject:               subj,
			NotBefore:             time.Unix(1000000000, 0),
			NotAfter:              time.Unix(2000000000, 0),
			KeyUsage:              KeyUsageCertSign | KeyUsageCRLSign,
			BasicConstraintsValid: true,
			IsCA:                  true,
			SubjectKeyId:          []byte{1, 2, 3, 4},
		}
		der, err := CreateCertificate(tmpl, tmpl, &priv.PublicKey, priv)
		if err != nil {
			t.Fatal(err)
		}
		ca, err := ParseCertificate(der)
		if err != nil {
			t.Fatal(err)
		}

		crlDER, err := CreateRevocationList(rand.Reader, &RevocationList{
			Number:     big.NewInt(1),
			ThisUpdate: time.Unix(1500000000, 0),
			NextUpdate: time.Unix(1600000000, 0),
		}, ca, priv)
		if err != nil {
			t.Fatal(err)
		}
		crl, err := ParseCRL(crlDER)
		if err != nil {
			t.Fatal(err)
		}
		if err := ca.CheckCRLSignature(crl); err != nil {
			t.Fatal(err)
		}
		got, _ := asn1.Marshal(crl.TBSCertList.Issuer)
		if !bytes.Equal(got, ca.RawSubject) {
			t.Errorf("%s: CreateRevocationList: CRL issuer is not the subject of the issuing certificate\n  CRL issuer: %v\n  CA subject: %v",
				name, crl.TBSCertList.Issuer, ca.Subject.Names)
		}

		crlDER, err = ca.CreateCRL(rand.Reader, priv, nil, time.Unix(1500000000, 0), time.Unix(1600000000, 0))
		if err != nil {
			t.Fatal(err)
		}
		crl, err = ParseCRL(crlDER)
		if err != nil {
			t.Fatal(err)
		}
		got, _ = asn1.Marshal(crl.TBSCertList.Issuer)
		if !bytes.Equal(got, ca.RawSubject) {
			t.Errorf("%s: CreateCRL: CRL issuer is not the subject of the issuing certificate\n  CRL issuer: %v\n  CA subject: %v",
				name, crl.TBSCertList.Issuer, ca.Subject.Names)
		}

		// the certificate path of the same package does it right: the issuer of an issued
		// certificate is the parent's subject, byte for byte
		leaf, err := CreateCertificate(&Certificate{SerialNumber: big.NewInt(2), Subject: pkix.Name{CommonName: "leaf"},
			NotBefore: time.Unix(1000000000, 0), NotAfter: time.Unix(2000000000, 0)}, ca, &priv.PublicKey, priv)
		if err != nil {
			t.Fatal(err)
		}
		lc, err := ParseCertificate(leaf)
		if err != nil {
			t.Fatal(err)
		}
		if !bytes.Equal(lc.RawIssuer, ca.RawSubject) {
			t.Errorf("%s: certificate issuer differs too", name)
		}
	}
}
