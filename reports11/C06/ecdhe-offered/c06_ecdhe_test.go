package gmtls

// C06: a GMSSL client offers the ECDHE-SM2 suites by default although it cannot complete any
// ECDHE handshake. Place this file in gmtls/ and run
//
//	go test -vet=off -count=1 -run 'TestC06Ecdhe' ./gmtls/
//
// (needs the loopback interface: unshare -n sh -c "ip link set lo up; go test ...")

import (
	"crypto/elliptic"
	"crypto/rand"
	"crypto/x509/pkix"
	"fmt"
	"math/big"
	"net"
	"strings"
	"testing"
	"time"

	"github.com/tjfoc/gmsm/sm2"
	"github.com/tjfoc/gmsm/x509"
)

type c06ca struct {
	key  *sm2.PrivateKey
	cert *x509.Certificate
}

func c06newCA(t *testing.T) *c06ca {
	k, err := sm2.GenerateKey(rand.Reader)
	if err != nil {
		t.Fatal(err)
	}
	tmpl := &x509.Certificate{
		SerialNumber: big.NewInt(1), Subject: pkix.Name{CommonName: "c06 root"},
		NotBefore: time.Now().Add(-time.Hour), NotAfter: time.Now().Add(time.Hour),
		KeyUsage: x509.KeyUsageCertSign, BasicConstraintsValid: true, IsCA: true, SignatureAlgorithm: x509.SM2WithSM3,
	}
	der, err := x509.CreateCertificate(tmpl, tmpl, &k.PublicKey, k)
	if err != nil {
		t.Fatal(err)
	}
	c, err := x509.ParseCertificate(der)
	if err != nil {
		t.Fatal(err)
	}
	return &c06ca{k, c}
}

func (ca *c06ca) issue(t *testing.T, serial int64, ku x509.KeyUsage) Certificate {
	k, err := sm2.GenerateKey(rand.Reader)
	if err != nil {
		t.Fatal(err)
	}
	tmpl := &x509.Certificate{
		SerialNumber: big.NewInt(serial), Subject: pkix.Name{CommonName: "server.c06.test"}, DNSNames: []string{"server.c06.test"},
		NotBefore: time.Now().Add(-time.Hour), NotAfter: time.Now().Add(time.Hour),
		KeyUsage: ku, SignatureAlgorithm: x509.SM2WithSM3,
	}
	der, err := x509.CreateCertificate(tmpl, ca.cert, &k.PublicKey, ca.key)
	if err != nil {
		t.Fatal(err)
	}
	return Certificate{Certificate: [][]byte{der}, PrivateKey: k}
}

func c06pair(t *testing.T) (net.Conn, net.Conn) {
	l, err := net.Listen("tcp", "127.0.0.1:0")
	if err != nil {
		t.Fatal(err)
	}
	defer l.Close()
	ch := make(chan net.Conn, 1)
	go func() { c, _ := l.Accept(); ch <- c }()
	c, err := net.Dial("tcp", l.Addr().String())
	if err != nil {
		t.Fatal(err)
	}
	return c, <-ch
}

// A GM/T 0024 server that supports ECC and ECDHE and - as a server is free to do - prefers ECDHE
// when the client offers it. Only the peer is scripted; the client under test uses the public API
// with its default cipher suites.
func c06ecdhePreferringServer(s *Conn, sig, enc Certificate, curveID uint16) (offered []uint16, selected uint16, err error) {
	s.in.Lock()
	defer s.in.Unlock()
	msg, err := s.readHandshake()
	if err != nil {
		return nil, 0, err
	}
	ch, ok := msg.(*clientHelloMsg)
	if !ok {
		return nil, 0, fmt.Errorf("no ClientHello")
	}
	offered = ch.cipherSuites
	selected = GMTLS_ECC_SM4_CBC_SM3
	for _, id := range ch.cipherSuites {
		if id == GMTLS_ECDHE_SM4_CBC_SM3 {
			selected = id // server preference: forward secrecy first
		}
	}
	if selected == GMTLS_ECC_SM4_CBC_SM3 {
		// no ECDHE on offer: serve the ECC suite (the library's own server code does that)
		hs := &serverHandshakeStateGM{c: s, clientHello: ch}
		isResume, err := processClientHelloGM(s, hs)
		if err == nil {
			err = runServerHandshakeGM(s, hs, isResume)
		}
		return offered, selected, err
	}
	s.vers, s.haveVers = VersionGMSSL, true
	sh := &serverHelloMsg{vers: VersionGMSSL, random: make([]byte, 32), cipherSuite: selected, compressionMethod: compressionNone}
	rand.Read(sh.random)
	s.buffering = true
	s.writeRecord(recordTypeHandshake, sh.marshal())
	s.writeRecord(recordTypeHandshake, (&certificateMsg{certificates: [][]byte{sig.Certificate[0], enc.Certificate[0]}}).marshal())

	// ServerKeyExchange of the ECDHE suites (GM/T 0024 6.4.5.4): ServerECDHEParams, and the SM2
	// signature of client_random | server_random | ServerECDHEParams
	curve := sm2.P256Sm2()
	_, x, y, _ := elliptic.GenerateKey(curve, rand.Reader)
	pt := elliptic.Marshal(curve, x, y)
	params := append([]byte{3, byte(curveID >> 8), byte(curveID), byte(len(pt))}, pt...)
	tbs := append(append(append([]byte{}, ch.random...), sh.random...), params...)
	sigBytes, err := sig.PrivateKey.(*sm2.PrivateKey).Sign(rand.Reader, tbs, nil)
	if err != nil {
		return offered, selected, err
	}
	skx := &serverKeyExchangeMsg{key: append(append(append([]byte{}, params...), byte(len(sigBytes)>>8), byte(len(sigBytes))), sigBytes...)}
	s.writeRecord(recordTypeHandshake, skx.marshal())
	// ECDHE needs the client's certificate
	s.writeRecord(recordTypeHandshake, (&certificateRequestMsgGM{certificateTypes: []byte{certTypeRSASign, certTypeECDSASign}}).marshal())
	s.writeRecord(recordTypeHandshake, new(serverHelloDoneMsg).marshal())
	if _, err := s.flush(); err != nil {
		return offered, selected, err
	}
	// what does the client answer?
	_, err = s.readHandshake()
	return offered, selected, err
}

func TestC06EcdheOfferedButNeverCompleted(t *testing.T) {
	ca := c06newCA(t)
	sig := ca.issue(t, 2, x509.KeyUsageDigitalSignature)
	enc := ca.issue(t, 3, x509.KeyUsageKeyEncipherment|x509.KeyUsageDataEncipherment|x509.KeyUsageKeyAgreement)
	cli := ca.issue(t, 4, x509.KeyUsageDigitalSignature)
	pool := x509.NewCertPool()
	pool.AddCert(ca.cert)

	newClientCfg := func() *Config {
		// a correctly configured client: default cipher suites, trusted root, its own certificate
		return &Config{GMSupport: NewGMSupport(), RootCAs: pool, ServerName: "server.c06.test", Certificates: []Certificate{cli}}
	}

	// control: the same client and the library's own server (which never selects ECDHE) complete
	{
		cc, sc := c06pair(t)
		srv := Server(sc, &Config{GMSupport: NewGMSupport(), Certificates: []Certificate{sig, enc}})
		go srv.Handshake()
		c := Client(cc, newClientCfg())
		if err := c.Handshake(); err != nil {
			t.Fatalf("control handshake failed: %v", err)
		}
		if cs := c.ConnectionState().CipherSuite; cs != GMTLS_ECC_SM4_CBC_SM3 {
			t.Fatalf("control: suite %x", cs)
		}
		cc.Close()
		sc.Close()
	}

	// 23 = secp256r1, 41 = curveSM2 (RFC 8998), 249 = the private-use value of older GM stacks
	for _, curveID := range []uint16{41, 249, 23} {
		cc, sc := c06pair(t)
		type res struct {
			offered  []uint16
			selected uint16
			err      error
		}
		ch := make(chan res, 1)
		go func() {
			o, s, err := c06ecdhePreferringServer(Server(sc, &Config{Certificates: []Certificate{sig, enc}}), sig, enc, curveID)
			ch <- res{o, s, err}
		}()
		c := Client(cc, newClientCfg())
		cc.SetDeadline(time.Now().Add(10 * time.Second))
		sc.SetDeadline(time.Now().Add(10 * time.Second))
		err := c.Handshake()
		r := <-ch
		cc.Close()
		sc.Close()
		t.Logf("curve id %d: client offered %x, server selected %x, client: %v, server saw: %v", curveID, r.offered, r.selected, err, r.err)
		offeredECC, offeredECDHE := false, false
		for _, id := range r.offered {
			offeredECC = offeredECC || id == GMTLS_ECC_SM4_CBC_SM3
			offeredECDHE = offeredECDHE || id == GMTLS_ECDHE_SM4_CBC_SM3
		}
		if !offeredECC {
			t.Fatalf("client did not offer ECC_SM4_CBC_SM3")
		}
		if !offeredECDHE && (err != nil || r.err != nil) {
			t.Errorf("curve id %d: ECC handshake failed: client %v, server %v", curveID, err, r.err)
		}
		if offeredECDHE && err != nil {
			t.Errorf("curve id %d: the client offered ECDHE_SM4_CBC_SM3 (0xe011) by default, the server selected it, and the client "+
				"then refused the handshake (%v) although both ends support ECC_SM4_CBC_SM3", curveID, err)
		}
	}
}

// No named_curve value at all gets past the client's ServerKeyExchange check: the suites it
// offers can never be completed, whatever the peer sends.
func TestC06EcdheNoCurveAccepted(t *testing.T) {
	hello, err := makeClientHelloGM(&Config{GMSupport: NewGMSupport(), InsecureSkipVerify: true})
	if err != nil {
		t.Fatal(err)
	}
	offersECDHE := false
	for _, id := range hello.cipherSuites {
		if id == GMTLS_ECDHE_SM4_CBC_SM3 || id == GMTLS_ECDHE_SM4_GCM_SM3 {
			offersECDHE = true
		}
	}
	if !offersECDHE {
		t.Skip("the default ClientHello does not offer the ECDHE suites")
	}
	ca := c06newCA(t)
	sig := ca.issue(t, 2, x509.KeyUsageDigitalSignature)
	leaf, _ := x509.ParseCertificate(sig.Certificate[0])
	curve := sm2.P256Sm2()
	_, x, y, _ := elliptic.GenerateKey(curve, rand.Reader)
	pt := elliptic.Marshal(curve, x, y)
	ch := &clientHelloMsg{random: make([]byte, 32)}
	sh := &serverHelloMsg{random: make([]byte, 32)}
	accepted := 0
	for id := 0; id < 1<<16; id++ {
		params := append([]byte{3, byte(id >> 8), byte(id), byte(len(pt))}, pt...)
		digest := sha1Hash([][]byte{ch.random, sh.random, params}) // what this client would verify
		sigBytes, _ := sig.PrivateKey.(*sm2.PrivateKey).Sign(rand.Reader, digest, nil)
		skx := &serverKeyExchangeMsg{key: append(append(append([]byte{}, params...), byte(len(sigBytes)>>8), byte(len(sigBytes))), sigBytes...)}
		ka := ecdheGMKA(VersionGMSSL)
		err := ka.processServerKeyExchange(&Config{}, ch, sh, leaf, skx)
		if err == nil {
			accepted++
		} else if !strings.Contains(err.Error(), "unsupported curve") {
			t.Fatalf("curve %d: %v", id, err)
		}
	}
	if accepted == 0 {
		t.Errorf("ecdheKeyAgreementGM.processServerKeyExchange refuses every named_curve value 0..65535, " +
			"yet makeClientHelloGM offers GMTLS_ECDHE_SM4_CBC_SM3 / GMTLS_ECDHE_SM4_GCM_SM3 by default")
	}
}
