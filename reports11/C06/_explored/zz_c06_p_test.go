package gmtls_test

import (
	"testing"

	"github.com/tjfoc/gmsm/gmtls"
)

func TestPartialSupply(t *testing.T) {
	w := getWorld()
	up, down := payload(100, 1), payload(100, 2)
	isGM := func(i *gmtls.ClientHelloInfo) bool {
		for _, v := range i.SupportedVersions {
			if v == gmtls.VersionGMSSL {
				return true
			}
		}
		return false
	}
	type tc struct {
		name string
		cfg  func() *gmtls.Config
		gm   bool // expect GM client ok
		tls  bool // expect TLS client ok
	}
	auto := func() *gmtls.GMSupport { s := gmtls.NewGMSupport(); s.EnableMixMode(); return s }
	cases := []tc{
		{"gm static sig + KE callback", func() *gmtls.Config {
			return &gmtls.Config{GMSupport: gmtls.NewGMSupport(), Certificates: []gmtls.Certificate{w.sig},
				GetKECertificate: func(*gmtls.ClientHelloInfo) (*gmtls.Certificate, error) { return &w.enc, nil }}
		}, true, false},
		{"auto static sig + KE callback + GetCertificate(rsa for tls)", func() *gmtls.Config {
			return &gmtls.Config{GMSupport: auto(), Certificates: []gmtls.Certificate{w.sig},
				GetKECertificate: func(*gmtls.ClientHelloInfo) (*gmtls.Certificate, error) { return &w.enc, nil },
				GetCertificate: func(i *gmtls.ClientHelloInfo) (*gmtls.Certificate, error) {
					if isGM(i) {
						return nil, nil
					}
					return &w.rsaSrv, nil
				}}
		}, true, true},
		{"auto static rsa + callbacks for gm", func() *gmtls.Config {
			return &gmtls.Config{GMSupport: auto(), Certificates: []gmtls.Certificate{w.rsaSrv},
				GetKECertificate: func(*gmtls.ClientHelloInfo) (*gmtls.Certificate, error) { return &w.enc, nil },
				GetCertificate: func(i *gmtls.ClientHelloInfo) (*gmtls.Certificate, error) {
					if isGM(i) {
						return &w.sig, nil
					}
					return nil, nil
				}}
		}, true, true},
		{"auto static sig,enc,rsa + NameToCertificate", func() *gmtls.Config {
			c := &gmtls.Config{GMSupport: auto(), Certificates: []gmtls.Certificate{w.sig, w.enc, w.rsaSrv}}
			return c
		}, true, false},
	}
	for _, c := range cases {
		r := run(t, c.cfg(), gmClient(w), up, down, 0)
		if c.gm {
			checkOK(t, c.name+"/gm", r, up, down)
		} else {
			checkFail(t, c.name+"/gm", r)
		}
		r = run(t, c.cfg(), &gmtls.Config{RootCAs: w.std.gmPool(), ServerName: srvName}, up, down, 0)
		if c.tls {
			checkOK(t, c.name+"/tls", r, up, down)
		} else {
			checkFail(t, c.name+"/tls", r)
		}
	}
}
