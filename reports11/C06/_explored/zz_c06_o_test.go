package gmtls_test

import (
	"bytes"
	"fmt"
	"io"
	"sync"
	"testing"
	"time"

	"github.com/tjfoc/gmsm/gmtls"
)

// no explicit Handshake: Read and Write race to start it on both sides
func TestImplicitHandshake(t *testing.T) {
	w := getWorld()
	for iter := 0; iter < 30; iter++ {
		for _, mode := range []string{"gm", "auto-tls"} {
			var scfg, ccfg *gmtls.Config
			if mode == "gm" {
				scfg = gmServer(w, "gm")
				ccfg = gmClient(w)
			} else {
				scfg = serverFor(w, "auto", "c")
				ccfg = &gmtls.Config{RootCAs: w.std.gmPool(), ServerName: srvName, MaxVersion: gmtls.VersionTLS10}
			}
			up, down := payload(50000, 1), payload(70000, 2)
			cc, sc := tcpPair(t)
			client := gmtls.Client(cc, ccfg)
			server := gmtls.Server(sc, scfg)
			var wg sync.WaitGroup
			var cgot, sgot []byte
			var errs [4]error
			wg.Add(4)
			go func() { defer wg.Done(); errs[0] = writeFrag(client, up, 3000) }()
			go func() { defer wg.Done(); errs[1] = writeFrag(server, down, 1234) }()
			go func() { defer wg.Done(); cgot = make([]byte, len(down)); _, errs[2] = io.ReadFull(client, cgot) }()
			go func() { defer wg.Done(); sgot = make([]byte, len(up)); _, errs[3] = io.ReadFull(server, sgot) }()
			done := make(chan struct{})
			go func() { wg.Wait(); close(done) }()
			select {
			case <-done:
			case <-time.After(20 * time.Second):
				t.Fatalf("%s: timeout", mode)
			}
			nm := fmt.Sprintf("%s#%d", mode, iter)
			for i, e := range errs {
				if e != nil {
					t.Errorf("%s: err[%d]=%v", nm, i, e)
				}
			}
			if !bytes.Equal(cgot, down) || !bytes.Equal(sgot, up) {
				t.Errorf("%s: payload mismatch", nm)
			}
			cc.Close()
			sc.Close()
		}
	}
}
