package gmtls_test

import (
	"fmt"
	"sync"
	"testing"

	"github.com/tjfoc/gmsm/gmtls"
)

func TestConcurrent(t *testing.T) {
	w := getWorld()
	up, down := payload(5000, 1), payload(9000, 2)
	auto, _ := gmtls.NewBasicAutoSwitchConfig(&w.sig, &w.enc, &w.rsaSrv)
	auto.ClientAuth = gmtls.RequireAndVerifyClientCert
	auto.ClientCAs = bothPool(w)
	auto.CipherSuites = []uint16{gmtls.GMTLS_ECC_SM4_CBC_SM3, gmtls.GMTLS_ECC_SM4_GCM_SM3, gmtls.TLS_ECDHE_RSA_WITH_AES_128_GCM_SHA256, gmtls.TLS_ECDHE_RSA_WITH_AES_128_CBC_SHA}
	gmc := gmClient(w)
	gmc.Certificates = []gmtls.Certificate{w.cli}
	gmc.ClientSessionCache = gmtls.NewLRUClientSessionCache(2)
	tlsc := &gmtls.Config{RootCAs: w.std.gmPool(), ServerName: srvName, Certificates: []gmtls.Certificate{w.rsaCli}, ClientSessionCache: gmc.ClientSessionCache}
	var wg sync.WaitGroup
	for g := 0; g < 8; g++ {
		wg.Add(1)
		go func(g int) {
			defer wg.Done()
			for i := 0; i < 20; i++ {
				c := gmc
				if (g+i)%2 == 0 {
					c = tlsc
				}
				r := run(t, auto, c, up, down, 1000)
				checkOK(t, fmt.Sprintf("g%d#%d", g, i), r, up, down)
			}
		}(g)
	}
	wg.Wait()
}
