package gmtls_test

import (
	"bytes"
	"crypto/ecdsa"
	"crypto/rsa"
	stdx509 "crypto/x509"
	"encoding/pem"
	"fmt"
	"io"
	"net"
	"os"
	"os/exec"
	"path/filepath"
	"strings"
	"testing"
	"time"

	"github.com/tjfoc/gmsm/gmtls"
)

func writePEM(t *testing.T, dir, name, typ string, der []byte) string {
	p := filepath.Join(dir, name)
	if err := os.WriteFile(p, pem.EncodeToMemory(&pem.Block{Type: typ, Bytes: der}), 0600); err != nil {
		t.Fatal(err)
	}
	return p
}

func keyDER(k interface{}) []byte {
	switch k := k.(type) {
	case *rsa.PrivateKey:
		return stdx509.MarshalPKCS1PrivateKey(k)
	case *ecdsa.PrivateKey:
		d, _ := stdx509.MarshalPKCS8PrivateKey(k)
		return d
	}
	panic("key")
}

func freePort(t *testing.T) int {
	l, err := net.Listen("tcp", "127.0.0.1:0")
	if err != nil {
		t.Fatal(err)
	}
	defer l.Close()
	return l.Addr().(*net.TCPAddr).Port
}

// gmtls client against openssl s_server -rev (echoes lines reversed)
func TestOpenSSLServer(t *testing.T) {
	if _, err := exec.LookPath("openssl"); err != nil {
		t.Skip("no openssl")
	}
	w := getWorld()
	dir := t.TempDir()
	ca := writePEM(t, dir, "ca.pem", "CERTIFICATE", w.std.der)
	for _, kind := range []string{"rsa", "ec"} {
		srv, cli := w.rsaSrv, w.rsaCli
		ktyp := "RSA PRIVATE KEY"
		if kind == "ec" {
			srv, cli = w.ecSrv, w.ecCli
			ktyp = "PRIVATE KEY"
		}
		cert := writePEM(t, dir, kind+"cert.pem", "CERTIFICATE", srv.Certificate[0])
		key := writePEM(t, dir, kind+"key.pem", ktyp, keyDER(srv.PrivateKey))
		for _, v := range []struct {
			flag string
			vers uint16
		}{{"-tls1", gmtls.VersionTLS10}, {"-tls1_1", gmtls.VersionTLS11}, {"-tls1_2", gmtls.VersionTLS12}} {
			for _, auth := range []bool{false, true} {
				port := freePort(t)
				args := []string{"s_server", "-accept", fmt.Sprint(port), "-cert", cert, "-key", key, "-CAfile", ca, v.flag, "-cipher", "ALL:@SECLEVEL=0", "-rev", "-naccept", "2"}
				if auth {
					args = append(args, "-Verify", "2")
				}
				cmd := exec.Command("openssl", args...)
				var out bytes.Buffer
				cmd.Stdout, cmd.Stderr = &out, &out
				if err := cmd.Start(); err != nil {
					t.Fatal(err)
				}
				nm := fmt.Sprintf("openssl-server %s %s auth=%v", kind, v.flag, auth)
				ccfg := &gmtls.Config{RootCAs: w.std.gmPool(), ServerName: srvName, MaxVersion: v.vers, ClientSessionCache: gmtls.NewLRUClientSessionCache(1)}
				if auth {
					ccfg.Certificates = []gmtls.Certificate{cli}
				}
				for i := 0; i < 2; i++ {
					var conn *gmtls.Conn
					var err error
					for try := 0; try < 50; try++ {
						conn, err = gmtls.Dial("tcp", fmt.Sprintf("127.0.0.1:%d", port), ccfg)
						if err == nil || !strings.Contains(err.Error(), "refused") {
							break
						}
						time.Sleep(50 * time.Millisecond)
					}
					if err != nil {
						t.Errorf("%s #%d: dial: %v\n%s", nm, i, err, out.String())
						break
					}
					conn.SetDeadline(time.Now().Add(10 * time.Second))
					msg := strings.Repeat("abcdefghij", 1500)
					if _, err := conn.Write([]byte(msg + "\n")); err != nil {
						t.Errorf("%s #%d: write: %v", nm, i, err)
					}
					got := make([]byte, len(msg)+1)
					if _, err := io.ReadFull(conn, got); err != nil {
						t.Errorf("%s #%d: read: %v", nm, i, err)
					} else {
						rev := []byte(msg)
						for a, b := 0, len(rev)-1; a < b; a, b = a+1, b-1 {
							rev[a], rev[b] = rev[b], rev[a]
						}
						if string(got) != string(rev)+"\n" {
							t.Errorf("%s #%d: echo mismatch", nm, i)
						}
					}
					st := conn.ConnectionState()
					t.Logf("%s #%d: vers=%x suite=%x resumed=%v", nm, i, st.Version, st.CipherSuite, st.DidResume)
					conn.Close()
				}
				done := make(chan struct{})
				go func() { cmd.Wait(); close(done) }()
				select {
				case <-done:
				case <-time.After(3 * time.Second):
					cmd.Process.Kill()
					<-done
				}
			}
		}
	}
}

// openssl s_client against a gmtls server
func TestOpenSSLClient(t *testing.T) {
	if _, err := exec.LookPath("openssl"); err != nil {
		t.Skip("no openssl")
	}
	w := getWorld()
	dir := t.TempDir()
	ca := writePEM(t, dir, "ca.pem", "CERTIFICATE", w.std.der)
	ccert := writePEM(t, dir, "ccert.pem", "CERTIFICATE", w.ecCli.Certificate[0])
	ckey := writePEM(t, dir, "ckey.pem", "PRIVATE KEY", keyDER(w.ecCli.PrivateKey))
	for _, smode := range []string{"tlsrsa", "tlsec", "auto"} {
		for _, v := range []string{"-tls1", "-tls1_1", "-tls1_2"} {
			for _, auth := range []gmtls.ClientAuthType{0, 4} {
				scfg := serverFor(w, smode, "c")
				scfg.ClientAuth = auth
				l, err := net.Listen("tcp", "127.0.0.1:0")
				if err != nil {
					t.Fatal(err)
				}
				port := l.Addr().(*net.TCPAddr).Port
				type res struct {
					got []byte
					err error
					st  gmtls.ConnectionState
				}
				ch := make(chan res, 1)
				go func() {
					c, err := l.Accept()
					if err != nil {
						ch <- res{err: err}
						return
					}
					s := gmtls.Server(c, scfg)
					s.SetDeadline(time.Now().Add(10 * time.Second))
					buf := make([]byte, 6)
					_, err = io.ReadFull(s, buf)
					if err == nil {
						_, err = s.Write([]byte("world!\n"))
					}
					st := s.ConnectionState()
					s.Close()
					ch <- res{buf, err, st}
				}()
				args := []string{"s_client", "-connect", fmt.Sprintf("127.0.0.1:%d", port), "-CAfile", ca, "-servername", srvName, v, "-cipher", "ALL:@SECLEVEL=0", "-quiet", "-verify_return_error"}
				if auth != 0 {
					args = append(args, "-cert", ccert, "-key", ckey)
				}
				cmd := exec.Command("openssl", args...)
				cmd.Stdin = strings.NewReader("hello\n")
				var out bytes.Buffer
				cmd.Stdout, cmd.Stderr = &out, &out
				cmd.Start()
				r := <-ch
				done := make(chan struct{})
				go func() { cmd.Wait(); close(done) }()
				select {
				case <-done:
				case <-time.After(3 * time.Second):
					cmd.Process.Kill()
					<-done
				}
				l.Close()
				nm := fmt.Sprintf("openssl-client %s %s auth=%d", smode, v, auth)
				if r.err != nil || string(r.got) != "hello\n" || !strings.Contains(out.String(), "world!") {
					t.Errorf("%s: err=%v got=%q out=%q", nm, r.err, r.got, out.String())
				} else {
					t.Logf("%s: vers=%x suite=%x", nm, r.st.Version, r.st.CipherSuite)
				}
			}
		}
	}
}
