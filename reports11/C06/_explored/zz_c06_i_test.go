package gmtls_test

import (
	"fmt"
	"testing"

	"github.com/tjfoc/gmsm/gmtls"
)

func TestSoak(t *testing.T) {
	w := getWorld()
	up, down := payload(33, 1), payload(17, 2)
	s := serverFor(w, "gm", "s")
	s.ClientAuth = gmtls.RequireAndVerifyClientCert
	c := gmClient(w)
	c.Certificates = []gmtls.Certificate{w.cli}
	fails := 0
	for i := 0; i < 4000 && fails < 5; i++ {
		if i%2 == 0 {
			c.CipherSuites = []uint16{gmtls.GMTLS_ECC_SM4_CBC_SM3}
		} else {
			c.CipherSuites = []uint16{gmtls.GMTLS_ECC_SM4_GCM_SM3}
		}
		r := run(t, s, c, up, down, 0)
		if !checkOK(t, fmt.Sprintf("soak#%d", i), r, up, down) {
			fails++
		}
	}
}
