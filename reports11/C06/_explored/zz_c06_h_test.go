package gmtls_test

import (
	"fmt"
	"testing"

	"github.com/tjfoc/gmsm/gmtls"
)

func TestVersionCaps(t *testing.T) {
	w := getWorld()
	up, down := payload(100, 1), payload(100, 2)
	vers := []uint16{0, gmtls.VersionTLS10, gmtls.VersionTLS11, gmtls.VersionTLS12}
	for _, smode := range []string{"tlsrsa", "tlsec", "auto"} {
		for _, smin := range vers {
			for _, smax := range vers {
				if smax != 0 && smin > smax {
					continue
				}
				for _, cmax := range vers {
					for _, pref := range []bool{false, true} {
						scfg := serverFor(w, smode, "c")
						scfg.MinVersion, scfg.MaxVersion = smin, smax
						scfg.PreferServerCipherSuites = pref
						ccfg := &gmtls.Config{RootCAs: w.std.gmPool(), ServerName: srvName, MaxVersion: cmax}
						ce := cmax
						if ce == 0 {
							ce = gmtls.VersionTLS12
						}
						se := smax
						if se == 0 {
							se = gmtls.VersionTLS12
						}
						want := ce
						if se < want {
							want = se
						}
						ok := want >= smin || smin == 0
						if smode == "auto" && smin > gmtls.VersionGMSSL {
							// known: MinVersion on an auto server
						}
						r := run(t, scfg, ccfg, up, down, 0)
						nm := fmt.Sprintf("%s smin=%x smax=%x cmax=%x pref=%v", smode, smin, smax, cmax, pref)
						if ok {
							if checkOK(t, nm, r, up, down) && r.c.state.Version != want {
								t.Errorf("%s: version %x want %x", nm, r.c.state.Version, want)
							}
						} else {
							checkFail(t, nm, r)
						}
					}
				}
			}
		}
	}
}
