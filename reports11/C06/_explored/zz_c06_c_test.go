package gmtls_test

import (
	"fmt"
	"testing"

	"github.com/tjfoc/gmsm/gmtls"
)

func TestGMResume(t *testing.T) {
	w := getWorld()
	up, down := payload(1500, 3), payload(40000, 4)
	for _, smode := range []string{"gm", "auto"} {
		for _, suite := range []uint16{gmtls.GMTLS_ECC_SM4_CBC_SM3, gmtls.GMTLS_ECC_SM4_GCM_SM3} {
			for auth := gmtls.NoClientCert; auth <= gmtls.RequireAndVerifyClientCert; auth++ {
				for _, ccert := range []string{"none", "good", "goodcb", "badcb"} {
					scfg := serverFor(w, smode, "s")
					scfg.ClientAuth = auth
					scfg.CipherSuites = []uint16{suite, gmtls.TLS_ECDHE_RSA_WITH_AES_128_GCM_SHA256}
					ccfg := gmClient(w)
					ccfg.ClientSessionCache = gmtls.NewLRUClientSessionCache(4)
					var cert *gmtls.Certificate
					trusted := false
					switch ccert {
					case "good", "goodcb":
						cert, trusted = &w.cli, true
					case "badcb":
						cert = &w.cliOther
					}
					if cert != nil {
						if ccert == "goodcb" || ccert == "badcb" {
							cc := cert
							ccfg.GetClientCertificate = func(*gmtls.CertificateRequestInfo) (*gmtls.Certificate, error) { return cc, nil }
						} else {
							ccfg.Certificates = []gmtls.Certificate{*cert}
						}
					}
					expectOK := true
					switch auth {
					case gmtls.RequireAnyClientCert:
						expectOK = expectOK && cert != nil
					case gmtls.VerifyClientCertIfGiven:
						expectOK = expectOK && (cert == nil || trusted)
					case gmtls.RequireAndVerifyClientCert:
						expectOK = expectOK && cert != nil && trusted
					}
					for i := 0; i < 3; i++ {
						nm := fmt.Sprintf("%s/%x/auth%d/%s#%d", smode, suite, auth, ccert, i)
						r := run(t, scfg, ccfg, up, down, 999)
						if expectOK {
							if checkOK(t, nm, r, up, down) {
								if i > 0 && !r.c.state.DidResume {
									t.Errorf("%s: not resumed", nm)
								}
								if r.c.state.DidResume != r.s.state.DidResume {
									t.Errorf("%s: resume disagreement", nm)
								}
								wantPeer := 0
								if cert != nil && auth != gmtls.NoClientCert {
									wantPeer = 1
								}
								if len(r.s.state.PeerCertificates) != wantPeer {
									t.Errorf("%s: server sees %d peer certs, want %d", nm, len(r.s.state.PeerCertificates), wantPeer)
								}
								if len(r.c.state.PeerCertificates) != 2 {
									t.Errorf("%s: client sees %d peer certs", nm, len(r.c.state.PeerCertificates))
								}
							}
						} else {
							checkFail(t, nm, r)
						}
					}
				}
			}
		}
	}
}
