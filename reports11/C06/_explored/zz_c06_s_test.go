package gmtls_test

import (
	"io"
	"net"
	"net/http"
	"testing"

	"github.com/tjfoc/gmsm/gmtls"
)

func TestHTTPSDefaultPort(t *testing.T) {
	w := getWorld()
	inner, err := net.Listen("tcp", "127.0.0.1:443")
	if err != nil {
		t.Skip(err)
	}
	ln := gmtls.NewListener(inner, gmServer(w, "gm"))
	defer ln.Close()
	go http.Serve(ln, http.HandlerFunc(func(wr http.ResponseWriter, r *http.Request) { wr.Write([]byte("ok")) }))
	cfg := gmClient(w)
	for _, mk := range []string{"simple", "custom"} {
		var cl *http.Client
		if mk == "simple" {
			cl = &http.Client{Transport: gmtls.NewSimpleRoundTripper(cfg)}
		} else {
			cl = gmtls.NewCustomHTTPSClient(cfg)
		}
		resp, err := cl.Get("https://127.0.0.1/")
		if err != nil {
			t.Errorf("%s: %v", mk, err)
			continue
		}
		b, _ := io.ReadAll(resp.Body)
		resp.Body.Close()
		t.Logf("%s: %q", mk, b)
	}
}
