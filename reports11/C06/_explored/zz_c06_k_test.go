package gmtls_test

import (
	"bytes"
	stdtls "crypto/tls"
	"fmt"
	"testing"

	"github.com/tjfoc/gmsm/gmtls"
)

func TestStdResume(t *testing.T) {
	w := getWorld()
	up, down := payload(2000, 5), payload(3333, 6)
	for _, vers := range []uint16{stdtls.VersionTLS10, stdtls.VersionTLS11, stdtls.VersionTLS12} {
		for _, auth := range []int{0, 1, 2, 3, 4} {
			for _, smode := range []string{"tls", "auto"} {
				var scfg *gmtls.Config
				if smode == "tls" {
					scfg = &gmtls.Config{Certificates: []gmtls.Certificate{w.rsaSrv}}
				} else {
					scfg, _ = gmtls.NewBasicAutoSwitchConfig(&w.sig, &w.enc, &w.rsaSrv)
				}
				scfg.ClientAuth = gmtls.ClientAuthType(auth)
				scfg.ClientCAs = bothPool(w)
				ccfg := &stdtls.Config{RootCAs: w.std.stdPool(), ServerName: srvName, MinVersion: vers, MaxVersion: vers,
					ClientSessionCache: stdtls.NewLRUClientSessionCache(2), Certificates: []stdtls.Certificate{w.ecCliStd}}
				for i := 0; i < 3; i++ {
					cc, sc := tcpPair(t)
					client := stdtls.Client(cc, ccfg)
					server := gmtls.Server(sc, scfg)
					r := drive2(client, server, func() { cc.Close() }, func() { sc.Close() }, up, down, 500)
					nm := fmt.Sprintf("std->gm(%s) v%x auth%d #%d", smode, vers, auth, i)
					if r.timeout || r.cerr != nil || r.serr != nil || r.cpanic != nil || r.span != nil {
						t.Errorf("%s: %v", nm, r)
					} else if !bytes.Equal(r.cgot, down) || !bytes.Equal(r.sgot, up) {
						t.Errorf("%s: payload mismatch", nm)
					} else {
						cs, ss := client.ConnectionState(), server.ConnectionState()
						if cs.Version != ss.Version || cs.CipherSuite != ss.CipherSuite || cs.DidResume != ss.DidResume {
							t.Errorf("%s: disagreement", nm)
						}
						if i > 0 && !cs.DidResume {
							t.Logf("%s: note not resumed", nm)
						}
						want := 1
						if auth == 0 {
							want = 0
						}
						if len(ss.PeerCertificates) != want {
							t.Errorf("%s: server sees %d client certs", nm, len(ss.PeerCertificates))
						}
					}
					client.Close()
					cc.Close()
					sc.Close()
				}
			}
			// gmtls client -> std server
			scfg := &stdtls.Config{Certificates: []stdtls.Certificate{w.rsaSrvStd}, MinVersion: vers, MaxVersion: vers,
				ClientAuth: stdtls.ClientAuthType(auth), ClientCAs: w.std.stdPool()}
			ccfg := &gmtls.Config{RootCAs: w.std.gmPool(), ServerName: srvName, MaxVersion: vers, Certificates: []gmtls.Certificate{w.rsaCli},
				ClientSessionCache: gmtls.NewLRUClientSessionCache(2)}
			for i := 0; i < 3; i++ {
				cc, sc := tcpPair(t)
				client := gmtls.Client(cc, ccfg)
				server := stdtls.Server(sc, scfg)
				r := drive2(client, server, func() { cc.Close() }, func() { sc.Close() }, up, down, 500)
				nm := fmt.Sprintf("gm->std v%x auth%d #%d", vers, auth, i)
				if r.timeout || r.cerr != nil || r.serr != nil || r.cpanic != nil || r.span != nil {
					t.Errorf("%s: %v", nm, r)
				} else if !bytes.Equal(r.cgot, down) || !bytes.Equal(r.sgot, up) {
					t.Errorf("%s: payload mismatch", nm)
				} else {
					cs, ss := client.ConnectionState(), server.ConnectionState()
					if cs.Version != ss.Version || cs.CipherSuite != ss.CipherSuite || cs.DidResume != ss.DidResume {
						t.Errorf("%s: disagreement", nm)
					}
					if i > 0 && !cs.DidResume {
						t.Logf("%s: note not resumed", nm)
					}
				}
				cc.Close()
				sc.Close()
			}
		}
	}
}
