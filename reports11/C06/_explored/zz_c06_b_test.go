package gmtls_test

import (
	"bytes"
	"fmt"
	"testing"

	"github.com/tjfoc/gmsm/gmtls"
	"github.com/tjfoc/gmsm/x509"
)

func bothPool(w *world) *x509.CertPool {
	p := x509.NewCertPool()
	p.AddCert(w.root.cert)
	c, _ := x509.ParseCertificate(w.std.der)
	p.AddCert(c)
	return p
}

func serverFor(w *world, smode string, supply string) *gmtls.Config {
	var cfg *gmtls.Config
	switch smode {
	case "gm":
		cfg = &gmtls.Config{GMSupport: gmtls.NewGMSupport()}
		if supply == "s" {
			cfg.Certificates = []gmtls.Certificate{w.sig, w.enc}
		} else {
			cfg.GetCertificate = func(*gmtls.ClientHelloInfo) (*gmtls.Certificate, error) { return &w.sig, nil }
			cfg.GetKECertificate = func(*gmtls.ClientHelloInfo) (*gmtls.Certificate, error) { return &w.enc, nil }
		}
	case "auto":
		if supply == "s" {
			// static GM pair; TLS certificate through GetCertificate for SNI clients
			sup := gmtls.NewGMSupport()
			sup.EnableMixMode()
			cfg = &gmtls.Config{GMSupport: sup, Certificates: []gmtls.Certificate{w.sig, w.enc}}
			cfg.GetCertificate = func(i *gmtls.ClientHelloInfo) (*gmtls.Certificate, error) {
				for _, v := range i.SupportedVersions {
					if v == gmtls.VersionGMSSL {
						return nil, nil
					}
				}
				return &w.rsaSrv, nil
			}
		} else {
			cfg, _ = gmtls.NewBasicAutoSwitchConfig(&w.sig, &w.enc, &w.rsaSrv)
		}
	case "tlsrsa":
		cfg = &gmtls.Config{}
		if supply == "s" {
			cfg.Certificates = []gmtls.Certificate{w.rsaSrv}
		} else {
			cfg.GetCertificate = func(*gmtls.ClientHelloInfo) (*gmtls.Certificate, error) { return &w.rsaSrv, nil }
		}
	case "tlsec":
		cfg = &gmtls.Config{}
		if supply == "s" {
			cfg.Certificates = []gmtls.Certificate{w.ecSrv}
		} else {
			cfg.GetCertificate = func(*gmtls.ClientHelloInfo) (*gmtls.Certificate, error) { return &w.ecSrv, nil }
		}
	}
	cfg.ClientCAs = bothPool(w)
	return cfg
}

func TestMatrix(t *testing.T) {
	w := getWorld()
	up, down := payload(1500, 3), payload(40000, 4)
	type cl struct {
		name string
		gm   bool
		vers uint16
	}
	clients := []cl{{"gm", true, 0}, {"tls10", false, gmtls.VersionTLS10}, {"tls11", false, gmtls.VersionTLS11}, {"tls12", false, gmtls.VersionTLS12}}
	n := 0
	for _, smode := range []string{"gm", "auto", "tlsrsa", "tlsec"} {
		for _, supply := range []string{"s", "c"} {
			for _, c := range clients {
				compatible := (c.gm && (smode == "gm" || smode == "auto")) || (!c.gm && smode != "gm")
				for auth := gmtls.NoClientCert; auth <= gmtls.RequireAndVerifyClientCert; auth++ {
					for _, ccert := range []string{"none", "good", "bad", "goodcb", "badcb", "rsagood", "ecgood"} {
						if c.gm && (ccert == "rsagood" || ccert == "ecgood") {
							continue
						}
						for _, tick := range []bool{false, true} {
							scfg := serverFor(w, smode, supply)
							scfg.ClientAuth = auth
							scfg.SessionTicketsDisabled = !tick
							var ccfg *gmtls.Config
							if c.gm {
								ccfg = gmClient(w)
							} else {
								ccfg = &gmtls.Config{RootCAs: w.std.gmPool(), ServerName: srvName, MaxVersion: c.vers}
							}
							if tick {
								ccfg.ClientSessionCache = gmtls.NewLRUClientSessionCache(4)
							}
							var cert *gmtls.Certificate
							trusted := false
							switch ccert {
							case "good", "goodcb":
								cert, trusted = &w.cli, true
							case "bad", "badcb":
								cert = &w.cliOther
							case "rsagood":
								cert, trusted = &w.rsaCli, true
							case "ecgood":
								cert, trusted = &w.ecCli, true
							}
							if cert != nil {
								if ccert == "goodcb" || ccert == "badcb" {
									cc := cert
									ccfg.GetClientCertificate = func(*gmtls.CertificateRequestInfo) (*gmtls.Certificate, error) { return cc, nil }
								} else {
									ccfg.Certificates = []gmtls.Certificate{*cert}
								}
							}
							expectOK := compatible
							switch auth {
							case gmtls.RequireAnyClientCert:
								expectOK = expectOK && cert != nil
							case gmtls.VerifyClientCertIfGiven:
								expectOK = expectOK && (cert == nil || trusted)
							case gmtls.RequireAndVerifyClientCert:
								expectOK = expectOK && cert != nil && trusted
							}
							name := fmt.Sprintf("%s/%s/%s/auth%d/%s/tick=%v", smode, supply, c.name, auth, ccert, tick)
							rounds := 1
							if tick {
								rounds = 3
							}
							for i := 0; i < rounds; i++ {
								n++
								r := run(t, scfg, ccfg, up, down, 4096)
								nm := fmt.Sprintf("%s#%d", name, i)
								if expectOK {
									if checkOK(t, nm, r, up, down) {
										if tick && i > 0 && !r.c.state.DidResume {
											t.Logf("%s: note: not resumed", nm)
										}
										if r.c.state.DidResume != r.s.state.DidResume {
											t.Errorf("%s: resume disagreement", nm)
										}
										// peer certificates
										wantPeer := 0
										if cert != nil && auth != gmtls.NoClientCert {
											wantPeer = 1
										}
										if len(r.s.state.PeerCertificates) != wantPeer {
											t.Errorf("%s: server sees %d peer certs, want %d", nm, len(r.s.state.PeerCertificates), wantPeer)
										} else if wantPeer == 1 && !bytes.Equal(r.s.state.PeerCertificates[0].Raw, cert.Certificate[0]) {
											t.Errorf("%s: server sees another client certificate", nm)
										}
										if len(r.c.state.PeerCertificates) == 0 {
											t.Errorf("%s: client sees no peer certs", nm)
										}
									}
								} else {
									checkFail(t, nm, r)
								}
							}
						}
					}
				}
			}
		}
	}
	t.Logf("%d runs", n)
}
