package gmtls_test

import (
	"fmt"
	"testing"

	"github.com/tjfoc/gmsm/gmtls"
)

func TestKeyRotation(t *testing.T) {
	w := getWorld()
	up, down := payload(100, 1), payload(100, 2)
	for _, mode := range []string{"gm", "auto-gm", "auto-tls", "tls"} {
		var scfg, ccfg *gmtls.Config
		switch mode {
		case "gm":
			scfg = serverFor(w, "gm", "s")
			scfg.CipherSuites = []uint16{gmtls.GMTLS_ECC_SM4_GCM_SM3}
			ccfg = gmClient(w)
		case "auto-gm":
			scfg = serverFor(w, "auto", "c")
			scfg.CipherSuites = []uint16{gmtls.GMTLS_ECC_SM4_GCM_SM3, gmtls.TLS_RSA_WITH_AES_128_CBC_SHA}
			ccfg = gmClient(w)
		case "auto-tls":
			scfg = serverFor(w, "auto", "c")
			ccfg = &gmtls.Config{RootCAs: w.std.gmPool(), ServerName: srvName}
		case "tls":
			scfg = serverFor(w, "tlsrsa", "s")
			ccfg = &gmtls.Config{RootCAs: w.std.gmPool(), ServerName: srvName}
		}
		scfg.ClientAuth = gmtls.RequireAndVerifyClientCert
		ccfg.Certificates = []gmtls.Certificate{w.cli}
		ccfg.ClientSessionCache = gmtls.NewLRUClientSessionCache(1)
		k1, k2, k3 := [32]byte{1}, [32]byte{2}, [32]byte{3}
		scfg.SetSessionTicketKeys([][32]byte{k1})
		steps := []struct {
			keys   [][32]byte
			resume bool
		}{
			{nil, false},
			{nil, true},
			{[][32]byte{k2, k1}, true},
			{nil, true},
			{[][32]byte{k3}, false},
			{nil, true},
		}
		for i, st := range steps {
			if st.keys != nil {
				scfg.SetSessionTicketKeys(st.keys)
			}
			r := run(t, scfg, ccfg, up, down, 0)
			nm := fmt.Sprintf("%s#%d", mode, i)
			if checkOK(t, nm, r, up, down) {
				if r.c.state.DidResume != st.resume || r.s.state.DidResume != st.resume {
					t.Errorf("%s: resumed %v/%v want %v", nm, r.c.state.DidResume, r.s.state.DidResume, st.resume)
				}
				if len(r.s.state.PeerCertificates) != 1 {
					t.Errorf("%s: server sees %d client certs", nm, len(r.s.state.PeerCertificates))
				}
			}
		}
	}
}
