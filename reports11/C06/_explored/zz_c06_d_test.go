package gmtls_test

import (
	"bytes"
	stdtls "crypto/tls"
	"fmt"
	"sync"
	"testing"
	"time"

	"github.com/tjfoc/gmsm/gmtls"
)

type pairResult struct {
	cerr, serr   error
	cgot, sgot   []byte
	timeout      bool
	cpanic, span interface{}
}

func (r pairResult) String() string {
	return fmt.Sprintf("cerr=%v serr=%v cpanic=%v spanic=%v timeout=%v", r.cerr, r.serr, r.cpanic, r.span, r.timeout)
}

func drive2(client, server rwc, closeC, closeS func(), up, down []byte, frag int) pairResult {
	var r pairResult
	var wg sync.WaitGroup
	wg.Add(2)
	go func() {
		defer wg.Done()
		defer func() {
			if p := recover(); p != nil {
				r.cpanic = p
				closeC()
			}
		}()
		r.cgot, r.cerr = exchange(client, up, len(down), frag)
		if r.cerr != nil {
			closeC()
		}
	}()
	go func() {
		defer wg.Done()
		defer func() {
			if p := recover(); p != nil {
				r.span = p
				closeS()
			}
		}()
		r.sgot, r.serr = exchange(server, down, len(up), frag)
		if r.serr != nil {
			closeS()
		}
	}()
	done := make(chan struct{})
	go func() { wg.Wait(); close(done) }()
	select {
	case <-done:
	case <-time.After(20 * time.Second):
		r.timeout = true
		closeC()
		closeS()
		<-done
	}
	return r
}

var stdSuites = []uint16{
	stdtls.TLS_RSA_WITH_AES_128_CBC_SHA, stdtls.TLS_RSA_WITH_AES_256_CBC_SHA, stdtls.TLS_RSA_WITH_AES_128_CBC_SHA256,
	stdtls.TLS_RSA_WITH_AES_128_GCM_SHA256, stdtls.TLS_RSA_WITH_AES_256_GCM_SHA384, stdtls.TLS_RSA_WITH_3DES_EDE_CBC_SHA,
	stdtls.TLS_ECDHE_RSA_WITH_AES_128_CBC_SHA, stdtls.TLS_ECDHE_RSA_WITH_AES_256_CBC_SHA, stdtls.TLS_ECDHE_RSA_WITH_AES_128_CBC_SHA256,
	stdtls.TLS_ECDHE_RSA_WITH_AES_128_GCM_SHA256, stdtls.TLS_ECDHE_RSA_WITH_AES_256_GCM_SHA384, stdtls.TLS_ECDHE_RSA_WITH_CHACHA20_POLY1305,
	stdtls.TLS_ECDHE_RSA_WITH_3DES_EDE_CBC_SHA, stdtls.TLS_RSA_WITH_RC4_128_SHA, stdtls.TLS_ECDHE_RSA_WITH_RC4_128_SHA,
	stdtls.TLS_ECDHE_ECDSA_WITH_AES_128_CBC_SHA, stdtls.TLS_ECDHE_ECDSA_WITH_AES_256_CBC_SHA, stdtls.TLS_ECDHE_ECDSA_WITH_AES_128_CBC_SHA256,
	stdtls.TLS_ECDHE_ECDSA_WITH_AES_128_GCM_SHA256, stdtls.TLS_ECDHE_ECDSA_WITH_AES_256_GCM_SHA384, stdtls.TLS_ECDHE_ECDSA_WITH_CHACHA20_POLY1305,
	stdtls.TLS_ECDHE_ECDSA_WITH_RC4_128_SHA,
}

func isTLS12Only(id uint16) bool {
	switch id {
	case stdtls.TLS_RSA_WITH_AES_128_CBC_SHA256, stdtls.TLS_RSA_WITH_AES_128_GCM_SHA256, stdtls.TLS_RSA_WITH_AES_256_GCM_SHA384,
		stdtls.TLS_ECDHE_RSA_WITH_AES_128_CBC_SHA256, stdtls.TLS_ECDHE_RSA_WITH_AES_128_GCM_SHA256, stdtls.TLS_ECDHE_RSA_WITH_AES_256_GCM_SHA384,
		stdtls.TLS_ECDHE_RSA_WITH_CHACHA20_POLY1305, stdtls.TLS_ECDHE_ECDSA_WITH_AES_128_CBC_SHA256, stdtls.TLS_ECDHE_ECDSA_WITH_AES_128_GCM_SHA256,
		stdtls.TLS_ECDHE_ECDSA_WITH_AES_256_GCM_SHA384, stdtls.TLS_ECDHE_ECDSA_WITH_CHACHA20_POLY1305:
		return true
	}
	return false
}

func isECDSASuite(id uint16) bool {
	switch id {
	case stdtls.TLS_ECDHE_ECDSA_WITH_AES_128_CBC_SHA, stdtls.TLS_ECDHE_ECDSA_WITH_AES_256_CBC_SHA, stdtls.TLS_ECDHE_ECDSA_WITH_AES_128_CBC_SHA256,
		stdtls.TLS_ECDHE_ECDSA_WITH_AES_128_GCM_SHA256, stdtls.TLS_ECDHE_ECDSA_WITH_AES_256_GCM_SHA384, stdtls.TLS_ECDHE_ECDSA_WITH_CHACHA20_POLY1305,
		stdtls.TLS_ECDHE_ECDSA_WITH_RC4_128_SHA:
		return true
	}
	return false
}

// gmtls server (tls / auto) <- Go std client ; gmtls client -> Go std server
func TestStdInterop(t *testing.T) {
	w := getWorld()
	up, down := payload(20000, 5), payload(33333, 6)
	for _, vers := range []uint16{stdtls.VersionTLS10, stdtls.VersionTLS11, stdtls.VersionTLS12} {
		for _, suite := range stdSuites {
			if vers < stdtls.VersionTLS12 && isTLS12Only(suite) {
				continue
			}
			for _, auth := range []int{0, 4} {
				for _, ccert := range []string{"rsa", "ec"} {
					if auth == 0 && ccert == "ec" {
						continue
					}
					// --- std client -> gmtls server
					for _, smode := range []string{"tls", "auto"} {
						var scfg *gmtls.Config
						srv := w.rsaSrv
						if isECDSASuite(suite) {
							srv = w.ecSrv
						}
						if smode == "tls" {
							scfg = &gmtls.Config{Certificates: []gmtls.Certificate{srv}}
						} else {
							scfg, _ = gmtls.NewBasicAutoSwitchConfig(&w.sig, &w.enc, &srv)
						}
						scfg.CipherSuites = []uint16{suite}
						scfg.ClientAuth = gmtls.ClientAuthType(auth)
						scfg.ClientCAs = bothPool(w)
						ccfg := &stdtls.Config{RootCAs: w.std.stdPool(), ServerName: srvName, MinVersion: vers, MaxVersion: vers, CipherSuites: []uint16{suite}}
						if auth != 0 {
							if ccert == "rsa" {
								ccfg.Certificates = []stdtls.Certificate{w.rsaCliStd}
							} else {
								ccfg.Certificates = []stdtls.Certificate{w.ecCliStd}
							}
						}
						cc, sc := tcpPair(t)
						client := stdtls.Client(cc, ccfg)
						server := gmtls.Server(sc, scfg)
						r := drive2(client, server, func() { cc.Close() }, func() { sc.Close() }, up, down, 5000)
						nm := fmt.Sprintf("std->gm(%s) v%x s%x auth%d %s", smode, vers, suite, auth, ccert)
						if r.timeout || r.cerr != nil || r.serr != nil || r.cpanic != nil || r.span != nil {
							t.Errorf("%s: %v", nm, r)
						} else if !bytes.Equal(r.cgot, down) || !bytes.Equal(r.sgot, up) {
							t.Errorf("%s: payload mismatch", nm)
						} else {
							cs, ss := client.ConnectionState(), server.ConnectionState()
							if cs.Version != ss.Version || cs.CipherSuite != ss.CipherSuite {
								t.Errorf("%s: disagreement", nm)
							}
						}
						cc.Close()
						sc.Close()
					}
					// --- gmtls client -> std server
					{
						srv := w.rsaSrvStd
						if isECDSASuite(suite) {
							srv = w.ecSrvStd
						}
						scfg := &stdtls.Config{Certificates: []stdtls.Certificate{srv}, MinVersion: vers, MaxVersion: vers, CipherSuites: []uint16{suite},
							ClientAuth: stdtls.ClientAuthType(auth), ClientCAs: w.std.stdPool()}
						ccfg := &gmtls.Config{RootCAs: w.std.gmPool(), ServerName: srvName, MaxVersion: vers, CipherSuites: []uint16{suite}}
						if auth != 0 {
							if ccert == "rsa" {
								ccfg.Certificates = []gmtls.Certificate{w.rsaCli}
							} else {
								ccfg.Certificates = []gmtls.Certificate{w.ecCli}
							}
						}
						cc, sc := tcpPair(t)
						client := gmtls.Client(cc, ccfg)
						server := stdtls.Server(sc, scfg)
						r := drive2(client, server, func() { cc.Close() }, func() { sc.Close() }, up, down, 5000)
						nm := fmt.Sprintf("gm->std v%x s%x auth%d %s", vers, suite, auth, ccert)
						if r.timeout || r.cerr != nil || r.serr != nil || r.cpanic != nil || r.span != nil {
							t.Errorf("%s: %v", nm, r)
						} else if !bytes.Equal(r.cgot, down) || !bytes.Equal(r.sgot, up) {
							t.Errorf("%s: payload mismatch", nm)
						}
						cc.Close()
						sc.Close()
					}
				}
			}
		}
	}
}
