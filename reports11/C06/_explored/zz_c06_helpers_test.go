package gmtls_test

import (
	"bytes"
	"crypto"
	"crypto/ecdsa"
	"crypto/elliptic"
	"crypto/rand"
	"crypto/rsa"
	stdtls "crypto/tls"
	stdx509 "crypto/x509"
	"crypto/x509/pkix"
	"fmt"
	"io"
	"math/big"
	"net"
	"sync"
	"testing"
	"time"

	"github.com/tjfoc/gmsm/gmtls"
	"github.com/tjfoc/gmsm/sm2"
	"github.com/tjfoc/gmsm/x509"
)

var serial int64 = 1000

func nextSerial() *big.Int { serial++; return big.NewInt(serial) }

type sm2CA struct {
	key  *sm2.PrivateKey
	cert *x509.Certificate
	der  []byte
}

func must(err error) {
	if err != nil {
		panic(err)
	}
}

func newSM2CA(cn string, parent *sm2CA) *sm2CA {
	k, err := sm2.GenerateKey(rand.Reader)
	must(err)
	tmpl := &x509.Certificate{
		SerialNumber:          nextSerial(),
		Subject:               pkix.Name{CommonName: cn, Organization: []string{"c06"}},
		NotBefore:             time.Now().Add(-time.Hour),
		NotAfter:              time.Now().Add(24 * time.Hour),
		KeyUsage:              x509.KeyUsageCertSign | x509.KeyUsageDigitalSignature,
		BasicConstraintsValid: true,
		IsCA:                  true,
		SignatureAlgorithm:    x509.SM2WithSM3,
		SubjectKeyId:          []byte(cn),
	}
	var der []byte
	if parent == nil {
		der, err = x509.CreateCertificate(tmpl, tmpl, &k.PublicKey, k)
	} else {
		der, err = x509.CreateCertificate(tmpl, parent.cert, &k.PublicKey, parent.key)
	}
	must(err)
	c, err := x509.ParseCertificate(der)
	must(err)
	return &sm2CA{k, c, der}
}

func (ca *sm2CA) issue(cn string, ku x509.KeyUsage, eku []x509.ExtKeyUsage, chain ...[]byte) gmtls.Certificate {
	k, err := sm2.GenerateKey(rand.Reader)
	must(err)
	tmpl := &x509.Certificate{
		SerialNumber:       nextSerial(),
		Subject:            pkix.Name{CommonName: cn, Organization: []string{"c06"}},
		NotBefore:          time.Now().Add(-time.Hour),
		NotAfter:           time.Now().Add(24 * time.Hour),
		KeyUsage:           ku,
		ExtKeyUsage:        eku,
		DNSNames:           []string{cn},
		SignatureAlgorithm: x509.SM2WithSM3,
	}
	der, err := x509.CreateCertificate(tmpl, ca.cert, &k.PublicKey, ca.key)
	must(err)
	return gmtls.Certificate{Certificate: append([][]byte{der}, chain...), PrivateKey: k}
}

func (ca *sm2CA) pool() *x509.CertPool {
	p := x509.NewCertPool()
	p.AddCert(ca.cert)
	return p
}

// standard (RSA / ECDSA) CA built with the Go standard library
type stdCA struct {
	key  crypto.Signer
	cert *stdx509.Certificate
	der  []byte
}

func newStdCA(cn string) *stdCA {
	k, err := rsa.GenerateKey(rand.Reader, 2048)
	must(err)
	tmpl := &stdx509.Certificate{
		SerialNumber:          nextSerial(),
		Subject:               pkix.Name{CommonName: cn},
		NotBefore:             time.Now().Add(-time.Hour),
		NotAfter:              time.Now().Add(24 * time.Hour),
		KeyUsage:              stdx509.KeyUsageCertSign | stdx509.KeyUsageDigitalSignature,
		BasicConstraintsValid: true,
		IsCA:                  true,
	}
	der, err := stdx509.CreateCertificate(rand.Reader, tmpl, tmpl, &k.PublicKey, k)
	must(err)
	c, err := stdx509.ParseCertificate(der)
	must(err)
	return &stdCA{k, c, der}
}

func (ca *stdCA) issueKey(cn string, k crypto.Signer, eku []stdx509.ExtKeyUsage) (der []byte) {
	tmpl := &stdx509.Certificate{
		SerialNumber: nextSerial(),
		Subject:      pkix.Name{CommonName: cn},
		NotBefore:    time.Now().Add(-time.Hour),
		NotAfter:     time.Now().Add(24 * time.Hour),
		KeyUsage:     stdx509.KeyUsageDigitalSignature | stdx509.KeyUsageKeyEncipherment,
		ExtKeyUsage:  eku,
		DNSNames:     []string{cn},
	}
	der, err := stdx509.CreateCertificate(rand.Reader, tmpl, ca.cert, k.Public(), ca.key)
	must(err)
	return der
}

func (ca *stdCA) issueRSA(cn string, eku []stdx509.ExtKeyUsage) (gmtls.Certificate, stdtls.Certificate) {
	k, err := rsa.GenerateKey(rand.Reader, 2048)
	must(err)
	der := ca.issueKey(cn, k, eku)
	return gmtls.Certificate{Certificate: [][]byte{der}, PrivateKey: k}, stdtls.Certificate{Certificate: [][]byte{der}, PrivateKey: k}
}

func (ca *stdCA) issueECDSA(cn string, eku []stdx509.ExtKeyUsage) (gmtls.Certificate, stdtls.Certificate) {
	k, err := ecdsa.GenerateKey(elliptic.P256(), rand.Reader)
	must(err)
	der := ca.issueKey(cn, k, eku)
	return gmtls.Certificate{Certificate: [][]byte{der}, PrivateKey: k}, stdtls.Certificate{Certificate: [][]byte{der}, PrivateKey: k}
}

func (ca *stdCA) gmPool() *x509.CertPool {
	p := x509.NewCertPool()
	c, err := x509.ParseCertificate(ca.der)
	must(err)
	p.AddCert(c)
	return p
}

func (ca *stdCA) stdPool() *stdx509.CertPool {
	p := stdx509.NewCertPool()
	p.AddCert(ca.cert)
	return p
}

// ---------------------------------------------------------------------------

type world struct {
	root, inter, other *sm2CA
	sig, enc           gmtls.Certificate // issued by root
	cli                gmtls.Certificate // SM2 client certificate by root
	cliOther           gmtls.Certificate // SM2 client certificate by an untrusted CA
	std, stdOther      *stdCA
	rsaSrv             gmtls.Certificate
	rsaSrvStd          stdtls.Certificate
	ecSrv              gmtls.Certificate
	ecSrvStd           stdtls.Certificate
	rsaCli             gmtls.Certificate
	rsaCliStd          stdtls.Certificate
	ecCli              gmtls.Certificate
	ecCliStd           stdtls.Certificate
}

var (
	theWorld  *world
	worldOnce sync.Once
)

const srvName = "server.c06.test"

func getWorld() *world {
	worldOnce.Do(func() {
		w := &world{}
		w.root = newSM2CA("root", nil)
		w.other = newSM2CA("other", nil)
		w.sig = w.root.issue(srvName, x509.KeyUsageDigitalSignature, []x509.ExtKeyUsage{x509.ExtKeyUsageServerAuth})
		w.enc = w.root.issue(srvName, x509.KeyUsageKeyEncipherment|x509.KeyUsageDataEncipherment|x509.KeyUsageKeyAgreement, []x509.ExtKeyUsage{x509.ExtKeyUsageServerAuth})
		w.cli = w.root.issue("client", x509.KeyUsageDigitalSignature, []x509.ExtKeyUsage{x509.ExtKeyUsageClientAuth})
		w.cliOther = w.other.issue("client-other", x509.KeyUsageDigitalSignature, []x509.ExtKeyUsage{x509.ExtKeyUsageClientAuth})
		w.std = newStdCA("stdroot")
		w.stdOther = newStdCA("stdother")
		w.rsaSrv, w.rsaSrvStd = w.std.issueRSA(srvName, []stdx509.ExtKeyUsage{stdx509.ExtKeyUsageServerAuth})
		w.ecSrv, w.ecSrvStd = w.std.issueECDSA(srvName, []stdx509.ExtKeyUsage{stdx509.ExtKeyUsageServerAuth})
		w.rsaCli, w.rsaCliStd = w.std.issueRSA("rsaclient", []stdx509.ExtKeyUsage{stdx509.ExtKeyUsageClientAuth})
		w.ecCli, w.ecCliStd = w.std.issueECDSA("ecclient", []stdx509.ExtKeyUsage{stdx509.ExtKeyUsageClientAuth})
		theWorld = w
	})
	return theWorld
}

// ---------------------------------------------------------------------------

type side struct {
	err   error
	state gmtls.ConnectionState
	got   []byte
	ekm   []byte
	ekmE  error
	panic interface{}
}

type result struct {
	c, s    side
	timeout bool
}

func (r result) String() string {
	return fmt.Sprintf("client{err=%v panic=%v vers=%x suite=%x resumed=%v} server{err=%v panic=%v vers=%x suite=%x resumed=%v} timeout=%v",
		r.c.err, r.c.panic, r.c.state.Version, r.c.state.CipherSuite, r.c.state.DidResume,
		r.s.err, r.s.panic, r.s.state.Version, r.s.state.CipherSuite, r.s.state.DidResume, r.timeout)
}

type rwc interface {
	io.Reader
	io.Writer
	Close() error
	Handshake() error
}

func tcpPair(t testing.TB) (net.Conn, net.Conn) {
	l, err := net.Listen("tcp", "127.0.0.1:0")
	if err != nil {
		t.Fatal(err)
	}
	defer l.Close()
	ch := make(chan net.Conn, 1)
	go func() {
		c, err := l.Accept()
		if err != nil {
			panic(err)
		}
		ch <- c
	}()
	c, err := net.Dial("tcp", l.Addr().String())
	if err != nil {
		t.Fatal(err)
	}
	return c, <-ch
}

func writeFrag(w io.Writer, p []byte, frag int) error {
	if len(p) == 0 {
		_, err := w.Write(p)
		return err
	}
	for len(p) > 0 {
		n := frag
		if n <= 0 || n > len(p) {
			n = len(p)
		}
		if _, err := w.Write(p[:n]); err != nil {
			return err
		}
		p = p[n:]
	}
	return nil
}

// exchange: handshake, then each side writes its payload (fragmented) and reads the peer's.
func exchange(conn rwc, out []byte, inLen int, frag int) (got []byte, err error) {
	if err = conn.Handshake(); err != nil {
		return nil, err
	}
	var wg sync.WaitGroup
	var werr error
	wg.Add(1)
	go func() {
		defer wg.Done()
		werr = writeFrag(conn, out, frag)
	}()
	got = make([]byte, inLen)
	_, rerr := io.ReadFull(conn, got)
	wg.Wait()
	if rerr != nil {
		return got, fmt.Errorf("read: %v", rerr)
	}
	if werr != nil {
		return got, fmt.Errorf("write: %v", werr)
	}
	return got, nil
}

func payload(n int, seed byte) []byte {
	p := make([]byte, n)
	for i := range p {
		p[i] = byte(i*7) ^ seed ^ byte(i>>8)
	}
	return p
}

// run a gmtls server against a gmtls client
func run(t testing.TB, scfg, ccfg *gmtls.Config, up, down []byte, frag int) result {
	cc, sc := tcpPair(t)
	defer cc.Close()
	defer sc.Close()
	client := gmtls.Client(cc, ccfg)
	server := gmtls.Server(sc, scfg)
	return drive(client, server, cc, sc, up, down, frag)
}

func drive(client, server *gmtls.Conn, cc, sc net.Conn, up, down []byte, frag int) result {
	var r result
	var wg sync.WaitGroup
	wg.Add(2)
	go func() {
		defer wg.Done()
		defer func() {
			if p := recover(); p != nil {
				r.c.panic = p
				cc.Close()
			}
		}()
		r.c.got, r.c.err = exchange(client, up, len(down), frag)
		r.c.state = client.ConnectionState()
		if r.c.err == nil {
			r.c.ekm, r.c.ekmE = r.c.state.ExportKeyingMaterial("EXPORTER-c06", []byte("ctx"), 40)
		} else {
			cc.Close()
		}
	}()
	go func() {
		defer wg.Done()
		defer func() {
			if p := recover(); p != nil {
				r.s.panic = p
				sc.Close()
			}
		}()
		r.s.got, r.s.err = exchange(server, down, len(up), frag)
		r.s.state = server.ConnectionState()
		if r.s.err == nil {
			r.s.ekm, r.s.ekmE = r.s.state.ExportKeyingMaterial("EXPORTER-c06", []byte("ctx"), 40)
		} else {
			sc.Close()
		}
	}()
	done := make(chan struct{})
	go func() { wg.Wait(); close(done) }()
	select {
	case <-done:
	case <-time.After(20 * time.Second):
		r.timeout = true
		cc.Close()
		sc.Close()
		<-done
	}
	return r
}

// check that a run that should succeed did, with agreement
func checkOK(t testing.TB, name string, r result, up, down []byte) bool {
	t.Helper()
	ok := true
	if r.timeout || r.c.err != nil || r.s.err != nil || r.c.panic != nil || r.s.panic != nil {
		t.Errorf("%s: expected success: %v", name, r)
		return false
	}
	if r.c.state.Version != r.s.state.Version || r.c.state.CipherSuite != r.s.state.CipherSuite {
		t.Errorf("%s: parameter disagreement: %v", name, r)
		ok = false
	}
	if !bytes.Equal(r.s.got, up) || !bytes.Equal(r.c.got, down) {
		t.Errorf("%s: payload mismatch", name)
		ok = false
	}
	if r.c.ekmE != nil || r.s.ekmE != nil || !bytes.Equal(r.c.ekm, r.s.ekm) {
		t.Errorf("%s: ekm mismatch %v %v %x %x", name, r.c.ekmE, r.s.ekmE, r.c.ekm, r.s.ekm)
		ok = false
	}
	return ok
}

func checkFail(t testing.TB, name string, r result) bool {
	t.Helper()
	if r.timeout || r.c.panic != nil || r.s.panic != nil || r.c.err == nil || r.s.err == nil {
		t.Errorf("%s: expected failure on both sides: %v", name, r)
		return false
	}
	return true
}

func gmServer(w *world, mode string) *gmtls.Config {
	cfg := &gmtls.Config{Certificates: []gmtls.Certificate{w.sig, w.enc}}
	switch mode {
	case "gm":
		cfg.GMSupport = gmtls.NewGMSupport()
	case "auto":
		cfg.GMSupport = gmtls.NewGMSupport()
		cfg.GMSupport.EnableMixMode()
	}
	return cfg
}

func gmClient(w *world) *gmtls.Config {
	return &gmtls.Config{GMSupport: gmtls.NewGMSupport(), RootCAs: w.root.pool(), ServerName: srvName}
}
