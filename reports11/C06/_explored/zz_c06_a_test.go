package gmtls_test

import (
	"fmt"
	"testing"

	"github.com/tjfoc/gmsm/gmtls"
)

func TestBaseline(t *testing.T) {
	w := getWorld()
	up, down := payload(3000, 1), payload(70000, 2)
	for _, mode := range []string{"gm", "auto"} {
		for _, suite := range []uint16{gmtls.GMTLS_ECC_SM4_CBC_SM3, gmtls.GMTLS_ECC_SM4_GCM_SM3} {
			s := gmServer(w, mode)
			c := gmClient(w)
			c.CipherSuites = []uint16{suite}
			r := run(t, s, c, up, down, 1000)
			checkOK(t, fmt.Sprintf("%s/%x", mode, suite), r, up, down)
		}
	}
	// auto + tls
	bas, _ := gmtls.NewBasicAutoSwitchConfig(&w.sig, &w.enc, &w.rsaSrv)
	for _, v := range []uint16{gmtls.VersionTLS10, gmtls.VersionTLS11, gmtls.VersionTLS12} {
		c := &gmtls.Config{RootCAs: w.std.gmPool(), ServerName: srvName, MaxVersion: v}
		r := run(t, bas, c, up, down, 777)
		checkOK(t, fmt.Sprintf("basic-auto/tls%x", v), r, up, down)
	}
	r := run(t, bas, gmClient(w), up, down, 777)
	checkOK(t, "basic-auto/gm", r, up, down)
}
