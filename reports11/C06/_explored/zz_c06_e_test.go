package gmtls_test

import (
	"fmt"
	"testing"

	"github.com/tjfoc/gmsm/gmtls"
)

func TestPayloadSizes(t *testing.T) {
	w := getWorld()
	sizes := []int{0, 1, 2, 15, 16, 17, 31, 32, 33, 1023, 1024, 16383, 16384, 16385, 32768, 65535, 65536, 204800}
	frags := []int{0, 1, 7, 16, 1000, 16384, 16385, 100000}
	for _, suite := range []uint16{gmtls.GMTLS_ECC_SM4_CBC_SM3, gmtls.GMTLS_ECC_SM4_GCM_SM3} {
		for _, dyn := range []bool{false, true} {
			for i, sz := range sizes {
				for _, frag := range frags {
					if frag == 1 && sz > 20000 {
						continue
					}
					s := gmServer(w, "gm")
					c := gmClient(w)
					c.CipherSuites = []uint16{suite}
					s.DynamicRecordSizingDisabled = dyn
					c.DynamicRecordSizingDisabled = dyn
					up := payload(sz, 9)
					down := payload(sizes[len(sizes)-1-i], 10)
					if frag == 1 && len(down) > 20000 {
						down = down[:20000]
					}
					r := run(t, s, c, up, down, frag)
					checkOK(t, fmt.Sprintf("%x dyn=%v up=%d down=%d frag=%d", suite, dyn, len(up), len(down), frag), r, up, down)
				}
			}
		}
	}
}
