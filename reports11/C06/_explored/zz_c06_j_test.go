package gmtls_test

import (
	"fmt"
	"testing"

	"github.com/tjfoc/gmsm/gmtls"
	"github.com/tjfoc/gmsm/x509"
)

func TestGetConfigForClient(t *testing.T) {
	w := getWorld()
	up, down := payload(100, 1), payload(100, 2)
	gmSuites := []uint16{gmtls.GMTLS_ECC_SM4_CBC_SM3, gmtls.TLS_ECDHE_RSA_WITH_AES_128_GCM_SHA256}
	for _, base := range []string{"gm", "auto", "tls"} {
		for _, retGMSupport := range []string{"nil", "gm", "auto"} {
			for _, fresh := range []bool{false, true} {
				for _, client := range []string{"gm", "tls12", "tls10"} {
					if (base == "gm" && client != "gm") || (base == "tls" && client == "gm") {
						continue
					}
					mk := func() *gmtls.Config {
						var cfg *gmtls.Config
						if client == "gm" {
							cfg = &gmtls.Config{Certificates: []gmtls.Certificate{w.sig, w.enc}, CipherSuites: gmSuites}
						} else {
							cfg = &gmtls.Config{Certificates: []gmtls.Certificate{w.rsaSrv}}
						}
						switch retGMSupport {
						case "gm":
							cfg.GMSupport = gmtls.NewGMSupport()
						case "auto":
							cfg.GMSupport = gmtls.NewGMSupport()
							cfg.GMSupport.EnableMixMode()
						}
						cfg.ClientAuth = gmtls.RequireAndVerifyClientCert
						cfg.ClientCAs = bothPool(w)
						return cfg
					}
					shared := mk()
					calls := 0
					scfg := &gmtls.Config{}
					switch base {
					case "gm":
						scfg.GMSupport = gmtls.NewGMSupport()
					case "auto":
						scfg.GMSupport = gmtls.NewGMSupport()
						scfg.GMSupport.EnableMixMode()
					}
					scfg.GetConfigForClient = func(i *gmtls.ClientHelloInfo) (*gmtls.Config, error) {
						calls++
						if fresh {
							return mk(), nil
						}
						return shared, nil
					}
					var ccfg *gmtls.Config
					switch client {
					case "gm":
						ccfg = gmClient(w)
						ccfg.Certificates = []gmtls.Certificate{w.cli}
					case "tls12":
						ccfg = &gmtls.Config{RootCAs: w.std.gmPool(), ServerName: srvName, Certificates: []gmtls.Certificate{w.rsaCli}}
					case "tls10":
						ccfg = &gmtls.Config{RootCAs: w.std.gmPool(), ServerName: srvName, MaxVersion: gmtls.VersionTLS10, Certificates: []gmtls.Certificate{w.ecCli}}
					}
					ccfg.ClientSessionCache = gmtls.NewLRUClientSessionCache(1)
					for i := 0; i < 3; i++ {
						nm := fmt.Sprintf("base=%s ret=%s fresh=%v client=%s #%d", base, retGMSupport, fresh, client, i)
						r := run(t, scfg, ccfg, up, down, 0)
						if checkOK(t, nm, r, up, down) {
							if i > 0 && (!r.c.state.DidResume || !r.s.state.DidResume) {
								t.Errorf("%s: not resumed (%v/%v)", nm, r.c.state.DidResume, r.s.state.DidResume)
							}
							if len(r.s.state.PeerCertificates) != 1 {
								t.Errorf("%s: server sees %d client certs", nm, len(r.s.state.PeerCertificates))
							}
						}
					}
					if calls != 3 {
						t.Errorf("calls=%d", calls)
					}
				}
			}
		}
	}
}

func TestVerifyPeerCallbacks(t *testing.T) {
	w := getWorld()
	up, down := payload(100, 1), payload(100, 2)
	for _, mode := range []string{"gm", "auto-gm", "auto-tls", "tls"} {
		for _, auth := range []gmtls.ClientAuthType{0, 1, 2, 3, 4} {
			for _, skip := range []bool{false, true} {
				var scfg, ccfg *gmtls.Config
				switch mode {
				case "gm":
					scfg = serverFor(w, "gm", "s")
					scfg.CipherSuites = []uint16{gmtls.GMTLS_ECC_SM4_GCM_SM3}
					ccfg = gmClient(w)
				case "auto-gm":
					scfg = serverFor(w, "auto", "c")
					ccfg = gmClient(w)
				case "auto-tls":
					scfg = serverFor(w, "auto", "c")
					ccfg = &gmtls.Config{RootCAs: w.std.gmPool(), ServerName: srvName}
				case "tls":
					scfg = serverFor(w, "tlsrsa", "s")
					ccfg = &gmtls.Config{RootCAs: w.std.gmPool(), ServerName: srvName}
				}
				scfg.ClientAuth = auth
				ccfg.Certificates = []gmtls.Certificate{w.cli}
				ccfg.InsecureSkipVerify = skip
				var sRaw, cRaw [][]byte
				var sChains, cChains [][]*x509.Certificate
				sCalls, cCalls := 0, 0
				scfg.VerifyPeerCertificate = func(raw [][]byte, chains [][]*x509.Certificate) error {
					sCalls++
					sRaw, sChains = raw, chains
					return nil
				}
				ccfg.VerifyPeerCertificate = func(raw [][]byte, chains [][]*x509.Certificate) error {
					cCalls++
					cRaw, cChains = raw, chains
					return nil
				}
				nm := fmt.Sprintf("%s auth=%d skip=%v", mode, auth, skip)
				r := run(t, scfg, ccfg, up, down, 0)
				if !checkOK(t, nm, r, up, down) {
					continue
				}
				if cCalls != 1 {
					t.Errorf("%s: client callback calls %d", nm, cCalls)
				}
				wantS := 1
				if auth == 0 {
					wantS = 0
				}
				if sCalls != wantS {
					t.Errorf("%s: server callback calls %d want %d", nm, sCalls, wantS)
				}
				if skip && cChains != nil {
					t.Errorf("%s: client chains with InsecureSkipVerify", nm)
				}
				if !skip {
					if len(cChains) == 0 {
						t.Errorf("%s: client no chains", nm)
					} else if string(cChains[0][0].Raw) != string(cRaw[0]) {
						t.Logf("%s: NOTE client verifiedChains[0][0] is not the leaf rawCerts[0]", nm)
					}
				}
				if auth >= 3 && (len(sChains) == 0 || string(sChains[0][0].Raw) != string(sRaw[0])) {
					t.Errorf("%s: server chains wrong", nm)
				}
				if auth > 0 && auth < 3 && sChains != nil {
					t.Errorf("%s: server chains present", nm)
				}
				// state agreement
				if !skip && len(r.c.state.VerifiedChains) == 0 {
					t.Errorf("%s: client state no verified chains", nm)
				}
			}
		}
	}
}
