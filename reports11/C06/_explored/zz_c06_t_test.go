package gmtls_test

import (
	stdtls "crypto/tls"
	"testing"

	"github.com/tjfoc/gmsm/gmtls"
)

func TestForbidden(t *testing.T) {
	w := getWorld()
	up, down := payload(100, 1), payload(100, 2)
	tlsClient := func() *gmtls.Config { return &gmtls.Config{RootCAs: w.std.gmPool(), ServerName: srvName} }
	// gm client -> tls only server
	checkFail(t, "gm->tlsrsa", run(t, serverFor(w, "tlsrsa", "s"), gmClient(w), up, down, 0))
	checkFail(t, "gm->tlsec", run(t, serverFor(w, "tlsec", "c"), gmClient(w), up, down, 0))
	checkFail(t, "tls->gm", run(t, serverFor(w, "gm", "s"), tlsClient(), up, down, 0))
	checkFail(t, "tls->gm(cb)", run(t, serverFor(w, "gm", "c"), tlsClient(), up, down, 0))
	// no common suites
	s := serverFor(w, "gm", "s")
	s.CipherSuites = []uint16{gmtls.GMTLS_ECC_SM4_GCM_SM3}
	c := gmClient(w)
	c.CipherSuites = []uint16{gmtls.GMTLS_ECC_SM4_CBC_SM3}
	checkFail(t, "gm nosuite", run(t, s, c, up, down, 0))
	c = gmClient(w)
	c.CipherSuites = []uint16{gmtls.GMTLS_ECDHE_SM4_CBC_SM3, gmtls.GMTLS_ECDHE_SM4_GCM_SM3}
	checkFail(t, "gm ecdhe only", run(t, serverFor(w, "gm", "s"), c, up, down, 0))
	checkFail(t, "auto ecdhe only", run(t, serverFor(w, "auto", "c"), c, up, down, 0))
	s = serverFor(w, "tlsrsa", "s")
	s.CipherSuites = []uint16{gmtls.TLS_ECDHE_ECDSA_WITH_AES_128_GCM_SHA256}
	checkFail(t, "tls nosuite for key", run(t, s, tlsClient(), up, down, 0))
	// untrusted server
	c = gmClient(w)
	c.RootCAs = w.other.pool()
	checkFail(t, "gm untrusted server", run(t, serverFor(w, "gm", "s"), c, up, down, 0))
	c = gmClient(w)
	c.ServerName = "other.name"
	checkFail(t, "gm wrong name", run(t, serverFor(w, "gm", "s"), c, up, down, 0))
	tc := tlsClient()
	tc.ServerName = "other.name"
	checkFail(t, "tls wrong name", run(t, serverFor(w, "auto", "c"), tc, up, down, 0))

	// std peers
	{
		cc, sc := tcpPair(t)
		client := stdtls.Client(cc, &stdtls.Config{RootCAs: w.std.stdPool(), ServerName: srvName})
		server := gmtls.Server(sc, serverFor(w, "gm", "s"))
		r := drive2(client, server, func() { cc.Close() }, func() { sc.Close() }, up, down, 0)
		if r.timeout || r.cerr == nil || r.serr == nil || r.cpanic != nil || r.span != nil {
			t.Errorf("std->gm-only: %v", r)
		}
	}
	{
		cc, sc := tcpPair(t)
		client := gmtls.Client(cc, gmClient(w))
		server := stdtls.Server(sc, &stdtls.Config{Certificates: []stdtls.Certificate{w.rsaSrvStd}})
		r := drive2(client, server, func() { cc.Close() }, func() { sc.Close() }, up, down, 0)
		if r.timeout || r.cerr == nil || r.serr == nil || r.cpanic != nil || r.span != nil {
			t.Errorf("gm->std: %v", r)
		}
	}
}
