package gmtls_test

import (
	"bytes"
	"fmt"
	"io"
	"net"
	"net/http"
	"testing"

	"github.com/tjfoc/gmsm/gmtls"
)

func TestHTTPSClientBody(t *testing.T) {
	w := getWorld()
	scfg := gmServer(w, "gm")
	inner, err := net.Listen("tcp", "127.0.0.1:0")
	if err != nil {
		t.Fatal(err)
	}
	ln := gmtls.NewListener(inner, scfg)
	defer ln.Close()
	mux := http.NewServeMux()
	mux.HandleFunc("/", func(wr http.ResponseWriter, r *http.Request) {
		var n int
		fmt.Sscan(r.URL.Query().Get("n"), &n)
		wr.Write(payload(n, 7))
	})
	go http.Serve(ln, mux)
	port := inner.Addr().(*net.TCPAddr).Port
	for _, mk := range []string{"simple", "custom"} {
		for _, n := range []int{10, 3000, 5000, 100000, 204800} {
			var cl *http.Client
			cfg := gmClient(w)
			if mk == "simple" {
				cl = &http.Client{Transport: gmtls.NewSimpleRoundTripper(cfg)}
			} else {
				cl = gmtls.NewCustomHTTPSClient(cfg)
			}
			resp, err := cl.Get(fmt.Sprintf("https://127.0.0.1:%d/?n=%d", port, n))
			if err != nil {
				t.Errorf("%s n=%d: %v", mk, n, err)
				continue
			}
			body, err := io.ReadAll(resp.Body)
			resp.Body.Close()
			if err != nil || !bytes.Equal(body, payload(n, 7)) {
				t.Errorf("%s n=%d: read %d bytes, err=%v", mk, n, len(body), err)
			}
		}
	}
}
