package gmtls_test

import (
	"bytes"
	stdtls "crypto/tls"
	"fmt"
	"testing"

	"github.com/tjfoc/gmsm/gmtls"
)

func TestStdDefaults(t *testing.T) {
	w := getWorld()
	up, down := payload(2000, 5), payload(3333, 6)
	for _, alpn := range []int{0, 1, 2, 3} {
		for _, srvcert := range []string{"rsa", "ec"} {
			for _, smode := range []string{"tls", "auto"} {
				srv := w.rsaSrv
				if srvcert == "ec" {
					srv = w.ecSrv
				}
				srv.OCSPStaple = []byte("fake ocsp staple")
				srv.SignedCertificateTimestamps = [][]byte{[]byte("sct1"), []byte("sct2")}
				var scfg *gmtls.Config
				if smode == "tls" {
					scfg = &gmtls.Config{Certificates: []gmtls.Certificate{srv}}
				} else {
					scfg, _ = gmtls.NewBasicAutoSwitchConfig(&w.sig, &w.enc, &srv)
				}
				ccfg := &stdtls.Config{RootCAs: w.std.stdPool(), ServerName: srvName}
				switch alpn {
				case 1:
					scfg.NextProtos = []string{"h2", "http/1.1"}
					ccfg.NextProtos = []string{"http/1.1", "h2"}
				case 2:
					ccfg.NextProtos = []string{"http/1.1", "h2"}
				case 3:
					scfg.NextProtos = []string{"h2", "http/1.1"}
				}
				cc, sc := tcpPair(t)
				client := stdtls.Client(cc, ccfg)
				server := gmtls.Server(sc, scfg)
				r := drive2(client, server, func() { cc.Close() }, func() { sc.Close() }, up, down, 500)
				nm := fmt.Sprintf("std->gm(%s) alpn%d %s", smode, alpn, srvcert)
				if r.timeout || r.cerr != nil || r.serr != nil || r.cpanic != nil || r.span != nil {
					t.Errorf("%s: %v", nm, r)
				} else if !bytes.Equal(r.cgot, down) || !bytes.Equal(r.sgot, up) {
					t.Errorf("%s: payload mismatch", nm)
				} else {
					cs, ss := client.ConnectionState(), server.ConnectionState()
					if cs.Version != ss.Version || cs.CipherSuite != ss.CipherSuite || cs.NegotiatedProtocol != ss.NegotiatedProtocol {
						t.Errorf("%s: disagreement %x %x %q %q", nm, cs.Version, ss.Version, cs.NegotiatedProtocol, ss.NegotiatedProtocol)
					}
					if alpn == 1 && cs.NegotiatedProtocol != "http/1.1" && cs.NegotiatedProtocol != "h2" {
						t.Errorf("%s: proto %q", nm, cs.NegotiatedProtocol)
					}
					if string(cs.OCSPResponse) != "fake ocsp staple" || len(cs.SignedCertificateTimestamps) != 2 {
						t.Errorf("%s: staple %q scts %d", nm, cs.OCSPResponse, len(cs.SignedCertificateTimestamps))
					}
				}
				cc.Close()
				sc.Close()
			}
			// gmtls client -> std server
			srv := w.rsaSrvStd
			if srvcert == "ec" {
				srv = w.ecSrvStd
			}
			srv.OCSPStaple = []byte("fake ocsp staple")
			srv.SignedCertificateTimestamps = [][]byte{[]byte("sct1"), []byte("sct2")}
			scfg := &stdtls.Config{Certificates: []stdtls.Certificate{srv}}
			ccfg := &gmtls.Config{RootCAs: w.std.gmPool(), ServerName: srvName}
			switch alpn {
			case 1:
				scfg.NextProtos = []string{"h2", "http/1.1"}
				ccfg.NextProtos = []string{"http/1.1", "h2"}
			case 2:
				ccfg.NextProtos = []string{"http/1.1", "h2"}
			case 3:
				scfg.NextProtos = []string{"h2", "http/1.1"}
			}
			cc, sc := tcpPair(t)
			client := gmtls.Client(cc, ccfg)
			server := stdtls.Server(sc, scfg)
			r := drive2(client, server, func() { cc.Close() }, func() { sc.Close() }, up, down, 500)
			nm := fmt.Sprintf("gm->std alpn%d %s", alpn, srvcert)
			if r.timeout || r.cerr != nil || r.serr != nil || r.cpanic != nil || r.span != nil {
				t.Errorf("%s: %v", nm, r)
			} else if !bytes.Equal(r.cgot, down) || !bytes.Equal(r.sgot, up) {
				t.Errorf("%s: payload mismatch", nm)
			} else {
				cs, ss := client.ConnectionState(), server.ConnectionState()
				if cs.Version != ss.Version || cs.CipherSuite != ss.CipherSuite || cs.NegotiatedProtocol != ss.NegotiatedProtocol {
					t.Errorf("%s: disagreement %x %x %q %q", nm, cs.Version, ss.Version, cs.NegotiatedProtocol, ss.NegotiatedProtocol)
				}
				if string(cs.OCSPResponse) != "fake ocsp staple" || len(cs.SignedCertificateTimestamps) != 2 {
					t.Errorf("%s: staple %q scts %d", nm, cs.OCSPResponse, len(cs.SignedCertificateTimestamps))
				}
			}
			cc.Close()
			sc.Close()
		}
	}
}
