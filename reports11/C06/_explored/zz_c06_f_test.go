package gmtls_test

import (
	"fmt"
	"testing"

	"github.com/tjfoc/gmsm/gmtls"
	"github.com/tjfoc/gmsm/x509"
)

func TestIntermediate(t *testing.T) {
	w := getWorld()
	inter := newSM2CA("inter", w.root)
	inter2 := newSM2CA("inter2", w.root)
	sig := inter.issue(srvName, x509.KeyUsageDigitalSignature, nil, inter.der)
	enc := inter.issue(srvName, x509.KeyUsageKeyEncipherment|x509.KeyUsageDataEncipherment, nil, inter.der)
	enc2 := inter2.issue(srvName, x509.KeyUsageKeyEncipherment|x509.KeyUsageDataEncipherment, nil, inter2.der)
	cli := inter2.issue("client", x509.KeyUsageDigitalSignature, []x509.ExtKeyUsage{x509.ExtKeyUsageClientAuth}, inter2.der)
	up, down := payload(100, 1), payload(100, 2)
	for _, mode := range []string{"gm", "auto"} {
		for _, supply := range []string{"s", "c"} {
			for _, e := range []*gmtls.Certificate{&enc, &enc2} {
				for _, auth := range []gmtls.ClientAuthType{0, 4} {
					cfg := &gmtls.Config{GMSupport: gmtls.NewGMSupport(), ClientCAs: w.root.pool(), ClientAuth: auth}
					if mode == "auto" {
						cfg.GMSupport.EnableMixMode()
					}
					if supply == "s" {
						cfg.Certificates = []gmtls.Certificate{sig, *e}
					} else {
						ee := e
						cfg.GetCertificate = func(*gmtls.ClientHelloInfo) (*gmtls.Certificate, error) { return &sig, nil }
						cfg.GetKECertificate = func(*gmtls.ClientHelloInfo) (*gmtls.Certificate, error) { return ee, nil }
					}
					cfg.CipherSuites = []uint16{gmtls.GMTLS_ECC_SM4_CBC_SM3}
					c := gmClient(w)
					c.Certificates = []gmtls.Certificate{cli}
					c.ClientSessionCache = gmtls.NewLRUClientSessionCache(1)
					for i := 0; i < 2; i++ {
						r := run(t, cfg, c, up, down, 0)
						nm := fmt.Sprintf("%s/%s/enc2=%v/auth%d#%d", mode, supply, e == &enc2, auth, i)
						if checkOK(t, nm, r, up, down) {
							if i == 1 && !r.c.state.DidResume {
								t.Errorf("%s: not resumed", nm)
							}
							want := 3
							if e == &enc2 {
								want = 4
							}
							if len(r.c.state.PeerCertificates) != want {
								t.Errorf("%s: client sees %d certs", nm, len(r.c.state.PeerCertificates))
							}
							if auth == 4 && len(r.s.state.PeerCertificates) != 2 {
								t.Errorf("%s: server sees %d certs", nm, len(r.s.state.PeerCertificates))
							}
						}
					}
				}
			}
		}
	}
}
