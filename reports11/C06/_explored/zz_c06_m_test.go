package gmtls_test

import (
	"fmt"
	"testing"

	"github.com/tjfoc/gmsm/gmtls"
	"github.com/tjfoc/gmsm/x509"
)

func TestBigChains(t *testing.T) {
	w := getWorld()
	up, down := payload(100, 1), payload(100, 2)
	// build a chain of N intermediates
	for _, n := range []int{5, 30, 60} {
		ca := w.root
		var chain [][]byte
		for i := 0; i < n; i++ {
			ca = newSM2CA(fmt.Sprintf("deep-%d-%d-with-a-long-name-to-make-the-certificate-bigger-xxxxxxxxxxxxxxxxxxxxxxxxxxxxxxxxxxxxxxxxxxxxxxxxxxxxxxxxx", n, i), ca)
			chain = append([][]byte{ca.der}, chain...)
		}
		sig := ca.issue(srvName, x509.KeyUsageDigitalSignature, nil, chain...)
		enc := ca.issue(srvName, x509.KeyUsageKeyEncipherment, nil, chain...)
		cli := ca.issue("client", x509.KeyUsageDigitalSignature, nil, chain...)
		total := 0
		for _, c := range sig.Certificate {
			total += len(c)
		}
		for _, mode := range []string{"gm", "auto"} {
			scfg := &gmtls.Config{GMSupport: gmtls.NewGMSupport(), Certificates: []gmtls.Certificate{sig, enc}, ClientCAs: w.root.pool(), ClientAuth: gmtls.RequireAndVerifyClientCert,
				CipherSuites: []uint16{gmtls.GMTLS_ECC_SM4_CBC_SM3}}
			if mode == "auto" {
				scfg.GMSupport.EnableMixMode()
			}
			ccfg := gmClient(w)
			ccfg.Certificates = []gmtls.Certificate{cli}
			ccfg.ClientSessionCache = gmtls.NewLRUClientSessionCache(1)
			for i := 0; i < 3; i++ {
				r := run(t, scfg, ccfg, up, down, 0)
				nm := fmt.Sprintf("n=%d (%d bytes) %s #%d", n, total, mode, i)
				if checkOK(t, nm, r, up, down) {
					t.Logf("%s: resumed=%v peer certs c=%d s=%d", nm, r.c.state.DidResume, len(r.c.state.PeerCertificates), len(r.s.state.PeerCertificates))
				}
			}
		}
	}
}
