package gmtls_test

// C06 (scope note in README): gmtls.NewHTTPSClient / NewAuthHTTPSClient / NewSimpleRoundTripper
// lose every response body that is not already buffered when RoundTrip returns, and cannot
// reach an https URL without an explicit port.
//
// Place this file in gmtls/ and run
//
//	unshare -n sh -c "ip link set lo up; go test -vet=off -count=1 -run 'TestC06HTTP' ./gmtls/"

import (
	"bytes"
	"crypto/rand"
	"crypto/x509/pkix"
	"fmt"
	"io"
	"math/big"
	"net"
	"net/http"
	"testing"
	"time"

	"github.com/tjfoc/gmsm/gmtls"
	"github.com/tjfoc/gmsm/sm2"
	"github.com/tjfoc/gmsm/x509"
)

func c06httpWorld(t *testing.T) (srv *gmtls.Config, pool *x509.CertPool) {
	caKey, err := sm2.GenerateKey(rand.Reader)
	if err != nil {
		t.Fatal(err)
	}
	caT := &x509.Certificate{SerialNumber: big.NewInt(1), Subject: pkix.Name{CommonName: "c06 http root"},
		NotBefore: time.Now().Add(-time.Hour), NotAfter: time.Now().Add(time.Hour),
		KeyUsage: x509.KeyUsageCertSign, BasicConstraintsValid: true, IsCA: true, SignatureAlgorithm: x509.SM2WithSM3}
	caDER, err := x509.CreateCertificate(caT, caT, &caKey.PublicKey, caKey)
	if err != nil {
		t.Fatal(err)
	}
	ca, _ := x509.ParseCertificate(caDER)
	issue := func(serial int64, ku x509.KeyUsage) gmtls.Certificate {
		k, _ := sm2.GenerateKey(rand.Reader)
		tm := &x509.Certificate{SerialNumber: big.NewInt(serial), Subject: pkix.Name{CommonName: "localhost"},
			IPAddresses: []net.IP{net.ParseIP("127.0.0.1")}, DNSNames: []string{"localhost"},
			NotBefore: time.Now().Add(-time.Hour), NotAfter: time.Now().Add(time.Hour), KeyUsage: ku, SignatureAlgorithm: x509.SM2WithSM3}
		der, err := x509.CreateCertificate(tm, ca, &k.PublicKey, caKey)
		if err != nil {
			t.Fatal(err)
		}
		return gmtls.Certificate{Certificate: [][]byte{der}, PrivateKey: k}
	}
	pool = x509.NewCertPool()
	pool.AddCert(ca)
	return &gmtls.Config{GMSupport: gmtls.NewGMSupport(),
		Certificates: []gmtls.Certificate{issue(2, x509.KeyUsageDigitalSignature), issue(3, x509.KeyUsageKeyEncipherment|x509.KeyUsageDataEncipherment)}}, pool
}

func c06body(n int) []byte {
	p := make([]byte, n)
	for i := range p {
		p[i] = byte(i*7) ^ byte(i>>8)
	}
	return p
}

func TestC06HTTPResponseBodyTruncated(t *testing.T) {
	scfg, pool := c06httpWorld(t)
	inner, err := net.Listen("tcp", "127.0.0.1:0")
	if err != nil {
		t.Fatal(err)
	}
	ln := gmtls.NewListener(inner, scfg)
	defer ln.Close()
	go http.Serve(ln, http.HandlerFunc(func(w http.ResponseWriter, r *http.Request) {
		var n int
		fmt.Sscan(r.URL.Query().Get("n"), &n)
		w.Write(c06body(n))
	}))
	port := inner.Addr().(*net.TCPAddr).Port
	clients := map[string]*http.Client{
		"NewHTTPSClient (SimpleRoundTripper)": gmtls.NewHTTPSClient(pool),
		"NewCustomHTTPSClient (control)":      gmtls.NewCustomHTTPSClient(&gmtls.Config{GMSupport: gmtls.NewGMSupport(), RootCAs: pool}),
	}
	for name, cl := range clients {
		for _, n := range []int{10, 1000, 3000, 16384, 204800} {
			resp, err := cl.Get(fmt.Sprintf("https://127.0.0.1:%d/?n=%d", port, n))
			if err != nil {
				t.Errorf("%s n=%d: %v", name, n, err)
				continue
			}
			body, err := io.ReadAll(resp.Body)
			resp.Body.Close()
			if err != nil || !bytes.Equal(body, c06body(n)) {
				t.Errorf("%s: response body of %d bytes: received %d bytes, err=%v", name, n, len(body), err)
			}
		}
	}
}

func TestC06HTTPDefaultPort(t *testing.T) {
	scfg, pool := c06httpWorld(t)
	inner, err := net.Listen("tcp", "127.0.0.1:443")
	if err != nil {
		t.Skip("cannot listen on 443: ", err)
	}
	ln := gmtls.NewListener(inner, scfg)
	defer ln.Close()
	go http.Serve(ln, http.HandlerFunc(func(w http.ResponseWriter, r *http.Request) { w.Write([]byte("ok")) }))
	for name, cl := range map[string]*http.Client{
		"NewHTTPSClient (SimpleRoundTripper)": gmtls.NewHTTPSClient(pool),
		"NewCustomHTTPSClient (control)":      gmtls.NewCustomHTTPSClient(&gmtls.Config{GMSupport: gmtls.NewGMSupport(), RootCAs: pool}),
	} {
		resp, err := cl.Get("https://127.0.0.1/")
		if err != nil {
			t.Errorf("%s: GET https://127.0.0.1/ : %v", name, err)
			continue
		}
		resp.Body.Close()
	}
}
