package gmtls

import (
	"bytes"
	"crypto/rsa"
	"fmt"
	"io"
	"io/ioutil"
	"net"
	"os"
	"sync"
	"testing"
	"time"

	"github.com/tjfoc/gmsm/x509"
)

// ---- buffered in-memory duplex connection ----

type halfPipe struct {
	mu     sync.Mutex
	cond   *sync.Cond
	buf    bytes.Buffer
	closed bool
}

func newHalfPipe() *halfPipe {
	h := &halfPipe{}
	h.cond = sync.NewCond(&h.mu)
	return h
}

func (h *halfPipe) Write(p []byte) (int, error) {
	h.mu.Lock()
	defer h.mu.Unlock()
	if h.closed {
		return 0, io.ErrClosedPipe
	}
	h.buf.Write(p)
	h.cond.Broadcast()
	return len(p), nil
}

func (h *halfPipe) Read(p []byte) (int, error) {
	h.mu.Lock()
	defer h.mu.Unlock()
	for h.buf.Len() == 0 && !h.closed {
		h.cond.Wait()
	}
	if h.buf.Len() > 0 {
		return h.buf.Read(p)
	}
	return 0, io.EOF
}

func (h *halfPipe) Close() {
	h.mu.Lock()
	h.closed = true
	h.cond.Broadcast()
	h.mu.Unlock()
}

type bufConn struct {
	r, w *halfPipe
}

func (c *bufConn) Read(p []byte) (int, error)         { return c.r.Read(p) }
func (c *bufConn) Write(p []byte) (int, error)        { return c.w.Write(p) }
func (c *bufConn) Close() error                       { c.w.Close(); c.r.Close(); return nil }
func (c *bufConn) LocalAddr() net.Addr                { return &net.TCPAddr{} }
func (c *bufConn) RemoteAddr() net.Addr               { return &net.TCPAddr{} }
func (c *bufConn) SetDeadline(t time.Time) error      { return nil }
func (c *bufConn) SetReadDeadline(t time.Time) error  { return nil }
func (c *bufConn) SetWriteDeadline(t time.Time) error { return nil }

func bufPipe() (net.Conn, net.Conn) {
	a, b := newHalfPipe(), newHalfPipe()
	return &bufConn{r: a, w: b}, &bufConn{r: b, w: a}
}

// ---- certificates ----

const certDir = "websvr/certs/"

func mustPair(t testing.TB, c, k string) Certificate {
	cert, err := LoadX509KeyPair(certDir+c, certDir+k)
	if err != nil {
		t.Fatalf("load %s: %v", c, err)
	}
	return cert
}

func pool(t testing.TB, f string) *x509.CertPool {
	p := x509.NewCertPool()
	b, err := ioutil.ReadFile(certDir + f)
	if err != nil {
		t.Fatal(err)
	}
	p.AppendCertsFromPEM(b)
	return p
}

func quiet() func() {
	old := os.Stdout
	null, _ := os.OpenFile(os.DevNull, os.O_WRONLY, 0)
	os.Stdout = null
	return func() { os.Stdout = old; null.Close() }
}

type result struct {
	err      error
	panicked interface{}
	complete bool
}

func runHS(c *Conn) (r result) {
	defer func() {
		if p := recover(); p != nil {
			r.panicked = p
		}
	}()
	r.err = c.Handshake()
	r.complete = c.ConnectionState().HandshakeComplete
	return
}

func withTimeout(t testing.TB, d time.Duration, f func() result) (result, bool) {
	ch := make(chan result, 1)
	go func() { ch <- f() }()
	select {
	case r := <-ch:
		return r, true
	case <-time.After(d):
		return result{}, false
	}
}

// ---- SSL 3.0 scripted client against the TLS server ----

func ssl3Client(conn net.Conn, cfg *Config, clientCert bool, mut func(step string, b []byte) []byte) (err error) {
	return scriptClient(conn, cfg, VersionSSL30, clientCert, mut)
}

func scriptClient(conn net.Conn, cfg *Config, vers uint16, clientCert bool, mut func(step string, b []byte) []byte) (err error) {
	c := Client(conn, cfg)
	hello, err := makeClientHello(cfg)
	if err != nil {
		return err
	}
	hello.vers = vers
	hs := &clientHandshakeState{c: c, hello: hello}
	helloRaw := mut("hello", hello.marshal())
	if _, err := c.writeRecord(recordTypeHandshake, helloRaw); err != nil {
		return err
	}
	msg, err := c.readHandshake()
	if err != nil {
		return err
	}
	sh, ok := msg.(*serverHelloMsg)
	if !ok {
		return fmt.Errorf("not a server hello: %T", msg)
	}
	hs.serverHello = sh
	c.vers = sh.vers
	c.haveVers = true
	if err := hs.pickCipherSuite(); err != nil {
		return err
	}
	if _, err := hs.processServerHello(); err != nil {
		return err
	}
	hs.finishedHash = newFinishedHash(c.vers, hs.suite)
	hs.finishedHash.Write(helloRaw)
	hs.finishedHash.Write(sh.marshal())

	msg, err = c.readHandshake()
	if err != nil {
		return err
	}
	certMsg, ok := msg.(*certificateMsg)
	if !ok {
		return fmt.Errorf("not a certificate: %T", msg)
	}
	hs.finishedHash.Write(certMsg.marshal())
	leaf, err := x509.ParseCertificate(certMsg.certificates[0])
	if err != nil {
		return err
	}
	c.peerCertificates = []*x509.Certificate{leaf}
	ka := hs.suite.ka(c.vers)
	var certReq *certificateRequestMsg
	for {
		msg, err = c.readHandshake()
		if err != nil {
			return err
		}
		switch m := msg.(type) {
		case *serverKeyExchangeMsg:
			hs.finishedHash.Write(m.marshal())
			if err := ka.processServerKeyExchange(cfg, hello, sh, leaf, m); err != nil {
				return err
			}
			continue
		case *certificateRequestMsg:
			certReq = m
			hs.finishedHash.Write(m.marshal())
			continue
		case *serverHelloDoneMsg:
			hs.finishedHash.Write(m.marshal())
		default:
			return fmt.Errorf("unexpected %T", msg)
		}
		break
	}
	var chain *Certificate
	if certReq != nil {
		cm := new(certificateMsg)
		if clientCert && len(cfg.Certificates) > 0 {
			chain = &cfg.Certificates[0]
			cm.certificates = chain.Certificate
		}
		cmRaw := mut("cert", cm.marshal())
		hs.finishedHash.Write(cmRaw)
		if _, err := c.writeRecord(recordTypeHandshake, cmRaw); err != nil {
			return err
		}
	}
	pms, ckx, err := ka.generateClientKeyExchange(cfg, hello, leaf)
	if err != nil {
		return err
	}
	if _, isRSA := ka.(rsaKeyAgreement); isRSA && c.vers == VersionSSL30 {
		ckx.ciphertext = ckx.ciphertext[2:]
	}
	ckx.raw = nil
	raw := mut("ckx", ckx.marshal())
	hs.finishedHash.Write(raw)
	if _, err := c.writeRecord(recordTypeHandshake, raw); err != nil {
		return err
	}
	hs.masterSecret = masterFromPreMasterSecret(c.vers, hs.suite, pms, hello.random, sh.random)
	if chain != nil {
		cv := &certificateVerifyMsg{hasSignatureAndHash: c.vers >= VersionTLS12}
		key := chain.PrivateKey.(*rsa.PrivateKey)
		_, sigType, hashFunc, err := pickSignatureAlgorithm(key.Public(), certReq.supportedSignatureAlgorithms, supportedSignatureAlgorithms, c.vers)
		if err != nil {
			return err
		}
		digest, err := hs.finishedHash.hashForClientCertificate(sigType, hashFunc, hs.masterSecret)
		if err != nil {
			return err
		}
		cv.signature, err = key.Sign(cfg.rand(), digest, hashFunc)
		if err != nil {
			return err
		}
		raw := mut("cv", cv.marshal())
		hs.finishedHash.Write(raw)
		if _, err := c.writeRecord(recordTypeHandshake, raw); err != nil {
			return err
		}
	}
	if err := hs.establishKeys(); err != nil {
		return err
	}
	if err := hs.sendFinished(c.clientFinished[:]); err != nil {
		return err
	}
	if err := hs.readSessionTicket(); err != nil {
		return err
	}
	if err := hs.readFinished(c.serverFinished[:]); err != nil {
		return err
	}
	return nil
}


// A server with the zero Config (MinVersion == 0, documented as "TLS 1.0 is taken as the minimum")
// completes an SSL 3.0 handshake with a client whose ClientHello.client_version is 0x0300.
func TestC15SSL30AcceptedByDefault(t *testing.T) {
	defer quiet()()
	rsaPair := mustPair(t, "rsa_sign.cer", "rsa_sign_key.pem")
	cc, sc := bufPipe()
	srv := Server(sc, &Config{Certificates: []Certificate{rsaPair}}) // MinVersion left at zero
	ch := make(chan result, 1)
	go func() { r := runHS(srv); ch <- r }()
	ccfg := &Config{InsecureSkipVerify: true, CipherSuites: []uint16{TLS_RSA_WITH_AES_128_CBC_SHA}}
	cerr := scriptClient(cc, ccfg, VersionSSL30, false, func(_ string, b []byte) []byte { return b })
	r := <-ch
	if r.complete {
		t.Fatalf("server with MinVersion==0 completed an SSL 3.0 handshake (version %#04x, client err=%v, server err=%v); Config.MinVersion documents TLS 1.0 as the default minimum",
			srv.ConnectionState().Version, cerr, r.err)
	}
}
