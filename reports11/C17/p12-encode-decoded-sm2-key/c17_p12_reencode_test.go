package pkcs12

// Place in pkcs12/ and run
//   go test -vet=off -count=1 -run TestC17EncodeDecodedSM2Key ./pkcs12/

import (
	"crypto/ecdsa"
	"crypto/rand"
	"crypto/x509/pkix"
	"math/big"
	"testing"
	"time"

	"github.com/tjfoc/gmsm/sm2"
	x "github.com/tjfoc/gmsm/x509"
)

func TestC17EncodeDecodedSM2Key(t *testing.T) {
	key, err := sm2.GenerateKey(rand.Reader)
	if err != nil {
		t.Fatal(err)
	}
	tpl := &x.Certificate{SerialNumber: big.NewInt(1), Subject: pkix.Name{CommonName: "sm2 holder"},
		NotBefore: time.Now().Add(-time.Hour), NotAfter: time.Now().Add(time.Hour), SignatureAlgorithm: x.SM2WithSM3}
	der, err := x.CreateCertificate(tpl, tpl, &key.PublicKey, key)
	if err != nil {
		t.Fatal(err)
	}
	cert, err := x.ParseCertificate(der)
	if err != nil {
		t.Fatal(err)
	}
	for _, pw := range []string{"", "pass", "пароль"} {
		pfx, err := Encode(key, cert, nil, pw)
		if err != nil {
			t.Fatal(err)
		}
		k, certs, err := DecodeAll(pfx, pw)
		if err != nil {
			t.Fatal(err)
		}
		ek, ok := k.(*ecdsa.PrivateKey)
		if !ok || ek.D.Cmp(key.D) != 0 || ek.Curve != sm2.P256Sm2() {
			t.Fatalf("DecodeAll returned %T", k)
		}
		// the SM2 key in exactly the form the package hands it out (e.g. to change the password)
		pfx2, err := Encode(k, certs[0], nil, pw+"2")
		if err != nil {
			t.Errorf("password %q: Encode refuses the SM2 key that DecodeAll returned: %v", pw, err)
			continue
		}
		k2, _, err := DecodeAll(pfx2, pw+"2")
		if err != nil || k2.(*ecdsa.PrivateKey).D.Cmp(key.D) != 0 {
			t.Errorf("password %q: re-encoded bundle does not decode to the same key: %v", pw, err)
		}
	}
}
