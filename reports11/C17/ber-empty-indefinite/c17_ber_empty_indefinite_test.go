package x509

// Place in x509/ (package-internal: it swaps the encoding of the attached content) and run
//   go test -vet=off -count=1 -run TestC17EmptyIndefiniteContent ./x509/

import (
	"crypto/rand"
	"crypto/rsa"
	stdx509 "crypto/x509"
	"crypto/x509/pkix"
	"encoding/asn1"
	"math/big"
	"testing"
	"time"
)

func TestC17EmptyIndefiniteContent(t *testing.T) {
	key, err := rsa.GenerateKey(rand.Reader, 1024)
	if err != nil {
		t.Fatal(err)
	}
	tpl := &stdx509.Certificate{SerialNumber: big.NewInt(1), Subject: pkix.Name{CommonName: "signer"},
		NotBefore: time.Now().Add(-time.Hour), NotAfter: time.Now().Add(time.Hour)}
	der, err := stdx509.CreateCertificate(rand.Reader, tpl, tpl, &key.PublicKey, key)
	if err != nil {
		t.Fatal(err)
	}
	cert, err := ParseCertificate(der)
	if err != nil {
		t.Fatal(err)
	}
	// four BER encodings of the same attached content, the empty octet string
	for _, enc := range [][]byte{
		{0x04, 0x00},                         // primitive
		{0x24, 0x00},                         // constructed, definite, no segment
		{0x24, 0x80, 0x04, 0x00, 0x00, 0x00}, // constructed, indefinite, one empty segment
		{0x24, 0x80, 0x00, 0x00},             // constructed, indefinite, no segment  <- refused
	} {
		sd, err := NewSignedData(nil)
		if err != nil {
			t.Fatal(err)
		}
		if err := sd.AddSigner(cert, key, SignerInfoConfig{}); err != nil {
			t.Fatal(err)
		}
		sd.sd.ContentInfo.Content = asn1.RawValue{Class: 2, Tag: 0, IsCompound: true, Bytes: enc}
		obj, err := sd.Finish()
		if err != nil {
			t.Fatal(err)
		}
		p7, err := ParsePKCS7(obj)
		if err != nil {
			t.Errorf("content encoded as % x: ParsePKCS7: %v", enc, err)
			continue
		}
		if len(p7.Content) != 0 {
			t.Errorf("content encoded as % x: content %x", enc, p7.Content)
		}
		if err := p7.Verify(); err != nil {
			t.Errorf("content encoded as % x: genuine signed data refused: %v", enc, err)
		}
	}
	// the transcoder alone
	for _, ber := range [][]byte{{0x30, 0x80, 0x00, 0x00}, {0x30, 0x04, 0x24, 0x80, 0x00, 0x00}, {0x30, 0x80, 0x31, 0x80, 0x00, 0x00, 0x00, 0x00}} {
		if _, err := ber2der(ber); err != nil {
			t.Errorf("ber2der(% x): %v", ber, err)
		}
	}
}
