package main

func genTLS(repo string, write writer)    {}
func genShared(repo string, write writer) {}
