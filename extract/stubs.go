package main

func genShared(repo string, write writer) {}
