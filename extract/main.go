// Command extract regenerates Lean definitions ("facts") from the working tree of
// tjfoc/gmsm.  It only uses the Go standard library (go/parser, go/ast, go/token).
//
//	extract -repo /repo -out /verif/lean/Gmsm/Gen
//
// Every run deletes the previously generated files first.  If something that is on the
// list below can no longer be found or is not in the supported shape, the run still
// writes the remaining files, records the problem in <out>/extract_status.json and
// exits 3, so that the caller can treat it as a broken obligation instead of silently
// skipping it.
package main

import (
	"encoding/json"
	"flag"
	"fmt"
	"go/ast"
	"go/parser"
	"go/token"
	"math/big"
	"os"
	"path/filepath"
	"sort"
	"strings"
)

type problem struct {
	Item string `json:"item"`
	Msg  string `json:"msg"`
}

var problems []problem

func fail(item, format string, a ...interface{}) {
	problems = append(problems, problem{item, fmt.Sprintf(format, a...)})
}

type pkgInfo struct {
	fset  *token.FileSet
	files map[string]*ast.File
}

var pkgs = map[string]*pkgInfo{}

func loadPkg(repo, dir string) *pkgInfo {
	if p, ok := pkgs[dir]; ok {
		return p
	}
	fset := token.NewFileSet()
	p := &pkgInfo{fset: fset, files: map[string]*ast.File{}}
	ents, err := os.ReadDir(filepath.Join(repo, dir))
	if err != nil {
		fail(dir, "cannot read dir: %v", err)
		pkgs[dir] = p
		return p
	}
	for _, e := range ents {
		n := e.Name()
		if e.IsDir() || !strings.HasSuffix(n, ".go") || strings.HasSuffix(n, "_test.go") || strings.HasSuffix(n, "_verif.go") {
			continue
		}
		f, err := parser.ParseFile(fset, filepath.Join(repo, dir, n), nil, parser.ParseComments)
		if err != nil {
			fail(dir+"/"+n, "parse error: %v", err)
			continue
		}
		p.files[n] = f
	}
	pkgs[dir] = p
	return p
}

// findVar returns the initialiser expression of a package-level var or const.
func (p *pkgInfo) findVar(name string) ast.Expr {
	for _, f := range p.files {
		for _, d := range f.Decls {
			gd, ok := d.(*ast.GenDecl)
			if !ok || (gd.Tok != token.VAR && gd.Tok != token.CONST) {
				continue
			}
			for _, s := range gd.Specs {
				vs := s.(*ast.ValueSpec)
				for i, n := range vs.Names {
					if n.Name == name && i < len(vs.Values) {
						return vs.Values[i]
					}
				}
			}
		}
	}
	return nil
}

func (p *pkgInfo) findFunc(recv, name string) *ast.FuncDecl {
	for _, f := range p.files {
		for _, d := range f.Decls {
			fd, ok := d.(*ast.FuncDecl)
			if !ok || fd.Name.Name != name {
				continue
			}
			r := ""
			if fd.Recv != nil && len(fd.Recv.List) > 0 {
				t := fd.Recv.List[0].Type
				if st, ok := t.(*ast.StarExpr); ok {
					t = st.X
				}
				if id, ok := t.(*ast.Ident); ok {
					r = id.Name
				}
			}
			if r == recv {
				return fd
			}
		}
	}
	return nil
}

// evalInt evaluates an integer constant expression made of literals, unary minus,
// parentheses and + - * << | & operators.
func evalInt(e ast.Expr) (*big.Int, bool) {
	switch x := e.(type) {
	case *ast.BasicLit:
		if x.Kind != token.INT && x.Kind != token.CHAR {
			return nil, false
		}
		if x.Kind == token.CHAR {
			return nil, false
		}
		v, ok := new(big.Int).SetString(strings.ReplaceAll(x.Value, "_", ""), 0)
		return v, ok
	case *ast.ParenExpr:
		return evalInt(x.X)
	case *ast.UnaryExpr:
		v, ok := evalInt(x.X)
		if !ok {
			return nil, false
		}
		if x.Op == token.SUB {
			return v.Neg(v), true
		}
		if x.Op == token.ADD {
			return v, true
		}
		return nil, false
	case *ast.BinaryExpr:
		a, ok1 := evalInt(x.X)
		b, ok2 := evalInt(x.Y)
		if !ok1 || !ok2 {
			return nil, false
		}
		r := new(big.Int)
		switch x.Op {
		case token.ADD:
			return r.Add(a, b), true
		case token.SUB:
			return r.Sub(a, b), true
		case token.MUL:
			return r.Mul(a, b), true
		case token.SHL:
			return r.Lsh(a, uint(b.Uint64())), true
		case token.OR:
			return r.Or(a, b), true
		case token.AND:
			return r.And(a, b), true
		}
		return nil, false
	case *ast.CallExpr: // uint32(0x..) style conversions
		if len(x.Args) == 1 {
			return evalInt(x.Args[0])
		}
	}
	return nil, false
}

// intArray extracts `var name = [N]T{lit, lit, ...}` (or []T{...}).
func intArray(p *pkgInfo, item, name string) []*big.Int {
	e := p.findVar(name)
	if e == nil {
		fail(item, "variable %s not found", name)
		return nil
	}
	cl, ok := e.(*ast.CompositeLit)
	if !ok {
		fail(item, "variable %s is not a composite literal", name)
		return nil
	}
	var out []*big.Int
	for i, el := range cl.Elts {
		if kv, ok := el.(*ast.KeyValueExpr); ok {
			el = kv.Value
		}
		v, ok := evalInt(el)
		if !ok {
			fail(item, "element %d of %s is not an integer constant", i, name)
			return nil
		}
		out = append(out, v)
	}
	return out
}

func leanVec(b *strings.Builder, leanName string, bits int, vals []*big.Int) {
	fmt.Fprintf(b, "def %sArr : Array (BitVec %d) := #[\n", leanName, bits)
	for i, v := range vals {
		if i > 0 {
			b.WriteString(",")
			if i%8 == 0 {
				b.WriteString("\n")
			}
		}
		fmt.Fprintf(b, " 0x%s", v.Text(16))
	}
	b.WriteString("]\n")
	fmt.Fprintf(b, "def %s : Vector (BitVec %d) %d := ⟨%sArr, by decide +kernel⟩\n\n", leanName, bits, len(vals), leanName)
}

func leanNat(b *strings.Builder, leanName string, v *big.Int) {
	fmt.Fprintf(b, "def %s : Nat := 0x%s\n\n", leanName, v.Text(16))
}

func header(ns string, imports ...string) *strings.Builder {
	b := &strings.Builder{}
	b.WriteString("-- GENERATED by /verif/extract from /repo's working tree. Do not edit.\n")
	for _, im := range imports {
		fmt.Fprintf(b, "import %s\n", im)
	}
	fmt.Fprintf(b, "namespace %s\n\n", ns)
	return b
}

func writeFile(out, name string, b *strings.Builder, ns string) {
	fmt.Fprintf(b, "end %s\n", ns)
	if err := os.WriteFile(filepath.Join(out, name), []byte(b.String()), 0o644); err != nil {
		fail(name, "write: %v", err)
	}
}

func main() {
	repo := flag.String("repo", "/repo", "path of the gmsm working tree")
	out := flag.String("out", "", "output directory (lean/Gmsm/Gen)")
	flag.Parse()
	if *out == "" {
		fmt.Fprintln(os.Stderr, "need -out")
		os.Exit(2)
	}
	os.MkdirAll(*out, 0o755)
	old, _ := filepath.Glob(filepath.Join(*out, "*.lean"))
	// Generated files are rewritten only when their content changes (keeps lake incremental),
	// but files that are no longer produced are removed.
	produced := map[string]bool{}
	write := func(name string, b *strings.Builder, ns string) {
		fmt.Fprintf(b, "end %s\n", ns)
		path := filepath.Join(*out, name)
		produced[path] = true
		if cur, err := os.ReadFile(path); err == nil && string(cur) == b.String() {
			return
		}
		if err := os.WriteFile(path, []byte(b.String()), 0o644); err != nil {
			fail(name, "write: %v", err)
		}
	}

	genSM4(*repo, write)
	genSM3(*repo, write)
	genSM2(*repo, write)
	genTLS(*repo, write)
	genX509(*repo, write)
	genShared(*repo, write)

	for _, f := range old {
		if !produced[f] {
			os.Remove(f)
		}
	}
	sort.Slice(problems, func(i, j int) bool { return problems[i].Item < problems[j].Item })
	st, _ := json.MarshalIndent(map[string]interface{}{"problems": problems}, "", " ")
	os.WriteFile(filepath.Join(*out, "extract_status.json"), st, 0o644)
	if len(problems) > 0 {
		for _, p := range problems {
			fmt.Fprintf(os.Stderr, "extract: %s: %s\n", p.Item, p.Msg)
		}
		os.Exit(3)
	}
}

type writer func(name string, b *strings.Builder, ns string)

func genSM4(repo string, write writer) {
	p := loadPkg(repo, "sm4")
	b := header("Gen.SM4")
	for _, t := range []struct {
		name string
		bits int
		n    int
	}{{"sbox", 8, 256}, {"sbox0", 32, 256}, {"sbox1", 32, 256}, {"sbox2", 32, 256}, {"sbox3", 32, 256}, {"fk", 32, 4}, {"ck", 32, 32}} {
		v := intArray(p, "sm4."+t.name, t.name)
		if v == nil {
			continue
		}
		if len(v) != t.n {
			fail("sm4."+t.name, "expected %d elements, found %d", t.n, len(v))
			continue
		}
		leanVec(b, t.name, t.bits, v)
	}
	write("SM4Tables.lean", b, "Gen.SM4")
}
