package main

import (
	"fmt"
	"go/ast"
	"go/token"
	"go/types"
	"math/big"
	"strings"
)

// constTable collects the integer constants of a package (name -> value), resolving references between them.
func constTable(p *pkgInfo) map[string]*big.Int {
	raw := map[string]ast.Expr{}
	for _, f := range p.files {
		for _, d := range f.Decls {
			gd, ok := d.(*ast.GenDecl)
			if !ok || gd.Tok != token.CONST {
				continue
			}
			for _, sp := range gd.Specs {
				vs := sp.(*ast.ValueSpec)
				for i, n := range vs.Names {
					if i < len(vs.Values) {
						raw[n.Name] = vs.Values[i]
					}
				}
			}
		}
	}
	out := map[string]*big.Int{}
	var resolve func(e ast.Expr, depth int) (*big.Int, bool)
	resolve = func(e ast.Expr, depth int) (*big.Int, bool) {
		if depth > 8 {
			return nil, false
		}
		if v, ok := evalInt(e); ok {
			return v, true
		}
		switch x := e.(type) {
		case *ast.Ident:
			if r, ok := raw[x.Name]; ok {
				return resolve(r, depth+1)
			}
		case *ast.ParenExpr:
			return resolve(x.X, depth+1)
		case *ast.BinaryExpr:
			a, ok1 := resolve(x.X, depth+1)
			b, ok2 := resolve(x.Y, depth+1)
			if ok1 && ok2 {
				switch x.Op {
				case token.ADD:
					return new(big.Int).Add(a, b), true
				case token.SUB:
					return new(big.Int).Sub(a, b), true
				case token.MUL:
					return new(big.Int).Mul(a, b), true
				}
			}
		}
		return nil, false
	}
	for n, e := range raw {
		if v, ok := resolve(e, 0); ok {
			out[n] = v
		}
	}
	return out
}

func flagNames(e ast.Expr) []string {
	switch x := e.(type) {
	case *ast.Ident:
		return []string{x.Name}
	case *ast.BasicLit:
		return nil
	case *ast.BinaryExpr:
		return append(flagNames(x.X), flagNames(x.Y)...)
	case *ast.ParenExpr:
		return flagNames(x.X)
	}
	return []string{"?"}
}

func has(xs []string, s string) string {
	for _, x := range xs {
		if x == s {
			return "true"
		}
	}
	return "false"
}

// firstListIn returns the identifiers of the first []uint16{...} composite literal in fn's body
func firstListIn(fd *ast.FuncDecl) []string {
	var out []string
	found := false
	ast.Inspect(fd.Body, func(n ast.Node) bool {
		if found {
			return false
		}
		cl, ok := n.(*ast.CompositeLit)
		if !ok {
			return true
		}
		if at, ok := cl.Type.(*ast.ArrayType); ok {
			if id, ok := at.Elt.(*ast.Ident); ok && id.Name == "uint16" {
				for _, el := range cl.Elts {
					out = append(out, exprName(el))
				}
				found = true
				return false
			}
		}
		return true
	})
	return out
}

func genTLS(repo string, write writer) {
	p := loadPkg(repo, "gmtls")
	consts := constTable(p)
	b := header("Gen.TLS")
	val := func(item, name string) string {
		v, ok := consts[name]
		if !ok {
			fail(item, "constant %s not found", name)
			return "0"
		}
		return v.String()
	}
	table := func(varName, leanName string, withTLS12 bool) {
		e := p.findVar(varName)
		cl, ok := e.(*ast.CompositeLit)
		if e == nil || !ok {
			fail("gmtls."+varName, "not found or not a composite literal")
			return
		}
		if withTLS12 {
			fmt.Fprintf(b, "/-- rows of `%s` in order: (id, ECDHE, ECDSA, TLS 1.2 only, default off) -/\ndef %s : List (Nat × Bool × Bool × Bool × Bool) := [\n", varName, leanName)
		} else {
			fmt.Fprintf(b, "/-- rows of `%s` in order: (id, ECDHE, ECDSA) -/\ndef %s : List (Nat × Bool × Bool) := [\n", varName, leanName)
		}
		for i, el := range cl.Elts {
			row, ok := el.(*ast.CompositeLit)
			if !ok || len(row.Elts) != 9 {
				fail("gmtls."+varName, "row %d is not a 9-field literal", i)
				continue
			}
			fl := flagNames(row.Elts[5])
			sep := ","
			if i == len(cl.Elts)-1 {
				sep = ""
			}
			id := val("gmtls."+varName, exprName(row.Elts[0]))
			if withTLS12 {
				fmt.Fprintf(b, "  (%s, %s, %s, %s, %s)%s -- %s\n", id, has(fl, "suiteECDHE"), has(fl, "suiteECDSA"), has(fl, "suiteTLS12"), has(fl, "suiteDefaultOff"), sep, exprName(row.Elts[0]))
			} else {
				fmt.Fprintf(b, "  (%s, %s, %s)%s -- %s\n", id, has(fl, "suiteECDHE"), has(fl, "suiteECDSA"), sep, exprName(row.Elts[0]))
			}
		}
		b.WriteString("]\n\n")
	}
	table("cipherSuites", "cipherSuites", true)
	table("gmCipherSuites", "gmCipherSuites", false)
	list := func(fn, leanName, doc string) {
		fd := p.findFunc("", fn)
		if fd == nil {
			fail("gmtls."+fn, "not found")
			return
		}
		names := firstListIn(fd)
		if len(names) == 0 {
			fail("gmtls."+fn, "no []uint16 literal found")
			return
		}
		var vs []string
		for _, n := range names {
			vs = append(vs, val("gmtls."+fn, n))
		}
		fmt.Fprintf(b, "/-- %s -/\ndef %s : List Nat := [%s]\n\n", doc, leanName, strings.Join(vs, ", "))
	}
	list("initDefaultCipherSuites", "topCipherSuites", "`topCipherSuites` of `initDefaultCipherSuites`: the head of the TLS default list")
	list("getCipherSuites", "gmDefaultSuites", "the default list of `getCipherSuites` (GMSSL)")
	for _, c := range []string{"VersionGMSSL", "VersionSSL30", "VersionTLS10", "VersionTLS11", "VersionTLS12", "minVersion", "maxVersion",
		"maxWarnAlertCount", "maxHandshake", "maxPlaintext", "maxCiphertext", "maxUselessRecords"} {
		if _, ok := consts[c]; !ok && c == "maxUselessRecords" {
			continue
		}
		lean := strings.ToLower(c[:1]) + c[1:]
		fmt.Fprintf(b, "def %s : Nat := %s\n", lean, val("gmtls."+c, c))
	}
	write("TLSTables.lean", b, "Gen.TLS")
	genConnInterlock(p, write)
	genConnLocks(p, write)
	genSharedLocks(p, write)
}

// genConnInterlock pins the constants of the Write/Close interlock of gmtls.Conn (conn.go): the value a Write
// adds to activeCall when it passes the gate, the bit Close sets, the value Write releases, and the masks of the
// two "already closed" tests.
func genConnInterlock(p *pkgInfo, write writer) {
	b := header("Gen.Conn")
	type found struct{ casWrite, casClose, release, maskWrite, maskClose string }
	var f found
	scan := func(name string) {
		fd := p.findFunc("Conn", name)
		if fd == nil {
			fail("gmtls.Conn."+name, "not found")
			return
		}
		ast.Inspect(fd.Body, func(n ast.Node) bool {
			switch x := n.(type) {
			case *ast.CallExpr:
				fn := types.ExprString(x.Fun)
				if strings.HasSuffix(fn, "CompareAndSwapInt32") && len(x.Args) == 3 && strings.Contains(types.ExprString(x.Args[0]), "activeCall") {
					if be, ok := x.Args[2].(*ast.BinaryExpr); ok {
						v := be.Op.String() + types.ExprString(be.Y)
						if name == "Write" {
							f.casWrite = v
						} else {
							f.casClose = v
						}
					}
				}
				if strings.HasSuffix(fn, "AddInt32") && len(x.Args) == 2 && strings.Contains(types.ExprString(x.Args[0]), "activeCall") && name == "Write" {
					if v, ok := evalInt(x.Args[1]); ok {
						f.release = v.String()
					}
				}
			case *ast.BinaryExpr:
				// x&1 != 0
				if x.Op == token.NEQ {
					if l, ok := x.X.(*ast.BinaryExpr); ok && l.Op == token.AND && types.ExprString(l.X) == "x" {
						if name == "Write" {
							f.maskWrite = types.ExprString(l.Y)
						} else {
							f.maskClose = types.ExprString(l.Y)
						}
					}
				}
			}
			return true
		})
	}
	scan("Write")
	scan("Close")
	num := func(item, v, prefix string) string {
		if !strings.HasPrefix(v, prefix) {
			fail("gmtls.Conn.interlock", "%s: expected an expression starting with %q, found %q", item, prefix, v)
			return "0"
		}
		return strings.TrimPrefix(v, prefix)
	}
	fmt.Fprintf(b, "/-- `CompareAndSwapInt32(&c.activeCall, x, x+N)` in Conn.Write -/\ndef writeInc : Nat := %s\n", num("Write CAS", f.casWrite, "+"))
	fmt.Fprintf(b, "/-- `CompareAndSwapInt32(&c.activeCall, x, x|N)` in Conn.Close -/\ndef closedBit : Nat := %s\n", num("Close CAS", f.casClose, "|"))
	fmt.Fprintf(b, "/-- `defer atomic.AddInt32(&c.activeCall, -N)` in Conn.Write -/\ndef releaseDec : Nat := %s\n", num("Write release", f.release, "-"))
	fmt.Fprintf(b, "/-- mask of the `x&N != 0` test in Conn.Write / Conn.Close -/\ndef writeMask : Nat := %s\ndef closeMask : Nat := %s\n", num("Write mask", "="+f.maskWrite, "="), num("Close mask", "="+f.maskClose, "="))
	write("ConnFacts.lean", b, "Gen.Conn")
}
