package main

import (
	"fmt"
	"go/ast"
	"go/token"
	"strings"
)

func exprName(e ast.Expr) string {
	switch x := e.(type) {
	case *ast.Ident:
		return x.Name
	case *ast.CallExpr: // Hash(0)
		if id, ok := x.Fun.(*ast.Ident); ok && len(x.Args) == 1 {
			if v, ok := evalInt(x.Args[0]); ok {
				return fmt.Sprintf("%s(%s)", id.Name, v.String())
			}
		}
	case *ast.SelectorExpr:
		return exprName(x.X) + "." + x.Sel.Name
	}
	return "?"
}

// genX509 extracts (1) signatureAlgorithmDetails rows (algo, oid, pubKeyAlgo, hash), (2) the algo → hash
// switch at the head of checkSignature, (3) the default algorithm per key family in
// signingParamsForPublicKey.
func genX509(repo string, write writer) {
	p := loadPkg(repo, "x509")
	b := header("Gen.X509")
	// (1)
	if e := p.findVar("signatureAlgorithmDetails"); e == nil {
		fail("x509.signatureAlgorithmDetails", "not found")
	} else if cl, ok := e.(*ast.CompositeLit); !ok {
		fail("x509.signatureAlgorithmDetails", "not a composite literal")
	} else {
		b.WriteString("/-- rows of `signatureAlgorithmDetails`: (algo, oid variable, key algorithm, hash) -/\n")
		b.WriteString("def details : List (String × String × String × String) := [\n")
		for i, el := range cl.Elts {
			row, ok := el.(*ast.CompositeLit)
			if !ok || len(row.Elts) != 4 {
				fail("x509.signatureAlgorithmDetails", "row %d is not a 4-tuple", i)
				continue
			}
			sep := ","
			if i == len(cl.Elts)-1 {
				sep = ""
			}
			fmt.Fprintf(b, "  (%q, %q, %q, %q)%s\n", exprName(row.Elts[0]), exprName(row.Elts[1]), exprName(row.Elts[2]), exprName(row.Elts[3]), sep)
		}
		b.WriteString("]\n\n")
	}
	// (2)
	if fd := p.findFunc("", "checkSignature"); fd == nil {
		fail("x509.checkSignature", "not found")
	} else {
		var sw *ast.SwitchStmt
		for _, st := range fd.Body.List {
			if s, ok := st.(*ast.SwitchStmt); ok {
				if id, ok := s.Tag.(*ast.Ident); ok && id.Name == "algo" {
					sw = s
					break
				}
			}
		}
		if sw == nil {
			fail("x509.checkSignature", "no `switch algo` found")
		} else {
			b.WriteString("/-- the `switch algo` at the head of `checkSignature`: algo ↦ hash it assigns (\"reject\" when it returns an error) -/\n")
			b.WriteString("def verifyHash : List (String × String) := [\n")
			var rows []string
			for _, cc := range sw.Body.List {
				cl := cc.(*ast.CaseClause)
				if cl.List == nil {
					continue
				}
				h := "reject"
				for _, st := range cl.Body {
					if as, ok := st.(*ast.AssignStmt); ok && len(as.Lhs) == 1 && as.Tok == token.ASSIGN {
						if id, ok := as.Lhs[0].(*ast.Ident); ok && id.Name == "hashType" {
							h = exprName(as.Rhs[0])
						}
					}
				}
				for _, e := range cl.List {
					rows = append(rows, fmt.Sprintf("  (%q, %q)", exprName(e), h))
				}
			}
			b.WriteString(strings.Join(rows, ",\n"))
			b.WriteString("\n]\n\n")
		}
	}
	// (3) defaults in signingParamsForPublicKey: case type → hashFunc, sigAlgo.Algorithm
	if fd := p.findFunc("", "signingParamsForPublicKey"); fd == nil {
		fail("x509.signingParamsForPublicKey", "not found")
	} else {
		b.WriteString("/-- defaults in `signingParamsForPublicKey`: (key type[, curve], pubType, hash, oid variable) -/\n")
		b.WriteString("def defaults : List (String × String × String × String) := [\n")
		var rows []string
		ast.Inspect(fd.Body, func(n ast.Node) bool {
			ts, ok := n.(*ast.TypeSwitchStmt)
			if !ok {
				return true
			}
			for _, cc := range ts.Body.List {
				cl := cc.(*ast.CaseClause)
				if cl.List == nil {
					continue
				}
				keyType := strings.TrimPrefix(exprName(cl.List[0].(*ast.StarExpr).X), "")
				pubType, hash, oid := "?", "?", "?"
				record := func() {
					if hash != "?" {
						rows = append(rows, fmt.Sprintf("  (%q, %q, %q, %q)", keyType, pubType, hash, oid))
					}
				}
				var walk func(stmts []ast.Stmt, curve string)
				walk = func(stmts []ast.Stmt, curve string) {
					for _, st := range stmts {
						switch s := st.(type) {
						case *ast.AssignStmt:
							if len(s.Lhs) == 1 {
								switch exprName(s.Lhs[0]) {
								case "pubType":
									pubType = exprName(s.Rhs[0])
								case "hashFunc":
									hash = exprName(s.Rhs[0])
								case "sigAlgo.Algorithm":
									oid = exprName(s.Rhs[0])
									kt := keyType
									if curve != "" {
										kt = keyType + ":" + curve
									}
									rows = append(rows, fmt.Sprintf("  (%q, %q, %q, %q)", kt, pubType, hash, oid))
								}
							}
						case *ast.SwitchStmt:
							for _, c2 := range s.Body.List {
								cl2 := c2.(*ast.CaseClause)
								var names []string
								for _, e := range cl2.List {
									names = append(names, exprName(e.(*ast.CallExpr).Fun))
								}
								if len(names) > 0 {
									walk(cl2.Body, strings.Join(names, "|"))
								}
							}
						}
					}
				}
				_ = record
				walk(cl.Body, "")
			}
			return false
		})
		b.WriteString(strings.Join(rows, ",\n"))
		b.WriteString("\n]\n\n")
		// (3b) algorithms signingParamsForPublicKey refuses by name: `if requestedSigAlgo == X { err = …; return }`
		var refused []string
		ast.Inspect(fd.Body, func(n ast.Node) bool {
			is, ok := n.(*ast.IfStmt)
			if !ok {
				return true
			}
			be, ok := is.Cond.(*ast.BinaryExpr)
			if !ok || be.Op != token.EQL || exprName(be.X) != "requestedSigAlgo" {
				return true
			}
			if id, ok := be.Y.(*ast.Ident); ok && len(is.Body.List) > 0 {
				if _, isRet := is.Body.List[len(is.Body.List)-1].(*ast.ReturnStmt); isRet {
					if as, ok := is.Body.List[0].(*ast.AssignStmt); ok && len(as.Lhs) == 1 && exprName(as.Lhs[0]) == "err" {
						refused = append(refused, fmt.Sprintf("%q", id.Name))
					}
				}
			}
			return true
		})
		b.WriteString("/-- algorithms `signingParamsForPublicKey` refuses by name (`if requestedSigAlgo == X { err = …; return }`) -/\n")
		b.WriteString("def creatorRefuses : List String := [" + strings.Join(refused, ", ") + "]\n\n")
	}
	// (4) how the creators choose between raw TBS and digest: the condition guarding the hashing
	for _, fn := range []string{"CreateCertificate", "CreateCertificateRequest", "CreateRevocationList"} {
		fd := p.findFunc("", fn)
		if fd == nil {
			fail("x509."+fn, "not found")
			continue
		}
		cond := "?"
		ast.Inspect(fd.Body, func(n ast.Node) bool {
			is, ok := n.(*ast.IfStmt)
			if !ok || is.Init == nil {
				return true
			}
			// `if _, isSM2 := signer.Public().(*sm2.PublicKey); !isSM2 { hash }`
			if as, ok := is.Init.(*ast.AssignStmt); ok && len(as.Rhs) == 1 {
				if ta, ok := as.Rhs[0].(*ast.TypeAssertExpr); ok {
					if un, ok := is.Cond.(*ast.UnaryExpr); ok && un.Op == token.NOT {
						cond = "digest-unless-signer-key-is:" + exprName(ta.Type.(*ast.StarExpr).X)
					}
				}
			}
			return true
		})
		fmt.Fprintf(b, "def signInput_%s : String := %q\n", fn, cond)
	}
	b.WriteString("\n")
	// (5) the algorithms `isRSAPSS` answers true for
	if fd := p.findFunc("SignatureAlgorithm", "isRSAPSS"); fd == nil {
		fail("x509.isRSAPSS", "not found")
	} else {
		var names []string
		ast.Inspect(fd.Body, func(n ast.Node) bool {
			cl, ok := n.(*ast.CaseClause)
			if !ok {
				return true
			}
			yes := false
			for _, st := range cl.Body {
				if rs, ok := st.(*ast.ReturnStmt); ok && len(rs.Results) == 1 && exprName(rs.Results[0]) == "true" {
					yes = true
				}
			}
			if yes {
				for _, e := range cl.List {
					names = append(names, fmt.Sprintf("%q", exprName(e)))
				}
			}
			return true
		})
		if len(names) == 0 {
			fail("x509.isRSAPSS", "no `case …: return true` found")
		}
		b.WriteString("/-- the algorithms for which `isRSAPSS()` is true -/\n")
		fmt.Fprintf(b, "def rsaPSSAlgos : List String := [%s]\n\n", strings.Join(names, ", "))
	}
	// (6) the options each creator hands to signer.Sign: the bare hash (an RSA key then signs PKCS#1 v1.5), or
	// *rsa.PSSOptions when the template's algorithm isRSAPSS(); second component: the SaltLength it sets
	for _, fn := range []string{"CreateCertificate", "CreateCertificateRequest", "CreateRevocationList"} {
		fd := p.findFunc("", fn)
		if fd == nil {
			fail("x509."+fn, "not found")
			continue
		}
		// the third argument of the (only) `.Sign(rand, digest, opts)` call
		opts, calls := "?", 0
		ast.Inspect(fd.Body, func(n ast.Node) bool {
			if ce, ok := n.(*ast.CallExpr); ok && len(ce.Args) == 3 {
				if se, ok := ce.Fun.(*ast.SelectorExpr); ok && se.Sel.Name == "Sign" {
					opts = exprName(ce.Args[2])
					calls++
				}
			}
			return true
		})
		if calls != 1 {
			fail("x509."+fn, "expected one Sign call, found %d", calls)
		}
		val, saltv := "hash-only", ""
		ast.Inspect(fd.Body, func(n ast.Node) bool {
			is, ok := n.(*ast.IfStmt)
			if !ok {
				return true
			}
			guarded := false
			ast.Inspect(is.Cond, func(m ast.Node) bool {
				if ce, ok := m.(*ast.CallExpr); ok && len(ce.Args) == 0 {
					if se, ok := ce.Fun.(*ast.SelectorExpr); ok && se.Sel.Name == "isRSAPSS" && exprName(se.X) == "template.SignatureAlgorithm" {
						guarded = true
					}
				}
				return true
			})
			if !guarded {
				return true
			}
			for _, st := range is.Body.List {
				as, ok := st.(*ast.AssignStmt)
				if !ok || len(as.Lhs) != 1 || len(as.Rhs) != 1 || exprName(as.Lhs[0]) != opts {
					continue
				}
				if un, ok := as.Rhs[0].(*ast.UnaryExpr); ok && un.Op == token.AND {
					if cl, ok := un.X.(*ast.CompositeLit); ok && exprName(cl.Type) == "rsa.PSSOptions" {
						salt := "?"
						for _, el := range cl.Elts {
							if kv, ok := el.(*ast.KeyValueExpr); ok && exprName(kv.Key) == "SaltLength" {
								salt = exprName(kv.Value)
							}
						}
						val, saltv = "pss-iff-requested-isRSAPSS", salt
					}
				}
			}
			return true
		})
		fmt.Fprintf(b, "def signerOpts_%s : String × String := (%q, %q)\n", fn, val, saltv)
	}
	// the salt length the verifier insists on
	if fd := p.findFunc("", "checkSignature"); fd != nil {
		salt := "?"
		ast.Inspect(fd.Body, func(n ast.Node) bool {
			if ce, ok := n.(*ast.CallExpr); ok && exprName(ce.Fun) == "rsa.VerifyPSS" {
				ast.Inspect(ce, func(m ast.Node) bool {
					if kv, ok := m.(*ast.KeyValueExpr); ok && exprName(kv.Key) == "SaltLength" {
						salt = exprName(kv.Value)
					}
					return true
				})
			}
			return true
		})
		fmt.Fprintf(b, "def verifyPSSSalt : String := %q\n", salt)
	}
	b.WriteString("\n")
	write("X509Tables.lean", b, "Gen.X509")
}
