package main

// genConnLocks regenerates the lock facts of gmtls' connection code (Gen/ConnLocks.lean): for every method of
// Conn, halfConn and the handshake-state types (and the functions they call by an unexported name that is unique
// in the package), in source order:
//   - the locks it acquires itself (`c.in.Lock()`, `c.out.Lock()`, `c.handshakeMutex.Lock()`; all uses in the
//     package have the shape `X.Lock(); defer X.Unlock()` at the top level of the function - anything else is
//     reported as a problem),
//   - its call sites of other functions of the set, with the locks it has acquired itself before the call,
//   - whether it touches the state of the write half (`c.out.<…>`, `c.sendBuf`, `c.buffering`, `c.bytesSent`,
//     `c.packetsSent`, or a halfConn method reached through `c.out`) or of the read half (`c.in.<…>`, `c.hand`,
//     `c.input`, `c.rawInput`) and with which of its own locks held at the first such place.
// The Lean side (Model/ConnLocks.lean, Props/C20Locks.lean) computes from these facts the set of locks that is
// held on EVERY path into each function and proves the discipline.

import (
	"fmt"
	"go/ast"
	"go/token"
	"go/types"
	"sort"
	"strings"
)

type lockFn struct {
	name     string   // Type.method or function name
	short    string   // method name
	recv     string   // receiver type
	recvName string   // receiver identifier
	acquires []string // in order
	calls    []lockCall
	touchOut []string // locks acquired by itself before the first touch; nil if no touch
	touchIn  []string
	hasOut   bool
	hasIn    bool
	exported bool
}

type lockCall struct {
	callee string
	held   []string
	via    string // "", "in", "out": halfConn method reached through c.in / c.out
}

func lockNameOf(expr string) string {
	switch {
	case strings.HasSuffix(expr, ".in"):
		return "in"
	case strings.HasSuffix(expr, ".out"):
		return "out"
	case strings.HasSuffix(expr, ".handshakeMutex"):
		return "hs"
	}
	return ""
}

func genConnLocks(p *pkgInfo, write writer) {
	connTypes := map[string]bool{"Conn": true, "halfConn": true}
	var fns []*lockFn
	byShort := map[string][]*lockFn{}
	// pass 1: the set of functions
	var files []string
	for name := range p.files {
		files = append(files, name)
	}
	sort.Strings(files)
	decls := map[*lockFn]*ast.FuncDecl{}
	for _, fname := range files {
		if strings.Contains(fname, "export_verif") || strings.HasSuffix(fname, "_test.go") {
			continue
		}
		// files of the other build configuration (`// +build single_cert`) are not part of the package as built
		skip := false
		for _, cg := range p.files[fname].Comments {
			if cg.Pos() < p.files[fname].Package {
				for _, c := range cg.List {
					t := c.Text
					if (strings.Contains(t, "+build") || strings.Contains(t, "go:build")) && strings.Contains(t, "single_cert") && !strings.Contains(t, "!single_cert") {
						skip = true
					}
				}
			}
		}
		if skip {
			continue
		}
		for _, d := range p.files[fname].Decls {
			fd, ok := d.(*ast.FuncDecl)
			if !ok || fd.Body == nil {
				continue
			}
			recv, recvName := "", ""
			if fd.Recv != nil && len(fd.Recv.List) > 0 {
				t := fd.Recv.List[0].Type
				if st, ok := t.(*ast.StarExpr); ok {
					t = st.X
				}
				if id, ok := t.(*ast.Ident); ok {
					recv = id.Name
				}
				if len(fd.Recv.List[0].Names) > 0 {
					recvName = fd.Recv.List[0].Names[0].Name
				}
			}
			isHS := strings.Contains(recv, "HandshakeState") || strings.Contains(recv, "handshakeState")
			if !connTypes[recv] && !isHS {
				continue
			}
			f := &lockFn{name: recv + "." + fd.Name.Name, short: fd.Name.Name, recv: recv, recvName: recvName, exported: ast.IsExported(fd.Name.Name)}
			fns = append(fns, f)
			byShort[f.short] = append(byShort[f.short], f)
			decls[f] = fd
		}
	}
	if len(fns) < 40 {
		fail("gmtls.locks", "only %d connection functions found", len(fns))
	}
	// types of local variables made by `x := &T{…}` / `x := T{…}` / `x := new(T)`
	localTypes := func(fd *ast.FuncDecl) map[string][]string {
		m := map[string][]string{}
		ast.Inspect(fd.Body, func(n ast.Node) bool {
			as, ok := n.(*ast.AssignStmt)
			if !ok || len(as.Lhs) != len(as.Rhs) {
				return true
			}
			for i, l := range as.Lhs {
				id, ok := l.(*ast.Ident)
				if !ok {
					continue
				}
				r := as.Rhs[i]
				if u, ok := r.(*ast.UnaryExpr); ok && u.Op == token.AND {
					r = u.X
				}
				switch x := r.(type) {
				case *ast.CompositeLit:
					if t, ok := x.Type.(*ast.Ident); ok {
						m[id.Name] = append(m[id.Name], t.Name)
					}
				case *ast.CallExpr:
					if f, ok := x.Fun.(*ast.Ident); ok && f.Name == "new" && len(x.Args) == 1 {
						if t, ok := x.Args[0].(*ast.Ident); ok {
							m[id.Name] = append(m[id.Name], t.Name)
						}
					}
				}
			}
			return true
		})
		return m
	}
	locals := map[*lockFn]map[string][]string{}
	// resolve a call by method name and receiver shape
	resolve1 := func(caller *lockFn, recvExpr, name string) (*lockFn, string) {
		cands := byShort[name]
		if len(cands) == 0 {
			return nil, ""
		}
		if locals[caller] == nil {
			locals[caller] = localTypes(decls[caller])
		}
		if _, ok := locals[caller][recvExpr]; ok {
			return nil, "" // handled by resolve (possibly several types in different scopes)
		}
		via := ""
		last := recvExpr
		if i := strings.LastIndex(recvExpr, "."); i >= 0 {
			last = recvExpr[i+1:]
		}
		want := ""
		switch {
		case last == "in" || last == "out":
			want, via = "halfConn", last
		case last == "hc":
			want = "halfConn"
		case last == "c" || last == "conn" && false:
			want = "Conn"
		case last == "hs":
			want = caller.recv // a handshake state calling its own methods
			if !strings.Contains(strings.ToLower(want), "handshakestate") {
				want = ""
			}
		}
		if recvExpr == caller.recvName {
			want = caller.recv
			if caller.recv == "halfConn" {
				via = "self"
			}
		}
		for _, c := range cands {
			if c.recv == want {
				return c, via
			}
		}
		if want == "" && len(cands) == 1 && !ast.IsExported(name) && last != "conn" {
			return cands[0], via
		}
		return nil, ""
	}
	resolve := func(caller *lockFn, recvExpr, name string) ([]*lockFn, string) {
		if locals[caller] == nil {
			locals[caller] = localTypes(decls[caller])
		}
		if ts, ok := locals[caller][recvExpr]; ok {
			var out []*lockFn
			for _, c := range byShort[name] {
				for _, t := range ts {
					if c.recv == t {
						out = append(out, c)
					}
				}
			}
			return out, ""
		}
		g, via := resolve1(caller, recvExpr, name)
		if g == nil {
			return nil, ""
		}
		return []*lockFn{g}, via
	}
	outFields := map[string]bool{"sendBuf": true, "buffering": true, "bytesSent": true, "packetsSent": true}
	inFields := map[string]bool{"hand": true, "input": true, "rawInput": true}
	for _, f := range fns {
		fd := decls[f]
		held := func() []string { return append([]string{}, f.acquires...) }
		var walk func(n ast.Node, top bool)
		noteSel := func(sel *ast.SelectorExpr) {
			x := types.ExprString(sel.X)
			// c.out.<field>, c.in.<field>
			if ln := lockNameOf(x); ln == "out" && sel.Sel.Name != "Lock" && sel.Sel.Name != "Unlock" {
				if !f.hasOut {
					f.hasOut, f.touchOut = true, held()
				}
			} else if ln == "in" && sel.Sel.Name != "Lock" && sel.Sel.Name != "Unlock" {
				if !f.hasIn {
					f.hasIn, f.touchIn = true, held()
				}
			}
			if x == f.recvName && f.recv == "Conn" || strings.HasSuffix(x, ".c") {
				if outFields[sel.Sel.Name] && !f.hasOut {
					f.hasOut, f.touchOut = true, held()
				}
				if inFields[sel.Sel.Name] && !f.hasIn {
					f.hasIn, f.touchIn = true, held()
				}
			}
		}
		walk = func(n ast.Node, top bool) {
			ast.Inspect(n, func(m ast.Node) bool {
				switch x := m.(type) {
				case *ast.FuncLit:
					return true // closures run in place here (defer func(){…}() and helpers)
				case *ast.DeferStmt:
					if sel, ok := x.Call.Fun.(*ast.SelectorExpr); ok && (sel.Sel.Name == "Unlock" || sel.Sel.Name == "RUnlock") {
						return false
					}
				case *ast.CallExpr:
					sel, ok := x.Fun.(*ast.SelectorExpr)
					if !ok {
						return true
					}
					recvExpr := types.ExprString(sel.X)
					switch sel.Sel.Name {
					case "Lock":
						if ln := lockNameOf(recvExpr); ln != "" {
							f.acquires = append(f.acquires, ln)
							return false
						}
						if recvExpr == f.recvName && f.recv == "halfConn" {
							fail("gmtls.locks", "%s locks its own receiver", f.name)
						}
					case "Unlock":
						if ln := lockNameOf(recvExpr); ln != "" {
							fail("gmtls.locks", "%s: explicit %s.Unlock() outside a defer: the facts assume Lock(); defer Unlock()", f.name, recvExpr)
							return false
						}
					}
					gs, via := resolve(f, recvExpr, sel.Sel.Name)
					for _, g := range gs {
						f.calls = append(f.calls, lockCall{g.name, held(), via})
					}
				case *ast.SelectorExpr:
					noteSel(x)
				}
				return true
			})
		}
		walk(fd.Body, true)
		_ = token.NoPos
	}
	// every Lock() must be followed by its deferred Unlock: count them
	for _, f := range fns {
		fd := decls[f]
		n := 0
		ast.Inspect(fd.Body, func(m ast.Node) bool {
			if d, ok := m.(*ast.DeferStmt); ok {
				if sel, ok := d.Call.Fun.(*ast.SelectorExpr); ok && sel.Sel.Name == "Unlock" && lockNameOf(types.ExprString(sel.X)) != "" {
					n++
				}
			}
			return true
		})
		if n != len(f.acquires) {
			fail("gmtls.locks", "%s: %d Lock() but %d deferred Unlock()", f.name, len(f.acquires), n)
		}
	}
	b := header("Gen.ConnLocks")
	idx := map[string]int{}
	for i, f := range fns {
		if _, dup := idx[f.name]; dup {
			fail("gmtls.locks", "two functions named %s", f.name)
		}
		idx[f.name] = i
	}
	bit := map[string]int{"hs": 1, "in": 2, "out": 4}
	mask := func(xs []string) int {
		m := 0
		for _, x := range xs {
			m |= bit[x]
		}
		return m
	}
	half := map[string]int{"": 0, "self": 0, "in": 2, "out": 4}
	fmt.Fprintf(b, "/-- lock bits: handshakeMutex = 1, in = 2, out = 4 -/\ndef names : List String := [\n")
	for i, f := range fns {
		sep := ","
		if i == len(fns)-1 {
			sep = ""
		}
		fmt.Fprintf(b, "  %q%s\n", f.name, sep)
	}
	fmt.Fprintf(b, "]\n\n/-- per function (same order as `names`): (exported API entry?, locks it acquires itself in order, as bits) -/\ndef fns : List (Bool × List Nat) := [\n")
	for i, f := range fns {
		sep := ","
		if i == len(fns)-1 {
			sep = ""
		}
		var a []string
		for _, l := range f.acquires {
			a = append(a, fmt.Sprint(bit[l]))
		}
		fmt.Fprintf(b, "  (%v, [%s])%s  -- %d %s\n", f.exported, strings.Join(a, ", "), sep, i, f.name)
	}
	fmt.Fprintf(b, "]\n\n/-- call sites: (caller, callee, mask of the locks the caller has acquired itself before the call, half (2 = in, 4 = out, 0 = none)\n    through which a halfConn method is reached) -/\ndef calls : List (Nat × Nat × Nat × Nat) := [\n")
	var lines []string
	seen := map[string]bool{}
	for _, f := range fns {
		for _, c := range f.calls {
			l := fmt.Sprintf("  (%d, %d, %d, %d)", idx[f.name], idx[c.callee], mask(c.held), half[c.via])
			if !seen[l] {
				seen[l] = true
				lines = append(lines, l+fmt.Sprintf("  -- %s -> %s", f.name, c.callee))
			}
		}
	}
	for i, l := range lines {
		if i < len(lines)-1 {
			l = strings.Replace(l, ")  --", "),  --", 1)
		}
		fmt.Fprintln(b, l)
	}
	fmt.Fprintf(b, "]\n\n/-- (function, half whose state it touches directly (2 = in, 4 = out), mask of its own locks held at the first such place) -/\ndef touches : List (Nat × Nat × Nat) := [\n")
	lines = nil
	for _, f := range fns {
		if f.recv == "halfConn" {
			continue // a halfConn method touches the half it is called on: accounted for at the call site (via)
		}
		if f.hasOut {
			lines = append(lines, fmt.Sprintf("  (%d, 4, %d)", idx[f.name], mask(f.touchOut))+"  -- "+f.name)
		}
		if f.hasIn {
			lines = append(lines, fmt.Sprintf("  (%d, 2, %d)", idx[f.name], mask(f.touchIn))+"  -- "+f.name)
		}
	}
	for i, l := range lines {
		if i < len(lines)-1 {
			l = strings.Replace(l, ")  --", "),  --", 1)
		}
		fmt.Fprintln(b, l)
	}
	fmt.Fprintf(b, "]\n")
	// the two lock-set tables, computed here to a fixpoint and only CHECKED on the Lean side (mustOK / mayOK in
	// Model/ConnLocks.lean are what the soundness theorems need; a wrong table fails those checks)
	n := len(fns)
	type site struct{ f, g, held int }
	var sites []site
	for _, f := range fns {
		for _, c := range f.calls {
			sites = append(sites, site{idx[f.name], idx[c.callee], mask(c.held)})
		}
	}
	must, may := make([]int, n), make([]int, n)
	for i, f := range fns {
		if !f.exported {
			must[i] = 7
		}
	}
	for changed := true; changed; {
		changed = false
		for _, s := range sites {
			if !fns[s.g].exported {
				if v := must[s.g] & (must[s.f] | s.held); v != must[s.g] {
					must[s.g], changed = v, true
				}
			}
			if v := may[s.g] | may[s.f] | s.held; v != may[s.g] {
				may[s.g], changed = v, true
			}
		}
	}
	ints := func(xs []int) string {
		var o []string
		for _, x := range xs {
			o = append(o, fmt.Sprint(x))
		}
		return strings.Join(o, ", ")
	}
	fmt.Fprintf(b, "\n/-- locks held on EVERY call path into each function (greatest solution; checked by `mustOK`) -/\ndef mustT : List Nat := [%s]\n", ints(must))
	fmt.Fprintf(b, "\n/-- locks held on SOME call path into each function (least solution; checked by `mayOK`) -/\ndef mayT : List Nat := [%s]\n", ints(may))
	write("ConnLocks.lean", b, "Gen.ConnLocks")
}
