package main

import (
	"go/ast"
	"go/token"
	"math/big"
)

// genSM3 extracts the IV written by (*SM3).Reset and the round constants passed to leftRotate
// inside (*SM3).update and (*SM3).update2.
func genSM3(repo string, write writer) {
	p := loadPkg(repo, "sm3")
	b := header("Gen.SM3")
	// IV
	iv := make([]*big.Int, 8)
	if fd := p.findFunc("SM3", "Reset"); fd == nil {
		fail("sm3.Reset", "method not found")
	} else {
		ast.Inspect(fd.Body, func(n ast.Node) bool {
			as, ok := n.(*ast.AssignStmt)
			if !ok || as.Tok != token.ASSIGN || len(as.Lhs) != 1 {
				return true
			}
			ix, ok := as.Lhs[0].(*ast.IndexExpr)
			if !ok {
				return true
			}
			sel, ok := ix.X.(*ast.SelectorExpr)
			if !ok || sel.Sel.Name != "digest" {
				return true
			}
			i, ok1 := evalInt(ix.Index)
			v, ok2 := evalInt(as.Rhs[0])
			if ok1 && ok2 && i.Int64() >= 0 && i.Int64() < 8 {
				iv[i.Int64()] = v
			}
			return true
		})
		okAll := true
		for i, v := range iv {
			if v == nil {
				fail("sm3.Reset", "digest[%d] is not assigned a constant", i)
				okAll = false
			}
		}
		if okAll {
			leanVec(b, "iv", 32, iv)
		}
	}
	// round constants: first argument of leftRotate when it is a literal
	for _, fn := range []string{"update", "update2"} {
		fd := p.findFunc("SM3", fn)
		if fd == nil {
			fail("sm3."+fn, "method not found")
			continue
		}
		var consts []*big.Int
		ast.Inspect(fd.Body, func(n ast.Node) bool {
			c, ok := n.(*ast.CallExpr)
			if !ok || len(c.Args) != 2 {
				return true
			}
			sel, ok := c.Fun.(*ast.SelectorExpr)
			if !ok || sel.Sel.Name != "leftRotate" {
				return true
			}
			if v, ok := evalInt(c.Args[0]); ok {
				consts = append(consts, v)
			}
			return true
		})
		if len(consts) == 0 {
			fail("sm3."+fn, "no literal round constants found")
			continue
		}
		leanVec(b, fn+"Consts", 32, consts)
	}
	// how Write counts the message length: `sm3.length += uint64(len(p)) * 8` multiplies in uint64 ("wide");
	// `uint64(len(p) * 8)` multiplies in int and wraps on a 32-bit platform for a write of 256 MiB ("narrow")
	shape := "?"
	if fd := p.findFunc("SM3", "Write"); fd == nil {
		fail("sm3.Write", "method not found")
	} else {
		ast.Inspect(fd.Body, func(n ast.Node) bool {
			as, ok := n.(*ast.AssignStmt)
			if !ok || as.Tok != token.ADD_ASSIGN || len(as.Lhs) != 1 || len(as.Rhs) != 1 {
				return true
			}
			if sel, ok := as.Lhs[0].(*ast.SelectorExpr); !ok || sel.Sel.Name != "length" {
				return true
			}
			isConv := func(e ast.Expr) (*ast.CallExpr, bool) {
				c, ok := e.(*ast.CallExpr)
				if !ok || len(c.Args) != 1 {
					return nil, false
				}
				id, ok := c.Fun.(*ast.Ident)
				return c, ok && id.Name == "uint64"
			}
			switch e := as.Rhs[0].(type) {
			case *ast.BinaryExpr:
				_, cx := isConv(e.X)
				_, cy := isConv(e.Y)
				if e.Op == token.MUL && (cx || cy) {
					shape = "wide"
				}
			case *ast.CallExpr:
				if c, ok := isConv(e); ok {
					if be, ok := c.Args[0].(*ast.BinaryExpr); ok && be.Op == token.MUL {
						shape = "narrow"
					}
				}
			}
			return true
		})
		if shape == "?" {
			fail("sm3.Write", "length update of an unknown shape")
		}
	}
	b.WriteString("/-- how `Write` counts the bit length: \"wide\" = the multiplication by 8 is done in uint64 -/\n")
	b.WriteString("def lengthUpdate : String := \"" + shape + "\"\n\n")
	write("SM3Consts.lean", b, "Gen.SM3")
}
