package main

// genSharedLocks regenerates the lock facts of the SHARED objects of gmtls and x509 (Gen/SharedLocks.lean):
//
//   - `lruSessionCache` (the ClientSessionCache of NewLRUClientSessionCache): fields m, q, capacity, guarded by the
//     embedded sync.Mutex (`c.Lock()` on the cache itself),
//   - `Config`: sessionTicketKeys guarded by `X.mutex` (RLock for reads, Lock for writes); every other field: the
//     WRITE sites only (these are the fields assigned by serverInit, which runs under `serverInitOnce.Do`),
//   - x509 `CertPool` (no lock at all): the WRITE sites only.
//
// One fact per access site, in source order: (object type, function, field, write?, lock state at the site).
// The lock state is computed syntactically, per function, by walking the statements in order:
//     bit 1 = `B.mutex.RLock()` (resp. `B.RLock()`) of the SAME base expression B as in the access `B.field` is in force,
//     bit 2 = `B.mutex.Lock()` (resp. `B.Lock()`) is in force (released by an explicit Unlock statement or deferred),
//     bit 4 = the site is inside a func literal passed to `<…>Once.Do(…)`,
//     bit 8 = B is fresh: the key of a composite literal of the type, or a local variable initialised in this
//             function from such a literal, `new(T)` or a call of a constructor (a function that returns such a
//             literal) - the object has not been published yet.
// Whatever does not have a shape this walk understands (a Lock in a branch that is not undone there, a Lock call
// inside an expression, an access in a deferred closure, goto, a base whose type cannot be resolved, …) is
// reported in `problems`; the Lean side requires that list to be empty.

import (
	"fmt"
	"go/ast"
	"go/token"
	"go/types"
	"path/filepath"
	"sort"
	"strings"
)

type slSpec struct {
	obj       string          // struct type
	lockField string          // "mutex": lock is B.mutex; "": the object embeds the mutex (B.Lock()); "-": no lock
	reads     map[string]bool // fields whose READ sites are emitted too (write sites are emitted for every field)
}

type slAccess struct {
	obj, fn, field string
	write          bool
	held           int
}

type slCall struct {
	obj, caller, callee string
	held                int
}

type slPkg struct {
	p            *pkgInfo
	specs        []*slSpec
	files        []string
	structFields map[string]map[string]string // struct -> field -> type
	funcRes      map[string][]string          // short name -> first result types of all functions of that name
	methRes      map[string]string            // "T.M" -> first result type
	ctors        map[string]string            // short function name -> type it constructs
	accesses     []slAccess
	calls        []slCall
	acquirers    []slCall // (obj, fn, "", mode)
	problems     []string
}

func slTypeStr(e ast.Expr) string {
	switch x := e.(type) {
	case *ast.StarExpr:
		return slTypeStr(x.X)
	case *ast.ParenExpr:
		return slTypeStr(x.X)
	case *ast.Ident:
		return x.Name
	case *ast.SelectorExpr:
		if id, ok := x.X.(*ast.Ident); ok {
			return id.Name + "." + x.Sel.Name
		}
	case *ast.ArrayType:
		if t := slTypeStr(x.Elt); t != "" {
			return "[]" + t
		}
	}
	return ""
}

func slSkipFile(name string, f *ast.File) bool {
	if strings.Contains(name, "export_verif") || strings.HasSuffix(name, "_test.go") {
		return true
	}
	for _, cg := range f.Comments {
		if cg.Pos() < f.Package {
			for _, c := range cg.List {
				t := c.Text
				if (strings.Contains(t, "+build") || strings.Contains(t, "go:build")) && strings.Contains(t, "single_cert") && !strings.Contains(t, "!single_cert") {
					return true
				}
			}
		}
	}
	return false
}

func slFuncName(fd *ast.FuncDecl) (recv, recvName, full string) {
	if fd.Recv != nil && len(fd.Recv.List) > 0 {
		recv = slTypeStr(fd.Recv.List[0].Type)
		if len(fd.Recv.List[0].Names) > 0 {
			recvName = fd.Recv.List[0].Names[0].Name
		}
		return recv, recvName, recv + "." + fd.Name.Name
	}
	return "", "", fd.Name.Name
}

func newSlPkg(p *pkgInfo, specs []*slSpec) *slPkg {
	s := &slPkg{p: p, specs: specs, structFields: map[string]map[string]string{}, funcRes: map[string][]string{},
		methRes: map[string]string{}, ctors: map[string]string{}}
	for name, f := range p.files {
		if !slSkipFile(name, f) {
			s.files = append(s.files, name)
		}
	}
	sort.Strings(s.files)
	for _, fname := range s.files {
		for _, d := range p.files[fname].Decls {
			switch x := d.(type) {
			case *ast.GenDecl:
				if x.Tok != token.TYPE {
					continue
				}
				for _, sp := range x.Specs {
					ts := sp.(*ast.TypeSpec)
					st, ok := ts.Type.(*ast.StructType)
					if !ok {
						continue
					}
					m := map[string]string{}
					for _, fl := range st.Fields.List {
						t := slTypeStr(fl.Type)
						if len(fl.Names) == 0 { // embedded
							n := t
							if i := strings.LastIndex(n, "."); i >= 0 {
								n = n[i+1:]
							}
							m[n] = t
							for _, sp := range specs {
								if t == sp.obj {
									s.problems = append(s.problems, fmt.Sprintf("struct %s embeds %s: promoted fields are not tracked", ts.Name.Name, sp.obj))
								}
							}
						}
						for _, n := range fl.Names {
							m[n.Name] = t
						}
					}
					s.structFields[ts.Name.Name] = m
				}
			case *ast.FuncDecl:
				res := ""
				if x.Type.Results != nil && len(x.Type.Results.List) > 0 {
					res = slTypeStr(x.Type.Results.List[0].Type)
				}
				recv, _, full := slFuncName(x)
				s.funcRes[x.Name.Name] = append(s.funcRes[x.Name.Name], res)
				if recv != "" {
					s.methRes[full] = res
				}
			}
		}
	}
	return s
}

func (s *slPkg) spec(obj string) *slSpec {
	for _, sp := range s.specs {
		if sp.obj == obj {
			return sp
		}
	}
	return nil
}

// ---- per-function walk --------------------------------------------------------------------------------------------

type slState struct {
	held     map[string]int  // obj:base -> 1 (RLock) | 2 (Lock)
	deferred map[string]bool // the unlock of this lock is deferred
	once     bool
	closure  bool // inside a func literal that may run later / concurrently: nothing is held, nothing is fresh
}

func (st *slState) clone() *slState {
	n := &slState{held: map[string]int{}, deferred: map[string]bool{}, once: st.once, closure: st.closure}
	for k, v := range st.held {
		n.held[k] = v
	}
	for k, v := range st.deferred {
		n.deferred[k] = v
	}
	return n
}

func (st *slState) same(o *slState) bool {
	for k, v := range st.held {
		if v != 0 && o.held[k] != v {
			return false
		}
	}
	for k, v := range o.held {
		if v != 0 && st.held[k] != v {
			return false
		}
	}
	return true
}

type slWalker struct {
	s        *slPkg
	fn       string
	env      map[string]string // identifier -> type ("?" = ambiguous)
	fresh    map[string]string // identifier -> object type it freshly holds
	acc      []slAccess
	calls    []slCall
	probs    []string
	lockOps  int
	acquires map[string]int // obj -> strongest mode acquired on the receiver
	recvName string
	recv     string
	loops    []*slState
	quiet    int // >0: collecting into tmp (deferred calls)
	tmpHits  int
}

func (w *slWalker) problem(pos token.Pos, format string, a ...interface{}) {
	w.probs = append(w.probs, fmt.Sprintf("%s: ", w.fn)+fmt.Sprintf(format, a...))
}

func (w *slWalker) typeOf(e ast.Expr) string {
	switch x := e.(type) {
	case *ast.Ident:
		return w.env[x.Name]
	case *ast.ParenExpr:
		return w.typeOf(x.X)
	case *ast.StarExpr:
		return w.typeOf(x.X)
	case *ast.UnaryExpr:
		if x.Op == token.AND {
			return w.typeOf(x.X)
		}
	case *ast.CompositeLit:
		if x.Type != nil {
			return slTypeStr(x.Type)
		}
	case *ast.TypeAssertExpr:
		if x.Type != nil {
			return slTypeStr(x.Type)
		}
	case *ast.IndexExpr:
		if t := w.typeOf(x.X); strings.HasPrefix(t, "[]") {
			return t[2:]
		}
	case *ast.SelectorExpr:
		t := w.typeOf(x.X)
		if f, ok := w.s.structFields[t]; ok {
			return f[x.Sel.Name]
		}
	case *ast.CallExpr:
		switch f := x.Fun.(type) {
		case *ast.Ident:
			if f.Name == "new" && len(x.Args) == 1 {
				return slTypeStr(x.Args[0])
			}
			if _, isType := w.s.structFields[f.Name]; isType && len(x.Args) == 1 {
				return f.Name
			}
			if rs := w.s.funcRes[f.Name]; len(rs) == 1 {
				return rs[0]
			}
		case *ast.SelectorExpr:
			t := w.typeOf(f.X)
			if t != "" && t != "?" {
				return w.s.methRes[t+"."+f.Sel.Name]
			}
			if id, ok := f.X.(*ast.Ident); ok {
				if _, known := w.env[id.Name]; !known {
					return "" // a package-qualified call
				}
			}
			// unresolved receiver: a method name that is unique in the package
			n, res := 0, ""
			for full, r := range w.s.methRes {
				if strings.HasSuffix(full, "."+f.Sel.Name) {
					n++
					res = r
				}
			}
			if n == 1 {
				return res
			}
		}
	}
	return ""
}

func (w *slWalker) bind(name, t string) {
	if name == "_" {
		return
	}
	if old, ok := w.env[name]; ok && old != t {
		w.env[name] = "?"
		delete(w.fresh, name)
		return
	}
	w.env[name] = t
}

// freshOf: does e create an unpublished object of a tracked type?
func (w *slWalker) freshOf(e ast.Expr) string {
	switch x := e.(type) {
	case *ast.ParenExpr:
		return w.freshOf(x.X)
	case *ast.UnaryExpr:
		if x.Op == token.AND {
			if cl, ok := x.X.(*ast.CompositeLit); ok {
				return w.freshOf(cl)
			}
		}
	case *ast.CompositeLit:
		if t := slTypeStr(x.Type); w.s.spec(t) != nil {
			return t
		}
	case *ast.CallExpr:
		switch f := x.Fun.(type) {
		case *ast.Ident:
			if f.Name == "new" && len(x.Args) == 1 {
				if t := slTypeStr(x.Args[0]); w.s.spec(t) != nil {
					return t
				}
			}
			if t, ok := w.s.ctors[f.Name]; ok && len(w.s.funcRes[f.Name]) == 1 {
				return t
			}
		case *ast.SelectorExpr:
			if t, ok := w.s.ctors[f.Sel.Name]; ok && len(w.s.funcRes[f.Sel.Name]) == 1 {
				if id, isId := f.X.(*ast.Ident); isId {
					if _, known := w.env[id.Name]; !known {
						return "" // other package
					}
				}
				return t
			}
		}
	}
	return ""
}

// prepass: types of the local variables
func (w *slWalker) prepass(fd *ast.FuncDecl) {
	addFields := func(fl *ast.FieldList) {
		if fl == nil {
			return
		}
		for _, f := range fl.List {
			for _, n := range f.Names {
				w.bind(n.Name, slTypeStr(f.Type))
			}
		}
	}
	addFields(fd.Recv)
	addFields(fd.Type.Params)
	addFields(fd.Type.Results)
	ast.Inspect(fd.Body, func(n ast.Node) bool {
		switch x := n.(type) {
		case *ast.FuncLit:
			addFields(x.Type.Params)
			addFields(x.Type.Results)
		case *ast.AssignStmt:
			if x.Tok != token.DEFINE {
				// a plain assignment to a fresh local makes it no longer provably fresh unless the value is fresh too
				for i, l := range x.Lhs {
					if id, ok := l.(*ast.Ident); ok {
						if _, isFresh := w.fresh[id.Name]; isFresh {
							if len(x.Lhs) != len(x.Rhs) || w.freshOf(x.Rhs[i]) == "" {
								delete(w.fresh, id.Name)
								w.env[id.Name] = w.env[id.Name] // type stays
							}
						}
					}
				}
				return true
			}
			for i, l := range x.Lhs {
				id, ok := l.(*ast.Ident)
				if !ok {
					continue
				}
				t := ""
				if len(x.Lhs) == len(x.Rhs) {
					t = w.typeOf(x.Rhs[i])
					if ft := w.freshOf(x.Rhs[i]); ft != "" {
						if _, seen := w.env[id.Name]; !seen {
							w.fresh[id.Name] = ft
						}
						t = ft
					}
				} else if i == 0 && len(x.Rhs) == 1 {
					t = w.typeOf(x.Rhs[0])
				}
				w.bind(id.Name, t)
			}
		case *ast.RangeStmt:
			if x.Tok == token.DEFINE {
				for i, e := range []ast.Expr{x.Key, x.Value} {
					if id, ok := e.(*ast.Ident); ok && e != nil {
						t := ""
						if i == 1 {
							if xt := w.typeOf(x.X); strings.HasPrefix(xt, "[]") {
								t = xt[2:]
							}
						}
						w.bind(id.Name, t)
					}
				}
			}
		case *ast.DeclStmt:
			if gd, ok := x.Decl.(*ast.GenDecl); ok && gd.Tok == token.VAR {
				for _, sp := range gd.Specs {
					vs := sp.(*ast.ValueSpec)
					for i, n := range vs.Names {
						t := ""
						if vs.Type != nil {
							t = slTypeStr(vs.Type)
						} else if i < len(vs.Values) {
							t = w.typeOf(vs.Values[i])
						}
						w.bind(n.Name, t)
					}
				}
			}
		case *ast.TypeSwitchStmt:
			if as, ok := x.Assign.(*ast.AssignStmt); ok {
				for _, l := range as.Lhs {
					if id, ok := l.(*ast.Ident); ok {
						w.bind(id.Name, "")
					}
				}
			}
		}
		return true
	})
}

// lockKey: is `L.Lock()` an operation on a tracked lock? returns obj:base
func (w *slWalker) lockKey(l ast.Expr) (string, string, bool) {
	for _, sp := range w.s.specs {
		switch sp.lockField {
		case "-":
		case "":
			if w.typeOf(l) == sp.obj {
				return sp.obj, types.ExprString(l), true
			}
		default:
			sel, ok := l.(*ast.SelectorExpr)
			if !ok || sel.Sel.Name != sp.lockField {
				continue
			}
			t := w.typeOf(sel.X)
			if t == sp.obj {
				return sp.obj, types.ExprString(sel.X), true
			}
			if t == "" || t == "?" {
				n := 0
				for _, f := range w.s.structFields {
					if _, has := f[sp.lockField]; has {
						n++
					}
				}
				if n == 1 {
					return sp.obj, types.ExprString(sel.X), true
				}
				w.problem(l.Pos(), "cannot resolve the type of %s in a lock operation", types.ExprString(sel.X))
			}
		}
	}
	return "", "", false
}

func slLockOp(c *ast.CallExpr) (ast.Expr, string) {
	sel, ok := c.Fun.(*ast.SelectorExpr)
	if !ok || len(c.Args) != 0 {
		return nil, ""
	}
	switch sel.Sel.Name {
	case "Lock", "Unlock", "RLock", "RUnlock":
		return sel.X, sel.Sel.Name
	}
	return nil, ""
}

func (w *slWalker) doLockOp(c *ast.CallExpr, st *slState, deferred bool) bool {
	l, op := slLockOp(c)
	if l == nil {
		return false
	}
	obj, base, ok := w.lockKey(l)
	if !ok {
		return false
	}
	key := obj + ":" + base
	w.lockOps++
	if st.closure && !deferred && st.held[key] == 0 && (op == "Unlock" || op == "RUnlock") {
		w.problem(c.Pos(), "%s.%s() in a closure without the matching lock", base, op)
		return true
	}
	switch op {
	case "Lock", "RLock":
		if deferred {
			w.problem(c.Pos(), "deferred %s", op)
			return true
		}
		if st.held[key] != 0 {
			w.problem(c.Pos(), "%s.%s() while that lock is already held (self-deadlock)", base, op)
		}
		mode := 2
		if op == "RLock" {
			mode = 1
		}
		st.held[key] = mode
		if base == w.recvName && obj == w.recv && !st.closure {
			if w.acquires[obj] < mode {
				w.acquires[obj] = mode
			}
		}
	case "Unlock", "RUnlock":
		want := 2
		if op == "RUnlock" {
			want = 1
		}
		if st.held[key] != want {
			w.problem(c.Pos(), "%s.%s() but the lock state of %s is %d", base, op, base, st.held[key])
			return true
		}
		if st.deferred[key] {
			w.problem(c.Pos(), "%s.%s() after its unlock was already deferred", base, op)
			return true
		}
		if deferred {
			st.deferred[key] = true
		} else {
			st.held[key] = 0
		}
	}
	return true
}

// guarded: is sel an access `B.field` of a tracked object?  (spec, emit?)
func (w *slWalker) guarded(sel *ast.SelectorExpr, kind int) (*slSpec, bool) {
	f := sel.Sel.Name
	for _, sp := range w.s.specs {
		fields := w.s.structFields[sp.obj]
		if _, has := fields[f]; !has {
			continue
		}
		if f == sp.lockField {
			continue
		}
		// kind 2 (method call on the field, address taken) is a write only for the fully tracked fields
		write := kind == 1 || kind == 2 && sp.reads[f]
		emit := write || sp.reads[f]
		t := w.typeOf(sel.X)
		if t == sp.obj {
			if emit {
				return sp, write
			}
			return nil, false
		}
		if t != "" && t != "?" {
			continue
		}
		if id, ok := sel.X.(*ast.Ident); ok {
			if _, known := w.env[id.Name]; !known {
				continue // package-qualified identifier
			}
		}
		// unresolved base
		n := 0
		for _, sf := range w.s.structFields {
			if _, has := sf[f]; has {
				n++
			}
		}
		if n == 1 && !ast.IsExported(f) {
			if emit {
				return sp, write
			}
			return nil, false
		}
		if emit {
			w.problem(sel.Pos(), "cannot resolve the type of %s in %s.%s (field of %s?)", types.ExprString(sel.X), types.ExprString(sel.X), f, sp.obj)
		}
	}
	return nil, false
}

func (w *slWalker) heldAt(sp *slSpec, base ast.Expr, st *slState) int {
	b := types.ExprString(base)
	h := st.held[sp.obj+":"+b]
	if st.once {
		h |= 4
	}
	if id, ok := base.(*ast.Ident); ok && !st.closure {
		if w.fresh[id.Name] == sp.obj {
			h |= 8
		}
	}
	return h
}

func (w *slWalker) record(sp *slSpec, sel *ast.SelectorExpr, write bool, st *slState) {
	if w.quiet > 0 {
		w.tmpHits++
		return
	}
	w.acc = append(w.acc, slAccess{sp.obj, w.fn, sel.Sel.Name, write, w.heldAt(sp, sel.X, st)})
}

var slReadOnlyMethods = map[string]bool{"Len": true, "Front": true, "Back": true}

func (w *slWalker) expr(e ast.Expr, st *slState, write int) {
	switch x := e.(type) {
	case nil:
	case *ast.BasicLit, *ast.Ident:
	case *ast.ParenExpr:
		w.expr(x.X, st, write)
	case *ast.SelectorExpr:
		if sp, wr := w.guarded(x, write); sp != nil {
			w.record(sp, x, wr, st)
			w.expr(x.X, st, 0)
			return
		}
		w.expr(x.X, st, write)
	case *ast.IndexExpr:
		w.expr(x.X, st, write)
		w.expr(x.Index, st, 0)
	case *ast.SliceExpr:
		w.expr(x.X, st, write)
		w.expr(x.Low, st, 0)
		w.expr(x.High, st, 0)
		w.expr(x.Max, st, 0)
	case *ast.StarExpr:
		if t := w.typeOf(x.X); w.s.spec(t) != nil {
			if sp := w.s.spec(t); sp.lockField != "-" {
				w.problem(x.Pos(), "*%s: the whole %s is copied or overwritten", types.ExprString(x.X), t)
			}
		}
		w.expr(x.X, st, write)
	case *ast.UnaryExpr:
		if x.Op == token.AND {
			w.expr(x.X, st, 2)
		} else {
			w.expr(x.X, st, 0)
		}
	case *ast.BinaryExpr:
		w.expr(x.X, st, 0)
		w.expr(x.Y, st, 0)
	case *ast.TypeAssertExpr:
		w.expr(x.X, st, 0)
	case *ast.KeyValueExpr:
		w.expr(x.Key, st, 0)
		w.expr(x.Value, st, 0)
	case *ast.CompositeLit:
		t := slTypeStr(x.Type)
		if sp := w.s.spec(t); sp != nil && x.Type != nil {
			for _, el := range x.Elts {
				kv, ok := el.(*ast.KeyValueExpr)
				if !ok {
					w.problem(el.Pos(), "positional composite literal of %s", t)
					continue
				}
				if id, ok := kv.Key.(*ast.Ident); ok && w.quiet == 0 {
					h := 8
					if st.once {
						h |= 4
					}
					w.acc = append(w.acc, slAccess{sp.obj, w.fn, id.Name, true, h})
				}
				w.expr(kv.Value, st, 0)
			}
			return
		}
		for _, el := range x.Elts {
			if kv, ok := el.(*ast.KeyValueExpr); ok {
				if _, isId := kv.Key.(*ast.Ident); !isId {
					w.expr(kv.Key, st, 0)
				}
				w.expr(kv.Value, st, 0)
			} else {
				w.expr(el, st, 0)
			}
		}
	case *ast.FuncLit:
		// a closure that is not called on the spot: it may run later or concurrently
		c := &slState{held: map[string]int{}, deferred: map[string]bool{}, closure: true}
		w.block(x.Body.List, c)
		w.endOfFunc(c, x.Body.End())
	case *ast.CallExpr:
		w.call(x, st)
	case *ast.ArrayType, *ast.MapType, *ast.ChanType, *ast.FuncType, *ast.InterfaceType, *ast.StructType, *ast.Ellipsis:
	default:
		w.problem(e.Pos(), "unsupported expression %T", e)
	}
}

func (w *slWalker) call(x *ast.CallExpr, st *slState) {
	if l, op := slLockOp(x); l != nil {
		if _, _, ok := w.lockKey(l); ok {
			w.problem(x.Pos(), "%s.%s() inside an expression", types.ExprString(l), op)
			return
		}
	}
	switch f := x.Fun.(type) {
	case *ast.Ident:
		switch f.Name {
		case "delete", "copy":
			for i, a := range x.Args {
				if i == 0 {
					w.expr(a, st, 1)
				} else {
					w.expr(a, st, 0)
				}
			}
			return
		case "append", "len", "cap", "make", "new", "panic", "print", "println", "min", "max":
			for _, a := range x.Args {
				w.expr(a, st, 0)
			}
			return
		}
	case *ast.FuncLit:
		for _, a := range x.Args {
			w.expr(a, st, 0)
		}
		w.block(f.Body.List, st) // runs on the spot
		return
	case *ast.SelectorExpr:
		// <…>Once.Do(func)
		if f.Sel.Name == "Do" && len(x.Args) == 1 && (strings.HasSuffix(w.typeOf(f.X), "sync.Once") || strings.HasSuffix(strings.ToLower(types.ExprString(f.X)), "once")) {
			switch a := x.Args[0].(type) {
			case *ast.FuncLit:
				c := st.clone()
				c.once = true
				w.block(a.Body.List, c)
				if !c.same(st) {
					w.problem(x.Pos(), "the lock state changes inside a Once.Do literal")
				}
			default:
				w.expr(a, st, 0) // a function value: its body is analysed as a function of its own
			}
			return
		}
		// method call on a guarded field: B.f.M(…)
		recvX := f.X
		for {
			if p, ok := recvX.(*ast.ParenExpr); ok {
				recvX = p.X
			} else {
				break
			}
		}
		if rs, ok := recvX.(*ast.SelectorExpr); ok {
			kind := 2
			if slReadOnlyMethods[f.Sel.Name] {
				kind = 0
			}
			if sp, wr := w.guarded(rs, kind); sp != nil {
				w.record(sp, rs, wr, st)
				w.expr(rs.X, st, 0)
				w.args(x, st)
				return
			}
		}
		// call of a method of a tracked type: remember the lock state of its receiver
		for _, sp := range w.s.specs {
			if sp.lockField == "-" {
				continue
			}
			if _, isMeth := w.s.methRes[sp.obj+"."+f.Sel.Name]; !isMeth {
				continue
			}
			t := w.typeOf(f.X)
			if t == sp.obj || (t == "" || t == "?") && w.uniqueMethod(f.Sel.Name) {
				h := st.held[sp.obj+":"+types.ExprString(f.X)]
				if st.once {
					h |= 4
				}
				if w.quiet == 0 {
					w.calls = append(w.calls, slCall{sp.obj, w.fn, sp.obj + "." + f.Sel.Name, h})
				}
			}
		}
		w.expr(f.X, st, 0)
		w.args(x, st)
		return
	}
	w.expr(x.Fun, st, 0)
	w.args(x, st)
}

func (w *slWalker) uniqueMethod(name string) bool {
	n := 0
	for full := range w.s.methRes {
		if strings.HasSuffix(full, "."+name) {
			n++
		}
	}
	return n == 1
}

func (w *slWalker) args(x *ast.CallExpr, st *slState) {
	for _, a := range x.Args {
		// a slice of a guarded array/slice handed to a callee may be written through
		_, isSlice := a.(*ast.SliceExpr)
		if isSlice {
			w.expr(a, st, 1)
		} else {
			w.expr(a, st, 0)
		}
	}
}

func (w *slWalker) endOfFunc(st *slState, pos token.Pos) {
	for k, v := range st.held {
		if v != 0 && !st.deferred[k] {
			w.problem(pos, "leaves with %s still locked and no deferred unlock", k)
		}
	}
}

// block walks statements in order; returns true if control cannot fall out of the end
func (w *slWalker) block(stmts []ast.Stmt, st *slState) bool {
	for _, s := range stmts {
		if w.stmt(s, st) {
			return true
		}
	}
	return false
}

func (w *slWalker) branch(stmts []ast.Stmt, st *slState, what string, pos token.Pos) bool {
	c := st.clone()
	term := w.block(stmts, c)
	if !term && !c.same(st) {
		w.problem(pos, "the lock state at the end of a %s differs from the state at its start", what)
	}
	return term
}

func (w *slWalker) stmt(s ast.Stmt, st *slState) bool {
	switch x := s.(type) {
	case nil, *ast.EmptyStmt:
	case *ast.ExprStmt:
		if c, ok := x.X.(*ast.CallExpr); ok {
			if w.doLockOp(c, st, false) {
				return false
			}
			w.call(c, st)
			if id, ok := c.Fun.(*ast.Ident); ok && id.Name == "panic" {
				return true
			}
			return false
		}
		w.expr(x.X, st, 0)
	case *ast.AssignStmt:
		for _, r := range x.Rhs {
			w.expr(r, st, 0)
		}
		for _, l := range x.Lhs {
			if id, ok := l.(*ast.Ident); ok && x.Tok != token.DEFINE {
				for k, v := range st.held {
					if v != 0 && strings.HasSuffix(k, ":"+id.Name) {
						w.problem(l.Pos(), "%s is reassigned while its lock is held", id.Name)
					}
				}
			}
			w.expr(l, st, 1)
		}
	case *ast.IncDecStmt:
		w.expr(x.X, st, 1)
	case *ast.SendStmt:
		w.expr(x.Chan, st, 0)
		w.expr(x.Value, st, 0)
	case *ast.DeclStmt:
		if gd, ok := x.Decl.(*ast.GenDecl); ok {
			for _, sp := range gd.Specs {
				if vs, ok := sp.(*ast.ValueSpec); ok {
					for _, v := range vs.Values {
						w.expr(v, st, 0)
					}
				}
			}
		}
	case *ast.DeferStmt:
		if w.doLockOp(x.Call, st, true) {
			return false
		}
		// anything else that is deferred must not touch guarded state (it runs at an unknown lock state)
		w.quiet++
		before := w.tmpHits
		if fl, ok := x.Call.Fun.(*ast.FuncLit); ok {
			c := &slState{held: map[string]int{}, deferred: map[string]bool{}, closure: true}
			w.block(fl.Body.List, c)
		} else {
			w.call(x.Call, st)
		}
		w.quiet--
		if w.tmpHits != before {
			w.problem(x.Pos(), "a deferred call touches guarded state")
		}
	case *ast.GoStmt:
		for _, a := range x.Call.Args {
			w.expr(a, st, 0)
		}
		if fl, ok := x.Call.Fun.(*ast.FuncLit); ok {
			w.expr(fl, st, 0) // walked as a closure: nothing held, nothing fresh
		} else {
			c := &slState{held: map[string]int{}, deferred: map[string]bool{}, closure: true}
			w.expr(x.Call.Fun, c, 0)
		}
	case *ast.ReturnStmt:
		for _, r := range x.Results {
			w.expr(r, st, 0)
		}
		if !st.closure || true {
			w.endOfFunc(st, x.Pos())
		}
		return true
	case *ast.BranchStmt:
		if x.Tok == token.GOTO || x.Tok == token.FALLTHROUGH {
			if len(st.held) > 0 || w.lockOps > 0 {
				w.problem(x.Pos(), "%s in a function with lock operations", x.Tok)
			}
			return x.Tok == token.GOTO
		}
		if len(w.loops) > 0 && !st.same(w.loops[len(w.loops)-1]) {
			w.problem(x.Pos(), "%s with a lock state different from the one at the start of the loop/switch", x.Tok)
		}
		return true
	case *ast.BlockStmt:
		return w.block(x.List, st)
	case *ast.LabeledStmt:
		return w.stmt(x.Stmt, st)
	case *ast.IfStmt:
		w.stmt(x.Init, st)
		w.expr(x.Cond, st, 0)
		t1 := w.branch(x.Body.List, st, "if branch", x.Pos())
		if x.Else == nil {
			return false
		}
		t2 := w.branch([]ast.Stmt{x.Else}, st, "else branch", x.Pos())
		return t1 && t2
	case *ast.ForStmt:
		w.stmt(x.Init, st)
		w.expr(x.Cond, st, 0)
		w.loops = append(w.loops, st.clone())
		c := st.clone()
		term := w.block(x.Body.List, c)
		if !term {
			w.stmt(x.Post, c)
			if !c.same(st) {
				w.problem(x.Pos(), "the lock state at the end of a loop body differs from the state at its start")
			}
		}
		w.loops = w.loops[:len(w.loops)-1]
	case *ast.RangeStmt:
		w.expr(x.X, st, 0)
		if x.Tok != token.DEFINE {
			w.expr(x.Key, st, 1)
			w.expr(x.Value, st, 1)
		}
		w.loops = append(w.loops, st.clone())
		w.branch(x.Body.List, st, "loop body", x.Pos())
		w.loops = w.loops[:len(w.loops)-1]
	case *ast.SwitchStmt:
		w.stmt(x.Init, st)
		w.expr(x.Tag, st, 0)
		w.loops = append(w.loops, st.clone())
		for _, cc := range x.Body.List {
			c := cc.(*ast.CaseClause)
			for _, e := range c.List {
				w.expr(e, st, 0)
			}
			w.branch(c.Body, st, "case", c.Pos())
		}
		w.loops = w.loops[:len(w.loops)-1]
	case *ast.TypeSwitchStmt:
		w.stmt(x.Init, st)
		w.stmt(x.Assign, st)
		w.loops = append(w.loops, st.clone())
		for _, cc := range x.Body.List {
			c := cc.(*ast.CaseClause)
			w.branch(c.Body, st, "case", c.Pos())
		}
		w.loops = w.loops[:len(w.loops)-1]
	case *ast.SelectStmt:
		w.loops = append(w.loops, st.clone())
		for _, cc := range x.Body.List {
			c := cc.(*ast.CommClause)
			cs := st.clone()
			w.stmt(c.Comm, cs)
			if !cs.same(st) {
				w.problem(c.Pos(), "lock operation in a select communication")
			}
			w.branch(c.Body, st, "select case", c.Pos())
		}
		w.loops = w.loops[:len(w.loops)-1]
	default:
		w.problem(s.Pos(), "unsupported statement %T", s)
	}
	return false
}

func (s *slPkg) eachFunc(do func(fd *ast.FuncDecl)) {
	for _, fname := range s.files {
		for _, d := range s.p.files[fname].Decls {
			if fd, ok := d.(*ast.FuncDecl); ok && fd.Body != nil {
				do(fd)
			}
		}
	}
}

func (s *slPkg) newWalker(fd *ast.FuncDecl) *slWalker {
	recv, recvName, full := slFuncName(fd)
	w := &slWalker{s: s, fn: full, env: map[string]string{}, fresh: map[string]string{}, acquires: map[string]int{}, recv: recv, recvName: recvName}
	w.prepass(fd)
	return w
}

func (s *slPkg) run() {
	// constructors: functions that return a composite literal of a tracked type (directly or through a fresh local)
	names := map[string]bool{}
	s.eachFunc(func(fd *ast.FuncDecl) {
		_, _, full := slFuncName(fd)
		if names[full] {
			s.problems = append(s.problems, "two functions named "+full)
		}
		names[full] = true
		w := s.newWalker(fd)
		ast.Inspect(fd.Body, func(n ast.Node) bool {
			if _, ok := n.(*ast.FuncLit); ok {
				return false
			}
			if r, ok := n.(*ast.ReturnStmt); ok && len(r.Results) > 0 {
				t := w.freshOf(r.Results[0])
				if id, ok := r.Results[0].(*ast.Ident); ok && t == "" {
					t = w.fresh[id.Name]
				}
				if t != "" {
					s.ctors[fd.Name.Name] = t
				}
			}
			return true
		})
	})
	s.eachFunc(func(fd *ast.FuncDecl) {
		w := s.newWalker(fd)
		st := &slState{held: map[string]int{}, deferred: map[string]bool{}}
		if !w.block(fd.Body.List, st) {
			w.endOfFunc(st, fd.Body.End())
		}
		relevant := len(w.acc) > 0 || w.lockOps > 0
		s.accesses = append(s.accesses, w.acc...)
		s.calls = append(s.calls, w.calls...)
		for obj, mode := range w.acquires {
			s.acquirers = append(s.acquirers, slCall{obj, w.fn, "", mode})
		}
		if relevant || true {
			s.problems = append(s.problems, w.probs...)
		}
	})
}

func genSharedLocks(p *pkgInfo, write writer) {
	// the repository root, from the position of any parsed file of gmtls
	repo := ""
	for _, f := range p.files {
		repo = filepath.Dir(filepath.Dir(p.fset.Position(f.Package).Filename))
		break
	}
	tls := newSlPkg(p, []*slSpec{
		{obj: "lruSessionCache", lockField: "", reads: map[string]bool{"m": true, "q": true, "capacity": true}},
		{obj: "Config", lockField: "mutex", reads: map[string]bool{"sessionTicketKeys": true}},
	})
	for _, sp := range tls.specs {
		if _, ok := tls.structFields[sp.obj]; !ok {
			fail("gmtls.sharedlocks", "struct %s not found", sp.obj)
		}
		for f := range sp.reads {
			if _, ok := tls.structFields[sp.obj][f]; !ok {
				fail("gmtls.sharedlocks", "field %s.%s not found", sp.obj, f)
			}
		}
	}
	if t := tls.structFields["Config"]["mutex"]; t != "sync.RWMutex" {
		fail("gmtls.sharedlocks", "Config.mutex has type %q, expected sync.RWMutex", t)
	}
	if t := tls.structFields["lruSessionCache"]["Mutex"]; t != "sync.Mutex" {
		fail("gmtls.sharedlocks", "lruSessionCache does not embed sync.Mutex")
	}
	tls.run()
	var xp *slPkg
	if repo != "" {
		xp = newSlPkg(loadPkg(repo, "x509"), []*slSpec{{obj: "CertPool", lockField: "-", reads: map[string]bool{}}})
		if _, ok := xp.structFields["CertPool"]; !ok {
			fail("gmtls.sharedlocks.x509", "struct CertPool not found")
		}
		xp.run()
	} else {
		fail("gmtls.sharedlocks.x509", "cannot locate the repository root")
		xp = &slPkg{structFields: map[string]map[string]string{}}
	}

	b := header("Gen.SharedLocks")
	fmt.Fprintf(b, "/-- access sites in source order: (object type, function, field, write?, lock state at the site).\n"+
		"    Lock state bits: 1 = RLock of the SAME base expression in force, 2 = Lock in force, 4 = inside a func literal\n"+
		"    passed to `Once.Do`, 8 = the object is fresh (composite literal / local made by a constructor, not yet published).\n"+
		"    For `lruSessionCache` every access of m, q, capacity is listed; for `Config` every access of sessionTicketKeys and\n"+
		"    the WRITES of every other field; for `CertPool` (x509) the writes. -/\n")
	fmt.Fprintf(b, "def accesses : List (String × String × String × Bool × Nat) := [\n")
	all := append(append([]slAccess{}, tls.accesses...), xp.accesses...)
	for i, a := range all {
		sep := ","
		if i == len(all)-1 {
			sep = ""
		}
		fmt.Fprintf(b, "  (%q, %q, %q, %v, %d)%s\n", a.obj, a.fn, a.field, a.write, a.held, sep)
	}
	fmt.Fprintf(b, "]\n\n/-- functions that lock the mutex of their own receiver: (object type, function, 1 = RLock only / 2 = Lock) -/\n")
	fmt.Fprintf(b, "def acquirers : List (String × String × Nat) := [\n")
	acq := append(append([]slCall{}, tls.acquirers...), xp.acquirers...)
	sort.SliceStable(acq, func(i, j int) bool { return acq[i].obj+" "+acq[i].caller < acq[j].obj+" "+acq[j].caller })
	for i, a := range acq {
		sep := ","
		if i == len(acq)-1 {
			sep = ""
		}
		fmt.Fprintf(b, "  (%q, %q, %d)%s\n", a.obj, a.caller, a.held, sep)
	}
	fmt.Fprintf(b, "]\n\n/-- calls of methods of the tracked types: (object type, caller, callee, lock state of the callee's receiver\n    expression at the call: bits as above) -/\n")
	fmt.Fprintf(b, "def calls : List (String × String × String × Nat) := [\n")
	seen := map[string]bool{}
	var lines []string
	for _, c := range append(append([]slCall{}, tls.calls...), xp.calls...) {
		l := fmt.Sprintf("  (%q, %q, %q, %d)", c.obj, c.caller, c.callee, c.held)
		if !seen[l] {
			seen[l] = true
			lines = append(lines, l)
		}
	}
	fmt.Fprintf(b, "%s\n]\n\n", strings.Join(lines, ",\n"))
	// fields of the tracked structs that are synchronisation primitives
	fmt.Fprintf(b, "/-- (struct, field, type) of every field of the tracked structs whose type comes from package sync -/\ndef syncFields : List (String × String × String) := [\n")
	lines = nil
	for _, sp := range []struct {
		s   *slPkg
		obj string
	}{{tls, "lruSessionCache"}, {tls, "Config"}, {xp, "CertPool"}} {
		var fs []string
		for f, t := range sp.s.structFields[sp.obj] {
			if strings.HasPrefix(t, "sync.") {
				fs = append(fs, fmt.Sprintf("  (%q, %q, %q)", sp.obj, f, t))
			}
		}
		sort.Strings(fs)
		lines = append(lines, fs...)
	}
	fmt.Fprintf(b, "%s\n]\n\n", strings.Join(lines, ",\n"))
	probs := append(append([]string{}, tls.problems...), xp.problems...)
	fmt.Fprintf(b, "/-- shapes the extractor could not classify (must be empty) -/\ndef problems : List String := [\n")
	for i, pr := range probs {
		sep := ","
		if i == len(probs)-1 {
			sep = ""
		}
		fmt.Fprintf(b, "  %q%s\n", pr, sep)
	}
	fmt.Fprintf(b, "]\n")
	write("SharedLocks.lean", b, "Gen.SharedLocks")
}
