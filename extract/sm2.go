package main

import (
	"go/ast"
	"go/token"
	"math/big"
	"strings"
)

// genSM2 extracts the curve parameters assigned in initP256Sm2 via big.Int.SetString(hex, 16).
func genSM2(repo string, write writer) {
	p := loadPkg(repo, "sm2")
	b := header("Gen.SM2")
	fd := p.findFunc("", "initP256Sm2")
	if fd == nil {
		fail("sm2.initP256Sm2", "function not found")
		write("SM2Params.lean", b, "Gen.SM2")
		return
	}
	found := map[string]*big.Int{}
	ast.Inspect(fd.Body, func(n ast.Node) bool {
		as, ok := n.(*ast.AssignStmt)
		if !ok || len(as.Rhs) != 1 || len(as.Lhs) < 1 {
			return true
		}
		call, ok := as.Rhs[0].(*ast.CallExpr)
		if !ok || len(call.Args) != 2 {
			return true
		}
		sel, ok := call.Fun.(*ast.SelectorExpr)
		if !ok || sel.Sel.Name != "SetString" {
			return true
		}
		lit, ok := call.Args[0].(*ast.BasicLit)
		base, ok2 := evalInt(call.Args[1])
		if !ok || !ok2 || lit.Kind != token.STRING || base.Int64() != 16 {
			return true
		}
		v, ok := new(big.Int).SetString(strings.Trim(lit.Value, "\"`"), 16)
		if !ok {
			return true
		}
		name := ""
		switch l := as.Lhs[0].(type) {
		case *ast.Ident:
			name = l.Name
		case *ast.SelectorExpr:
			name = l.Sel.Name
		}
		found[name] = v
		return true
	})
	for _, want := range []string{"A", "P", "N", "B", "Gx", "Gy", "RInverse"} {
		v, ok := found[want]
		if !ok {
			fail("sm2.initP256Sm2", "parameter %s not assigned from a hex literal", want)
			continue
		}
		leanNat(b, "param"+want, v)
	}
	// precomputed comb table, limb carries etc.
	for _, t := range []struct {
		name string
		n    int
	}{{"sm2P256Precomputed", 540}} {
		v := intArray(p, "sm2."+t.name, t.name)
		if v == nil {
			continue
		}
		if len(v) != t.n {
			fail("sm2."+t.name, "expected %d elements, found %d", t.n, len(v))
			continue
		}
		leanVec(b, "precomputed", 32, v)
	}
	write("SM2Params.lean", b, "Gen.SM2")
}
