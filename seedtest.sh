#!/bin/sh
# seedtest.sh <dir-with-patch.diff> <Cnn> [tier] : apply a seeded change to /repo, run the check, undo it.
D=$(cd "$1" && pwd); P=$2; T=${3:-quick}
cd /repo || exit 2
if ! git diff --quiet; then echo "/repo has uncommitted changes; refusing"; exit 2; fi
git apply "$D/patch.diff" || { echo "patch does not apply"; exit 2; }
cd /verif && ./check $P --tier $T; rc=$?
cd /repo && git reset -q --hard HEAD && git status --short | grep -v test.p12
echo "check exit=$rc"
exit 0
