#!/bin/sh
# lanesweep.sh <nlanes> [-x "C20 ..."] [Cnn ...] : re-run every stored change (seeded/ and harmless/) against its check(s), in
# <nlanes> parallel lanes. A lane is a private copy of /verif (build output included) next to a private worktree of
# /repo HEAD, run with VERIF_REPO=<worktree> - /verif's own checks, evidence and /repo are not touched. Results:
# seeded/<id>/verif_result.json, harmless/<id>/verif_result.txt and work/lanesweep.out. (The registered commands of
# MANIFEST.json and the committed evidence never come from a lane.)
N=$1; shift
EXCL=""; if [ "$1" = "-x" ]; then EXCL=" $2 "; shift 2; fi
ONLY=" $* "
cd /verif || exit 2
mkdir -p work; : > work/lanesweep.list
for d in seeded/*/ harmless/*/; do
  [ -f $d/patch.diff ] || continue
  id=$(basename $d); p=${id%%-*}
  [ "$ONLY" = "  " ] || case "$ONLY" in *" $p "*) ;; *) continue;; esac
  case "$EXCL" in *" $p "*) continue;; esac
  echo "$d" >> work/lanesweep.list
done
echo "$(wc -l < work/lanesweep.list) changes, $N lanes"
i=0
while [ $i -lt $N ]; do
  L=/tmp/L$i; rm -rf $L; mkdir -p $L
  rsync -a --exclude seeded --exclude harmless --exclude 'reports*' --exclude .git /verif/ $L/verif/
  git -C /repo worktree add -q --detach $L/repo HEAD
  sed -i "s#=> /repo#=> $L/repo#" $L/verif/harness/go.mod
  (
    awk -v n=$N -v k=$i 'NR % n == k' work/lanesweep.list | while read d; do
      id=$(basename $d)
      case $d in
      seeded/*)
        prop=$(python3 -c "import json;print(json.load(open('/verif/$d/meta.json'))['property'])" 2>/dev/null || echo ${id%%-*})
        res=""
        for p in $prop $(cat /verif/$d/also_check 2>/dev/null); do
          cd $L/repo && git reset -q --hard HEAD && git clean -fdq && git apply /verif/$d/patch.diff 2>/dev/null || { echo "$id $p PATCH-DOES-NOT-APPLY"; continue; }
          cd $L/verif && out=$(VERIF_NOSHRINK=1 VERIF_REPO=$L/repo ./check $p --tier quick 2>&1)
          line=$(echo "$out" | grep '\[check\]' | tail -1); viol=$(echo "$out" | grep -c '^VIOLATION'); nf=$(echo "$out" | grep -c 'no-failing-input-found$')
          res="$res{\"check\": \"lane: git apply patch.diff; ./check $p --tier quick\", \"violation_reported\": $([ $viol -gt 0 ] && echo true || echo false), \"concrete_replay\": $([ $viol -gt 0 ] && [ $nf -eq 0 ] && echo true || echo false), \"summary\": \"$(echo $line | sed 's/"/\\"/g')\"},"
          echo "$id $p viol=$viol tieonly=$nf $line"
        done
        echo "{\"runs\": [${res%,}]}" > /verif/$d/verif_result.json ;;
      harmless/*)
        p=${id%%-*}
        cd $L/repo && git reset -q --hard HEAD && git clean -fdq && git apply /verif/$d/patch.diff 2>/dev/null || { echo "$id $p PATCH-DOES-NOT-APPLY"; continue; }
        cd $L/verif && out=$(VERIF_NOSHRINK=1 VERIF_REPO=$L/repo ./check $p --tier quick 2>&1)
        v=$(echo "$out" | grep '^VIOLATION' | head -1); s=$(echo "$out" | grep '^\[check\]' | tail -1)
        if [ -z "$v" ]; then r="PASS  $s"; elif echo "$v" | grep -q 'no-failing-input-found$'; then r="TIE   $v | $s"; else r="ALARM $v | $s"; fi
        echo "$id $r" | cut -c1-220; echo "$r" | cut -c1-300 > /verif/$d/verif_result.txt ;;
      esac
    done
    cd /; git -C /repo worktree remove --force $L/repo; rm -rf $L
  ) >> work/lanesweep.out.$i 2>&1 &
  i=$((i+1))
done
wait
cat work/lanesweep.out.* > work/lanesweep.out; rm -f work/lanesweep.out.[0-9]*
echo "done: $(grep -c . work/lanesweep.out) lines"
