#!/bin/sh
# harmlesssweep.sh [Cnn ...] : apply every stored HARMLESS change (harmless/<id>/patch.diff: behaviour-preserving
# refactorings and changes of things the property does not fix, made by sub-agents that saw only the property) and
# run its property's check. Expected: PASS, or TIE (VIOLATION … no-failing-input-found: the change broke the
# regenerated facts or a model-level tie). ALARM (a concrete replay) on one of these is a false alarm of the check.
cd /verif || exit 2
for d in harmless/*/; do
  id=$(basename $d); p=${id%%-*}
  if [ $# -gt 0 ]; then case " $* " in *" $p "*) ;; *) continue;; esac; fi
  r=$(./harmlesstest.sh /verif/$d $p)
  echo "$id $r" | cut -c1-200
  echo "$r" | cut -c1-300 > $d/verif_result.txt
done
