package gmtls

// Place in gmtls/ and run:
//   cd <tree> && unshare -n sh -c "ip link set lo up; go test -vet=off -count=1 -run TestC16BigTicketIssue ./gmtls/"
//
// TLS mode, RequireAnyClientCert, client certificate of 65407..65530 bytes: the Certificate message
// still fits into a handshake message, but the NewSessionTicket message the server answers with
// (ticket = chain + 124 bytes) does not. A client WITHOUT a session cache connects; the same client
// WITH a session cache can never connect (its own readHandshake refuses the ticket message), on the
// first connection and on every later one. From 65412 bytes on the 16-bit ticket length field of
// newSessionTicketMsg.marshal also wraps around silently.

import (
	"crypto/ecdsa"
	"crypto/elliptic"
	"crypto/rand"
	stdx509 "crypto/x509"
	"crypto/x509/pkix"
	"encoding/asn1"
	"math/big"
	"net"
	"testing"
	"time"

	"github.com/tjfoc/gmsm/x509"
)

func c16btCert(key *ecdsa.PrivateKey, cn string, total int) []byte {
	mk := func(pad int) []byte {
		tpl := &stdx509.Certificate{SerialNumber: big.NewInt(7), Subject: pkix.Name{CommonName: cn}, DNSNames: []string{cn},
			NotBefore: time.Now().Add(-time.Hour), NotAfter: time.Now().Add(time.Hour),
			KeyUsage: stdx509.KeyUsageDigitalSignature | stdx509.KeyUsageCertSign, BasicConstraintsValid: true, IsCA: true}
		if pad > 0 {
			tpl.ExtraExtensions = []pkix.Extension{{Id: asn1.ObjectIdentifier{1, 2, 3, 4}, Value: make([]byte, pad)}}
		}
		der, err := stdx509.CreateCertificate(rand.Reader, tpl, tpl, key.Public(), key)
		if err != nil {
			panic(err)
		}
		return der
	}
	if total == 0 {
		return mk(0)
	}
	pad := total - 1000
	der := mk(pad)
	for i := 0; len(der) != total && i < 20; i++ { // ECDSA signatures vary by a byte or two
		pad += total - len(der)
		der = mk(pad)
	}
	return der
}

func c16btPair() (net.Conn, net.Conn) {
	l, err := net.Listen("tcp", "127.0.0.1:0")
	if err != nil {
		panic(err)
	}
	defer l.Close()
	ch := make(chan net.Conn, 1)
	go func() { c, _ := l.Accept(); ch <- c }()
	c1, err := net.Dial("tcp", l.Addr().String())
	if err != nil {
		panic(err)
	}
	return c1, <-ch
}

func c16btConnect(ccfg, scfg *Config) (cerr, serr error) {
	cp, sp := c16btPair()
	defer cp.Close()
	done := make(chan struct{})
	go func() {
		defer close(done)
		defer sp.Close()
		sv := Server(sp, scfg)
		if serr = sv.Handshake(); serr == nil {
			var b [1]byte
			sv.Read(b[:]) // let the client finish
		}
	}()
	cerr = Client(cp, ccfg).Handshake()
	cp.Close()
	<-done
	return
}

func TestC16BigTicketIssue(t *testing.T) {
	sk, _ := ecdsa.GenerateKey(elliptic.P256(), rand.Reader)
	sder := c16btCert(sk, "srv", 0)
	scert, _ := x509.ParseCertificate(sder)
	pool := x509.NewCertPool()
	pool.AddCert(scert)
	ck, _ := ecdsa.GenerateKey(elliptic.P256(), rand.Reader)

	for _, L := range []int{65000, 65407, 65412, 65530} {
		cder := c16btCert(ck, "client", L)
		if len(cder) != L {
			t.Fatalf("could not build a %d byte certificate (got %d)", L, len(cder))
		}
		suites := []uint16{TLS_ECDHE_ECDSA_WITH_AES_128_GCM_SHA256}
		s := &Config{CipherSuites: suites, MinVersion: VersionTLS10, ClientAuth: RequireAnyClientCert,
			Certificates: []Certificate{{Certificate: [][]byte{sder}, PrivateKey: sk}}}
		mkClient := func(cache ClientSessionCache) *Config {
			return &Config{CipherSuites: suites, MinVersion: VersionTLS10, RootCAs: pool, ServerName: "srv", ClientSessionCache: cache,
				Certificates: []Certificate{{Certificate: [][]byte{cder}, PrivateKey: ck}}}
		}
		if cerr, serr := c16btConnect(mkClient(nil), s); cerr != nil || serr != nil {
			t.Fatalf("chain %d: a client without session cache cannot connect either: %v / %v", L, cerr, serr)
		}
		cache := NewLRUClientSessionCache(3)
		for i := 1; i <= 2; i++ {
			if cerr, serr := c16btConnect(mkClient(cache), s); cerr != nil || serr != nil {
				t.Errorf("chain %d: connection %d of a client with a session cache fails (without cache it succeeds): client: %v ; server: %v", L, i, cerr, serr)
			}
		}
	}
}
