package gmtls

// Place in gmtls/ and run:
//   cd <tree> && unshare -n sh -c "ip link set lo up; go test -vet=off -count=1 -run TestC16TicketEnablePanic ./gmtls/"
//
// A server Config that served one connection with SessionTicketsDisabled=true and is then
// switched to SessionTicketsDisabled=false panics (index out of range in encryptTicket) on the
// next connection of any client that has a ClientSessionCache. GMSSL and TLS mode.

import (
	"crypto/ecdsa"
	"crypto/elliptic"
	"crypto/rand"
	stdx509 "crypto/x509"
	"crypto/x509/pkix"
	"math/big"
	"net"
	"testing"
	"time"

	"github.com/tjfoc/gmsm/sm2"
	"github.com/tjfoc/gmsm/x509"
)

func c16tepSM2(parent *x509.Certificate, parentKey *sm2.PrivateKey, cn string, ku x509.KeyUsage, ca bool) (*x509.Certificate, *sm2.PrivateKey, []byte) {
	key, err := sm2.GenerateKey(rand.Reader)
	if err != nil {
		panic(err)
	}
	tpl := &x509.Certificate{
		SerialNumber: big.NewInt(time.Now().UnixNano()), Subject: pkix.Name{CommonName: cn},
		NotBefore: time.Now().Add(-time.Hour), NotAfter: time.Now().Add(time.Hour),
		KeyUsage: ku, BasicConstraintsValid: true, IsCA: ca, DNSNames: []string{cn},
		SignatureAlgorithm: x509.SM2WithSM3,
	}
	p, pk := parent, parentKey
	if p == nil {
		p, pk = tpl, key
	}
	der, err := x509.CreateCertificate(tpl, p, &key.PublicKey, pk)
	if err != nil {
		panic(err)
	}
	c, err := x509.ParseCertificate(der)
	if err != nil {
		panic(err)
	}
	return c, key, der
}

func c16tepPair() (net.Conn, net.Conn) {
	l, err := net.Listen("tcp", "127.0.0.1:0")
	if err != nil {
		panic(err)
	}
	defer l.Close()
	ch := make(chan net.Conn, 1)
	go func() { c, _ := l.Accept(); ch <- c }()
	c1, err := net.Dial("tcp", l.Addr().String())
	if err != nil {
		panic(err)
	}
	return c1, <-ch
}

// one connection; returns the client error, the server error and a recovered server panic
func c16tepConnect(ccfg, scfg *Config) (cerr, serr error, spanic interface{}) {
	cp, sp := c16tepPair()
	defer cp.Close()
	done := make(chan struct{})
	go func() {
		defer close(done)
		defer sp.Close()
		defer func() { spanic = recover() }()
		serr = Server(sp, scfg).Handshake()
	}()
	cerr = Client(cp, ccfg).Handshake()
	<-done
	return
}

func TestC16TicketEnablePanic(t *testing.T) {
	// GMSSL material
	ca, cak, _ := c16tepSM2(nil, nil, "ca", x509.KeyUsageCertSign|x509.KeyUsageDigitalSignature, true)
	pool := x509.NewCertPool()
	pool.AddCert(ca)
	_, sk, sder := c16tepSM2(ca, cak, "srv", x509.KeyUsageDigitalSignature, false)
	_, ek, eder := c16tepSM2(ca, cak, "srv", x509.KeyUsageKeyEncipherment|x509.KeyUsageDataEncipherment, false)
	// TLS material
	tk, _ := ecdsa.GenerateKey(elliptic.P256(), rand.Reader)
	tpl := &stdx509.Certificate{SerialNumber: big.NewInt(1), Subject: pkix.Name{CommonName: "srv"}, DNSNames: []string{"srv"},
		NotBefore: time.Now().Add(-time.Hour), NotAfter: time.Now().Add(time.Hour), KeyUsage: stdx509.KeyUsageDigitalSignature | stdx509.KeyUsageCertSign,
		BasicConstraintsValid: true, IsCA: true}
	tder, err := stdx509.CreateCertificate(rand.Reader, tpl, tpl, tk.Public(), tk)
	if err != nil {
		t.Fatal(err)
	}
	tcert, _ := x509.ParseCertificate(tder)
	tpool := x509.NewCertPool()
	tpool.AddCert(tcert)

	for _, mode := range []string{"GMSSL", "TLS"} {
		var s, c *Config
		if mode == "GMSSL" {
			s = &Config{GMSupport: &GMSupport{}, CipherSuites: []uint16{GMTLS_ECC_SM4_CBC_SM3},
				Certificates: []Certificate{{Certificate: [][]byte{sder}, PrivateKey: sk}, {Certificate: [][]byte{eder}, PrivateKey: ek}}}
			c = &Config{GMSupport: &GMSupport{}, CipherSuites: []uint16{GMTLS_ECC_SM4_CBC_SM3}, RootCAs: pool, ServerName: "srv",
				ClientSessionCache: NewLRUClientSessionCache(1)}
		} else {
			s = &Config{CipherSuites: []uint16{TLS_ECDHE_ECDSA_WITH_AES_128_GCM_SHA256}, MinVersion: VersionTLS10,
				Certificates: []Certificate{{Certificate: [][]byte{tder}, PrivateKey: tk}}}
			c = &Config{CipherSuites: []uint16{TLS_ECDHE_ECDSA_WITH_AES_128_GCM_SHA256}, MinVersion: VersionTLS10, RootCAs: tpool, ServerName: "srv",
				ClientSessionCache: NewLRUClientSessionCache(1)}
		}
		// connection 1: tickets disabled - full handshake, no ticket (as the property demands)
		s.SessionTicketsDisabled = true
		if cerr, serr, p := c16tepConnect(c, s); cerr != nil || serr != nil || p != nil {
			t.Fatalf("%s: connection 1 (tickets disabled): %v / %v / %v", mode, cerr, serr, p)
		}
		// connection 2: tickets enabled on the same configuration
		s.SessionTicketsDisabled = false
		cerr, serr, p := c16tepConnect(c, s)
		if p != nil {
			t.Errorf("%s: connection 2 (tickets enabled again): SERVER PANIC: %v (client saw: %v)", mode, p, cerr)
		} else if cerr != nil || serr != nil {
			t.Errorf("%s: connection 2 (tickets enabled again) failed: %v / %v", mode, cerr, serr)
		}
	}
}
