package gmtls

// Place in gmtls/ and run:  go test -vet=off -count=1 -run TestC07SeqWrap ./gmtls/
// ARGUABLE finding (needs 2^64 records on one key): see README.md.

import (
	"bytes"
	"net"
	"sync/atomic"
	"testing"
	"time"
)

type c07sink struct{ bytes.Buffer }

func (*c07sink) Read([]byte) (int, error)         { select {} }
func (*c07sink) Close() error                     { return nil }
func (*c07sink) LocalAddr() net.Addr              { return nil }
func (*c07sink) RemoteAddr() net.Addr             { return nil }
func (*c07sink) SetDeadline(time.Time) error      { return nil }
func (*c07sink) SetReadDeadline(time.Time) error  { return nil }
func (*c07sink) SetWriteDeadline(time.Time) error { return nil }

func TestC07SeqWrap(t *testing.T) {
	var suite *cipherSuite
	for _, s := range gmCipherSuites {
		if s.id == GMTLS_ECC_SM4_GCM_SM3 {
			suite = s
		}
	}
	sink := &c07sink{}
	c := &Conn{conn: sink, isClient: true, config: &Config{}}
	c.vers, c.haveVers = VersionGMSSL, true
	key, salt := make([]byte, 16), make([]byte, 4)
	c.in.version, c.out.version = VersionGMSSL, VersionGMSSL
	c.in.cipher, c.out.cipher = suite.aead(key, salt), suite.aead(key, salt)
	atomic.StoreUint32(&c.handshakeStatus, 1)

	// record number 0 of this key
	if _, err := c.Write([]byte("a")); err != nil {
		t.Fatal(err)
	}
	first := append([]byte(nil), sink.Bytes()...)
	sink.Reset()

	for i := range c.out.seq { // fast-forward to the last sequence number
		c.out.seq[i] = 0xff
	}
	func() {
		defer func() { recover() }() // e.g. net/http recovers panics of a handler
		c.Write([]byte("b"))
	}()
	n, err := c.Write([]byte("a"))
	if err == nil {
		t.Errorf("Write after the sequence number wrapped: n=%d err=nil, out.seq=%x", n, c.out.seq)
		if bytes.Equal(first, sink.Bytes()) {
			t.Errorf("GCM nonce reused under the same key: record %x emitted a second time", first)
		}
	}
}
