package x509

// Place in x509/ and run:
//   go test -vet=off -count=1 -run TestC18ParsePKCS7DroppedError ./x509/

import (
	"crypto/rand"
	"crypto/rsa"
	"crypto/x509/pkix"
	"encoding/asn1"
	"encoding/hex"
	"math/big"
	"testing"
	"time"

	"github.com/tjfoc/gmsm/sm2"
)

func TestC18ParsePKCS7DroppedError(t *testing.T) {
	// 1. ContentInfo{ signedData, [0]{ NULL } }: the content is not a SignedData at all
	junk, _ := hex.DecodeString("300f06092a864886f70d010702a0020500")
	if p7, err := ParsePKCS7(junk); err == nil {
		t.Errorf("ParsePKCS7(%x): no error, result %+v", junk, *p7)
	}

	// 2. one tag swap (SET -> SEQUENCE) on the signerInfos of a SignedData made by the library
	priv, err := sm2.GenerateKey(nil)
	if err != nil {
		t.Fatal(err)
	}
	tmpl := Certificate{
		SerialNumber:       big.NewInt(1),
		Subject:            pkix.Name{CommonName: "c18"},
		NotBefore:          time.Now().Add(-time.Hour),
		NotAfter:           time.Now().Add(time.Hour),
		SignatureAlgorithm: SM2WithSM3,
	}
	der, err := CreateCertificate(&tmpl, &tmpl, &priv.PublicKey, priv)
	if err != nil {
		t.Fatal(err)
	}
	cert, err := ParseCertificate(der)
	if err != nil {
		t.Fatal(err)
	}
	rk, _ := rsa.GenerateKey(rand.Reader, 1024)
	sd, _ := NewSignedData([]byte("content"))
	if err := sd.AddSigner(cert, rk, SignerInfoConfig{}); err != nil { // AddSigner only signs with RSA keys
		t.Fatal(err)
	}
	valid, err := sd.Finish()
	if err != nil {
		t.Fatal(err)
	}
	p7, err := ParsePKCS7(valid)
	if err != nil || len(p7.Signers) != 1 || len(p7.Certificates) != 1 {
		t.Fatal("valid message does not parse", err)
	}
	// signerInfos is the last member of SignedData, which is the tail of the whole message
	var ci contentInfo
	if _, err := asn1.Unmarshal(valid, &ci); err != nil {
		t.Fatal(err)
	}
	var seq, last asn1.RawValue
	if _, err := asn1.Unmarshal(ci.Content.Bytes, &seq); err != nil {
		t.Fatal(err)
	}
	for rest := seq.Bytes; len(rest) > 0; {
		if rest, err = asn1.Unmarshal(rest, &last); err != nil {
			t.Fatal(err)
		}
	}
	off := len(valid) - len(last.FullBytes)
	if valid[off] != 0x31 {
		t.Fatalf("expected the signerInfos SET at %d, found tag %02x", off, valid[off])
	}
	mutated := append([]byte{}, valid...)
	mutated[off] = 0x30
	p7, err = ParsePKCS7(mutated)
	if err == nil {
		t.Errorf("tag swap at %d (31 -> 30): ParsePKCS7 reports success, %d certificates, %d signers (the SignedData does not parse: the asn1.Unmarshal error in parseSignedData is dropped)",
			off, len(p7.Certificates), len(p7.Signers))
	}
}
