package pkcs12

// Place in pkcs12/ and run:
//   go test -vet=off -count=1 -run TestC18SM2P12DecryptNilNil ./pkcs12/

import (
	"crypto/ecdsa"
	"crypto/elliptic"
	"crypto/rand"
	"io/ioutil"
	"math/big"
	"os"
	"testing"
	"time"

	"crypto/x509/pkix"

	"github.com/tjfoc/gmsm/sm2"
	"github.com/tjfoc/gmsm/x509"
)

func TestC18SM2P12DecryptNilNil(t *testing.T) {
	// any certificate will do (Encode does not match it against the key)
	ca, err := sm2.GenerateKey(nil)
	if err != nil {
		t.Fatal(err)
	}
	tmpl := x509.Certificate{
		SerialNumber:       big.NewInt(1),
		Subject:            pkix.Name{CommonName: "c18"},
		NotBefore:          time.Now().Add(-time.Hour),
		NotAfter:           time.Now().Add(time.Hour),
		SignatureAlgorithm: x509.SM2WithSM3,
	}
	der, err := x509.CreateCertificate(&tmpl, &tmpl, &ca.PublicKey, ca)
	if err != nil {
		t.Fatal(err)
	}
	cert, err := x509.ParseCertificate(der)
	if err != nil {
		t.Fatal(err)
	}

	dir, _ := ioutil.TempDir("", "c18p12")
	defer os.RemoveAll(dir)

	for name, curve := range map[string]elliptic.Curve{"P-224": elliptic.P224(), "P-256": elliptic.P256(), "P-384": elliptic.P384(), "P-521": elliptic.P521()} {
		key, _ := ecdsa.GenerateKey(curve, rand.Reader)
		pfx, err := Encode(key, cert, nil, "pw") // a valid PFX produced by the library
		if err != nil {
			t.Fatal(name, err)
		}
		if _, _, err := DecodeAll(pfx, "pw"); err != nil { // and the library reads it back
			t.Fatal(name, err)
		}
		f := dir + "/" + name + ".p12"
		if err := ioutil.WriteFile(f, pfx, 0600); err != nil {
			t.Fatal(err)
		}
		c, k, err := SM2P12Decrypt(f, "pw")
		if c == nil && k == nil && err == nil {
			t.Errorf("%s key: SM2P12Decrypt returned (nil, nil, nil): neither a value nor an error", name)
		}
	}
}
