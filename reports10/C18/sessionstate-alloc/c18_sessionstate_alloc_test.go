package gmtls

// Place in gmtls/ and run:
//   go test -vet=off -count=1 -run TestC18SessionStateAlloc ./gmtls/

import (
	"runtime"
	"testing"
)

func TestC18SessionStateAlloc(t *testing.T) {
	// a valid serialized session state (GMSSL, suite e013, empty master secret, no certificates) ...
	valid := (&sessionState{vers: VersionGMSSL, cipherSuite: GMTLS_SM2_WITH_SM4_SM3}).marshal()
	if !new(sessionState).unmarshal(valid) {
		t.Fatal("valid state does not parse")
	}
	// ... with the two bytes of the certificate count substituted by 0xff (alphabet of the property)
	in := append([]byte{}, valid...)
	in[len(in)-2], in[len(in)-1] = 0xff, 0xff

	var m0, m1 runtime.MemStats
	runtime.GC()
	runtime.ReadMemStats(&m0)
	ok := new(sessionState).unmarshal(in)
	runtime.ReadMemStats(&m1)
	alloc := m1.TotalAlloc - m0.TotalAlloc
	t.Logf("input %x (%d bytes): ok=%v, %d bytes allocated", in, len(in), ok, alloc)
	if alloc > 1000*uint64(len(in)) {
		t.Errorf("sessionState.unmarshal allocated %d bytes for a %d byte input (x%d)", alloc, len(in), alloc/uint64(len(in)))
	}
}
