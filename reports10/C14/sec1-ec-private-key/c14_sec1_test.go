package gmtls

// Place in gmtls/ and run:
//   go test -vet=off -count=1 -run TestC14Sec1 ./gmtls/

import (
	"crypto/ecdsa"
	"crypto/elliptic"
	"crypto/rand"
	stdx509 "crypto/x509"
	"crypto/x509/pkix"
	"encoding/pem"
	"math/big"
	"testing"
	"time"

	"github.com/tjfoc/gmsm/pkcs12"
	"github.com/tjfoc/gmsm/sm2"
	X "github.com/tjfoc/gmsm/x509"
)

// SM2 certificate + the same key as SEC1 "EC PRIVATE KEY" (what pkcs12.MarshalECPrivateKey writes,
// what x509.ParseSm2PrivateKey reads, and what `gmssl ecparam -genkey -name sm2p256v1` produces).
func TestC14Sec1SM2(t *testing.T) {
	k, _ := sm2.GenerateKey(rand.Reader)
	tpl := &X.Certificate{
		SerialNumber:       big.NewInt(1),
		Subject:            pkix.Name{CommonName: "c14"},
		NotBefore:          time.Now().Add(-time.Hour),
		NotAfter:           time.Now().Add(time.Hour),
		SignatureAlgorithm: X.SM2WithSM3,
	}
	cert, err := X.CreateCertificateToPem(tpl, tpl, &k.PublicKey, k)
	if err != nil {
		t.Fatal(err)
	}
	pkcs8, _ := X.WritePrivateKeyToPem(k, nil)
	if _, err := X509KeyPair(cert, pkcs8); err != nil {
		t.Fatalf("control (PKCS#8) failed: %v", err)
	}
	der, err := pkcs12.MarshalECPrivateKey(k)
	if err != nil {
		t.Fatal(err)
	}
	if k2, err := X.ParseSm2PrivateKey(der); err != nil || k2.D.Cmp(k.D) != 0 || k2.X.Cmp(k.X) != 0 {
		t.Fatalf("the library cannot read its own SEC1 encoding: %v", err)
	}
	sec1 := pem.EncodeToMemory(&pem.Block{Type: "EC PRIVATE KEY", Bytes: der})
	if _, err := X509KeyPair(cert, sec1); err != nil {
		t.Errorf("X509KeyPair rejects a matching SM2 pair: %v", err)
	}
	if _, err := GMX509KeyPairsSingle(cert, sec1); err != nil {
		t.Errorf("GMX509KeyPairsSingle rejects a matching SM2 pair: %v", err)
	}
	if _, err := GMX509KeyPairs(cert, sec1, cert, sec1); err != nil {
		t.Errorf("GMX509KeyPairs rejects a matching SM2 pair: %v", err)
	}
}

// ECDSA P-256 certificate + "EC PRIVATE KEY" (openssl ecparam -genkey): accepted by crypto/tls.X509KeyPair.
func TestC14Sec1ECDSA(t *testing.T) {
	k, _ := ecdsa.GenerateKey(elliptic.P256(), rand.Reader)
	tpl := &stdx509.Certificate{SerialNumber: big.NewInt(1), Subject: pkix.Name{CommonName: "c14"},
		NotBefore: time.Now().Add(-time.Hour), NotAfter: time.Now().Add(time.Hour)}
	der, err := stdx509.CreateCertificate(rand.Reader, tpl, tpl, &k.PublicKey, k)
	if err != nil {
		t.Fatal(err)
	}
	cert := pem.EncodeToMemory(&pem.Block{Type: "CERTIFICATE", Bytes: der})
	p8, _ := stdx509.MarshalPKCS8PrivateKey(k)
	if _, err := X509KeyPair(cert, pem.EncodeToMemory(&pem.Block{Type: "PRIVATE KEY", Bytes: p8})); err != nil {
		t.Fatalf("control (PKCS#8) failed: %v", err)
	}
	s1, _ := stdx509.MarshalECPrivateKey(k)
	sec1 := pem.EncodeToMemory(&pem.Block{Type: "EC PRIVATE KEY", Bytes: s1})
	if _, err := X509KeyPair(cert, sec1); err != nil {
		t.Errorf("X509KeyPair rejects a matching ECDSA pair: %v", err)
	}
	if _, err := GMX509KeyPairsSingle(cert, sec1); err != nil {
		t.Errorf("GMX509KeyPairsSingle rejects a matching ECDSA pair: %v", err)
	}
}
