package gmtls

// Place in gmtls/ and run:
//   go test -vet=off -count=1 -run TestC14RsaSameModulus ./gmtls/

import (
	"crypto"
	"crypto/rand"
	"crypto/rsa"
	"crypto/sha256"
	stdx509 "crypto/x509"
	"crypto/x509/pkix"
	"encoding/pem"
	"math/big"
	"testing"
	"time"
)

func TestC14RsaSameModulus(t *testing.T) {
	var k *rsa.PrivateKey
	var d2 *big.Int
	e2 := big.NewInt(17)
	for {
		k, _ = rsa.GenerateKey(rand.Reader, 2048)
		p1 := new(big.Int).Sub(k.Primes[0], big.NewInt(1))
		q1 := new(big.Int).Sub(k.Primes[1], big.NewInt(1))
		if d2 = new(big.Int).ModInverse(e2, new(big.Int).Mul(p1, q1)); d2 != nil {
			break
		}
	}
	// a second, valid RSA key: same modulus, public exponent 17 instead of 65537
	k2 := &rsa.PrivateKey{PublicKey: rsa.PublicKey{N: k.N, E: 17}, D: d2, Primes: k.Primes}
	k2.Precompute()
	if err := k2.Validate(); err != nil {
		t.Fatal(err)
	}
	tpl := &stdx509.Certificate{SerialNumber: big.NewInt(1), Subject: pkix.Name{CommonName: "c14"},
		NotBefore: time.Now().Add(-time.Hour), NotAfter: time.Now().Add(time.Hour)}
	der, _ := stdx509.CreateCertificate(rand.Reader, tpl, tpl, &k.PublicKey, k)
	cert := pem.EncodeToMemory(&pem.Block{Type: "CERTIFICATE", Bytes: der})
	key2 := pem.EncodeToMemory(&pem.Block{Type: "RSA PRIVATE KEY", Bytes: stdx509.MarshalPKCS1PrivateKey(k2)})

	// the key really does not match: its signatures do not verify under the certificate's public key
	h := sha256.Sum256([]byte("x"))
	sig, _ := rsa.SignPKCS1v15(rand.Reader, k2, crypto.SHA256, h[:])
	if rsa.VerifyPKCS1v15(&k.PublicKey, crypto.SHA256, h[:], sig) == nil {
		t.Fatal("keys are equivalent?")
	}
	for name, f := range map[string]func(c, k []byte) (Certificate, error){"X509KeyPair": X509KeyPair, "GMX509KeyPairsSingle": GMX509KeyPairsSingle} {
		if _, err := f(cert, key2); err == nil {
			t.Errorf("%s accepted a private key (e=17) that does not match the certificate (e=65537)", name)
		}
	}
}
