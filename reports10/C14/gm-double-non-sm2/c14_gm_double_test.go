package gmtls

// Place in gmtls/ and run:
//   go test -vet=off -count=1 -run TestC14GMDoubleNonSM2 ./gmtls/

import (
	"crypto/ecdsa"
	"crypto/elliptic"
	"crypto/rand"
	"crypto/rsa"
	stdx509 "crypto/x509"
	"crypto/x509/pkix"
	"encoding/pem"
	"math/big"
	"testing"
	"time"
)

func TestC14GMDoubleNonSM2(t *testing.T) {
	rk, _ := rsa.GenerateKey(rand.Reader, 2048)
	ek, _ := ecdsa.GenerateKey(elliptic.P256(), rand.Reader)
	tpl := &stdx509.Certificate{SerialNumber: big.NewInt(1), Subject: pkix.Name{CommonName: "c14"},
		NotBefore: time.Now().Add(-time.Hour), NotAfter: time.Now().Add(time.Hour)}
	rder, _ := stdx509.CreateCertificate(rand.Reader, tpl, tpl, &rk.PublicKey, rk)
	eder, _ := stdx509.CreateCertificate(rand.Reader, tpl, tpl, &ek.PublicKey, ek)
	rc := pem.EncodeToMemory(&pem.Block{Type: "CERTIFICATE", Bytes: rder})
	ec := pem.EncodeToMemory(&pem.Block{Type: "CERTIFICATE", Bytes: eder})
	rkp := pem.EncodeToMemory(&pem.Block{Type: "RSA PRIVATE KEY", Bytes: stdx509.MarshalPKCS1PrivateKey(rk)})
	b, _ := stdx509.MarshalPKCS8PrivateKey(ek)
	ekp := pem.EncodeToMemory(&pem.Block{Type: "PRIVATE KEY", Bytes: b})

	// controls: the single-pair loaders accept both pairs
	if _, err := GMX509KeyPairsSingle(rc, rkp); err != nil {
		t.Fatal(err)
	}
	if _, err := GMX509KeyPairsSingle(ec, ekp); err != nil {
		t.Fatal(err)
	}
	if _, err := GMX509KeyPairs(rc, rkp, rc, rkp); err != nil {
		t.Errorf("GMX509KeyPairs rejects a matching RSA pair: %v", err)
	}
	if _, err := GMX509KeyPairs(ec, ekp, ec, ekp); err != nil {
		t.Errorf("GMX509KeyPairs rejects a matching ECDSA P-256 pair: %v", err)
	}
}
