package sm2

// Place in sm2/ and run: go test -vet=off -count=1 -run TestC02Asn1Trailing ./sm2/

import (
	"bytes"
	"crypto/rand"
	"testing"
)

func TestC02Asn1Trailing(t *testing.T) {
	priv, _ := GenerateKey(rand.Reader)
	msg := []byte("0123456789abcdef0123456789abcdef0123456789abcdef") // 48 bytes, as a GM TLS premaster secret
	ct, err := EncryptAsn1(&priv.PublicKey, msg, rand.Reader)
	if err != nil {
		t.Fatal(err)
	}
	if len(ct) >= 0x100 || ct[1] != 0x81 {
		t.Fatalf("unexpected header % x", ct[:3])
	}
	// (a) bytes after the SEQUENCE
	a := append(append([]byte{}, ct...), 0xde, 0xad)
	if pt, err := DecryptAsn1(priv, a); err == nil {
		t.Errorf("ciphertext || de ad decrypts (plaintext equal: %v)", bytes.Equal(pt, msg))
	}
	// (b) an extra element inside the SEQUENCE, after C2
	b := append(append([]byte{}, ct...), 0x05, 0x00)
	b[2] += 2
	if pt, err := DecryptAsn1(priv, b); err == nil {
		t.Errorf("SEQUENCE{x, y, C3, C2, NULL} decrypts (plaintext equal: %v)", bytes.Equal(pt, msg))
	}
	// same through the crypto.Decrypter path used by gmtls (CipherUnmarshal + priv.Decrypt)
	raw, err := CipherUnmarshal(a)
	if err == nil {
		if _, err := priv.Decrypt(nil, raw, nil); err == nil {
			t.Errorf("CipherUnmarshal accepts trailing bytes (gmtls ClientKeyExchange path)")
		}
	}
}
