package sm2

import (
	"bytes"
	"encoding/asn1"
	"encoding/binary"
	"encoding/hex"
	"math/big"
	mrand "math/rand"
	"math/bits"
	"testing"

	"github.com/tjfoc/gmsm/sm3"
)

// ---------- independent SM3 ----------
func refSM3(msg []byte) []byte {
	iv := [8]uint32{0x7380166f, 0x4914b2b9, 0x172442d7, 0xda8a0600, 0xa96f30bc, 0x163138aa, 0xe38dee4d, 0xb0fb0e4e}
	l := uint64(len(msg)) * 8
	m := append([]byte{}, msg...)
	m = append(m, 0x80)
	for len(m)%64 != 56 {
		m = append(m, 0)
	}
	var lb [8]byte
	binary.BigEndian.PutUint64(lb[:], l)
	m = append(m, lb[:]...)
	p0 := func(x uint32) uint32 { return x ^ bits.RotateLeft32(x, 9) ^ bits.RotateLeft32(x, 17) }
	p1 := func(x uint32) uint32 { return x ^ bits.RotateLeft32(x, 15) ^ bits.RotateLeft32(x, 23) }
	v := iv
	for ; len(m) > 0; m = m[64:] {
		var w [68]uint32
		var w1 [64]uint32
		for i := 0; i < 16; i++ {
			w[i] = binary.BigEndian.Uint32(m[4*i:])
		}
		for j := 16; j < 68; j++ {
			w[j] = p1(w[j-16]^w[j-9]^bits.RotateLeft32(w[j-3], 15)) ^ bits.RotateLeft32(w[j-13], 7) ^ w[j-6]
		}
		for j := 0; j < 64; j++ {
			w1[j] = w[j] ^ w[j+4]
		}
		a, b, c, d, e, f, g, h := v[0], v[1], v[2], v[3], v[4], v[5], v[6], v[7]
		for j := 0; j < 64; j++ {
			var t uint32 = 0x79cc4519
			if j >= 16 {
				t = 0x7a879d8a
			}
			ss1 := bits.RotateLeft32(bits.RotateLeft32(a, 12)+e+bits.RotateLeft32(t, j%32), 7)
			ss2 := ss1 ^ bits.RotateLeft32(a, 12)
			var ff, gg uint32
			if j < 16 {
				ff = a ^ b ^ c
				gg = e ^ f ^ g
			} else {
				ff = (a & b) | (a & c) | (b & c)
				gg = (e & f) | (^e & g)
			}
			tt1 := ff + d + ss2 + w1[j]
			tt2 := gg + h + ss1 + w[j]
			d = c
			c = bits.RotateLeft32(b, 9)
			b = a
			a = tt1
			h = g
			g = bits.RotateLeft32(f, 19)
			f = e
			e = p0(tt2)
		}
		v[0] ^= a
		v[1] ^= b
		v[2] ^= c
		v[3] ^= d
		v[4] ^= e
		v[5] ^= f
		v[6] ^= g
		v[7] ^= h
	}
	out := make([]byte, 32)
	for i := 0; i < 8; i++ {
		binary.BigEndian.PutUint32(out[4*i:], v[i])
	}
	return out
}

// ---------- independent curve arithmetic (affine, big.Int) ----------
var (
	rP, _  = new(big.Int).SetString("FFFFFFFEFFFFFFFFFFFFFFFFFFFFFFFFFFFFFFFF00000000FFFFFFFFFFFFFFFF", 16)
	rA, _  = new(big.Int).SetString("FFFFFFFEFFFFFFFFFFFFFFFFFFFFFFFFFFFFFFFF00000000FFFFFFFFFFFFFFFC", 16)
	rB, _  = new(big.Int).SetString("28E9FA9E9D9F5E344D5A9E4BCF6509A7F39789F515AB8F92DDBCBD414D940E93", 16)
	rN, _  = new(big.Int).SetString("FFFFFFFEFFFFFFFFFFFFFFFFFFFFFFFF7203DF6B21C6052B53BBF40939D54123", 16)
	rGx, _ = new(big.Int).SetString("32C4AE2C1F1981195F9904466A39C9948FE30BBFF2660BE1715A4589334C74C7", 16)
	rGy, _ = new(big.Int).SetString("BC3736A2F4F6779C59BDCEE36B692153D0A9877CC62A474002DF32E52139F0A0", 16)
)

type rpt struct{ x, y *big.Int } // nil x = infinity

func rAdd(p, q rpt) rpt {
	if p.x == nil {
		return q
	}
	if q.x == nil {
		return p
	}
	var lam *big.Int
	if p.x.Cmp(q.x) == 0 {
		s := new(big.Int).Add(p.y, q.y)
		s.Mod(s, rP)
		if s.Sign() == 0 {
			return rpt{}
		}
		num := new(big.Int).Mul(p.x, p.x)
		num.Mul(num, big.NewInt(3))
		num.Add(num, rA)
		den := new(big.Int).Lsh(p.y, 1)
		den.ModInverse(den.Mod(den, rP), rP)
		lam = num.Mul(num, den)
	} else {
		num := new(big.Int).Sub(q.y, p.y)
		den := new(big.Int).Sub(q.x, p.x)
		den.Mod(den, rP)
		den.ModInverse(den, rP)
		lam = num.Mul(num, den)
	}
	lam.Mod(lam, rP)
	x3 := new(big.Int).Mul(lam, lam)
	x3.Sub(x3, p.x)
	x3.Sub(x3, q.x)
	x3.Mod(x3, rP)
	y3 := new(big.Int).Sub(p.x, x3)
	y3.Mul(y3, lam)
	y3.Sub(y3, p.y)
	y3.Mod(y3, rP)
	return rpt{x3, y3}
}

func rMul(k *big.Int, p rpt) rpt {
	r := rpt{}
	for i := k.BitLen() - 1; i >= 0; i-- {
		r = rAdd(r, r)
		if k.Bit(i) == 1 {
			r = rAdd(r, p)
		}
	}
	return r
}

func pad32(v *big.Int) []byte {
	b := v.Bytes()
	out := make([]byte, 32)
	copy(out[32-len(b):], b)
	return out
}

func refKDF(z []byte, klen int) []byte {
	var out []byte
	for ct := uint32(1); len(out) < klen; ct++ {
		var c [4]byte
		binary.BigEndian.PutUint32(c[:], ct)
		out = append(out, refSM3(append(append([]byte{}, z...), c[:]...))...)
	}
	return out[:klen]
}

// refEncrypt: GM/T 0003.4 6.1 with given k; ok=false if t all zero
func refEncrypt(px, py, k *big.Int, m []byte) (c1, c2, c3 []byte, ok bool) {
	C1 := rMul(k, rpt{rGx, rGy})
	S := rMul(k, rpt{px, py})
	z := append(pad32(S.x), pad32(S.y)...)
	t := refKDF(z, len(m))
	allz := true
	for _, b := range t {
		if b != 0 {
			allz = false
		}
	}
	if allz {
		return nil, nil, nil, false
	}
	c2 = make([]byte, len(m))
	for i := range m {
		c2[i] = m[i] ^ t[i]
	}
	h := append(append(pad32(S.x), m...), pad32(S.y)...)
	c3 = refSM3(h)
	c1 = append([]byte{4}, append(pad32(C1.x), pad32(C1.y)...)...)
	return c1, c2, c3, true
}

type refAsn1 struct {
	X, Y *big.Int
	H, C []byte
}

// nonce stream that makes randFieldElement return k
type kStream struct{ ks []*big.Int }

func (s *kStream) Read(p []byte) (int, error) {
	if len(p) != 40 {
		panic("unexpected read size")
	}
	k := s.ks[0]
	if len(s.ks) > 1 {
		s.ks = s.ks[1:]
	}
	v := new(big.Int).Sub(k, big.NewInt(1))
	b := v.Bytes()
	for i := range p {
		p[i] = 0
	}
	copy(p[40-len(b):], b)
	return 40, nil
}

func TestRefSM3(t *testing.T) {
	if hex.EncodeToString(refSM3([]byte("abc"))) != "66c7f0f462eeedd9d1f2d46bdc10e4e24167c4875cf2f7a2297da02b8f4ba8e0" {
		t.Fatal("reference sm3 wrong")
	}
	buf := make([]byte, 5000)
	r := mrand.New(mrand.NewSource(1))
	r.Read(buf)
	for l := 0; l <= 5000; l++ {
		if !bytes.Equal(refSM3(buf[:l]), sm3.Sm3Sum(buf[:l])) {
			t.Fatalf("sm3 mismatch at len %d", l)
		}
	}
	// streaming
	for trial := 0; trial < 2000; trial++ {
		h := sm3.New()
		total := 0
		for total < 300 && r.Intn(10) != 0 {
			n := r.Intn(130)
			if total+n > 5000 {
				break
			}
			h.Write(buf[total : total+n])
			total += n
			if r.Intn(3) == 0 {
				if !bytes.Equal(h.Sum(nil), refSM3(buf[:total])) {
					t.Fatalf("stream mismatch")
				}
			}
		}
		if !bytes.Equal(h.Sum(nil), refSM3(buf[:total])) {
			t.Fatalf("stream mismatch")
		}
	}
}

func TestStdVector(t *testing.T) {
	d, _ := new(big.Int).SetString("3945208F7B2144B13F36E38AC6D39F95889393692860B51A42FB81EF4DF7C5B8", 16)
	k, _ := new(big.Int).SetString("59276E27D506861A16680F3AD9C02DCCEF3CC1FA3CDBE4CE6D54B80DEAC1BC21", 16)
	P := rMul(d, rpt{rGx, rGy})
	c1, c2, c3, _ := refEncrypt(P.x, P.y, k, []byte("encryption standard"))
	t.Logf("c1=%x\nc3=%x\nc2=%x", c1, c3, c2)
	if hex.EncodeToString(c2) != "21886ca989ca9c7d58087307ca93092d651efa" {
		t.Fatalf("reference does not reproduce GM/T 0003.5 vector")
	}
	pub := &PublicKey{Curve: P256Sm2(), X: P.x, Y: P.y}
	ct, err := Encrypt(pub, []byte("encryption standard"), &kStream{[]*big.Int{k}}, C1C3C2)
	if err != nil {
		t.Fatal(err)
	}
	want := append(append(append([]byte{}, c1...), c3...), c2...)
	if !bytes.Equal(ct, want) {
		t.Fatalf("lib differs")
	}
}

func specialScalars(r *mrand.Rand) []*big.Int {
	var out []*big.Int
	add := func(v *big.Int) {
		if v.Sign() > 0 && v.Cmp(rN) < 0 {
			out = append(out, new(big.Int).Set(v))
		}
	}
	for i := int64(1); i <= 40; i++ {
		add(big.NewInt(i))
		add(new(big.Int).Sub(rN, big.NewInt(i)))
	}
	for i := uint(1); i < 256; i++ {
		p := new(big.Int).Lsh(big.NewInt(1), i)
		add(p)
		add(new(big.Int).Sub(p, big.NewInt(1)))
		add(new(big.Int).Add(p, big.NewInt(1)))
	}
	half := new(big.Int).Rsh(rN, 1)
	for i := int64(-8); i <= 8; i++ {
		add(new(big.Int).Add(half, big.NewInt(i)))
	}
	// patterns
	for _, pat := range []byte{0x0f, 0xf0, 0x55, 0xaa, 0x77, 0x88, 0x99, 0x11, 0x01, 0x80, 0x7f, 0xfe} {
		b := bytes.Repeat([]byte{pat}, 32)
		v := new(big.Int).SetBytes(b)
		v.Mod(v, rN)
		add(v)
		for l := 1; l < 32; l += 3 {
			add(new(big.Int).SetBytes(b[:l]))
		}
	}
	for i := 0; i < 200; i++ {
		b := make([]byte, 32)
		r.Read(b)
		// sparse
		for j := range b {
			if r.Intn(3) != 0 {
				b[j] = 0
			}
		}
		v := new(big.Int).SetBytes(b)
		v.Mod(v, rN)
		add(v)
	}
	return out
}

func TestScalarMultDiff(t *testing.T) {
	r := mrand.New(mrand.NewSource(2))
	c := P256Sm2()
	sc := specialScalars(r)
	for i := 0; i < 300; i++ {
		b := make([]byte, 32)
		r.Read(b)
		v := new(big.Int).SetBytes(b)
		v.Mod(v, rN)
		if v.Sign() > 0 {
			sc = append(sc, v)
		}
	}
	t.Logf("%d scalars", len(sc))
	G := rpt{rGx, rGy}
	// a few points
	pts := []rpt{G}
	for _, d := range []int64{2, 3, 5, 7} {
		pts = append(pts, rMul(big.NewInt(d), G))
	}
	pts = append(pts, rMul(new(big.Int).Sub(rN, big.NewInt(2)), G))
	for i := 0; i < 3; i++ {
		b := make([]byte, 32)
		r.Read(b)
		pts = append(pts, rMul(new(big.Int).Mod(new(big.Int).SetBytes(b), rN), G))
	}
	bad := 0
	for _, k := range sc {
		w := rMul(k, G)
		x, y := c.ScalarBaseMult(k.Bytes())
		if x.Cmp(w.x) != 0 || y.Cmp(w.y) != 0 {
			t.Errorf("ScalarBaseMult(%x) wrong", k)
			bad++
		}
		for pi, p := range pts {
			w := rMul(k, p)
			x, y := c.ScalarMult(p.x, p.y, k.Bytes())
			if w.x == nil {
				if x.Sign() != 0 || y.Sign() != 0 {
					t.Errorf("ScalarMult pt %d k=%x: want infinity", pi, k)
				}
				continue
			}
			if x.Cmp(w.x) != 0 || y.Cmp(w.y) != 0 {
				t.Errorf("ScalarMult(pt %d, %x) wrong", pi, k)
				bad++
			}
		}
		if bad > 10 {
			t.Fatal("too many")
		}
	}
}

func lengths() []int {
	var ls []int
	for l := 0; l <= 4096; l++ {
		m := l % 32
		if l <= 70 || m <= 1 || m >= 31 || l%257 == 0 {
			ls = append(ls, l)
		}
	}
	return ls
}

func TestEncryptDiff(t *testing.T) {
	r := mrand.New(mrand.NewSource(3))
	sc := specialScalars(r)
	G := rpt{rGx, rGy}
	msgbuf := make([]byte, 4096)
	r.Read(msgbuf)
	ls := lengths()
	// keys: special d
	var ds []*big.Int
	for _, v := range []int64{1, 2, 3} {
		ds = append(ds, big.NewInt(v))
	}
	ds = append(ds, new(big.Int).Sub(rN, big.NewInt(2)), new(big.Int).Sub(rN, big.NewInt(3)))
	for i := 0; i < 3; i++ {
		b := make([]byte, 32)
		r.Read(b)
		v := new(big.Int).SetBytes(b)
		v.Mod(v, new(big.Int).Sub(rN, big.NewInt(2)))
		v.Add(v, big.NewInt(1))
		ds = append(ds, v)
	}
	n := 0
	for di, d := range ds {
		P := rMul(d, G)
		priv := &PrivateKey{PublicKey: PublicKey{Curve: P256Sm2(), X: P.x, Y: P.y}, D: d}
		other := &PrivateKey{PublicKey: PublicKey{Curve: P256Sm2()}, D: new(big.Int).Add(d, big.NewInt(1))}
		if other.D.Cmp(new(big.Int).Sub(rN, big.NewInt(1))) >= 0 {
			other.D = big.NewInt(5)
		}
		for li, l := range ls {
			// choose k: rotate through specials + random
			var k *big.Int
			if (li+di)%2 == 0 {
				k = sc[(li*7+di*13)%len(sc)]
			} else {
				b := make([]byte, 32)
				r.Read(b)
				k = new(big.Int).SetBytes(b)
				k.Mod(k, new(big.Int).Sub(rN, big.NewInt(1)))
				k.Add(k, big.NewInt(1))
			}
			m := msgbuf[:l]
			if l > 0 && li%5 == 0 {
				m = make([]byte, l) // all zero plaintext
			}
			for _, mode := range []int{C1C3C2, C1C2C3} {
				ct, err := Encrypt(&priv.PublicKey, m, &kStream{[]*big.Int{k}}, mode)
				if l == 0 {
					if err == nil {
						// then must roundtrip
						pt, derr := Decrypt(priv, ct, mode)
						if derr != nil || len(pt) != 0 {
							t.Errorf("empty: ct=%x derr=%v", ct, derr)
						}
					}
					continue
				}
				if err != nil {
					t.Fatalf("encrypt err %v", err)
				}
				c1, c2, c3, ok := refEncrypt(P.x, P.y, k, m)
				if !ok {
					t.Fatalf("all zero t?!")
				}
				var want []byte
				if mode == C1C3C2 {
					want = append(append(append([]byte{}, c1...), c3...), c2...)
				} else {
					want = append(append(append([]byte{}, c1...), c2...), c3...)
				}
				if !bytes.Equal(ct, want) {
					t.Fatalf("d#%d len %d mode %d k=%x: ciphertext differs from reference", di, l, mode, k)
				}
				pt, err := Decrypt(priv, ct, mode)
				if err != nil || !bytes.Equal(pt, m) {
					t.Fatalf("roundtrip fail len %d mode %d: %v", l, mode, err)
				}
				if _, err := Decrypt(other, ct, mode); err == nil {
					t.Fatalf("other key decrypts len %d", l)
				}
				n++
			}
			if l == 0 {
				continue
			}
			// asn1
			ct, err := EncryptAsn1(&priv.PublicKey, m, &kStream{[]*big.Int{k}})
			if err != nil {
				t.Fatal(err)
			}
			c1, c2, c3, _ := refEncrypt(P.x, P.y, k, m)
			want, _ := asn1.Marshal(refAsn1{new(big.Int).SetBytes(c1[1:33]), new(big.Int).SetBytes(c1[33:]), c3, c2})
			if !bytes.Equal(ct, want) {
				t.Fatalf("asn1 differs len %d", l)
			}
			pt, err := DecryptAsn1(priv, ct)
			if err != nil || !bytes.Equal(pt, m) {
				t.Fatalf("asn1 roundtrip fail len %d: %v", l, err)
			}
			if _, err := DecryptAsn1(other, ct); err == nil {
				t.Fatalf("other key decrypts asn1 len %d", l)
			}
		}
	}
	t.Logf("%d raw cases", n)
}
