package sm2

import (
	"bytes"
	"crypto/rand"
	"math/big"
	"testing"
)

func TestRejectSingleByte(t *testing.T) {
	priv, _ := GenerateKey(rand.Reader)
	for _, l := range []int{1, 2, 31, 32, 33, 20, 27, 28, 29, 30, 120, 140, 150, 160, 256} {
		m := make([]byte, l)
		rand.Read(m)
		for form := 0; form < 3; form++ {
			var ct []byte
			var err error
			dec := func(b []byte) ([]byte, error) { return Decrypt(priv, b, C1C3C2) }
			switch form {
			case 0:
				ct, err = Encrypt(&priv.PublicKey, m, rand.Reader, C1C3C2)
			case 1:
				ct, err = Encrypt(&priv.PublicKey, m, rand.Reader, C1C2C3)
				dec = func(b []byte) ([]byte, error) { return Decrypt(priv, b, C1C2C3) }
			case 2:
				ct, err = EncryptAsn1(&priv.PublicKey, m, rand.Reader)
				dec = func(b []byte) ([]byte, error) { return DecryptAsn1(priv, b) }
			}
			if err != nil {
				t.Fatal(err)
			}
			if pt, err := dec(ct); err != nil || !bytes.Equal(pt, m) {
				t.Fatal("roundtrip")
			}
			for i := range ct {
				for v := 1; v < 256; v++ {
					if !(form == 2 && (i < 80 || l <= 33)) && !(form != 2 && i < 3) && v != 1 && v != 0x80 && v != 0xff {
						continue
					}
					mod := append([]byte{}, ct...)
					mod[i] ^= byte(v)
					func() {
						defer func() {
							if r := recover(); r != nil {
								t.Errorf("PANIC len %d form %d pos %d xor %02x: %v", l, form, i, v, r)
							}
						}()
						if pt, err := dec(mod); err == nil {
							t.Errorf("len %d form %d: byte %d of %d ^%02x accepted (pt equal=%v) ct[i]=%02x", l, form, i, len(ct), v, bytes.Equal(pt, m), ct[i])
						}
					}()
				}
			}
			for n := 0; n < len(ct); n++ {
				func() {
					defer func() {
						if r := recover(); r != nil {
							t.Errorf("PANIC trunc len %d form %d to %d: %v", l, form, n, r)
						}
					}()
					if _, err := dec(ct[:n]); err == nil {
						t.Errorf("len %d form %d: truncation to %d accepted", l, form, n)
					}
					// truncation from the front as well
					if _, err := dec(ct[len(ct)-n:]); err == nil {
						t.Errorf("len %d form %d: front truncation to %d accepted", l, form, n)
					}
				}()
			}
		}
	}
}

func TestInvalidCurve(t *testing.T) {
	priv, _ := GenerateKey(rand.Reader)
	p := sm2P256.P
	a := new(big.Int).Sub(p, big.NewInt(3))
	cnt := 0
	for bi := int64(0); bi < 60; bi++ {
		bp := big.NewInt(bi)
		for xi := int64(0); xi < 40; xi++ {
			x := big.NewInt(xi)
			rr := new(big.Int).Mul(x, x)
			rr.Mul(rr, x)
			rr.Add(rr, new(big.Int).Mul(a, x))
			rr.Add(rr, bp)
			rr.Mod(rr, p)
			y := new(big.Int).ModSqrt(rr, p)
			if y == nil {
				continue
			}
			for _, yy := range []*big.Int{y, new(big.Int).Sub(p, y)} {
				if yy.Cmp(p) >= 0 {
					continue
				}
				cnt++
				// craft ciphertext that would decrypt if accepted: compute as the library would
				for _, mode := range []int{C1C3C2, C1C2C3} {
					c1 := append(pad32(x), pad32(yy)...)
					body := make([]byte, 32+5)
					var ct []byte
					ct = append([]byte{4}, c1...)
					ct = append(ct, body...)
					func() {
						defer func() {
							if r := recover(); r != nil {
								t.Errorf("PANIC invalid curve: %v", r)
							}
						}()
						_, err := Decrypt(priv, ct, mode)
						if err == nil || err.Error() != "Decrypt: C1 is not on the curve" {
							t.Errorf("b'=%d x=%d: err=%v", bi, xi, err)
						}
					}()
				}
			}
		}
	}
	t.Logf("%d invalid points", cnt)
}
