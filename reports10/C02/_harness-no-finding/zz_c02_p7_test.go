package x509

import (
	"bytes"
	"crypto/x509/pkix"
	"math/big"
	"testing"
	"time"

	"github.com/tjfoc/gmsm/sm2"
)

func TestZZP7(t *testing.T) {
	priv, _ := sm2.GenerateKey(nil)
	priv2, _ := sm2.GenerateKey(nil)
	template := Certificate{
		SerialNumber:       big.NewInt(5),
		Subject:            pkix.Name{CommonName: "x"},
		NotBefore:          time.Now(),
		NotAfter:           time.Now().Add(time.Hour),
		SignatureAlgorithm: SM2WithSM3,
	}
	pem, err := CreateCertificateToPem(&template, &template, &priv.PublicKey, priv)
	if err != nil {
		t.Fatal(err)
	}
	cert, err := ReadCertificateFromPem(pem)
	if err != nil {
		t.Fatal(err)
	}
	for _, alg := range []int{EncryptionAlgorithmDESCBC, EncryptionAlgorithmAES128GCM} {
		ContentEncryptionAlgorithm = alg
		for _, mode := range []int{sm2.C1C3C2, sm2.C1C2C3} {
			for _, l := range []int{0, 1, 7, 8, 9, 100} {
				content := bytes.Repeat([]byte{7}, l)
				data, err := PKCS7EncryptSM2(content, []*Certificate{cert}, mode)
				if err != nil {
					t.Errorf("alg %d mode %d len %d: %v", alg, mode, l, err)
					continue
				}
				p7, err := ParsePKCS7(data)
				if err != nil {
					t.Errorf("parse alg %d mode %d len %d: %v", alg, mode, l, err)
					continue
				}
				out, err := p7.DecryptSM2(cert, priv, mode)
				if err != nil || !bytes.Equal(out, content) {
					t.Errorf("decrypt alg %d mode %d len %d: %v %x", alg, mode, l, err, out)
				}
				if out, err := p7.DecryptSM2(cert, priv2, mode); err == nil {
					t.Errorf("wrong key decrypts alg %d mode %d len %d: %x", alg, mode, l, out)
				}
				if out, err := p7.DecryptSM2(cert, priv, 1-mode); err == nil {
					t.Logf("wrong mode decrypts alg %d mode %d len %d: %x", alg, mode, l, out)
				}
			}
		}
	}
}
