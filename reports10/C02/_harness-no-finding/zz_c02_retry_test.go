package sm2

import (
	"bytes"
	"math/big"
	"testing"
	"time"
)

type constStream struct{ b byte }

func (c constStream) Read(p []byte) (int, error) {
	for i := range p {
		p[i] = c.b
	}
	return len(p), nil
}

func TestRetryPath(t *testing.T) {
	G := rpt{rGx, rGy}
	d := big.NewInt(0x1234567)
	P := rMul(d, G)
	priv := &PrivateKey{PublicKey: PublicKey{Curve: P256Sm2(), X: P.x, Y: P.y}, D: d}
	var bad []*big.Int
	for i := int64(1); len(bad) < 2; i++ {
		k := big.NewInt(i)
		if _, _, _, ok := refEncrypt(P.x, P.y, k, []byte{0x55}); !ok {
			bad = append(bad, k)
			t.Logf("bad k = %d", i)
		}
	}
	good := big.NewInt(1)
	for _, mode := range []int{C1C3C2, C1C2C3} {
		ct, err := Encrypt(&priv.PublicKey, []byte{0x55}, &kStream{[]*big.Int{bad[0], bad[1], good}}, mode)
		if err != nil {
			t.Fatal(err)
		}
		c1, c2, c3, _ := refEncrypt(P.x, P.y, good, []byte{0x55})
		want := append(append(append([]byte{}, c1...), c3...), c2...)
		if mode == C1C2C3 {
			want = append(append(append([]byte{}, c1...), c2...), c3...)
		}
		if !bytes.Equal(ct, want) {
			t.Fatalf("retry path differs")
		}
		// a ciphertext made with the bad k (t = 0 => C2 = M) must be refused by Decrypt (B4)
		C1 := rMul(bad[0], G)
		S := rMul(bad[0], rpt{P.x, P.y})
		h := refSM3(append(append(pad32(S.x), 0x55), pad32(S.y)...))
		forged := append([]byte{4}, append(pad32(C1.x), pad32(C1.y)...)...)
		if mode == C1C3C2 {
			forged = append(append(forged, h...), 0x55)
		} else {
			forged = append(append(forged, 0x55), h...)
		}
		if _, err := Decrypt(priv, forged, mode); err == nil {
			t.Errorf("t=0 ciphertext accepted")
		}
	}
	// constant stream with bad k
	done := make(chan struct{})
	go func() {
		Encrypt(&priv.PublicKey, []byte{0x55}, &kStream{[]*big.Int{bad[0]}}, C1C3C2)
		close(done)
	}()
	select {
	case <-done:
		t.Log("terminated")
	case <-time.After(5 * time.Second):
		t.Errorf("Encrypt does not terminate on a constant nonce stream k=%v", bad[0])
	}
}
