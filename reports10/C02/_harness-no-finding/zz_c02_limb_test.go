package sm2

import (
	"math/big"
	mrand "math/rand"
	"testing"
)

func limbInt(X *sm2P256FieldElement) *big.Int {
	r, tm := new(big.Int), new(big.Int)
	r.SetInt64(int64(X[8]))
	for i := 7; i >= 0; i-- {
		if (i & 1) == 0 {
			r.Lsh(r, 29)
		} else {
			r.Lsh(r, 28)
		}
		tm.SetInt64(int64(X[i]))
		r.Add(r, tm)
	}
	return r
}

func randLimb(r *mrand.Rand, bitsN uint, slack bool) uint32 {
	max := uint32(1)<<bitsN - 1
	switch r.Intn(12) {
	case 0:
		return 0
	case 1:
		return 1
	case 2:
		return max
	case 3:
		return max - 1
	case 4:
		return uint32(1) << uint(r.Intn(int(bitsN)))
	case 5:
		return max ^ (uint32(1) << uint(r.Intn(int(bitsN))))
	case 6:
		return uint32(r.Intn(16))
	case 7:
		return max - uint32(r.Intn(16))
	case 8:
		if slack {
			return r.Uint32() & max
		}
		return r.Uint32() & max
	default:
		return r.Uint32() & max
	}
}

func randFE(r *mrand.Rand, slack bool) sm2P256FieldElement {
	var f sm2P256FieldElement
	for i := 0; i < 9; i++ {
		if i&1 == 0 {
			f[i] = randLimb(r, 29, slack)
		} else {
			f[i] = randLimb(r, 28, slack)
		}
	}
	if slack {
		// ranges that ReduceCarry can leave behind
		if r.Intn(2) == 0 {
			f[2] += 0x1FFFF900 + uint32(r.Intn(0x800))
		}
		if r.Intn(2) == 0 {
			f[7] += 0xE000000
		}
		if r.Intn(2) == 0 {
			f[3] += 0x37FF
		}
		if r.Intn(2) == 0 {
			f[0] += 0xE
		}
	}
	return f
}

func TestLimbFuzz(t *testing.T) {
	P256Sm2()
	r := mrand.New(mrand.NewSource(99))
	R := new(big.Int).Lsh(big.NewInt(1), 257)
	p := sm2P256.P
	bad := 0
	for it := 0; it < 3000000; it++ {
		slack := it%4 == 0
		a, b := randFE(r, slack), randFE(r, slack)
		if it%7 == 0 {
			b = a
		}
		var c sm2P256FieldElement
		sm2P256Mul(&c, &a, &b)
		lhs := new(big.Int).Mul(limbInt(&c), R)
		lhs.Mod(lhs, p)
		rhs := new(big.Int).Mul(limbInt(&a), limbInt(&b))
		rhs.Mod(rhs, p)
		if lhs.Cmp(rhs) != 0 {
			t.Errorf("Mul wrong a=%x b=%x c=%x", a, b, c)
			bad++
		}
		var s sm2P256FieldElement
		sm2P256Square(&s, &a)
		lhs = new(big.Int).Mul(limbInt(&s), R)
		lhs.Mod(lhs, p)
		rhs = new(big.Int).Mul(limbInt(&a), limbInt(&a))
		rhs.Mod(rhs, p)
		if lhs.Cmp(rhs) != 0 {
			t.Errorf("Square wrong a=%x s=%x", a, s)
			bad++
		}
		for i := 0; i < 9; i++ {
			lim := uint32(1) << 29
			if i&1 == 1 {
				lim = 1 << 28
			}
			if c[i] >= 2*lim+16 || s[i] >= 2*lim+16 {
				t.Errorf("output limb %d too large: a=%x b=%x c=%x s=%x", i, a, b, c, s)
				bad++
			}
		}
		var d sm2P256FieldElement
		sm2P256Add(&d, &a, &b)
		lhs = new(big.Int).Mod(limbInt(&d), p)
		rhs = new(big.Int).Add(limbInt(&a), limbInt(&b))
		rhs.Mod(rhs, p)
		if lhs.Cmp(rhs) != 0 {
			t.Errorf("Add wrong a=%x b=%x", a, b)
			bad++
		}
		sm2P256Sub(&d, &a, &b)
		lhs = new(big.Int).Mod(limbInt(&d), p)
		rhs = new(big.Int).Sub(limbInt(&a), limbInt(&b))
		rhs.Mod(rhs, p)
		if lhs.Cmp(rhs) != 0 {
			t.Errorf("Sub wrong a=%x b=%x d=%x", a, b, d)
			bad++
		}
		if bad > 5 {
			t.Fatal("stop")
		}
	}
}

// IsOnCurve against big.Int on structured coordinates
func TestIsOnCurveDiff(t *testing.T) {
	c := P256Sm2()
	r := mrand.New(mrand.NewSource(5))
	p := sm2P256.P
	a := new(big.Int).Sub(p, big.NewInt(3))
	ref := func(x, y *big.Int) bool {
		if x.Sign() < 0 || y.Sign() < 0 || x.Cmp(p) >= 0 || y.Cmp(p) >= 0 {
			return false
		}
		l := new(big.Int).Mul(y, y)
		l.Mod(l, p)
		rr := new(big.Int).Mul(x, x)
		rr.Mul(rr, x)
		rr.Add(rr, new(big.Int).Mul(a, x))
		rr.Add(rr, sm2P256.B)
		rr.Mod(rr, p)
		return l.Cmp(rr) == 0
	}
	Rinv := sm2P256.RInverse
	for it := 0; it < 300000; it++ {
		// choose x so that its Montgomery form has structured limbs
		fx := randFE(r, false)
		x := new(big.Int).Mul(limbInt(&fx), Rinv)
		x.Mod(x, p)
		if it%3 == 0 {
			x = limbInt(&fx)
			x.Mod(x, p)
		}
		// y: solve if possible
		rr := new(big.Int).Mul(x, x)
		rr.Mul(rr, x)
		rr.Add(rr, new(big.Int).Mul(a, x))
		rr.Add(rr, sm2P256.B)
		rr.Mod(rr, p)
		y := new(big.Int).ModSqrt(rr, p)
		if y == nil {
			fy := randFE(r, false)
			y = limbInt(&fy)
			y.Mod(y, p)
		} else if it%5 == 0 {
			y.Add(y, big.NewInt(1))
			y.Mod(y, p)
		}
		if c.IsOnCurve(x, y) != ref(x, y) {
			t.Fatalf("IsOnCurve(%x,%x) = %v", x, y, c.IsOnCurve(x, y))
		}
	}
}
