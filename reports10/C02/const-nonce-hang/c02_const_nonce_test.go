package sm2

// Place in sm2/ and run: go test -vet=off -count=1 -run TestC02ConstNonceStream ./sm2/

import (
	"math/big"
	"testing"
	"time"
)

// a nonce stream that makes randFieldElement return the same k on every draw
type c02ConstK struct{ k *big.Int }

func (s c02ConstK) Read(p []byte) (int, error) {
	b := new(big.Int).Sub(s.k, big.NewInt(1)).Bytes() // randFieldElement: k = (bytes mod n-1) + 1
	for i := range p {
		p[i] = 0
	}
	copy(p[len(p)-len(b):], b)
	return len(p), nil
}

func TestC02ConstNonceStream(t *testing.T) {
	c := P256Sm2()
	d := big.NewInt(0x1234567)
	priv := &PrivateKey{D: d}
	priv.Curve = c
	priv.X, priv.Y = c.ScalarBaseMult(d.Bytes())

	// find the first nonce k for which t = KDF(x2||y2, 1 byte) is 00 (one k in 256; k = 63 for this key)
	var k *big.Int
	for i := int64(1); ; i++ {
		k = big.NewInt(i)
		x2, y2 := c.ScalarMult(priv.X, priv.Y, k.Bytes())
		xb, yb := make([]byte, 32), make([]byte, 32)
		x2.FillBytes(xb)
		y2.FillBytes(yb)
		if _, ok := kdf(1, xb, yb); !ok {
			break
		}
	}
	t.Logf("k = %v gives t = 00 for a 1-byte plaintext", k)

	done := make(chan error, 1)
	go func() {
		_, err := Encrypt(&priv.PublicKey, []byte{0x55}, c02ConstK{k}, C1C3C2)
		done <- err
	}()
	select {
	case err := <-done:
		t.Logf("terminated, err = %v", err)
	case <-time.After(10 * time.Second):
		t.Fatalf("sm2.Encrypt(1-byte plaintext) did not return within 10s on the nonce stream k,k,k,... (k=%v): neither a ciphertext nor an error", k)
	}
}
