package gmtls

// C15: a TLS client completes a TLS 1.0 / TLS 1.1 handshake in which the server selected a cipher suite
// that exists only in TLS 1.2 (AEAD / SHA-256 suites, flag suiteTLS12).
//
// Place this file in gmtls/ and run:  go test -vet=off -count=1 -run TestC15TLS12SuiteBelowTLS12 ./gmtls/

import (
	"net"
	"sync/atomic"
	"testing"
	"time"
)

// suiteversEvilServer is the library's own server handshake (full handshake branch) forced to the
// given version and cipher suite after the ClientHello has been processed.
func suiteversEvilServer(c *Conn, vers, suite uint16) error {
	c.config.serverInitOnce.Do(func() { c.config.serverInit(nil) })
	hs := serverHandshakeState{c: c}
	if _, err := hs.readClientHello(); err != nil {
		return err
	}
	c.vers = vers
	hs.hello.vers = vers
	for _, s := range cipherSuites {
		if s.id == suite {
			hs.suite = s
		}
	}
	c.buffering = true
	if err := hs.doFullHandshake(); err != nil {
		return err
	}
	if err := hs.establishKeys(); err != nil {
		return err
	}
	if err := hs.readFinished(c.clientFinished[:]); err != nil {
		return err
	}
	c.buffering = true
	if err := hs.sendSessionTicket(); err != nil {
		return err
	}
	if err := hs.sendFinished(nil); err != nil {
		return err
	}
	if _, err := c.flush(); err != nil {
		return err
	}
	atomic.StoreUint32(&c.handshakeStatus, 1)
	return nil
}

// suiteversPipe returns the two ends of a loopback TCP connection (net.Pipe is unbuffered: an endpoint that
// sends an alert while its peer is still writing its flight would block there, which is an artefact
// of the pipe, not of the library).
func suiteversPipe(t *testing.T) (net.Conn, net.Conn) {
	l, err := net.Listen("tcp", "127.0.0.1:0")
	if err != nil {
		t.Fatal(err)
	}
	defer l.Close()
	ch := make(chan net.Conn, 1)
	go func() {
		c, err := l.Accept()
		if err != nil {
			t.Error(err)
		}
		ch <- c
	}()
	c1, err := net.Dial("tcp", l.Addr().String())
	if err != nil {
		t.Fatal(err)
	}
	return c1, <-ch
}

func TestC15TLS12SuiteBelowTLS12(t *testing.T) {
	cert, err := LoadX509KeyPair("websvr/certs/rsa_sign.cer", "websvr/certs/rsa_sign_key.pem")
	if err != nil {
		t.Fatal(err)
	}
	for _, vers := range []uint16{VersionTLS10, VersionTLS11} {
		for _, suite := range []uint16{TLS_RSA_WITH_AES_128_GCM_SHA256, TLS_RSA_WITH_AES_256_GCM_SHA384,
			TLS_ECDHE_RSA_WITH_AES_128_GCM_SHA256, TLS_ECDHE_RSA_WITH_CHACHA20_POLY1305} {
			cc, sc := suiteversPipe(t)
			srv := Server(sc, &Config{Certificates: []Certificate{cert}})
			cli := Client(cc, &Config{InsecureSkipVerify: true}) // default configuration: offers 0x0303 and the default suites
			go suiteversEvilServer(srv, vers, suite)
			done := make(chan error, 1)
			go func() { done <- cli.Handshake() }()
			select {
			case err := <-done:
				if err == nil {
					st := cli.ConnectionState()
					t.Errorf("ServerHello(version %04x, suite %04x): client Handshake() = nil, HandshakeComplete = %v, Version = %04x, CipherSuite = %04x",
						vers, suite, st.HandshakeComplete, st.Version, st.CipherSuite)
				} else {
					t.Logf("ServerHello(version %04x, suite %04x): %v", vers, suite, err)
				}
			case <-time.After(5 * time.Second):
				t.Errorf("hang")
			}
			cc.Close()
			sc.Close()
		}
	}
}
