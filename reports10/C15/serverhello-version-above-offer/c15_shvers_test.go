package gmtls

// C15: a TLS client completes the handshake with a server whose ServerHello names a protocol
// version ABOVE the one the client offered (0x0304, 0x0400, 0xffff against an offer of 0x0303; 0x0303
// against an offer of 0x0302).
//
// Place this file in gmtls/ and run:  go test -vet=off -count=1 -run TestC15ServerHelloVersionAboveOffer ./gmtls/

import (
	"net"
	"sync/atomic"
	"testing"
	"time"
)

// shversEvilServer is the library's own server handshake (handshake_server.go, serverHandshake, full
// handshake branch) with one change: the version field of the ServerHello is overwritten.
func shversEvilServer(c *Conn, helloVers uint16) error {
	c.config.serverInitOnce.Do(func() { c.config.serverInit(nil) })
	hs := serverHandshakeState{c: c}
	if _, err := hs.readClientHello(); err != nil {
		return err
	}
	hs.hello.vers = helloVers // c.vers (records, PRF, Finished) stays what the client offered
	c.buffering = true
	if err := hs.doFullHandshake(); err != nil {
		return err
	}
	if err := hs.establishKeys(); err != nil {
		return err
	}
	if err := hs.readFinished(c.clientFinished[:]); err != nil {
		return err
	}
	c.buffering = true
	if err := hs.sendSessionTicket(); err != nil {
		return err
	}
	if err := hs.sendFinished(nil); err != nil {
		return err
	}
	if _, err := c.flush(); err != nil {
		return err
	}
	atomic.StoreUint32(&c.handshakeStatus, 1)
	return nil
}

// shversPipe returns the two ends of a loopback TCP connection (net.Pipe is unbuffered: an endpoint that
// sends an alert while its peer is still writing its flight would block there, which is an artefact
// of the pipe, not of the library).
func shversPipe(t *testing.T) (net.Conn, net.Conn) {
	l, err := net.Listen("tcp", "127.0.0.1:0")
	if err != nil {
		t.Fatal(err)
	}
	defer l.Close()
	ch := make(chan net.Conn, 1)
	go func() {
		c, err := l.Accept()
		if err != nil {
			t.Error(err)
		}
		ch <- c
	}()
	c1, err := net.Dial("tcp", l.Addr().String())
	if err != nil {
		t.Fatal(err)
	}
	return c1, <-ch
}

func TestC15ServerHelloVersionAboveOffer(t *testing.T) {
	cert, err := LoadX509KeyPair("websvr/certs/rsa_sign.cer", "websvr/certs/rsa_sign_key.pem")
	if err != nil {
		t.Fatal(err)
	}
	for _, k := range []struct{ clientMax, helloVers uint16 }{
		{0, 0x0304}, {0, 0x0400}, {0, 0xffff}, {VersionTLS11, VersionTLS12}, {VersionTLS10, 0x0304},
	} {
		cc, sc := shversPipe(t)
		srv := Server(sc, &Config{Certificates: []Certificate{cert}})
		cli := Client(cc, &Config{InsecureSkipVerify: true, MaxVersion: k.clientMax})
		go shversEvilServer(srv, k.helloVers)
		done := make(chan error, 1)
		go func() { done <- cli.Handshake() }()
		select {
		case err := <-done:
			offered := cli.config.maxVersion()
			if err == nil {
				t.Errorf("client offered %04x, ServerHello.server_version = %04x: Handshake() = nil, HandshakeComplete = %v, negotiated version %04x",
					offered, k.helloVers, cli.ConnectionState().HandshakeComplete, cli.ConnectionState().Version)
			} else {
				t.Logf("client offered %04x, ServerHello.server_version = %04x: %v", offered, k.helloVers, err)
			}
		case <-time.After(5 * time.Second):
			t.Errorf("hang")
		}
		cc.Close()
		sc.Close()
	}
}
