package gmtls

// C15 (arguable): the handshake record that carries the peer's Finished may carry more handshake bytes
// behind it (a second Finished, a ServerHelloDone / ClientKeyExchange, one byte of garbage): Handshake()
// returns nil and the bytes stay in the handshake buffer. Client and server, TLS and GMSSL.
//
// Place this file in gmtls/ and run:  go test -vet=off -count=1 -run TestC15TrailingBytesAfterFinished ./gmtls/

import (
	"net"
	"sync/atomic"
	"testing"
	"time"
)

// trailingEvilServer: the library's server handshake; the record of its Finished carries `extra` behind it.
func trailingEvilServer(c *Conn, extra []byte) error {
	c.config.serverInitOnce.Do(func() { c.config.serverInit(nil) })
	var fh *finishedHash
	var master []byte
	if c.config.GMSupport != nil {
		hs := serverHandshakeStateGM{c: c}
		if _, err := hs.readClientHello(); err != nil {
			return err
		}
		c.buffering = true
		if err := hs.doFullHandshake(); err != nil {
			return err
		}
		if err := hs.establishKeys(); err != nil {
			return err
		}
		if err := hs.readFinished(c.clientFinished[:]); err != nil {
			return err
		}
		fh, master = &hs.finishedHash, hs.masterSecret
	} else {
		hs := serverHandshakeState{c: c}
		if _, err := hs.readClientHello(); err != nil {
			return err
		}
		c.buffering = true
		if err := hs.doFullHandshake(); err != nil {
			return err
		}
		if err := hs.establishKeys(); err != nil {
			return err
		}
		if err := hs.readFinished(c.clientFinished[:]); err != nil {
			return err
		}
		fh, master = &hs.finishedHash, hs.masterSecret
	}
	c.buffering = true
	if _, err := c.writeRecord(recordTypeChangeCipherSpec, []byte{1}); err != nil {
		return err
	}
	finished := new(finishedMsg)
	finished.verifyData = fh.serverSum(master)
	if _, err := c.writeRecord(recordTypeHandshake, append(finished.marshal(), extra...)); err != nil {
		return err
	}
	if _, err := c.flush(); err != nil {
		return err
	}
	atomic.StoreUint32(&c.handshakeStatus, 1)
	return nil
}

// trailingEvilClient: the library's client handshake; the record of its Finished carries `extra` behind it.
func trailingEvilClient(c *Conn, extra []byte) error {
	var fh *finishedHash
	var master []byte
	if c.config.GMSupport != nil {
		c.vers = VersionGMSSL
		hello, err := makeClientHelloGM(c.config)
		if err != nil {
			return err
		}
		hs := &clientHandshakeStateGM{c: c, hello: hello}
		if _, err := c.writeRecord(recordTypeHandshake, hello.marshal()); err != nil {
			return err
		}
		msg, err := c.readHandshake()
		if err != nil {
			return err
		}
		hs.serverHello = msg.(*serverHelloMsg)
		if err := hs.pickCipherSuite(); err != nil {
			return err
		}
		hs.finishedHash = newFinishedHashGM(hs.suite)
		hs.finishedHash.Write(hs.hello.marshal())
		hs.finishedHash.Write(hs.serverHello.marshal())
		c.buffering = true
		if err := hs.doFullHandshake(); err != nil {
			return err
		}
		if err := hs.establishKeys(); err != nil {
			return err
		}
		fh, master = &hs.finishedHash, hs.masterSecret
	} else {
		hello, err := makeClientHello(c.config)
		if err != nil {
			return err
		}
		hs := &clientHandshakeState{c: c, hello: hello}
		if _, err := c.writeRecord(recordTypeHandshake, hello.marshal()); err != nil {
			return err
		}
		msg, err := c.readHandshake()
		if err != nil {
			return err
		}
		hs.serverHello = msg.(*serverHelloMsg)
		if err := hs.pickTLSVersion(); err != nil {
			return err
		}
		if err := hs.pickCipherSuite(); err != nil {
			return err
		}
		hs.finishedHash = newFinishedHash(c.vers, hs.suite)
		hs.finishedHash.discardHandshakeBuffer()
		hs.finishedHash.Write(hs.hello.marshal())
		hs.finishedHash.Write(hs.serverHello.marshal())
		c.buffering = true
		if err := hs.doFullHandshake(); err != nil {
			return err
		}
		if err := hs.establishKeys(); err != nil {
			return err
		}
		fh, master = &hs.finishedHash, hs.masterSecret
	}
	if _, err := c.writeRecord(recordTypeChangeCipherSpec, []byte{1}); err != nil {
		return err
	}
	finished := new(finishedMsg)
	finished.verifyData = fh.clientSum(master)
	if _, err := c.writeRecord(recordTypeHandshake, append(finished.marshal(), extra...)); err != nil {
		return err
	}
	_, err := c.flush()
	// read (and ignore) the server's last flight so that the server is not blocked in a net.Pipe write
	go func() {
		buf := make([]byte, 4096)
		for {
			if _, err := c.conn.Read(buf); err != nil {
				return
			}
		}
	}()
	return err
}

// trailingPipe returns the two ends of a loopback TCP connection (net.Pipe is unbuffered: an endpoint that
// sends an alert while its peer is still writing its flight would block there, which is an artefact
// of the pipe, not of the library).
func trailingPipe(t *testing.T) (net.Conn, net.Conn) {
	l, err := net.Listen("tcp", "127.0.0.1:0")
	if err != nil {
		t.Fatal(err)
	}
	defer l.Close()
	ch := make(chan net.Conn, 1)
	go func() {
		c, err := l.Accept()
		if err != nil {
			t.Error(err)
		}
		ch <- c
	}()
	c1, err := net.Dial("tcp", l.Addr().String())
	if err != nil {
		t.Fatal(err)
	}
	return c1, <-ch
}

func TestC15TrailingBytesAfterFinished(t *testing.T) {
	rsaCert, err := LoadX509KeyPair("websvr/certs/rsa_sign.cer", "websvr/certs/rsa_sign_key.pem")
	if err != nil {
		t.Fatal(err)
	}
	sig, err := LoadX509KeyPair("websvr/certs/sm2_sign_cert.cer", "websvr/certs/sm2_sign_key.pem")
	if err != nil {
		t.Fatal(err)
	}
	enc, err := LoadX509KeyPair("websvr/certs/sm2_enc_cert.cer", "websvr/certs/sm2_enc_key.pem")
	if err != nil {
		t.Fatal(err)
	}
	extras := [][]byte{
		{typeFinished, 0, 0, 12, 1, 2, 3, 4, 5, 6, 7, 8, 9, 10, 11, 12}, // a second (complete) Finished
		{typeServerHelloDone, 0, 0, 0},                                   // a complete message of another type
		{0xee},                                                           // one byte: not even a message header
	}
	for _, gm := range []bool{false, true} {
		for _, victimIsClient := range []bool{true, false} {
			for _, extra := range extras {
				cc, sc := trailingPipe(t)
				var srvCfg, cliCfg *Config
				if gm {
					srvCfg = &Config{GMSupport: &GMSupport{}, Certificates: []Certificate{sig, enc}}
					cliCfg = &Config{GMSupport: &GMSupport{}, InsecureSkipVerify: true}
				} else {
					srvCfg = &Config{Certificates: []Certificate{rsaCert}}
					cliCfg = &Config{InsecureSkipVerify: true}
				}
				srv, cli := Server(sc, srvCfg), Client(cc, cliCfg)
				victim := srv
				if victimIsClient {
					victim = cli
					go trailingEvilServer(srv, extra)
				} else {
					go trailingEvilClient(cli, extra)
				}
				done := make(chan error, 1)
				go func() { done <- victim.Handshake() }()
				select {
				case err := <-done:
					if err == nil {
						t.Errorf("gm=%v victim is client=%v: Handshake() = nil, HandshakeComplete = %v, with %d handshake byte(s) %x left behind the peer's Finished",
							gm, victimIsClient, victim.ConnectionState().HandshakeComplete, victim.hand.Len(), victim.hand.Bytes())
					} else {
						t.Logf("gm=%v victim is client=%v extra=%x: %v", gm, victimIsClient, extra, err)
					}
				case <-time.After(5 * time.Second):
					t.Errorf("hang")
				}
				cc.Close()
				sc.Close()
			}
		}
	}
}
