package gmtls

// C15 (arguable): a client that did NOT offer the session_ticket extension (no ClientSessionCache)
// completes the handshake with a server that answers with the session_ticket extension and sends a
// NewSessionTicket handshake message before its ChangeCipherSpec. TLS client and GMSSL client.
//
// Place this file in gmtls/ and run:  go test -vet=off -count=1 -run TestC15UnsolicitedSessionTicket ./gmtls/

import (
	"errors"
	"net"
	"sync/atomic"
	"testing"
	"time"
)

func ticketEvilServer(c *Conn) error {
	c.config.serverInitOnce.Do(func() { c.config.serverInit(nil) })
	hs := serverHandshakeState{c: c}
	if _, err := hs.readClientHello(); err != nil {
		return err
	}
	if hs.clientHello.ticketSupported {
		return errors.New("the client offered session tickets")
	}
	hs.clientHello.ticketSupported = true // makes doFullHandshake answer with the extension; the raw ClientHello (transcript) is unchanged
	c.buffering = true
	if err := hs.doFullHandshake(); err != nil {
		return err
	}
	if err := hs.establishKeys(); err != nil {
		return err
	}
	if err := hs.readFinished(c.clientFinished[:]); err != nil {
		return err
	}
	c.buffering = true
	if err := hs.sendSessionTicket(); err != nil {
		return err
	}
	if err := hs.sendFinished(nil); err != nil {
		return err
	}
	if _, err := c.flush(); err != nil {
		return err
	}
	atomic.StoreUint32(&c.handshakeStatus, 1)
	return nil
}

func ticketEvilServerGM(c *Conn) error {
	c.config.serverInitOnce.Do(func() { c.config.serverInit(nil) })
	hs := serverHandshakeStateGM{c: c}
	if _, err := hs.readClientHello(); err != nil {
		return err
	}
	if hs.clientHello.ticketSupported {
		return errors.New("the client offered session tickets")
	}
	hs.clientHello.ticketSupported = true
	c.buffering = true
	if err := hs.doFullHandshake(); err != nil {
		return err
	}
	if err := hs.establishKeys(); err != nil {
		return err
	}
	if err := hs.readFinished(c.clientFinished[:]); err != nil {
		return err
	}
	c.buffering = true
	if err := hs.sendSessionTicket(); err != nil {
		return err
	}
	if err := hs.sendFinished(nil); err != nil {
		return err
	}
	if _, err := c.flush(); err != nil {
		return err
	}
	atomic.StoreUint32(&c.handshakeStatus, 1)
	return nil
}

// ticketPipe returns the two ends of a loopback TCP connection (net.Pipe is unbuffered: an endpoint that
// sends an alert while its peer is still writing its flight would block there, which is an artefact
// of the pipe, not of the library).
func ticketPipe(t *testing.T) (net.Conn, net.Conn) {
	l, err := net.Listen("tcp", "127.0.0.1:0")
	if err != nil {
		t.Fatal(err)
	}
	defer l.Close()
	ch := make(chan net.Conn, 1)
	go func() {
		c, err := l.Accept()
		if err != nil {
			t.Error(err)
		}
		ch <- c
	}()
	c1, err := net.Dial("tcp", l.Addr().String())
	if err != nil {
		t.Fatal(err)
	}
	return c1, <-ch
}

func TestC15UnsolicitedSessionTicket(t *testing.T) {
	rsaCert, err := LoadX509KeyPair("websvr/certs/rsa_sign.cer", "websvr/certs/rsa_sign_key.pem")
	if err != nil {
		t.Fatal(err)
	}
	sig, err := LoadX509KeyPair("websvr/certs/sm2_sign_cert.cer", "websvr/certs/sm2_sign_key.pem")
	if err != nil {
		t.Fatal(err)
	}
	enc, err := LoadX509KeyPair("websvr/certs/sm2_enc_cert.cer", "websvr/certs/sm2_enc_key.pem")
	if err != nil {
		t.Fatal(err)
	}
	for _, gm := range []bool{false, true} {
		cc, sc := ticketPipe(t)
		var cli *Conn
		if gm {
			srv := Server(sc, &Config{GMSupport: &GMSupport{}, Certificates: []Certificate{sig, enc}})
			cli = Client(cc, &Config{GMSupport: &GMSupport{}, InsecureSkipVerify: true})
			go ticketEvilServerGM(srv)
		} else {
			srv := Server(sc, &Config{Certificates: []Certificate{rsaCert}})
			cli = Client(cc, &Config{InsecureSkipVerify: true})
			go ticketEvilServer(srv)
		}
		done := make(chan error, 1)
		go func() { done <- cli.Handshake() }()
		select {
		case err := <-done:
			if err == nil {
				t.Errorf("gm=%v: client Handshake() = nil (HandshakeComplete = %v) although the server sent a session_ticket extension and a NewSessionTicket message the client never offered to accept",
					gm, cli.ConnectionState().HandshakeComplete)
			} else {
				t.Logf("gm=%v: %v", gm, err)
			}
		case <-time.After(5 * time.Second):
			t.Errorf("hang")
		}
		cc.Close()
		sc.Close()
	}
}
