package gmtls

// C15: perturbing length fields INSIDE two ClientHello extensions (server_name, status_request) does not
// make the server refuse the ClientHello: the handshake completes (TLS server and GMSSL server).
//
// Place this file in gmtls/ and run:  go test -vet=off -count=1 -run TestC15ClientHelloInnerLengths ./gmtls/

import (
	"fmt"
	"net"
	"testing"
	"time"
)

// chlenFindExt returns the offset of the body of extension ext in a marshalled ClientHello.
func chlenFindExt(h []byte, ext uint16) int {
	p := 4 + 2 + 32
	p += 1 + int(h[p])
	p += 2 + (int(h[p])<<8 | int(h[p+1]))
	p += 1 + int(h[p])
	p += 2
	for p < len(h) {
		e := uint16(h[p])<<8 | uint16(h[p+1])
		l := int(h[p+2])<<8 | int(h[p+3])
		if e == ext {
			return p + 4
		}
		p += 4 + l
	}
	return -1
}

// chlenClient is the library's client (handshake_client.go / gm_handshake_client_double.go, full handshake)
// sending a ClientHello in which ONE length field has been changed; the client itself is consistent (its
// transcript hash covers the bytes it sent).
func chlenClient(c *Conn, mutate func(h []byte)) error {
	gm := c.config.GMSupport != nil
	var hello *clientHelloMsg
	var err error
	if gm {
		c.vers = VersionGMSSL
		hello, err = makeClientHelloGM(c.config)
	} else {
		hello, err = makeClientHello(c.config)
	}
	if err != nil {
		return err
	}
	raw := append([]byte(nil), hello.marshal()...)
	mutate(raw)
	hello.raw = raw
	if _, err := c.writeRecord(recordTypeHandshake, hello.marshal()); err != nil {
		return err
	}
	msg, err := c.readHandshake()
	if err != nil {
		return err
	}
	serverHello, ok := msg.(*serverHelloMsg)
	if !ok {
		return fmt.Errorf("not a ServerHello: %T", msg)
	}
	if gm {
		hs := &clientHandshakeStateGM{c: c, hello: hello, serverHello: serverHello}
		if err = hs.pickCipherSuite(); err != nil {
			return err
		}
		if _, err := hs.processServerHello(); err != nil {
			return err
		}
		hs.finishedHash = newFinishedHashGM(hs.suite)
		hs.finishedHash.discardHandshakeBuffer()
		hs.finishedHash.Write(hs.hello.marshal())
		hs.finishedHash.Write(hs.serverHello.marshal())
		c.buffering = true
		if err := hs.doFullHandshake(); err != nil {
			return err
		}
		if err := hs.establishKeys(); err != nil {
			return err
		}
		if err := hs.sendFinished(c.clientFinished[:]); err != nil {
			return err
		}
		if _, err := c.flush(); err != nil {
			return err
		}
		if err := hs.readSessionTicket(); err != nil {
			return err
		}
		return hs.readFinished(c.serverFinished[:])
	}
	hs := &clientHandshakeState{c: c, hello: hello, serverHello: serverHello}
	if err = hs.pickTLSVersion(); err != nil {
		return err
	}
	if err = hs.pickCipherSuite(); err != nil {
		return err
	}
	if _, err := hs.processServerHello(); err != nil {
		return err
	}
	hs.finishedHash = newFinishedHash(c.vers, hs.suite)
	hs.finishedHash.discardHandshakeBuffer()
	hs.finishedHash.Write(hs.hello.marshal())
	hs.finishedHash.Write(hs.serverHello.marshal())
	c.buffering = true
	if err := hs.doFullHandshake(); err != nil {
		return err
	}
	if err := hs.establishKeys(); err != nil {
		return err
	}
	if err := hs.sendFinished(c.clientFinished[:]); err != nil {
		return err
	}
	if _, err := c.flush(); err != nil {
		return err
	}
	if err := hs.readSessionTicket(); err != nil {
		return err
	}
	return hs.readFinished(c.serverFinished[:])
}

// chlenPipe returns the two ends of a loopback TCP connection (net.Pipe is unbuffered: an endpoint that
// sends an alert while its peer is still writing its flight would block there, which is an artefact
// of the pipe, not of the library).
func chlenPipe(t *testing.T) (net.Conn, net.Conn) {
	l, err := net.Listen("tcp", "127.0.0.1:0")
	if err != nil {
		t.Fatal(err)
	}
	defer l.Close()
	ch := make(chan net.Conn, 1)
	go func() {
		c, err := l.Accept()
		if err != nil {
			t.Error(err)
		}
		ch <- c
	}()
	c1, err := net.Dial("tcp", l.Addr().String())
	if err != nil {
		t.Fatal(err)
	}
	return c1, <-ch
}

func TestC15ClientHelloInnerLengths(t *testing.T) {
	rsaCert, err := LoadX509KeyPair("websvr/certs/rsa_sign.cer", "websvr/certs/rsa_sign_key.pem")
	if err != nil {
		t.Fatal(err)
	}
	sig, err := LoadX509KeyPair("websvr/certs/sm2_sign_cert.cer", "websvr/certs/sm2_sign_key.pem")
	if err != nil {
		t.Fatal(err)
	}
	enc, err := LoadX509KeyPair("websvr/certs/sm2_enc_cert.cer", "websvr/certs/sm2_enc_key.pem")
	if err != nil {
		t.Fatal(err)
	}
	// server_name body: ServerNameList length(2) | name_type(1) | HostName length(2) | "example.com"
	// status_request body (as makeClientHello writes it): status_type(1)=1 | responder_id_list length(2)=0 | request_extensions length(2)=0
	cases := []struct {
		name  string
		tlsOK bool // the extension is only in the TLS ClientHello
		mut   func(h []byte)
	}{
		{"server_name: HostName length 11 -> 10 (one stray byte left in the list)", false, func(h []byte) {
			h[chlenFindExt(h, extensionServerName)+4]--
		}},
		{"server_name: HostName length 11 -> 0 (eleven stray bytes left in the list)", false, func(h []byte) {
			h[chlenFindExt(h, extensionServerName)+4] = 0
		}},
		{"status_request: responder_id_list length 0 -> 0xffff (body is 5 bytes)", true, func(h []byte) {
			o := chlenFindExt(h, extensionStatusRequest)
			h[o+1], h[o+2] = 0xff, 0xff
		}},
		{"status_request: request_extensions length 0 -> 0x0100 (body is 5 bytes)", true, func(h []byte) {
			h[chlenFindExt(h, extensionStatusRequest)+3] = 1
		}},
	}
	for _, gm := range []bool{false, true} {
		for _, k := range cases {
			if gm && k.tlsOK {
				continue
			}
			cc, sc := chlenPipe(t)
			var srv, cli *Conn
			if gm {
				srv = Server(sc, &Config{GMSupport: &GMSupport{}, Certificates: []Certificate{sig, enc}})
				cli = Client(cc, &Config{GMSupport: &GMSupport{}, InsecureSkipVerify: true, ServerName: "example.com"})
			} else {
				srv = Server(sc, &Config{Certificates: []Certificate{rsaCert}})
				cli = Client(cc, &Config{InsecureSkipVerify: true, ServerName: "example.com"})
			}
			go chlenClient(cli, k.mut)
			done := make(chan error, 1)
			go func() { done <- srv.Handshake() }()
			select {
			case err := <-done:
				if err == nil {
					t.Errorf("gm=%v %s: server Handshake() = nil, HandshakeComplete = %v, ServerName = %q",
						gm, k.name, srv.ConnectionState().HandshakeComplete, srv.ConnectionState().ServerName)
				} else {
					t.Logf("gm=%v %s: %v", gm, k.name, err)
				}
			case <-time.After(5 * time.Second):
				t.Errorf("hang")
			}
			cc.Close()
			sc.Close()
		}
	}
}
