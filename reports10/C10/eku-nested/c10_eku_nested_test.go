package x509

// Place in x509/ and run:
//   go test -vet=off -count=1 -run TestC10EKUNested -v ./x509/

import (
	"crypto/x509/pkix"
	"math/big"
	"testing"
	"time"

	"github.com/tjfoc/gmsm/sm2"
)

func ekuCert(t *testing.T, serial int64, cn string, subKey, issKey *sm2.PrivateKey, issCN string, ca bool, eku []ExtKeyUsage) *Certificate {
	tmpl := &Certificate{
		SerialNumber:          big.NewInt(serial),
		Subject:               pkix.Name{CommonName: cn},
		NotBefore:             time.Date(2020, 1, 1, 0, 0, 0, 0, time.UTC),
		NotAfter:              time.Date(2030, 1, 1, 0, 0, 0, 0, time.UTC),
		BasicConstraintsValid: true,
		IsCA:                  ca,
		ExtKeyUsage:           eku,
	}
	if ca {
		tmpl.KeyUsage = KeyUsageCertSign
	}
	der, err := CreateCertificate(tmpl, &Certificate{Subject: pkix.Name{CommonName: issCN}}, &subKey.PublicKey, issKey)
	if err != nil {
		t.Fatal(err)
	}
	c, err := ParseCertificate(der)
	if err != nil {
		t.Fatal(err)
	}
	return c
}

func TestC10EKUNested(t *testing.T) {
	rk, _ := sm2.GenerateKey(nil)
	ik, _ := sm2.GenerateKey(nil)
	lk, _ := sm2.GenerateKey(nil)
	root := ekuCert(t, 1, "R", rk, rk, "R", true, nil)
	inter := ekuCert(t, 2, "I", ik, rk, "R", true, []ExtKeyUsage{ExtKeyUsageClientAuth})
	leaf := ekuCert(t, 3, "leaf", lk, ik, "I", false, []ExtKeyUsage{ExtKeyUsageServerAuth})
	roots, inters := NewCertPool(), NewCertPool()
	roots.AddCert(root)
	inters.AddCert(inter)
	now := time.Date(2025, 1, 1, 0, 0, 0, 0, time.UTC)
	// the LEAF carries the requested usage; signatures, validity, CA flags are all fine
	if _, err := leaf.Verify(VerifyOptions{Roots: roots, Intermediates: inters, CurrentTime: now, KeyUsages: []ExtKeyUsage{ExtKeyUsageServerAuth}}); err != nil {
		t.Errorf("leaf has serverAuth, requested serverAuth: %v", err)
	}
}
