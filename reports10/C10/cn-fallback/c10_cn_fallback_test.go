package x509

// Place in x509/ and run:
//   go test -vet=off -count=1 -run TestC10CNFallback -v ./x509/

import (
	"crypto/x509/pkix"
	"math/big"
	"net"
	"testing"
	"time"

	"github.com/tjfoc/gmsm/sm2"
)

func cnfCert(t *testing.T, serial int64, cn string, subKey, issKey *sm2.PrivateKey, issCN string, ca bool, mod func(*Certificate)) *Certificate {
	tmpl := &Certificate{
		SerialNumber:          big.NewInt(serial),
		Subject:               pkix.Name{CommonName: cn},
		NotBefore:             time.Date(2020, 1, 1, 0, 0, 0, 0, time.UTC),
		NotAfter:              time.Date(2030, 1, 1, 0, 0, 0, 0, time.UTC),
		BasicConstraintsValid: true,
		IsCA:                  ca,
	}
	if ca {
		tmpl.KeyUsage = KeyUsageCertSign
	}
	if mod != nil {
		mod(tmpl)
	}
	der, err := CreateCertificate(tmpl, &Certificate{Subject: pkix.Name{CommonName: issCN}}, &subKey.PublicKey, issKey)
	if err != nil {
		t.Fatal(err)
	}
	c, err := ParseCertificate(der)
	if err != nil {
		t.Fatal(err)
	}
	return c
}

func TestC10CNFallback(t *testing.T) {
	rk, _ := sm2.GenerateKey(nil)
	lk, _ := sm2.GenerateKey(nil)
	root := cnfCert(t, 1, "R", rk, rk, "R", true, nil)
	roots := NewCertPool()
	roots.AddCert(root)
	now := time.Date(2025, 1, 1, 0, 0, 0, 0, time.UTC)

	// (a) IP address with a trailing dot: not an IP for net.ParseIP, so it is compared with the
	// subject common name - a certificate WITHOUT any IP SAN is accepted for an IP host.
	leaf := cnfCert(t, 2, "10.0.0.1", lk, rk, "R", false, nil)
	if _, err := leaf.Verify(VerifyOptions{DNSName: "10.0.0.1", Roots: roots, CurrentTime: now}); err == nil {
		t.Fatalf("control: IP host must need an IP SAN")
	}
	if _, err := leaf.Verify(VerifyOptions{DNSName: "10.0.0.1.", Roots: roots, CurrentTime: now}); err == nil {
		t.Errorf("host 10.0.0.1. accepted through the common name; the certificate has no SAN at all")
	}

	// (b) the certificate HAS a subjectAltName extension (IP only); the common name is still consulted.
	leaf = cnfCert(t, 3, "cn.example.com", lk, rk, "R", false, func(c *Certificate) {
		c.IPAddresses = []net.IP{net.ParseIP("10.0.0.1").To4()}
	})
	if _, err := leaf.Verify(VerifyOptions{DNSName: "cn.example.com", Roots: roots, CurrentTime: now}); err == nil {
		t.Errorf("host cn.example.com accepted through the common name although a SAN extension (IP 10.0.0.1 only) is present")
	}
}
