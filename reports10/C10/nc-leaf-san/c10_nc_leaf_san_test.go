package x509

// Place in x509/ and run:
//   go test -vet=off -count=1 -run TestC10NameConstraintLeaf -v ./x509/

import (
	"crypto/x509/pkix"
	"math/big"
	"testing"
	"time"

	"github.com/tjfoc/gmsm/sm2"
)

func nclCert(t *testing.T, serial int64, cn string, subKey, issKey *sm2.PrivateKey, issCN string, ca bool, mod func(*Certificate)) *Certificate {
	tmpl := &Certificate{
		SerialNumber:          big.NewInt(serial),
		Subject:               pkix.Name{CommonName: cn},
		NotBefore:             time.Date(2020, 1, 1, 0, 0, 0, 0, time.UTC),
		NotAfter:              time.Date(2030, 1, 1, 0, 0, 0, 0, time.UTC),
		BasicConstraintsValid: true,
		IsCA:                  ca,
	}
	if ca {
		tmpl.KeyUsage = KeyUsageCertSign
	}
	if mod != nil {
		mod(tmpl)
	}
	der, err := CreateCertificate(tmpl, &Certificate{Subject: pkix.Name{CommonName: issCN}}, &subKey.PublicKey, issKey)
	if err != nil {
		t.Fatal(err)
	}
	c, err := ParseCertificate(der)
	if err != nil {
		t.Fatal(err)
	}
	return c
}

// (a) a leaf with a DNS name OUTSIDE the issuer's permitted subtree is accepted as long as the
// requested name is inside: the constraint is tested against VerifyOptions.DNSName, never
// against the certificate.
func TestC10NameConstraintLeafSANOutside(t *testing.T) {
	rk, _ := sm2.GenerateKey(nil)
	ik, _ := sm2.GenerateKey(nil)
	lk, _ := sm2.GenerateKey(nil)
	root := nclCert(t, 1, "R", rk, rk, "R", true, nil)
	inter := nclCert(t, 2, "I", ik, rk, "R", true, func(c *Certificate) {
		c.PermittedDNSDomains = []string{"example.com"}
		c.PermittedDNSDomainsCritical = true
	})
	leaf := nclCert(t, 3, "leaf", lk, ik, "I", false, func(c *Certificate) {
		c.DNSNames = []string{"a.example.com", "www.evil.org"}
	})
	roots, inters := NewCertPool(), NewCertPool()
	roots.AddCert(root)
	inters.AddCert(inter)
	now := time.Date(2025, 1, 1, 0, 0, 0, 0, time.UTC)
	if chains, err := leaf.Verify(VerifyOptions{DNSName: "a.example.com", Roots: roots, Intermediates: inters, CurrentTime: now}); err == nil {
		t.Errorf("chain of %d certificates returned although I (permitted: example.com) issued a certificate for www.evil.org", len(chains[0]))
	}
}

// (b) the permitted subtrees of the certificate being verified are applied to itself: a CA
// certificate (verified as the end of the chain, it is not an issuer here) is refused for its
// own DNS name when that name is outside the subtree it may issue for.
func TestC10NameConstraintLeafOwn(t *testing.T) {
	rk, _ := sm2.GenerateKey(nil)
	ik, _ := sm2.GenerateKey(nil)
	root := nclCert(t, 1, "R", rk, rk, "R", true, nil)
	inter := nclCert(t, 2, "I", ik, rk, "R", true, func(c *Certificate) {
		c.PermittedDNSDomains = []string{"customer.example.com"}
		c.DNSNames = []string{"ca.example.com"}
	})
	roots := NewCertPool()
	roots.AddCert(root)
	now := time.Date(2025, 1, 1, 0, 0, 0, 0, time.UTC)
	if _, err := inter.Verify(VerifyOptions{DNSName: "ca.example.com", Roots: roots, CurrentTime: now}); err != nil {
		t.Errorf("I <- R, no constrained issuer in the chain: %v", err)
	}
}
