package x509

// Place in x509/ and run:
//   go test -vet=off -count=1 -run TestC10NameConstraintHostForm -v ./x509/

import (
	"crypto/x509/pkix"
	"math/big"
	"net"
	"testing"
	"time"

	"github.com/tjfoc/gmsm/sm2"
)

func ncfCert(t *testing.T, serial int64, cn string, subKey, issKey *sm2.PrivateKey, issCN string, ca bool, mod func(*Certificate)) *Certificate {
	tmpl := &Certificate{
		SerialNumber:          big.NewInt(serial),
		Subject:               pkix.Name{CommonName: cn},
		NotBefore:             time.Date(2020, 1, 1, 0, 0, 0, 0, time.UTC),
		NotAfter:              time.Date(2030, 1, 1, 0, 0, 0, 0, time.UTC),
		BasicConstraintsValid: true,
		IsCA:                  ca,
	}
	if ca {
		tmpl.KeyUsage = KeyUsageCertSign
	}
	if mod != nil {
		mod(tmpl)
	}
	parent := &Certificate{Subject: pkix.Name{CommonName: issCN}}
	der, err := CreateCertificate(tmpl, parent, &subKey.PublicKey, issKey)
	if err != nil {
		t.Fatal(err)
	}
	c, err := ParseCertificate(der)
	if err != nil {
		t.Fatal(err)
	}
	return c
}

func TestC10NameConstraintHostForm(t *testing.T) {
	rk, _ := sm2.GenerateKey(nil)
	ik, _ := sm2.GenerateKey(nil)
	lk, _ := sm2.GenerateKey(nil)
	root := ncfCert(t, 1, "R", rk, rk, "R", true, nil)
	inter := ncfCert(t, 2, "I", ik, rk, "R", true, func(c *Certificate) {
		c.PermittedDNSDomains = []string{"example.com"}
		c.PermittedDNSDomainsCritical = true
	})
	leaf := ncfCert(t, 3, "leaf", lk, ik, "I", false, func(c *Certificate) {
		c.DNSNames = []string{"a.example.com"} // inside the permitted subtree
		c.IPAddresses = []net.IP{net.ParseIP("10.0.0.1").To4()}
	})
	roots, inters := NewCertPool(), NewCertPool()
	roots.AddCert(root)
	inters.AddCert(inter)
	now := time.Date(2025, 1, 1, 0, 0, 0, 0, time.UTC)

	// control: the chain leaf <- I <- R is fine and the constraint is respected
	if _, err := leaf.Verify(VerifyOptions{DNSName: "a.example.com", Roots: roots, Intermediates: inters, CurrentTime: now}); err != nil {
		t.Fatalf("control failed: %v", err)
	}
	// every one of these host names is matched by the leaf (VerifyHostname == nil, or no name requested),
	// the chain is the same, every DNS name of the leaf lies in the permitted subtree - yet no chain is returned.
	for _, host := range []string{"a.example.com.", "A.Example.Com.", "10.0.0.1", "[10.0.0.1]", ""} {
		if host != "" {
			if err := leaf.VerifyHostname(host); err != nil {
				t.Fatalf("leaf does not match %q: %v", host, err)
			}
		}
		if _, err := leaf.Verify(VerifyOptions{DNSName: host, Roots: roots, Intermediates: inters, CurrentTime: now}); err != nil {
			t.Errorf("host %q: Verify returned no chain: %v", host, err)
		}
	}
}
