package x509

// Place in /tmp/wt10/C01/x509/ and run:
//   go test -vet=off -count=1 -run TestC01BitStringUnusedBits -v ./x509/

import (
	"bytes"
	"crypto/rand"
	"crypto/x509/pkix"
	"encoding/asn1"
	"math/big"
	"testing"
	"time"

	"github.com/tjfoc/gmsm/sm2"
)

// c01shl shifts a byte string left by n bits (the top n bits of b[0] must be zero: 0x30 allows n = 1, 2).
func c01shl(b []byte, n uint) []byte {
	out := make([]byte, len(b))
	for i := range b {
		out[i] = b[i] << n
		if i+1 < len(b) {
			out[i] |= b[i+1] >> (8 - n)
		}
	}
	return out
}

// c01reencode takes SEQUENCE { tbs, alg, BIT STRING sig } and re-encodes it with
// signatureValue = BIT STRING { unused bits = n, bits = the first 8*len(sig)-n bits of sig<<n }.
func c01reencode(t *testing.T, der []byte, n uint) []byte {
	var outer struct {
		TBS asn1.RawValue
		Alg asn1.RawValue
		Sig asn1.BitString
	}
	if rest, err := asn1.Unmarshal(der, &outer); err != nil || len(rest) != 0 {
		t.Fatal(err)
	}
	sig := outer.Sig.Bytes
	outer.Sig = asn1.BitString{Bytes: c01shl(sig, n), BitLength: 8*len(sig) - int(n)}
	der2, err := asn1.Marshal(outer)
	if err != nil {
		t.Fatal(err)
	}
	if bytes.Equal(der2, der) {
		t.Fatal("not changed")
	}
	return der2
}

func TestC01BitStringUnusedBits(t *testing.T) {
	priv, err := sm2.GenerateKey(rand.Reader)
	if err != nil {
		t.Fatal(err)
	}
	tmpl := &Certificate{
		SerialNumber:          big.NewInt(1),
		Subject:               pkix.Name{CommonName: "ca"},
		NotBefore:             time.Now().Add(-time.Hour),
		NotAfter:              time.Now().Add(time.Hour),
		KeyUsage:              KeyUsageCertSign | KeyUsageCRLSign,
		SubjectKeyId:          []byte{1, 2, 3},
		BasicConstraintsValid: true,
		IsCA:                  true,
		SignatureAlgorithm:    SM2WithSM3,
	}
	der, err := CreateCertificate(tmpl, tmpl, &priv.PublicKey, priv)
	if err != nil {
		t.Fatal(err)
	}
	ca, err := ParseCertificate(der)
	if err != nil {
		t.Fatal(err)
	}
	if err := ca.CheckSignatureFrom(ca); err != nil {
		t.Fatal(err)
	}
	csrDer, err := CreateCertificateRequest(rand.Reader, &CertificateRequest{Subject: pkix.Name{CommonName: "x"}, SignatureAlgorithm: SM2WithSM3}, priv)
	if err != nil {
		t.Fatal(err)
	}
	crlDer, err := ca.CreateCRL(rand.Reader, priv, nil, time.Now(), time.Now().Add(time.Hour))
	if err != nil {
		t.Fatal(err)
	}

	for _, n := range []uint{1, 2} {
		// certificate
		if c2, err := ParseCertificate(c01reencode(t, der, n)); err != nil {
			t.Logf("cert n=%d: parse rejected: %v", n, err)
		} else if err := c2.CheckSignatureFrom(ca); err == nil {
			t.Errorf("certificate: signatureValue is a %d-bit BIT STRING (%d unused bits) - not the DER SEQUENCE{r,s} - and CheckSignatureFrom accepts it", 8*len(c2.Signature)-int(n), n)
		}
		// chain verification
		if c2, err := ParseCertificate(c01reencode(t, der, n)); err == nil {
			pool := NewCertPool()
			pool.AddCert(ca)
			if _, err := c2.Verify(VerifyOptions{Roots: pool}); err == nil {
				t.Errorf("certificate (%d unused bits): Certificate.Verify builds a chain", n)
			}
		}
		// CSR
		if r2, err := ParseCertificateRequest(c01reencode(t, csrDer, n)); err != nil {
			t.Logf("csr n=%d: parse rejected: %v", n, err)
		} else if err := r2.CheckSignature(); err == nil {
			t.Errorf("CSR: signature BIT STRING with %d unused bits accepted by CheckSignature", n)
		}
		// CRL
		if l2, err := ParseCRL(c01reencode(t, crlDer, n)); err != nil {
			t.Logf("crl n=%d: parse rejected: %v", n, err)
		} else if err := ca.CheckCRLSignature(l2); err == nil {
			t.Errorf("CRL: signatureValue BIT STRING with %d unused bits accepted by CheckCRLSignature", n)
		}
	}
}
