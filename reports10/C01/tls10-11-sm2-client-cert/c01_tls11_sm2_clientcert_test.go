package gmtls

// Place in /tmp/wt10/C01/gmtls/ and run:
//   go test -vet=off -count=1 -run TestSM2ClientCertTLSVersions -v ./gmtls/

import (
	"crypto/rand"
	"crypto/rsa"
	stdx509 "crypto/x509"
	"crypto/x509/pkix"
	"math/big"
	"net"
	"testing"
	"time"

	"github.com/tjfoc/gmsm/sm2"
	"github.com/tjfoc/gmsm/x509"
)

func TestSM2ClientCertTLSVersions(t *testing.T) {
	rsaKey, _ := rsa.GenerateKey(rand.Reader, 2048)
	st := &stdx509.Certificate{SerialNumber: big.NewInt(1), Subject: pkix.Name{CommonName: "srv"}, NotBefore: time.Now().Add(-time.Hour), NotAfter: time.Now().Add(time.Hour), KeyUsage: stdx509.KeyUsageKeyEncipherment | stdx509.KeyUsageDigitalSignature}
	srvDer, err := stdx509.CreateCertificate(rand.Reader, st, st, &rsaKey.PublicKey, rsaKey)
	if err != nil {
		t.Fatal(err)
	}
	priv, _ := sm2.GenerateKey(rand.Reader)
	tmpl := &x509.Certificate{SerialNumber: big.NewInt(2), Subject: pkix.Name{CommonName: "cli"}, NotBefore: time.Now().Add(-time.Hour), NotAfter: time.Now().Add(time.Hour), SignatureAlgorithm: x509.SM2WithSM3, KeyUsage: x509.KeyUsageDigitalSignature}
	cliDer, err := x509.CreateCertificate(tmpl, tmpl, &priv.PublicKey, priv)
	if err != nil {
		t.Fatal(err)
	}
	for _, vers := range []uint16{VersionTLS12, VersionTLS11, VersionTLS10} {
		scfg := &Config{Certificates: []Certificate{{Certificate: [][]byte{srvDer}, PrivateKey: rsaKey}}, ClientAuth: RequireAnyClientCert, MinVersion: VersionTLS10, MaxVersion: vers}
		ccfg := &Config{InsecureSkipVerify: true, Certificates: []Certificate{{Certificate: [][]byte{cliDer}, PrivateKey: priv}}, MinVersion: VersionTLS10, MaxVersion: vers}
		cc, sc := net.Pipe()
		errc := make(chan error, 1)
		go func() {
			s := Server(sc, scfg)
			err := s.Handshake()
			if err == nil {
				if n := len(s.ConnectionState().PeerCertificates); n != 1 {
					t.Errorf("server saw %d client certs", n)
				}
			}
			errc <- err
			sc.Close()
		}()
		c := Client(cc, ccfg)
		cerr := c.Handshake()
		serr := <-errc
		cc.Close()
		t.Logf("version %04x: client err=%v server err=%v", vers, cerr, serr)
		if cerr != nil || serr != nil {
			t.Errorf("version %04x: handshake with SM2 client certificate failed", vers)
		}
	}
}
