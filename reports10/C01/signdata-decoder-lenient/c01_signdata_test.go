package sm2

// Place in /tmp/wt10/C01/sm2/ and run:
//   go test -vet=off -count=1 -run TestC01SignDataToSignDigitStrict -v ./sm2/

import (
	"crypto/rand"
	"testing"
)

// The only way to verify a DER signature under a non-default user ID is
// SignDataToSignDigit + Sm2Verify (PublicKey.Verify is fixed to the default ID).
func TestC01SignDataToSignDigitStrict(t *testing.T) {
	priv, err := GenerateKey(rand.Reader)
	if err != nil {
		t.Fatal(err)
	}
	uid := []byte("alice@example.org")
	msg := []byte("message")
	r, s, err := Sm2Sign(priv, msg, uid, rand.Reader)
	if err != nil {
		t.Fatal(err)
	}
	sig, err := SignDigitToSignData(r, s)
	if err != nil {
		t.Fatal(err)
	}
	verify := func(der []byte) bool {
		r, s, err := SignDataToSignDigit(der)
		if err != nil || r == nil || s == nil {
			return false
		}
		return Sm2Verify(&priv.PublicKey, msg, uid, r, s)
	}
	if !verify(sig) {
		t.Fatal("genuine signature rejected")
	}
	// 1. trailing bytes after the SEQUENCE
	if bad := append(append([]byte{}, sig...), 0xde, 0xad); verify(bad) {
		t.Errorf("accepted SEQUENCE{r,s} followed by trailing bytes: %x", bad)
	}
	// 2. further members inside the SEQUENCE (third INTEGER, NULL, OCTET STRING, empty SEQUENCE)
	for _, extra := range [][]byte{{0x02, 0x01, 0x01}, {0x05, 0x00}, {0x04, 0x03, 'p', 'a', 'd'}, {0x30, 0x00}} {
		bad := append(append([]byte{}, sig...), extra...)
		bad[1] += byte(len(extra)) // short-form length, total stays < 128
		if verify(bad) {
			t.Errorf("accepted SEQUENCE{r,s,+%x}: %x", extra, bad)
		}
	}
}
