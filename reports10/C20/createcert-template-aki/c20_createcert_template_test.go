package x509

import (
	"bytes"
	"crypto/x509/pkix"
	"math/big"
	"sync"
	"testing"
	"time"

	"github.com/tjfoc/gmsm/sm2"
)

// Place in x509/ and run:  go test -race -vet=off -count=1 -run 'TestC20CreateCertificateSharedTemplate' ./x509/
//
// Two CAs issue, at the same time, a certificate for the same request (one shared, read-only
// template: the library documents the template as an input). Sequentially each certificate names
// its own issuer's key in the authority key identifier; concurrently CreateCertificate writes
// template.AuthorityKeyId, so a certificate signed by CA A can carry the key identifier of CA B
// (and the race detector reports the write).
func TestC20CreateCertificateSharedTemplate(t *testing.T) {
	mkca := func(cn string, ski []byte) (*Certificate, *sm2.PrivateKey) {
		k, _ := sm2.GenerateKey(nil)
		tm := &Certificate{SerialNumber: big.NewInt(1), Subject: pkix.Name{CommonName: cn}, NotBefore: time.Now().Add(-time.Hour),
			NotAfter: time.Now().Add(time.Hour), SignatureAlgorithm: SM2WithSM3, SubjectKeyId: ski, IsCA: true, BasicConstraintsValid: true, KeyUsage: KeyUsageCertSign}
		der, err := CreateCertificate(tm, tm, &k.PublicKey, k)
		if err != nil {
			t.Fatal(err)
		}
		c, err := ParseCertificate(der)
		if err != nil {
			t.Fatal(err)
		}
		return c, k
	}
	caA, keyA := mkca("CA A", []byte{0xA, 0xA, 0xA, 0xA})
	caB, keyB := mkca("CA B", []byte{0xB, 0xB, 0xB, 0xB})
	leafKey, _ := sm2.GenerateKey(nil)

	wrong := 0
	for round := 0; round < 3000 && wrong == 0; round++ {
		tmpl := &Certificate{SerialNumber: big.NewInt(int64(round) + 2), Subject: pkix.Name{CommonName: "leaf"},
			NotBefore: time.Now().Add(-time.Hour), NotAfter: time.Now().Add(time.Hour), SignatureAlgorithm: SM2WithSM3}
		var wg sync.WaitGroup
		var mu sync.Mutex
		issue := func(ca *Certificate, key *sm2.PrivateKey) {
			defer wg.Done()
			der, err := CreateCertificate(tmpl, ca, &leafKey.PublicKey, key)
			if err != nil {
				t.Error(err)
				return
			}
			c, err := ParseCertificate(der)
			if err != nil {
				t.Error(err)
				return
			}
			if err := c.CheckSignatureFrom(ca); err != nil {
				t.Error(err)
			}
			if !bytes.Equal(c.AuthorityKeyId, ca.SubjectKeyId) {
				mu.Lock()
				wrong++
				mu.Unlock()
				t.Errorf("round %d: certificate issued and signed by %q carries authority key id %x, want %x",
					round, ca.Subject.CommonName, c.AuthorityKeyId, ca.SubjectKeyId)
			}
		}
		wg.Add(2)
		go issue(caA, keyA)
		go issue(caB, keyB)
		wg.Wait()
	}
}

