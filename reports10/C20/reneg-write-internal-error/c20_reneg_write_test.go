package gmtls

import (
	"bytes"
	"sync"
	"sync/atomic"
	"testing"
	"time"
)

// Place this file and c20_reneg_helper_test.go in gmtls/ and run
//   cd gmtls/.. && unshare -n sh -c "ip link set lo up; go test -vet=off -count=1 -run TestC20RenegotiationWrite -v ./gmtls/"
//
// One established connection; the client allows renegotiation (Config.Renegotiation); one goroutine
// sits in Read, W goroutines Write. The server asks for a renegotiation now and then.
// Every sequential order of these calls delivers every Write: each returns (len, nil).
func TestC20RenegotiationWrite(t *testing.T) {
	c, s, pc := c20RenegPair(t, RenegotiateFreelyAsClient)
	var total, renegs int64
	done := make(chan error, 1)
	go c20RenegServer(t, s, pc, 20, &total, &renegs, done)

	// reader: the server sends no application data, Read only serves the renegotiations
	rdone := make(chan error, 1)
	go func() {
		b := make([]byte, 16)
		_, err := c.Read(b)
		rdone <- err
	}()

	const W = 8
	const N = 150
	var wg sync.WaitGroup
	var bad int64
	var lastErr atomic.Value
	for w := 0; w < W; w++ {
		wg.Add(1)
		go func(w int) {
			defer wg.Done()
			msg := bytes.Repeat([]byte{byte('a' + w)}, 64)
			for i := 0; i < N; i++ {
				n, err := c.Write(msg)
				if err != nil || n != len(msg) {
					atomic.AddInt64(&bad, 1)
					if err != nil {
						lastErr.Store(err.Error())
					}
				}
			}
		}(w)
	}
	wg.Wait()
	time.Sleep(100 * time.Millisecond)
	c.Close()
	if err := <-done; err != nil {
		t.Errorf("server side: %v", err)
	}
	<-rdone
	t.Logf("renegotiations completed: %d, bytes received %d of %d", renegs, total, W*N*64)
	if bad != 0 {
		t.Errorf("%d of %d Write calls failed on a healthy connection; last error: %v", bad, W*N, lastErr.Load())
	}
	if total != W*N*64 {
		t.Errorf("server received %d bytes, want %d", total, W*N*64)
	}
}
