package gmtls

// Helper for the C20 renegotiation reproductions (place in gmtls/ next to the test files).
// It scripts the PEER only: a TLS 1.2 server that asks for renegotiation (HelloRequest) and performs it,
// as OpenSSL-family servers do. The gmtls server itself never renegotiates, so the peer is assembled
// from the package's own server handshake functions.

import (
	"bufio"
	"bytes"
	"errors"
	"io"
	"net"
	"sync/atomic"
	"testing"
)

// peekConn lets the scripted server look at the type of the next record before
// deciding whether to Read application data or to run a (re)handshake.
type peekConn struct {
	net.Conn
	br *bufio.Reader
}

func (p *peekConn) Read(b []byte) (int, error) { return p.br.Read(b) }

// c20ServerHandshake is the TLS 1.2 server handshake of this package (processClientHello +
// the full-handshake branch of runServerHandshake) with the two things a renegotiating
// server does in addition (RFC 5746): it accepts the client's verify_data in the
// ClientHello's renegotiation_info and answers with client||server verify_data.
func c20ServerHandshake(s *Conn) error {
	s.config.serverInitOnce.Do(func() { s.config.serverInit(nil) })
	msg, err := s.readHandshake()
	if err != nil {
		return err
	}
	ch, ok := msg.(*clientHelloMsg)
	if !ok {
		return errors.New("scripted server: expected ClientHello")
	}
	hs := &serverHandshakeState{c: s, clientHello: ch}
	sr := ch.secureRenegotiation
	if s.handshakes > 0 && !bytes.Equal(sr, s.clientFinished[:]) {
		return errors.New("scripted server: bad renegotiation_info")
	}
	ch.secureRenegotiation = nil // the raw bytes (used for the transcript) are kept
	_, err = processClientHello(s, hs)
	ch.secureRenegotiation = sr
	if err != nil {
		return err
	}
	if s.handshakes > 0 {
		hs.hello.secureRenegotiation = append(append([]byte{}, s.clientFinished[:]...), s.serverFinished[:]...)
	}
	s.buffering = true
	if err := hs.doFullHandshake(); err != nil {
		return err
	}
	if err := hs.establishKeys(); err != nil {
		return err
	}
	if err := hs.readFinished(s.clientFinished[:]); err != nil {
		return err
	}
	s.clientFinishedIsFirst = true
	s.buffering = true
	if err := hs.sendSessionTicket(); err != nil {
		return err
	}
	if err := hs.sendFinished(s.serverFinished[:]); err != nil {
		return err
	}
	if _, err := s.flush(); err != nil {
		return err
	}
	s.handshakes++
	atomic.StoreUint32(&s.handshakeStatus, 1)
	return nil
}

// c20RenegServer is a cooperative peer: an ordinary gmtls server connection that
// sends a HelloRequest every `every` application records and answers the client's
// ClientHello with a full handshake (what an OpenSSL/GmSSL server does when it
// renegotiates). Only the peer is scripted; the client under test uses the public API.
func c20RenegServer(t *testing.T, s *Conn, pc *peekConn, every int, total *int64, renegs *int64, done chan<- error) {
	buf := make([]byte, 4096)
	pending := false
	recs := 0
	for {
		var typ recordType
		switch {
		case s.input != nil:
			typ = recordTypeApplicationData
		case s.rawInput != nil && len(s.rawInput.data) > 0:
			typ = recordType(s.rawInput.data[0])
		default:
			b, err := pc.br.Peek(1)
			if err != nil {
				done <- nil
				return
			}
			typ = recordType(b[0])
		}
		if typ == recordTypeHandshake {
			s.handshakeMutex.Lock()
			s.in.Lock()
			atomic.StoreUint32(&s.handshakeStatus, 0)
			err := c20ServerHandshake(s)
			s.in.Unlock()
			s.handshakeMutex.Unlock()
			if err != nil {
				done <- err
				return
			}
			atomic.AddInt64(renegs, 1)
			pending = false
			continue
		}
		n, err := s.Read(buf)
		atomic.AddInt64(total, int64(n))
		if err != nil {
			if err == io.EOF {
				err = nil
			}
			done <- err
			return
		}
		recs++
		if !pending && recs%every == 0 {
			pending = true
			if _, err := s.writeRecord(recordTypeHandshake, new(helloRequestMsg).marshal()); err != nil {
				done <- err
				return
			}
		}
	}
}


// c20RenegPair establishes a TLS 1.2 connection between a client that uses only the public API of
// the package (Client, Config.Renegotiation) and the scripted server above.
func c20RenegPair(t *testing.T, reneg RenegotiationSupport) (c *Conn, s *Conn, pc *peekConn) {
	rsaCert, err := LoadX509KeyPair("websvr/certs/rsa_sign.cer", "websvr/certs/rsa_sign_key.pem")
	if err != nil {
		t.Fatal(err)
	}
	srv := &Config{Certificates: []Certificate{rsaCert}}
	cli := &Config{InsecureSkipVerify: true, Renegotiation: reneg}
	ln, err := net.Listen("tcp", "127.0.0.1:0")
	if err != nil {
		t.Fatal(err)
	}
	defer ln.Close()
	type sp struct {
		s  *Conn
		pc *peekConn
	}
	ch := make(chan sp, 1)
	go func() {
		raw, err := ln.Accept()
		if err != nil {
			ch <- sp{}
			return
		}
		pc := &peekConn{Conn: raw, br: bufio.NewReaderSize(raw, 1<<16)}
		s := Server(pc, srv)
		s.handshakeMutex.Lock()
		s.in.Lock()
		if err := c20ServerHandshake(s); err != nil {
			t.Error(err)
		}
		s.in.Unlock()
		s.handshakeMutex.Unlock()
		ch <- sp{s, pc}
	}()
	raw, err := net.Dial("tcp", ln.Addr().String())
	if err != nil {
		t.Fatal(err)
	}
	c = Client(raw, cli)
	if err := c.Handshake(); err != nil {
		t.Fatal(err)
	}
	x := <-ch
	return c, x.s, x.pc
}
