package x509

import (
	"crypto/rand"
	"crypto/x509/pkix"
	"encoding/asn1"
	"sync"
	"testing"

	"github.com/tjfoc/gmsm/sm2"
)

// Place in x509/ and run:  go test -race -vet=off -count=1 -run 'TestC20CSRSharedTemplate' ./x509/
//
// CreateCertificateRequest appends the extensions to template.Attributes[i].Value[0] (the copy it
// makes of template.Attributes is shallow): goroutines creating requests from one template race on
// that slice, and the request depends on how many requests were created before.
func TestC20CSRSharedTemplate(t *testing.T) {
	key, _ := sm2.GenerateKey(nil)
	mk := func() *CertificateRequest {
		return &CertificateRequest{
			Subject:            pkix.Name{CommonName: "x"},
			SignatureAlgorithm: SM2WithSM3,
			DNSNames:           []string{"a.example.com"},
			Attributes: []pkix.AttributeTypeAndValueSET{{
				Type: oidExtensionRequest,
				Value: [][]pkix.AttributeTypeAndValue{{
					{Type: asn1.ObjectIdentifier{2, 5, 29, 15}, Value: []byte{3, 2, 5, 160}}, // keyUsage
				}},
			}},
		}
	}
	// single-threaded reference: one request from a fresh template
	ref, err := CreateCertificateRequest(rand.Reader, mk(), key)
	if err != nil {
		t.Fatal(err)
	}
	refReq, err := ParseCertificateRequest(ref)
	if err != nil {
		t.Fatal(err)
	}
	want := len(refReq.Extensions)

	tmpl := mk()
	var wg sync.WaitGroup
	for g := 0; g < 8; g++ {
		wg.Add(1)
		go func() {
			defer wg.Done()
			der, err := CreateCertificateRequest(rand.Reader, tmpl, key)
			if err != nil {
				t.Error(err)
				return
			}
			r, err := ParseCertificateRequest(der)
			if err != nil {
				t.Error(err)
				return
			}
			if len(r.Extensions) != want {
				t.Errorf("request carries %d extensions, the single-threaded result has %d", len(r.Extensions), want)
			}
		}()
	}
	wg.Wait()
	if n := len(tmpl.Attributes[0].Value[0]); n != 1 {
		t.Errorf("the caller's template was modified: Attributes[0].Value[0] has %d entries, had 1", n)
	}
}
