package sm4

import (
	"bytes"
	"sync"
	"testing"
)

// Place in sm4/ and run:  go test -race -vet=off -count=1 -run TestC20SetIVGlobal ./sm4/
//
// The IV of Sm4Cbc / Sm4CFB / Sm4OFB is the package variable IV, selected with SetIV. Two goroutines
// that encrypt separate data under separate keys, each with its own IV, share nothing but the
// package: SetIV (a write of the slice header) races with the unsynchronised reads in Sm4Cbc, and a
// message can be encrypted under the other goroutine's IV.
func TestC20SetIVGlobal(t *testing.T) {
	defer SetIV(make([]byte, 16))
	var wg sync.WaitGroup
	for g := 0; g < 4; g++ {
		wg.Add(1)
		go func(g int) {
			defer wg.Done()
			key := bytes.Repeat([]byte{byte(g + 1)}, 16)
			iv := bytes.Repeat([]byte{byte(0x10 * (g + 1))}, 16)
			msg := bytes.Repeat([]byte{byte('a' + g)}, 40)
			for i := 0; i < 200; i++ {
				if err := SetIV(iv); err != nil {
					t.Error(err)
				}
				ct, err := Sm4Cbc(key, msg, true)
				if err != nil {
					t.Error(err)
				}
				if err := SetIV(iv); err != nil {
					t.Error(err)
				}
				pt, err := Sm4Cbc(key, ct, false)
				if err != nil || !bytes.Equal(pt, msg) {
					t.Errorf("goroutine %d: CBC round trip under its own key and IV failed", g)
					return
				}
			}
		}(g)
	}
	wg.Wait()
}
