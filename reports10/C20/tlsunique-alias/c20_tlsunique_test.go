package gmtls

import (
	"bytes"
	"sync"
	"sync/atomic"
	"testing"
	"time"
)

// Place this file and c20_reneg_helper_test.go in gmtls/ and run
//   unshare -n sh -c "ip link set lo up; go test -race -vet=off -count=1 -run TestC20TLSUniqueAlias -v ./gmtls/"
// (fails without -race as well: the value changes).
//
// ConnectionState().TLSUnique aliases the Conn's clientFinished/serverFinished array, which the next
// (re)handshake - run inside Read - overwrites: the value handed out changes under the caller, and a
// goroutine looking at it races with the goroutine in Read.
func TestC20TLSUniqueAlias(t *testing.T) {
	c, s, pc := c20RenegPair(t, RenegotiateOnceAsClient)
	var total, renegs int64
	done := make(chan error, 1)
	go c20RenegServer(t, s, pc, 1, &total, &renegs, done)

	cs := c.ConnectionState()
	before := append([]byte(nil), cs.TLSUnique...)

	stop := make(chan bool)
	var wg sync.WaitGroup
	wg.Add(1)
	go func() { // the application looks at the channel binding it was given
		defer wg.Done()
		for {
			select {
			case <-stop:
				return
			default:
			}
			_ = bytes.Equal(cs.TLSUnique, before)
		}
	}()
	rdone := make(chan error, 1)
	go func() {
		b := make([]byte, 16)
		_, err := c.Read(b)
		rdone <- err
	}()
	c.Write([]byte("x")) // the server answers with a HelloRequest
	for i := 0; i < 400 && atomic.LoadInt64(&renegs) == 0; i++ {
		time.Sleep(5 * time.Millisecond)
	}
	close(stop)
	wg.Wait()
	if atomic.LoadInt64(&renegs) == 0 {
		t.Fatal("no renegotiation happened")
	}
	if !bytes.Equal(cs.TLSUnique, before) {
		t.Errorf("the TLSUnique value returned by ConnectionState() changed after the call: %x -> %x", before, cs.TLSUnique)
	}
	c.Close()
	<-done
	<-rdone
}
