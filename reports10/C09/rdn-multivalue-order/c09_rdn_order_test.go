package x509

// Place in /tmp/wt10/C09/x509/ and run:
//   go test -vet=off -count=1 -run TestC09RDNOrder ./x509/

import (
	"crypto/x509/pkix"
	"math/big"
	"reflect"
	"testing"

	"github.com/tjfoc/gmsm/sm2"
)

// A multi-valued attribute goes into ONE RelativeDistinguishedName (a SET OF), which DER sorts:
// the values come back in a different order than in the template.
func TestC09RDNOrder(t *testing.T) {
	k, _ := sm2.GenerateKey(nil)
	tpl := &Certificate{SerialNumber: big.NewInt(1), Subject: pkix.Name{OrganizationalUnit: []string{"sales", "eng"}, Organization: []string{"bb", "a"}}}
	der, err := CreateCertificate(tpl, tpl, &k.PublicKey, k)
	if err != nil {
		t.Fatal(err)
	}
	c, err := ParseCertificate(der)
	if err != nil {
		t.Fatal(err)
	}
	if !reflect.DeepEqual(c.Subject.OrganizationalUnit, tpl.Subject.OrganizationalUnit) {
		t.Errorf("OrganizationalUnit: template %q parsed %q", tpl.Subject.OrganizationalUnit, c.Subject.OrganizationalUnit)
	}
	if !reflect.DeepEqual(c.Subject.Organization, tpl.Subject.Organization) {
		t.Errorf("Organization: template %q parsed %q", tpl.Subject.Organization, c.Subject.Organization)
	}
}
