package x509

// Place in /tmp/wt10/C09/x509/ and run:
//   go test -vet=off -count=1 -run TestC09ECDSAMalleable ./x509/

import (
	"bytes"
	"crypto/ecdsa"
	"crypto/elliptic"
	"crypto/rand"
	"crypto/x509/pkix"
	"encoding/asn1"
	"math/big"
	"testing"

	"github.com/tjfoc/gmsm/sm2"
)

// For a NIST-curve ECDSA issuer, replacing s by n-s in the signature value yields a different
// DER object that still parses and still verifies under the issuer.
func TestC09ECDSAMalleable(t *testing.T) {
	ek, _ := ecdsa.GenerateKey(elliptic.P256(), rand.Reader)
	sk, _ := sm2.GenerateKey(nil)
	parent := &Certificate{Subject: pkix.Name{CommonName: "ca"}, PublicKey: &ek.PublicKey, PublicKeyAlgorithm: ECDSA, BasicConstraintsValid: true, IsCA: true}
	der, err := CreateCertificate(&Certificate{SerialNumber: big.NewInt(1), Subject: pkix.Name{CommonName: "leaf"}}, parent, &sk.PublicKey, ek)
	if err != nil {
		t.Fatal(err)
	}
	var raw certificate
	if _, err := asn1.Unmarshal(der, &raw); err != nil {
		t.Fatal(err)
	}
	var sig ecdsaSignature
	asn1.Unmarshal(raw.SignatureValue.Bytes, &sig)
	sig.S.Sub(elliptic.P256().Params().N, sig.S)
	nb, _ := asn1.Marshal(sig)
	raw.SignatureValue = asn1.BitString{Bytes: nb, BitLength: 8 * len(nb)}
	raw.Raw = nil
	der2, _ := asn1.Marshal(raw)
	if bytes.Equal(der, der2) {
		t.Fatal("unchanged")
	}
	c, err := ParseCertificate(der2)
	if err != nil {
		t.Fatal(err)
	}
	if err := c.CheckSignatureFrom(parent); err == nil {
		t.Errorf("signature value changed (s -> n-s), TBS unchanged: certificate still verifies under the issuer")
	}
}
