package x509

// Place in /tmp/wt10/C09/x509/ and run:
//   go test -vet=off -count=1 -run TestC09Sm2PublicKeyIssuer ./x509/

import (
	"crypto/rand"
	"crypto/x509/pkix"
	"math/big"
	"testing"

	"github.com/tjfoc/gmsm/sm2"
)

// The issuer's public key in the library's own SM2 key type (*sm2.PublicKey: what GenerateKey,
// ReadPublicKeyFromPem, ParseSm2PublicKey, ReadPublicKeyFromHex return and what CreateCertificate
// itself takes) is refused by Certificate.CheckSignature / CheckSignatureFrom / CheckCRLSignature:
// checkSignature only knows *rsa, *dsa and *ecdsa public keys.
func TestC09Sm2PublicKeyIssuer(t *testing.T) {
	caKey, _ := sm2.GenerateKey(nil)
	leafKey, _ := sm2.GenerateKey(nil)

	// issuer as the caller holds it: the very template/parent object handed to CreateCertificate
	ca := &Certificate{
		SerialNumber: big.NewInt(1), Subject: pkix.Name{CommonName: "ca"},
		BasicConstraintsValid: true, IsCA: true, KeyUsage: KeyUsageCertSign | KeyUsageCRLSign,
		SubjectKeyId: []byte{1, 2, 3, 4},
		PublicKey:    &caKey.PublicKey, PublicKeyAlgorithm: ECDSA,
	}
	der, err := CreateCertificate(&Certificate{SerialNumber: big.NewInt(2), Subject: pkix.Name{CommonName: "leaf"}}, ca, &leafKey.PublicKey, caKey)
	if err != nil {
		t.Fatal(err)
	}
	leaf, err := ParseCertificate(der)
	if err != nil {
		t.Fatal(err)
	}
	if err := leaf.CheckSignatureFrom(ca); err != nil {
		t.Errorf("certificate under the parent it was created from: %v", err)
	}

	// issuer public key read back from the library's own PEM public key file
	pemPub, _ := WritePublicKeyToPem(&caKey.PublicKey)
	pub, err := ReadPublicKeyFromPem(pemPub)
	if err != nil {
		t.Fatal(err)
	}
	holder := &Certificate{PublicKey: pub, PublicKeyAlgorithm: ECDSA}
	if err := holder.CheckSignature(leaf.SignatureAlgorithm, leaf.RawTBSCertificate, leaf.Signature); err != nil {
		t.Errorf("certificate under the issuer's key from ReadPublicKeyFromPem: %v", err)
	}

	// CRL analogue
	crlDER, err := CreateRevocationList(rand.Reader, &RevocationList{Number: big.NewInt(1)}, ca, caKey)
	if err != nil {
		t.Fatal(err)
	}
	crl, err := ParseCRL(crlDER)
	if err != nil {
		t.Fatal(err)
	}
	if err := ca.CheckCRLSignature(crl); err != nil {
		t.Errorf("revocation list under the issuer it was created from: %v", err)
	}

	// control: the same key as *ecdsa.PublicKey (what ParseCertificate produces) verifies
	caDER, _ := CreateCertificate(ca, ca, &caKey.PublicKey, caKey)
	parsedCA, _ := ParseCertificate(caDER)
	if err := leaf.CheckSignatureFrom(parsedCA); err != nil {
		t.Fatalf("control failed: %v", err)
	}
}
