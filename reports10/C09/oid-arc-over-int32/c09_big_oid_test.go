package x509

// Place in /tmp/wt10/C09/x509/ and run:
//   go test -vet=off -count=1 -run TestC09BigOIDArc ./x509/

import (
	"crypto/x509/pkix"
	"encoding/asn1"
	"math/big"
	"testing"

	"github.com/tjfoc/gmsm/sm2"
)

// An OID arc >= 2^31 (int is 64 bits) is accepted and encoded by CreateCertificate, but the
// resulting certificate is rejected as a whole by ParseCertificate ("base 128 integer too large").
func TestC09BigOIDArc(t *testing.T) {
	k, _ := sm2.GenerateKey(nil)
	big := asn1.ObjectIdentifier{1, 2, 1 << 31}
	tpls := map[string]*Certificate{
		"policy":  {PolicyIdentifiers: []asn1.ObjectIdentifier{big}},
		"eku":     {UnknownExtKeyUsage: []asn1.ObjectIdentifier{big}},
		"extra":   {ExtraExtensions: []pkix.Extension{{Id: big, Value: []byte{5, 0}}}},
		"subject": {Subject: pkix.Name{ExtraNames: []pkix.AttributeTypeAndValue{{Type: big, Value: "v"}}}},
	}
	for name, tpl := range tpls {
		tpl.SerialNumber = bigOne()
		der, err := CreateCertificate(tpl, tpl, &k.PublicKey, k)
		if err != nil {
			t.Logf("%s: rejected at creation (fine): %v", name, err)
			continue
		}
		if _, err := ParseCertificate(der); err != nil {
			t.Errorf("%s: certificate was created but does not parse back: %v", name, err)
		}
	}
}

func bigOne() *big.Int { return big.NewInt(1) }
