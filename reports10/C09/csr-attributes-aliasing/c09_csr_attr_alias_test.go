package x509

// Place in /tmp/wt10/C09/x509/ and run:
//   go test -vet=off -count=1 -run TestC09CSRAttributesAliasing ./x509/

import (
	"crypto/rand"
	"crypto/x509/pkix"
	"reflect"
	"testing"

	"github.com/tjfoc/gmsm/sm2"
)

// Two requests share one (constant) Attributes list that asks for a key-usage extension.
// The first CreateCertificateRequest appends its subjectAltName into the caller's
// Attributes[0].Value[0]; the second request then finds "a subjectAltName is already specified
// in Attributes" and silently drops its own DNSNames: the CSR for b.example carries a.example.
func TestC09CSRAttributesAliasing(t *testing.T) {
	k, err := sm2.GenerateKey(nil)
	if err != nil {
		t.Fatal(err)
	}
	base := []pkix.AttributeTypeAndValueSET{{
		Type: oidExtensionRequest,
		Value: [][]pkix.AttributeTypeAndValue{{
			{Type: oidExtensionKeyUsage, Value: []byte{3, 2, 5, 160}},
		}},
	}}
	for _, host := range []string{"a.example", "b.example"} {
		tpl := &CertificateRequest{
			Subject:    pkix.Name{CommonName: host},
			Attributes: base,
			DNSNames:   []string{host},
		}
		der, err := CreateCertificateRequest(rand.Reader, tpl, k)
		if err != nil {
			t.Fatal(err)
		}
		csr, err := ParseCertificateRequest(der)
		if err != nil {
			t.Fatal(err)
		}
		if err := csr.CheckSignature(); err != nil {
			t.Fatal(err)
		}
		if !reflect.DeepEqual(csr.DNSNames, tpl.DNSNames) {
			t.Errorf("template DNSNames %v, request parses back with DNSNames %v", tpl.DNSNames, csr.DNSNames)
		}
		if n := len(base[0].Value[0]); n != 1 {
			t.Errorf("after the request for %s the caller's Attributes[0].Value[0] has %d entries (was 1)", host, n)
		}
	}
}

// Same thing as a history on ONE template: create, change DNSNames, create again.
func TestC09CSRAttributesAliasingSecondCall(t *testing.T) {
	k, _ := sm2.GenerateKey(nil)
	tpl := &CertificateRequest{
		Attributes: []pkix.AttributeTypeAndValueSET{{
			Type:  oidExtensionRequest,
			Value: [][]pkix.AttributeTypeAndValue{{{Type: oidExtensionKeyUsage, Value: []byte{3, 2, 5, 160}}}},
		}},
		DNSNames: []string{"a.example"},
	}
	if _, err := CreateCertificateRequest(rand.Reader, tpl, k); err != nil {
		t.Fatal(err)
	}
	tpl.DNSNames = []string{"b.example"}
	der, err := CreateCertificateRequest(rand.Reader, tpl, k)
	if err != nil {
		t.Fatal(err)
	}
	csr, err := ParseCertificateRequest(der)
	if err != nil {
		t.Fatal(err)
	}
	if !reflect.DeepEqual(csr.DNSNames, tpl.DNSNames) {
		t.Errorf("second call: template DNSNames %v, request parses back with DNSNames %v", tpl.DNSNames, csr.DNSNames)
	}
}
