package x509_test

// Place in x509/ and run:  go test -vet=off -count=1 -run TestC17EncryptKeyType ./x509/

import (
	"crypto/rand"
	"crypto/rsa"
	stdx509 "crypto/x509"
	"crypto/x509/pkix"
	"math/big"
	"testing"
	"time"

	"github.com/tjfoc/gmsm/sm2"
	"github.com/tjfoc/gmsm/x509"
)

func TestC17EncryptKeyType(t *testing.T) {
	sk, _ := sm2.GenerateKey(nil)
	st := x509.Certificate{SerialNumber: big.NewInt(1), Subject: pkix.Name{CommonName: "sm2"},
		NotBefore: time.Now().Add(-time.Hour), NotAfter: time.Now().Add(24 * time.Hour), SignatureAlgorithm: x509.SM2WithSM3}
	sder, err := x509.CreateCertificate(&st, &st, &sk.PublicKey, sk)
	if err != nil {
		t.Fatal(err)
	}
	sc, _ := x509.ParseCertificate(sder)

	rk, _ := rsa.GenerateKey(rand.Reader, 1024)
	rt := stdx509.Certificate{SerialNumber: big.NewInt(2), Subject: pkix.Name{CommonName: "rsa"},
		NotBefore: time.Now().Add(-time.Hour), NotAfter: time.Now().Add(24 * time.Hour)}
	rder, err := stdx509.CreateCertificate(rand.Reader, &rt, &rt, &rk.PublicKey, rk)
	if err != nil {
		t.Fatal(err)
	}
	rc, _ := x509.ParseCertificate(rder)

	try := func(name string, f func() ([]byte, error)) {
		defer func() {
			if r := recover(); r != nil {
				t.Errorf("%s: panic: %v", name, r)
			}
		}()
		if _, err := f(); err == nil {
			t.Errorf("%s: no error", name)
		}
	}
	try("PKCS7Encrypt(SM2 recipient)", func() ([]byte, error) { return x509.PKCS7Encrypt([]byte("x"), []*x509.Certificate{sc}) })
	try("PKCS7EncryptSM2(RSA recipient)", func() ([]byte, error) { return x509.PKCS7EncryptSM2([]byte("x"), []*x509.Certificate{rc}, sm2.C1C3C2) })
	try("PKCS7EncryptSM2(SM2+RSA recipients)", func() ([]byte, error) {
		return x509.PKCS7EncryptSM2([]byte("x"), []*x509.Certificate{sc, rc}, sm2.C1C3C2)
	})
}
