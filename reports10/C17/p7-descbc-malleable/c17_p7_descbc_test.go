package x509_test

// Place in x509/ and run:  go test -vet=off -count=1 -run TestC17DESCBCCorruption ./x509/

import (
	"bytes"
	"crypto/x509/pkix"
	"math/big"
	"testing"
	"time"

	"github.com/tjfoc/gmsm/sm2"
	"github.com/tjfoc/gmsm/x509"
)

func TestC17DESCBCCorruption(t *testing.T) {
	sk, _ := sm2.GenerateKey(nil)
	st := x509.Certificate{SerialNumber: big.NewInt(1), Subject: pkix.Name{CommonName: "sm2"},
		NotBefore: time.Now().Add(-time.Hour), NotAfter: time.Now().Add(24 * time.Hour), SignatureAlgorithm: x509.SM2WithSM3}
	der, err := x509.CreateCertificate(&st, &st, &sk.PublicKey, sk)
	if err != nil {
		t.Fatal(err)
	}
	cert, _ := x509.ParseCertificate(der)

	content := []byte("0123456789abcdefXYZ")
	for _, alg := range []int{x509.EncryptionAlgorithmAES128GCM, x509.EncryptionAlgorithmDESCBC} {
		x509.ContentEncryptionAlgorithm = alg
		env, err := x509.PKCS7EncryptSM2(content, []*x509.Certificate{cert}, sm2.C1C3C2)
		if err != nil {
			t.Fatal(err)
		}
		diff := 0
		for pos := range env {
			m := append([]byte{}, env...)
			m[pos] ^= 0x01
			p7, err := x509.ParsePKCS7(m)
			if err != nil {
				continue
			}
			got, err := p7.DecryptSM2(cert, sk, sm2.C1C3C2)
			if err == nil && !bytes.Equal(got, content) {
				diff++
				if diff <= 3 {
					t.Errorf("alg %d: byte %d ^ 01: DecryptSM2 err=nil, content %q", alg, pos, got)
				}
			}
		}
		t.Logf("alg %d: %d of %d one-bit corruptions decrypt without error to OTHER content", alg, diff, len(env))
	}
	x509.ContentEncryptionAlgorithm = x509.EncryptionAlgorithmDESCBC
}
