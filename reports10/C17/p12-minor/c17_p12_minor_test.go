package pkcs12

// Place in pkcs12/ and run:  go test -vet=off -count=1 -run TestC17P12Minor ./pkcs12/

import (
	"crypto/ecdsa"
	"crypto/elliptic"
	"crypto/rand"
	stdx509 "crypto/x509"
	"crypto/x509/pkix"
	"math/big"
	"os"
	"testing"
	"time"

	"github.com/tjfoc/gmsm/sm2"
	x "github.com/tjfoc/gmsm/x509"
)

func TestC17P12Minor(t *testing.T) {
	// (a) SM2P12Decrypt on a (non-SM2) EC bundle: (nil, nil, nil)
	k, _ := ecdsa.GenerateKey(elliptic.P256(), rand.Reader)
	tmpl := stdx509.Certificate{SerialNumber: big.NewInt(9), Subject: pkix.Name{CommonName: "ec"},
		NotBefore: time.Now().Add(-time.Hour), NotAfter: time.Now().Add(24 * time.Hour)}
	der, err := stdx509.CreateCertificate(rand.Reader, &tmpl, &tmpl, &k.PublicKey, k)
	if err != nil {
		t.Fatal(err)
	}
	c, _ := x.ParseCertificate(der)
	p12, err := Encode(k, c, nil, "pw")
	if err != nil {
		t.Fatal(err)
	}
	f := t.TempDir() + "/a.p12"
	os.WriteFile(f, p12, 0600)
	cert, key, err := SM2P12Decrypt(f, "pw")
	if err == nil && (cert == nil || key == nil) {
		t.Errorf("(a) SM2P12Decrypt returned cert=%v key=%v err=nil", cert, key)
	}

	// (b) a password outside the BMP cannot be used at all
	sk, _ := sm2.GenerateKey(nil)
	st := x.Certificate{SerialNumber: big.NewInt(4), Subject: pkix.Name{CommonName: "sm2"},
		NotBefore: time.Now().Add(-time.Hour), NotAfter: time.Now().Add(24 * time.Hour), SignatureAlgorithm: x.SM2WithSM3}
	sder, err := x.CreateCertificate(&st, &st, &sk.PublicKey, sk)
	if err != nil {
		t.Fatal(err)
	}
	sc, _ := x.ParseCertificate(sder)
	if _, err := Encode(sk, sc, nil, "p\U0001F600"); err != nil {
		t.Errorf("(b) Encode with a non-BMP password: %v", err)
	}

	// (c) the key DecodeAll returns for an SM2 bundle cannot be encoded again
	p12, _ = Encode(sk, sc, nil, "pw")
	dk, dc, err := DecodeAll(p12, "pw")
	if err != nil {
		t.Fatal(err)
	}
	if _, err := Encode(dk, dc[0], nil, "pw"); err != nil {
		t.Errorf("(c) Encode(DecodeAll(...)) : %v", err)
	}
}
