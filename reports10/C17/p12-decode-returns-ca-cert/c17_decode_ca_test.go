package pkcs12

// Place in pkcs12/ and run:  go test -vet=off -count=1 -run TestC17DecodeWithCACerts ./pkcs12/

import (
	"bytes"
	"crypto/ecdsa"
	"crypto/elliptic"
	"crypto/rand"
	"crypto/rsa"
	stdx509 "crypto/x509"
	"crypto/x509/pkix"
	"math/big"
	"testing"
	"time"

	x "github.com/tjfoc/gmsm/x509"
)

func c17SelfSigned(t *testing.T, pub, priv interface{}, serial int64, cn string) (*x.Certificate, *stdx509.Certificate) {
	tmpl := stdx509.Certificate{
		SerialNumber: big.NewInt(serial), Subject: pkix.Name{CommonName: cn},
		NotBefore: time.Now().Add(-time.Hour), NotAfter: time.Now().Add(24 * time.Hour),
		IsCA: true, BasicConstraintsValid: true,
	}
	der, err := stdx509.CreateCertificate(rand.Reader, &tmpl, &tmpl, pub, priv)
	if err != nil {
		t.Fatal(err)
	}
	gc, err := x.ParseCertificate(der)
	if err != nil {
		t.Fatal(err)
	}
	sc, _ := stdx509.ParseCertificate(der)
	return gc, sc
}

func TestC17DecodeWithCACerts(t *testing.T) {
	leafKey, _ := rsa.GenerateKey(rand.Reader, 1024)
	leaf, _ := c17SelfSigned(t, &leafKey.PublicKey, leafKey, 1, "leaf")
	caKey, _ := ecdsa.GenerateKey(elliptic.P256(), rand.Reader)
	_, ca := c17SelfSigned(t, &caKey.PublicKey, caKey, 2, "some CA")

	p12, err := Encode(leafKey, leaf, []*stdx509.Certificate{ca}, "pw")
	if err != nil {
		t.Fatal(err)
	}
	key, cert, err := Decode(p12, "pw")
	if err != nil {
		t.Logf("Decode refused the bundle: %v (acceptable: documented as one certificate only)", err)
		return
	}
	if !bytes.Equal(cert.Raw, leaf.Raw) {
		t.Errorf("Decode returned err=nil, key of %q, but certificate %q", "leaf", cert.Subject.CommonName)
	}
	if pub, ok := cert.PublicKey.(*rsa.PublicKey); !ok || pub.N.Cmp(key.(*rsa.PrivateKey).N) != 0 {
		t.Errorf("returned certificate does not certify the returned private key")
	}
}
