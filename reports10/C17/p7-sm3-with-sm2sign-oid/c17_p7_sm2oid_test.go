package x509

// Place in x509/ and run:  go test -vet=off -count=1 -run TestC17SM2SignOID ./x509/

import (
	"crypto/rand"
	"crypto/x509/pkix"
	"encoding/asn1"
	"math/big"
	"testing"
	"time"

	"github.com/tjfoc/gmsm/sm2"
	"github.com/tjfoc/gmsm/sm3"
)

func c17SM2Cert(t *testing.T) (*Certificate, *sm2.PrivateKey) {
	priv, err := sm2.GenerateKey(nil)
	if err != nil {
		t.Fatal(err)
	}
	tmpl := Certificate{SerialNumber: big.NewInt(7), Subject: pkix.Name{CommonName: "signer"},
		NotBefore: time.Now().Add(-time.Hour), NotAfter: time.Now().Add(24 * time.Hour), SignatureAlgorithm: SM2WithSM3}
	der, err := CreateCertificate(&tmpl, &tmpl, &priv.PublicKey, priv)
	if err != nil {
		t.Fatal(err)
	}
	c, err := ParseCertificate(der)
	if err != nil {
		t.Fatal(err)
	}
	return c, priv
}

// SM2 SignedData as GM/T 0010 / GM/T 0009 describe it: digestAlgorithm = SM3,
// digestEncryptionAlgorithm = SM2 signature algorithm 1.2.156.10197.1.301.1
func c17SM2Signed(t *testing.T, content []byte, cert *Certificate, key *sm2.PrivateKey, withAttrs bool, digOID, encOID asn1.ObjectIdentifier) []byte {
	c, _ := asn1.Marshal(content)
	sd := signedData{Version: 1,
		DigestAlgorithmIdentifiers: []pkix.AlgorithmIdentifier{{Algorithm: digOID}},
		ContentInfo:                contentInfo{ContentType: oidData, Content: asn1.RawValue{Class: 2, Tag: 0, Bytes: c, IsCompound: true}}}
	ias, _ := cert2issuerAndSerial(cert)
	si := signerInfo{Version: 1, IssuerAndSerialNumber: ias,
		DigestAlgorithm:           pkix.AlgorithmIdentifier{Algorithm: digOID},
		DigestEncryptionAlgorithm: pkix.AlgorithmIdentifier{Algorithm: encOID}}
	tbs := content
	if withAttrs {
		attrs := &attributes{}
		attrs.Add(oidAttributeContentType, oidData)
		attrs.Add(oidAttributeMessageDigest, sm3.Sm3Sum(content))
		fa, err := attrs.ForMarshaling()
		if err != nil {
			t.Fatal(err)
		}
		si.AuthenticatedAttributes = fa
		if tbs, err = marshalAttributes(fa); err != nil {
			t.Fatal(err)
		}
	}
	sig, err := key.Sign(rand.Reader, tbs, nil)
	if err != nil {
		t.Fatal(err)
	}
	si.EncryptedDigest = sig
	sd.SignerInfos = []signerInfo{si}
	sd.Certificates = marshalCertificates([]*Certificate{cert})
	inner, err := asn1.Marshal(sd)
	if err != nil {
		t.Fatal(err)
	}
	out, err := asn1.Marshal(contentInfo{ContentType: oidSMSignedData, Content: asn1.RawValue{Class: 2, Tag: 0, Bytes: inner, IsCompound: true}})
	if err != nil {
		t.Fatal(err)
	}
	return out
}

func TestC17SM2SignOID(t *testing.T) {
	cert, key := c17SM2Cert(t)
	content := []byte("content")
	for _, wa := range []bool{false, true} {
		for _, dig := range []asn1.ObjectIdentifier{oidSM3, oidHashSM3} {
			// control: the OID the library accepts
			p7, err := ParsePKCS7(c17SM2Signed(t, content, cert, key, wa, dig, oidSM3withSM2))
			if err != nil {
				t.Fatal(err)
			}
			if err := p7.Verify(); err != nil {
				t.Fatalf("control (1.2.156.10197.1.501) attrs=%v: %v", wa, err)
			}
			// SM3 digest + SM2 signature algorithm 1.2.156.10197.1.301.1 (the library's own oidDSASM2)
			p7, err = ParsePKCS7(c17SM2Signed(t, content, cert, key, wa, dig, oidDSASM2))
			if err != nil {
				t.Fatal(err)
			}
			if err := p7.Verify(); err != nil {
				t.Errorf("digest %v + signature algorithm %v, attrs=%v: genuine SM2 signature refused: %v", dig, oidDSASM2, wa, err)
			}
		}
	}
}
