package pkcs12

// Place in pkcs12/ and run:  go test -vet=off -count=1 -run TestC17ToPEMSM2 ./pkcs12/

import (
	"crypto/x509/pkix"
	"math/big"
	"testing"
	"time"

	"github.com/tjfoc/gmsm/sm2"
	x "github.com/tjfoc/gmsm/x509"
)

func TestC17ToPEMSM2(t *testing.T) {
	priv, err := sm2.GenerateKey(nil)
	if err != nil {
		t.Fatal(err)
	}
	tmpl := x.Certificate{
		SerialNumber: big.NewInt(4), Subject: pkix.Name{CommonName: "sm2"},
		NotBefore: time.Now().Add(-time.Hour), NotAfter: time.Now().Add(24 * time.Hour),
		SignatureAlgorithm: x.SM2WithSM3,
	}
	der, err := x.CreateCertificate(&tmpl, &tmpl, &priv.PublicKey, priv)
	if err != nil {
		t.Fatal(err)
	}
	cert, err := x.ParseCertificate(der)
	if err != nil {
		t.Fatal(err)
	}
	for _, pw := range []string{"", "123", "密码"} {
		p12, err := Encode(priv, cert, nil, pw)
		if err != nil {
			t.Fatal(err)
		}
		if _, _, err := DecodeAll(p12, pw); err != nil {
			t.Fatalf("DecodeAll: %v", err)
		}
		blocks, err := ToPEM(p12, pw)
		if err != nil {
			t.Errorf("pw=%q: ToPEM refused the library's own SM2 bundle under its own password: %v", pw, err)
			continue
		}
		if len(blocks) != 2 {
			t.Errorf("pw=%q: %d blocks", pw, len(blocks))
		}
	}
}
