package x509

// Place in x509/ and run:  go test -vet=off -count=1 -run TestC17BERSegmentedContent ./x509/

import (
	"bytes"
	"crypto/rand"
	"crypto/rsa"
	stdx509 "crypto/x509"
	"crypto/x509/pkix"
	"encoding/asn1"
	"math/big"
	"testing"
	"time"
)

func TestC17BERSegmentedContent(t *testing.T) {
	rk, _ := rsa.GenerateKey(rand.Reader, 1024)
	rt := stdx509.Certificate{SerialNumber: big.NewInt(2), Subject: pkix.Name{CommonName: "rsa"},
		NotBefore: time.Now().Add(-time.Hour), NotAfter: time.Now().Add(24 * time.Hour)}
	rder, err := stdx509.CreateCertificate(rand.Reader, &rt, &rt, &rk.PublicKey, rk)
	if err != nil {
		t.Fatal(err)
	}
	rc, _ := ParseCertificate(rder)

	content := []byte("hello world content")
	sd, _ := NewSignedData(content)
	if err := sd.AddSigner(rc, rk, SignerInfoConfig{}); err != nil {
		t.Fatal(err)
	}
	der, _ := sd.Finish()
	p7, err := ParsePKCS7(der)
	if err != nil || p7.Verify() != nil {
		t.Fatal("control failed")
	}

	// the same SignedData, content written the BER way (what streaming encoders emit):
	// [0] { OCTET STRING (constructed, indefinite) { OCTET STRING "hello worl", OCTET STRING "d content" } }
	raw := p7.raw.(signedData)
	s1, _ := asn1.Marshal(content[:10])
	s2, _ := asn1.Marshal(content[10:])
	seg := append([]byte{0x24, 0x80}, append(append(s1, s2...), 0, 0)...)
	raw.ContentInfo.Content = asn1.RawValue{Class: 2, Tag: 0, IsCompound: true, Bytes: seg}
	inner, err := asn1.Marshal(raw)
	if err != nil {
		t.Fatal(err)
	}
	ber, _ := asn1.Marshal(contentInfo{ContentType: oidSignedData, Content: asn1.RawValue{Class: 2, Tag: 0, Bytes: inner, IsCompound: true}})

	q, err := ParsePKCS7(ber)
	if err != nil {
		t.Fatalf("parse: %v", err)
	}
	if !bytes.Equal(q.Content, content) {
		t.Errorf("ParsePKCS7 returned Content %q, the object carries %q", q.Content, content)
	}
	if err := q.Verify(); err != nil {
		t.Errorf("genuine signature refused: %v", err)
	}
}
