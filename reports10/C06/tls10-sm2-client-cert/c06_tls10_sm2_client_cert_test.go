package gmtls

import (
	"fmt"
	"io/ioutil"
	"net"
	"testing"
	"time"

	"github.com/tjfoc/gmsm/x509"
)

// A plain TLS client authenticates with an SM2 certificate (X509KeyPair / LoadX509KeyPair accept it and
// pickSignatureAlgorithm has a case for it). With TLS 1.2 the handshake completes; with TLS 1.0 and 1.1
// the same configuration always fails: the client hashes the transcript as MD5||SHA1 (signatureSM2),
// the server - which sees the key as *ecdsa.PublicKey on the SM2 curve - as SHA1 (signatureECDSA).
func TestC06TLS10SM2ClientCert(t *testing.T) {
	d := "websvr/certs/"
	load := func(c, k string) Certificate {
		cert, err := LoadX509KeyPair(d+c, d+k)
		if err != nil {
			t.Fatal(err)
		}
		return cert
	}
	rsaCert := load("rsa_sign.cer", "rsa_sign_key.pem")
	sm2Auth := load("sm2_auth_cert.cer", "sm2_auth_key.pem")
	rsaPool, sm2Pool := x509.NewCertPool(), x509.NewCertPool()
	pem, _ := ioutil.ReadFile(d + "RSA_CA.cer")
	rsaPool.AppendCertsFromPEM(pem)
	pem, _ = ioutil.ReadFile(d + "SM2_CA.cer")
	sm2Pool.AppendCertsFromPEM(pem)

	for _, vers := range []uint16{VersionTLS12, VersionTLS11, VersionTLS10} {
		scfg := &Config{Certificates: []Certificate{rsaCert}, ClientAuth: RequireAndVerifyClientCert, ClientCAs: sm2Pool}
		ccfg := &Config{RootCAs: rsaPool, ServerName: "localhost", Certificates: []Certificate{sm2Auth}, MinVersion: vers, MaxVersion: vers}
		ln, err := net.Listen("tcp", "127.0.0.1:0")
		if err != nil {
			t.Fatal(err)
		}
		serr := make(chan error, 1)
		go func() {
			raw, err := ln.Accept()
			if err != nil {
				serr <- err
				return
			}
			defer raw.Close()
			raw.SetDeadline(time.Now().Add(5 * time.Second))
			serr <- Server(raw, scfg).Handshake()
		}()
		raw, err := net.Dial("tcp", ln.Addr().String())
		if err != nil {
			t.Fatal(err)
		}
		raw.SetDeadline(time.Now().Add(5 * time.Second))
		cerr := Client(raw, ccfg).Handshake()
		raw.Close()
		se := <-serr
		ln.Close()
		if cerr != nil || se != nil {
			t.Errorf("%s: client: %v, server: %v", fmt.Sprintf("version %04x", vers), cerr, se)
		}
	}
}
