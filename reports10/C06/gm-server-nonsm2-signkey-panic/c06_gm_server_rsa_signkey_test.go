package gmtls

import (
	"io/ioutil"
	"net"
	"testing"
	"time"

	"github.com/tjfoc/gmsm/x509"
)

func c06p2Pair(t *testing.T, ccfg, scfg *Config) (cerr, serr error, spanic interface{}) {
	ln, err := net.Listen("tcp", "127.0.0.1:0")
	if err != nil {
		t.Fatal(err)
	}
	defer ln.Close()
	type res struct {
		err error
		p   interface{}
	}
	ch := make(chan res, 1)
	go func() {
		raw, err := ln.Accept()
		if err != nil {
			ch <- res{err, nil}
			return
		}
		defer raw.Close()
		raw.SetDeadline(time.Now().Add(5 * time.Second))
		var r res
		func() {
			defer func() { r.p = recover() }()
			r.err = Server(raw, scfg).Handshake()
		}()
		ch <- r
	}()
	raw, err := net.Dial("tcp", ln.Addr().String())
	if err != nil {
		t.Fatal(err)
	}
	defer raw.Close()
	raw.SetDeadline(time.Now().Add(5 * time.Second))
	cerr = Client(raw, ccfg).Handshake()
	r := <-ch
	return cerr, r.err, r.p
}

// The signing certificate handed to a GMSSL handshake carries an RSA key. Expected: the handshake
// fails with an error on both sides. Actual: the server goroutine panics (nil SignerOpts
// dereferenced by rsa.PrivateKey.Sign in eccKeyAgreementGM.generateServerKeyExchange).
func TestC06GMServerRSASigningKeyPanics(t *testing.T) {
	d := "websvr/certs/"
	load := func(c, k string) Certificate {
		cert, err := LoadX509KeyPair(d+c, d+k)
		if err != nil {
			t.Fatal(err)
		}
		return cert
	}
	sig, enc := load("sm2_sign_cert.cer", "sm2_sign_key.pem"), load("sm2_enc_cert.cer", "sm2_enc_key.pem")
	rsaCert := load("rsa_sign.cer", "rsa_sign_key.pem")
	pool := x509.NewCertPool()
	pem, _ := ioutil.ReadFile(d + "SM2_CA.cer")
	pool.AppendCertsFromPEM(pem)
	ccfg := &Config{GMSupport: NewGMSupport(), RootCAs: pool, ServerName: "localhost"}

	// (a) auto-switch server, SM2 pair given statically, GetCertificate (documented as "called if the
	// client supplies SNI") written for the TLS side only.
	a := &Config{GMSupport: NewGMSupport(), Certificates: []Certificate{sig, enc},
		GetCertificate: func(*ClientHelloInfo) (*Certificate, error) { return &rsaCert, nil }}
	a.GMSupport.EnableMixMode()
	// (b) GMSSL-only server, wrong certificate in the first slot.
	b := &Config{GMSupport: NewGMSupport(), Certificates: []Certificate{rsaCert, enc}}

	for name, scfg := range map[string]*Config{"auto-switch static+GetCertificate": a, "GMSSL-only [rsa, enc]": b} {
		cerr, serr, p := c06p2Pair(t, ccfg, scfg)
		if p != nil {
			t.Errorf("%s: server PANIC instead of an error: %v", name, p)
		}
		if cerr == nil || (serr == nil && p == nil) {
			t.Errorf("%s: handshake completed: %v / %v", name, cerr, serr)
		}
		t.Logf("%s: client: %v, server: %v", name, cerr, serr)
	}
}
