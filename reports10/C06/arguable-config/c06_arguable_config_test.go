package gmtls

import (
	"io/ioutil"
	"net"
	"testing"
	"time"

	"github.com/tjfoc/gmsm/x509"
)

func c06argPair(t *testing.T, ccfg, scfg *Config) (cerr, serr error) {
	ln, err := net.Listen("tcp", "127.0.0.1:0")
	if err != nil {
		t.Fatal(err)
	}
	defer ln.Close()
	ch := make(chan error, 1)
	go func() {
		raw, err := ln.Accept()
		if err != nil {
			ch <- err
			return
		}
		defer raw.Close()
		raw.SetDeadline(time.Now().Add(5 * time.Second))
		ch <- Server(raw, scfg).Handshake()
	}()
	raw, err := net.Dial("tcp", ln.Addr().String())
	if err != nil {
		t.Fatal(err)
	}
	defer raw.Close()
	raw.SetDeadline(time.Now().Add(5 * time.Second))
	cerr = Client(raw, ccfg).Handshake()
	return cerr, <-ch
}

func TestC06ArguableConfigs(t *testing.T) {
	d := "websvr/certs/"
	load := func(c, k string) Certificate {
		cert, err := LoadX509KeyPair(d+c, d+k)
		if err != nil {
			t.Fatal(err)
		}
		return cert
	}
	sig, enc := load("sm2_sign_cert.cer", "sm2_sign_key.pem"), load("sm2_enc_cert.cer", "sm2_enc_key.pem")
	rsaCert := load("rsa_sign.cer", "rsa_sign_key.pem")
	sm2Pool, rsaPool := x509.NewCertPool(), x509.NewCertPool()
	pem, _ := ioutil.ReadFile(d + "SM2_CA.cer")
	sm2Pool.AppendCertsFromPEM(pem)
	pem, _ = ioutil.ReadFile(d + "RSA_CA.cer")
	rsaPool.AppendCertsFromPEM(pem)
	gmClient := &Config{GMSupport: NewGMSupport(), RootCAs: sm2Pool, ServerName: "localhost"}
	tlsClient := &Config{RootCAs: rsaPool, ServerName: "localhost"}

	// 1. static certificates + BuildNameToCertificate: fine on a GMSSL-only server, fatal on an auto-switch
	// server (processClientHelloGM goes through getCertificate, which resolves the SNI name to the last
	// certificate with that name - the encryption certificate - and sends {enc, enc}).
	for _, auto := range []bool{false, true} {
		scfg := &Config{GMSupport: NewGMSupport(), Certificates: []Certificate{sig, enc}}
		if auto {
			scfg.GMSupport.EnableMixMode()
		}
		scfg.BuildNameToCertificate()
		if cerr, serr := c06argPair(t, gmClient, scfg); cerr != nil || serr != nil {
			t.Errorf("static certs + BuildNameToCertificate, auto=%v: client %v / server %v", auto, cerr, serr)
		}
	}

	// 2. auto-switch server with all three certificates given statically: GMSSL clients are served, no TLS
	// client ever is (it is offered the SM2 signing certificate).
	scfg := &Config{GMSupport: NewGMSupport(), Certificates: []Certificate{sig, enc, rsaCert}}
	scfg.GMSupport.EnableMixMode()
	if cerr, serr := c06argPair(t, gmClient, scfg); cerr != nil || serr != nil {
		t.Errorf("auto-switch static {sig, enc, rsa}, GMSSL client: %v / %v", cerr, serr)
	}
	if cerr, serr := c06argPair(t, tlsClient, scfg); cerr != nil || serr != nil {
		t.Errorf("auto-switch static {sig, enc, rsa}, TLS 1.2 client: %v / %v", cerr, serr)
	}

	// 3. MinVersion = TLS 1.2 (to shut out TLS 1.0 / 1.1) on a GMSSL-only or auto-switch server shuts out
	// every GMSSL client as well: 0x0101 < 0x0303.
	for _, auto := range []bool{false, true} {
		scfg := &Config{GMSupport: NewGMSupport(), Certificates: []Certificate{sig, enc}, MinVersion: VersionTLS12}
		if auto {
			scfg.GMSupport.EnableMixMode()
		}
		if cerr, serr := c06argPair(t, gmClient, scfg); cerr != nil || serr != nil {
			t.Errorf("MinVersion=TLS12, auto=%v, GMSSL client: %v / %v", auto, cerr, serr)
		}
	}
}
