package gmtls

import (
	"io/ioutil"
	"net"
	"testing"
	"time"

	"github.com/tjfoc/gmsm/x509"
)

// A GMSSL server that requests a client certificate (its CertificateRequest lists rsa_sign and
// ecdsa_sign) and a GMSSL client whose GetClientCertificate callback answers with an RSA
// certificate. Expected: both sides fail with an error. Actual: the client panics.
func TestC06GMClientRSACertPanics(t *testing.T) {
	d := "websvr/certs/"
	load := func(c, k string) Certificate {
		cert, err := LoadX509KeyPair(d+c, d+k)
		if err != nil {
			t.Fatal(err)
		}
		return cert
	}
	sig, enc := load("sm2_sign_cert.cer", "sm2_sign_key.pem"), load("sm2_enc_cert.cer", "sm2_enc_key.pem")
	rsaAuth := load("rsa_auth_cert.cer", "rsa_auth_key.pem")
	pool := x509.NewCertPool()
	pem, _ := ioutil.ReadFile(d + "SM2_CA.cer")
	pool.AppendCertsFromPEM(pem)

	scfg := &Config{GMSupport: NewGMSupport(), Certificates: []Certificate{sig, enc}, ClientAuth: RequireAnyClientCert}
	ccfg := &Config{GMSupport: NewGMSupport(), RootCAs: pool, ServerName: "localhost",
		GetClientCertificate: func(*CertificateRequestInfo) (*Certificate, error) { return &rsaAuth, nil }}

	ln, err := net.Listen("tcp", "127.0.0.1:0")
	if err != nil {
		t.Fatal(err)
	}
	defer ln.Close()
	serr := make(chan error, 1)
	go func() {
		raw, err := ln.Accept()
		if err != nil {
			serr <- err
			return
		}
		defer raw.Close()
		raw.SetDeadline(time.Now().Add(5 * time.Second))
		serr <- Server(raw, scfg).Handshake()
	}()
	raw, err := net.Dial("tcp", ln.Addr().String())
	if err != nil {
		t.Fatal(err)
	}
	raw.SetDeadline(time.Now().Add(5 * time.Second))
	var cerr error
	func() {
		defer func() {
			if p := recover(); p != nil {
				t.Errorf("client PANIC instead of an error: %v", p)
				raw.Close()
			}
		}()
		cerr = Client(raw, ccfg).Handshake()
	}()
	raw.Close()
	t.Logf("client: %v, server: %v", cerr, <-serr)
}
