package gmtls

import (
	"io/ioutil"
	"net"
	"testing"
	"time"

	"github.com/tjfoc/gmsm/x509"
)

// Session tickets on, both ends, Config.CipherSuites left nil (the default): the GMSSL server issues
// a ticket on every connection and never honours one, because checkForResumption looks the
// session's suite up in c.config.cipherSuites() - the TLS default list - instead of getCipherSuites(c.config).
// With CipherSuites set explicitly to the GM suites the second connection resumes.
func TestC06GMResumptionWithDefaultSuites(t *testing.T) {
	d := "websvr/certs/"
	load := func(c, k string) Certificate {
		cert, err := LoadX509KeyPair(d+c, d+k)
		if err != nil {
			t.Fatal(err)
		}
		return cert
	}
	sig, enc := load("sm2_sign_cert.cer", "sm2_sign_key.pem"), load("sm2_enc_cert.cer", "sm2_enc_key.pem")
	pool := x509.NewCertPool()
	pem, _ := ioutil.ReadFile(d + "SM2_CA.cer")
	pool.AppendCertsFromPEM(pem)

	for _, explicit := range []bool{true, false} {
		scfg := &Config{GMSupport: NewGMSupport(), Certificates: []Certificate{sig, enc}}
		ccfg := &Config{GMSupport: NewGMSupport(), RootCAs: pool, ServerName: "localhost", ClientSessionCache: NewLRUClientSessionCache(4)}
		if explicit {
			scfg.CipherSuites = []uint16{GMTLS_ECC_SM4_CBC_SM3, GMTLS_ECC_SM4_GCM_SM3}
		}
		for round := 0; round < 2; round++ {
			ln, err := net.Listen("tcp", "127.0.0.1:0")
			if err != nil {
				t.Fatal(err)
			}
			type res struct {
				err     error
				resumed bool
			}
			ch := make(chan res, 1)
			go func() {
				raw, err := ln.Accept()
				if err != nil {
					ch <- res{err, false}
					return
				}
				defer raw.Close()
				raw.SetDeadline(time.Now().Add(5 * time.Second))
				s := Server(raw, scfg)
				err = s.Handshake()
				ch <- res{err, s.ConnectionState().DidResume}
			}()
			raw, err := net.Dial("tcp", ln.Addr().String())
			if err != nil {
				t.Fatal(err)
			}
			raw.SetDeadline(time.Now().Add(5 * time.Second))
			c := Client(raw, ccfg)
			cerr := c.Handshake()
			r := <-ch
			if cerr != nil || r.err != nil {
				t.Fatalf("explicit=%v round %d: %v / %v", explicit, round, cerr, r.err)
			}
			if round == 1 && (!c.ConnectionState().DidResume || !r.resumed) {
				t.Errorf("explicit CipherSuites=%v: second connection not resumed (client %v, server %v)", explicit, c.ConnectionState().DidResume, r.resumed)
			}
			raw.Close()
			ln.Close()
		}
	}
}
