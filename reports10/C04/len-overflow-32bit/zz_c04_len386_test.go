package sm3

import (
	"bytes"
	"testing"
)

func TestHuge386(t *testing.T) {
	if int(^uint(0)>>1) != 1<<31-1 {
		t.Skip("32-bit only")
	}
	n := 1 << 28
	m := make([]byte, n)
	h := New()
	h.Write(m)
	a := h.Sum(nil)
	h.Reset()
	h.Write(m[:n/2])
	h.Write(m[n/2:])
	b := h.Sum(nil)
	if !bytes.Equal(a, b) {
		t.Errorf("one write of 2^28 bytes: %x, two writes of 2^27: %x", a, b)
	}
}
