package sm3

import (
	"bytes"
	"testing"
)

func TestStructCopyFork(t *testing.T) {
	h := New().(*SM3)
	h.Write([]byte("abc"))
	c := *h // fork the running state by value
	h.Write([]byte("d"))
	c.Write([]byte("e"))
	if got, want := h.Sum(nil), Sm3Sum([]byte("abcd")); !bytes.Equal(got, want) {
		t.Errorf("original after fork: got %x want %x (is abce: %v)", got, want, bytes.Equal(got, Sm3Sum([]byte("abce"))))
	}
	if got, want := c.Sum(nil), Sm3Sum([]byte("abce")); !bytes.Equal(got, want) {
		t.Errorf("copy after fork: got %x want %x", got, want)
	}
}
