package gmtls

import (
	"crypto/rand"
	"crypto/x509/pkix"
	"math/big"
	"net"
	"os"
	"runtime"
	"testing"
	"time"

	"github.com/tjfoc/gmsm/sm2"
	"github.com/tjfoc/gmsm/x509"
)

// GM server, ClientAuth = RequireAndVerifyClientCert, ClientCAs == nil (= "the system roots").
// The client presents a self-signed, expired certificate that no CA ever certified.
// On GOOS=windows x509.Verify returns the stub systemVerify's (nil, nil) and the handshake completes.
// (Run on Windows; on other systems set C08_SIMULATE_WINDOWS=1 after applying the one-line
// demonstration patch from the README, which makes verify.go take the windows branch.)
func TestWindowsNilClientCAsAcceptsSelfSignedClient(t *testing.T) {
	if runtime.GOOS != "windows" && os.Getenv("C08_SIMULATE_WINDOWS") == "" {
		t.Skip("windows-only branch of x509.Verify")
	}
	mk := func(tmpl, parent *x509.Certificate, signer *sm2.PrivateKey) (*x509.Certificate, *sm2.PrivateKey) {
		k, err := sm2.GenerateKey(rand.Reader)
		if err != nil {
			t.Fatal(err)
		}
		if parent == nil {
			parent, signer = tmpl, k
		}
		der, err := x509.CreateCertificate(tmpl, parent, &k.PublicKey, signer)
		if err != nil {
			t.Fatal(err)
		}
		c, err := x509.ParseCertificate(der)
		if err != nil {
			t.Fatal(err)
		}
		return c, k
	}
	now := time.Now()
	ca, caKey := mk(&x509.Certificate{SerialNumber: big.NewInt(1), Subject: pkix.Name{CommonName: "ca"}, NotBefore: now.Add(-time.Hour), NotAfter: now.Add(time.Hour),
		KeyUsage: x509.KeyUsageCertSign, BasicConstraintsValid: true, IsCA: true}, nil, nil)
	sig, sigKey := mk(&x509.Certificate{SerialNumber: big.NewInt(2), Subject: pkix.Name{CommonName: "s"}, DNSNames: []string{"srv.test"}, NotBefore: now.Add(-time.Hour), NotAfter: now.Add(time.Hour),
		KeyUsage: x509.KeyUsageDigitalSignature}, ca, caKey)
	enc, encKey := mk(&x509.Certificate{SerialNumber: big.NewInt(3), Subject: pkix.Name{CommonName: "e"}, DNSNames: []string{"srv.test"}, NotBefore: now.Add(-time.Hour), NotAfter: now.Add(time.Hour),
		KeyUsage: x509.KeyUsageKeyEncipherment}, ca, caKey)
	rogue, rogueKey := mk(&x509.Certificate{SerialNumber: big.NewInt(4), Subject: pkix.Name{CommonName: "rogue"}, NotBefore: now.Add(-48 * time.Hour), NotAfter: now.Add(-24 * time.Hour),
		KeyUsage: x509.KeyUsageDigitalSignature}, nil, nil)
	pool := x509.NewCertPool()
	pool.AddCert(ca)

	scfg := &Config{GMSupport: &GMSupport{}, ClientAuth: RequireAndVerifyClientCert, // ClientCAs left nil
		Certificates: []Certificate{{Certificate: [][]byte{sig.Raw}, PrivateKey: sigKey}, {Certificate: [][]byte{enc.Raw}, PrivateKey: encKey}}}
	ccfg := &Config{GMSupport: &GMSupport{}, RootCAs: pool, ServerName: "srv.test",
		Certificates: []Certificate{{Certificate: [][]byte{rogue.Raw}, PrivateKey: rogueKey}}}

	a, b := net.Pipe()
	defer a.Close()
	defer b.Close()
	dl := time.Now().Add(5 * time.Second)
	a.SetDeadline(dl)
	b.SetDeadline(dl)
	sc := Server(b, scfg)
	done := make(chan error, 1)
	go func() {
		err := sc.Handshake()
		if err != nil {
			b.Close()
		}
		done <- err
	}()
	cerr := Client(a, ccfg).Handshake()
	serr := <-done
	if cerr == nil && serr == nil {
		t.Fatalf("server with RequireAndVerifyClientCert completed with a self-signed, expired client certificate (verified chains: %v)", sc.ConnectionState().VerifiedChains)
	}
	t.Logf("aborted as required: client=%v server=%v", cerr, serr)
}
