package x509

import (
	"crypto/rand"
	"crypto/x509/pkix"
	"math/big"
	"testing"
	"time"

	"github.com/tjfoc/gmsm/sm2"
)

// On GOOS=windows, (*Certificate).Verify with opts.Roots == nil returns c.systemVerify(&opts)
// BEFORE any validity / host name / chain check (verify.go, "Use Windows's own verification
// and chain building"). systemVerify (cert_pool.go) is a stub that returns (nil, nil).
// This test drives the stub directly (so it fails on every platform) with a certificate that
// is self-signed, not a CA, expired, and for another name.
func TestSystemVerifyStubAcceptsAnything(t *testing.T) {
	k, err := sm2.GenerateKey(rand.Reader)
	if err != nil {
		t.Fatal(err)
	}
	tmpl := &Certificate{
		SerialNumber: big.NewInt(1),
		Subject:      pkix.Name{CommonName: "attacker"},
		DNSNames:     []string{"attacker.example"},
		NotBefore:    time.Now().Add(-48 * time.Hour),
		NotAfter:     time.Now().Add(-24 * time.Hour), // expired
		KeyUsage:     KeyUsageDigitalSignature,
	}
	der, err := CreateCertificate(tmpl, tmpl, &k.PublicKey, k)
	if err != nil {
		t.Fatal(err)
	}
	c, err := ParseCertificate(der)
	if err != nil {
		t.Fatal(err)
	}
	opts := VerifyOptions{DNSName: "victim.example", KeyUsages: []ExtKeyUsage{ExtKeyUsageClientAuth}}
	chains, err := c.systemVerify(&opts) // == what Verify(opts) returns on windows when opts.Roots == nil
	if err == nil {
		t.Fatalf("systemVerify accepted a self-signed, expired, wrong-name certificate (chains=%v, err=nil); "+
			"on GOOS=windows Certificate.Verify returns exactly this when VerifyOptions.Roots == nil", chains)
	}
}
