package sm2_test

// Place in /tmp/wt10/C13/sm2/ and run:  go test -vet=off -count=1 -run TestC13SharedPointXZero ./sm2/
//
// The shared point V = (0, sqrt(b)) is an ordinary finite point of the SM2 curve (b is a square mod p), but
// keyExchange treats "vx == 0 || vy == 0" as "V is the point at infinity" and returns an error instead of
// the key / S1 / S2 that GM/T 0003.3 prescribes.

import (
	"bytes"
	"math/big"
	"testing"

	"github.com/tjfoc/gmsm/sm2"
	"github.com/tjfoc/gmsm/sm3"
)

type pt struct{ x, y *big.Int } // x == nil: infinity

var (
	cv   = sm2.P256Sm2().Params()
	p, n = cv.P, cv.N
	a    = new(big.Int).Sub(cv.P, big.NewInt(3))
	g    = pt{cv.Gx, cv.Gy}
)

func add(u, v pt) pt {
	if u.x == nil {
		return v
	}
	if v.x == nil {
		return u
	}
	var num, den *big.Int
	if u.x.Cmp(v.x) == 0 {
		if new(big.Int).Mod(new(big.Int).Add(u.y, v.y), p).Sign() == 0 {
			return pt{}
		}
		num = new(big.Int).Mul(u.x, u.x)
		num.Mul(num, big.NewInt(3)).Add(num, a)
		den = new(big.Int).Lsh(u.y, 1)
	} else {
		num = new(big.Int).Sub(v.y, u.y)
		den = new(big.Int).Sub(v.x, u.x)
	}
	den.Mod(den, p).ModInverse(den, p)
	l := num.Mul(num, den)
	l.Mod(l, p)
	x := new(big.Int).Mul(l, l)
	x.Sub(x, u.x).Sub(x, v.x).Mod(x, p)
	y := new(big.Int).Sub(u.x, x)
	y.Mul(y, l).Sub(y, u.y).Mod(y, p)
	return pt{x, y}
}

func mul(k *big.Int, u pt) pt {
	r := pt{}
	for i := k.BitLen() - 1; i >= 0; i-- {
		r = add(r, r)
		if k.Bit(i) == 1 {
			r = add(r, u)
		}
	}
	return r
}

func xhat(x *big.Int) *big.Int {
	m := new(big.Int).Lsh(big.NewInt(1), 127)
	return new(big.Int).Add(m, new(big.Int).Mod(x, m))
}

func b32(v *big.Int) []byte { b := v.Bytes(); return append(make([]byte, 32-len(b)), b...) }

func z(id []byte, q pt) []byte {
	h := sm3.New()
	h.Write([]byte{byte(len(id) * 8 >> 8), byte(len(id) * 8)})
	h.Write(id)
	for _, v := range []*big.Int{a, cv.B, cv.Gx, cv.Gy, q.x, q.y} {
		h.Write(b32(v))
	}
	return h.Sum(nil)
}

func priv(d *big.Int) *sm2.PrivateKey {
	q := mul(d, g)
	k := &sm2.PrivateKey{D: d}
	k.Curve, k.X, k.Y = sm2.P256Sm2(), q.x, q.y
	return k
}

func hex(s string) *big.Int { v, _ := new(big.Int).SetString(s, 16); return v }

func TestC13SharedPointXZero(t *testing.T) {
	ida, idb := []byte("A"), []byte("B")
	// A's long-term and ephemeral private keys, B's ephemeral private key: arbitrary
	dA := hex("1234567890ABCDEF1234567890ABCDEF1234567890ABCDEF1234567890ABCDEF")
	rA := hex("0FEDCBA987654321FEDCBA987654321FEDCBA987654321FEDCBA9876543210F")
	rB := hex("4444444444444444444444444444444444444444444444444444444444444444")
	RA, RB := mul(rA, g), mul(rB, g)

	// T = (0, sqrt(b)) is a finite point of the curve
	T := pt{big.NewInt(0), new(big.Int).ModSqrt(cv.B, p)}
	if T.y == nil || !sm2.P256Sm2().IsOnCurve(T.x, T.y) {
		t.Fatal("(0, sqrt b) is not on the curve?")
	}
	// B's long-term public key PB := tA^-1 * T - x2hat*RB, so that V = tA*(PB + x2hat*RB) = T.
	// PB is a point of the (prime order, cyclic) group, i.e. PB = dB*G for some dB in [1, n-1]: (dB, PB) is a key pair.
	tA := new(big.Int).Mul(xhat(RA.x), rA)
	tA.Add(tA, dA).Mod(tA, n)
	m := mul(xhat(RB.x), RB)
	m.y = new(big.Int).Sub(p, m.y)
	PB := add(mul(new(big.Int).ModInverse(tA, n), T), m)
	if !sm2.P256Sm2().IsOnCurve(PB.x, PB.y) {
		t.Fatal("PB is not on the curve")
	}
	if PB.x.Cmp(hex("35b2cb5a940220b06be46a4ab53237d995bc372d69477024d775b7ec28bffdc3")) != 0 {
		t.Fatal("unexpected PB")
	}

	// what GM/T 0003.3 prescribes for A (steps A5-A9)
	V := mul(tA, add(PB, mul(xhat(RB.x), RB)))
	if V.x == nil || V.x.Sign() != 0 {
		t.Fatalf("construction broken: V = %v", V)
	}
	za, zb := z(ida, mul(dA, g)), z(idb, PB)
	kin := bytes.Join([][]byte{b32(V.x), b32(V.y), za, zb, {0, 0, 0, 1}}, nil)
	wantK := sm3.Sm3Sum(kin)[:16]

	pubB := &sm2.PublicKey{Curve: sm2.P256Sm2(), X: PB.x, Y: PB.y}
	rpubB := &sm2.PublicKey{Curve: sm2.P256Sm2(), X: RB.x, Y: RB.y}
	k, _, _, err := sm2.KeyExchangeA(16, ida, idb, priv(dA), pubB, priv(rA), rpubB)
	if err != nil {
		t.Fatalf("KeyExchangeA: error %q, GM/T 0003.3 prescribes K = %x (V = (0, %x) is a finite point)", err, wantK, V.y)
	}
	if !bytes.Equal(k, wantK) {
		t.Fatalf("K = %x, want %x", k, wantK)
	}
}
