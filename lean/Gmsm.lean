-- root of the library: every property module (so that `lake build` checks everything)
import Gmsm.Props.C05
import Gmsm.Props.C04
import Gmsm.Props.C11
import Gmsm.Props.C19
import Gmsm.Props.C12
import Gmsm.Props.C07
import Gmsm.Props.C10
import Gmsm.Props.C03
import Gmsm.Props.C03Alg
import Gmsm.Proofs.ECFormulas
import Gmsm.Props.C01
import Gmsm.Props.C02
import Gmsm.Props.C13
import Gmsm.Props.C14
import Gmsm.Props.C09
import Gmsm.Props.C17
import Gmsm.Props.C16
