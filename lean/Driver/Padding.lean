import Gmsm.Model.Padding
import Gmsm.Model.P7Block
import Gmsm.Spec.SM4
import Gmsm.Spec.Modes
namespace Driver
open Gmsm Model.Padding

def parseScript (s : String) : Option (List (Nat × Bool)) :=
  if s = "-" then some [] else
  (s.splitOn ",").mapM fun f =>
    let e := f.endsWith "E"
    let d := if e then (f.dropEnd 1).toString else f
    d.toNat?.map fun k => (k, e)

def parseNats (s : String) : Option (List Nat) :=
  if s = "-" then some [] else (s.splitOn ",").mapM String.toNat?

/-- `padrd <bs> <data> <script> <reqs>` -/
def padrd (args : List String) : String :=
  match args with
  | [bs, data, script, reqs] =>
    match bs.toNat?, ofHex data, parseScript script, parseNats reqs with
    | some bs, some data, some script, some reqs =>
      let (out, eof) := readAll (newReader ⟨data, script⟩ bs) reqs
      hx out ++ (if eof then " 1" else " 0")
    | _, _, _, _ => "bad-op"
  | _ => "bad-op"

/-- `padwr <bs> <chunk,…>` -/
def padwr (args : List String) : String :=
  match args with
  | [bs, chunks] =>
    match bs.toNat?, (if chunks = "-" then some [] else (chunks.splitOn ",").mapM ofHex) with
    | some bs, some ws =>
      match writeAll bs ws with
      | some out => hx out
      | none => "err"
    | _, _ => "bad-op"
  | _ => "bad-op"

/-- `p7stream <key> <iv> <data> <script> <script2>`: the standard's answer — SM4-CBC of the padded
    stream, and the original data back — whatever the scripts are -/
def p7stream (args : List String) : String :=
  match args with
  | [key, iv, data, _, _] =>
    match ofHex key, ofHex iv, ofHex data with
    | some key, some iv, some data =>
      let p := padStream 16 data
      let ct := (Spec.Modes.cbcEnc (Spec.SM4.encrypt key) iv (Spec.Modes.blocks (p.length / 16) p)).flatten
      hx ct ++ " " ++ hx data
    | _, _, _ => "bad-op"
  | _ => "bad-op"

end Driver

-- the helper loops of bloc_cryptor.go evaluated by their model (Model.P7Block), next to the spec answer ------------
namespace Driver
open Gmsm Model.Padding Model.P7Block

def p7streamModel (args : List String) : String :=
  match args with
  | [key, iv, data, s1, s2] =>
    match ofHex key, ofHex iv, ofHex data, parseScript s1, parseScript s2 with
    | some key, some iv, some data, some s1, some s2 =>
      if key.length ≠ 16 then "bad-op"
      else if h : iv.length = 16 then
        match p7BlockEnc 1024 (sm4CbcEnc key iv) ⟨data, s1⟩ with
        | .error _ => "err"
        | .ok ct =>
          let got := match p7BlockDecrypt 1024 (sm4CbcDec key ⟨iv, h⟩) ⟨ct, s2⟩ with
            | .error _ => hx ct ++ " err"
            | .ok pt => hx ct ++ " " ++ hx pt
          if got = p7stream args then got else "MODEL-SPEC-MISMATCH " ++ got   -- p7stream = the spec's answer
      else "panic"
    | _, _, _, _, _ => "bad-op"
  | _ => "bad-op"

/-- 3DES is not modelled: the same loops and scripts at block size 8 over a toy cipher keyed by the op's key -/
def p7rt8Model (args : List String) : String :=
  match args with
  | [key, iv, data, s1, s2] =>
    match ofHex key, ofHex iv, ofHex data, parseScript s1, parseScript s2 with
    | some key, some iv, some data, some s1, some s2 =>
      if key.length ≠ 24 then "bad-op"
      else if h : iv.length = 8 then
        match roundTrip 1024 (cbcEncMode 8 (toyE 8 key) iv) (cbcDecMode 8 (toyD 8 key) ⟨iv, h⟩) data s1 s2 with
        | .error _ => "err"
        | .ok (ct, pt) =>
          if ct.length ≠ data.length + 8 - data.length % 8 then "ORACLE-FAIL:ct-length"
          else if pt ≠ data then "ORACLE-FAIL:roundtrip" else "ok"
      else "panic"
    | _, _, _, _, _ => "bad-op"
  | _ => "bad-op"

end Driver
