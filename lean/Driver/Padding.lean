import Gmsm.Model.Padding
import Gmsm.Spec.SM4
import Gmsm.Spec.Modes
namespace Driver
open Gmsm Model.Padding

def parseScript (s : String) : Option (List (Nat × Bool)) :=
  if s = "-" then some [] else
  (s.splitOn ",").mapM fun f =>
    let e := f.endsWith "E"
    let d := if e then (f.dropEnd 1).toString else f
    d.toNat?.map fun k => (k, e)

def parseNats (s : String) : Option (List Nat) :=
  if s = "-" then some [] else (s.splitOn ",").mapM String.toNat?

/-- `padrd <bs> <data> <script> <reqs>` -/
def padrd (args : List String) : String :=
  match args with
  | [bs, data, script, reqs] =>
    match bs.toNat?, ofHex data, parseScript script, parseNats reqs with
    | some bs, some data, some script, some reqs =>
      let (out, eof) := readAll (newReader ⟨data, script⟩ bs) reqs
      hx out ++ (if eof then " 1" else " 0")
    | _, _, _, _ => "bad-op"
  | _ => "bad-op"

/-- `padwr <bs> <chunk,…>` -/
def padwr (args : List String) : String :=
  match args with
  | [bs, chunks] =>
    match bs.toNat?, (if chunks = "-" then some [] else (chunks.splitOn ",").mapM ofHex) with
    | some bs, some ws =>
      match writeAll bs ws with
      | some out => hx out
      | none => "err"
    | _, _ => "bad-op"
  | _ => "bad-op"

/-- `p7stream <key> <iv> <data> <script> <script2>`: the standard's answer — SM4-CBC of the padded
    stream, and the original data back — whatever the scripts are -/
def p7stream (args : List String) : String :=
  match args with
  | [key, iv, data, _, _] =>
    match ofHex key, ofHex iv, ofHex data with
    | some key, some iv, some data =>
      let p := padStream 16 data
      let ct := (Spec.Modes.cbcEnc (Spec.SM4.encrypt key) iv (Spec.Modes.blocks (p.length / 16) p)).flatten
      hx ct ++ " " ++ hx data
    | _, _, _ => "bad-op"
  | _ => "bad-op"

end Driver
