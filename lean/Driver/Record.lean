import Gmsm.Model.Record
import Gmsm.Model.ExtractPadding
namespace Driver
open Gmsm Model.Record

def parseSuite : String → Option Suite
  | "cbc" => some .cbc | "gcm" => some .gcm | _ => none

/-- `recwrite <suite> <mac> <key> <iv> <rand> <w1,w2,…>` -/
def recwrite (args : List String) : String :=
  match args with
  | [s, mac, key, iv, rnd, ws] =>
    match parseSuite s, ofHex mac, ofHex key, ofHex iv, ofHex rnd, (ws.splitOn ",").mapM ofHex with
    | some s, some mac, some key, some iv, some rnd, some ws =>
      let w0 : Writer := ⟨⟨s, ⟨mac, key, iv⟩, 0⟩, 0, 0, rnd⟩
      let (recs, _) := ws.foldl (fun (acc : List Bytes × Writer) w =>
        let (r, w') := acc.2.write w; (acc.1 ++ r, w')) ([], w0)
      ",".intercalate (recs.map hx)
    | _, _, _, _, _, _ => "bad-op"
  | _ => "bad-op"

def statusStr : Status → String
  | .eof => "eof" | .ueof => "ueof" | .alert n => s!"alert:{n}" | .remote n => s!"remote:{n}"

/-- `recread <suite> <mac> <key> <iv> <wire> <sent>` -/
def recread (args : List String) : String :=
  match args with
  | [s, mac, key, iv, wire, sent] =>
    match parseSuite s, ofHex mac, ofHex key, ofHex iv, ofHex wire, ofHex sent with
    | some s, some mac, some key, some iv, some wire, some sent =>
      let (got, st) := readAll (wire.length + 1) ⟨s, ⟨mac, key, iv⟩, 0⟩ 0 wire
      let pre := got.isPrefixOf sent
      hx got ++ " " ++ statusStr st ++ (if pre then " 1" else " 0")
    | _, _, _, _, _, _ => "bad-op"
  | _ => "bad-op"

/-- `expad <payload>` : (toRemove, good) as the Go function reports them -/
def expad (args : List String) : String :=
  match args.mapM ofHex with
  | some [p] =>
    let (n, good) := extractPadding p
    let (n2, g2) := Model.ExtractPadding.extractPaddingGo p   -- bit-level transcription of the Go code
    s!"{n} {if good then 255 else 0}" ++ (if n2 = n ∧ g2.toNat = (if good then 255 else 0) then "" else s!" GOMODEL-MISMATCH:{n2},{g2.toNat}")
  | _ => "bad-op"

end Driver
