import Gmsm.Model.Record
import Gmsm.Model.ExtractPadding
namespace Driver
open Gmsm Model.Record

def parseSuite : String → Option Suite
  | "cbc" => some .cbc | "gcm" => some .gcm | _ => none

/-- `recwrite <suite> <mac> <key> <iv> <rand> <w1,w2,…>` -/
def recwrite (args : List String) : String :=
  match args with
  | [s, mac, key, iv, rnd, ws] =>
    match parseSuite s, ofHex mac, ofHex key, ofHex iv, ofHex rnd, (ws.splitOn ",").mapM ofHex with
    | some s, some mac, some key, some iv, some rnd, some ws =>
      let w0 : Writer := ⟨⟨s, ⟨mac, key, iv⟩, 0⟩, 0, 0, rnd⟩
      let (recs, _) := ws.foldl (fun (acc : List Bytes × Writer) w =>
        let (r, w') := acc.2.write w; (acc.1 ++ r, w')) ([], w0)
      ",".intercalate (recs.map hx)
    | _, _, _, _, _, _ => "bad-op"
  | _ => "bad-op"

def statusStr : Status → String
  | .eof => "eof" | .ueof => "ueof" | .alert n => s!"alert:{n}" | .remote n => s!"remote:{n}"

/-- `recread <suite> <mac> <key> <iv> <wire> <sent>` -/
def recread (args : List String) : String :=
  match args with
  | [s, mac, key, iv, wire, sent] =>
    match parseSuite s, ofHex mac, ofHex key, ofHex iv, ofHex wire, ofHex sent with
    | some s, some mac, some key, some iv, some wire, some sent =>
      let (got, st) := readAll (wire.length + 1) ⟨s, ⟨mac, key, iv⟩, 0⟩ 0 wire
      let pre := got.isPrefixOf sent
      hx got ++ " " ++ statusStr st ++ (if pre then " 1" else " 0")
    | _, _, _, _, _, _ => "bad-op"
  | _ => "bad-op"

/-- `recwrites <startseq> <suite> <mac> <key> <iv> <rand> <w1,w2,…>` : the writer's sequence number starts at `startseq` -/
def recwrites (args : List String) : String :=
  match args with
  | [sq, s, mac, key, iv, rnd, ws] =>
    match ofHex sq, parseSuite s, ofHex mac, ofHex key, ofHex iv, ofHex rnd, (ws.splitOn ",").mapM ofHex with
    | some sq, some s, some mac, some key, some iv, some rnd, some ws =>
      let w0 : Writer := ⟨⟨s, ⟨mac, key, iv⟩, os2ip sq⟩, 0, 0, rnd⟩
      let (recs, _) := ws.foldl (fun (acc : List Bytes × Writer) w =>
        let (r, w') := acc.2.write w; (acc.1 ++ r, w')) ([], w0)
      ",".intercalate (recs.map hx)
    | _, _, _, _, _, _, _ => "bad-op"
  | _ => "bad-op"

/-- number of records `readAll` accepted (each advances the sequence number by one): re-run of the model's
    loop that only counts; used to print the receiver's sequence number afterwards -/
def acceptedCount : Nat → Half → Nat → Bytes → Nat
  | 0, _, _, _ => 0
  | fuel+1, h, warn, wire =>
    if wire.length < 5 then 0 else
    let typ := wire.getD 0 0
    let vers := (wire.getD 1 0).toNat * 256 + (wire.getD 2 0).toNat
    let n := (wire.getD 3 0).toNat * 256 + (wire.getD 4 0).toNat
    if vers ≠ 0x0101 ∨ n > 16384 + 2048 ∨ wire.length < 5 + n then 0 else
    match h.decrypt typ ((wire.drop 5).take n) with
    | (none, _) => 0
    | (some data, h') =>
      -- the record passed decryption: the counter has advanced, whatever happens to its content next
      if data.length > 16384 then 1
      else if typ = 23 then 1 + acceptedCount fuel h' (if data.length > 0 then 0 else warn) (wire.drop (5 + n))
      else if typ = 21 ∧ data.length = 2 ∧ data.getD 1 0 ≠ 0 ∧ data.getD 0 0 = 1 ∧ warn + 1 ≤ 5 then
        1 + acceptedCount fuel h' (warn + 1) (wire.drop (5 + n))
      else 1

/-- `recreads <startseq> <suite> <mac> <key> <iv> <wire> <sent>` -/
def recreads (args : List String) : String :=
  match args with
  | [sq, s, mac, key, iv, wire, sent] =>
    match ofHex sq, parseSuite s, ofHex mac, ofHex key, ofHex iv, ofHex wire, ofHex sent with
    | some sq, some s, some mac, some key, some iv, some wire, some sent =>
      let h0 : Half := ⟨s, ⟨mac, key, iv⟩, os2ip sq⟩
      let (got, st) := readAll (wire.length + 1) h0 0 wire
      let pre := got.isPrefixOf sent
      let fin := os2ip sq + acceptedCount (wire.length + 1) h0 0 wire
      hx got ++ " " ++ statusStr st ++ (if pre then " 1 " else " 0 ") ++ hx (seqBytes fin)
    | _, _, _, _, _, _, _ => "bad-op"
  | _ => "bad-op"

/-- `expad <payload>` : (toRemove, good) as the Go function reports them -/
def expad (args : List String) : String :=
  match args.mapM ofHex with
  | some [p] =>
    let (n, good) := extractPadding p
    let (n2, g2) := Model.ExtractPadding.extractPaddingGo p   -- bit-level transcription of the Go code
    s!"{n} {if good then 255 else 0}" ++ (if n2 = n ∧ g2.toNat = (if good then 255 else 0) then "" else s!" GOMODEL-MISMATCH:{n2},{g2.toNat}")
  | _ => "bad-op"

end Driver
