/-
Driver op for harness/c15evil2.go: the verdict of `Model.KeyAgreement.clientKx` on a server whose key-exchange
messages do not fit the selected suite.

  evilkx gm <suite> <curve_type> <named_curve> <point> <sig> <seed>
  evilkx tls <suite> <cert> <skx> <seed>

Printed: error when the model's client aborts with an error (the harness prints the same when the library client's
Handshake returns an error); panic / zero-share / goes-on otherwise — results the harness reports as ORACLE-FAIL, so
any of them is a difference.
-/
import Gmsm.Model.KeyAgreement
namespace Driver.KX
open Model.KeyAgreement

def hex4? (s : String) : Option Nat :=
  if s.length ≠ 4 then none else
  s.toList.foldlM (fun acc ch =>
    if '0' ≤ ch ∧ ch ≤ '9' then some (acc * 16 + (ch.toNat - '0'.toNat))
    else if 'a' ≤ ch ∧ ch ≤ 'f' then some (acc * 16 + (ch.toNat - 'a'.toNat + 10))
    else none) 0

def showOut : Out → String
  | .error => "error"
  | .panic => "panic"
  | .zeroShare => "zero-share"
  | _ => "goes-on"

def keyOf : String → Option KeyType
  | "rsa" => some .rsa
  | "ec" => some .ecNist
  | "sm2" => some .ecSM2
  | _ => none

/-- the point field of the scripted ServerKeyExchange: on which curve it lies, and whether it has 32 bytes -/
def pointOf : String → Option ((Curve → Bool) × Bool)
  | "sm2g" => some (fun c => c == .sm2, false)
  | "p256g" => some (fun c => c == .p256, false)
  | "x32" => some (fun _ => false, true)
  | _ => none

def evilkxOp : List String → String
  | ["gm", suite, ct, id, pt, sig, _] =>
    match hex4? suite, ct.toNat?, hex4? id, pointOf pt with
    | some su, some ct, some id, some (on, l32) =>
      if (su ≠ 0xe011 ∧ su ≠ 0xe051) ∨ ct > 255 ∨ (sig ≠ "good" ∧ sig ≠ "bad") then "bad-op"
      else showOut (clientKx .ecdheGM .ecSM2 (some ⟨ct, id, on, l32, sig = "good"⟩))
    | _, _, _, _ => "bad-op"
  | ["tls", suite, cert, skx, _] =>
    match hex4? suite, keyOf cert with
    | some su, some key =>
      let rsaSuite := su = 0x002f ∨ su = 0x009c
      let ecdhe := su = 0xc02f ∨ su = 0xc02b
      -- the op is defined for certificates whose key type does not fit the suite
      let mismatch :=
        if su = 0x002f ∨ su = 0x009c ∨ su = 0xc02f then key = .ecNist ∨ key = .ecSM2
        else if su = 0xc02b ∨ su = 0xe013 then key = .rsa
        else False
      if ¬ mismatch ∨ (skx ≠ "none" ∧ skx ≠ "p256") ∨ (skx = "p256" ∧ ¬ ecdhe) then "bad-op"
      else if su = 0xe013 then
        -- GMSSL client, ECC suite: the certificates are refused before any key exchange
        if gmCertOk key then "goes-on" else "error"
      else
        -- the scripted ServerKeyExchange: base point of P-256 under named_curve 23; its signature algorithm is of the
        -- kind the certificate's key could produce, which is not the suite's kind, over an arbitrary signature
        let m : Option Skx := if skx = "p256" then some ⟨3, 23, fun c => c == .p256, false, false⟩ else none
        showOut (clientKx (if rsaSuite then .rsa else .ecdhe) key m)
    | _, _ => "bad-op"
  | _ => "bad-op"

end Driver.KX
