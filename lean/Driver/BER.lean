import Gmsm.Model.BER
import Gmsm.Model.PKCS7
import Driver.P7Fix
namespace Driver
open Gmsm Model.BER

def ber2derOp (args : List String) : String :=
  match args with
  | [b] => match ofHex b with
    | some b => (match ber2der b with | .ok o => hx o | .error _ => "err")
    | none => "bad-op"
  | _ => "bad-op"

def p7padOp (args : List String) : String :=
  match args with
  | [bl, b] => match bl.toNat?, ofHex b with
    | some bl, some b => (match pad b bl with | some o => hx o | none => "err")
    | _, _ => "bad-op"
  | _ => "bad-op"

def p7unpadOp (args : List String) : String :=
  match args with
  | [bl, b] => match bl.toNat?, ofHex b with
    | some bl, some b => (match unpad b bl with | some o => hx o | none => "err")
    | _, _ => "bad-op"
  | _ => "bad-op"

def toByteArray (b : Bytes) : ByteArray := ⟨(b.map fun x => x.toNat.toUInt8).toArray⟩
def ofByteArray (b : ByteArray) : Bytes := b.data.toList.map fun x => BitVec.ofNat 8 x.toNat

/-- `bmp <utf8 bytes>`: the generator only sends valid UTF-8, so Go's `range s` yields these scalars -/
def bmpOp (args : List String) : String :=
  match args with
  | [b] => match ofHex b with
    | some b => (match String.fromUTF8? (toByteArray b) with
      | some s => (match bmpString (s.toList.map Char.toNat) with | some o => hx o | none => "err")
      | none => "bad-op")
    | none => "bad-op"
  | _ => "bad-op"

/-- Go's `utf16.Decode`: surrogate pairs combine, lone surrogates become U+FFFD (glue, not modelled) -/
def utf16Decode : List Nat → List Nat
  | [] => []
  | a :: rest =>
    if 0xD800 ≤ a ∧ a < 0xDC00 then
      match rest with
      | b :: rest' =>
        if 0xDC00 ≤ b ∧ b < 0xE000 then (0x10000 + (a - 0xD800) * 1024 + (b - 0xDC00)) :: utf16Decode rest'
        else 0xFFFD :: utf16Decode (b :: rest')
      | [] => [0xFFFD]
    else if 0xDC00 ≤ a ∧ a < 0xE000 then 0xFFFD :: utf16Decode rest
    else a :: utf16Decode rest

def unbmpOp (args : List String) : String :=
  match args with
  | [b] => match ofHex b with
    | some b => (match decodeBMPString b with
      | some us => hx (ofByteArray (String.ofList ((utf16Decode us).map Char.ofNat)).toUTF8)
      | none => "err")
    | none => "bad-op"
  | _ => "bad-op"

end Driver

-- signed-data verdicts: the decision model run over an ideal signature scheme -----------------------------------
namespace Driver
open Gmsm Model.PKCS7

def hashTag : Hash → Byte | .sha1 => 1 | .sha256 => 2 | .sm3 => 3
def algTag : SigAlg → Byte | .sm2WithSM3 => 1 | .sm2WithSHA256 => 2 | .sha1WithRSA => 3 | .sha256WithRSA => 4
def idealSig (k : Nat) (a : SigAlg) (signed : Bytes) : Bytes := BitVec.ofNat 8 k :: algTag a :: signed
def idealP : Prims where
  hash h c := hashTag h :: c
  derAttrs as := as.flatMap fun a => (if a.isMessageDigest then 1 else 0) :: BitVec.ofNat 8 a.value.length :: a.value
  check k a signed sig := sig = idealSig k a signed

def p7vOp (args : List String) : String :=
  match args with
  | [kind, det, t, content] =>
    match t.toNat?, ofHex content with
    | some t, some content =>
      if ¬ (kind ∈ ["sm2a", "sm2b", "sm2na", "sm2nb", "sm2ga", "sm2gb", "sm2gna", "sm2gnb"]) ∨ ¬ (det = "0" ∨ det = "1") ∨ t > 9 then "bad-op" else
      let attrs := ¬ (kind ∈ ["sm2na", "sm2nb", "sm2gna", "sm2gnb"])
      let oid : DigestOID := if t = 6 then .other else if kind ∈ ["sm2b", "sm2nb", "sm2gb", "sm2gnb"] then .sm3Arc else .sm3
      -- g: the signer names the signature algorithm 1.2.156.10197.1.301.1 (GM/T 0010) instead of SM3-with-SM2
      let enc : EncOID := if kind ∈ ["sm2ga", "sm2gb", "sm2gna", "sm2gnb"] then .dsaSM2 else .sm3WithSM2
      let cert (i : Nat) : Cert := ⟨⟨[BitVec.ofNat 8 i], 950 + i⟩, i⟩
      let dig := idealP.hash .sm3 (if t = 1 then 1 :: content else content)
      let ct : Attr := ⟨false, [6, 9]⟩
      let as0 : List Attr := if attrs then (if t = 9 then [ct] else [ct, ⟨true, dig⟩]) else []
      let tbs := if attrs then idealP.derAttrs as0 else content
      let sig0 := idealSig (if t = 2 then 1 else 0) .sm2WithSM3 tbs
      let sig := if t = 5 then sig0.dropLast ++ [sig0.getLastD 0 ^^^ 1] else sig0
      let as := if t = 3 ∧ attrs then as0 ++ [⟨false, [0x17]⟩] else as0
      let content' := if t = 4 ∨ (t = 3 ∧ ¬ attrs) then content ++ [0x55] else content
      let certs := if t = 7 then [cert 2] else [cert 0]
      let signers : List Signer := if t = 8 then [] else [⟨(cert 0).ias, oid, as, enc, sig⟩]
      match verify idealP content' certs signers with
      | .ok _ => "accept"
      | .error _ => "reject"
    | _, _ => "bad-op"
  | _ => "bad-op"

def berDispatch (toks : List String) : Option String :=
  match toks with
  | "ber2der" :: rest => some (ber2derOp rest)
  | "p7pad" :: rest => some (p7padOp rest)
  | "p7unpad" :: rest => some (p7unpadOp rest)
  | "bmp" :: rest => some (bmpOp rest)
  | "unbmp" :: rest => some (unbmpOp rest)
  | "p7env" :: _ => some "ok"
  | "p7sign" :: _ => some "ok"
  | "p7v" :: rest => some (p7vOp rest)
  | "p12" :: _ => some "ok"
  | _ => p7fixDispatch toks   -- p7padmem, p12k (Driver/P7Fix.lean)


end Driver
