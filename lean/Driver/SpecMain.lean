import Driver.Loop
import Driver.SpecOps

def main : IO Unit := Driver.run (fun toks => (Driver.specDispatch toks).getD "bad-op")
