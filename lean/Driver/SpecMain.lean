import Driver.Loop
import Driver.SpecOps
import Driver.SM2Hist

def main : IO Unit := Driver.run (fun toks => ((Driver.specDispatch toks).orElse fun _ => Driver.sm2histDispatch toks).getD "bad-op")
