import Gmsm.Model.X509Sign
namespace Driver
open Model.X509Sign

def famOf : String → Option Family
  | "sm2" => some .sm2 | "rsa" => some .rsa | "ecdsa" => some .ecdsa256 | _ => none

def acc (s a : String) : String :=
  match famOf s with
  | some f => if accepts f (if a = "unset" then "" else a) then "ok" else "reject"
  | none => "bad-op"

def x509signDispatch (toks : List String) : Option String :=
  match toks with
  | ["certrt", s, a, _] => some (acc s a)
  | ["csrrt", s, a, _] => some (acc s a)
  | ["crlrt", s, a, _, _] => some (acc s a)
  | ["dsasigv", _] => some "ok"     -- intrinsic oracle in the harness (DSA branch of checkSignature; Props.C09Sig is its decoding step)
  | ["issue2", _] => some "ok"
  | ["tmplreuse", _] => some "ok"   -- intrinsic oracle in the harness: SM2 signer, algorithm left to default
  | _ => none

end Driver
