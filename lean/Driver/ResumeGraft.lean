import Driver.Resume
import Gmsm.Model.ResumeGraft
namespace Driver
open Model.Resume Model.ResumeGraft

/-- a step of `resumeg`: `g:<srv>:<clientsuites>:<clientcert>:<tamper>` is a connection of a foreign client
    (explicit suite list only); everything else is a step of `resume` -/
def parseGStep (st : String) : Option GStep :=
  match st.splitOn ":" with
  | ["g", srv, su, cc, tamper] =>
    match srv.toNat?, parseSuitesR su, cc.toNat? with
    | some srv, some (some su), some cc => some (.graft ⟨srv % 2, some su, cc, tamper ≠ "n"⟩)
    | _, _, _ => none
  | _ => (parseStep st).map .plain

/-- `resumeg <gm|tls> <cachecap> <step;step;…>`: Model.ResumeGraft.runG -/
def resumegOp (args : List String) : String :=
  match args with
  | [mode, cap, script] =>
    match (if mode = "gm" then some Mode.gm else if mode = "tls" then some Mode.tls else none), cap.toNat?,
          (script.splitOn ";").mapM parseGStep with
    | some m, some cap, some steps =>
      let outs := runG m (initWorld cap) steps
      if outs.isEmpty then "-" else ",".intercalate (outs.map showOutcome)
    | _, _, _ => "bad-op"
  | _ => "bad-op"

def resumeGraftDispatch (toks : List String) : Option String :=
  match toks with
  | "resumeg" :: rest => some (resumegOp rest)
  | _ => none

end Driver
