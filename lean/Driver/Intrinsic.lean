namespace Driver

/-- operations decided by intrinsic oracles of the harness on the real code: the expected line is the
    constant `ok` (anything else the harness prints is an `ORACLE-FAIL:` or `panic` / `hang`) -/
def intrinsicDispatch (toks : List String) : Option String :=
  match toks with
  | "conc" :: _ => some "ok"     -- C20: concurrent scenario under the race detector vs sequential results
  | "dec" :: _ => some "ok"
  -- inputs of recorded findings (KNOWN_FINDINGS.txt): the property demands "ok" (another password is refused; an
  -- issued ticket is resumed or replaced by a full handshake)
  | "pkcs8hmaceq" :: _ => some "ok" | "p12pweq" :: _ => some "ok" | "bigticket" :: _ => some "ok"
  -- C17: a SignedData object with n signers verifies iff no signer's signature was altered (every signer counts)
  | ["p7multi", _, k, _, _] => some (if k == "-" then "ok" else "reject")
  -- C07: a record the transport refused is missing at the peer: what follows it (close_notify) must not authenticate
  | "recwfail" :: _ => some "rejected"
  | "sm2pubv" :: _ => some "ok"   -- C09: objects verify under the issuer's key given as *sm2.PublicKey, and under no other
  | "p12file" :: _ => some "ok"   -- C18: SM2P12Decrypt gives a value or an error, never neither
  | "colddec" :: _ => some "ok"  -- C18: a decoder as the first action of a fresh process: returns, no panic
  | "sm2fresh" :: _ => some "ok" -- C01: n signatures with n fresh random streams: every one verifies, no r twice      -- C18: a decoder on one (mutated) input: returns, within time and memory limits
  | _ => none

end Driver
