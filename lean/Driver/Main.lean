/-
Line-protocol driver: one operation per input line, one canonical result line out.
Core Lean only (must link as a `lean_exe`): imports models and specs, never proofs.
-/
import Driver.Loop
import Driver.SpecOps
import Driver.SM4
import Driver.SM3
import Driver.SM4Modes
import Driver.Padding
import Driver.Record
import Driver.X509
import Driver.SM2Model
import Driver.X509Sign
import Driver.BER
import Driver.Resume
import Driver.ResumeAuth
import Driver.ClientResume
import Driver.Negotiate
import Driver.GMDecode
import Driver.Intrinsic
import Driver.Handshake
import Driver.HandshakeAuth
import Driver.X509Ext
import Driver.GCMBytes
import Driver.GCMTop
import Driver.SessionState
import Driver.SM2Codec
import Driver.P256Limbs
import Driver.TLSMessages
import Driver.HMACModel
import Driver.PKCS12
import Driver.P12MacLen
import Driver.ConnRead
import Driver.X509Names
import Driver.KeyType
import Driver.TemplateReuse
import Driver.CRLIssuer
import Driver.PubHex
import Driver.KexGlue
import Driver.SM2Hist
import Driver.ResumeGraft
open Gmsm

def dispatch (toks : List String) : String :=
  match Driver.specDispatch toks with
  | some r => r
  | none =>
    match Driver.sm2ModelDispatch toks with
    | some r => r
    | none =>
    match Driver.x509signDispatch toks with
    | some r => r
    | none =>
    match Driver.berDispatch toks with
    | some r => r
    | none =>
    match Driver.resumeDispatch toks with
    | some r => r
    | none =>
    match Driver.cliresumeDispatch toks with
    | some r => r
    | none =>
    match Driver.negotiateDispatch toks with
    | some r => r
    | none =>
    match Driver.gmdecodeDispatch toks with
    | some r => r
    | none =>
    match Driver.intrinsicDispatch toks with
    | some r => r
    | none =>
    match Driver.handshakeDispatch toks with
    | some r => r
    | none =>
    match Driver.handshakeAuthDispatch toks with
    | some r => r
    | none =>
    match Driver.x509extDispatch toks with
    | some r => r
    | none =>
    match Driver.gcmBytesDispatch toks with
    | some r => r
    | none =>
    match Driver.gcmTopDispatch toks with
    | some r => r
    | none =>
    match Driver.sessionStateDispatch toks with
    | some r => r
    | none =>
    match Driver.sm2CodecDispatch toks with
    | some r => r
    | none =>
    match Driver.p256LimbsDispatch toks with
    | some r => r
    | none =>
    match Driver.tlsMessagesDispatch toks with
    | some r => r
    | none =>
    match Driver.hmacModelDispatch toks with
    | some r => r
    | none =>
    match Driver.pkcs12Dispatch toks with
    | some r => r
    | none =>
    match Driver.p12MacLenDispatch toks with
    | some r => r
    | none =>
    match Driver.connReadDispatch toks with
    | some r => r
    | none =>
    match Driver.x509NamesDispatch toks with
    | some r => r
    | none =>
    match Driver.keyTypeDispatch toks with
    | some r => r
    | none =>
    match Driver.templateReuseDispatch toks with
    | some r => r
    | none =>
    match Driver.crlIssuerDispatch toks with
    | some r => r
    | none =>
    match Driver.pubHexDispatch toks with
    | some r => r
    | none =>
    match Driver.kexGlueDispatch toks with
    | some r => r
    | none =>
    match Driver.resumeGraftDispatch toks with
    | some r => r
    | none =>
    match Driver.resumeAuthDispatch toks with
    | some r => r
    | none =>
    match Driver.sm2histDispatch toks with
    | some r => r
    | none =>
    match toks with
    | "sm4hist" :: rest => Driver.sm4hist rest
    | "sm3hist" :: rest => Driver.sm3hist rest
    | "sm4mode" :: rest => Driver.sm4mode rest
    | "sm4mseq" :: rest => Driver.sm4mseq rest
    | "sm4ivseq" :: rest => Driver.sm4ivseq rest
    | "padrd" :: rest => Driver.padrd rest
    | "padwr" :: rest => Driver.padwr rest
    | "p7stream" :: rest => Driver.p7streamModel rest
    | "p7rt8" :: rest => Driver.p7rt8Model rest
    | "recwrite" :: rest => Driver.recwrite rest
    | "recread" :: rest => Driver.recread rest
    | "recwrites" :: rest => Driver.recwrites rest
    | "recreads" :: rest => Driver.recreads rest
    | "recreadc" :: rest => Driver.recread rest   -- the receiver has called CloseWrite first: nothing changes
    | "expad" :: rest => Driver.expad rest
    | "chain" :: rest => Driver.chain rest
    | _ => "bad-op"

def main : IO Unit := Driver.run dispatch
