import Gmsm.Model.CertSelect
import Driver.Negotiate
namespace Driver
open Model.CertSelect

/-- names of the certificates of the harness (harness/c06sni.go) by position: 0 signing and 1 encryption certificate
    for sni.test, 2 a second signing certificate for other.test -/
def sniNames : Nat → List Name := fun i => if i = 2 then ["other.test".toList] else ["sni.test".toList]

/-- key usage by position: true = signature -/
def sniSigns : Nat → Bool := fun i => i != 1

/-- `hssni <mode> <static> <map> <sni> <seed>` (harness/c06sni.go): the certificates `Model.CertSelect.select` chooses;
    the GMSSL client completes when position 0 is a signing and position 1 an encryption certificate -/
def hssniOp (args : List String) : String :=
  match args with
  | [mode, static, map, sni, _seed] =>
    let modeO : Option Mode := match mode with
      | "gm" => some .gm | "auto" => some .auto | _ => none
    let certsO : Option (List Nat) := match static with
      | "sn" => some [0, 1] | "sno" => some [0, 1, 2] | _ => none
    let sniO : Option String := match sni with
      | "none" => some "" | "exact" => some "sni.test" | "upper" => some "SNI.TEST" | _ => none
    match modeO, certsO, sniO with
    | some m, some certs, some name =>
      let mapO : Option (Option (Name → Option Nat)) := match map with
        | "none" => some none
        | "built" => some (some (buildNameToCertificate certs sniNames))
        | "wild" => some (some fun n => if n = "*.test".toList then some 1 else none)
        | "unrelated" => some (some fun n => if n = "unrelated.example".toList then some 1 else none)
        | _ => none
      match mapO with
      | some nm =>
        match select m { certs := certs, nameMap := nm, getCert := none, getKE := none } name.toList with
        | some (i, j) => if sniSigns i && !sniSigns j then s!"ok {hex4 0x0101} sign={i} enc={j}" else "fail"
        | none => "fail"
      | none => "bad-op"
    | _, _, _ => "bad-op"
  | _ => "bad-op"

def certSelectDispatch (toks : List String) : Option String :=
  match toks with
  | "hssni" :: rest => some (hssniOp rest)
  | _ => none

end Driver
