/-
Driver ops for "the PKCS#12 integrity check accepts only the whole MAC" (property C17, `Props.C17MacLen`):

  p12macd <saltHex> <pwHex> <iterations> <msgHex> <mode> <k>
        `Model.PKCS12.verifyMac` (SHA-1 / HMAC-SHA1) on a stored digest derived from the right one
        (`deriveDigest`): ok | incorrect-password
  p12mactrunc <seed> <variant> <mode> <k>
        `Model.PKCS12.getSafeContents` on a PFX whose MAC was made over `content0` with the password of the
        bundle (seed % 5 = 0: the empty password, else a non-empty one), whose stored digest is the derived one
        and whose content is `content0` (same) or something else (swap / flip):
        accept | reject:incorrect-password | reject:other
        (the harness does this on a real bundle of pkcs12.Encode; the decision does not depend on the content)

  <mode> <k>, L = the length of the right digest `full`:
    pre k  full.take k          suf k  full.drop (L - k)       ext k  full ++ k zero octets
    dup k  full ++ full.take k  flip k bit 0 of octet k % L flipped
    prez k full.take k ++ zeros up to L octets                 zero k k zero octets
Core Lean only.
-/
import Driver.PKCS12
namespace Driver
open Gmsm Model.PKCS12

def flipAt : Bytes → Nat → Bytes
  | [], _ => []
  | b :: t, 0 => (b ^^^ 1) :: t
  | b :: t, i + 1 => b :: flipAt t i

def deriveDigest (full : Bytes) (mode : String) (k : Nat) : Option Bytes :=
  let l := full.length
  let kc := min k l
  if k > 4096 then none
  else if mode = "pre" then some (full.take kc)
  else if mode = "suf" then some (full.drop (l - kc))
  else if mode = "ext" then some (full ++ List.replicate k 0)
  else if mode = "dup" then some (full ++ full.take kc)
  else if mode = "flip" then some (if l = 0 then full else flipAt full (k % l))
  else if mode = "prez" then some (full.take kc ++ List.replicate (l - kc) 0)
  else if mode = "zero" then some (List.replicate k 0)
  else none

def p12macdOp (args : List String) : String :=
  match args with
  | [salt, pw, it, msg, mode, k] =>
    match ofHex salt, ofHex pw, it.toInt?, ofHex msg, k.toNat? with
    | some salt, some pw, some it, some msg, some k =>
      let m : MacData := ⟨true, [], salt, it⟩
      match computeMac Spec.SHA1.hash hmacSHA1 m msg pw with
      | .ok m' =>
        match deriveDigest m'.digest mode k with
        | some d => p12Verdict (verifyMac Spec.SHA1.hash hmacSHA1 { m' with digest := d } msg pw)
        | none => "bad-op"
      | .error _ => "err"
    | _, _, _, _, _ => "bad-op"
  | _ => "bad-op"

def p12mactruncOp (args : List String) : String :=
  match args with
  | [seed, variant, mode, k] =>
    match seed.toInt?, k.toNat? with
    | some seed, some k =>
      let pw : Bytes := if seed.natAbs % 40 % 5 = 0 then [0, 0] else [0, 0x70, 0, 0x77, 0, 0]
      let content0 : Bytes := [0x30, 0x00]
      let content? : Option Bytes :=
        if variant = "same" then some content0
        else if variant = "swap" then some [0x30, 0x02, 0x30, 0x00]
        else if variant = "flip" then some [0x30, 0x10]
        else none
      let m0 : MacData := ⟨true, [], [1, 2, 3, 4, 5, 6, 7, 8], 1⟩
      match content?, computeMac Spec.SHA1.hash hmacSHA1 m0 content0 pw with
      | some content, .ok m =>
        match deriveDigest m.digest mode k with
        | some d =>
          let pfx : Pfx := ⟨3, true, some content, 6, { m with digest := d }⟩
          match getSafeContents Spec.SHA1.hash hmacSHA1 (fun _ _ => .ok 2) (some pfx) pw with
          | .ok ((_ : Nat), _) => "accept"
          | .error .incorrectPassword => "reject:incorrect-password"
          | .error _ => "reject:other"
        | none => "bad-op"
      | _, _ => "bad-op"
    | _, _ => "bad-op"
  | _ => "bad-op"

def p12MacLenDispatch (toks : List String) : Option String :=
  match toks with
  | "p12macd" :: args => some (p12macdOp args)
  | "p12mactrunc" :: args => some (p12mactruncOp args)
  | _ => none

end Driver
