import Gmsm.Model.X509Ext
namespace Driver
open Gmsm Model.X509Ext

/-- `kuext <ku decimal>`: the value of extension 2.5.29.15 that the creator writes for `template.KeyUsage = ku`
    and the KeyUsage the parser reads back from it: `<value hex> <decimal>`; `none 0` when no extension is written -/
def kuextOp (args : List String) : String :=
  match args with
  | [ku] =>
    match ku.toNat? with
    | some ku =>
      let ext := keyUsageExt ku
      let parsed := match parseKeyUsageExt ext with | some u => toString u | none => "err"
      (match ext with | some v => hx v | none => "none") ++ " " ++ parsed
    | none => "bad-op"
  | _ => "bad-op"

def bit01 : String → Option Bool
  | "0" => some false | "1" => some true | _ => none

/-- `bcext <isCA 0|1> <maxPathLen> <maxPathLenZero 0|1>` (template with BasicConstraintsValid = true):
    `<value hex> <IsCA 0|1> <MaxPathLen> <MaxPathLenZero 0|1>` as parsed back -/
def bcextOp (args : List String) : String :=
  match args with
  | [ca, n, z] =>
    match bit01 ca, n.toInt?, bit01 z with
    | some ca, some n, some z =>
      let v := basicConstraintsExt ⟨ca, n, z⟩
      let b (x : Bool) := if x then "1" else "0"
      (match parseBasicConstraintsExt v with
       | some p => if p.valid then s!"{hx v} {b p.isCA} {p.maxPathLen} {b p.maxPathLenZero}" else s!"{hx v} invalid"
       | none => s!"{hx v} err")
    | _, _, _ => "bad-op"
  | _ => "bad-op"

def x509extDispatch (toks : List String) : Option String :=
  match toks with
  | "kuext" :: rest => some (kuextOp rest)
  | "bcext" :: rest => some (bcextOp rest)
  | _ => none

end Driver
