/-
Driver ops that evaluate `Model.HMAC` (the transcription of crypto/hmac, x509.pbkdf, gmtls.pHash /
prf12(sm3.New) and tls10MAC.MAC over the SM3 object model) — the MODEL, not the specification.
Core Lean only.

  hmacobj <keyhex> <op>…            op = w:<hex> | s:<hex> (Sum with that prefix) | r (Reset)
                                    → the Sum results joined by `,` (`-` if there was no Sum)
  pbkdfx  <pwhex> <salthex> <iter> <keylen>
  phashx  <secrethex> <seedhex> <n>
  prfgmx  <secrethex> <labelhex> <seedhex> <n>
  macx    <keyhex> <seqhex> <hdrhex> <datahex> [<extrahex>|nil] { / <seqhex> <hdrhex> <datahex> [<extrahex>|nil] }
                                    successive MAC calls on one object → results joined by `,`
Empty byte strings are written `-`.
-/
import Gmsm.Model.HMAC
namespace Driver
open Gmsm

def parseHmacOp (s : String) : Option Model.HMAC.Op :=
  if s = "r" then some .reset else
  match s.splitOn ":" with
  | ["w", h] => (ofHex h).map .write
  | ["s", h] => (ofHex h).map .sum
  | _ => none

def hmacobj (args : List String) : String :=
  match args with
  | k :: ops =>
    match ofHex k, ops.mapM parseHmacOp with
    | some k, some ops =>
      let outs := (Model.HMAC.run (Model.HMAC.new k) ops).map hx
      if outs.isEmpty then "-" else ",".intercalate outs
    | _, _ => "bad-op"
  | _ => "bad-op"

def pbkdfx (args : List String) : String :=
  match args with
  | [pw, salt, iter, dk] =>
    match ofHex pw, ofHex salt, iter.toNat?, dk.toNat? with
    | some pw, some salt, some iter, some dk => hx (Model.HMAC.pbkdf pw salt iter dk)
    | _, _, _, _ => "bad-op"
  | _ => "bad-op"

def phashx (args : List String) : String :=
  match args with
  | [secret, seed, n] =>
    match ofHex secret, ofHex seed, n.toNat? with
    | some secret, some seed, some n => hx (Model.HMAC.pHash n secret seed)
    | _, _, _ => "bad-op"
  | _ => "bad-op"

def prfgmx (args : List String) : String :=
  match args with
  | [secret, label, seed, n] =>
    match ofHex secret, ofHex label, ofHex seed, n.toNat? with
    | some secret, some label, some seed, some n => hx (Model.HMAC.prfGM n secret label seed)
    | _, _, _, _ => "bad-op"
  | _ => "bad-op"

/-- split a token list at the `/` tokens -/
def splitSlash : List String → List (List String)
  | [] => [[]]
  | t :: ts =>
    match splitSlash ts with
    | cur :: rest => if t = "/" then [] :: cur :: rest else (t :: cur) :: rest
    | [] => [[t]]

def parseMacCall (toks : List String) : Option Model.HMAC.MacCall :=
  match toks with
  | [s, h, d] =>
    match ofHex s, ofHex h, ofHex d with
    | some s, some h, some d => some ⟨s, h, d, none⟩
    | _, _, _ => none
  | [s, h, d, e] =>
    match ofHex s, ofHex h, ofHex d with
    | some s, some h, some d =>
      if e = "nil" then some ⟨s, h, d, none⟩ else (ofHex e).map fun e => ⟨s, h, d, some e⟩
    | _, _, _ => none
  | _ => none

def macx (args : List String) : String :=
  match args with
  | k :: rest =>
    match ofHex k, (splitSlash rest).mapM parseMacCall with
    | some k, some calls =>
      ",".intercalate ((Model.HMAC.macRun (Model.HMAC.macNew k) calls).map hx)
    | _, _ => "bad-op"
  | _ => "bad-op"

def hmacModelDispatch (toks : List String) : Option String :=
  match toks with
  | "hmacobj" :: args => some (hmacobj args)
  | "pbkdfx" :: args => some (pbkdfx args)
  | "phashx" :: args => some (phashx args)
  | "prfgmx" :: args => some (prfgmx args)
  | "macx" :: args => some (macx args)
  | _ => none

end Driver
