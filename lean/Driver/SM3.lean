import Gmsm.Model.SM3
namespace Driver
open Gmsm

def parseSm3Op (s : String) : Option Model.SM3.Op :=
  if s = "R" then some .reset else
  match s.splitOn ":" with
  | ["W", h] => (ofHex h).map .write
  | ["S", h] => (ofHex h).map .sum
  | ["Sc", h] => (ofHex h).map .sum      -- prefix with spare capacity: same result bytes
  | _ => none

/-- `sm3hist <op>…` : results of the Sum calls of a history on one hash object -/
def sm3hist (args : List String) : String :=
  match args.mapM parseSm3Op with
  | some ops =>
    let outs := (Model.SM3.run Model.SM3.init ops).map toHex
    if outs.isEmpty then "-" else " ".intercalate outs
  | none => "bad-op"

end Driver
