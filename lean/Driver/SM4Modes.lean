import Gmsm.Model.SM4Modes
namespace Driver
open Gmsm Model.SM4Modes

def parseMode : String → Option Mode
  | "ecb" => some .ecb | "cbc" => some .cbc | "cfb" => some .cfb | "ofb" => some .ofb | _ => none

/-- `sm4mode <mode> <0|1> <key> <iv> <in> [cap]` -/
def sm4mode (args : List String) : String :=
  match args with
  | m :: e :: key :: iv :: inp :: _ =>
    match parseMode m, ofHex key, ofHex iv, ofHex inp with
    | some m, some key, some iv, some inp =>
      match helper m key iv inp (e = "1") with
      | .ok out => hx out
      | .nil => "nil"
      | .err => "err"
      | .panic => "panic"
    | _, _, _, _ => "bad-op"
  | _ => "bad-op"

/-- `sm4mseq <mode,e,key,iv,in>…` : every call judged on its own -/
def sm4mseq (args : List String) : String :=
  " ".intercalate (args.map fun a => sm4mode (a.splitOn ","))

/-- `sm4ivseq <mode,e,key,iv,in>…` : `SetIV` refuses an IV that is not 16 bytes long (`rej:`) and the IV in force
    stays; the first IV must be valid -/
def sm4ivseq (args : List String) : String :=
  let step := fun (st : Option String × List String × Bool) (a : String) =>
    match a.splitOn "," with
    | [m, e, key, iv, inp] =>
      let valid := iv.length == 32
      let cur := if valid then some iv else st.1
      match cur, ofHex (if iv == "-" then "" else iv) with
      | some c, some _ => (cur, st.2.1 ++ [(if valid then "" else "rej:") ++ sm4mode [m, e, key, c, inp]], st.2.2)
      | _, _ => (st.1, st.2.1, true)
    | _ => (st.1, st.2.1, true)
  let r := args.foldl step (none, [], false)
  if r.2.2 then "bad-op" else " ".intercalate r.2.1

end Driver
