import Gmsm.Model.SM4Modes
namespace Driver
open Gmsm Model.SM4Modes

def parseMode : String → Option Mode
  | "ecb" => some .ecb | "cbc" => some .cbc | "cfb" => some .cfb | "ofb" => some .ofb | _ => none

/-- `sm4mode <mode> <0|1> <key> <iv> <in> [cap]` -/
def sm4mode (args : List String) : String :=
  match args with
  | m :: e :: key :: iv :: inp :: _ =>
    match parseMode m, ofHex key, ofHex iv, ofHex inp with
    | some m, some key, some iv, some inp =>
      match helper m key iv inp (e = "1") with
      | .ok out => hx out
      | .nil => "nil"
      | .err => "err"
      | .panic => "panic"
    | _, _, _, _ => "bad-op"
  | _ => "bad-op"

/-- `sm4mseq <mode,e,key,iv,in>…` : every call judged on its own -/
def sm4mseq (args : List String) : String :=
  " ".intercalate (args.map fun a => sm4mode (a.splitOn ","))

end Driver
