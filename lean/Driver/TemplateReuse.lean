import Gmsm.Model.TemplateReuse
namespace Driver.TemplateReuse
open Gmsm Model.X509Names Model.TemplateReuse

/-! Line protocol of `Model.TemplateReuse` (`harness/c09tmpl.go` runs the same ops on the real code): one template
object used for several calls in a row.  Also `concglobal …` (harness/c20global.go): scenarios about process-wide
state, judged by the harness on the real code; the property demands `ok`. -/

def allSome {α : Type} : List (Option α) → Option (List α)
  | [] => some []
  | none :: _ => none
  | some a :: rest => (allSome rest).map (a :: ·)

def issueOf (s : String) : Option Issue :=
  match s.splitOn ":" with
  | [sn, p] =>
    match (if sn = "0" then some false else if sn = "1" then some true else none), ofHex p with
    | some sn, some p => some (sn, p)
    | _, _ => none
  | _ => none

/-- `akiseq <template AuthorityKeyId> <sameName:parentSKI>|...` -/
def akiseqOp : List String → String
  | [a, steps] =>
    match ofHex a, allSome ((steps.splitOn "|").map issueOf) with
    | some a, some ps =>
      let r := issueSeq a ps
      ",".intercalate (r.1.map hx) ++ ";tmpl=" ++ hx r.2
    | _, _ => "bad-op"
  | _ => "bad-op"

def isLetters (s : String) : Bool := s.toList.all (fun c => 'a' ≤ c ∧ c ≤ 'z')

/-- `<id><label>` with the labels the op syntax has: 15k, 19b, 17<letters>, <50..127>x -/
def atvOf (s : String) : Option Atv :=
  let ds := s.toList.takeWhile Char.isDigit
  let label := String.ofList (s.toList.dropWhile Char.isDigit)
  match (String.ofList ds).toNat? with
  | none => none
  | some id =>
    if (id = 15 ∧ label = "k") ∨ (id = 19 ∧ label = "b") ∨ (id = 17 ∧ label ≠ "" ∧ isLetters label) ∨
       (50 ≤ id ∧ id < 128 ∧ label = "x") then some ⟨id, label⟩ else none

def attrOf (s : String) : Option Attr :=
  if s = "c" then some ⟨false, [[⟨7, "challenge"⟩]]⟩
  else if s = "E" then some ⟨true, []⟩
  else if s.startsWith "e" ∧ s.length > 1 then
    (allSome (((s.drop 1).toString.splitOn ".").map atvOf)).map (fun set => ⟨true, [set]⟩)
  else none

def attrsOf (s : String) : Option (List Attr) :=
  if s = "-" then some [] else allSome ((s.splitOn ";").map attrOf)

/-- the extensions the template's fields give rise to: subjectAltName first (if any name), then ExtraExtensions -/
def stepOf (s : String) : Option (List Atv) :=
  match s.splitOn "+" with
  | [] => none
  | names :: extras =>
    let san : Option (List Atv) :=
      if names = "-" then some [] else if names ≠ "" ∧ isLetters names then some [⟨17, names⟩] else none
    let xs := allSome (extras.map (fun x => match x.toNat? with
      | some id => if 50 ≤ id ∧ id < 128 then some (⟨id, "x"⟩ : Atv) else none
      | none => none))
    match san, xs with
    | some san, some xs => some (san ++ xs)
    | _, _ => none

def showAttr (a : Attr) : String :=
  if !a.extReq then "c"
  else if a.value.isEmpty then "E"
  else "e" ++ "/".intercalate (a.value.map (fun set =>
    if set.isEmpty then "_" else ".".intercalate (set.map (fun atv => toString atv.typ ++ atv.val))))

def showAttrs (l : List Attr) : String := if l.isEmpty then "-" else ";".intercalate (l.map showAttr)

/-- `csrseq <attrs> <step>|<step>|...` -/
def csrseqOp : List String → String
  | [a, steps] =>
    match attrsOf a, allSome ((steps.splitOn "|").map stepOf) with
    | some attrs, some sts =>
      let r := csrSeq attrs sts
      "|".intercalate (r.1.map showAttrs) ++ "#tmpl=" ++ showAttrs r.2
    | _, _ => "bad-op"
  | _ => "bad-op"

end Driver.TemplateReuse

namespace Driver
def templateReuseDispatch (toks : List String) : Option String :=
  match toks with
  | "akiseq" :: rest => some (TemplateReuse.akiseqOp rest)
  | "csrseq" :: rest => some (TemplateReuse.csrseqOp rest)
  | "concglobal" :: _ => some "ok"   -- C20: process-wide state (recorded findings), see harness/c20global.go
  | _ => none
end Driver
