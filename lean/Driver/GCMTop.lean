/-
Driver ops for the byte-level model of the top level of sm4/sm4_gcm.go (`Model.GCMTop`) over `Spec.SM4`:
`gcmencb <key> <iv> <aad> <pt>` and `gcmdecb <key> <iv> <aad> <ct> <tag>` print exactly what
`gcmenc` / `gcmdec` print, but computed by the byte-slice transcription of `Sm4GCM`.
-/
import Gmsm.Model.GCMTop
import Gmsm.Spec.SM4
namespace Driver
open Gmsm

/-- `gcmencb <key> <iv> <aad> <pt>` : `Sm4GCM(key, iv, pt, aad, true)` : "ct tag", or "err" -/
def gcmencb (args : List String) : String :=
  match args.mapM ofHex with
  | some [key, iv, aad, pt] =>
    match Model.GCMTop.sm4GCMGo Spec.SM4.encrypt key iv pt aad true with
    | some (c, t) => hx c ++ " " ++ hx t
    | none => "err"
  | _ => "bad-op"

/-- `gcmdecb <key> <iv> <aad> <ct> <tag>` : `Sm4GCM(key, iv, ct, aad, false)` : "pt 1" when the recomputed
    tag equals `<tag>`, "pt 0" otherwise (the comparison is the caller's, as in the harness) -/
def gcmdecb (args : List String) : String :=
  match args.mapM ofHex with
  | some [key, iv, aad, ct, tag] =>
    match Model.GCMTop.sm4GCMGo Spec.SM4.encrypt key iv ct aad false with
    | some (p, t) => hx p ++ (if t = tag then " 1" else " 0")
    | none => "err"
  | _ => "bad-op"

def gcmTopDispatch (toks : List String) : Option String :=
  match toks with
  | "gcmencb" :: rest => some (gcmencb rest)
  | "gcmdecb" :: rest => some (gcmdecb rest)
  | _ => none

end Driver
