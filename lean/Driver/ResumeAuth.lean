import Driver.Resume
import Gmsm.Model.ResumeAuth
namespace Driver
open Model.Resume Model.ResumeAuth

def parseItem (s : String) : Option Item :=
  match s.splitOn ":" with
  | [a, cc] => match a.toNat?, cc.toNat? with
    | some a, some cc => if a ≤ 4 ∧ cc ≤ 2 then some ⟨a, cc⟩ else none
    | _, _ => none
  | _ => none

def showReport : Report → String
  | .failed => "E"
  | .completed true k => s!"R:{k}"
  | .completed false k => s!"F:{k}"

/-- `rauth <gm|auto> <same|two|gcfc> <serversuites> <a:cc,…>`: a GMSSL client with one cache slot against a
    GMSSL-only or auto-switch server whose ClientAuth changes from connection to connection while the ticket keys
    stay (the three topologies and the two server modes run the same gate: one model) -/
def rauthOp (args : List String) : String :=
  match args with
  | [smode, topo, su, items] =>
    if !(smode = "gm" || smode = "auto") || !(topo = "same" || topo = "two" || topo = "gcfc") then "bad-op" else
    match parseSuitesR su, (items.splitOn ",").mapM parseItem with
    | some su, some its =>
      let outs := runItems .gm none (world su) its
      if outs.isEmpty then "-" else ",".intercalate (outs.map showReport)
    | _, _ => "bad-op"
  | _ => "bad-op"

def resumeAuthDispatch (toks : List String) : Option String :=
  match toks with
  | "rauth" :: rest => some (rauthOp rest)
  | _ => none

end Driver
