import Gmsm.Model.X509Verify
namespace Driver
open Model.X509

def splitL (s : String) : List String := if s = "-" then [] else s.splitOn "|"
def optNat (s : String) : Option (Option Nat) := if s = "-" then some none else s.toNat?.map some
def str (s : String) : String := if s = "-" then "" else s

/-- canonical text of an IP the way the harness writes it (the harness only uses canonical forms) -/
def canonIP (s : String) : Option String :=
  let t := if s.startsWith "[" && s.endsWith "]" && s.length ≥ 3 then ((s.drop 1).dropEnd 1).toString else s
  if t == "10.1.2.3" || t == "::1" || t == "192.168.0.1" then some t else none

def parseCert (s : String) : Option (Cert × String) :=
  match s.splitOn "," with
  | [id, subj, iss, key, signer, ski, aki, nb, na, bc, ca, mpl, ku, perm, dns, ips, cn, _icn, eku, ueku, crit, pool] =>
    match id.toNat?, subj.toNat?, iss.toNat?, key.toNat?, signer.toNat?, optNat ski, optNat aki, nb.toInt?, na.toInt?, mpl.toInt?, ku.toNat?, (splitL eku).mapM String.toNat? with
    | some id, some subj, some iss, some key, some signer, some ski, some aki, some nb, some na, some mpl, some ku, some eku =>
      some (⟨id, subj, iss, key, signer, ski, aki, nb, na, bc == "1", ca == "1", mpl, ku, splitL perm, splitL dns, splitL ips,
             str cn, eku, ueku == "1", crit == "1", if bc == "v1" then 1 else if bc == "v2" then 2 else 3⟩, pool)
    | _, _, _, _, _, _, _, _, _, _, _, _ => none
  | _ => none

def reasonStr : Reason → String
  | .nameMismatch => "namemismatch" | .expired => "expired" | .notAuthorizedForName => "name"
  | .notAuthorizedToSign => "notca" | .tooManyIntermediates => "pathlen"

def sortStrings (l : List String) : List String := (l.toArray.qsort (· < ·)).toList

/-- `chain <cert;cert;…> <now,dnsName,usages>` -/
def chain (args : List String) : String :=
  match args with
  | [cs, os] =>
    -- times: certificates carry hours, the verification time hours plus an optional ".<nanoseconds>"; everything is
    -- scaled to nanoseconds here (the model compares integers)
    let hourNs : Int := 3600000000000
    let nowOf (s : String) : Option Int :=
      match s.splitOn "." with
      | [h] => h.toInt?.map (· * hourNs)
      | [h, ns] => match h.toInt?, ns.toInt? with
        | some h, some ns => some (h * hourNs + ns)
        | _, _ => none
      | _ => none
    let opts := os.splitOn ","
    let forgedToo := opts.length == 4 && opts.getD 3 "" == "f"
    match (cs.splitOn ";").mapM parseCert, (if opts.length == 3 || forgedToo then some (opts.take 3) else none) with
    | some certs0, some [now, host, usages] =>
      let certs := certs0.map fun (c, p) => ({ c with nb := c.nb * hourNs, na := c.na * hourNs }, p)
      match nowOf now, (splitL usages).mapM String.toNat? with
      | some now, some usages =>
        let roots := (certs.filter fun (_, p) => p == "r" || p == "b" || p == "L").map (·.1)
        let inters := (certs.filter fun (_, p) => p == "i" || p == "b").map (·.1)
        match (certs.filter fun (_, p) => p == "l" || p == "L").map (·.1) with
        | [leaf] =>
          let h := str host
          let ip := canonIP h
          let o : Opts := ⟨now, h, ip.isSome, ip.getD "", usages⟩
          let render (l : Cert) : String :=
            match verify roots inters l o with
            | .ok chains => "ok " ++ ";".intercalate (sortStrings (chains.map fun c => ".".intercalate (c.map toString)))
            | .critical => "err:critical"
            | .leafInvalid r => "err:leaf:" ++ reasonStr r
            | .hostname => "err:hostname"
            | .noChain => "err:nochain"
            | .usage => "err:usage"
          -- the forged copy: another encoding (so it is nobody's pool member), same contents, a signature nobody made
          if forgedToo then render leaf ++ " // " ++ render { leaf with id := leaf.id + 700, signer := 0 } else render leaf
        | _ => "bad-op"
      | _, _ => "bad-op"
    | _, _ => "bad-op"
  | _ => "bad-op"

end Driver
