/-
Driver ops that evaluate `Model.KexGlue` (the transcription of sm2.go's kdf / ZA / keyExchange glue
over the SM3 object model) — the MODEL, not the specification.  Core Lean only.

  kdfx <len> <parthex>…       → hex of the key `,` flag (0/1)            (`panic` if the scan would index past c)
  zax  <uidhex> <xhex> <yhex> → hex of ZA, or `err`
  kexgluex <klen> <idahex> <idbhex> <A|B> <ownX> <ownY> <peerX> <peerY> <ownEphX> <ownEphY>
           <peerEphX> <peerEphY> <vx> <vy> [<dOwn> <rOwn>]
                              → `k,s1,s2` hex, or `err`    (the two trailing scalars are for the Go side only)
Empty byte strings are written `-`; numbers are big-endian hex (`-` = 0).
-/
import Gmsm.Model.KexGlue
namespace Driver
open Gmsm

def kexHexNat (s : String) : Option Nat := (ofHex s).map os2ip

def kdfx (args : List String) : String :=
  match args with
  | len :: parts =>
    match len.toNat?, parts.mapM ofHex with
    | some len, some parts =>
      match Model.KexGlue.kdf len parts with
      | some (k, f) => hx k ++ "," ++ (if f then "1" else "0")
      | none => "panic"
    | _, _ => "bad-op"
  | _ => "bad-op"

def zax (args : List String) : String :=
  match args with
  | [uid, x, y] =>
    match ofHex uid, kexHexNat x, kexHexNat y with
    | some uid, some x, some y =>
      match Model.KexGlue.za x y uid with
      | .ok z => hx z
      | .error _ => "err"
    | _, _, _ => "bad-op"
  | _ => "bad-op"

def kexgluex (args : List String) : String :=
  match args with
  | klen :: ida :: idb :: role :: rest =>
    match klen.toNat?, ofHex ida, ofHex idb, (rest.take 10).mapM kexHexNat with
    | some klen, some ida, some idb, some [ox, oy, px, py, oex, oey, pex, pey, vx, vy] =>
      if role ≠ "A" ∧ role ≠ "B" then "bad-op" else
      match Model.KexGlue.glue klen ida idb (role == "A") (ox, oy) (px, py) (oex, oey) (pex, pey) (vx, vy) with
      | .ok (k, s1, s2) => hx k ++ "," ++ hx s1 ++ "," ++ hx s2
      | .error _ => "err"
    | _, _, _, _ => "bad-op"
  | _ => "bad-op"

def kexGlueDispatch (toks : List String) : Option String :=
  match toks with
  | "kdfx" :: args => some (kdfx args)
  | "zax" :: args => some (zax args)
  | "kexgluex" :: args => some (kexgluex args)
  | _ => none

end Driver
