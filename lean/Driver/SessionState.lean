/-
Driver ops of the session state codec model (`Model.SessionState`, gmtls/ticket.go marshal / unmarshal):

  sstate <hex>                                  -> ok <vers> <suite> <master hex> <certs> <re-marshalled hex> | reject
  sstatem <vers> <suite> <master hex> <certs>   -> <marshalled hex>
  sstalloc <hex>                                -> accept <slots> | reject <slots>   (verdict of `unmarshal`, slots of the
                                                   certificate table it allocated: `allocSlots`; harness/c18ticketalloc.go)

<certs>: `-` for no certificate, otherwise the certificates in hex joined by `,`, an empty certificate
written `.`; the empty byte string is `-` elsewhere; numbers decimal.
-/
import Gmsm.Model.SessionState
namespace Driver
open Gmsm Model.SessionState

def certsField (cs : List Bytes) : String :=
  if cs.isEmpty then "-" else ",".intercalate (cs.map fun c => if c.isEmpty then "." else toHex c)

def parseCertsField (s : String) : Option (List Bytes) :=
  if s = "-" then some [] else
  (s.splitOn ",").mapM fun c => if c = "." then some [] else if c = "" ∨ c = "-" then none else ofHex c

def sstateOp (args : List String) : String :=
  match args with
  | [b] => match ofHex b with
    | some b => (match unmarshal b with
      | some s => s!"ok {s.vers} {s.suite} {hx s.master} {certsField s.certs} {hx (marshal s)}"
      | none => "reject")
    | none => "bad-op"
  | _ => "bad-op"

def sstatemOp (args : List String) : String :=
  match args with
  | [v, su, m, cs] => match v.toNat?, su.toNat?, ofHex m, parseCertsField cs with
    | some v, some su, some m, some cs => if v < 65536 ∧ su < 65536 then hx (marshal ⟨v, su, m, cs⟩) else "bad-op"
    | _, _, _, _ => "bad-op"
  | _ => "bad-op"

def sstallocOp (args : List String) : String :=
  match args with
  | [b] => match ofHex b with
    | some b => (if (unmarshal b).isSome then "accept " else "reject ") ++ toString (allocSlots b)
    | none => "bad-op"
  | _ => "bad-op"

def sessionStateDispatch (toks : List String) : Option String :=
  match toks with
  | "sstate" :: rest => some (sstateOp rest)
  | "sstatem" :: rest => some (sstatemOp rest)
  | "sstalloc" :: rest => some (sstallocOp rest)
  | _ => none

end Driver
