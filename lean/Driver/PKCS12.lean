/-
Driver ops for the PKCS#12 key derivation / integrity model (`Model.PKCS12`), property C17:

  p12kdf <hash> <saltHex> <pwHex> <r> <ID> <size>   pbkdf(hash, u, v, salt, pw, r, ID, size): key hex | panic
        <hash> = sha1 (u = 20, v = 64) | toy (toy hash, u = 20, v = 64) | toy<u>x<v> (toy hash with u output
        bytes, block v); <pw> is the password as pbkdf receives it (already BMP-encoded); <r> a Go int
  p12fill <patternHex> <v>                          fillWithRepeats(pattern, v)
  p12mac <saltHex> <pwHex> <iterations> <msgHex>    computeMac then verifyMac with SHA-1 / HMAC-SHA1:
        <digest hex>:<verdict of verifyMac on it>:<verdict after flipping one bit of the digest>
  p12pbe <3des|rc2> <saltHex> <pwHex> <iterations>  deriveKey:deriveIV of crypto.go
  p12macrule <empty|nonempty> <bmp 0|1> <nil 0|1>   decision of getSafeContents for a bundle whose MAC
        verifies under BMP(password) (bmp = 1) / under the nil password (nil = 1)
Core Lean only.
-/
import Gmsm.Model.PKCS12
import Gmsm.Spec.SHA1
import Gmsm.Spec.HMAC
namespace Driver
open Gmsm Model.PKCS12

/-- the toy hash of harness/c17kdf.go `c17kToy`: `u` bytes, byte k = Σx + (k+1)·x[(11k+60) mod n] + n + k (mod 256) -/
def toyHash (u : Nat) (x : Bytes) : Bytes :=
  let n := x.length
  let s := x.foldl (fun acc b => acc + b.toNat) 0
  (List.range u).map fun k => BitVec.ofNat 8 (s + (k + 1) * (x.getD ((11 * k + 60) % n) 0).toNat + n + k)

/-- hash name → (H, u, v) -/
def p12Hash (name : String) : Option ((Bytes → Bytes) × Nat × Nat) :=
  if name = "sha1" then some (Spec.SHA1.hash, 20, 64)
  else if name = "toy" then some (toyHash 20, 20, 64)
  else if name.startsWith "toy" then
    match (name.drop 3).toString.splitOn "x" with
    | [a, b] => match a.toNat?, b.toNat? with
      | some u, some v => some (toyHash u, u, v)
      | _, _ => none
    | _ => none
  else none

def p12Out (o : Option Bytes) : String := match o with | some k => hx k | none => "panic"

def p12kdfOp (args : List String) : String :=
  match args with
  | [h, salt, pw, r, id, size] =>
    match p12Hash h, ofHex salt, ofHex pw, r.toInt?, id.toNat?, size.toNat? with
    | some (H, u, v), some salt, some pw, some r, some id, some size =>
      p12Out (pbkdfInt H u v salt pw r (BitVec.ofNat 8 id) size)
    | _, _, _, _, _, _ => "bad-op"
  | _ => "bad-op"

def p12fillOp (args : List String) : String :=
  match args with
  | [p, v] =>
    match ofHex p, v.toNat? with
    | some p, some v =>
      -- Go: `(len(pattern)+v-1)/v` panics for v = 0 unless the pattern is empty (early return)
      if v = 0 ∧ p.length ≠ 0 then "panic" else hx (fillWithRepeats p v)
    | _, _ => "bad-op"
  | _ => "bad-op"

def hmacSHA1 : Bytes → Bytes → Bytes := Spec.HMAC.hmac Spec.SHA1.hash

def p12Verdict : Except Err Unit → String
  | .ok () => "ok"
  | .error .incorrectPassword => "incorrect-password"
  | .error .notImplemented => "not-implemented"
  | .error .panic => "panic"
  | .error _ => "err"

def flipFirst : Bytes → Bytes
  | [] => []
  | b :: t => (b ^^^ 1) :: t

def p12macOp (args : List String) : String :=
  match args with
  | [salt, pw, it, msg] =>
    match ofHex salt, ofHex pw, it.toInt?, ofHex msg with
    | some salt, some pw, some it, some msg =>
      let m : MacData := ⟨true, [], salt, it⟩
      match computeMac Spec.SHA1.hash hmacSHA1 m msg pw with
      | .ok m' =>
        hx m'.digest ++ ":" ++ p12Verdict (verifyMac Spec.SHA1.hash hmacSHA1 m' msg pw) ++ ":" ++
          p12Verdict (verifyMac Spec.SHA1.hash hmacSHA1 { m' with digest := flipFirst m'.digest } msg pw)
      | .error _ => "err"
    | _, _, _, _ => "bad-op"
  | _ => "bad-op"

def p12pbeOp (args : List String) : String :=
  match args with
  | [alg, salt, pw, it] =>
    match ofHex salt, ofHex pw, it.toInt? with
    | some salt, some pw, some it =>
      if alg = "3des" then
        p12Out (deriveKey3DES Spec.SHA1.hash salt pw it) ++ ":" ++ p12Out (deriveIV3DES Spec.SHA1.hash salt pw it)
      else if alg = "rc2" then
        p12Out (deriveKeyRC2 Spec.SHA1.hash salt pw it) ++ ":" ++ p12Out (deriveIVRC2 Spec.SHA1.hash salt pw it)
      else "bad-op"
    | _, _, _ => "bad-op"
  | _ => "bad-op"

/-- `p12macrule`: a well-formed PFX whose stored digest is the one that verifies under the flagged
    passwords, run through `Model.PKCS12.getSafeContents` with real SHA-1 / HMAC-SHA1; `rest` returns the
    constant 2 (two safe bags).  The pair (1,1) cannot be realised with HMAC-SHA1 (harness and driver both
    answer `bad-op`); the theorems cover it abstractly. -/
def p12macruleOp (args : List String) : String :=
  match args with
  | [kind, b, n] =>
    let pw? : Option Bytes :=
      if kind = "empty" then some [0, 0] else if kind = "nonempty" then some [0, 0x70, 0, 0x77, 0, 0] else none
    match pw?, b, n with
    | some pw, b, n =>
      if (b ≠ "0" ∧ b ≠ "1") ∨ (n ≠ "0" ∧ n ≠ "1") ∨ (b = "1" ∧ n = "1") then "bad-op"
      else
        let content : Bytes := [0x30, 0x00]
        let salt : Bytes := [1, 2, 3, 4, 5, 6, 7, 8]
        let m0 : MacData := ⟨true, [], salt, 1⟩
        let sealPw : Bytes := if b = "1" then pw else if n = "1" then [] else [0, 0x78, 0, 0]
        match computeMac Spec.SHA1.hash hmacSHA1 m0 content sealPw with
        | .ok m =>
          let pfx : Pfx := ⟨3, true, some content, 6, m⟩
          match getSafeContents Spec.SHA1.hash hmacSHA1 (fun _ _ => .ok 2) (some pfx) pw with
          | .ok (bags, upw) => "accept:" ++ toString (bags : Nat) ++ ":" ++ hx upw
          | .error .incorrectPassword => "reject:incorrect-password:0"
          | .error _ => "reject:other:0"
        | .error _ => "err"
    | none, _, _ => "bad-op"
  | _ => "bad-op"

def pkcs12Dispatch (toks : List String) : Option String :=
  match toks with
  | "p12kdf" :: args => some (p12kdfOp args)
  | "p12fill" :: args => some (p12fillOp args)
  | "p12mac" :: args => some (p12macOp args)
  | "p12pbe" :: args => some (p12pbeOp args)
  | "p12macrule" :: args => some (p12macruleOp args)
  | _ => none

end Driver
