import Gmsm.Model.Negotiate
import Driver.Resume
namespace Driver
open Model.Negotiate Model.Suites

def hex4 (n : Nat) : String :=
  let d (k : Nat) : Char := let x := (n / 16 ^ k) % 16; if x < 10 then Char.ofNat (48 + x) else Char.ofNat (87 + x)
  String.ofList [d 3, d 2, d 1, d 0]

def hsOp (args : List String) : String :=
  match args with
  | [mode, client, cs, ss, pref, auth, cc, _src, _tick, scert, _pay] =>
    let modeO : Option SMode := match mode with
      | "gm" => some .gm | "auto" => some .auto | "tls" => some .tls | "std" => some .tls | _ => none
    let clientO : Option CKind := match client with
      | "gm" => some .gm
      | "tls10" => some (.tls 0x0301) | "tls11" => some (.tls 0x0302) | "tls12" => some (.tls 0x0303)
      | "std10" => some (.tls 0x0301) | "std11" => some (.tls 0x0302) | "std12" => some (.tls 0x0303)
      | _ => none
    match modeO, clientO, parseSuitesR cs, parseSuitesR ss, auth.toNat?, cc.toNat? with
    | some m, some c, some cs, some ss, some a, some cc =>
      match negotiate ⟨m, c, cs, ss, pref = "1", a, cc, if scert = "e" then .ec else .rsa⟩ with
      | .ok v s n => s!"ok {hex4 v} {hex4 s} {n}"
      | .fail => "fail"
    | _, _, _, _, _, _ => "bad-op"
  | _ => "bad-op"

/-- `hsopt <mode> <option> <seed>`: what the configuration demands (harness/c06opt.go). The application's
    VerifyPeerCertificate callback is part of the acceptance decision on either side - on a server it is consulted
    whenever a certificate message was processed, also an empty one; a configuration handed out by GetConfigForClient
    replaces the listener's; an error from it ends the handshake. ALPN: the first protocol of the SERVER's list that the
    client offers, none when there is no common one; the GMSSL ClientHello carries no ALPN extension. -/
def hsoptOp (args : List String) : String :=
  match args with
  | [mode, opt, _seed] =>
    if !(mode ∈ ["gm", "tls", "auto-gm", "auto-tls"]) then "bad-op" else
    let gm := mode = "gm" ∨ mode = "auto-gm"
    if opt ∈ ["vpc-client-reject", "vpc-server-reject", "vpc-server-nocert", "gcfc-strict-nocert", "gcfc-error"] then "fail"
    else if opt ∈ ["vpc-client-accept", "vpc-server-accept", "gcfc-strict-cert", "drsd"] then "ok"
    else match opt.splitOn ":" with
      | ["alpn", c, s] =>
        let lst (x : String) : List String := if x = "-" ∨ x = "" then [] else x.splitOn ","
        let sel := if gm then none else (lst s).find? fun p => (lst c).contains p
        "ok proto=" ++ sel.getD ""
      | _ => "bad-op"
  | _ => "bad-op"

def suitesArg (s : String) : Option (Option (List Suite)) :=
  if s = "default" then some none else parseSuitesR s

def suitesStr (l : List Suite) : String :=
  if l.isEmpty then "none" else "+".intercalate (l.map hex4)

/-- `gmoffer <list|default>`: the cipher suites of the ClientHello of a GMSSL client configured with that
    `CipherSuites`, in order (harness/c06offer.go reads them off the wire) -/
def gmofferOp (args : List String) : String :=
  match args with
  | [cs] => match suitesArg cs with
    | some cs => "offer=" ++ suitesStr (gmOffer cs)
    | none => "bad-op"
  | _ => "bad-op"

/-- `gmpeerpref <list|default> <pref>`: an independent server with preference order <pref> selects the first suite
    of its order that the hello offers; does the client complete its key exchange for that suite? -/
def gmpeerprefOp (args : List String) : String :=
  match args with
  | [cs, pref] => match suitesArg cs, parseSuitesR pref with
    | some cs, some (some pref) =>
      match peerSelect pref (gmOffer cs) with
      | none => "sel=none"
      | some s => match clientMeets (gmOffer cs) s with
        | .proceeds => s!"sel={hex4 s} client=ok"
        | .refusesKx => s!"sel={hex4 s} client=refuses-key-exchange"
        | .unconfigured => s!"sel={hex4 s} client=unconfigured"
    | _, _ => "bad-op"
  | _ => "bad-op"

def negotiateDispatch (toks : List String) : Option String :=
  match toks with
  | "hs" :: rest => some (hsOp rest)
  | "gmoffer" :: rest => some (gmofferOp rest)
  | "gmpeerpref" :: rest => some (gmpeerprefOp rest)
  | "hsopt" :: rest => some (hsoptOp rest)
  | "hsrot" :: rest => some (hsOp rest)   -- three connections with a ticket-key rotation in between: one verdict
  | "hspol" :: rest =>
    -- second connection under another ClientAuth policy (same client, same ticket keys): the verdict is that of a
    -- first connection under that policy
    match rest with
    | [mode, client, cs, ss, pref, _auth, cc, src, tick, scert, pay, auth2] =>
      let v := hsOp [mode, client, cs, ss, pref, auth2, cc, src, tick, scert, pay]
      -- under a policy that does not require a client certificate the number of peer certificates is not compared
      -- (a resumed session may legitimately carry none)
      some (match v.splitOn " " with
        | ["ok", a, b, _] => if auth2 = "0" ∨ auth2 = "1" ∨ auth2 = "3" then s!"ok {a} {b} *" else v
        | _ => v)
    | _ => some "bad-op"
  | _ => none

end Driver
