/-
C15 driver ops: the verdict of `Model.Handshake` on the operation lines of harness/c15.go.

  hsseq <role> <flags> <script>   the endpoint under test E (role) receives the honest stream of its peer with
                                  the script's edits applied; printed: done | error:<alert> | error
  hsflight <role> <flags>         the honest stream towards E
  hsout <role> <flags> <k>        the stream from E to its peer ends after k records of E
  chmod <mode> <kind> <field>     one field of the genuine ClientHello rewritten: verdict and the server's answer
  shmod <kind> <offer> <field>    one field of the genuine ServerHello rewritten: does the client go on, which alert
  shmodv <cmax> <smax> <offer> <field>   the same for a TLS client / server with Config.MaxVersion set (harness/c15strict.go)
  shticket <kind>                        a session_ticket extension added to the ServerHello for a client that offered none
  chext <mode> <kind> <ext> <body>       the body of one extension of the genuine ClientHello replaced: does the server's
                                         parser take it (`Model.TLSMessages.chExtension`)

The translation script -> event sequence is the only glue: an honest stream is a list of flights (the peer
sends a flight once E has answered the previous one), items are numbered across flights, and each edit maps to
events as documented at `itemEvents` / `insEvent`.
-/
import Gmsm.Model.Handshake
import Gmsm.Model.HandshakeSends
import Gmsm.Model.TLSMessages
import Driver.KeyAgreement
namespace Driver.HS
open Model.Handshake

structure Edit where
  op : String
  idx : Nat
  name : String := ""
  n : Nat := 1

def hsNames : List (String × Msg) :=
  [("hreq", .helloRequest), ("ch", .clientHello), ("sh", .serverHello), ("nst", .newSessionTicket),
   ("cert", .certificate), ("skx", .serverKeyExchange), ("skx0", .serverKeyExchange), ("creq", .certificateRequest), ("shd", .serverHelloDone),
   ("cv", .certificateVerify), ("ckx", .clientKeyExchange), ("fin", .finishedBad), ("status", .certificateStatus),
   ("npn", .nextProtocol), ("unk", .unknownType)]

/-- inserted records -/
def insNames : List (String × Msg) :=
  [("ccs", .ccs), ("badccs", .badCcs), ("appdata", .appData), ("emptyapp", .appData), ("warn", .warningAlert), ("fatal", .fatalAlert),
   ("closenotify", .closeNotify), ("badalert", .badAlert), ("empty", .emptyHandshake), ("unkrec", .unknownRecord),
   ("bigrec", .oversizedRecord), ("bigmsg", .oversizedMsg), ("frag", .fragment), ("malformed", .malformed),
   ("badvers", .wrongVersionRecord)]

def parseEdit (e : String) : Option Edit :=
  match e.splitOn ":" with
  | [op, i] => if op ∈ ["drop", "dup", "swap", "eof", "trail", "join"] then i.toNat?.map (⟨op, ·, "", 1⟩) else none
  | [op, i, a] =>
    match i.toNat? with
    | none => none
    | some i =>
      if op = "retype" then (if (hsNames.lookup a).isSome then some ⟨op, i, a, 1⟩ else none)
      else if op = "ins" then (if (hsNames.lookup a).isSome ∨ (insNames.lookup a).isSome then some ⟨op, i, a, 1⟩ else none)
      else if op = "trunc" then a.toNat?.map (fun _ => ⟨op, i, "", 1⟩)
      else if op = "split" then (match a.toNat? with | some k => if 1 ≤ k ∧ k ≤ 3 then some ⟨op, i, "", 1⟩ else none | none => none)
      else none
  | [op, i, a, b] =>
    match i.toNat? with
    | none => none
    | some i =>
      if op = "ins" then
        (match b.toNat? with
         | some n => if ((hsNames.lookup a).isSome ∨ (insNames.lookup a).isSome) ∧ 1 ≤ n ∧ n ≤ 200 then some ⟨op, i, a, n⟩ else none
         | none => none)
      else if op = "trunc" then (if b = "fix" ∧ a.toNat?.isSome then some ⟨op, i, "", 1⟩ else none)
      else none
  | [op, i, _, _, _] => if op = "len" then i.toNat?.map (⟨op, ·, "", 1⟩) else none
  | _ => none

def parseScript (s : String) : Option (List Edit) :=
  if s = "-" then some [] else (s.splitOn ",").mapM parseEdit

-- roles ------------------------------------------------------------------------------------------------------

structure Flags where
  cert : Bool := false
  ticket : Bool := false
  resume : Bool := false
  tls : Bool := false
  gm : Bool := false
  rsa : Bool := false   -- the TLS client offers an RSA key-transport suite only: no ServerKeyExchange

def parseFlags (s : String) : Option Flags :=
  if s = "-" then some {} else
  (s.splitOn "+").foldlM (fun (f : Flags) x =>
    if x = "cert" then some { f with cert := true } else if x = "ticket" then some { f with ticket := true }
    else if x = "resume" then some { f with resume := true } else if x = "tls" then some { f with tls := true }
    else if x = "gm" then some { f with gm := true }
    else if x = "rsa" then some { f with rsa := true }
    else if x = "nist" then some f   -- the client offers P-256 only: no effect on the message automaton
    else if x = "reneg" then some f  -- Config.Renegotiation set: concerns what follows the handshake, not the handshake
    else none) {}

def isClient (role : String) : Bool := role = "gmclient" ∨ role = "tlsclient"
def validRole (role : String) : Bool := role ∈ ["gmserver", "gmclient", "tlsserver", "tlsclient", "autoserver"]

def cfgOf (role : String) (f : Flags) : Cfg :=
  let gm := role = "gmserver" ∨ role = "gmclient" ∨ (role = "autoserver" ∧ ¬ f.tls)
  if isClient role then
    { server := false, gm := gm, resume := f.resume, reqCert := false, peerCert := false,
      ticket := f.ticket && !f.resume, ocsp := false, skx := !(f.rsa && role = "tlsclient"), npn := false }
  else
    { server := true, gm := gm, resume := f.resume, reqCert := f.cert, peerCert := f.cert,
      ticket := false, ocsp := false, skx := true, npn := false }

/-- honest stream towards E, by flights (harness: `c15Flight`) -/
def flightsOf (role : String) (f : Flags) : List (List Msg) :=
  if isClient role then
    if f.resume then [[.serverHello, .ccs, .finished]] else
    [[.serverHello, .certificate] ++ (if f.rsa && role = "tlsclient" then [] else [.serverKeyExchange]) ++
       (if f.cert then [.certificateRequest] else []) ++ [.serverHelloDone],
     (if f.ticket then [.newSessionTicket] else []) ++ [.ccs, .finished]]
  else
    if f.resume then [[.clientHello], [.ccs, .finished]] else
    [[.clientHello],
     (if f.cert then [.certificate] else []) ++ [.clientKeyExchange] ++ (if f.cert then [.certificateVerify] else []) ++ [.ccs, .finished]]

def peerRole (role : String) (f : Flags) : String :=
  if role = "gmclient" then "gmserver" else if role = "gmserver" then "gmclient"
  else if role = "tlsclient" then "tlsserver" else if role = "tlsserver" then "tlsclient"
  else if f.tls then "tlsclient" else "gmclient"

-- script -> events -------------------------------------------------------------------------------------------

/-- an event before the cipher-state pass: `prot` marks a genuine record protected under the new keys -/
structure PE where
  m : Msg
  prot : Bool := false

def isHsItem (m : Msg) : Bool := m != .ccs && m != .finished

/-- `ins:i:<name>[:n]`: n copies of a handshake message of the named type (well-formed, with a plausible
    body; a Finished carries arbitrary verify_data) or of the named record -/
def insEvents (es : List Edit) (i : Nat) : List PE :=
  (es.filter (fun e => e.op = "ins" ∧ e.idx = i)).flatMap fun e =>
    match hsNames.lookup e.name, insNames.lookup e.name with
    | some m, _ => List.replicate e.n ⟨m, false⟩
    | none, some m => List.replicate e.n ⟨m, false⟩
    | none, none => []

/-- the item itself.  retype: the same bytes under another type byte (event: a message of that type);
    trunc / len: the body no longer matches its length fields (event: malformed — whether the parser notices is
    not decided here, see `tainted`); split: the message arrives in two records; trail: its record carries the
    first bytes of another message; join: it shares a record with the next message (no change of events). -/
def itemEvents (es : List Edit) (i : Nat) (m : Msg) : List PE :=
  if !isHsItem m then [⟨m, m == .finished⟩] else
  let mine := es.filter (·.idx = i)
  let m1 := match (mine.filter (·.op = "retype")).getLast? with
    | some e => (hsNames.lookup e.name).getD m
    | none => m
  let m2 := if mine.any (fun e => e.op = "trunc" ∨ e.op = "len") then Msg.malformed else m1
  if mine.any (·.op = "join") then [⟨m2, false⟩]
  else if mine.any (·.op = "split") then [⟨.fragment, false⟩, ⟨m2, false⟩]
  else if mine.any (·.op = "trail") then [⟨m2, false⟩, ⟨.trailing, false⟩]
  else [⟨m2, false⟩]

def structural (es : List Edit) (i : Nat) : String :=
  if es.any (fun e => e.op = "eof" ∧ e.idx = i) then "eof" else
  match es.find? (fun e => e.idx = i ∧ (e.op = "drop" ∨ e.op = "dup" ∨ e.op = "swap")) with
  | some e => e.op
  | none => ""

/-- the events of one flight; the flag tells that the script ended the stream -/
def flightEvents (es : List Edit) (staleHello : Bool) : List (Nat × Msg) → List PE × Bool
  | [] => ([], false)
  | (i, m) :: rest =>
    let ins := insEvents es i
    match structural es i with
    | "eof" => (ins, true)
    | "drop" => let (r, c) := flightEvents es staleHello rest; (ins ++ r, c)
    | "dup" =>
      let (r, c) := flightEvents es staleHello rest
      -- a TLS client writes its hello in records of version 0x0301; the copy reaches a server that has since
      -- fixed the connection's version
      let second := if staleHello ∧ m = .clientHello then [⟨.wrongVersionRecord, false⟩] else itemEvents es i m
      (ins ++ itemEvents es i m ++ second ++ r, c)
    | "swap" =>
      match rest with
      | [] => (ins, false)            -- held for an item that never comes
      | (j, m2) :: rest' =>
        if structural es j = "eof" then (ins ++ insEvents es j, true) else
        let (r, c) := flightEvents es staleHello rest'
        (ins ++ insEvents es j ++ itemEvents es j m2 ++ itemEvents es i m ++ r, c)
    | _ => let (r, c) := flightEvents es staleHello rest; (ins ++ itemEvents es i m ++ r, c)

/-- what becomes of an event when E's reading direction is under the new keys and the record is not: the checks
    on the record header (end of stream, size, version) come first, then decryption fails -/
def unprotected (m : Msg) : Msg :=
  if m = .eof ∨ m = .oversizedRecord ∨ m = .wrongVersionRecord then m
  else if m = .ccs ∨ m = .badCcs ∨ m = .appData ∨ m = .unknownRecord then .badRecordOther
  else .badRecord

/-- Cipher state of E's reading direction: before E has been shown a ChangeCipherSpec a protected record is
    noise in a handshake record; after the first one, only the genuine protected record that immediately follows
    decrypts — everything else fails the MAC. -/
def cipherPass : Option Nat → List PE → List Msg
  | _, [] => []
  | none, pe :: r =>
    if pe.m = .ccs then .ccs :: cipherPass (some 0) r
    else (if pe.prot then Msg.malformed else pe.m) :: cipherPass none r
  | some n, pe :: r =>
    (if n = 0 ∧ pe.prot then pe.m else unprotected pe.m) :: cipherPass (some (n + 1)) r

def number (flights : List (List Msg)) : List (List (Nat × Msg)) :=
  let rec go (k : Nat) : List (List Msg) → List (List (Nat × Msg))
    | [] => []
    | f :: fs => (List.range f.length).zip f |>.map (fun (i, m) => (k + i, m)) |> (· :: go (k + f.length) fs)
  go 0 flights

/-- edits that change the bytes of handshake messages E hashes, so that E's transcript differs from its peer's -/
def taints (e : Edit) : Bool :=
  e.op ∈ ["drop", "dup", "swap", "retype", "trunc", "len"] ||
  (e.op = "ins" && ((hsNames.lookup e.name).isSome || e.name ∈ ["malformed", "bigmsg", "frag"]))

/-- The whole stream E sees.  A later flight is sent only if E has answered the previous one, i.e. the
    automaton stands where the honest flight would have left it; if by then E's transcript differs from the
    peer's (`taints`), the peer does not accept E's answer: a client E is sent a fatal alert instead of the
    last flight, a server E receives a Finished that does not verify.  The stream always ends (`eof`). -/
def streamGo (c : Cfg) (es : List Edit) : List PE → List Msg → Nat → List (List (Nat × Msg)) → List PE
  | acc, _, _, [] => acc
  | acc, hon, start, f :: fs =>
    -- has E answered the flights so far?  (the first flight does not wait for anything)
    let answered := hon.isEmpty ||
      (match run c (init c) (cipherPass none acc), run c (init c) hon with
       | .cont s, .cont s' => s.phase == s'.phase
       | _, _ => false)
    if !answered then acc else
    let tainted := !hon.isEmpty && es.any (fun e => taints e && e.idx < start)
    let (evs, closed) := flightEvents es (c.server && !c.gm) f
    let evs' : List PE :=
      if tainted then
        (if !c.server && !c.resume then [⟨.fatalAlert, false⟩]
         else evs.map (fun pe => if pe.m = .finished then { pe with m := .finishedBad } else pe))
      else evs
    if closed then acc ++ evs' else streamGo c es (acc ++ evs') (hon ++ f.map (·.2)) (start + f.length) fs

def streamOf (c : Cfg) (flights : List (List Msg)) (es : List Edit) : List Msg :=
  cipherPass none (streamGo c es [] [] 0 (number flights)) ++ [.eof]

def byteAltering (es : List Edit) : Bool := es.any (fun e => e.op = "trunc" ∨ e.op = "len")

def verdict (c : Cfg) (evs : List Msg) (plain : Bool) : String :=
  match runAt c (init c) evs with
  | (.done, _) => "done"
  | (.error a, s) =>
    if plain then "error" else
    match a.code with
    | none => "error:-"
    | some n => if outEncrypted c s.phase then "error:enc" else s!"error:{n}"
  | (.cont _, _) => "waiting"

def hsseqOp (args : List String) : String :=
  match args with
  | [role, flags, script] =>
    match parseFlags flags, parseScript script with
    | some f, some es =>
      if !validRole role then "bad-op" else
      let c := cfgOf role f
      verdict c (streamOf c (flightsOf role f) es) (byteAltering es)
    | _, _ => "bad-op"
  | _ => "bad-op"

def itemName (m : Msg) : String :=
  if m = .finished then "enc" else if m = .ccs then "ccs" else
  match hsNames.find? (·.2 = m) with
  | some (n, _) => n
  | none => "?"

def hsflightOp (args : List String) : String :=
  match args with
  | [role, flags] =>
    match parseFlags flags with
    | some f =>
      if !validRole role then "bad-op" else
      let c := cfgOf role f
      let fl := flightsOf role f
      -- the honest stream used by this driver is `sends (peer c')` of Model.HandshakeSends, about which
      -- Props.C15Complete proves honest_pair_completes (c' = c with the client's view of whether a certificate
      -- is requested); a difference would show here, against what the real peer wrote
      let c' := if isClient role then { c with reqCert := f.cert } else c
      let tie := if fl.flatten = sends (peer c') then "" else " SENDS-MISMATCH"
      verdict c (streamOf c fl []) false ++ " " ++ ",".intercalate ((sends (peer c')).map itemName) ++ tie
    | none => "bad-op"
  | _ => "bad-op"

/-- `hsout`: E's peer needs all of E's records that precede E's last read; E's own final flight (a server after
    a full handshake, a client after a resumed one) is written after that -/
def hsoutOp (args : List String) : String :=
  match args with
  | [role, flags, k] =>
    match parseFlags flags, k.toNat? with
    | some f, some k =>
      if !validRole role then "bad-op" else
      let c := cfgOf role f
      let written := flightsOf (peerRole role f) f     -- what E writes is what its peer reads
      let endsWriting := (c.server && !c.resume) || (!c.server && c.resume)
      let needed := if endsWriting then written.dropLast.flatten.length else written.flatten.length
      if k ≥ needed then "done" else "error:-"
    | _, _ => "bad-op"
  | _ => "bad-op"

-- ClientHello rewrites ---------------------------------------------------------------------------------------

def hexNat? (s : String) : Option Nat :=
  s.toList.foldlM (fun acc ch =>
    if '0' ≤ ch ∧ ch ≤ '9' then some (acc * 16 + (ch.toNat - '0'.toNat))
    else if 'a' ≤ ch ∧ ch ≤ 'f' then some (acc * 16 + (ch.toNat - 'a'.toNat + 10))
    else none) 0

def hexList? (s : String) (width : Nat) : Option (List Nat) :=
  if s = "-" then some [] else
  (s.splitOn ".").mapM fun x => if x.length = width then hexNat? x else none

def hex4 (n : Nat) : String :=
  let d (k : Nat) : Char := (Nat.toDigits 16 ((n / 16 ^ k) % 16)).headD '0'
  String.ofList [d 3, d 2, d 1, d 0]

/-- the genuine hello of a gmtls client: GMSSL (`makeClientHelloGM`) or TLS (`makeClientHello`, default suites) -/
def genuineHello (kind : String) : Nat × List Nat × List Nat :=
  if kind = "gm" then (0x0101, [0xe013, 0xe053, 0xe011, 0xe051], [0])
  else (0x0303, [0xcca8, 0xcca9, 0xc02f, 0xc030, 0xc02b, 0xc02c, 0xc013, 0xc009, 0xc014, 0xc00a, 0x009c, 0x009d, 0x002f, 0x0035,
                 0xc012, 0x000a], [0])

def chmodOp (args0 : List String) : String :=
  -- optional 4th argument lim:<min>:<max>: the server's Config.MinVersion / MaxVersion (0000 = unset)
  let lim? : Option (Option (Nat × Nat)) := match args0 with
    | [_, _, _, l] => (match l.splitOn ":" with
        | ["lim", a, b] => (match hexList? a 4, hexList? b 4 with
            | some [x], some [y] => some (some (x, y)) | _, _ => none)
        | _ => none)
    | _ => some none
  match lim? with
  | none => "bad-op"
  | some lim =>
  let (lo, hi) := match lim with | some (x, y) => (cfgMin x, cfgMax y) | none => (cfgMin 0, cfgMax 0)
  match args0.take 3 with
  | [mode, kind, field] =>
    let md : Option Mode := if mode = "gm" then some .gmOnly else if mode = "auto" then some .auto
      else if mode = "tls" then some .tlsOnly else none
    match md, field.splitOn ":" with
    | some md, [what, val] =>
      if ¬ (kind = "gm" ∨ kind = "tls") then "bad-op" else
      let (v0, s0, c0) := genuineHello kind
      let new : Option (Nat × List Nat × List Nat) :=
        if what = "vers" then (match hexList? val 4 with | some [v] => some (v, s0, c0) | _ => none)
        else if what = "suites" then (hexList? val 4).map (fun s => (v0, s, c0))
        else if what = "comp" then (hexList? val 2).map (fun cs => (v0, s0, cs))
        else none
      match new with
      | none => "bad-op"
      | some (v, s, cs) =>
        let changed := (v, s, cs) ≠ (v0, s0, c0)
        let ans := if lim.isSome then helloAnswerLim lo hi md (kind = "tls") v s cs else helloAnswer md (kind = "tls") v s cs
        let shown := match ans with
          | .reject => "reject" | .failure => "nosuite" | .fallback => "alert:86"
          | .serverHello w su => s!"sh:{hex4 w}:{hex4 su}"
        -- an unaltered hello of the kind the server speaks completes; an altered one never does: either the
        -- server refuses it, or the two transcripts differ and the Finished check fails
        let completes := !changed && (match ans with
          | .serverHello w _ => if lim.isSome then clientVersionOk (kind = "gm") w else true
          | _ => false)
        (if completes then "done" else "error") ++ " " ++ shown
    | _, _ => "bad-op"
  | _ => "bad-op"

/-- `gmvers <gm|auto> <client_version hhhh> <min hhhh>:<max hhhh>`: a GMSSL peer that accepts whatever version the
    ServerHello carries (so nothing but the server stops the handshake) against a GMSSL-only / auto-switch server
    with the given `Config.MinVersion` / `MaxVersion` (0000: unset).  The hello is otherwise the genuine GMSSL hello;
    the server completes iff it answers with a ServerHello from the GMSSL code, which `dispatchLim` allows at
    version 0x0101 only (`Props.C15Limits.gm_path_version`). -/
def gmversOp (args : List String) : String :=
  match args with
  | [mode, vs, lim] =>
    let md : Option Mode := if mode = "gm" then some .gmOnly else if mode = "auto" then some .auto else none
    match md, hexList? vs 4, lim.splitOn ":" with
    | some md, some [v], [a, b] =>
      (match hexList? a 4, hexList? b 4 with
      | some [x], some [y] =>
        let (_, s0, c0) := genuineHello "gm"
        match helloAnswerLim (cfgMin x) (cfgMax y) md false v s0 c0 with
        | .reject => "error reject"
        | .failure => "error nosuite"
        | .fallback => "error alert:86"
        | .serverHello w su =>
          -- a ServerHello comes from the GMSSL code (the hello lists GM suites only); the peer cooperates
          (if w = versionGMSSL then "done" else "error") ++ s!" sh:{hex4 w}:{hex4 su}"
      | _, _ => "bad-op")
    | _, _, _ => "bad-op"
  | _ => "bad-op"

/-- `shmod <gm|tls> <offer|-> <vers:hhhh | suite:hhhh | comp:hh>`: the client is configured with the offered
    suites (`-`: the defaults); the genuine ServerHello is what a gmtls server of the same kind answers to its
    hello (`helloAnswer`); one field of it is rewritten.  rejected:<alert> = the client aborts on the hello
    (`clientHelloCheck`); otherwise it goes on, and completes only if nothing was changed. -/
def shmodOp (args : List String) : String :=
  match args with
  | [kind, offer, field] =>
    match hexList? offer 4, field.splitOn ":" with
    | some cfg, [what, val] =>
      if ¬ (kind = "gm" ∨ kind = "tls") then "bad-op" else
      let gm := kind = "gm"
      let (v0, dflt, _) := genuineHello kind
      let hello := helloSuites gm (if offer = "-" then dflt else cfg)
      match helloAnswer (if gm then .gmOnly else .tlsOnly) (!gm) v0 hello [0] with
      | .serverHello w0 s0 =>
        let new : Option (Nat × Nat × Nat) :=
          if what = "vers" then (match hexList? val 4 with | some [v] => some (v, s0, 0) | _ => none)
          else if what = "suite" then (match hexList? val 4 with | some [s] => some (w0, s, 0) | _ => none)
          else if what = "comp" then (match hexList? val 2 with | some [c] => some (w0, s0, c) | _ => none)
          else none
        match new with
        | none => "bad-op"
        | some (v, su, cm) =>
          match clientHelloCheck gm hello v su cm with
          | .reject a => "rejected:" ++ (match a.code with | some n => toString n | none => "-")
          | .accept => if (v, su, cm) = (w0, s0, 0) then "done" else "accepted-error"
      | _ => if (what = "vers" ∨ what = "suite" ∨ what = "comp") then "nohello" else "bad-op"
    | _, _ => "bad-op"
  | _ => "bad-op"

/-- `shmodv <cmax> <smax> <offer|-> <vers:hhhh | suite:hhhh | both:vvvv.ssss>`: a TLS client whose
    `Config.MaxVersion` is cmax (0000: unset) and a TLS server whose `Config.MaxVersion` is smax.  The client's
    hello carries `maxVersion()` and the suites of `helloSuitesAt`; the genuine ServerHello is `helloAnswerLim`
    on it; the client's verdict on the rewritten one is `clientHelloCheckLim`. -/
def shmodvOp (args : List String) : String :=
  match args with
  | [cmax, smax, offer, field] =>
    match hexList? cmax 4, hexList? smax 4, hexList? offer 4, field.splitOn ":" with
    | some [cm], some [sm], some cfg, [what, val] =>
      let (_, dflt, _) := genuineHello "tls"
      let chi := cfgMax cm
      let hello := helloSuitesAt chi false (if offer = "-" then dflt else cfg)
      match helloAnswerLim (cfgMin 0) (cfgMax sm) .tlsOnly true chi hello [0] with
      | .serverHello w0 s0 =>
        let new : Option (Nat × Nat) :=
          if what = "vers" then (match hexList? val 4 with | some [v] => some (v, s0) | _ => none)
          else if what = "suite" then (match hexList? val 4 with | some [s] => some (w0, s) | _ => none)
          else if what = "both" then (match hexList? val 4 with | some [v, s] => some (v, s) | _ => none)
          else none
        match new with
        | none => "bad-op"
        | some (v, su) =>
          match clientHelloCheckLim (cfgMin 0) chi false hello v su 0 with
          | .reject a => "rejected:" ++ (match a.code with | some n => toString n | none => "-")
          | .accept => if (v, su) = (w0, s0) then "done" else "accepted-error"
      | _ => if (what = "vers" ∨ what = "suite" ∨ what = "both") then "nohello" else "bad-op"
    | _, _, _, _ => "bad-op"
  | _ => "bad-op"

/-- the bodies of the server_name and status_request extensions in the hello of the harness's clients
    (`ServerName` "std.test" / "gm.test"; `makeClientHello` asks for OCSP stapling, `makeClientHelloGM` does not) -/
def genuineExt (kind : String) (ext : Nat) : Option Gmsm.Bytes :=
  let sni (name : String) : Gmsm.Bytes :=
    let n : Gmsm.Bytes := name.toUTF8.toList.map (fun b => BitVec.ofNat 8 b.toNat)
    Model.TLSMessages.put16 (n.length + 3) ++ ([0] ++ (Model.TLSMessages.put16 n.length ++ n))
  if ext = 0 then some (sni (if kind = "gm" then "gm.test" else "std.test"))
  else if ext = 5 ∧ kind = "tls" then some [1, 0, 0, 0, 0]
  else none

def blankHello : Model.TLSMessages.ClientHelloMsg :=
  { vers := 0, random := [], sessionId := [], cipherSuites := [], compressionMethods := [], nextProtoNeg := false,
    serverName := [], ocspStapling := false, scts := false, supportedCurves := [], supportedPoints := [],
    ticketSupported := false, sessionTicket := [], supportedSignatureAlgorithms := [], secureRenegotiation := [],
    secureRenegotiationSupported := false, alpnProtocols := [] }

/-- `chext <mode> <kind> <ext> <body hex|->`: only server_name (0) and status_request (5) are served here: what
    they carry does not influence what the harness's servers negotiate, so an accepted body that differs from the
    genuine one leads to a ServerHello and, the transcripts differing, to an error later on. -/
def chextOp (args : List String) : String :=
  match args with
  | [mode, kind, ext, body] =>
    if ¬ (mode = "gm" ∨ mode = "auto" ∨ mode = "tls") ∨ ¬ (kind = "gm" ∨ kind = "tls") then "bad-op" else
    match ext.toNat?, (if body = "-" then some [] else Gmsm.ofHex body) with
    | some e, some b =>
      if ¬ (e = 0 ∨ e = 5) then "bad-op" else
      match Model.TLSMessages.chExtension blankHello e b.length b with
      | none => "rejected:10"
      | some _ => if genuineExt kind e = some b then "done" else "accepted-error"
    | _, _ => "bad-op"
  | _ => "bad-op"

end Driver.HS

namespace Driver
def handshakeDispatch (toks : List String) : Option String :=
  match toks with
  | "hsseq" :: rest => some (HS.hsseqOp rest)
  | "hsflight" :: rest => some (HS.hsflightOp rest)
  | "hsout" :: rest => some (HS.hsoutOp rest)
  | "chmod" :: rest => some (HS.chmodOp rest)
  | "gmvers" :: rest => some (HS.gmversOp rest)
  | "shmod" :: rest => some (HS.shmodOp rest)
  | "shmodv" :: rest => some (HS.shmodvOp rest)
  | "chext" :: rest => some (HS.chextOp rest)
  -- a session_ticket extension added to the ServerHello for a client that did not offer one (`clientTicketCheck`)
  | ["shticket", k] =>
    if k = "gm" ∨ k = "tls" then
      some (match Model.Handshake.clientTicketCheck false true with
        | .reject a => "rejected:" ++ (match a.code with | some n => toString n | none => "-")
        | .accept => "accepted-error")
    else some "bad-op"
  -- a scripted TLS 1.2 server that holds the server's keys (harness/c15evil.go): the client completes with the honest
  -- one and with no other (intrinsic oracle in the harness: ORACLE-FAIL:completed-on-misbehaviour)
  | ["evilsrv", v, _, _] => some (if v = "honest" then "done" else "error")
  | ["evilgm", v, _, _] => some (if v = "honest" then "done" else "error")
  -- a scripted TLS 1.2 client that chooses the pre-master secret (harness/c15strict.go): the server completes with the
  -- honest one and with no other (bytes behind its Finished in the same record: `step … .finishedTrailing`)
  | ["evilcli", v, _] => some (if v = "honest" then "done" else "error")
  -- key-exchange messages that do not fit the selected suite (harness/c15evil2.go; Model.KeyAgreement)
  | "evilkx" :: rest => some (KX.evilkxOp rest)
  -- a scripted GM client holding its own secrets (VerifEvilClient): the server completes with the variants that
  -- deviate in nothing the server can see before its handshake is over, and with no other
  | ["evilgmc", v, o, _] =>
    let npn := (o.splitOn "+").contains "npn"
    let honest := v = "honest" || v = "npn-honest" || v = "fin-twice" || ((v = "npn-omit" || v = "npn-twice") && !npn)
    some (if honest then "done" else "error")
  | _ => none
end Driver
