/-
Driver for property C08, client side of resumption: `cliresume <gm|tls> <m|o> <conn>;<conn>;…` with
conn = `<v|i>:<name>:<hours>` (harness/c08cliresume.go).  Builds the server and the per-connection policies over
concrete certificates (time unit: hours relative to the harness epoch) and prints `Model.ClientResume.run`.
-/
import Gmsm.Model.ClientResume
import Driver.HandshakeAuth
namespace Driver
namespace CliResume
open Model Model.HandshakeAuth Model.ClientResume

def names : List String := ["gm.test", "alt.test", "evil.test"]
def dns : List String := ["gm.test", "alt.test"]

/-- the server's certificates (harness `crSetup`): GMSSL signing + encryption certificate under the main or the
    other CA; TLS one RSA certificate under the standard-library CA (subject 300, key 2600) -/
def srvOf (gm other : Bool) : Srv :=
  if gm then
    if other then ⟨[C08.mk 120 110 200 2964 2100 (-24) 24 false C08.kuS dns "gm.test" [1],
                    C08.mk 121 111 200 2965 2100 (-24) 24 false C08.kuE dns "gm.test" [1]], versionGMSSL, 0xe013⟩
    else ⟨[C08.mk 110 110 100 2960 2000 (-24) 24 false C08.kuS dns "gm.test" [1],
           C08.mk 111 111 100 2961 2000 (-24) 24 false C08.kuE dns "gm.test" [1]], versionGMSSL, 0xe013⟩
  else ⟨[C08.mk 160 160 300 2601 2600 (-24) 24 false 5 dns "gm.test" [1]], 0x0303, 0xc02f⟩

def caStd : X509.Cert := C08.mk 6 300 300 2600 2600 (-48) 48 true 32 [] "std CA" []

/-- RootCAs of the verifying client: GMSSL the main CA; TLS the standard-library CA, or (server `o`) a pool that
    does not hold it -/
def rootsOf (gm other : Bool) : List X509.Cert :=
  if gm then [C08.caMain] else if other then [C08.caMain] else [caStd]

def confOf (gm other : Bool) (st : String) : Option Conf :=
  match st.splitOn ":" with
  | [p, n, h] =>
    match (if p = "v" then some false else if p = "i" then some true else none), n.toNat?, h.toInt? with
    | some isv, some ni, some hours =>
      match names[ni]? with
      | some name =>
        if hours < -1000 || hours > 1000 then none else
        let srv := srvOf gm other
        some ⟨⟨isv, rootsOf gm other, ⟨hours, name, false, "", []⟩, [srv.suite], 0, [], 0, 0, []⟩, srv.vers, srv.vers⟩
      | none => none
    | _, _, _ => none
  | _ => none

def showRes : Result → String
  | .full _ => "F"
  | .resumed _ => "R"
  | .failed (.leafInvalid .expired) => "E:expired"
  | .failed .hostname => "E:hostname"
  | .failed .noChain => "E:unknown-authority"
  | .failed _ => "E:other"

def cliresumeOp (args : List String) : String :=
  match args with
  | [mode, srv, script] =>
    if (mode ≠ "gm" && mode ≠ "tls") || (srv ≠ "m" && srv ≠ "o") then "bad-op" else
    let gm := mode = "gm"
    let other := srv = "o"
    match (script.splitOn ";").mapM (confOf gm other) with
    | some ks =>
      if ks.isEmpty || ks.length > 12 then "bad-op"
      else ",".intercalate ((run (srvOf gm other) none 0 ks).map showRes)
    | none => "bad-op"
  | _ => "bad-op"

end CliResume

def cliresumeDispatch (toks : List String) : Option String :=
  match toks with
  | "cliresume" :: rest => some (CliResume.cliresumeOp rest)
  | _ => none

end Driver
