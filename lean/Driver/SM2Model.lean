import Gmsm.Model.SM2Curve
import Driver.SM2
namespace Driver
open Gmsm Model.SM2Curve

def ptS (xy : Nat × Nat) : String := h32 xy.1 ++ " " ++ h32 xy.2

/-- model-level curve operations (prefix `m`): same arguments as the spec-level ones -/
def sm2ModelDispatch (toks : List String) : Option String :=
  match toks with
  | ["mecsmul", x, y, k] => match natOf x, natOf y, natOf k with
    | some x, some y, some k => some (ptS (apiScalarMult x y k))
    | _, _, _ => some "bad-op"
  | ["mecbase", k] => match natOf k with
    | some k => some (ptS (apiScalarBaseMult k))
    | none => some "bad-op"
  | ["mecadd", a, b, c, d] => match natOf a, natOf b, natOf c, natOf d with
    | some a, some b, some c, some d => some (ptS (apiAdd a b c d))
    | _, _, _, _ => some "bad-op"
  | ["mecdbl", a, b] => match natOf a, natOf b with
    | some a, some b => some (ptS (apiDouble a b))
    | _, _ => some "bad-op"
  | ["mecon", a, b] => match natOf a, natOf b with
    | some a, some b => some (if isOnCurve a b then "1" else "0")
    | _, _ => some "bad-op"
  | ["wnaf", k] => match natOf k with
    | some k => some (" ".intercalate ((wnafReversed (k % Spec.SM2.n)).map toString))
    | none => some "bad-op"
  | _ => none

end Driver
