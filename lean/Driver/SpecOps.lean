/-
Operations that only need the specifications (never the generated tables or the models).
These are what the spec-only fallback driver can still answer when `Gmsm/Gen` no longer builds.
-/
import Gmsm.Spec.SM4
import Gmsm.Spec.SM3
import Gmsm.Spec.HMAC
import Gmsm.Spec.GCM
import Driver.SM2
namespace Driver
open Gmsm

/-- `sm4blk <key> <blk>` : spec encryption and decryption of one block -/
def sm4blk (args : List String) : String :=
  match args with
  | [k, b] =>
    match ofHex k, ofHex b with
    | some k, some b => toHex (Spec.SM4.encrypt k b) ++ " " ++ toHex (Spec.SM4.decrypt k b)
    | _, _ => "bad-op"
  | _ => "bad-op"


/-- deterministic byte stream shared with the Go harness (splitmix64) -/
def sm64next (s : UInt64) : UInt64 × UInt64 :=
  let s := s + 0x9e3779b97f4a7c15
  let z := s
  let z := (z ^^^ (z >>> 30)) * 0xbf58476d1ce4e5b9
  let z := (z ^^^ (z >>> 27)) * 0x94d049bb133111eb
  (s, z ^^^ (z >>> 31))

def prngBytes (seed : Nat) (n : Nat) : Bytes := Id.run do
  let mut s : UInt64 := UInt64.ofNat seed * 0x9e3779b97f4a7c15 + 0x1234567
  let mut out : Array Byte := Array.mkEmpty n
  for _ in [0:n] do
    let (s', z) := sm64next s
    s := s'
    out := out.push (BitVec.ofNat 8 z.toNat)
  return out.toList

def sm3sum (args : List String) : String :=
  match args with
  | [m] => match ofHex m with
    | some m => toHex (Spec.SM3.hash m)
    | none => "bad-op"
  | _ => "bad-op"

/-- `sm3big <seed> <len> <chunk>…` : digest of a PRNG stream (chunking is irrelevant to the spec) -/
def sm3big (args : List String) : String :=
  match args with
  | seed :: len :: _ =>
    match seed.toNat?, len.toNat? with
    | some s, some n => toHex (Spec.SM3.hash (prngBytes s n))
    | _, _ => "bad-op"
  | _ => "bad-op"

def hmacsm3 (args : List String) : String :=
  match args.mapM ofHex with
  | some [k, m] => toHex (Spec.HMAC.hmacSM3 k m)
  | _ => "bad-op"

def pbkdf2sm3 (args : List String) : String :=
  match args with
  | [pw, salt, iter, dk] =>
    match ofHex pw, ofHex salt, iter.toNat?, dk.toNat? with
    | some pw, some salt, some iter, some dk => toHex (Spec.HMAC.pbkdf2SM3 pw salt iter dk)
    | _, _, _, _ => "bad-op"
  | _ => "bad-op"

def gcmenc (args : List String) : String :=
  match args.mapM ofHex with
  | some [key, iv, aad, pt] =>
    if key.length ≠ 16 then "err" else
    let (c, t) := Spec.GCM.ae (Spec.SM4.encrypt key) iv pt aad
    hx c ++ " " ++ hx t
  | _ => "bad-op"

def gcmdec (args : List String) : String :=
  match args.mapM ofHex with
  | some [key, iv, aad, ct, tag] =>
    if key.length ≠ 16 then "err" else
    let E := Spec.SM4.encrypt key
    let h := Spec.GCM.ofBytes (E (List.replicate 16 0))
    let j := Spec.GCM.j0 h iv
    let p := Spec.GCM.gctrAll E (Spec.GCM.inc32 j) ct
    hx p ++ (if (Spec.GCM.ad E iv ct aad tag).isSome then " 1" else " 0")
  | _ => "bad-op"

def gfmul (args : List String) : String :=
  match args.mapM ofHex with
  | some [x, y] => hx (Spec.GCM.toBytes (Spec.GCM.mulGF (Spec.GCM.ofBytes x) (Spec.GCM.ofBytes y)))
  | _ => "bad-op"

def ghashOp (args : List String) : String :=
  match args.mapM ofHex with
  | some [h, a, c] => hx (Spec.GCM.toBytes (Spec.GCM.ghash (Spec.GCM.ofBytes h) a c))
  | _ => "bad-op"

def specDispatch (toks : List String) : Option String :=
  match sm2Dispatch toks with
  | some r => some r
  | none =>
  match c14Dispatch toks with
  | some r => some r
  | none =>
  match toks with
  | "sm4blk" :: rest => some (sm4blk rest)
  | "gcmenc" :: rest => some (gcmenc rest)
  | "gcmtls" :: rest => some (gcmenc rest)
  | "gcmdec" :: rest => some (gcmdec rest)
  | "gfmul" :: rest => some (gfmul rest)
  | "ghash" :: rest => some (ghashOp rest)
  | "sm3sum" :: rest => some (sm3sum rest)
  | "sm3big" :: rest => some (sm3big rest)
  | "hmacsm3" :: rest => some (hmacsm3 rest)
  | "pbkdf2sm3" :: rest => some (pbkdf2sm3 rest)
  | _ => none

end Driver
