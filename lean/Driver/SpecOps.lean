/-
Operations that only need the specifications (never the generated tables or the models).
These are what the spec-only fallback driver can still answer when `Gmsm/Gen` no longer builds.
-/
import Gmsm.Spec.SM4
namespace Driver
open Gmsm

/-- `sm4blk <key> <blk>` : spec encryption and decryption of one block -/
def sm4blk (args : List String) : String :=
  match args with
  | [k, b] =>
    match ofHex k, ofHex b with
    | some k, some b => toHex (Spec.SM4.encrypt k b) ++ " " ++ toHex (Spec.SM4.decrypt k b)
    | _, _ => "bad-op"
  | _ => "bad-op"


def specDispatch (toks : List String) : Option String :=
  match toks with
  | "sm4blk" :: rest => some (sm4blk rest)
  | _ => none

end Driver
