import Gmsm.Model.X509Names
namespace Driver.X509Names
open Gmsm Model.X509Names

/-! Line protocol of the name / identifier extension model (`harness/c09names.go` runs the same ops on the real
code).  Lists: elements separated by `|`, the empty list is `-`.  A name / byte string element is hex, the empty
one `_`.  An OID element is dotted decimal.  -/

def parseList {α : Type} (elem : String → Option α) (s : String) : Option (List α) :=
  if s = "-" then some [] else allSome ((s.splitOn "|").map elem)

def nameElem (s : String) : Option Bytes :=
  if s = "_" then some [] else if s = "" ∨ s = "-" then none else ofHex s

def oidElem (s : String) : Option OID :=
  if s = "" then none else allSome ((s.splitOn ".").map String.toNat?)

def showList {α : Type} (f : α → String) (l : List α) : String :=
  if l.isEmpty then "-" else "|".intercalate (l.map f)

def showName (b : Bytes) : String := if b.isEmpty then "_" else toHex b
def showNames (l : List Bytes) : String := showList showName l
def showOID (o : OID) : String := ".".intercalate (o.map toString)
def showOIDs (l : List OID) : String := showList showOID l

def bit01 : String → Option Bool
  | "0" => some false | "1" => some true | _ => none
def b01 (b : Bool) : String := if b then "1" else "0"

def showSAN (critical : Bool) : Option (List Name × List Name × List IP) → String
  | none => "err"
  | some r => s!"dns={showNames r.1} em={showNames r.2.1} ip={showNames r.2.2} unh={b01 (sanUnhandled critical r)}"

/-- `sanext <subjectEmpty 0|1> <dns> <emails> <ips>`: `<extension value hex | none> crit=<0|1> <parsed>` -/
def sanextOp : List String → String
  | [se, d, e, i] =>
    match bit01 se, parseList nameElem d, parseList nameElem e, parseList nameElem i with
    | some se, some d, some e, some i =>
      let t : Template := { dns := d, emails := e, ips := i }
      if sanEmitted t then
        let v := encSAN d e i
        let c := sanCritical se
        s!"{hx v} crit={b01 c} {showSAN c (decSAN v)}"
      else "none crit=0 " ++ showSAN false (some ([], [], []))
    | _, _, _, _ => "bad-op"
  | _ => "bad-op"

/-- `sanparse <critical 0|1> <value hex>` -/
def sanparseOp : List String → String
  | [c, v] =>
    match bit01 c, ofHex v with
    | some c, some v => showSAN c (decSAN v)
    | _, _ => "bad-op"
  | _ => "bad-op"

def showNC (critical : Bool) : NCOut → String
  | .err => "err"
  | .unhandledCritical => "unhandled-critical"
  | .ok l => s!"ok {showNames l} pc={b01 critical}"

/-- `ncext <critical 0|1> <permitted>` -/
def ncextOp : List String → String
  | [c, p] =>
    match bit01 c, parseList nameElem p with
    | some c, some p =>
      let t : Template := { permitted := p, permittedCritical := c }
      if ncEmitted t then
        match encNameConstraints p with
        | none => "create-error"
        | some v => s!"{hx v} crit={b01 (ncCritical t)} {showNC c (decNameConstraints c v)}"
      else "none crit=0 ok - pc=0"
    | _, _ => "bad-op"
  | _ => "bad-op"

def ncparseOp : List String → String
  | [c, v] =>
    match bit01 c, ofHex v with
    | some c, some v => showNC c (decNameConstraints c v)
    | _, _ => "bad-op"
  | _ => "bad-op"

def showEKU : Option (List Nat × List OID) → String
  | none => "err"
  | some (k, u) => s!"known={showList toString k} unknown={showOIDs u}"

/-- `ekuext <known usages> <unknown OIDs>` -/
def ekuextOp : List String → String
  | [k, u] =>
    match parseList String.toNat? k, parseList oidElem u with
    | some k, some u =>
      let t : Template := { eku := k, unknownEKU := u }
      if ekuEmitted t then
        match allSome (k.map oidFromEKU) with
        | none => "create-error"      -- an ExtKeyUsage value without an OID: refused (since fix of round 12; it was `panic("internal error")`)
        | some _ =>
          match encEKU k u with
          | none => "create-error"
          | some v => s!"{hx v} {showEKU (decEKU v)}"
      else "none " ++ showEKU (some ([], []))
    | _, _ => "bad-op"
  | _ => "bad-op"

def ekuparseOp : List String → String
  | [v] => match ofHex v with | some v => showEKU (decEKU v) | none => "bad-op"
  | _ => "bad-op"

def showOpt (f : α → String) : Option α → String
  | none => "err"
  | some a => f a

def skiextOp : List String → String
  | [i] =>
    match ofHex i with
    | some id =>
      if skiEmitted { ski := id } then let v := encSKI id; s!"{hx v} {showOpt hx (decSKI v)}" else "none -"
    | none => "bad-op"
  | _ => "bad-op"

def skiparseOp : List String → String
  | [v] => match ofHex v with | some v => showOpt hx (decSKI v) | none => "bad-op"
  | _ => "bad-op"

/-- `akiext <sameName 0|1> <parent SubjectKeyId hex> <template AuthorityKeyId hex>` -/
def akiextOp : List String → String
  | [sn, p, a] =>
    match bit01 sn, ofHex p, ofHex a with
    | some sn, some p, some a =>
      let id := effectiveAKI sn p a
      if akiEmitted { aki := id } then let v := encAKI id; s!"{hx v} {showOpt hx (decAKI v)}" else "none -"
    | _, _, _ => "bad-op"
  | _ => "bad-op"

def akiparseOp : List String → String
  | [v] => match ofHex v with | some v => showOpt hx (decAKI v) | none => "bad-op"
  | _ => "bad-op"

def polextOp : List String → String
  | [o] =>
    match parseList oidElem o with
    | some o =>
      if policiesEmitted { policies := o } then
        match encPolicies o with
        | none => "create-error"
        | some v => s!"{hx v} {showOpt showOIDs (decPolicies v)}"
      else "none -"
    | none => "bad-op"
  | _ => "bad-op"

def polparseOp : List String → String
  | [v] => match ofHex v with | some v => showOpt showOIDs (decPolicies v) | none => "bad-op"
  | _ => "bad-op"

def crlextOp : List String → String
  | [u] =>
    match parseList nameElem u with
    | some u =>
      if crldpEmitted { crldp := u } then let v := encCRLDP u; s!"{hx v} {showOpt showNames (decCRLDP v)}" else "none -"
    | none => "bad-op"
  | _ => "bad-op"

/-- `crlparse <value hex>`; `unmodelled` when a distribution point name carries something after fullName (a RelativeName) (the generator
    does not produce such values) -/
def crlparseOp : List String → String
  | [v] =>
    match ofHex v with
    | some v =>
      let guarded := match topLevel isSeq v with
        | some c => (match seqOf isSeq c with | some es => es.all crldpModelled | none => true)
        | none => true
      if guarded then showOpt showNames (decCRLDP v) else "unmodelled"
    | none => "bad-op"
  | _ => "bad-op"

/-- `extlist <subjectEmpty 0|1> <14 flags: ku eku ueku bc ski aki aia dns em ip pol perm permcrit crl>`:
    the extensions written, in order: `<last arc>[c]` joined by `,` -/
def extlistOp : List String → String
  | [se, flags] =>
    match bit01 se, allSome (flags.toList.map (fun c => bit01 (String.singleton c))) with
    | some se, some [ku, eku, ueku, bc, ski, aki, aia, dns, em, ip, pol, perm, permcrit, crl] =>
      let one {α : Type} (b : Bool) (x : α) : List α := if b then [x] else []
      let t : Template := {
        keyUsage := ku, eku := one eku 1, unknownEKU := one ueku [1, 2, 3], basicConstraintsValid := bc,
        ski := one ski 1, aki := one aki 2, aia := aia, dns := one dns [0x61], emails := one em [0x62],
        ips := one ip [1, 2, 3, 4], policies := one pol [1, 2, 4], permitted := one perm [0x63],
        permittedCritical := permcrit, crldp := one crl [0x64] }
      let l := extensionList t se
      if l.isEmpty then "-" else ",".intercalate (l.map (fun e => toString e.1 ++ (if e.2 then "c" else "")))
    | _, _ => "bad-op"
  | _ => "bad-op"

end Driver.X509Names

namespace Driver
open Driver.X509Names

def x509NamesDispatch (toks : List String) : Option String :=
  match toks with
  | "sanext" :: rest => some (sanextOp rest)
  | "sanparse" :: rest => some (sanparseOp rest)
  | "ncext" :: rest => some (ncextOp rest)
  | "ncparse" :: rest => some (ncparseOp rest)
  | "ekuext" :: rest => some (ekuextOp rest)
  | "ekuparse" :: rest => some (ekuparseOp rest)
  | "skiext" :: rest => some (skiextOp rest)
  | "skiparse" :: rest => some (skiparseOp rest)
  | "akiext" :: rest => some (akiextOp rest)
  | "akiparse" :: rest => some (akiparseOp rest)
  | "polext" :: rest => some (polextOp rest)
  | "polparse" :: rest => some (polparseOp rest)
  | "crlext" :: rest => some (crlextOp rest)
  | "crlparse" :: rest => some (crlparseOp rest)
  | "extlist" :: rest => some (extlistOp rest)
  | _ => none

end Driver
