/-
Driver ops for the byte-level model of sm4/sm4_gcm.go (`Model.GCMBytes`):
`gfmulb <x> <y>` and `ghashb <h> <a> <c>` print exactly what `gfmul` / `ghash` print, but computed by
the byte-slice transcription of the Go code instead of the SP 800-38D specification.
-/
import Gmsm.Model.GCMBytes
namespace Driver
open Gmsm

/-- `gfmulb <x> <y>` : `multiplication(x, y)` of the byte-level model (16-byte operands, as the harness requires) -/
def gfmulb (args : List String) : String :=
  match args.mapM ofHex with
  | some [x, y] =>
    if x.length ≠ 16 ∨ y.length ≠ 16 then "bad-op" else hx (Model.GCMBytes.multiplication x y)
  | _ => "bad-op"

/-- `ghashb <h> <a> <c>` : `GHASH(h, a, c)` of the byte-level model (16-byte `h`, as the harness requires) -/
def ghashb (args : List String) : String :=
  match args.mapM ofHex with
  | some [h, a, c] =>
    if h.length ≠ 16 then "bad-op" else hx (Model.GCMBytes.ghashGo h a c)
  | _ => "bad-op"

def gcmBytesDispatch (toks : List String) : Option String :=
  match toks with
  | "gfmulb" :: rest => some (gfmulb rest)
  | "ghashb" :: rest => some (ghashb rest)
  | _ => none

end Driver
