/-
Driver ops for the limb layer (Model.P256Limbs).  A limb vector is one token: hex words joined by ','.
  limbadd a b | limbsub a b | limbmul a b | limbsqr a | limbrc a carry | limbrd b17 | limbfrom x | limbto a
  limbscalar a k | limbcc out in mask | limbnz x
Core Lean only.
-/
import Gmsm.Model.P256Limbs
namespace Driver
open Model.P256Limbs

namespace Limb

def hexDigitVal (c : Char) : Option Nat :=
  if '0' ≤ c ∧ c ≤ '9' then some (c.toNat - 48)
  else if 'a' ≤ c ∧ c ≤ 'f' then some (c.toNat - 87)
  else if 'A' ≤ c ∧ c ≤ 'F' then some (c.toNat - 55)
  else none

/-- hexadecimal number, at least one digit -/
def hexNat (s : String) : Option Nat :=
  if s.isEmpty then none
  else s.toList.foldl (fun acc c => match acc, hexDigitVal c with
    | some a, some d => some (a * 16 + d)
    | _, _ => none) (some 0)

def hexStr (n : Nat) : String := String.ofList (Nat.toDigits 16 n)

/-- `n` words below 2^bits -/
def words (n bits : Nat) (s : String) : Option (List Nat) :=
  match (s.splitOn ",").mapM hexNat with
  | some l => if l.length = n ∧ l.all (· < 2 ^ bits) then some l else none
  | none => none

def limbsOf (s : String) : Option Limbs :=
  match words 9 32 s with
  | some l =>
    let a := (l.map (BitVec.ofNat 32)).toArray
    if h : a.size = 9 then some ⟨a, h⟩ else none
  | none => none

def largeOf (s : String) : Option Large :=
  match words 17 64 s with
  | some l =>
    let a := (l.map (BitVec.ofNat 64)).toArray
    if h : a.size = 17 then some ⟨a, h⟩ else none
  | none => none

def u32Of (s : String) : Option U32 :=
  match hexNat s with
  | some v => if v < 2 ^ 32 then some (BitVec.ofNat 32 v) else none
  | none => none

def show9 (a : Limbs) : String := ",".intercalate (a.toList.map fun w => hexStr w.toNat)

end Limb
open Limb

def p256LimbsDispatch (toks : List String) : Option String :=
  match toks with
  | ["limbadd", a, b] => match limbsOf a, limbsOf b with
    | some a, some b => some (show9 (add a b))
    | _, _ => some "bad-op"
  | ["limbsub", a, b] => match limbsOf a, limbsOf b with
    | some a, some b => some (show9 (sub a b))
    | _, _ => some "bad-op"
  | ["limbmul", a, b] => match limbsOf a, limbsOf b with
    | some a, some b => some (show9 (mul a b))
    | _, _ => some "bad-op"
  | ["limbsqr", a] => match limbsOf a with
    | some a => some (show9 (square a))
    | none => some "bad-op"
  | ["limbrc", a, c] => match limbsOf a, u32Of c with
    | some a, some c => some (if reduceCarryPanics c then "panic" else show9 (reduceCarry a c))
    | _, _ => some "bad-op"
  | ["limbrd", b] => match largeOf b with
    | some b => some (show9 (reduceDegree b))
    | none => some "bad-op"
  | ["limbfrom", x] => match hexNat x with
    | some x => some (show9 (fromBig x))
    | none => some "bad-op"
  | ["limbto", a] => match limbsOf a with
    | some a => some (hexStr (toBig a))
    | none => some "bad-op"
  | ["limbscalar", a, k] => match limbsOf a, hexNat k with
    | some a, some k => some (if k > 8 then "panic" else show9 (scalar a k))
    | _, _ => some "bad-op"
  | ["limbcc", o, i, m] => match limbsOf o, limbsOf i, u32Of m with
    | some o, some i, some m => some (show9 (copyConditional o i m))
    | _, _, _ => some "bad-op"
  | ["limbnz", x] => match u32Of x with
    | some x => some (hexStr (nonZeroToAllOnes x).toNat)
    | none => some "bad-op"
  -- the function as found before the repair (no Go counterpart any more; used by the sensitivity test)
  | ["limbmulold", a, b] => match limbsOf a, limbsOf b with
    | some a, some b => some (show9 (mulOld a b))
    | _, _ => some "bad-op"
  | ["limbsqrold", a] => match limbsOf a with
    | some a => some (show9 (squareOld a))
    | none => some "bad-op"
  | ["limbrdold", b] => match largeOf b with
    | some b => some (show9 (reduceDegreeOld b))
    | none => some "bad-op"
  | _ => none

end Driver
