/-
Driver ops evaluating the byte-level models of `Model.SM2Codec` (suffix `m`); they print exactly what the
spec-level ops `compress` / `decompress` / `cipherasn1` of Driver/SM2.lean and the harness (c14.go) print.
  compressm <x> <y>        hex of Compress; `ORACLE-FAIL:decompress <hex>` if the model's Decompress does not
                           return (x, y) (mirrors the read-back check of the harness)
  decompressm <hex>        `<x64> <y64>` or `nil`
  cipherasn1m <raw hex>    hex of CipherMarshal, `err`, or `ORACLE-FAIL:read-back <hex>` (mirrors the harness)
  cipherunasn1m <der hex>  hex of CipherUnmarshal or `err`
  kexhat <x hex>           hex of keXHat(x).Bytes() (model);   kexhats <x hex>: the same from Spec.SM2.xbar
Core Lean only.
-/
import Gmsm.Model.SM2Codec
import Driver.SM2
namespace Driver
open Gmsm Model.SM2Codec

def sm2CodecDispatch (toks : List String) : Option String :=
  match toks with
  | ["compressm", x, y] => match natOf x, natOf y with
    | some x, some y =>
      let c := compress x y
      some (if decompress c == some (x, y) then hx c else "ORACLE-FAIL:decompress " ++ hx c)
    | _, _ => some "bad-op"
  | ["decompressm", b] => match ofHex b with
    | some b => some (match decompress b with
      | some (x, y) => h32 x ++ " " ++ h32 y
      | none => "nil")
    | none => some "bad-op"
  | ["cipherasn1m", ct] => match ofHex ct with
    | some ct => some (match cipherMarshal ct with
      | none => "err"
      | some der => if cipherUnmarshal der == some ct then hx der else "ORACLE-FAIL:read-back " ++ hx der)
    | none => some "bad-op"
  | ["cipherunasn1m", der] => match ofHex der with
    | some der => some (match cipherUnmarshal der with
      | none => "err"
      | some raw => hx raw)
    | none => some "bad-op"
  | ["kexhat", x] => match natOf x with
    | some x => some (hx (natBytes (keXHat x)))
    | none => some "bad-op"
  | ["kexhats", x] => match natOf x with
    | some x => some (hx (natBytes (Spec.SM2.xbar x)))
    | none => some "bad-op"
  | _ => none

end Driver
