/-
Driver ops for `Model.ConnRead` (the buffering logic of `Conn.Read` and `Conn.readHandshake`):

  connread <records> <bufsizes>
      records : comma list; `d:<hex>` application data, `e` empty application-data record, `c` close_notify,
                `w` warning alert (not close_notify), `f` fatal alert, `b`/`ba` record with a wrong MAC (data / alert
                typed), `h` handshake record, `s` ChangeCipherSpec record, `t`/`ta` transport ends inside the body of
                a (data / alert typed) record, `u`/`ua` transport ends inside its header (`u1`..`u4`, `ua1`..`ua4`:
                after that many header bytes; `u` = `u3`), `x` end of the transport
                (also implied by the end of the list), `|` a transport read boundary in front of the next record.
                A suffix `/k` on a record (the transport is cut additionally k bytes into this record) is for
                the Go side only: the model does not depend on it.
      bufsizes: comma list of `len(b)` of successive `Conn.Read(b)` calls
      result  : per Read `n:<hex>:<outcome>`, comma separated; outcome `-` | `eof` | `err:<class>`
  hsreasm <hexstream> <cuts>
      the handshake byte stream and the (non-decreasing) positions at which it is cut into handshake records
      (a repeated position gives an empty record); message types 12, 16, 20 (any body is accepted by their
      `unmarshal`) and 14 (empty body) are accepted, every other type used here is one the type switch refuses
      result  : the messages in hex and the final outcome, `/` separated
  hsrecs <records> <calls>
      records : `h:<hex>` handshake, `s` ChangeCipherSpec, `a` application data, `c`, `w`, `f`, `t`, `u` (`u1`..`u4`), `x`
      calls   : a string of `m` (readHandshake) and `s` (readRecord(recordTypeChangeCipherSpec))
      result  : per call `m:<hex>` | `-` | `eof` | `err:<class>`, comma separated
-/
import Gmsm.Model.ConnRead
namespace Driver
open Gmsm Model.ConnRead

def crErrName : Err → String
  | .eof => "eof"
  | .unexpectedEOF => "err:ueof"
  | .remote => "err:remote"
  | .tooManyWarn => "err:toomanywarn"
  | .unexpectedMessage => "err:unexpected"
  | .badRecord => "err:badmac"
  | .noRenegotiation => "err:noreneg"
  | .noProgress => "err:noprogress"
  | .tooLong => "err:toolong"
  | .nilInput => "err:nil"

def crOutcome : Outcome → String
  | none => "-"
  | some e => crErrName e

/-- parse the record list of `connread`; `none` on a malformed token -/
def crParseRecs : List String → Bool → List Item → Option (List Item)
  | [], _, acc => some acc.reverse
  | tok :: rest, sep, acc =>
    let t := (tok.splitOn "/").headD ""
    if t = "|" then crParseRecs rest true acc
    else if t = "x" then some acc.reverse
    else
      let one (k : Rec) := crParseRecs rest false (⟨sep, k⟩ :: acc)
      let last (k : Rec) : Option (List Item) := some ((⟨sep, k⟩ :: acc).reverse)
      if t = "e" then one (.data [])
      else if t = "c" then one .closeNotify
      else if t = "w" then one .warning
      else if t = "f" then one (.fail true .remote)
      else if t = "b" then one (.fail false .badRecord)
      else if t = "ba" then one (.fail true .badRecord)
      else if t = "h" then one (.fail false .noRenegotiation)
      else if t = "s" then one (.fail false .unexpectedMessage)
      else if t = "t" then last (Rec.truncated false)
      else if t = "ta" then last (Rec.truncated true)
      else if ["u", "u1", "u2", "u3", "u4"].contains t then last (Rec.truncated false)   -- cut inside the header
      else if ["ua", "ua1", "ua2", "ua3", "ua4"].contains t then last (Rec.truncated true)
      else if t.startsWith "d:" then
        match ofHex (t.drop 2).toString with
        | some p => one (.data p)
        | none => none
      else none

def crParseNats (s : String) : Option (List Nat) :=
  if s = "-" then some [] else (s.splitOn ",").mapM (·.toNat?)

def connreadOp (args : List String) : String :=
  match args with
  | [recs, sizes] =>
    match crParseRecs (recs.splitOn ",") false [], crParseNats sizes with
    | some items, some sz =>
      ",".intercalate ((readAll (Reader.init items) sz).map fun (o : Bytes × Outcome) =>
        s!"{o.1.length}:{hx o.1}:{crOutcome o.2}")
    | _, _ => "bad-op"
  | _ => "bad-op"

/-- cut `s` at the given absolute positions (non-decreasing, ≤ length) -/
def crCut (s : Bytes) : Nat → List Nat → Option (List Bytes)
  | _, [] => some [s]
  | at_, c :: cs =>
    if c < at_ ∨ c - at_ > s.length then none
    else (crCut (s.drop (c - at_)) c cs).map (s.take (c - at_) :: ·)

/-- the type switch + `unmarshal` for the message types the generator uses: 12 (server_key_exchange), 16
    (client_key_exchange) and 20 (finished) take any body, 14 (server_hello_done) the empty body only; the
    other types it uses (3, 5, 255) are unknown to the type switch -/
def crAccept (raw : Bytes) : Bool :=
  match raw.head? with
  | some t => t = 12 ∨ t = 16 ∨ t = 20 ∨ (t = 14 ∧ raw.length = 4)
  | none => false

def hsreasmOp (args : List String) : String :=
  match args with
  | [stream, cuts] =>
    match ofHex stream, crParseNats cuts with
    | some s, some cs =>
      match crCut s 0 cs with
      | some frags =>
        let (ms, o) := messages crAccept (frags.map .hs)
        "/".intercalate (ms.map hx ++ [crOutcome o])
      | none => "bad-op"
    | _, _ => "bad-op"
  | _ => "bad-op"

def crParseHRecs : List String → List HRec → Option (List HRec)
  | [], acc => some acc.reverse
  | t :: rest, acc =>
    if t = "x" then some acc.reverse
    else if t = "s" then crParseHRecs rest (.ccs :: acc)
    else if t = "a" then crParseHRecs rest (.appData :: acc)
    else if t = "c" then crParseHRecs rest (.closeNotify :: acc)
    else if t = "w" then crParseHRecs rest (.warning :: acc)
    else if t = "f" then crParseHRecs rest (.fail .remote :: acc)
    else if t = "t" then some ((HRec.trunc true :: acc).reverse)
    else if ["u", "u1", "u2", "u3", "u4"].contains t then some ((HRec.trunc false :: acc).reverse)
    else if t.startsWith "h:" then
      match ofHex (t.drop 2).toString with
      | some p => crParseHRecs rest (.hs p :: acc)
      | none => none
    else none

def crCalls : List Char → HsBuf → List String → Option (List String)
  | [], _, acc => some acc.reverse
  | 'm' :: cs, s, acc =>
    match readHandshake crAccept s with
    | (s1, .msg raw) => crCalls cs s1 (s!"m:{hx raw}" :: acc)
    | (s1, .error e) => crCalls cs s1 (crErrName e :: acc)
  | 's' :: cs, s, acc =>
    let (s1, o) := recvCCS s
    crCalls cs s1 (crOutcome o :: acc)
  | _, _, _ => none

def hsrecsOp (args : List String) : String :=
  match args with
  | [recs, calls] =>
    match crParseHRecs (recs.splitOn ",") [] with
    | some rs =>
      match crCalls calls.toList (HsBuf.init rs) [] with
      | some out => ",".intercalate out
      | none => "bad-op"
    | none => "bad-op"
  | _ => "bad-op"

def connReadDispatch (toks : List String) : Option String :=
  match toks with
  | "connread" :: rest => some (connreadOp rest)
  | "hsreasm" :: rest => some (hsreasmOp rest)
  | "hsrecs" :: rest => some (hsrecsOp rest)
  | _ => none

end Driver
