import Gmsm.Model.CRLIssuer
namespace Driver.CRLIssuer
open Gmsm.Model.CRLIssuer

/-! Line protocol of `Model.CRLIssuer` (`harness/c09crliss.go` runs the same ops on the real code):
`crliss <sm2|rsa|p256> <parsed|rawtmpl|tmpl> <name>`.

A name is `-` (empty) or RDNs separated by `/`, the attributes of one RDN separated by `+`, an attribute is
`<type>:<value>` (a Go string: PrintableString / UTF8String) or `<type>~<value>` (IA5String); `<type>` is a dotted OID
or one of C ST L STREET PC O OU CN SN E DC UID GN.  In `tmpl` mode the name describes a `pkix.Name`: single
attributes separated by `/`; `<fixed type>:<value>` fills the field of that type (at most one value per list field), `!<type>:<value>` /
`!<type>~<value>` is an ExtraNames entry.  The answer is the issuer name of the two revocation lists in the same syntax
(dotted OIDs) and the three checks of the harness. -/

def allSome {α : Type} : List (Option α) → Option (List α)
  | [] => some []
  | none :: _ => none
  | some a :: rest => (allSome rest).map (a :: ·)

def oidOfKey (k : String) : Option OID :=
  match k with
  | "C" => some oidCountry | "ST" => some oidProvince | "L" => some oidLocality | "STREET" => some oidStreetAddress
  | "PC" => some oidPostalCode | "O" => some oidOrganization | "OU" => some oidOrganizationalUnit
  | "CN" => some oidCommonName | "SN" => some oidSerialNumber
  | "E" => some [1, 2, 840, 113549, 1, 9, 1] | "DC" => some [0, 9, 2342, 19200300, 100, 1, 25]
  | "UID" => some [0, 9, 2342, 19200300, 100, 1, 1] | "GN" => some [2, 5, 4, 42]
  | _ =>
    let parts := k.splitOn "."
    if parts.length < 2 then none else allSome (parts.map (fun p => if p.isEmpty then none else p.toNat?))

def atvOf (s : String) : Option ATV :=
  let cs := s.toList
  let key := String.ofList (cs.takeWhile (fun c => c ≠ ':' ∧ c ≠ '~'))
  let okc (c : Char) : Bool := c.isAlphanum || c = '@' || c = '.' || c = '-'
  match cs.dropWhile (fun c => c ≠ ':' ∧ c ≠ '~'), oidOfKey key with
  | ':' :: v, some oid => if v.all okc then some (oid, ⟨0, String.ofList v⟩) else none
  | '~' :: v, some oid => if v.all okc then some (oid, ⟨22, String.ofList v⟩) else none
  | _, _ => none

def rdnOf (s : String) : Option RDN := allSome ((s.splitOn "+").map atvOf)

def seqOf (s : String) : Option RDNSeq :=
  if s = "-" then some [] else allSome ((s.splitOn "/").map rdnOf)

/-- `tmpl` mode: the `pkix.Name` the harness builds -/
def nameOf (s : String) : Option Name :=
  if s = "-" then some {} else
  (s.splitOn "/").foldl (fun acc part =>
    match acc with
    | none => none
    | some n =>
      match part.toList with
      | '!' :: rest =>
        match atvOf (String.ofList rest) with
        | some a => some { n with extraNames := n.extraNames ++ [a] }
        | none => none
      | _ =>
        match atvOf part with
        | some a =>
          let m := { fillATV n a with names := [] }
          -- one value per list field: the DER order inside a multi-valued SET is not this model's subject
          let single := [m.country, m.province, m.locality, m.streetAddress, m.postalCode, m.organization,
            m.organizationalUnit].all (fun l => l.length ≤ 1)
          if fixedOIDs.contains a.1 ∧ a.2.tag = 0 ∧ single then some m else none
        | none => none) (some {})

def showOID (o : OID) : String := ".".intercalate (o.map toString)

def showATV (a : ATV) : String :=
  showOID a.1 ++ (if a.2.tag = 0 then ":" else if a.2.tag = 22 then "~" else "#" ++ toString a.2.tag ++ "#") ++ a.2.str

def showSeq (r : RDNSeq) : String :=
  if r.isEmpty then "-" else "/".intercalate (r.map (fun rdn => "+".intercalate (rdn.map showATV)))

def answer (r : RDNSeq) : String :=
  let t := showSeq r
  "rl=" ++ t ++ ",raw=1,sig=1,leaf=1;crl=" ++ t ++ ",raw=1,sig=1,leaf=1"

def crlissOp : List String → String
  | [kind, mode, name] =>
    if kind ≠ "sm2" ∧ kind ≠ "rsa" ∧ kind ≠ "p256" then "bad-op"
    else if mode = "parsed" then
      match seqOf name with
      | some r => answer (crlIssuer (parseCert r))
      | none => "bad-op"
    else if mode = "rawtmpl" then
      match seqOf name with
      | some r => answer (crlIssuer ⟨some r, { commonName := "ignored" }⟩)
      | none => "bad-op"
    else if mode = "tmpl" then
      match nameOf name with
      | some n => answer (crlIssuer (template n))
      | none => "bad-op"
    else "bad-op"
  | _ => "bad-op"

end Driver.CRLIssuer

namespace Driver
def crlIssuerDispatch (toks : List String) : Option String :=
  match toks with
  | "crliss" :: rest => some (Driver.CRLIssuer.crlissOp rest)
  | _ => none
end Driver
