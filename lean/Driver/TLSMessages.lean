/-
Driver op of the handshake message codec models (`Model.TLSMessages`, gmtls/handshake_messages.go and
gm_handshake_messages.go):

  hsmsg <kind> <hex>   -> ok <dump> | reject

<kind>: the names of gmtls.VerifHandshakeKinds (`+sh` = hasSignatureAndHash set before parsing).  <dump>: the
parsed fields as tokens name=value separated by one space, exactly what gmtls.VerifDumpHandshake prints: a
byte string is hex (`-` when empty), a number decimal, a bool 0/1, a list of numbers joined by `,` (`-` when
empty), a list of byte strings the hex strings joined by `,` with `.` for an empty entry (`-` for the empty
list); the last token is marshal=<hex>, what the model's `marshalX` writes for the parsed fields.
Core Lean only.
-/
import Gmsm.Model.TLSMessages
namespace Driver
open Gmsm Model.TLSMessages

def tlsList (cs : List Bytes) : String :=
  if cs.isEmpty then "-" else ",".intercalate (cs.map fun c => if c.isEmpty then "." else toHex c)

def tlsNums (ns : List Nat) : String :=
  if ns.isEmpty then "-" else ",".intercalate (ns.map toString)

def tlsBool (b : Bool) : String := if b then "1" else "0"

def tlsDump (fields : List (String × String)) (marshalled : Bytes) : String :=
  " ".intercalate ((fields ++ [("marshal", hx marshalled)]).map fun (n, v) => n ++ "=" ++ v)

/-- `some dump` when the model accepts, `none` when it rejects; `none` of the outer option for an unknown kind -/
def hsmsgDump (kind : String) (b : Bytes) : Option (Option String) :=
  match kind with
  | "certificate" => some ((unmarshalCertificate b).map fun m =>
      tlsDump [("certs", tlsList m.certificates)] (marshalCertificate m))
  | "serverKeyExchange" => some ((unmarshalServerKeyExchange b).map fun m =>
      tlsDump [("key", hx m.key)] (marshalServerKeyExchange m))
  | "clientKeyExchange" => some ((unmarshalClientKeyExchange b).map fun m =>
      tlsDump [("ciphertext", hx m.ciphertext)] (marshalClientKeyExchange m))
  | "finished" => some ((unmarshalFinished b).map fun m =>
      tlsDump [("verifyData", hx m.verifyData)] (marshalFinished m))
  | "serverHelloDone" => some ((unmarshalServerHelloDone b).map fun m => tlsDump [] (marshalServerHelloDone m))
  | "helloRequest" => some ((unmarshalHelloRequest b).map fun m => tlsDump [] (marshalHelloRequest m))
  | "certificateVerify" => some ((unmarshalCertificateVerify false b).map fun m =>
      tlsDump [("sigalg", toString m.signatureAlgorithm), ("sig", hx m.signature)] (marshalCertificateVerify m))
  | "certificateVerify+sh" => some ((unmarshalCertificateVerify true b).map fun m =>
      tlsDump [("sigalg", toString m.signatureAlgorithm), ("sig", hx m.signature)] (marshalCertificateVerify m))
  | "newSessionTicket" => some ((unmarshalNewSessionTicket b).map fun m =>
      tlsDump [("ticket", hx m.ticket)] (marshalNewSessionTicket m))
  | "certificateRequest" => some ((unmarshalCertificateRequest false b).map fun m =>
      tlsDump [("types", hx m.certificateTypes), ("sigalgs", tlsNums m.supportedSignatureAlgorithms),
        ("cas", tlsList m.certificateAuthorities)] (marshalCertificateRequest m))
  | "certificateRequest+sh" => some ((unmarshalCertificateRequest true b).map fun m =>
      tlsDump [("types", hx m.certificateTypes), ("sigalgs", tlsNums m.supportedSignatureAlgorithms),
        ("cas", tlsList m.certificateAuthorities)] (marshalCertificateRequest m))
  | "certificateRequestGM" => some ((unmarshalCertificateRequestGM b).map fun m =>
      tlsDump [("types", hx m.certificateTypes), ("cas", tlsList m.certificateAuthorities)] (marshalCertificateRequestGM m))
  | "certificateStatus" => some ((unmarshalCertificateStatus b).map fun m =>
      tlsDump [("statusType", toString m.statusType), ("response", hx m.response)] (marshalCertificateStatus m))
  | "nextProto" => some ((unmarshalNextProto b).map fun m => tlsDump [("proto", hx m.proto)] (marshalNextProto m))
  | "serverHello" => some ((unmarshalServerHello b).map fun m =>
      tlsDump [("vers", toString m.vers), ("random", hx m.random), ("sessionId", hx m.sessionId),
        ("suite", toString m.cipherSuite), ("comp", toString m.compressionMethod), ("npn", tlsBool m.nextProtoNeg),
        ("nextProtos", tlsList m.nextProtos), ("ocsp", tlsBool m.ocspStapling), ("scts", tlsList m.scts),
        ("ticket", tlsBool m.ticketSupported), ("reneg", hx m.secureRenegotiation),
        ("renegSupported", tlsBool m.secureRenegotiationSupported), ("alpn", hx m.alpnProtocol)] (marshalServerHello m))
  | "clientHello" => some ((unmarshalClientHello b).map fun m =>
      tlsDump [("vers", toString m.vers), ("random", hx m.random), ("sessionId", hx m.sessionId),
        ("suites", tlsNums m.cipherSuites), ("comps", hx m.compressionMethods), ("npn", tlsBool m.nextProtoNeg),
        ("serverName", hx m.serverName), ("ocsp", tlsBool m.ocspStapling), ("scts", tlsBool m.scts),
        ("curves", tlsNums m.supportedCurves), ("points", hx m.supportedPoints),
        ("ticketSupported", tlsBool m.ticketSupported), ("ticket", hx m.sessionTicket),
        ("sigalgs", tlsNums m.supportedSignatureAlgorithms), ("reneg", hx m.secureRenegotiation),
        ("renegSupported", tlsBool m.secureRenegotiationSupported), ("alpn", tlsList m.alpnProtocols)] (marshalClientHello m))
  | _ => none

def hsmsgOp (args : List String) : String :=
  match args with
  | [kind, b] => match ofHex b with
    | some b => (match hsmsgDump kind b with
      | some (some d) => "ok " ++ d
      | some none => "reject"
      | none => "bad-op")
    | none => "bad-op"
  | _ => "bad-op"

def tlsMessagesDispatch (toks : List String) : Option String :=
  match toks with
  | "hsmsg" :: rest => some (hsmsgOp rest)
  | _ => none

end Driver
