/-
Driver op of the handshake message codec models (`Model.TLSMessages`, gmtls/handshake_messages.go and
gm_handshake_messages.go):

  hsmsg <kind> <hex>          -> ok <dump> | reject
  hsmsgm <kind> <fields>...   -> <hex of marshalX for a value with these fields>

<kind>: the names of gmtls.VerifHandshakeKinds (`+sh` = hasSignatureAndHash set before parsing).  <dump>: the
parsed fields as tokens name=value separated by one space, exactly what gmtls.VerifDumpHandshake prints: a
byte string is hex (`-` when empty), a number decimal, a bool 0/1, a list of numbers joined by `,` (`-` when
empty), a list of byte strings the hex strings joined by `,` with `.` for an empty entry (`-` for the empty
list); the last token is marshal=<hex>, what the model's `marshalX` writes for the parsed fields.
<fields>: the tokens of a dump without marshal=, in the same order (gmtls.VerifMarshalHandshakeFields).
Core Lean only.
-/
import Gmsm.Model.TLSMessages
namespace Driver
open Gmsm Model.TLSMessages

def tlsList (cs : List Bytes) : String :=
  if cs.isEmpty then "-" else ",".intercalate (cs.map fun c => if c.isEmpty then "." else toHex c)

def tlsNums (ns : List Nat) : String :=
  if ns.isEmpty then "-" else ",".intercalate (ns.map toString)

def tlsBool (b : Bool) : String := if b then "1" else "0"

def tlsDump (fields : List (String × String)) (marshalled : Bytes) : String :=
  " ".intercalate ((fields ++ [("marshal", hx marshalled)]).map fun (n, v) => n ++ "=" ++ v)

/-- `some dump` when the model accepts, `none` when it rejects; `none` of the outer option for an unknown kind -/
def hsmsgDump (kind : String) (b : Bytes) : Option (Option String) :=
  match kind with
  | "certificate" => some ((unmarshalCertificate b).map fun m =>
      tlsDump [("certs", tlsList m.certificates)] (marshalCertificate m))
  | "serverKeyExchange" => some ((unmarshalServerKeyExchange b).map fun m =>
      tlsDump [("key", hx m.key)] (marshalServerKeyExchange m))
  | "clientKeyExchange" => some ((unmarshalClientKeyExchange b).map fun m =>
      tlsDump [("ciphertext", hx m.ciphertext)] (marshalClientKeyExchange m))
  | "finished" => some ((unmarshalFinished b).map fun m =>
      tlsDump [("verifyData", hx m.verifyData)] (marshalFinished m))
  | "serverHelloDone" => some ((unmarshalServerHelloDone b).map fun m => tlsDump [] (marshalServerHelloDone m))
  | "helloRequest" => some ((unmarshalHelloRequest b).map fun m => tlsDump [] (marshalHelloRequest m))
  | "certificateVerify" => some ((unmarshalCertificateVerify false b).map fun m =>
      tlsDump [("sigalg", toString m.signatureAlgorithm), ("sig", hx m.signature)] (marshalCertificateVerify m))
  | "certificateVerify+sh" => some ((unmarshalCertificateVerify true b).map fun m =>
      tlsDump [("sigalg", toString m.signatureAlgorithm), ("sig", hx m.signature)] (marshalCertificateVerify m))
  | "newSessionTicket" => some ((unmarshalNewSessionTicket b).map fun m =>
      tlsDump [("ticket", hx m.ticket)] (marshalNewSessionTicket m))
  | "certificateRequest" => some ((unmarshalCertificateRequest false b).map fun m =>
      tlsDump [("types", hx m.certificateTypes), ("sigalgs", tlsNums m.supportedSignatureAlgorithms),
        ("cas", tlsList m.certificateAuthorities)] (marshalCertificateRequest m))
  | "certificateRequest+sh" => some ((unmarshalCertificateRequest true b).map fun m =>
      tlsDump [("types", hx m.certificateTypes), ("sigalgs", tlsNums m.supportedSignatureAlgorithms),
        ("cas", tlsList m.certificateAuthorities)] (marshalCertificateRequest m))
  | "certificateRequestGM" => some ((unmarshalCertificateRequestGM b).map fun m =>
      tlsDump [("types", hx m.certificateTypes), ("cas", tlsList m.certificateAuthorities)] (marshalCertificateRequestGM m))
  | "certificateStatus" => some ((unmarshalCertificateStatus b).map fun m =>
      tlsDump [("statusType", toString m.statusType), ("response", hx m.response)] (marshalCertificateStatus m))
  | "nextProto" => some ((unmarshalNextProto b).map fun m => tlsDump [("proto", hx m.proto)] (marshalNextProto m))
  | "serverHello" => some ((unmarshalServerHello b).map fun m =>
      tlsDump [("vers", toString m.vers), ("random", hx m.random), ("sessionId", hx m.sessionId),
        ("suite", toString m.cipherSuite), ("comp", toString m.compressionMethod), ("npn", tlsBool m.nextProtoNeg),
        ("nextProtos", tlsList m.nextProtos), ("ocsp", tlsBool m.ocspStapling), ("scts", tlsList m.scts),
        ("ticket", tlsBool m.ticketSupported), ("reneg", hx m.secureRenegotiation),
        ("renegSupported", tlsBool m.secureRenegotiationSupported), ("alpn", hx m.alpnProtocol)] (marshalServerHello m))
  | "clientHello" => some ((unmarshalClientHello b).map fun m =>
      tlsDump [("vers", toString m.vers), ("random", hx m.random), ("sessionId", hx m.sessionId),
        ("suites", tlsNums m.cipherSuites), ("comps", hx m.compressionMethods), ("npn", tlsBool m.nextProtoNeg),
        ("serverName", hx m.serverName), ("ocsp", tlsBool m.ocspStapling), ("scts", tlsBool m.scts),
        ("curves", tlsNums m.supportedCurves), ("points", hx m.supportedPoints),
        ("ticketSupported", tlsBool m.ticketSupported), ("ticket", hx m.sessionTicket),
        ("sigalgs", tlsNums m.supportedSignatureAlgorithms), ("reneg", hx m.secureRenegotiation),
        ("renegSupported", tlsBool m.secureRenegotiationSupported), ("alpn", tlsList m.alpnProtocols)] (marshalClientHello m))
  | _ => none

def hsmsgOp (args : List String) : String :=
  match args with
  | [kind, b] => match ofHex b with
    | some b => (match hsmsgDump kind b with
      | some (some d) => "ok " ++ d
      | some none => "reject"
      | none => "bad-op")
    | none => "bad-op"
  | _ => "bad-op"

-- hsmsgm: the fields of a message, in the format of a dump, to what `marshalX` writes for them ----------------

/-- the value of token `name=value` -/
def tlsTok (name tok : String) : Option String :=
  let pre := name ++ "="
  if tok.startsWith pre then some (tok.drop pre.length).toString else none

def tlsBytesOf (name tok : String) : Option Bytes :=
  match tlsTok name tok with
  | some v => if v = "-" then some [] else (match ofHex v with
    | some b => if b.isEmpty then none else some b
    | none => none)
  | none => none

def tlsListOf (name tok : String) : Option (List Bytes) :=
  match tlsTok name tok with
  | some v => if v = "-" then some [] else
    (v.splitOn ",").mapM fun c => if c = "." then some [] else if c = "" ∨ c = "-" then none else ofHex c
  | none => none

def tlsNumsOf (name tok : String) : Option (List Nat) :=
  match tlsTok name tok with
  | some v => if v = "-" then some [] else
    (v.splitOn ",").mapM fun c => match c.toNat? with
      | some n => if n < 65536 then some n else none
      | none => none
  | none => none

def tlsNumOf (name tok : String) (bound : Nat) : Option Nat :=
  match tlsTok name tok with
  | some v => (match v.toNat? with
    | some n => if n < bound then some n else none
    | none => none)
  | none => none

def tlsBoolOf (name tok : String) : Option Bool :=
  match tlsTok name tok with
  | some v => if v = "1" then some true else if v = "0" then some false else none
  | none => none

/-- `some bytes`: what the model's `marshalX` writes; `none`: unknown kind or malformed fields -/
def hsmsgMarshal (kind : String) (f : List String) : Option Bytes :=
  match kind, f with
  | "certificate", [a] => (tlsListOf "certs" a).map fun cs => marshalCertificate ⟨cs⟩
  | "serverKeyExchange", [a] => (tlsBytesOf "key" a).map fun k => marshalServerKeyExchange ⟨k⟩
  | "clientKeyExchange", [a] => (tlsBytesOf "ciphertext" a).map fun k => marshalClientKeyExchange ⟨k⟩
  | "finished", [a] => (tlsBytesOf "verifyData" a).map fun k => marshalFinished ⟨k⟩
  | "serverHelloDone", [] => some (marshalServerHelloDone ⟨⟩)
  | "helloRequest", [] => some (marshalHelloRequest ⟨⟩)
  | "certificateVerify", [a, b] => do
      let alg ← tlsNumOf "sigalg" a 65536
      let sig ← tlsBytesOf "sig" b
      pure (marshalCertificateVerify ⟨false, alg, sig⟩)
  | "certificateVerify+sh", [a, b] => do
      let alg ← tlsNumOf "sigalg" a 65536
      let sig ← tlsBytesOf "sig" b
      pure (marshalCertificateVerify ⟨true, alg, sig⟩)
  | "newSessionTicket", [a] => (tlsBytesOf "ticket" a).map fun k => marshalNewSessionTicket ⟨k⟩
  | "certificateRequest", [a, b, c] => do
      let types ← tlsBytesOf "types" a
      let algs ← tlsNumsOf "sigalgs" b
      let cas ← tlsListOf "cas" c
      pure (marshalCertificateRequest ⟨false, types, algs, cas⟩)
  | "certificateRequest+sh", [a, b, c] => do
      let types ← tlsBytesOf "types" a
      let algs ← tlsNumsOf "sigalgs" b
      let cas ← tlsListOf "cas" c
      pure (marshalCertificateRequest ⟨true, types, algs, cas⟩)
  | "certificateRequestGM", [a, c] => do
      let types ← tlsBytesOf "types" a
      let cas ← tlsListOf "cas" c
      pure (marshalCertificateRequestGM ⟨types, cas⟩)
  | "certificateStatus", [a, b] => do
      let st ← tlsNumOf "statusType" a 256
      let resp ← tlsBytesOf "response" b
      pure (marshalCertificateStatus ⟨st, resp⟩)
  | "nextProto", [a] => (tlsBytesOf "proto" a).map fun k => marshalNextProto ⟨k⟩
  | "serverHello", [a1, a2, a3, a4, a5, a6, a7, a8, a9, a10, a11, a12, a13] => do
      let vers ← tlsNumOf "vers" a1 65536
      let random ← tlsBytesOf "random" a2
      let sid ← tlsBytesOf "sessionId" a3
      let suite ← tlsNumOf "suite" a4 65536
      let comp ← tlsNumOf "comp" a5 256
      let npn ← tlsBoolOf "npn" a6
      let protos ← tlsListOf "nextProtos" a7
      let ocsp ← tlsBoolOf "ocsp" a8
      let scts ← tlsListOf "scts" a9
      let ticket ← tlsBoolOf "ticket" a10
      let reneg ← tlsBytesOf "reneg" a11
      let renegS ← tlsBoolOf "renegSupported" a12
      let alpn ← tlsBytesOf "alpn" a13
      pure (marshalServerHello ⟨vers, random, sid, suite, comp, npn, protos, ocsp, scts, ticket, reneg, renegS, alpn⟩)
  | "clientHello", [a1, a2, a3, a4, a5, a6, a7, a8, a9, a10, a11, a12, a13, a14, a15, a16, a17] => do
      let vers ← tlsNumOf "vers" a1 65536
      let random ← tlsBytesOf "random" a2
      let sid ← tlsBytesOf "sessionId" a3
      let suites ← tlsNumsOf "suites" a4
      let comps ← tlsBytesOf "comps" a5
      let npn ← tlsBoolOf "npn" a6
      let sni ← tlsBytesOf "serverName" a7
      let ocsp ← tlsBoolOf "ocsp" a8
      let scts ← tlsBoolOf "scts" a9
      let curves ← tlsNumsOf "curves" a10
      let points ← tlsBytesOf "points" a11
      let ticketS ← tlsBoolOf "ticketSupported" a12
      let ticket ← tlsBytesOf "ticket" a13
      let algs ← tlsNumsOf "sigalgs" a14
      let reneg ← tlsBytesOf "reneg" a15
      let renegS ← tlsBoolOf "renegSupported" a16
      let alpn ← tlsListOf "alpn" a17
      pure (marshalClientHello ⟨vers, random, sid, suites, comps, npn, sni, ocsp, scts, curves, points, ticketS, ticket,
        algs, reneg, renegS, alpn⟩)
  | _, _ => none

def hsmsgmOp (args : List String) : String :=
  match args with
  | kind :: fields => (match hsmsgMarshal kind fields with
    | some b => hx b
    | none => "bad-op")
  | _ => "bad-op"

def tlsMessagesDispatch (toks : List String) : Option String :=
  match toks with
  | "hsmsg" :: rest => some (hsmsgOp rest)
  | "hsmsgm" :: rest => some (hsmsgmOp rest)
  | _ => none

end Driver
