/-
Driver op for `Model.PubHex` (core Lean only):
  pubhexdec <hex of the decoded bytes>    `<x64> <y64>` or `err`
-/
import Gmsm.Model.PubHex
import Driver.SM2
namespace Driver
open Gmsm

def pubHexDispatch (toks : List String) : Option String :=
  match toks with
  | ["pubhexdec", b] => match ofHex b with
    | some q => some (match Model.PubHex.readPublicKey q with
      | some (x, y) => h32 x ++ " " ++ h32 y
      | none => "err")
    | none => some "bad-op"
  | "pubhexdec" :: _ => some "bad-op"
  | _ => none

end Driver
