import Gmsm.Model.KeyType
import Driver.Negotiate
import Driver.CertSelect
namespace Driver
open Model.KeyType

/-- `<static>[+gc-<r|e|s|v>]`: static = "-" or one or two letters, the first of s r e, the second of n r e -/
def ktSlots (x : String) : Option (List KeyT × Option GetCert) :=
  let first : Char → Option KeyT := fun c => if c = 's' then some .sm2 else if c = 'r' then some .rsa else if c = 'e' then some .ec else none
  let second : Char → Option KeyT := fun c => if c = 'n' then some .sm2 else if c = 'r' then some .rsa else if c = 'e' then some .ec else none
  let stat : String → Option (List KeyT) := fun st =>
    if st = "-" then some [] else
    match st.toList with
    | [a] => (first a).map fun k => [k]
    | [a, b] => match first a, second b with
      | some k, some l => some [k, l]
      | _, _ => none
    | _ => none
  let cb : String → Option GetCert := fun c =>
    if c = "gc-r" then some (.always .rsa) else if c = "gc-e" then some (.always .ec) else if c = "gc-s" then some (.always .sm2)
    else if c = "gc-v" then some .byVersion else none
  match x.splitOn "+" with
  | [st] => (stat st).map fun l => (l, none)
  | [st, c] => match stat st, cb c with
    | some l, some g => some (l, some g)
    | _, _ => none
  | _ => none

def ktClient (x : String) : Option Client :=
  match x with
  | "gm" => some (.gm true) | "gm-nosni" => some (.gm false)
  | "tls10" => some (.tls .tls10 true) | "tls11" => some (.tls .tls11 true) | "tls12" => some (.tls .tls12 true)
  | "tls10-nosni" => some (.tls .tls10 false) | "tls11-nosni" => some (.tls .tls11 false) | "tls12-nosni" => some (.tls .tls12 false)
  | _ => none

def ktCCert (x : String) : Option CCert :=
  match x with
  | "none" => some .none
  | "sm2" => some (.static .sm2) | "rsa" => some (.static .rsa) | "ec" => some (.static .ec)
  | "cb-sm2" => some (.cb .sm2) | "cb-rsa" => some (.cb .rsa) | "cb-ec" => some (.cb .ec)
  | "cb-empty" => some .cbEmpty | "cb-err" => some .cbErr
  | _ => none

def ktPolicy (x : String) : Option Policy :=
  match x with
  | "0" => some .noCert | "1" => some .request | "2" => some .requireAny | "3" => some .verifyIfGiven | "4" => some .requireAndVerify
  | _ => none

/-- `hskt <mode> <slots> <client> <ccert> <auth> <seed>` (harness/c06keytype.go): the verdict of the decision model
    for the code as repaired -/
def hsktOp (args : List String) : String :=
  match args with
  | [mode, slots, client, ccert, auth, _seed] =>
    let modeO : Option Mode := match mode with
      | "gm" => some .gm | "auto" => some .auto | "tls" => some .tls | _ => none
    match modeO, ktSlots slots, ktClient client, ktCCert ccert, ktPolicy auth with
    | some m, some (st, gc), some c, some cc, some p =>
      match verdict repaired ⟨m, st, gc⟩ c cc p with
      | .ok v n => s!"ok {hex4 v} {n}"
      | .fail => "fail"
      | .crash => "crash"
    | _, _, _, _, _ => "bad-op"
  | _ => "bad-op"

def keyTypeDispatch (toks : List String) : Option String :=
  match toks with
  | "hskt" :: rest => some (hsktOp rest)
  | _ => certSelectDispatch toks      -- hssni (Driver/CertSelect.lean)

end Driver
