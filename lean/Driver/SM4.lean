import Gmsm.Model.SM4
import Gmsm.Spec.SM4
namespace Driver
open Gmsm

def faultStr : Model.SM4.Fault → String
  | .error _ => "err"
  | .panic _ => "panic"

/-- parse `E<dstlen>[a]:<srchex>` / `D…` -/
def parseOp (s : String) : Option Model.SM4.Op :=
  match s.splitOn ":" with
  | [hd, srcHex] =>
    let cs := hd.toList
    match cs with
    | k :: rest =>
      let digits := rest.filter Char.isDigit
      match (String.ofList digits).toNat?, ofHex srcHex with
      | some n, some src =>
        let dst := if rest.contains 'a' then src else List.replicate n (0xee : Byte)
        if k = 'E' then some (.enc dst src) else if k = 'D' then some (.dec dst src) else none
      | _, _ => none
    | [] => none
  | _ => none

def resStr : Except Model.SM4.Fault Bytes → String
  | .ok b => if b.isEmpty then "-" else toHex b
  | .error f => faultStr f

/-- `sm4hist <key> <op>…` : model results of a history on one object, and the spec's. -/
def sm4hist (args : List String) : String :=
  match args with
  | keyHex :: ops =>
    match ofHex keyHex, ops.mapM parseOp with
    | some key, some ops =>
      match Model.SM4.newCipher key with
      | .error f => faultStr f
      | .ok c =>
        let m := (Model.SM4.run c ops).map resStr
        " ".intercalate m
    | _, _ => "bad-op"
  | _ => "bad-op"

end Driver
