import Gmsm.Model.Resume
import Gmsm.Model.TicketCap
namespace Driver
open Model.Resume

def parseHexNat (s : String) : Option Nat :=
  s.toList.foldlM (fun acc c =>
    if '0' ≤ c ∧ c ≤ '9' then some (acc * 16 + (c.toNat - 48))
    else if 'a' ≤ c ∧ c ≤ 'f' then some (acc * 16 + (c.toNat - 87))
    else none) 0

def parseSuitesR (s : String) : Option (Option (List Suite)) :=
  if s = "-" then some none else ((s.splitOn "+").mapM parseHexNat).map some

def parseStep (st : String) : Option Step :=
  match st.splitOn ":" with
  | ["c", srv, su, cc, tamper] =>
    match srv.toNat?, parseSuitesR su, cc.toNat? with
    | some srv, some su, some cc => some (.conn ⟨srv % 2, su, cc, tamper ≠ "n"⟩)
    | _, _, _ => none
  | ["k", srv, ks] => match srv.toNat?, (ks.splitOn "+").mapM String.toNat? with
    | some srv, some ks => if ks.all (· < 1000000000) then some (.keys (srv % 2) ks) else none   -- `autoKey` names start at 10^9
    | _, _ => none
  | ["s", srv, su] => match srv.toNat?, parseSuitesR su with
    | some srv, some su => some (.suites (srv % 2) su) | _, _ => none
  | ["a", srv, a] => match srv.toNat?, a.toNat? with
    | some srv, some a => some (.auth (srv % 2) a) | _, _ => none
  | ["d", srv, b] => srv.toNat?.map fun srv => .disable (srv % 2) (b = "1")
  | ["v", srv, v] => match srv.toNat?, parseHexNat v with
    | some srv, some v => some (.maxv (srv % 2) v) | _, _ => none
  | ["z", b] => some (.clientOff (b = "1"))
  | ["n", srv] => srv.toNat?.map fun srv => .fresh (srv % 2)
  | _ => none

def showOutcome : Outcome → String
  | .full n => s!"F{n}" | .resumed s => s!"R{s}" | .error => "E"

def resumeOp (args : List String) : String :=
  match args with
  | [mode, cap, script] =>
    match (if mode = "gm" then some Mode.gm else if mode = "tls" then some Mode.tls else none), cap.toNat?,
          (script.splitOn ";").mapM parseStep with
    | some m, some cap, some steps =>
      let outs := run m (initWorld cap) steps
      if outs.isEmpty then "-" else ",".intercalate (outs.map showOutcome)
    | _, _, _ => "bad-op"
  | _ => "bad-op"

/-- `lru <cap> <op>…` with op `p:<key>:<val>` (Put) or `g:<key>` (Get): Model.Resume.Cache driven directly.
    Output: one token per Get, the value id or `-`; then `|` and the final contents, most recently used first. -/
def lruOp (args : List String) : String :=
  match args with
  | capS :: ops =>
    match capS.toInt? with
    | none => "bad-op"
    | some cap0 =>
      let cap := if cap0 < 1 then 64 else cap0.toNat      -- NewLRUClientSessionCache: capacity < 1 means 64
      let mkV (v : Nat) : Model.Resume.CSess := ⟨⟨0, ⟨v, 0, 0, 0, false⟩, true⟩, ⟨v, 0, 0, 0, false⟩⟩
      let r := ops.foldl (fun (acc : Option (Model.Resume.Cache × List String)) op =>
        match acc with
        | none => none
        | some (c, out) =>
          match op.splitOn ":" with
          | ["p", k, v] => match k.toNat?, v.toNat? with
            | some k, some v => some (c.put cap k (mkV v), out)
            | _, _ => none
          | ["g", k] => match k.toNat? with
            | some k => let (r, c') := c.get k
                        some (c', out ++ [match r with | some cs => toString cs.sess.sid | none => "-"])
            | none => none
          | _ => none) (some ([], []))
      match r with
      | none => "bad-op"
      | some (c, out) => " ".intercalate out ++ " | " ++ " ".intercalate (c.map fun e => s!"{e.1}={e.2.sess.sid}")
  | _ => "bad-op"

/-- `ticketcap <gm|tls> <certsize>`: three connections of a client whose only certificate has <certsize>
    bytes (48-byte master secret): the length of the ticket it caches after the first (0: none) and the
    outcome of each connection - Model.TicketCap.threeConnections -/
def ticketcapOp (args : List String) : String :=
  match args with
  | [mode, size] =>
    match (mode = "gm" || mode = "tls"), size.toNat? with
    | true, some n =>
      let (t, r2, r3) := Model.TicketCap.threeConnections 48 [n]
      s!"t={t},F," ++ (if r2 then "R" else "F") ++ "," ++ (if r3 then "R" else "F")
    | _, _ => "bad-op"
  | _ => "bad-op"

def resumeDispatch (toks : List String) : Option String :=
  match toks with
  | "resume" :: rest => some (resumeOp rest)
  | "lru" :: rest => some (lruOp rest)
  | "ticketcap" :: rest => some (ticketcapOp rest)
  | _ => none

end Driver
