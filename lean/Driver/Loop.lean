namespace Driver

partial def loop (dispatch : List String → String) (h : IO.FS.Stream) (out : IO.FS.Stream) : IO Unit := do
  let line ← h.getLine
  if line.isEmpty then return ()
  let toks := (line.trimAscii.toString.splitOn " ").filter (· ≠ "")
  out.putStrLn (dispatch toks)
  loop dispatch h out

def run (dispatch : List String → String) : IO Unit := do
  let out ← IO.getStdout
  loop dispatch (← IO.getStdin) out
  out.flush

end Driver
