/-
Driver for property C08: `auth <suite> <clientauth> <attack> <ccert> <isv> [param…]`.
Maps the line to an abstract connection — the client and server configurations of harness/c08.go over the
certificate table below, the attack as a mis-configuration or as a rewrite on the wire — and prints the verdict of
`Model.HandshakeAuth.run` over the ideal primitives: `c=… s=…` (attacks by a malicious end), or the canonical
`abort` / `both-done` (attacks named mitm-…).
-/
import Gmsm.Model.HandshakeAuth
namespace Driver
namespace C08
open Model Model.HandshakeAuth

/-- time unit: hours relative to the instant `Config.Time` returns -/
def mk (id subj iss key signer : Nat) (nb na : Int) (ca : Bool) (ku : Nat) (dns : List String) (cn : String)
    (eku : List Nat) : X509.Cert :=
  ⟨id, subj, iss, key, signer, none, none, nb, na, ca, ca, -1, ku, [], dns, [], cn, eku, false, false, 3⟩

def caMain : X509.Cert := mk 1 100 100 2000 2000 (-48) 48 true 96 [] "main CA" []
def caOther : X509.Cert := mk 2 200 200 2100 2100 (-48) 48 true 96 [] "other CA" []

def kuS : Nat := 1
def kuE : Nat := 28
def gm : List String := ["gm.test"]

/-- the certificates of harness/c08.go (`c08pki`) and harness/tls.go (`mkGMPKI`) -/
def table : List (Nat × PCert) :=
  [ (1, ⟨caMain, true⟩), (2, ⟨caOther, true⟩),
    -- harness/tlsinter.go: the intermediate CA the root issued, a CA certificate of the same name with another key
    -- issued by the other CA, the intermediate's name and key in an expired certificate; end-entity certificates
    -- issued by the intermediate
    (3, ⟨mk 3 300 100 2400 2000 (-48) 48 true 96 [] "main intermediate CA" [], true⟩),
    (4, ⟨mk 4 300 200 2500 2100 (-48) 48 true 96 [] "main intermediate CA" [], true⟩),
    (5, ⟨mk 5 300 100 2400 2000 (-72) (-1) true 96 [] "main intermediate CA" [], true⟩),
    (80, ⟨mk 80 110 300 2401 2400 (-24) 24 false kuS gm "gm.test" [1], true⟩),
    (81, ⟨mk 81 111 300 2402 2400 (-24) 24 false kuE gm "gm.test" [1], true⟩),
    (82, ⟨mk 82 182 300 2403 2400 (-24) 24 false kuS [] "inter client" [2], true⟩),
    (10, ⟨mk 10 110 100 2001 2000 (-24) 24 false kuS gm "gm.test" [1], true⟩),          -- main sign
    (11, ⟨mk 11 111 100 2002 2000 (-24) 24 false kuE gm "gm.test" [1], true⟩),          -- main enc
    (12, ⟨mk 12 112 100 2003 2000 (-24) 24 false kuS [] "main client" [2], true⟩),      -- main client
    (20, ⟨mk 20 110 200 2101 2100 (-24) 24 false kuS gm "gm.test" [1], true⟩),          -- other CA: sign
    (21, ⟨mk 21 111 200 2102 2100 (-24) 24 false kuE gm "gm.test" [1], true⟩),
    (22, ⟨mk 22 122 200 2103 2100 (-24) 24 false kuS [] "other client" [2], true⟩),
    (30, ⟨mk 30 110 100 2301 2000 (-24) 24 false kuS gm "gm.test" [1], true⟩),          -- second genuine sign
    (31, ⟨mk 31 111 100 2302 2000 (-24) 24 false kuE gm "gm.test" [1], true⟩),          -- second genuine enc
    (32, ⟨mk 32 132 100 2303 2000 (-24) 24 false kuS [] "main client 2" [2], true⟩),
    (40, ⟨mk 40 110 100 2001 2000 (-72) (-1) false kuS gm "gm.test" [1], true⟩),        -- expired
    (41, ⟨mk 41 111 100 2002 2000 (-72) (-1) false kuE gm "gm.test" [1], true⟩),
    (42, ⟨mk 42 110 100 2001 2000 1 24 false kuS gm "gm.test" [1], true⟩),              -- not yet valid
    (43, ⟨mk 43 111 100 2002 2000 1 24 false kuE gm "gm.test" [1], true⟩),
    (44, ⟨mk 44 144 100 2001 2000 (-24) 24 false kuS ["other.test"] "other.test" [1], true⟩),
    (45, ⟨mk 45 144 100 2002 2000 (-24) 24 false kuE ["other.test"] "other.test" [1], true⟩),
    (53, ⟨mk 53 153 100 2001 2000 (-24) 24 false kuS ["*.test"] "wildcard" [1], true⟩),  -- wildcard names
    (54, ⟨mk 54 154 100 2002 2000 (-24) 24 false kuE ["*.test"] "wildcard" [1], true⟩),
    (55, ⟨{ mk 55 155 100 2001 2000 (-24) 24 false kuS [] "ip" [1] with ips := ["10.1.2.3"] }, true⟩),     -- IP SAN only
    (56, ⟨{ mk 56 156 100 2002 2000 (-24) 24 false kuE [] "ip" [1] with ips := ["10.1.2.3"] }, true⟩),
    (57, ⟨{ mk 57 157 100 2001 2000 (-24) 24 false kuS [] "ip" [1] with ips := ["2001:db8::10"] }, true⟩),
    (58, ⟨{ mk 58 158 100 2002 2000 (-24) 24 false kuE [] "ip" [1] with ips := ["2001:db8::10"] }, true⟩),
    (46, ⟨mk 46 110 100 2001 2000 (-24) 24 false 0 gm "gm.test" [1], true⟩),            -- no key usage
    (47, ⟨mk 47 111 100 2002 2000 (-24) 24 false 0 gm "gm.test" [1], true⟩),
    (48, ⟨mk 48 111 100 2002 2000 (-24) 24 false kuS gm "gm.test" [1], true⟩),          -- signing usage, enc position
    (49, ⟨mk 49 110 100 2001 2000 (-24) 24 false kuE gm "gm.test" [1], true⟩),          -- encipherment usage, sign position
    (50, ⟨mk 50 110 100 2001 2000 (-24) 24 false (kuS ||| kuE) gm "gm.test" [1], true⟩), -- both usages
    (51, ⟨mk 51 110 100 2001 2000 (-24) 24 false kuS gm "gm.test" [2], true⟩),          -- clientAuth only, sign position
    (52, ⟨mk 52 111 100 2002 2000 (-24) 24 false kuE gm "gm.test" [2], true⟩),          -- clientAuth only, enc position
    (60, ⟨mk 60 160 300 2601 2600 (-24) 24 false 5 ["std.test"] "std.test" [1], false⟩), -- RSA
    (61, ⟨mk 61 161 300 2602 2600 (-24) 24 false 5 ["std.test"] "std.test" [1], false⟩), -- ECDSA P-256
    (70, ⟨mk 70 112 100 2003 2000 (-72) (-1) false kuS [] "main client" [2], true⟩),
    (71, ⟨mk 71 112 100 2003 2000 1 24 false kuS [] "main client" [2], true⟩),
    (72, ⟨mk 72 112 100 2003 2000 (-24) 24 false kuS [] "main client" [1], true⟩) ]     -- serverAuth only

def P : Prims := ideal table

/-- the certificates with the given table ids -/
def certsOf (ids : List Nat) : List X509.Cert :=
  ids.filterMap fun i => (table.find? (·.1 == i)).map (·.2.1)

def policyOf : String → Option Policy
  | "none" => some .noClientCert | "request" => some .requestClientCert | "requireany" => some .requireAnyClientCert
  | "verifyifgiven" => some .verifyClientCertIfGiven | "requireverify" => some .requireAndVerifyClientCert
  | _ => none

/-- the chain the client presents and the private key it holds -/
def ccertOf : String → Option (List Nat × Key)
  | "absent" => some ([], 0) | "trusted" => some ([12], 2003) | "untrusted" => some ([22], 2103)
  | "expired" => some ([70], 2003) | "notyet" => some ([71], 2003) | "wrongeku" => some ([72], 2003)
  | "wrongkey" => some ([12], 2950)
  | "chainlast" => some ([12, 22], 2103)   -- victim's certificate first, attacker's certificate and key last
  | "viainter" => some ([82, 3], 2403)      -- issued by the intermediate CA, sent with it
  | "viainter-nochain" => some ([82], 2403) -- … sent alone
  | _ => none

/-- server configuration of the s-… attacks: (certificate 0, its private key, certificate 1, its private key) -/
def serverOf : String → Option (Nat × Key × Nat × Key)
  | "s-signkey-wrong" => some (10, 2950, 11, 2002)
  | "s-enckey-wrong" => some (10, 2001, 11, 2951)
  | "s-untrusted" => some (20, 2101, 21, 2102)
  | "s-untrusted-withca" => some (20, 2101, 21, 2102)   -- plus its own CA as third entry: not a trust anchor
  | "s-untrusted-sign" => some (20, 2101, 11, 2002)
  | "s-untrusted-enc" => some (10, 2001, 21, 2102)
  | "s-expired-sign" => some (40, 2001, 11, 2002)
  | "s-expired-enc" => some (10, 2001, 41, 2002)
  | "s-notyet-sign" => some (42, 2001, 11, 2002)
  | "s-notyet-enc" => some (10, 2001, 43, 2002)
  | "s-wildcard-ok" => some (53, 2001, 54, 2002)
  | "s-wildcard-deep" => some (53, 2001, 54, 2002)
  | "s-ip-ok" => some (55, 2001, 56, 2002)
  | "s-ip-resume-other" => some (55, 2001, 56, 2002)   -- certified for 10.1.2.3, asked for 10.1.2.4 (after a cached session for 10.1.2.3)
  | "s-ip-other" => some (57, 2001, 58, 2002)
  | "s-ip-dnsonly" => some (10, 2001, 11, 2002)
  | "s-ip6-ok" => some (57, 2001, 58, 2002)
  | "s-ip6-dnsonly" => some (10, 2001, 11, 2002)
  | "s-ip6-sign-only" => some (57, 2001, 11, 2002)
  | "s-wrongname-sign" => some (44, 2001, 11, 2002)
  | "s-wrongname-enc" => some (10, 2001, 45, 2002)
  | "s-rsa-sign" => some (60, 2001, 11, 2002)
  | "s-rsa-enc" => some (10, 2001, 60, 2002)
  | "s-p256-sign" => some (61, 2001, 11, 2002)
  | "s-p256-enc" => some (10, 2001, 61, 2002)
  | "s-swapped" => some (11, 2002, 10, 2001)
  | "s-noku-sign" => some (46, 2001, 11, 2002)
  | "s-noku-enc" => some (10, 2001, 47, 2002)
  | "s-kusign-enc" => some (10, 2001, 48, 2002)
  | "s-kuenc-sign" => some (49, 2001, 11, 2002)
  | "s-dual" => some (50, 2001, 50, 2001)
  | "s-wrongeku-sign" => some (51, 2001, 11, 2002)
  | "s-wrongeku-enc" => some (10, 2001, 52, 2002)
  -- the client trusts exactly the two end-entity certificates the server presents (pinning), no CA
  | "s-pinned-ok" => some (10, 2001, 11, 2002)
  | "s-pinned-expired-sign" => some (40, 2001, 11, 2002)
  | "s-pinned-expired-enc" => some (10, 2001, 41, 2002)
  | "s-pinned-notyet-sign" => some (42, 2001, 11, 2002)
  | "s-pinned-wrongname" => some (44, 2001, 45, 2002)
  | "s-pinned-wrongeku-sign" => some (51, 2001, 11, 2002)
  | "s-pinned-other" => some (30, 2301, 31, 2302)          -- genuine certificates of the CA, but not the pinned ones
  -- certificates issued by the intermediate CA; the client trusts the root only
  | "s-inter-ok" | "s-inter-ok-both" | "s-inter-ok-signchain" | "s-inter-ok-third" | "s-inter-missing" | "s-inter-foreign"
  | "s-inter-expired" => some (80, 2401, 81, 2402)
  | _ => none

/-- what follows the end-entity certificate in the chain of key pair 0, of key pair 1, and further entries of
    `Config.Certificates` (harness/c08.go, harness/tlsinter.go `interLayout`) -/
def serverTails : String → List Nat × List Nat × List (List Nat)
  | "s-untrusted-withca" => ([], [2], [])     -- its own CA: not a trust anchor of the client
  | "s-inter-ok" => ([], [3], [])
  | "s-inter-ok-both" => ([3], [3], [])
  | "s-inter-ok-signchain" => ([3], [], [])
  | "s-inter-ok-third" => ([], [], [[3]])
  | "s-inter-foreign" => ([], [4], [])
  | "s-inter-expired" => ([], [5], [])
  | _ => ([], [], [])

def serverChains (attack : String) (c0 c1 : Nat) : List (List Nat) :=
  let t := serverTails attack
  (c0 :: t.1) :: (c1 :: t.2.1) :: t.2.2

def skeAttacks : List String := ["ske-otherrandoms", "ske-otherclientrandom", "ske-otherserverrandom", "ske-swaprandoms",
  "ske-othercert", "ske-nolen", "ske-by-enckey", "ske-by-otherkey", "ske-empty", "ske-replay"]

def cvAttacks : List String := ["cv-replay", "cv-otherdigest", "cv-empty"]

/-- scripted peers (gmtls/export_verif_c08.go): otherwise honest, consistent transcript -/
def evilAttacks : List String :=
  ["s-ske-omitted", "s-fin-firstbyte", "s-fin-first11", "s-fin-lastbit", "c-fin-firstbyte", "c-fin-first11", "c-fin-lastbit"]

def setAt (l : List Nat) (i v : Nat) : List Nat := l.set i v

/-- the `idx`-th plaintext handshake message of a direction, by name -/
def c2sMsgs (g : ClientFlight) : List String :=
  ["ch"] ++ (if g.cert.isSome then ["cert"] else []) ++ (if g.cke.isSome then ["cke"] else []) ++ (if g.cv.isSome then ["cv"] else [])
def s2cMsgs (f : ServerFlight) : List String :=
  ["sh", "cert"] ++ (if f.ske.isSome then ["ske"] else []) ++ (if f.certReq.isSome then ["cr"] else []) ++ (if f.done then ["shd"] else [])

/-- the rewrite of a mitm-… attack; `cap` is another session of the same two parties (for replays),
    `suite`/`other` the two ECC suites the client offers -/
def wireOf (attack : String) (params : List Nat) (other : Nat) (cap : Outcome) (cr : Nat) (ckey : Key) : Option Wire :=
  let capSke := cap.sflight.bind (·.ske)
  let capCke := cap.cflight.bind (·.cke)
  let capCv := cap.cflight.bind (·.cv)
  let ch (f : CHello → CHello) : Option Wire := some { ch := fun h => some (f h) }
  let s2c (f : ServerFlight → ServerFlight) : Option Wire := some { s2c := f }
  let c2s (f : ClientFlight → ClientFlight) : Option Wire := some { c2s := f }
  let sh (f : SHello → SHello) : Option Wire := s2c fun x => { x with sh := f x.sh }
  -- the malicious server's signature: key, covered data
  let forge (k : Key) (m : Nat → Nat → Nat → Signed) : Option Wire :=
    s2c fun x => { x with ske := x.ske.map fun _ => P.sign k (m cr x.sh.random (x.ders.getD 1 0)) }
  match attack with
  | "ske-otherrandoms" => forge 2001 fun _ _ e => .ske 9001 9002 e
  | "ske-otherclientrandom" => forge 2001 fun _ sr e => .ske 9001 sr e
  | "ske-otherserverrandom" => forge 2001 fun cr _ e => .ske cr 9002 e
  | "ske-swaprandoms" => forge 2001 fun cr sr e => .ske sr cr e
  | "ske-othercert" => forge 2001 fun cr sr _ => .ske cr sr 31
  | "ske-nolen" => forge 2001 fun cr sr e => .other [cr, sr, e]
  | "ske-by-enckey" => forge 2002 fun cr sr e => .ske cr sr e
  | "ske-by-otherkey" => forge 2950 fun cr sr e => .ske cr sr e
  | "ske-empty" => s2c fun x => { x with ske := x.ske.map fun _ => [] }
  -- the signature of another session in which the server used the same random (the client's differs)
  | "ske-replay" => forge 2001 fun _ sr e => .ske 1101 sr e
  -- the malicious client's CertificateVerify (when it presents a certificate at all)
  | "cv-replay" => c2s fun g => { g with cv := g.cv.map fun k => capCv.getD k }
  | "cv-otherdigest" => c2s fun g => { g with cv := g.cv.map fun _ => P.sign ckey (.transcript [4242]) }
  | "cv-empty" => c2s fun g => { g with cv := g.cv.map fun _ => [] }
  | "s-ske-omitted" => s2c fun x => { x with ske := none }
  | "s-fin-firstbyte" | "s-fin-first11" | "s-fin-lastbit" => some { finS := fun o => o.map (· ++ [1]) }
  | "c-fin-firstbyte" | "c-fin-first11" | "c-fin-lastbit" => some { finC := fun o => o.map (· ++ [1]) }
  | "cke-forge" => c2s fun g => { g with cke := g.cke.map fun _ => P.enc 2002 [7777] }
  | "mitm-ch-version" => ch fun h => { h with vers := 0x0303 }
  | "mitm-ch-version-low" => ch fun h => { h with vers := 0x0100 }
  | "mitm-ch-random" => ch fun h => { h with random := h.random + 1 }
  | "mitm-ch-sessionid" => ch fun h => { h with sid := 86 }
  | "mitm-ch-suites-other" => ch fun h => { h with suites := [other] }
  | "mitm-ch-suites-reorder" => ch fun h => { h with suites := other :: h.suites.filter (· != other) }
  | "mitm-ch-suites-append" => ch fun h => { h with suites := h.suites ++ [0x00ff] }
  | "mitm-ch-compression" => ch fun h => { h with comps := [1, 0] }
  | "mitm-ch-compression-only" => ch fun h => { h with comps := [1] }
  | "mitm-ch-ext-strip" => ch fun h => { h with ext := 0 }
  | "mitm-ch-ext-sni" => ch fun h => { h with ext := h.ext + 1 }
  | "mitm-ch-ext-add" => ch fun h => { h with ext := h.ext + 1000 }
  | "mitm-sh-version" => sh fun h => { h with vers := 0x0303 }
  | "mitm-sh-version-low" => sh fun h => { h with vers := 0x0100 }
  | "mitm-sh-random" => sh fun h => { h with random := h.random + 1 }
  | "mitm-sh-sessionid" => sh fun h => { h with sid := 87 }
  | "mitm-sh-suite" => sh fun h => { h with suite := other }
  | "mitm-sh-suite-ecdhe" => sh fun h => { h with suite := 0xe011 }
  | "mitm-sh-compression" => sh fun h => { h with comp := 1 }
  | "mitm-sh-ext-add" => sh fun h => { h with ext := h.ext + 1000 }
  | "mitm-cert-swap-sign" => s2c fun x => if x.ders.length < 2 then x else { x with ders := setAt x.ders 0 30 }
  | "mitm-cert-swap-enc" => s2c fun x => if x.ders.length < 2 then x else { x with ders := setAt x.ders 1 31 }
  | "mitm-cert-reorder" => s2c fun x => match x.ders with | a :: b :: r => { x with ders := b :: a :: r } | _ => x
  | "mitm-cert-truncate" => s2c fun x => if x.ders.length < 2 then x else { x with ders := x.ders.take 1 }
  | "mitm-cert-empty" => s2c fun x => if x.ders.length < 2 then x else { x with ders := [] }
  | "mitm-cert-append" => s2c fun x => if x.ders.length < 2 then x else { x with ders := x.ders ++ [1] }
  | "mitm-cert-append-foreign" => s2c fun x => if x.ders.length < 2 then x else { x with ders := x.ders ++ [2] }
  | "mitm-ske-flip" => s2c fun x => { x with ske := x.ske.map (· ++ [1]) }
  | "mitm-ske-replay" => s2c fun x => { x with ske := x.ske.map fun s => capSke.getD s }
  | "mitm-ske-drop" => s2c fun x => { x with ske := none }
  | "mitm-cr-types" => s2c fun x => { x with certReq := x.certReq.map fun r => (r.1 + 64, r.2) }
  | "mitm-cr-cas" => s2c fun x => { x with certReq := x.certReq.map fun r => (r.1, 200) }
  | "mitm-shd-body" => s2c fun x => { x with done := false }   -- a ServerHelloDone with a body is no ServerHelloDone
  | "mitm-cr-drop" => s2c fun x => { x with certReq := none }
  | "mitm-cr-insert" => s2c fun x => { x with certReq := some (x.certReq.getD (2, 0)) }
  | "mitm-ccert-swap" => c2s fun g => { g with cert := g.cert.map fun _ => [32] }
  | "mitm-ccert-empty" => c2s fun g => { g with cert := g.cert.map fun _ => [] }
  | "mitm-cke-flip" => c2s fun g => { g with cke := g.cke.map (· ++ [1]) }
  | "mitm-cke-replay" => c2s fun g => { g with cke := g.cke.map fun k => capCke.getD k }
  | "mitm-cv-flip" => c2s fun g => { g with cv := g.cv.map (· ++ [1]) }
  | "mitm-cv-replay" => c2s fun g => { g with cv := g.cv.map fun k => capCv.getD k }
  | "mitm-cv-drop" => c2s fun g => { g with cv := none }
  | "mitm-cfin-flip" | "mitm-cccs-drop" => some { finC := fun _ => none }
  | "mitm-sfin-flip" | "mitm-sccs-drop" => some { finS := fun _ => none }
  | "mitm-flip" | "mitm-drop" | "mitm-dup" =>
    let dir := params.getD 0 0 % 2
    let idx := params.getD 1 0
    let kind := attack
    if dir == 0 then
      if idx == 0 then
        some { ch := fun h => if kind == "mitm-drop" then none else if kind == "mitm-flip" then some { h with ext := h.ext + 1 } else some h,
               c2s := fun g => if kind == "mitm-dup" then { g with inOrder := false } else g }
      else c2s fun g =>
        match (c2sMsgs g)[idx]? with
        | none => g
        | some name =>
          if kind == "mitm-dup" then { g with inOrder := false }
          else if kind == "mitm-drop" then
            (match name with | "cert" => { g with cert := none } | "cke" => { g with cke := none } | _ => { g with cv := none })
          else
            (match name with
             | "cert" => { g with cert := g.cert.map fun _ => [999] }
             | "cke" => { g with cke := g.cke.map (· ++ [1]) }
             | _ => { g with cv := g.cv.map (· ++ [1]) })
    else s2c fun x =>
      match (s2cMsgs x)[idx]? with
      | none => x
      | some name =>
        if kind == "mitm-dup" then { x with inOrder := false }
        else if kind == "mitm-drop" then
          (match name with
           | "sh" | "cert" => { x with inOrder := false }
           | "ske" => { x with ske := none }
           | "cr" => { x with certReq := none }
           | _ => { x with done := false })
        else
          (match name with
           | "sh" => { x with sh := { x.sh with ext := x.sh.ext + 1 } }
           | "cert" => { x with ders := setAt x.ders 0 999 }
           | "ske" => { x with ske := x.ske.map (· ++ [1]) }
           | "cr" => { x with certReq := x.certReq.map fun r => (r.1 + 1, r.2) }
           | _ => { x with inOrder := false })
  | _ => none

def word (b : Bool) : String := if b then "done" else "abort"

def authOp (args : List String) : String :=
  match args with
  | suiteS :: polS :: attack :: ccertS :: isvS :: paramS =>
    let suite? : Option (Nat × Nat) := if suiteS == "e013" then some (0xe013, 0xe053) else if suiteS == "e053" then some (0xe053, 0xe013) else none
    match suite?, policyOf polS, ccertOf ccertS, paramS.mapM String.toNat? with
    | some (suite, other), some pol, some (chain, ckey), some params =>
      if isvS != "0" && isvS != "1" then "bad-op" else
      let scfg : Option (Nat × Key × Nat × Key) :=
        if attack.startsWith "s-" && !evilAttacks.contains attack then serverOf attack else some (10, 2001, 11, 2002)
      match scfg with
      | none => "bad-op"
      | some (c0, k0, c1, k1) =>
        let mkClient (random : Nat) (pms : Val) : Client :=
          { insecureSkipVerify := isvS == "1",
            roots := (if attack == "s-pinned-other" then certsOf [10, 11]
                      else if attack.startsWith "s-pinned-" then certsOf [c0, c1] else [caMain]), opts := (if attack.startsWith "s-ip6-" then ⟨0, "2001:db8::10", true, "2001:db8::10", []⟩
              else if attack = "s-ip-resume-other" then ⟨0, "10.1.2.4", true, "10.1.2.4", []⟩
              else if attack.startsWith "s-ip-" then ⟨0, "10.1.2.3", true, "10.1.2.3", []⟩
              else ⟨0, (if attack = "s-wildcard-deep" then "a.gm.test" else "gm.test"), false, "", []⟩),
            suites := [suite, other], ext := 7, cert := chain, key := ckey, random := random, pms := pms }
        let mkServer (random : Nat) : Server :=
          { certs := certList (serverChains attack c0 c1), encDer := c1, signKey := k0, decKey := k1, clientAuth := pol, clientCAs := [caMain], now := 0,
            suites := gmSuites, random := random, ext := 9, certReq := (3, 100) }
        let known := attack == "honest" || attack.startsWith "s-" || skeAttacks.contains attack || attack == "cke-forge" ||
          cvAttacks.contains attack || evilAttacks.contains attack ||
          attack.startsWith "mitm-"
        if !known then "bad-op" else
        let cap := run P (mkClient 1101 [5105]) (mkServer 2102) {}
        let wire? : Option Wire := if attack == "honest" || (attack.startsWith "s-" && !evilAttacks.contains attack) then some {} else wireOf attack params other cap 1001 ckey
        match wire? with
        | none => "bad-op"
        | some w =>
          let o := run P (mkClient 1001 [5005]) (mkServer 2002) w
          if attack.startsWith "mitm-" then (if o.clientDone && o.serverDone then "both-done" else "abort")
          else "c=" ++ word o.clientDone ++ " s=" ++ word o.serverDone
    | _, _, _, _ => "bad-op"
  | _ => "bad-op"

def hex4 (n : Nat) : String :=
  let d (k : Nat) : Char := let x := (n / 16 ^ k) % 16; if x < 10 then Char.ofNat (48 + x) else Char.ofNat (87 + x)
  String.ofList [d 3, d 2, d 1, d 0]

/-- `hsinter <mode> <suite> <layout> <auth> <ccert> <src> <payload>` (harness/c06inter.go, property C06): server
    certificates issued by the intermediate CA, supplied in one of the layouts; client and server trust the root only.
    The verdict is that of `Model.HandshakeAuth.run` (the GMSSL-only and the auto-switch server run the same code for a
    GMSSL ClientHello; static configuration and callbacks yield the same two chains). -/
def hsinterOp (args : List String) : String :=
  match args with
  | [mode, suiteS, layout, authS, ccS, src, _pay] =>
    let suite? : Option Nat := if suiteS == "e013" then some 0xe013 else if suiteS == "e053" then some 0xe053 else none
    let pol? : Option Policy := match authS with
      | "0" => some .noClientCert | "1" => some .requestClientCert | "2" => some .requireAnyClientCert
      | "3" => some .verifyClientCertIfGiven | "4" => some .requireAndVerifyClientCert | _ => none
    let chains? : Option (List (List Nat)) := match layout with
      | "gmt" => some [[80], [81, 3]] | "both" => some [[80, 3], [81, 3]] | "signchain" => some [[80, 3], [81]]
      | "none" => some [[80], [81]] | _ => none
    let cc? : Option (List Nat × Key) := match ccS with
      | "0" => some ([], 0) | "1" => some ([12], 2003) | "3" => some ([82, 3], 2403) | "4" => some ([82], 2403) | _ => none
    match suite?, pol?, chains?, cc? with
    | some suite, some pol, some chains, some (chain, ckey) =>
      if !(mode == "gm" || mode == "auto") || !(src == "s" || src == "c") then "bad-op" else
      let c : Client :=
        { insecureSkipVerify := false, roots := [caMain], opts := ⟨0, "gm.test", false, "", []⟩, suites := [suite], ext := 7,
          cert := chain, key := ckey, random := 1001, pms := [5005] }
      let s : Server :=
        { certs := certList chains, encDer := 81, signKey := 2401, decKey := 2402, clientAuth := pol, clientCAs := [caMain], now := 0,
          suites := [suite], random := 2002, ext := 9, certReq := (3, 100) }
      let o := run P c s {}
      if o.clientDone && o.serverDone then
        let n := match o.sview.bind (·.cert) with | some l => l.length | none => 0
        s!"ok 0101 {hex4 suite} {n}"
      else "fail"
    | _, _, _, _ => "bad-op"
  | _ => "bad-op"

end C08

def handshakeAuthDispatch (toks : List String) : Option String :=
  match toks with
  | "auth" :: rest => some (C08.authOp rest)
  | "hsinter" :: rest => some (C08.hsinterOp rest)
  | _ => none

end Driver
