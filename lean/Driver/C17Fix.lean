/-
Ops that came with six repairs of pkcs12/pkcs12.go and x509/pkcs7.go (harness/c17fix2.go):

  p12ca <rsa|p256|sm2> <nca> <pwd>          Encode with nca CA certificates, then DecodeAll / Decode / ToPEM (Model.P12Bags):
                                             all=<n>:decode=<leaf|ca<i>|err>:topem=<k>k<c>c|err
  p7envkt <rsa|sm2> <alg> <pattern> <c>     PKCS7Encrypt / PKCS7EncryptSM2 for recipients r (RSA) / s (SM2) (Model.P7Parse):
                                             ok | unsupported
  p7seg <kind> <d|i|n> <parts> <content>    SignedData with its content in <parts> OCTET STRING segments (Model.P7Parse):
                                             <Content>:<accept|reject> | parse-error
  p7sdbad <mutation> <content>              the library's SignedData with one structural change to its body (Model.P7Parse):
                                             ok:<signers>:<certificates> | err
-/
import Gmsm.Model.P12Bags
import Gmsm.Model.P7Parse
import Driver.P7Emp
namespace Driver
open Gmsm

def p12caOp (args : List String) : String :=
  open Gmsm.Model.P12Bags in
  match args with
  | [kind, nca, pwd] =>
    match nca.toNat?, ofHex pwd with
    | some nca, some _ =>
      if nca > 2 ∨ ¬ (kind ∈ ["rsa", "p256", "sm2"]) then "bad-op" else
      -- the leaf is certificate 0 (an SM2 certificate is not read by the standard library), the CA certificates
      -- 1..nca are RSA certificates
      let leaf : Cert := ⟨0, kind != "sm2"⟩
      let cas : List Cert := (List.range nca).map fun i => ⟨i + 1, true⟩
      let bags := encodeBags 7 leaf cas
      let all := match decodeAll bags with
        | .ok (_, cs) => toString cs.length
        | .error _ => "err"
      let dec := match decode bags with
        | .ok (_, c) => if c.id = 0 then "leaf" else "ca" ++ toString c.id
        | .error _ => "err"
      let pemS := match toPEM bags with
        | .ok bs =>
          let nk := (bs.filter fun b => match b with | .privateKey _ => true | _ => false).length
          toString nk ++ "k" ++ toString (bs.length - nk) ++ "c"
        | .error _ => "err"
      "all=" ++ all ++ ":decode=" ++ dec ++ ":topem=" ++ pemS
    | _, _ => "bad-op"
  | _ => "bad-op"

def p7envktOp (args : List String) : String :=
  open Gmsm.Model.P7Parse in
  match args with
  | [api, alg, pat, content] =>
    let kinds : Option (List KeyKind) := pat.toList.mapM fun ch =>
      if ch = 'r' then some KeyKind.rsa else if ch = 's' then some KeyKind.ec else none
    let api? : Option Api := if api = "rsa" then some .rsa else if api = "sm2" then some .sm2 else none
    match api?, kinds, ofHex content with
    | some a, some ks, some _ =>
      if ks.length < 1 ∨ ks.length > 3 ∨ ¬ (alg = "des" ∨ alg = "aesgcm") then "bad-op"
      else if encryptRecipients a ks then "ok" else "unsupported"
    | _, _, _ => "bad-op"
  | _ => "bad-op"

/-- segment i of n: bytes [len*i/n, len*(i+1)/n) -/
def p7segSplit (c : Bytes) (n : Nat) : List Bytes :=
  (List.range n).map fun i => (c.drop (c.length * i / n)).take (c.length * (i + 1) / n - c.length * i / n)

def p7segOp (args : List String) : String :=
  open Gmsm.Model.P7Parse in
  match args with
  | [kind, form, parts, content] =>
    match parts.toNat?, ofHex content with
    | some n, some c =>
      if n < 1 ∨ n > 4 ∨ ¬ (form ∈ ["d", "i", "n"]) ∨
         ¬ (kind ∈ ["rsa", "sm2a", "sm2b", "sm2na", "sm2nb", "sm2ga", "sm2gb", "sm2gna", "sm2gnb"]) then "bad-op" else
      let segs : List Segment := (p7segSplit c n).map .prim
      -- form n: the first segment is itself a constructed OCTET STRING
      let segs := if form = "n" then .notOctets :: segs.drop 1 else segs
      match parseSignedData ⟨true, true, .constructed segs⟩ with
      | .error _ => "parse-error"
      -- the signer signed `c`: the verdict on the object is the verdict on the content it holds
      | .ok got => hx got ++ ":" ++ (if got = c then "accept" else "reject")
    | _, _ => "bad-op"
  | _ => "bad-op"

/-- the structural changes of `p7sdbad`: does `asn1.Unmarshal(data, &sd)` still decode the body?
    (`encoding/asn1` ignores extra members at the end of a SEQUENCE; every other change breaks a tag the
    structure requires) -/
def p7sdbadDecodes : String → Option Bool
  | "none" => some true
  | "extra-member" => some true
  | "null-body" => some false
  | "signers-seq" => some false
  | "digestalgs-seq" => some false
  | "version-octets" => some false
  | "no-signers" => some false
  | "signature-bits" => some false
  | "signer-version-bool" => some false
  | "content-type-int" => some false
  | _ => none

def p7sdbadOp (args : List String) : String :=
  open Gmsm.Model.P7Parse in
  match args with
  | [m, content] =>
    match p7sdbadDecodes m, ofHex content with
    | some ok, some c =>
      match parseSignedData ⟨ok, true, .primitive c⟩ with
      | .ok _ => "ok:1:1"     -- one signer, one certificate: what the harness put in
      | .error _ => "err"
    | _, _ => "bad-op"
  | _ => "bad-op"

def c17fixDispatch (toks : List String) : Option String :=
  match toks with
  | "p12ca" :: rest => some (p12caOp rest)
  | "p7envkt" :: rest => some (p7envktOp rest)
  | "p7seg" :: rest => some (p7segOp rest)
  | "p7sdbad" :: rest => some (p7sdbadOp rest)
  | _ => p7empDispatch toks   -- p7emp (Driver/P7Emp.lean)

end Driver
