/-
Ops that came with two repairs (x509 pad() writing into the caller's buffer; pkcs12 RSA keys):

  p7padmem <blocklen> <lead> <spare> <data>   pad() on a record inside a larger buffer (Model.SliceMem.padMem):
                                              <out>:<buffer after the call> | err:<buffer>
  p12k <kind> <d> <pwd> <wrongpwd>            Encode then DecodeAll / ToPEM for a key of the given kind (Model.PKCS8):
                                              reject | undecodable | ok:<decoded key type>:topem=<ok|err>
-/
import Gmsm.Model.SliceMem
import Gmsm.Model.PKCS8
import Driver.C17Fix
namespace Driver
open Gmsm

def p7padmemOp (args : List String) : String :=
  open Gmsm.Model.SliceMem in
  match args with
  | [bl, lead, spare, d] =>
    match bl.toNat?, lead.toNat?, spare.toNat?, ofHex d with
    | some bl, some lead, some spare, some d =>
      let arena : Bytes := List.replicate lead 0xa7 ++ d ++ List.replicate spare 0xa7
      let h : Heap := [arena]
      match padMem h ⟨0, lead, d.length, d.length + spare⟩ bl with
      | none => "err:" ++ hx arena
      | some (h', out) => hx (elems h' out) ++ ":" ++ hx (arr h' 0)
    | _, _, _, _ => "bad-op"
  | _ => "bad-op"

def p12kCurveName : Model.PKCS8.Curve → String
  | .p224 => "p224" | .p256 => "p256" | .p384 => "p384" | .p521 => "p521" | .sm2 => "sm2"

def p12kKey (kind d : String) : Option Model.PKCS8.Key :=
  open Gmsm.Model.PKCS8 in
  let ec (f : Nat → Key) : Option Key := (ofHex d).map fun b => f (os2ip b)
  match kind with
  | "rsa" => d.toNat?.map fun i => Key.rsa ⟨i, 65537, 0⟩
  | "p224" => ec (Key.ecdsa .p224)
  | "p256" => ec (Key.ecdsa .p256)
  | "p384" => ec (Key.ecdsa .p384)
  | "p521" => ec (Key.ecdsa .p521)
  | "sm2ec" => ec (Key.ecdsa .sm2)
  | "sm2" => ec (Key.sm2 .sm2)
  | "ed25519" => some Key.other
  | _ => none

def p12kOp (args : List String) : String :=
  open Gmsm.Model.PKCS8 in
  match args with
  | [kind, d, _, _] =>
    match p12kKey kind d with
    | none => "bad-op"
    | some k =>
      match marshal k with
      | none => "reject"
      | some p =>
        match parse stdParams p with
        | .error _ => "undecodable"
        | .ok pk =>
          let name := match pk with
            | .rsa _ => "rsa"
            | .ecdsa c _ => "ecdsa-" ++ p12kCurveName c
          "ok:" ++ name ++ ":topem=" ++ (if (toPEM pk).isSome then "ok" else "err")
  | _ => "bad-op"

def p7fixDispatch (toks : List String) : Option String :=
  match toks with
  | "p7padmem" :: rest => some (p7padmemOp rest)
  | "p12k" :: rest => some (p12kOp rest)
  | _ => c17fixDispatch toks   -- p12ca, p7envkt, p7seg, p7sdbad (Driver/C17Fix.lean)

end Driver
