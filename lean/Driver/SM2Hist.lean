/-
`sm2hist <d0>[,<d1>…] <step>…` : a history of SM2 calls, every step judged ON ITS OWN by the specification
(`Model.Hist.run` of `histStep`: no state is carried from one step to the next; see Props.C01Hist).

  s<k>:<uid>:<msg>:<rand>    → r:s:consumed | err      (as `sm2sign`: Spec.SM2.signWith over the 40-byte chunks)
  v<k>:<uid>:<msg>:<r>:<s>   → 1 | 0                   (as `sm2verify`: Spec.SM2.verify)
  z<k>:<uid>                 → hex of Spec.SM2.za | err (no default ID: `-` is the empty ID)
  h<k>:<uid>:<msg>           → hex of the minimal big-endian bytes of e = Hv(ZA ‖ M) | err

Results joined by `,`.  `sm2histok <keys> <results of the code> <step>…` is the judge op of ./check for a differing
line: `true` iff every result of the code satisfies the property for its step - a signature need not be the model's
(another nonce derivation is not a violation) but must VERIFY for the step's own ID and message under the step's key,
with `err` exactly where the specification has no signature; every other step must answer exactly as the specification.
Spec-level, core Lean only.
-/
import Driver.SM2
import Gmsm.Model.Hist
namespace Driver
open Gmsm Spec.SM2

/-- (d, x, y) for every private key of the first token -/
def histKeys (tok : String) : Option (List (Nat × Nat × Nat)) :=
  (tok.splitOn ",").mapM fun h =>
    if h = "" ∨ h = "-" then none else
    (natOf h).map fun d => let (x, y) := enc (smul d G); (d, x, y)

/-- kind, key index, fields -/
def histParse (a : String) : Option (Char × Nat × List String) :=
  match a.splitOn ":" with
  | tag :: rest =>
    match tag.toList with
    | c :: ds => if ds.isEmpty then none else (String.ofList ds).toNat?.map fun i => (c, i, rest)
    | [] => none
  | [] => none

def histStep (keys : List (Nat × Nat × Nat)) (a : String) : String :=
  match histParse a with
  | none => "bad-op"
  | some (c, i, rest) =>
    match keys[i]? with
    | none => "bad-op"
    | some (d, px, py) =>
      match c, rest with
      | 's', [uid, msg, rnd] =>
        match uidOf uid, ofHex msg, ofHex rnd with
        | some uid, some msg, some rnd =>
          if uid.length ≥ 8192 then "err" else
          match signLoop d (msgE uid px py msg) (rnd.length / 40 + 1) rnd 0 with
          | some (r, s, used) => s!"{h32 r}:{h32 s}:{used}"
          | none => "err"
        | _, _, _ => "bad-op"
      | 'v', [uid, msg, r, s] =>
        match uidOf uid, ofHex msg, natOf r, natOf s with
        | some uid, some msg, some r, some s =>
          if uid.length ≥ 8192 then "0" else if verify px py uid msg r s then "1" else "0"
        | _, _, _, _ => "bad-op"
      | 'z', [uid] =>
        match ofHex uid with
        | some uid => if uid.length ≥ 8192 then "err" else hx (za uid px py)
        | none => "bad-op"
      | 'h', [uid, msg] =>
        match uidOf uid, ofHex msg with
        | some uid, some msg => if uid.length ≥ 8192 then "err" else hx (natBytes (msgE uid px py msg))
        | _, _ => "bad-op"
      | _, _ => "bad-op"

def sm2hist (args : List String) : String :=
  match args with
  | keys :: steps =>
    if steps.isEmpty then "bad-op" else
    match histKeys keys with
    | none => "bad-op"
    | some ks =>
      let res := Model.Hist.run (histStep ks) steps
      if res.contains "bad-op" then "bad-op" else ",".intercalate res
  | [] => "bad-op"

/-- does the code's answer to one step satisfy the property? -/
def histStepOk (keys : List (Nat × Nat × Nat)) (a impl : String) : Bool :=
  match histParse a with
  | some ('s', i, [uid, msg, rnd]) =>
    let want := histStep keys a
    if want = "bad-op" then false
    else if want = "err" then impl = "err"
    else
      match keys[i]?, uidOf uid, ofHex msg, impl.splitOn ":" with
      | some (_, px, py), some uid, some msg, [r, s, _] =>
        match natOf r, natOf s with
        | some r, some s => rnd.length > 0 && verify px py uid msg r s
        | _, _ => false
      | _, _, _, _ => false
  | _ => histStep keys a = impl

def sm2histok (args : List String) : String :=
  match args with
  | keys :: impl :: steps =>
    match histKeys keys with
    | none => "bad-op"
    | some ks =>
      let rs := impl.splitOn ","
      if rs.length ≠ steps.length then "false"
      else if (steps.zip rs).all fun (a, r) => histStepOk ks a r then "true" else "false"
  | _ => "bad-op"

def sm2histDispatch (toks : List String) : Option String :=
  match toks with
  | "sm2hist" :: r => some (sm2hist r)
  | "sm2histok" :: r => some (sm2histok r)
  | _ => none

end Driver
