import Gmsm.Spec.TLSPRF
import Gmsm.Model.Record
namespace Driver
open Gmsm Model.Record Spec.TLSPRF

/-- decrypt a list of "tt:body" records (tt = record type in hex) with one half-connection: the handshake
    payloads (type 22) and the application data (type 23), stopping at an alert -/
def decryptAll : List (Byte × Bytes) → Half → Option (Bytes × Bytes)
  | [], _ => some ([], [])
  | (typ, body) :: rest, h =>
    match h.decrypt typ body with
    | (none, _) => none
    | (some p, h') =>
      if typ = 21 then some ([], [])
      else match decryptAll rest h' with
        | none => none
        | some (hs, app) => if typ = 22 then some (p ++ hs, app) else if typ = 23 then some (hs, p ++ app) else none

def parseRecs (s : String) : Option (List (Byte × Bytes)) :=
  if s = "-" then some [] else
  (s.splitOn ",").mapM fun r =>
    match r.splitOn ":" with
    | [t, b] => match ofHex t, ofHex b with
      | some [t], some b => some (t, b)
      | _, _ => none
    | _ => none

/-- `gmdecode <cbc|gcm> <master> <crandom> <srandom> <transcript> <c2s recs> <s2c recs> <c2s plain> <s2c plain>` -/
def gmdecodeOp (args : List String) : String :=
  match args with
  | [suite, master, cr, sr, transcript, c2s, s2c, pc, ps] =>
    match ofHex master, ofHex cr, ofHex sr, ofHex transcript, parseRecs c2s, parseRecs s2c, ofHex pc, ofHex ps with
    | some master, some cr, some sr, some tr, some c2s, some s2c, some pc, some ps =>
      let su? : Option (Suite × Nat × Nat) := if suite = "cbc" then some (.cbc, 32, 16) else if suite = "gcm" then some (.gcm, 0, 4) else none
      match su? with
      | none => "bad-op"
      | some (su, macLen, ivLen) =>
        let kb := keyBlock master cr sr macLen 16 ivLen
        let cHalf : Half := ⟨su, ⟨kb.clientMAC, kb.clientKey, kb.clientIV⟩, 0⟩
        let sHalf : Half := ⟨su, ⟨kb.serverMAC, kb.serverKey, kb.serverIV⟩, 0⟩
        match decryptAll c2s cHalf, decryptAll s2c sHalf with
        | some (chs, capp), some (shs, sapp) =>
          let cfin : Bytes := [0x14, 0x00, 0x00, 0x0c] ++ verifyData master "client finished" tr
          let sfin : Bytes := [0x14, 0x00, 0x00, 0x0c] ++ verifyData master "server finished" (tr ++ cfin)
          if chs ≠ cfin then "mismatch:client-finished"
          else if shs ≠ sfin then "mismatch:server-finished"
          else if capp ≠ pc then "mismatch:c2s-data"
          else if sapp ≠ ps then "mismatch:s2c-data"
          else "ok"
        | none, _ => "mismatch:c2s-record"
        | _, none => "mismatch:s2c-record"
    | _, _, _, _, _, _, _, _ => "bad-op"
  | _ => "bad-op"

def gmdecodeDispatch (toks : List String) : Option String :=
  match toks with
  | "gmdecode" :: rest => some (gmdecodeOp rest)
  | _ => none

end Driver
