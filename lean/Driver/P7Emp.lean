/-
Op of the repair of x509/ber.go (an indefinite-length constructed value with no members):

  p7emp <kind> <enc p|c|s|e|x|y> <tamper 0|1>
      attached SignedData over the EMPTY content whose content node ([0] EXPLICIT { OCTET STRING }) is written in the
      BER form <enc> (harness/c17fix3.go).  The node goes through `Model.BER.ber2der` / `readObject` (what ParsePKCS7
      does with the whole input first), the resulting tree is handed to `Model.P7Parse.parseSignedData`; the verdict
      of the signer over the returned content: accept iff it is the signed (empty) content and the signature is
      untouched.  Result: <hex content>:<accept|reject> | parse-error
-/
import Gmsm.Model.BER
import Gmsm.Model.P7Parse
namespace Driver
open Gmsm Model.BER

/-- the `[0] EXPLICIT` content node of contentInfo, as the harness writes it -/
def p7empNode : String → Option Bytes
  | "p" => some [0xa0, 0x02, 0x04, 0x00]
  | "c" => some [0xa0, 0x02, 0x24, 0x00]
  | "s" => some [0xa0, 0x06, 0x24, 0x80, 0x04, 0x00, 0x00, 0x00]
  | "e" => some [0xa0, 0x04, 0x24, 0x80, 0x00, 0x00]
  | "x" => some [0xa0, 0x80, 0x24, 0x80, 0x00, 0x00, 0x00, 0x00]
  | "y" => some [0xa0, 0x08, 0x24, 0x80, 0x24, 0x80, 0x00, 0x00, 0x00, 0x00]
  | _ => none

/-- what `asn1.Unmarshal` makes of the transcoded node: the content OCTET STRING, primitive or constructed -/
def p7empContent : Obj → Option Gmsm.Model.P7Parse.Content
  | .cons _ [.prim t c] => if t = [0x04] then some (.primitive c) else none
  | .cons _ [.cons t items] =>
    if t = [0x24] then
      some (.constructed (items.map fun
        | .prim t c => if t = [0x04] then .prim c else .notOctets
        | .cons _ _ => .notOctets))
    else none
  | _ => none

def p7empOp (args : List String) : String :=
  open Gmsm.Model.P7Parse in
  match args with
  | [kind, enc, tamper] =>
    if ¬ (kind ∈ ["rsa", "sm2a", "sm2b", "sm2na", "sm2nb", "sm2ga", "sm2gb", "sm2gna", "sm2gnb"]) ∨
       ¬ (tamper = "0" ∨ tamper = "1") then "bad-op" else
    match p7empNode enc with
    | none => "bad-op"
    | some node =>
      -- ParsePKCS7: ber2der first (an error there is an error of ParsePKCS7) …
      match ber2der node with
      | .error _ => "parse-error"
      | .ok der =>
        -- … then the decoder on the DER: the same tree, now with definite lengths
        match readObject (2 * der.length + 2) der 0 0 with
        | .error _ => "parse-error"
        | .ok (o, _) =>
          match p7empContent o with
          | none => "parse-error"
          | some content =>
            match parseSignedData ⟨true, true, content⟩ with
            | .error _ => "parse-error"
            | .ok got => hx got ++ ":" ++ (if got = [] ∧ tamper = "0" then "accept" else "reject")
  | _ => "bad-op"

def p7empDispatch (toks : List String) : Option String :=
  match toks with
  | "p7emp" :: rest => some (p7empOp rest)
  | _ => none

end Driver
