/-
Spec-level SM2 operations (only `Spec.*`): available in both drivers.
-/
import Gmsm.Spec.SM2
import Gmsm.Spec.DER
import Gmsm.Model.X509Sig
namespace Driver
open Gmsm Spec.SM2

def h32 (v : Nat) : String := toHex (b32 v)
def ptStr (P : Pt) : String := let (x, y) := enc P; h32 x ++ " " ++ h32 y
def natOf (s : String) : Option Nat := (ofHex s).map os2ip

def ecsmul (args : List String) : String :=
  match args with
  | [x, y, k] => match natOf x, natOf y, natOf k with
    | some x, some y, some k => ptStr (smul (k % n) (dec x y))
    | _, _, _ => "bad-op"
  | _ => "bad-op"

/-- `ecsmulseq <x,y,k> …` : every call judged on its own -/
def ecsmulseq (args : List String) : String :=
  "/".intercalate (args.map fun a => ecsmul (a.splitOn ","))

def ecbase (args : List String) : String :=
  match args with
  | [k] => match natOf k with
    | some k => ptStr (smul (k % n) G)
    | none => "bad-op"
  | _ => "bad-op"

def ecadd (args : List String) : String :=
  match args.mapM natOf with
  | some [x1, y1, x2, y2] => ptStr (padd (dec x1 y1) (dec x2 y2))
  | _ => "bad-op"

def ecdbl (args : List String) : String :=
  match args.mapM natOf with
  | some [x, y] => ptStr (padd (dec x y) (dec x y))
  | _ => "bad-op"

def econ (args : List String) : String :=
  match args.mapM natOf with
  | some [x, y] => if x < p ∧ y < p ∧ onCurve x y then "1" else "0"   -- coordinates are field elements (as repaired)
  | _ => "bad-op"

def eckeygen (args : List String) : String :=
  match args with
  | [r] => match ofHex r with
    | some r =>
      if r.length < 40 then "err"
      else
        let d := os2ip (r.take 40) % (n - 2) + 1
        let (x, y) := enc (smul d G)
        s!"{h32 d} {h32 x} {h32 y} 40"
    | none => "bad-op"
  | _ => "bad-op"

/-- judge op of ./check: `eckeyok <d> <x> <y>`: the statement of C03 about a generated key pair -/
def eckeyok (args : List String) : String :=
  match args.mapM natOf with
  | some [d, x, y] => if 1 ≤ d ∧ d ≤ n - 2 ∧ enc (smul d G) = (x, y) then "true" else "false"
  | _ => "bad-op"

def uidOf (s : String) : Option Bytes :=
  match ofHex s with
  | some [] => some defaultUid
  | some u => some u
  | none => none

/-- nonce from 40 random bytes, as `randFieldElement` derives it -/
def nonceOf (chunk : Bytes) : Nat := os2ip chunk % (n - 1) + 1

/-- try successive 40-byte chunks of the random stream -/
def signLoop (d e : Nat) : Nat → Bytes → Nat → Option (Nat × Nat × Nat)
  | 0, _, _ => none
  | fuel+1, rnd, used =>
    if rnd.length < 40 then none
    else match signWith d e (nonceOf (rnd.take 40)) with
      | some (r, s) => some (r, s, used + 40)
      | none => signLoop d e fuel (rnd.drop 40) (used + 40)

def sm2sign (args : List String) : String :=
  match args with
  | [d, uid, msg, rnd] =>
    match natOf d, uidOf uid, ofHex msg, ofHex rnd with
    | some d, some uid, some msg, some rnd =>
      if uid.length ≥ 8192 then "err" else
      let (px, py) := enc (smul d G)
      match signLoop d (msgE uid px py msg) (rnd.length / 40 + 1) rnd 0 with
      | some (r, s, used) => s!"{h32 r} {h32 s} {used}"
      | none => "err"
    | _, _, _, _ => "bad-op"
  | _ => "bad-op"

def sm2signder (args : List String) : String :=
  match args with
  | [d, msg, rnd] =>
    match natOf d, ofHex msg, ofHex rnd with
    | some d, some msg, some rnd =>
      let (px, py) := enc (smul d G)
      match signLoop d (msgE defaultUid px py msg) (rnd.length / 40 + 1) rnd 0 with
      | some (r, s, _) => hx (Spec.DER.encSig r s)
      | none => "err"
    | _, _, _ => "bad-op"
  | _ => "bad-op"

def sm2verify (args : List String) : String :=
  match args with
  | [x, y, uid, msg, r, s] =>
    match natOf x, natOf y, uidOf uid, ofHex msg, natOf r, natOf s with
    | some x, some y, some uid, some msg, some r, some s =>
      if uid.length ≥ 8192 then "0" else
      if verify x y uid msg r s then "1" else "0"
    | _, _, _, _, _, _ => "bad-op"
  | _ => "bad-op"

/-- `sm2verifye <x> <y> <e> <r> <s>` : the digest-level verification -/
def sm2verifye (args : List String) : String :=
  match args with
  | [x, y, e, r, s] =>
    match natOf x, natOf y, ofHex e, natOf r, natOf s with
    | some x, some y, some e, some r, some s => if verifyE x y (os2ip e) r s then "1" else "0"
    | _, _, _, _, _ => "bad-op"
  | _ => "bad-op"

def sm2verifyder (args : List String) : String :=
  match args with
  | [x, y, msg, sig] =>
    match natOf x, natOf y, ofHex msg, ofHex sig with
    | some x, some y, some msg, some sig =>
      match Spec.DER.decSig sig with
      | some (r, s) => if r < 0 ∨ s < 0 then "0" else if verify x y defaultUid msg r.toNat s.toNat then "1" else "0"
      | none => "0"
    | _, _, _, _ => "bad-op"
  | _ => "bad-op"

/-- `x509sigv <alg> <x> <y> <msg> <sig>` : `Certificate.CheckSignature(alg, msg, sig)` for a key on the SM2 curve, by the
    model of the repaired `checkSignature` (Props.C09Sig.verifySM2_eq_spec: the same verdict as `sm2verifyder`) -/
def x509sigv (args : List String) : String :=
  match args with
  | [alg, x, y, msg, sig] =>
    if alg != "SM2WithSM3" && alg != "SM2WithSHA1" && alg != "SM2WithSHA256" then "bad-op" else
    match natOf x, natOf y, ofHex msg, ofHex sig with
    | some x, some y, some msg, some sig => if Model.X509Sig.verifySM2 x y msg sig then "1" else "0"
    | _, _, _, _ => "bad-op"
  | _ => "bad-op"

def encLoop (px py : Nat) (msg : Bytes) (ord : Order) : Nat → Bytes → Option Bytes
  | 0, _ => none
  | fuel+1, rnd =>
    if rnd.length < 40 then none
    else match encryptWith px py msg (nonceOf (rnd.take 40)) ord with
      | some c => some c
      | none => encLoop px py msg ord fuel (rnd.drop 40)

def ordOf (s : String) : Order := if s = "c1c2c3" then .c1c2c3 else .c1c3c2

/-- `sm2obj <d> <op>…` : a sequence of operations on one key object; every operation judged on its own -/
def sm2obj (sm2sign sm2verify sm2enc sm2dec : List String → String) (args : List String) : String :=
  match args with
  | d :: ops =>
    match natOf d with
    | none => "bad-op"
    | some dn =>
      let (px, py) := enc (smul dn G)
      "/".intercalate (ops.map fun a =>
        match a.splitOn ":" with
        | ["s", uid, msg, rnd] => sm2sign [d, uid, msg, rnd]
        | ["v", uid, msg, r, s] => sm2verify [h32 px, h32 py, uid, msg, r, s]
        | ["e", mode, msg, rnd] => sm2enc [h32 px, h32 py, mode, msg, rnd]
        | ["d", mode, ct] => sm2dec [d, mode, ct]
        | _ => "bad-op")
  | _ => "bad-op"

/-- judge ops (used by ./check when the code's signature differs from the model's): does the SPEC accept what the
    code produced, under the public key [d]G?  `sm2signok <d> <uid> <msg> <r> <s>`, `sm2signderok <d> <msg> <sig>` -/
def sm2signok (args : List String) : String :=
  match args with
  | [d, uid, msg, r, s] =>
    match natOf d, uidOf uid, ofHex msg, natOf r, natOf s with
    | some d, some uid, some msg, some r, some s =>
      let (px, py) := enc (smul d G)
      if uid.length < 8192 ∧ verify px py uid msg r s then "true" else "false"
    | _, _, _, _, _ => "bad-op"
  | _ => "bad-op"

def sm2signderok (args : List String) : String :=
  match args with
  | [d, msg, sig] =>
    match natOf d, ofHex msg, ofHex sig with
    | some d, some msg, some sig =>
      let (px, py) := enc (smul d G)
      match Spec.DER.decSig sig with
      | some (r, s) => if r < 0 ∨ s < 0 then "false" else if verify px py defaultUid msg r.toNat s.toNat then "true" else "false"
      | none => "false"
    | _, _, _ => "bad-op"
  | _ => "bad-op"

def sm2enc (args0 : List String) : String :=
  -- an optional sixth argument (the private key, for the judge op of ./check) is ignored
  let args := if args0.length = 6 then args0.take 5 else args0
  match args with
  | [x, y, mode, msg, rnd] =>
    match natOf x, natOf y, ofHex msg, ofHex rnd with
    | some x, some y, some msg, some rnd =>
      if msg.isEmpty then "err" else
      match encLoop x y msg (ordOf mode) (rnd.length / 40 + 1) rnd with
      | none => "err"
      | some c =>
        if mode = "asn1" then
          let body := c.drop 1
          hx (Spec.DER.encCipher (os2ip (body.take 32)) (os2ip ((body.drop 32).take 32)) ((body.drop 64).take 32) (body.drop 96))
        else hx c
    | _, _, _, _ => "bad-op"
  | _ => "bad-op"

/-- parse the ASN.1 ciphertext back to the raw C1C3C2 form (strict DER; trailing bytes after the
    SEQUENCE are ignored as encoding/asn1 does) -/
def cipherOfAsn1 (b : Bytes) : Option Bytes :=
  match Spec.DER.decTLV 0x30 b with
  | some (body, _) =>
    match Spec.DER.decTLV 0x02 body with
    | some (xc, r1) => match Spec.DER.decTLV 0x02 r1 with
      | some (yc, r2) => match Spec.DER.decTLV 0x04 r2 with
        | some (h, r3) => match Spec.DER.decTLV 0x04 r3 with
          | some (c2, []) =>
            match Spec.DER.decIntContent xc, Spec.DER.decIntContent yc with
            | some x, some y =>
              let xb := natBytes x.natAbs
              let yb := natBytes y.natAbs
              let pad (v : Bytes) := List.replicate (32 - v.length) (0 : Byte) ++ v
              -- as repaired: coordinates are field-sized non-negative integers, C3 is a 32-byte digest
              if x < 0 ∨ y < 0 ∨ xb.length > 32 ∨ yb.length > 32 ∨ h.length ≠ 32 then none
              else some (0x04 :: (pad xb ++ pad yb ++ h ++ c2))
            | _, _ => none
          | _ => none
        | none => none
      | none => none
    | none => none
  | none => none

def sm2dec (args : List String) : String :=
  match args with
  | [d, mode, ct] =>
    match natOf d, ofHex ct with
    | some d, some ct =>
      let raw := if mode = "asn1" then cipherOfAsn1 ct else some ct
      match raw with
      | none => "err"
      | some raw =>
        match decrypt d raw (ordOf mode) with
        | some m => "ok " ++ hx m
        | none => "err"
    | _, _ => "bad-op"
  | _ => "bad-op"

def kexStr : Option KexOut → String
  | some o => hx o.k ++ "," ++ hx o.s1 ++ "," ++ hx o.s2
  | none => "err"

def sm2kex (args : List String) : String :=
  match args with
  | [klen, ida, idb, da, db, ra, rb] =>
    match klen.toNat?, ofHex ida, ofHex idb, natOf da, natOf db, natOf ra, natOf rb with
    | some klen, some ida, some idb, some da, some db, some ra, some rb =>
      if ida.length ≥ 8192 ∨ idb.length ≥ 8192 then "err err" else
      let pa := enc (smul da G); let pb := enc (smul db G)
      let ea := enc (smul ra G); let eb := enc (smul rb G)
      kexStr (kex klen ida idb da ra pb eb pa pb ea eb) ++ " " ++ kexStr (kex klen ida idb db rb pa ea pa pb ea eb)
    | _, _, _, _, _, _, _ => "bad-op"
  | _ => "bad-op"

def sm2kexbad (args : List String) : String :=
  match args with
  | [role, klen, ida, idb, dself, rself, px, py, ex, ey] =>
    match klen.toNat?, ofHex ida, ofHex idb, natOf dself, natOf rself, natOf px, natOf py, natOf ex, natOf ey with
    | some klen, some ida, some idb, some ds, some rs, some px, some py, some ex, some ey =>
      let self := enc (smul ds G); let selfE := enc (smul rs G)
      if role = "A" then kexStr (kex klen ida idb ds rs (px, py) (ex, ey) self (px, py) selfE (ex, ey))
      else kexStr (kex klen ida idb ds rs (px, py) (ex, ey) (px, py) self (ex, ey) selfE)
    | _, _, _, _, _, _, _, _, _ => "bad-op"
  | _ => "bad-op"

def sm2Dispatch (toks : List String) : Option String :=
  match toks with
  | "ecsmul" :: r => some (ecsmul r) | "ecbase" :: r => some (ecbase r) | "ecadd" :: r => some (ecadd r)
  | "ecdbl" :: r => some (ecdbl r) | "econ" :: r => some (econ r) | "eckeygen" :: r => some (eckeygen r)
  | "ecsmulseq" :: r => some (ecsmulseq r)
  | "eckeyok" :: r => some (eckeyok r)
  | "sm2sign" :: r => some (sm2sign r) | "sm2signder" :: r => some (sm2signder r)
  | ["sm2signi", d, uid, msg, rnd, _, _] => some (sm2sign [d, uid, msg, rnd])   -- interleaved with another signer: the same pair
  | "sm2verify" :: r => some (sm2verify r) | "sm2verifyder" :: r => some (sm2verifyder r)
  | "sm2enc" :: r => some (sm2enc r) | "sm2dec" :: r => some (sm2dec r)
  | "sm2verifye" :: r => some (sm2verifye r)
  | "x509sigv" :: r => some (x509sigv r)
  | "tlssigv" :: k :: r => if k == "ecdsa" || k == "sm2" then some (sm2verifyder r) else some "bad-op"
  | "sm2signok" :: r => some (sm2signok r) | "sm2signderok" :: r => some (sm2signderok r)
  | "sm2obj" :: r => some (sm2obj sm2sign sm2verify sm2enc sm2dec r)
  | "sm2kex" :: r => some (sm2kex r) | "sm2kexbad" :: r => some (sm2kexbad r)
  | _ => none

end Driver

namespace Driver
open Gmsm Spec.SM2

/-- square root modulo p (p ≡ 3 mod 4) -/
def sqrtP (v : Nat) : Nat := powMod v ((p + 1) / 4) p

/-- `sm2.Decompress`: parity byte (0/1, or 2/3) followed by the 32-byte x coordinate -/
def decompressSpec (b : Bytes) : Option (Nat × Nat) :=
  match b with
  | pre :: xs =>
    if b.length ≠ 33 ∨ pre.toNat > 3 then none else
    let x := os2ip xs
    if x ≥ p then none else
    let rhs := (x * x * x + a * x + Spec.SM2.b) % p
    let y := sqrtP rhs
    if y * y % p ≠ rhs then none
    else some (x, if y % 2 = pre.toNat % 2 then y else (p - y) % p)
  | [] => none

def c14Dispatch (toks : List String) : Option String :=
  match toks with
  | ["hexpriv", d] => (natOf d).map fun d => toHex (b32 d)
  | ["hexpub", x, y] => match natOf x, natOf y with
    | some x, some y => some ("04" ++ toHex (b32 x) ++ toHex (b32 y))
    | _, _ => some "bad-op"
  | ["compress", x, y] => match natOf x, natOf y with
    | some x, some y => some (toHex (BitVec.ofNat 8 (y % 2) :: b32 x))
    | _, _ => some "bad-op"
  | ["decompress", b] => match ofHex b with
    | some b => some (match decompressSpec b with
      | some (x, y) => h32 x ++ " " ++ h32 y
      | none => "nil")
    | none => some "bad-op"
  | ["sigasn1", r, s] => match natOf r, natOf s with
    | some r, some s => some (hx (Spec.DER.encSig r s))
    | _, _ => some "bad-op"
  | ["cipherasn1", ct] => match ofHex ct with
    | some ct =>
      let body := ct.drop 1
      some (hx (Spec.DER.encCipher (os2ip (body.take 32)) (os2ip ((body.drop 32).take 32)) ((body.drop 64).take 32) (body.drop 96)))
    | none => some "bad-op"
  | "pkcs8" :: _ => some "ok"
  | "pubpem" :: _ => some "ok"
  | ["loader", _, _, variant] => some (if variant = "same" || variant = "sec1" then "accept" else "reject")
  | ["sigdec", sig] =>
    -- sm2.SignDataToSignDigit (as repaired): the strict DER parser; integers printed like big.Int.Text(16)
    let hex (v : Int) : String := (if v < 0 then "-" else "") ++ String.ofList (Nat.toDigits 16 v.natAbs)
    some (match ofHex sig with
      | none => "bad-op"
      | some b => match Spec.DER.decSig b with
        | some (r, s) => "ok " ++ hex r ++ " " ++ hex s
        | none => "err")
  | _ => none

end Driver
