/-
SM2 (GM/T 0003.1–0003.5) over the recommended 256-bit curve, written as the standards state it, with
affine arithmetic on natural numbers modulo p.  Core Lean only; executable (slow but simple:
every point addition performs a modular inversion).
-/
import Gmsm.Spec.SM3
import Gmsm.Util.I2osp
namespace Spec.SM2
open Gmsm

-- GM/T 0003.5 curve parameters
def p : Nat := 0xFFFFFFFEFFFFFFFFFFFFFFFFFFFFFFFFFFFFFFFF00000000FFFFFFFFFFFFFFFF
def a : Nat := 0xFFFFFFFEFFFFFFFFFFFFFFFFFFFFFFFFFFFFFFFF00000000FFFFFFFFFFFFFFFC
def b : Nat := 0x28E9FA9E9D9F5E344D5A9E4BCF6509A7F39789F515AB8F92DDBCBD414D940E93
def n : Nat := 0xFFFFFFFEFFFFFFFFFFFFFFFFFFFFFFFF7203DF6B21C6052B53BBF40939D54123
def gx : Nat := 0x32C4AE2C1F1981195F9904466A39C9948FE30BBFF2660BE1715A4589334C74C7
def gy : Nat := 0xBC3736A2F4F6779C59BDCEE36B692153D0A9877CC62A474002DF32E52139F0A0

/-- square-and-multiply, `fuel` ≥ bit length of `e` -/
def powModAux : Nat → Nat → Nat → Nat → Nat → Nat
  | 0, _, _, _, acc => acc
  | fuel+1, base, e, m, acc =>
    if e = 0 then acc
    else powModAux fuel (base * base % m) (e / 2) m (if e % 2 = 1 then acc * base % m else acc)

def powMod (base e m : Nat) : Nat := powModAux 600 (base % m) e m (1 % m)

/-- inverse modulo a prime `m` (Fermat); 0 ↦ 0 -/
def invMod (x m : Nat) : Nat := powMod x (m - 2) m

def fsub (x y : Nat) : Nat := (x + p - y % p) % p

/-- a point: `none` is the point at infinity O -/
abbrev Pt := Option (Nat × Nat)

def onCurve (x y : Nat) : Bool := (y * y) % p == (x * x * x + a * x + b) % p

def G : Pt := some (gx, gy)

def pneg : Pt → Pt
  | none => none
  | some (x, y) => some (x, (p - y) % p)

/-- the group law in affine coordinates (GM/T 0003.1 §3.2.3.1) -/
def padd : Pt → Pt → Pt
  | none, Q => Q
  | P, none => P
  | some (x1, y1), some (x2, y2) =>
    if x1 = x2 then
      if (y1 + y2) % p = 0 then none
      else
        let l := (3 * x1 * x1 + a) % p * invMod (2 * y1 % p) p % p
        let x3 := fsub (l * l % p) ((x1 + x2) % p)
        some (x3, fsub (l * fsub x1 x3 % p) y1)
    else
      let l := fsub y2 y1 * invMod (fsub x2 x1) p % p
      let x3 := fsub (l * l % p) ((x1 + x2) % p)
      some (x3, fsub (l * fsub x1 x3 % p) y1)

/-- [k]P by double-and-add on the binary expansion of `k` (structural on fuel ≥ bit length) -/
def smulAux : Nat → Nat → Pt → Pt → Pt
  | 0, _, _, acc => acc
  | fuel+1, k, base, acc =>
    if k = 0 then acc
    else smulAux fuel (k / 2) (padd base base) (if k % 2 = 1 then padd acc base else acc)

def smul (k : Nat) (P : Pt) : Pt := smulAux 600 k P none

/-- coordinates as the library reports them: infinity is (0, 0) -/
def enc : Pt → Nat × Nat
  | none => (0, 0)
  | some xy => xy

def dec (x y : Nat) : Pt := if x = 0 ∧ y = 0 then none else some (x, y)

def b32 (v : Nat) : Bytes := i2ospR 32 v

-- GM/T 0003.2 signatures --------------------------------------------------------------------------------

def defaultUid : Bytes := [0x31,0x32,0x33,0x34,0x35,0x36,0x37,0x38,0x31,0x32,0x33,0x34,0x35,0x36,0x37,0x38]

/-- Z_A = H256(ENTL_A ‖ ID_A ‖ a ‖ b ‖ xG ‖ yG ‖ xA ‖ yA) -/
def za (uid : Bytes) (px py : Nat) : Bytes :=
  Spec.SM3.hash (i2ospR 2 (8 * uid.length) ++ uid ++ b32 a ++ b32 b ++ b32 gx ++ b32 gy ++ b32 px ++ b32 py)

/-- e = Hv(Z_A ‖ M) as an integer -/
def msgE (uid : Bytes) (px py : Nat) (msg : Bytes) : Nat := os2ip (Spec.SM3.hash (za uid px py ++ msg))

/-- one signing attempt with nonce k: `none` = the standard says "pick another k" -/
def signWith (d e k : Nat) : Option (Nat × Nat) :=
  let (x1, _) := enc (smul k G)
  let r := (e + x1) % n
  if r = 0 ∨ r + k = n then none
  else
    let s := invMod ((1 + d) % n) n * ((k + n * n - r * d % n) % n) % n
    if s = 0 then none else some (r, s)

/-- verification (GM/T 0003.2 §7.1) -/
def verifyE (px py e r s : Nat) : Bool :=
  if r < 1 ∨ s < 1 ∨ r ≥ n ∨ s ≥ n then false
  else
    let t := (r + s) % n
    if t = 0 then false
    else
      let (x1, _) := enc (padd (smul s G) (smul t (dec px py)))
      (e + x1) % n == r

def verify (px py : Nat) (uid msg : Bytes) (r s : Nat) : Bool := verifyE px py (msgE uid px py msg) r s

-- KDF, encryption (GM/T 0003.4) ---------------------------------------------------------------------------

/-- KDF(Z, klen bytes): SM3(Z ‖ ct) for ct = 1, 2, … truncated to klen bytes -/
def kdf (z : Bytes) (klen : Nat) : Bytes :=
  ((List.range ((klen + 31) / 32)).flatMap fun i => Spec.SM3.hash (z ++ i2ospR 4 (i + 1))).take klen

inductive Order | c1c3c2 | c1c2c3
deriving DecidableEq, Repr

/-- encryption with nonce k: `none` = "pick another k" (KDF output all zero) -/
def encryptWith (px py : Nat) (msg : Bytes) (k : Nat) (ord : Order) : Option Bytes :=
  let (x1, y1) := enc (smul k G)
  let (x2, y2) := enc (smul k (dec px py))
  let t := kdf (b32 x2 ++ b32 y2) msg.length
  if t.all (· == 0) then none
  else
    let c2 := xorBytes msg t
    let c3 := Spec.SM3.hash (b32 x2 ++ msg ++ b32 y2)
    match ord with
    | .c1c3c2 => some (0x04 :: (b32 x1 ++ b32 y1 ++ c3 ++ c2))
    | .c1c2c3 => some (0x04 :: (b32 x1 ++ b32 y1 ++ c2 ++ c3))

/-- split a raw ciphertext 04 ‖ x1 ‖ y1 ‖ (C3 ‖ C2 | C2 ‖ C3) into (x1, y1, C3, C2) -/
def parseCt (ct : Bytes) (ord : Order) : Nat × Nat × Bytes × Bytes :=
  let body := ct.drop 1
  let x1 := os2ip (body.take 32)
  let y1 := os2ip ((body.drop 32).take 32)
  let rest := body.drop 64
  match ord with
  | .c1c3c2 => (x1, y1, rest.take 32, rest.drop 32)
  | .c1c2c3 => (x1, y1, rest.drop (rest.length - 32), rest.take (rest.length - 32))

/-- steps B1–B6 on the parsed components: `none` = error -/
def decryptParsed (d x1 y1 : Nat) (c3 c2 : Bytes) : Option Bytes :=
  if !(decide (x1 < p) && decide (y1 < p)) then none      -- the coordinates of C1 are field elements (as repaired)
  else if !onCurve (x1 % p) (y1 % p) then none
  else
    let sh := enc (smul d (dec (x1 % p) (y1 % p)))
    let t := kdf (b32 sh.1 ++ b32 sh.2) c2.length
    if t.all (· == 0) then none
    else
      let m := xorBytes c2 t
      if Spec.SM3.hash (b32 sh.1 ++ m ++ b32 sh.2) = c3 then some m else none

/-- decryption (§7.1): `none` = error -/
def decrypt (d : Nat) (ct : Bytes) (ord : Order) : Option Bytes :=
  if ct.length < 97 then none
  else if ct.head? ≠ some 0x04 then none      -- C1 is an uncompressed point, PC = 04 (as repaired: the octet is checked)
  else
    let (x1, y1, c3, c2) := parseCt ct ord
    decryptParsed d x1 y1 c3 c2

-- key exchange (GM/T 0003.3), w = 127, h = 1 ----------------------------------------------------------------

def xbar (x : Nat) : Nat := 2 ^ 127 + x % 2 ^ 127

structure KexOut where
  k : Bytes
  s1 : Bytes      -- S1 = SB
  s2 : Bytes      -- S2 = SA
deriving Repr, DecidableEq

/-- both roles: own long-term d and ephemeral r, peer's long-term point P and ephemeral point R;
    `ida`/`idb` identities, (pax,pay)/(pbx,pby) the long-term public keys of A and B, RA/RB the
    ephemeral points in protocol order.  `none` = error (R off the curve, V = O). -/
def kex (klen : Nat) (ida idb : Bytes) (dSelf rSelf : Nat) (peer peerEph : Nat × Nat)
    (pa pb ra rb : Nat × Nat) : Option KexOut :=
  let (rsx, _) := enc (smul rSelf G)
  let t := (dSelf + xbar rsx * rSelf) % n
  if !(decide (peerEph.1 < p) && decide (peerEph.2 < p)) then none   -- R's coordinates are field elements (as repaired)
  else if !onCurve peerEph.1 peerEph.2 then none
  else
    let v := smul t (padd (dec peer.1 peer.2) (smul (xbar peerEph.1) (dec peerEph.1 peerEph.2)))
    match v with
    | none => none
    | some (vx, vy) =>
      if vx = 0 ∧ vy = 0 then none else     -- (0,0) encodes the point at infinity; (0, √b) is a finite point of the curve
      let zA := za ida pa.1 pa.2
      let zB := za idb pb.1 pb.2
      -- (no "all-zero key" step: that is A5 of the encryption algorithm, not part of GM/T 0003.3)
      let k := kdf (b32 vx ++ b32 vy ++ zA ++ zB) klen
      let h := Spec.SM3.hash (b32 vx ++ zA ++ zB ++ b32 ra.1 ++ b32 ra.2 ++ b32 rb.1 ++ b32 rb.2)
      some ⟨k, Spec.SM3.hash (0x02 :: (b32 vy ++ h)), Spec.SM3.hash (0x03 :: (b32 vy ++ h))⟩

end Spec.SM2
