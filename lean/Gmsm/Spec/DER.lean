/-
The small part of X.690 DER that SM2 signatures and ciphertexts use: definite minimal lengths,
INTEGER (non-negative values here; negative contents are recognised), OCTET STRING, SEQUENCE.
Core Lean only; executable.
-/
import Gmsm.Util.Bytes
namespace Spec.DER
open Gmsm

/-- DER length octets -/
def encLen (n : Nat) : Bytes :=
  if n < 128 then [BitVec.ofNat 8 n]
  else let b := natBytes n; BitVec.ofNat 8 (0x80 + b.length) :: b

def tlv (tag : Byte) (content : Bytes) : Bytes := tag :: (encLen content.length ++ content)

/-- content octets of a non-negative INTEGER: minimal big-endian, a leading 0x00 when the top bit is set -/
def intContent (v : Nat) : Bytes :=
  let b := natBytes v
  match b with
  | [] => [0]
  | h :: _ => if h.toNat ≥ 128 then 0 :: b else b

def encInt (v : Nat) : Bytes := tlv 0x02 (intContent v)
def encOctets (b : Bytes) : Bytes := tlv 0x04 b
def encSeq (items : List Bytes) : Bytes := tlv 0x30 items.flatten

/-- parse one length; returns (length, rest); rejects non-minimal and indefinite forms -/
def decLen (b : Bytes) : Option (Nat × Bytes) :=
  match b with
  | [] => none
  | l :: rest =>
    if l.toNat < 128 then some (l.toNat, rest)
    else
      let k := l.toNat - 128
      if k = 0 ∨ k > 4 ∨ rest.length < k then none
      else
        let lb := rest.take k
        let v := os2ip lb
        if lb.head?.map (·.toNat) = some 0 then none       -- leading zero: not minimal
        else if v < 128 then none                          -- should have used the short form
        else some (v, rest.drop k)

/-- parse one TLV with the given tag: (content, rest) -/
def decTLV (tag : Byte) (b : Bytes) : Option (Bytes × Bytes) :=
  match b with
  | [] => none
  | t :: rest =>
    if t ≠ tag then none
    else match decLen rest with
      | none => none
      | some (n, r) => if r.length < n then none else some (r.take n, r.drop n)

/-- INTEGER content → value; `none` when empty or not minimally encoded; negative values give an `Int` -/
def decIntContent (c : Bytes) : Option Int :=
  match c with
  | [] => none
  | [x] => some (if x.toNat ≥ 128 then (x.toNat : Int) - 256 else x.toNat)
  | x :: y :: rest =>
    if x.toNat = 0 ∧ y.toNat < 128 then none
    else if x.toNat = 255 ∧ y.toNat ≥ 128 then none
    else
      let v : Int := os2ip (x :: y :: rest)
      some (if x.toNat ≥ 128 then v - (256 : Int) ^ (rest.length + 2) else v)

/-- strict DER `SEQUENCE { INTEGER r, INTEGER s }` with nothing before, between or after -/
def decSig (b : Bytes) : Option (Int × Int) :=
  match decTLV 0x30 b with
  | some (body, []) =>
    match decTLV 0x02 body with
    | some (rc, rest) =>
      match decTLV 0x02 rest with
      | some (sc, []) =>
        match decIntContent rc, decIntContent sc with
        | some r, some s => some (r, s)
        | _, _ => none
      | _ => none
    | none => none
  | _ => none

def encSig (r s : Nat) : Bytes := encSeq [encInt r, encInt s]

/-- SM2 ciphertext `SEQUENCE { INTEGER x, INTEGER y, OCTET STRING hash, OCTET STRING c2 }` -/
def encCipher (x y : Nat) (hash c2 : Bytes) : Bytes := encSeq [encInt x, encInt y, encOctets hash, encOctets c2]

end Spec.DER
