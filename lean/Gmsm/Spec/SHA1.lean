/-
SHA-1, FIPS 180-4 (§5.1.1 padding, §5.3.1 initial hash value, §4.1.1 functions, §4.2.1 constants,
§6.1.2 hash computation), written as the standard states it.  Core Lean only; executable.

Used as the hash `H` (u = 20 output bytes, v = 64 block bytes) of the PKCS#12 key derivation
(`Spec.PKCS12KDF`, `Model.PKCS12`) and of the PKCS#12 integrity HMAC (`Spec.HMAC.hmac hash`).

Validation against the FIPS 180 examples, checked every time this file is elaborated (`#guard` at the end;
the same values with `#eval toHex (hash …)`):
  "abc"                               a9993e364706816aba3e25717850c26c9cd0d89d
  ""                                  da39a3ee5e6b4b0d3255bfef95601890afd80709
  "abcdbcdecdef…nopq" (two blocks)    84983e441c3bd26ebaae4aa1f95129e5e54670f1
The driver additionally runs it against Go's crypto/sha1 on every `p12kdf sha1` / `p12mac` / `p12pbe` op.
-/
import Gmsm.Util.Bytes
namespace Spec.SHA1
open Gmsm

/-- the five working variables / chaining words -/
structure Reg where
  a : W32
  b : W32
  c : W32
  d : W32
  e : W32
deriving DecidableEq, Repr

/-- §5.3.1 H(0) -/
def IV : Reg := ⟨0x67452301, 0xefcdab89, 0x98badcfe, 0x10325476, 0xc3d2e1f0⟩

/-- §4.1.1 f_t: Ch, Parity, Maj, Parity -/
def f (t : Nat) (x y z : W32) : W32 :=
  if t < 20 then (x &&& y) ^^^ (~~~x &&& z)
  else if t < 40 then x ^^^ y ^^^ z
  else if t < 60 then (x &&& y) ^^^ (x &&& z) ^^^ (y &&& z)
  else x ^^^ y ^^^ z

/-- §4.2.1 K_t -/
def K (t : Nat) : W32 :=
  if t < 20 then 0x5a827999 else if t < 40 then 0x6ed9eba1 else if t < 60 then 0x8f1bbcdc else 0xca62c1d6

/-- the 16 big-endian words M_0 … M_15 of a 64-byte block -/
def words : Nat → Bytes → List W32
  | 0, _ => []
  | n+1, b => be32 (b.getD 0 0) (b.getD 1 0) (b.getD 2 0) (b.getD 3 0) :: words n (b.drop 4)

/-- §6.1.2 step 1, message schedule.  `rev` holds W_{t-1}, W_{t-2}, … (newest first), so
    W_t = ROTL¹(W_{t-3} ⊕ W_{t-8} ⊕ W_{t-14} ⊕ W_{t-16}) reads positions 2, 7, 13, 15. -/
def scheduleAux : Nat → List W32 → List W32
  | 0, rev => rev
  | n+1, rev =>
    let w := (rev.getD 2 0 ^^^ rev.getD 7 0 ^^^ rev.getD 13 0 ^^^ rev.getD 15 0).rotateLeft 1
    scheduleAux n (w :: rev)

/-- W_0 … W_79 -/
def schedule (blk : Bytes) : List W32 := (scheduleAux 64 (words 16 blk).reverse).reverse

/-- §6.1.2 step 3, one round t with W_t -/
def round (r : Reg) (tw : Nat × W32) : Reg :=
  let T := r.a.rotateLeft 5 + f tw.1 r.b r.c r.d + r.e + K tw.1 + tw.2
  ⟨T, r.a, r.b.rotateLeft 30, r.c, r.d⟩

/-- §6.1.2 steps 1–4 for one block -/
def compress (h : Reg) (blk : Bytes) : Reg :=
  let r := (schedule blk).zipIdx.foldl (fun r (w, t) => round r (t, w)) h
  ⟨h.a + r.a, h.b + r.b, h.c + r.c, h.d + r.d, h.e + r.e⟩

/-- §5.1.1 padding for a message of `l` bytes: bit '1', k zero bits, 64-bit length -/
def padding (l : Nat) : Bytes :=
  0x80 :: (List.replicate ((119 - l % 64) % 64) 0 ++ w64bytes (BitVec.ofNat 64 (8 * l)))

/-- iterate over `n` consecutive 64-byte blocks -/
def blocks : Nat → Reg → Bytes → Reg
  | 0, h, _ => h
  | n+1, h, m => blocks n (compress h (m.take 64)) (m.drop 64)

def regBytes (r : Reg) : Bytes := w32bytes r.a ++ w32bytes r.b ++ w32bytes r.c ++ w32bytes r.d ++ w32bytes r.e

/-- SHA-1 of a byte string -/
def hash (msg : Bytes) : Bytes :=
  let m := msg ++ padding msg.length
  regBytes (blocks (m.length / 64) IV m)

/-- the digest has 20 bytes (u = 160 bits in RFC 7292 B.2), for every message -/
theorem hash_length (msg : Bytes) : (hash msg).length = 20 := by
  simp [hash, regBytes, w32bytes]

#guard toHex (hash [0x61, 0x62, 0x63]) = "a9993e364706816aba3e25717850c26c9cd0d89d"
#guard toHex (hash []) = "da39a3ee5e6b4b0d3255bfef95601890afd80709"
#guard toHex (hash ("abcdbcdecdefdefgefghfghighijhijkijkljklmklmnlmnomnopnopq".toUTF8.data.toList.map
  (fun x => BitVec.ofNat 8 x.toNat))) = "84983e441c3bd26ebaae4aa1f95129e5e54670f1"

end Spec.SHA1
