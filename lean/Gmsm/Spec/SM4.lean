/-
SM4 block cipher, GM/T 0002-2012 (= ISO/IEC 18033-3:2010/Amd 1), written as the standard states it.
Core Lean only; executable.
-/
import Gmsm.Util.Bytes
import Gmsm.Spec.SM4Sbox
namespace Spec.SM4
open Gmsm

/-- byte substitution -/
def sb (b : Byte) : Byte := Sbox[b.toNat]'(by have := b.isLt; omega)

/-- τ : four parallel S-boxes on a 32-bit word (6.2 (1)) -/
def tau (a : W32) : W32 :=
  be32 (sb (a.extractLsb' 24 8)) (sb (a.extractLsb' 16 8)) (sb (a.extractLsb' 8 8)) (sb (a.extractLsb' 0 8))

/-- linear transform L (6.2 (2)) -/
def L (b : W32) : W32 :=
  b ^^^ b.rotateLeft 2 ^^^ b.rotateLeft 10 ^^^ b.rotateLeft 18 ^^^ b.rotateLeft 24

/-- linear transform L' of the key schedule (7.3) -/
def L' (b : W32) : W32 := b ^^^ b.rotateLeft 13 ^^^ b.rotateLeft 23

def T (x : W32) : W32 := L (tau x)
def T' (x : W32) : W32 := L' (tau x)

/-- system parameter FK (7.3 (2)) -/
def FK : Vector W32 4 := #v[0xa3b1bac6, 0x56aa3350, 0x677d9197, 0xb27022dc]

/-- fixed parameter CK_i: bytes ck_{i,j} = (4i+j)·7 mod 256 (7.3 (3)) -/
def CK (i : Nat) : W32 :=
  be32 (BitVec.ofNat 8 ((4*i+0)*7)) (BitVec.ofNat 8 ((4*i+1)*7))
       (BitVec.ofNat 8 ((4*i+2)*7)) (BitVec.ofNat 8 ((4*i+3)*7))

/-- the cipher state: four words -/
structure St where
  x0 : W32
  x1 : W32
  x2 : W32
  x3 : W32
deriving DecidableEq, Repr

/-- round function F: (X0,X1,X2,X3) ↦ (X1,X2,X3, X0 ⊕ T(X1⊕X2⊕X3⊕rk)) -/
def round (s : St) (rk : W32) : St :=
  ⟨s.x1, s.x2, s.x3, s.x0 ^^^ T (s.x1 ^^^ s.x2 ^^^ s.x3 ^^^ rk)⟩

/-- key-schedule round: the same shape with T' -/
def kround (s : St) (ck : W32) : St :=
  ⟨s.x1, s.x2, s.x3, s.x0 ^^^ T' (s.x1 ^^^ s.x2 ^^^ s.x3 ^^^ ck)⟩

/-- reverse transform R -/
def rev (s : St) : St := ⟨s.x3, s.x2, s.x1, s.x0⟩

/-- round keys rk_0..rk_31 from the key words MK_0..3 -/
def expandAux : Nat → Nat → St → List W32
  | 0, _, _ => []
  | n+1, i, s => let s' := kround s (CK i); s'.x3 :: expandAux n (i+1) s'

def expandKey (mk : St) : List W32 :=
  expandAux 32 0 ⟨mk.x0 ^^^ FK[0], mk.x1 ^^^ FK[1], mk.x2 ^^^ FK[2], mk.x3 ^^^ FK[3]⟩

def rounds (rks : List W32) (s : St) : St := rks.foldl round s

def encryptSt (mk : St) (x : St) : St := rev (rounds (expandKey mk) x)
def decryptSt (mk : St) (y : St) : St := rev (rounds (expandKey mk).reverse y)

/-- 16 bytes → state (big-endian words).  Total on lists: missing bytes read as 0
    (only ever applied to 16-byte lists; see `ofBytes_toBytes`). -/
def ofBytes (b : Bytes) : St :=
  let g := fun i => b.getD i 0
  ⟨be32 (g 0) (g 1) (g 2) (g 3), be32 (g 4) (g 5) (g 6) (g 7),
   be32 (g 8) (g 9) (g 10) (g 11), be32 (g 12) (g 13) (g 14) (g 15)⟩

def toBytes (s : St) : Bytes := w32bytes s.x0 ++ w32bytes s.x1 ++ w32bytes s.x2 ++ w32bytes s.x3

/-- SM4 encryption of one 16-byte block under a 16-byte key -/
def encrypt (key blk : Bytes) : Bytes := toBytes (encryptSt (ofBytes key) (ofBytes blk))
def decrypt (key blk : Bytes) : Bytes := toBytes (decryptSt (ofBytes key) (ofBytes blk))

end Spec.SM4
