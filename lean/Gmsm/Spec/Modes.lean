/-
Block cipher modes of NIST SP 800-38A (ECB, CBC, CFB-128, OFB) over an arbitrary 16-byte block
function, and PKCS#7 padding to 16-byte blocks (RFC 5652 §6.3).  Core Lean only; executable.
-/
import Gmsm.Util.Bytes
namespace Spec.Modes
open Gmsm

/-- PKCS#7: append k bytes of value k, 1 ≤ k ≤ 16, making the length a multiple of 16 -/
def pad16 (p : Bytes) : Bytes :=
  p ++ List.replicate (16 - p.length % 16) (BitVec.ofNat 8 (16 - p.length % 16))

/-- strip a PKCS#7 pad; `none` when the input does not end in a valid pad -/
def unpad16 (p : Bytes) : Option Bytes :=
  match p.getLast? with
  | none => none
  | some last =>
    let k := last.toNat
    if k > 16 ∨ k = 0 ∨ k > p.length then none
    else if (p.drop (p.length - k)).all (· == last) then some (p.take (p.length - k)) else none

/-- the first `n` 16-byte blocks of a byte string -/
def blocks : Nat → Bytes → List Bytes
  | 0, _ => []
  | n+1, b => b.take 16 :: blocks n (b.drop 16)

section
variable (E D : Bytes → Bytes)

def ecb (F : Bytes → Bytes) (bs : List Bytes) : List Bytes := bs.map F

/-- CBC encryption: C_i = E(P_i ⊕ C_{i-1}), C_0 = IV -/
def cbcEnc (iv : Bytes) : List Bytes → List Bytes
  | [] => []
  | p :: ps => let c := E (xorBytes p iv); c :: cbcEnc c ps

/-- CBC decryption: P_i = D(C_i) ⊕ C_{i-1} -/
def cbcDec (iv : Bytes) : List Bytes → List Bytes
  | [] => []
  | c :: cs => xorBytes (D c) iv :: cbcDec c cs

/-- CFB-128 encryption: C_i = P_i ⊕ E(C_{i-1}) -/
def cfbEnc (iv : Bytes) : List Bytes → List Bytes
  | [] => []
  | p :: ps => let c := xorBytes (E iv) p; c :: cfbEnc c ps

/-- CFB-128 decryption: P_i = C_i ⊕ E(C_{i-1}) -/
def cfbDec (iv : Bytes) : List Bytes → List Bytes
  | [] => []
  | c :: cs => xorBytes (E iv) c :: cfbDec c cs

/-- OFB (encryption = decryption): O_i = E(O_{i-1}), O_0 = IV; out_i = in_i ⊕ O_i -/
def ofb (iv : Bytes) : List Bytes → List Bytes
  | [] => []
  | x :: xs => let o := E iv; xorBytes o x :: ofb o xs
end

end Spec.Modes
