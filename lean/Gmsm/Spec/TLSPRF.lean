/-
The pseudo-random function and key schedule of GM/T 0024-2014 (6.5, identical in structure to RFC 5246
section 5 with SM3 as the hash): P_SM3, PRF, master secret, key block partition, Finished verify_data.
Core Lean only; executable.  Used as the independent implementation that decodes real connections.
-/
import Gmsm.Spec.HMAC
namespace Spec.TLSPRF
open Gmsm

def ascii (s : String) : Bytes := s.toList.map fun c => BitVec.ofNat 8 c.toNat

/-- A(0) = seed, A(i) = HMAC(secret, A(i-1)) -/
def aSeq (secret seed : Bytes) : Nat → Bytes
  | 0 => seed
  | i+1 => Spec.HMAC.hmacSM3 secret (aSeq secret seed i)

/-- P_hash(secret, seed) = HMAC(secret, A(1) ‖ seed) ‖ HMAC(secret, A(2) ‖ seed) ‖ …, first `n` bytes -/
def pHash (secret seed : Bytes) (n : Nat) : Bytes :=
  (((List.range ((n + 31) / 32)).map fun i => Spec.HMAC.hmacSM3 secret (aSeq secret seed (i + 1) ++ seed)).flatten).take n

/-- PRF(secret, label, seed) = P_SM3(secret, label ‖ seed) -/
def prf (secret : Bytes) (label : String) (seed : Bytes) (n : Nat) : Bytes := pHash secret (ascii label ++ seed) n

def masterSecret (pre crand srand : Bytes) : Bytes := prf pre "master secret" (crand ++ srand) 48

structure KeyBlock where
  clientMAC : Bytes
  serverMAC : Bytes
  clientKey : Bytes
  serverKey : Bytes
  clientIV : Bytes
  serverIV : Bytes

/-- key_block = PRF(master, "key expansion", server_random ‖ client_random), cut in the order
    client MAC, server MAC, client key, server key, client IV, server IV -/
def keyBlock (master crand srand : Bytes) (macLen keyLen ivLen : Nat) : KeyBlock :=
  let kb := prf master "key expansion" (srand ++ crand) (2 * macLen + 2 * keyLen + 2 * ivLen)
  let cut (off len : Nat) := (kb.drop off).take len
  ⟨cut 0 macLen, cut macLen macLen, cut (2 * macLen) keyLen, cut (2 * macLen + keyLen) keyLen,
   cut (2 * macLen + 2 * keyLen) ivLen, cut (2 * macLen + 2 * keyLen + ivLen) ivLen⟩

/-- verify_data = PRF(master, finished_label, SM3(handshake_messages))[0..11] -/
def verifyData (master : Bytes) (label : String) (handshakeMessages : Bytes) : Bytes :=
  prf master label (Spec.SM3.hash handshakeMessages) 12

end Spec.TLSPRF
