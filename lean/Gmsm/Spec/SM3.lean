/-
SM3 hash, GM/T 0004-2012, written as the standard states it.  Core Lean only; executable.
The compression function is parameterised by the rotate-left operation so that the Go code's
rotate idiom (`x<<(i%32) | x>>(32-i%32)`) can be plugged into the *same* round structure
(see `Model.SM3`); `Spec.SM3.CF` instantiates it with `BitVec.rotateLeft`.
-/
import Gmsm.Util.Bytes
namespace Spec.SM3
open Gmsm

/-- the eight chaining words A..H / V -/
structure Reg where
  a : W32
  b : W32
  c : W32
  d : W32
  e : W32
  f : W32
  g : W32
  h : W32
deriving DecidableEq, Repr

/-- 4.1 initial value -/
def IV : Reg := ⟨0x7380166f, 0x4914b2b9, 0x172442d7, 0xda8a0600, 0xa96f30bc, 0x163138aa, 0xe38dee4d, 0xb0fb0e4e⟩

/-- 4.2 constants T_j -/
def Tj (j : Nat) : W32 := if j < 16 then 0x79cc4519 else 0x7a879d8a

/-- 4.3 boolean functions -/
def FF (j : Nat) (x y z : W32) : W32 := if j < 16 then x ^^^ y ^^^ z else (x &&& y) ||| (x &&& z) ||| (y &&& z)
def GG (j : Nat) (x y z : W32) : W32 := if j < 16 then x ^^^ y ^^^ z else (x &&& y) ||| (~~~x &&& z)

section
variable (rot : W32 → Nat → W32)

/-- 4.4 permutations -/
def P0 (x : W32) : W32 := x ^^^ rot x 9 ^^^ rot x 17
def P1 (x : W32) : W32 := x ^^^ rot x 15 ^^^ rot x 23

/-- 5.3.2 message expansion: W_16..W_67 appended one at a time -/
def expandAux : Nat → List W32 → List W32
  | 0, w => w
  | n+1, w =>
    let j := w.length
    let x := P1 rot (w.getD (j-16) 0 ^^^ w.getD (j-9) 0 ^^^ rot (w.getD (j-3) 0) 15)
               ^^^ rot (w.getD (j-13) 0) 7 ^^^ w.getD (j-6) 0
    expandAux n (w ++ [x])

/-- the 16 big-endian words of a 64-byte block -/
def words : Nat → Bytes → List W32
  | 0, _ => []
  | n+1, b => be32 (b.getD 0 0) (b.getD 1 0) (b.getD 2 0) (b.getD 3 0) :: words n (b.drop 4)

def expand (blk : Bytes) : List W32 := expandAux rot 52 (words 16 blk)

/-- 5.3.3 one round j of the compression function -/
def round (w : List W32) (r : Reg) (j : Nat) : Reg :=
  let ss1 := rot (rot r.a 12 + r.e + rot (Tj j) j) 7
  let ss2 := ss1 ^^^ rot r.a 12
  let tt1 := FF j r.a r.b r.c + r.d + ss2 + (w.getD j 0 ^^^ w.getD (j+4) 0)
  let tt2 := GG j r.e r.f r.g + r.h + ss1 + w.getD j 0
  ⟨tt1, r.a, rot r.b 9, r.c, P0 rot tt2, r.e, rot r.f 19, r.g⟩

/-- 5.3.3 compression function CF(V, B) -/
def CFgen (v : Reg) (blk : Bytes) : Reg :=
  let w := expand rot blk
  let r := (List.range 64).foldl (round rot w) v
  ⟨v.a ^^^ r.a, v.b ^^^ r.b, v.c ^^^ r.c, v.d ^^^ r.d, v.e ^^^ r.e, v.f ^^^ r.f, v.g ^^^ r.g, v.h ^^^ r.h⟩
end

/-- the standard's rotate: cyclic left shift by `k mod 32` -/
def rotl (x : W32) (k : Nat) : W32 := x.rotateLeft (k % 32)

def CF (v : Reg) (blk : Bytes) : Reg := CFgen rotl v blk

/-- 5.2 padding for a message of `l` bytes: bit '1', k zero bits, 64-bit length -/
def padding (l : Nat) : Bytes :=
  0x80 :: (List.replicate ((119 - l % 64) % 64) 0 ++ w64bytes (BitVec.ofNat 64 (8 * l)))

/-- 5.3.1 iterate CF over `n` consecutive 64-byte blocks -/
def iter : Nat → Reg → Bytes → Reg
  | 0, v, _ => v
  | n+1, v, m => iter n (CF v (m.take 64)) (m.drop 64)

def regBytes (r : Reg) : Bytes :=
  w32bytes r.a ++ w32bytes r.b ++ w32bytes r.c ++ w32bytes r.d ++
  w32bytes r.e ++ w32bytes r.f ++ w32bytes r.g ++ w32bytes r.h

/-- SM3 digest of a byte string (length < 2^61 bytes) -/
def hash (m : Bytes) : Bytes :=
  let p := m ++ padding m.length
  regBytes (iter (p.length / 64) IV p)

end Spec.SM3
