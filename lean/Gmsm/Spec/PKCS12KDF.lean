/-
RFC 7292 (PKCS #12 v1.1), Appendix B.2 "General Method" — the password-based key derivation, written
as the RFC states it, over an abstract hash function `H : Bytes → Bytes` with the parameters
`u` (bytes of hash output; the RFC counts bits) and `v` (bytes of a compression-function block).
Pure byte / natural-number arithmetic, no big-integer library, no buffers.  Core Lean only; executable.

RFC steps (quoted):
  1. Construct a string, D (the "diversifier"), by concatenating v/8 copies of ID.
  2. Concatenate copies of the salt together to create a string S of length v(ceiling(s/v)) bits (the
     final copy of the salt may be truncated to create S).  Note that if the salt is the empty string,
     then so is S.
  3. The same for the password, giving P.
  4. Set I = S||P.
  5. Set c = ceiling(n/u).
  6. For i = 1, 2, ..., c:
     A. Set A_i = H^r(D||I)  (i.e., the r-th hash of D||I, H(H(H(... H(D||I)))))
     B. Concatenate copies of A_i to create a string B of length v bits (the final copy of A_i may be
        truncated to create B).
     C. Treating I as a concatenation I_0, I_1, ..., I_(k-1) of v-bit blocks, where
        k = ceiling(s/v) + ceiling(p/v), modify I by setting I_j = (I_j + B + 1) mod 2^v for each j.
  7. Concatenate A_1, A_2, ..., A_c together to form a pseudorandom bit string, A.
  8. Use the first n bits of A as the output of this entire process.
-/
import Gmsm.Util.Bytes
import Gmsm.Util.I2osp
namespace Spec.PKCS12KDF
open Gmsm

/-- H^r: `H` applied r times (H^0 is the identity, H^(r+1) = H ∘ H^r) -/
def hpow (H : Bytes → Bytes) : Nat → Bytes → Bytes
  | 0, x => x
  | r+1, x => H (hpow H r x)

/-- "concatenate copies of `s` to create a string of length `n` (the final copy may be truncated)":
    the byte at position i is `s[i mod |s|]`.  (Only used with `s` non-empty or `n = 0`.) -/
def cycleTo (s : Bytes) (n : Nat) : Bytes :=
  (List.range n).map (fun i => s.getD (i % s.length) 0)

/-- ⌈a / b⌉ -/
def ceilDiv (a b : Nat) : Nat := (a + b - 1) / b

/-- steps 2 and 3: the string of length v·⌈|s|/v⌉ made of copies of `s`; empty for the empty string -/
def extend (s : Bytes) (v : Nat) : Bytes := cycleTo s (v * ceilDiv s.length v)

/-- step 6.C on `k` consecutive v-byte blocks: I_j := (I_j + B + 1) mod 2^(8v), big-endian -/
def addBlocks (v b : Nat) : Nat → Bytes → Bytes
  | 0, _ => []
  | k+1, I => i2ospR v ((os2ip (I.take v) + b + 1) % 2 ^ (8 * v)) ++ addBlocks v b k (I.drop v)

/-- step 6.C for the whole of I (whose length is a multiple of v) -/
def stepI (v : Nat) (B I : Bytes) : Bytes := addBlocks v (os2ip B) (I.length / v) I

/-- step 6: the list A_1, …, A_c starting from the current I -/
def blocksA (H : Bytes → Bytes) (r v : Nat) (D : Bytes) : Nat → Bytes → List Bytes
  | 0, _ => []
  | c+1, I =>
    let A := hpow H r (D ++ I)
    let B := cycleTo A v
    A :: blocksA H r v D c (stepI v B I)

/-- RFC 7292 B.2: `size` bytes derived from password and salt for purpose `ID`
    (1 = encryption key, 2 = IV, 3 = MAC key) with `r` iterations -/
def kdf (H : Bytes → Bytes) (u v : Nat) (salt password : Bytes) (r : Nat) (ID : Byte) (size : Nat) : Bytes :=
  let D := List.replicate v ID
  let I := extend salt v ++ extend password v
  let c := ceilDiv size u
  (blocksA H r v D c I).flatten.take size

end Spec.PKCS12KDF
