/-
GCM, NIST SP 800-38D, over an arbitrary 128-bit block cipher `E` (given on 16-byte strings).
Blocks are `BitVec 128` with bit 0 of the standard (leftmost) = most significant bit.
Core Lean only; executable.
-/
import Gmsm.Util.Bytes
namespace Spec.GCM
open Gmsm

abbrev B128 := BitVec 128

def ofBytes (b : Bytes) : B128 := BitVec.ofNat 128 (os2ip b)
def toBytes (x : B128) : Bytes := i2osp 16 x.toNat

/-- R = 11100001 ‖ 0^120 -/
def R : B128 := 0xe1000000000000000000000000000000

/-- one iteration of Algorithm 1 (steps 3): bit `i` of `y` (leftmost first) -/
def mulStep (y : B128) (zv : B128 × B128) (i : Nat) : B128 × B128 :=
  let z := if y.getMsbD i then zv.1 ^^^ zv.2 else zv.1
  let v := if zv.2.getLsbD 0 then (zv.2 >>> 1) ^^^ R else zv.2 >>> 1
  (z, v)

/-- 6.3 Algorithm 1: X • Y in GF(2^128) -/
def mulGF (x y : B128) : B128 := ((List.range 128).foldl (mulStep y) (0, x)).1

/-- 6.4 Algorithm 2: GHASH_H over a list of blocks -/
def ghashBlocks (h : B128) (bs : List B128) : B128 := bs.foldl (fun acc b => mulGF (acc ^^^ b) h) 0

/-- split into 16-byte blocks, the last one zero-padded (no block for the empty string) -/
def blocksZ : Nat → Bytes → List B128
  | 0, _ => []
  | n+1, b => if b.isEmpty then [] else
      ofBytes ((b.take 16) ++ List.replicate (16 - (b.take 16).length) 0) :: blocksZ n (b.drop 16)

def padBlocks (b : Bytes) : List B128 := blocksZ (b.length / 16 + 1) b

/-- [len(A)]_64 ‖ [len(C)]_64 in bits -/
def lenBlock (a c : Nat) : B128 := (BitVec.ofNat 64 (8 * a)) ++ (BitVec.ofNat 64 (8 * c))

/-- GHASH_H (A ‖ 0^v ‖ C ‖ 0^u ‖ [len(A)]_64 ‖ [len(C)]_64) -/
def ghash (h : B128) (a c : Bytes) : B128 :=
  ghashBlocks h (padBlocks a ++ padBlocks c ++ [lenBlock a.length c.length])

/-- 6.2 inc_32: increment the rightmost 32 bits modulo 2^32 -/
def inc32 (x : B128) : B128 := (x.extractLsb' 32 96) ++ (x.extractLsb' 0 32 + 1)

section
variable (E : Bytes → Bytes)

/-- 6.5 Algorithm 3: GCTR_K (ICB, X) -/
def gctr : Nat → B128 → Bytes → Bytes
  | 0, _, _ => []
  | n+1, cb, x => if x.isEmpty then [] else
      xorBytes (x.take 16) (E (toBytes cb)) ++ gctr n (inc32 cb) (x.drop 16)

def gctrAll (icb : B128) (x : Bytes) : Bytes := gctr E (x.length / 16 + 1) icb x

/-- 7.1 step 2: J0 -/
def j0 (h : B128) (iv : Bytes) : B128 :=
  if iv.length = 12 then ofBytes (iv ++ [0, 0, 0, 1])
  else ghashBlocks h (padBlocks iv ++ [lenBlock 0 iv.length])

/-- 7.1 Algorithm 4: GCM-AE_K (IV, P, A) = (C, T) with t = 128 -/
def ae (iv p a : Bytes) : Bytes × Bytes :=
  let h := ofBytes (E (List.replicate 16 0))
  let j := j0 h iv
  let c := gctrAll E (inc32 j) p
  let s := ghash h a c
  (c, xorBytes (toBytes s) (E (toBytes j)))

/-- 7.2 Algorithm 5: GCM-AD_K (IV, C, A, T): plaintext, or `none` (FAIL) -/
def ad (iv c a t : Bytes) : Option Bytes :=
  let h := ofBytes (E (List.replicate 16 0))
  let j := j0 h iv
  let s := ghash h a c
  let t' := xorBytes (toBytes s) (E (toBytes j))
  if t' = t then some (gctrAll E (inc32 j) c) else none
end

end Spec.GCM
