/-
HMAC (RFC 2104) and PBKDF2 (RFC 8018 §5.2) over an arbitrary hash with 64-byte blocks;
instantiated with SM3.  Core Lean only; executable.
-/
import Gmsm.Spec.SM3
namespace Spec.HMAC
open Gmsm

/-- HMAC with block size 64 over hash `H` -/
def hmac (H : Bytes → Bytes) (key msg : Bytes) : Bytes :=
  let k0 := if key.length > 64 then H key else key
  let k := k0 ++ List.replicate (64 - k0.length) 0
  let ipad := k.map (· ^^^ 0x36)
  let opad := k.map (· ^^^ 0x5c)
  H (opad ++ H (ipad ++ msg))

def hmacSM3 := hmac Spec.SM3.hash

/-- U_1 ⊕ … ⊕ U_c -/
def pbkdf2F (prf : Bytes → Bytes → Bytes) (pw : Bytes) : Nat → Bytes → Bytes → Bytes
  | 0, _, acc => acc
  | n+1, u, acc => let u' := prf pw u; pbkdf2F prf pw n u' (xorBytes acc u')

def pbkdf2Block (prf : Bytes → Bytes → Bytes) (pw salt : Bytes) (iter i : Nat) : Bytes :=
  let u1 := prf pw (salt ++ w32bytes (BitVec.ofNat 32 i))
  pbkdf2F prf pw (iter - 1) u1 u1

def pbkdf2 (prf : Bytes → Bytes → Bytes) (hLen : Nat) (pw salt : Bytes) (iter dkLen : Nat) : Bytes :=
  let n := (dkLen + hLen - 1) / hLen
  ((List.range n).flatMap (fun i => pbkdf2Block prf pw salt iter (i+1))).take dkLen

def pbkdf2SM3 := pbkdf2 hmacSM3 32

end Spec.HMAC
