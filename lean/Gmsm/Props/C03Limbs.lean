/-
C03, limb layer ("layer L"): theorems about Model.P256Limbs, the transcription of the 9-limb Montgomery field
arithmetic of sm2/p256.go (sm2P256Add/Sub/Mul/Square/ReduceCarry/ReduceDegree/FromBig/ToBig).

Conventions: `value a = Σ a[i]·2^off_i` (offsets 0,29,57,86,114,143,171,200,228), R = 2^257, p the SM2 prime,
`fieldRepr a = value a · R⁻¹ mod p` the field element a limb vector stands for.
`Canon`: limbs of 29/28 bits; `InBounds`: even limbs < 2^30, odd limbs < 2^29 (the bounds the carry chains
guarantee after `sm2P256ReduceCarry` and all operations accept).
-/
import Gmsm.Model.P256Limbs
import Mathlib.Tactic.Ring
namespace Props.C03Limbs
set_option exponentiation.threshold 600
set_option linter.unusedSimpArgs false
open Model.P256Limbs

-- bridging BitVec → Nat (stated with literal moduli; none of them is a `rfl` lemma, so that `simp only`
-- rewrites with them instead of asking the kernel to unfold BitVec operations) ------------------------------

theorem add32 (x y : U32) : (x + y).toNat = (x.toNat + y.toNat) % 4294967296 := BitVec.toNat_add x y
theorem sub32 (x y : U32) : (x - y).toNat = (4294967296 - y.toNat + x.toNat) % 4294967296 := BitVec.toNat_sub x y
theorem and29 (x : U32) : (x &&& bottom29Bits).toNat = x.toNat % 536870912 := by
  simp only [bottom29Bits, BitVec.toNat_and]
  exact Nat.and_two_pow_sub_one_eq_mod x.toNat 29
theorem and28 (x : U32) : (x &&& bottom28Bits).toNat = x.toNat % 268435456 := by
  simp only [bottom28Bits, BitVec.toNat_and]
  exact Nat.and_two_pow_sub_one_eq_mod x.toNat 28
theorem shr32 (x : U32) (k : Nat) : (x >>> k).toNat = x.toNat / 2 ^ k := by
  rw [BitVec.toNat_ushiftRight, Nat.shiftRight_eq_div_pow]
theorem shl32 (x : U32) (k : Nat) : (x <<< k).toNat = x.toNat * 2 ^ k % 4294967296 := by
  rw [BitVec.toNat_shiftLeft, Nat.shiftLeft_eq]
theorem lt32 (x : U32) : x.toNat < 4294967296 := x.isLt
theorem and_ones (a : U32) : a &&& 0xffffffff = a := by
  have : (0xffffffff : U32) = BitVec.allOnes 32 := by decide
  rw [this, BitVec.and_allOnes]

theorem nz_ones (x : U32) (h1 : 0 < x.toNat) (h2 : x.toNat ≤ 2147483648) : nonZeroToAllOnes x = 0xffffffff := by
  apply BitVec.eq_of_toNat_eq
  unfold nonZeroToAllOnes
  simp only [sub32, shr32, BitVec.reduceToNat, Nat.reducePow]
  have := lt32 x
  omega

theorem nz_zero (x : U32) (h : x.toNat = 0 ∨ 2147483648 < x.toNat) : nonZeroToAllOnes x = 0 := by
  apply BitVec.eq_of_toNat_eq
  unfold nonZeroToAllOnes
  simp only [sub32, shr32, BitVec.reduceToNat, Nat.reducePow]
  have := lt32 x
  omega

/-- simp set turning a goal about `toNat` of 32-bit expressions into linear arithmetic with `/`, `%` -/
macro "bv32" : tactic =>
  `(tactic| simp only [add32, sub32, and29, and28, shr32, shl32, and_ones, BitVec.reduceToNat, Nat.reducePow])
macro "bv32" "at" h:ident : tactic =>
  `(tactic| simp only [add32, sub32, and29, and28, shr32, shl32, and_ones, BitVec.reduceToNat, Nat.reducePow] at $h:ident)

-- limb vectors --------------------------------------------------------------------------------------------

/-- canonical limbs: 29 / 28 bits (what the carry chains and `sm2P256FromBig` produce) -/
def Canon (a : Limbs) : Prop :=
  a[0].toNat < 2 ^ 29 ∧ a[1].toNat < 2 ^ 28 ∧ a[2].toNat < 2 ^ 29 ∧ a[3].toNat < 2 ^ 28 ∧ a[4].toNat < 2 ^ 29 ∧
  a[5].toNat < 2 ^ 28 ∧ a[6].toNat < 2 ^ 29 ∧ a[7].toNat < 2 ^ 28 ∧ a[8].toNat < 2 ^ 29

/-- the input/output bounds of the field operations (as in the crypto/elliptic code this file was derived
    from: "in[0,2,...] < 2**30, in[1,3,...] < 2**29") -/
def InBounds (a : Limbs) : Prop :=
  a[0].toNat < 2 ^ 30 ∧ a[1].toNat < 2 ^ 29 ∧ a[2].toNat < 2 ^ 30 ∧ a[3].toNat < 2 ^ 29 ∧ a[4].toNat < 2 ^ 30 ∧
  a[5].toNat < 2 ^ 29 ∧ a[6].toNat < 2 ^ 30 ∧ a[7].toNat < 2 ^ 29 ∧ a[8].toNat < 2 ^ 30

instance (a : Limbs) : Decidable (Canon a) := by unfold Canon; infer_instance
instance (a : Limbs) : Decidable (InBounds a) := by unfold InBounds; infer_instance

theorem Canon.inBounds {a : Limbs} (h : Canon a) : InBounds a := by
  unfold Canon at h; unfold InBounds; omega

theorem exists_lit9 (a : Limbs) : ∃ a0 a1 a2 a3 a4 a5 a6 a7 a8, a = #v[a0, a1, a2, a3, a4, a5, a6, a7, a8] := by
  refine ⟨a[0], a[1], a[2], a[3], a[4], a[5], a[6], a[7], a[8], ?_⟩
  apply Vector.ext
  intro i hi
  match i, hi with
  | 0, _ => rfl
  | 1, _ => rfl
  | 2, _ => rfl
  | 3, _ => rfl
  | 4, _ => rfl
  | 5, _ => rfl
  | 6, _ => rfl
  | 7, _ => rfl
  | 8, _ => rfl
  | n+9, h => omega

theorem value_lit (a0 a1 a2 a3 a4 a5 a6 a7 a8 : U32) :
    value #v[a0, a1, a2, a3, a4, a5, a6, a7, a8] =
      a0.toNat + a1.toNat * 2 ^ 29 + a2.toNat * 2 ^ 57 + a3.toNat * 2 ^ 86 + a4.toNat * 2 ^ 114
      + a5.toNat * 2 ^ 143 + a6.toNat * 2 ^ 171 + a7.toNat * 2 ^ 200 + a8.toNat * 2 ^ 228 := rfl

theorem canon_lit (a0 a1 a2 a3 a4 a5 a6 a7 a8 : U32) :
    Canon #v[a0, a1, a2, a3, a4, a5, a6, a7, a8] ↔
      (a0.toNat < 2 ^ 29 ∧ a1.toNat < 2 ^ 28 ∧ a2.toNat < 2 ^ 29 ∧ a3.toNat < 2 ^ 28 ∧ a4.toNat < 2 ^ 29 ∧
       a5.toNat < 2 ^ 28 ∧ a6.toNat < 2 ^ 29 ∧ a7.toNat < 2 ^ 28 ∧ a8.toNat < 2 ^ 29) := Iff.rfl

theorem inBounds_lit (a0 a1 a2 a3 a4 a5 a6 a7 a8 : U32) :
    InBounds #v[a0, a1, a2, a3, a4, a5, a6, a7, a8] ↔
      (a0.toNat < 2 ^ 30 ∧ a1.toNat < 2 ^ 29 ∧ a2.toNat < 2 ^ 30 ∧ a3.toNat < 2 ^ 29 ∧ a4.toNat < 2 ^ 30 ∧
       a5.toNat < 2 ^ 29 ∧ a6.toNat < 2 ^ 30 ∧ a7.toNat < 2 ^ 29 ∧ a8.toNat < 2 ^ 30) := Iff.rfl

-- (c) sm2P256ReduceCarry ----------------------------------------------------------------------------------

/-- the four table entries used for `carry` = k < 8: (2k, 2^29 - 256k, 2048k - 1, k·2^25), all 0 for k = 0 -/
theorem carryTable_entries : ∀ k : Fin 8,
    let c : U32 := BitVec.ofNat 32 k.val
    (carryTable.toArray.getD (carryIdx c 0) 0).toNat = 2 * k.val ∧
    (carryTable.toArray.getD (carryIdx c 2) 0).toNat = (if k.val = 0 then 0 else 2 ^ 29 - 256 * k.val) ∧
    (carryTable.toArray.getD (carryIdx c 3) 0).toNat = (if k.val = 0 then 0 else 2048 * k.val - 1) ∧
    (carryTable.toArray.getD (carryIdx c 7) 0).toNat = k.val * 2 ^ 25 := by decide

theorem reduceCarry_lit (a0 a1 a2 a3 a4 a5 a6 a7 a8 c : U32) :
    reduceCarry #v[a0, a1, a2, a3, a4, a5, a6, a7, a8] c =
      #v[a0 + carryTable.toArray.getD (carryIdx c 0) 0, a1, a2 + carryTable.toArray.getD (carryIdx c 2) 0,
         a3 + carryTable.toArray.getD (carryIdx c 3) 0, a4, a5, a6,
         a7 + carryTable.toArray.getD (carryIdx c 7) 0, a8] := rfl

/-- `sm2P256ReduceCarry`: for carry < 8 (the documented bound) and canonical limbs the result has
    `value out + carry·2p = value a + carry·2^257` exactly, no 32-bit overflow, and stays within the bounds
    even limbs < 2^30, odd limbs < 2^29. -/
theorem reduceCarry_exact (a : Limbs) (c : U32) (hc : c.toNat < 8) (ha : Canon a) :
    value (reduceCarry a c) + c.toNat * (2 * P) = value a + c.toNat * 2 ^ 257 ∧ InBounds (reduceCarry a c) := by
  obtain ⟨a0, a1, a2, a3, a4, a5, a6, a7, a8, rfl⟩ := exists_lit9 a
  have hk := carryTable_entries ⟨c.toNat, hc⟩
  simp only [BitVec.ofNat_toNat, BitVec.setWidth_eq] at hk
  obtain ⟨e0, e2, e3, e7⟩ := hk
  rw [reduceCarry_lit, value_lit, value_lit, inBounds_lit]
  rw [canon_lit] at ha
  simp only [add32, e0, e2, e3, e7, P]
  split <;> omega

/-- (c) `value (reduceCarry a carry) ≡ value a + carry·R (mod p)` -/
theorem reduceCarry_ok (a : Limbs) (c : U32) (hc : c.toNat < 8) (ha : Canon a) :
    value (reduceCarry a c) % P = (value a + c.toNat * R) % P ∧ InBounds (reduceCarry a c) := by
  obtain ⟨h, hb⟩ := reduceCarry_exact a c hc ha
  refine ⟨?_, hb⟩
  have hR : R = 2 ^ 257 := rfl
  have e : c.toNat * (2 * P) = (c.toNat * 2) * P := by rw [Nat.mul_assoc]
  rw [hR, ← h, e, Nat.add_mul_mod_self_right]

-- (b) sm2P256Add / sm2P256Sub -----------------------------------------------------------------------------

theorem addLimb29_spec (ai bi c : U32) (h : ai.toNat + bi.toNat + c.toNat < 4294967296) :
    (addLimb29 ai bi c).1.toNat = (ai.toNat + bi.toNat + c.toNat) % 536870912 ∧
    (addLimb29 ai bi c).2.toNat = (ai.toNat + bi.toNat + c.toNat) / 536870912 := by
  unfold addLimb29
  bv32
  omega

theorem addLimb28_spec (ai bi c : U32) (h : ai.toNat + bi.toNat + c.toNat < 4294967296) :
    (addLimb28 ai bi c).1.toNat = (ai.toNat + bi.toNat + c.toNat) % 268435456 ∧
    (addLimb28 ai bi c).2.toNat = (ai.toNat + bi.toNat + c.toNat) / 268435456 := by
  unfold addLimb28
  bv32
  omega

/-- the carry chain of `sm2P256Add`: no 32-bit overflow for inputs within the bounds, canonical limbs out,
    `value c + carry·2^257 = value a + value b`, carry < 8 -/
theorem addChain_spec (a b : Limbs) (ha : InBounds a) (hb : InBounds b) :
    value (addChain a b).1 + (addChain a b).2.toNat * 2 ^ 257 = value a + value b ∧
    Canon (addChain a b).1 ∧ (addChain a b).2.toNat < 8 := by
  obtain ⟨a0, a1, a2, a3, a4, a5, a6, a7, a8, rfl⟩ := exists_lit9 a
  obtain ⟨b0, b1, b2, b3, b4, b5, b6, b7, b8, rfl⟩ := exists_lit9 b
  rw [inBounds_lit] at ha hb
  have hr : ∃ r0 r1 r2 r3 r4 r5 r6 r7 r8, r0 = addLimb29 a0 b0 0 ∧ r1 = addLimb28 a1 b1 r0.2 ∧
      r2 = addLimb29 a2 b2 r1.2 ∧ r3 = addLimb28 a3 b3 r2.2 ∧ r4 = addLimb29 a4 b4 r3.2 ∧
      r5 = addLimb28 a5 b5 r4.2 ∧ r6 = addLimb29 a6 b6 r5.2 ∧ r7 = addLimb28 a7 b7 r6.2 ∧
      r8 = addLimb29 a8 b8 r7.2 ∧
      addChain #v[a0, a1, a2, a3, a4, a5, a6, a7, a8] #v[b0, b1, b2, b3, b4, b5, b6, b7, b8] =
        (#v[r0.1, r1.1, r2.1, r3.1, r4.1, r5.1, r6.1, r7.1, r8.1], r8.2) :=
    ⟨_, _, _, _, _, _, _, _, _, rfl, rfl, rfl, rfl, rfl, rfl, rfl, rfl, rfl, rfl⟩
  obtain ⟨r0, r1, r2, r3, r4, r5, r6, r7, r8, e0, e1, e2, e3, e4, e5, e6, e7, e8, e⟩ := hr
  rw [e]; clear e
  have z : (0 : U32).toNat = 0 := rfl
  have h0 := addLimb29_spec a0 b0 0 (by omega); rw [← e0] at h0
  have h1 := addLimb28_spec a1 b1 r0.2 (by omega); rw [← e1] at h1
  have h2 := addLimb29_spec a2 b2 r1.2 (by omega); rw [← e2] at h2
  have h3 := addLimb28_spec a3 b3 r2.2 (by omega); rw [← e3] at h3
  have h4 := addLimb29_spec a4 b4 r3.2 (by omega); rw [← e4] at h4
  have h5 := addLimb28_spec a5 b5 r4.2 (by omega); rw [← e5] at h5
  have h6 := addLimb29_spec a6 b6 r5.2 (by omega); rw [← e6] at h6
  have h7 := addLimb28_spec a7 b7 r6.2 (by omega); rw [← e7] at h7
  have h8 := addLimb29_spec a8 b8 r7.2 (by omega); rw [← e8] at h8
  clear e0 e1 e2 e3 e4 e5 e6 e7 e8
  dsimp only
  rw [value_lit, value_lit, value_lit, canon_lit]
  omega

/-- (b) `sm2P256Add`: within the input bounds the output is within the bounds and
    `value (add a b) ≡ value a + value b (mod p)`; exactly: `value out + carry·2p = value a + value b`. -/
theorem add_exact (a b : Limbs) (ha : InBounds a) (hb : InBounds b) :
    ∃ k, k < 8 ∧ value (add a b) + k * (2 * P) = value a + value b ∧ InBounds (add a b) := by
  obtain ⟨h1, h2, h3⟩ := addChain_spec a b ha hb
  obtain ⟨h4, h5⟩ := reduceCarry_exact (addChain a b).1 (addChain a b).2 h3 h2
  refine ⟨(addChain a b).2.toNat, h3, ?_, h5⟩
  show value (reduceCarry (addChain a b).1 (addChain a b).2) + _ = _
  omega

theorem add_ok (a b : Limbs) (ha : InBounds a) (hb : InBounds b) :
    value (add a b) % P = (value a + value b) % P ∧ InBounds (add a b) := by
  obtain ⟨k, _, h, hb⟩ := add_exact a b ha hb
  refine ⟨?_, hb⟩
  have e : k * (2 * P) = (k * 2) * P := by rw [Nat.mul_assoc]
  rw [← h, e, Nat.add_mul_mod_self_right]

theorem subLimb29_spec (ai bi zi c : U32) (hz : bi.toNat ≤ zi.toNat)
    (h : ai.toNat + zi.toNat - bi.toNat + c.toNat < 4294967296) :
    (subLimb29 ai bi zi c).1.toNat = (ai.toNat + zi.toNat - bi.toNat + c.toNat) % 536870912 ∧
    (subLimb29 ai bi zi c).2.toNat = (ai.toNat + zi.toNat - bi.toNat + c.toNat) / 536870912 := by
  unfold subLimb29
  bv32
  have := lt32 ai; have := lt32 bi; have := lt32 zi
  omega

theorem subLimb28_spec (ai bi zi c : U32) (hz : bi.toNat ≤ zi.toNat)
    (h : ai.toNat + zi.toNat - bi.toNat + c.toNat < 4294967296) :
    (subLimb28 ai bi zi c).1.toNat = (ai.toNat + zi.toNat - bi.toNat + c.toNat) % 268435456 ∧
    (subLimb28 ai bi zi c).2.toNat = (ai.toNat + zi.toNat - bi.toNat + c.toNat) / 268435456 := by
  unfold subLimb28
  bv32
  have := lt32 ai; have := lt32 bi; have := lt32 zi
  omega

/-- `sm2P256Zero31` is 8p -/
theorem value_zero31 : value zero31 = 8 * P := by decide

/-- the carry chain of `sm2P256Sub`: `value c + carry·2^257 + value b = value a + 8p`, canonical, carry < 8 -/
theorem subChain_spec (a b : Limbs) (ha : InBounds a) (hb : InBounds b) :
    value (subChain a b).1 + (subChain a b).2.toNat * 2 ^ 257 + value b = value a + 8 * P ∧
    Canon (subChain a b).1 ∧ (subChain a b).2.toNat < 8 := by
  obtain ⟨a0, a1, a2, a3, a4, a5, a6, a7, a8, rfl⟩ := exists_lit9 a
  obtain ⟨b0, b1, b2, b3, b4, b5, b6, b7, b8, rfl⟩ := exists_lit9 b
  rw [inBounds_lit] at ha hb
  have hr : ∃ r0 r1 r2 r3 r4 r5 r6 r7 r8, r0 = subLimb29 a0 b0 0x7FFFFFF8 0 ∧ r1 = subLimb28 a1 b1 0x3FFFFFFC r0.2 ∧
      r2 = subLimb29 a2 b2 0x800003FC r1.2 ∧ r3 = subLimb28 a3 b3 0x3FFFDFFC r2.2 ∧
      r4 = subLimb29 a4 b4 0x7FFFFFFC r3.2 ∧ r5 = subLimb28 a5 b5 0x3FFFFFFC r4.2 ∧
      r6 = subLimb29 a6 b6 0x7FFFFFFC r5.2 ∧ r7 = subLimb28 a7 b7 0x37FFFFFC r6.2 ∧
      r8 = subLimb29 a8 b8 0x7FFFFFFC r7.2 ∧
      subChain #v[a0, a1, a2, a3, a4, a5, a6, a7, a8] #v[b0, b1, b2, b3, b4, b5, b6, b7, b8] =
        (#v[r0.1, r1.1, r2.1, r3.1, r4.1, r5.1, r6.1, r7.1, r8.1], r8.2) :=
    ⟨_, _, _, _, _, _, _, _, _, rfl, rfl, rfl, rfl, rfl, rfl, rfl, rfl, rfl, rfl⟩
  obtain ⟨r0, r1, r2, r3, r4, r5, r6, r7, r8, e0, e1, e2, e3, e4, e5, e6, e7, e8, e⟩ := hr
  rw [e]; clear e
  have z : (0 : U32).toNat = 0 := rfl
  have z0 : (0x7FFFFFF8 : U32).toNat = 2147483640 := rfl
  have z1 : (0x3FFFFFFC : U32).toNat = 1073741820 := rfl
  have z2 : (0x800003FC : U32).toNat = 2147484668 := rfl
  have z3 : (0x3FFFDFFC : U32).toNat = 1073733628 := rfl
  have z4 : (0x7FFFFFFC : U32).toNat = 2147483644 := rfl
  have z7 : (0x37FFFFFC : U32).toNat = 939524092 := rfl
  have h0 := subLimb29_spec a0 b0 0x7FFFFFF8 0 (by omega) (by omega); rw [← e0] at h0
  have h1 := subLimb28_spec a1 b1 0x3FFFFFFC r0.2 (by omega) (by omega); rw [← e1] at h1
  have h2 := subLimb29_spec a2 b2 0x800003FC r1.2 (by omega) (by omega); rw [← e2] at h2
  have h3 := subLimb28_spec a3 b3 0x3FFFDFFC r2.2 (by omega) (by omega); rw [← e3] at h3
  have h4 := subLimb29_spec a4 b4 0x7FFFFFFC r3.2 (by omega) (by omega); rw [← e4] at h4
  have h5 := subLimb28_spec a5 b5 0x3FFFFFFC r4.2 (by omega) (by omega); rw [← e5] at h5
  have h6 := subLimb29_spec a6 b6 0x7FFFFFFC r5.2 (by omega) (by omega); rw [← e6] at h6
  have h7 := subLimb28_spec a7 b7 0x37FFFFFC r6.2 (by omega) (by omega); rw [← e7] at h7
  have h8 := subLimb29_spec a8 b8 0x7FFFFFFC r7.2 (by omega) (by omega); rw [← e8] at h8
  clear e0 e1 e2 e3 e4 e5 e6 e7 e8
  dsimp only
  rw [value_lit, value_lit, value_lit, canon_lit]
  simp only [P]
  omega

/-- (b) `sm2P256Sub`: `value (sub a b) + value b ≡ value a (mod p)`; exactly
    `value out + value b + carry·2p = value a + 8p`. -/
theorem sub_exact (a b : Limbs) (ha : InBounds a) (hb : InBounds b) :
    ∃ k, k < 8 ∧ value (sub a b) + value b + k * (2 * P) = value a + 8 * P ∧ InBounds (sub a b) := by
  obtain ⟨h1, h2, h3⟩ := subChain_spec a b ha hb
  obtain ⟨h4, h5⟩ := reduceCarry_exact (subChain a b).1 (subChain a b).2 h3 h2
  refine ⟨(subChain a b).2.toNat, h3, ?_, h5⟩
  show value (reduceCarry (subChain a b).1 (subChain a b).2) + _ + _ = _
  omega

theorem sub_ok (a b : Limbs) (ha : InBounds a) (hb : InBounds b) :
    (value (sub a b) + value b) % P = value a % P ∧ InBounds (sub a b) := by
  obtain ⟨k, _, h, hb⟩ := sub_exact a b ha hb
  refine ⟨?_, hb⟩
  have e : k * (2 * P) = (k * 2) * P := by rw [Nat.mul_assoc]
  have h1 : (value (sub a b) + value b + k * 2 * P) % P = (value a + 8 * P) % P := by rw [← e, h]
  rwa [Nat.add_mul_mod_self_right, Nat.add_mul_mod_self_right] at h1

-- (a) sm2P256FromBig / sm2P256ToBig -----------------------------------------------------------------------

theorem R_RInverse : R * RInverse % P = 1 := by decide

theorem low29_toNat (x : Nat) : (low29 x).toNat = x % 536870912 := by
  unfold low29
  rw [and29, BitVec.toNat_ofNat]
  omega

theorem low28_toNat (x : Nat) : (low28 x).toNat = x % 268435456 := by
  unfold low28
  rw [and28, BitVec.toNat_ofNat]
  omega

theorem shlN (a k : Nat) : a <<< k = a * 2 ^ k := Nat.shiftLeft_eq a k
theorem shrN (a k : Nat) : a >>> k = a / 2 ^ k := Nat.shiftRight_eq_div_pow a k

/-- the limbs `sm2P256FromBig` writes are canonical and their value is `x·R mod p` -/
theorem fromBig_value (x : Nat) : value (fromBig x) = x * R % P ∧ Canon (fromBig x) := by
  have hlt : x * R % P < 2 ^ 256 := Nat.lt_of_lt_of_le (Nat.mod_lt _ (by decide)) (by decide)
  unfold fromBig
  rw [value_lit, canon_lit]
  simp only [low29_toNat, low28_toNat, shrN]
  rw [shlN]
  have hR : R = 2 ^ 257 := rfl
  rw [← hR]
  generalize x * R % P = X at *
  omega

theorem toBig_eq (a : Limbs) : toBig a = value a * RInverse % P := by
  unfold toBig value
  simp only [shlN]
  congr 2
  omega

/-- `toBig` is `fieldRepr` -/
theorem toBig_eq_fieldRepr (a : Limbs) : toBig a = fieldRepr a := toBig_eq a

/-- (a) `sm2P256ToBig(sm2P256FromBig(x)) = x` for x < p, the limbs are canonical (29/28 bits) and their
    value is `x·R mod p` -/
theorem fromBig_toBig (x : Nat) (hx : x < P) :
    toBig (fromBig x) = x ∧ value (fromBig x) % P = x * R % P ∧ Canon (fromBig x) := by
  obtain ⟨hv, hc⟩ := fromBig_value x
  refine ⟨?_, ?_, hc⟩
  · rw [toBig_eq, hv, Nat.mod_mul_mod, Nat.mul_assoc, Nat.mul_mod, R_RInverse, Nat.mul_one, Nat.mod_mod,
      Nat.mod_eq_of_lt hx]
  · rw [hv, Nat.mod_mod]

/-- `fieldRepr (fromBig x) = x mod p` for every x (FromBig reduces its argument) -/
theorem fieldRepr_fromBig (x : Nat) : fieldRepr (fromBig x) = x % P := by
  obtain ⟨hv, _⟩ := fromBig_value x
  unfold fieldRepr
  rw [hv, Nat.mod_mul_mod, Nat.mul_assoc, Nat.mul_mod, R_RInverse, Nat.mul_one, Nat.mod_mod]

-- (d) the schoolbook products of sm2P256Mul / sm2P256Square ----------------------------------------------------

theorem add64 (x y : U64) : (x + y).toNat = (x.toNat + y.toNat) % 18446744073709551616 := BitVec.toNat_add x y
theorem mul64 (x y : U64) : (x * y).toNat = x.toNat * y.toNat % 18446744073709551616 := BitVec.toNat_mul x y
theorem u64_toNat (x : U32) : (u64 x).toNat = x.toNat := by
  unfold u64
  rw [BitVec.toNat_setWidth]
  have := lt32 x
  omega
theorem u64_shl0 (x : U32) : (u64 x <<< 0).toNat = x.toNat := by
  rw [BitVec.shiftLeft_zero, u64_toNat]
theorem u64_shl1 (x : U32) : (u64 x <<< 1).toNat = 2 * x.toNat := by
  rw [BitVec.toNat_shiftLeft, shlN, u64_toNat]
  have := lt32 x
  omega
theorem u64_shl2 (x : U32) : (u64 x <<< 2).toNat = 4 * x.toNat := by
  rw [BitVec.toNat_shiftLeft, shlN, u64_toNat]
  have := lt32 x
  omega
theorem mul_two_comm (a b : Nat) : a * (2 * b) = 2 * (a * b) := Nat.mul_left_comm a 2 b
theorem mul_four_comm (a b : Nat) : a * (4 * b) = 4 * (a * b) := Nat.mul_left_comm a 4 b
theorem prod_bound {x y m n : Nat} (hx : x < m) (hy : y < n) : x * y ≤ (m - 1) * (n - 1) :=
  Nat.mul_le_mul (by omega) (by omega)

/-- the 17 integer sums Σ_{i+j=k} a_i·b_j (doubled when i and j are both odd) -/
def mulNat (a b : Limbs) : List Nat :=
  [(a[0].toNat * b[0].toNat),
   (a[0].toNat * b[1].toNat) + (a[1].toNat * b[0].toNat),
   (a[0].toNat * b[2].toNat) + 2 * (a[1].toNat * b[1].toNat) + (a[2].toNat * b[0].toNat),
   (a[0].toNat * b[3].toNat) + (a[1].toNat * b[2].toNat) + (a[2].toNat * b[1].toNat) + (a[3].toNat * b[0].toNat),
   (a[0].toNat * b[4].toNat) + 2 * (a[1].toNat * b[3].toNat) + (a[2].toNat * b[2].toNat) + 2 * (a[3].toNat * b[1].toNat) + (a[4].toNat * b[0].toNat),
   (a[0].toNat * b[5].toNat) + (a[1].toNat * b[4].toNat) + (a[2].toNat * b[3].toNat) + (a[3].toNat * b[2].toNat) + (a[4].toNat * b[1].toNat) + (a[5].toNat * b[0].toNat),
   (a[0].toNat * b[6].toNat) + 2 * (a[1].toNat * b[5].toNat) + (a[2].toNat * b[4].toNat) + 2 * (a[3].toNat * b[3].toNat) + (a[4].toNat * b[2].toNat) + 2 * (a[5].toNat * b[1].toNat) + (a[6].toNat * b[0].toNat),
   (a[0].toNat * b[7].toNat) + (a[1].toNat * b[6].toNat) + (a[2].toNat * b[5].toNat) + (a[3].toNat * b[4].toNat) + (a[4].toNat * b[3].toNat) + (a[5].toNat * b[2].toNat) + (a[6].toNat * b[1].toNat) + (a[7].toNat * b[0].toNat),
   (a[0].toNat * b[8].toNat) + 2 * (a[1].toNat * b[7].toNat) + (a[2].toNat * b[6].toNat) + 2 * (a[3].toNat * b[5].toNat) + (a[4].toNat * b[4].toNat) + 2 * (a[5].toNat * b[3].toNat) + (a[6].toNat * b[2].toNat) + 2 * (a[7].toNat * b[1].toNat) + (a[8].toNat * b[0].toNat),
   (a[1].toNat * b[8].toNat) + (a[2].toNat * b[7].toNat) + (a[3].toNat * b[6].toNat) + (a[4].toNat * b[5].toNat) + (a[5].toNat * b[4].toNat) + (a[6].toNat * b[3].toNat) + (a[7].toNat * b[2].toNat) + (a[8].toNat * b[1].toNat),
   (a[2].toNat * b[8].toNat) + 2 * (a[3].toNat * b[7].toNat) + (a[4].toNat * b[6].toNat) + 2 * (a[5].toNat * b[5].toNat) + (a[6].toNat * b[4].toNat) + 2 * (a[7].toNat * b[3].toNat) + (a[8].toNat * b[2].toNat),
   (a[3].toNat * b[8].toNat) + (a[4].toNat * b[7].toNat) + (a[5].toNat * b[6].toNat) + (a[6].toNat * b[5].toNat) + (a[7].toNat * b[4].toNat) + (a[8].toNat * b[3].toNat),
   (a[4].toNat * b[8].toNat) + 2 * (a[5].toNat * b[7].toNat) + (a[6].toNat * b[6].toNat) + 2 * (a[7].toNat * b[5].toNat) + (a[8].toNat * b[4].toNat),
   (a[5].toNat * b[8].toNat) + (a[6].toNat * b[7].toNat) + (a[7].toNat * b[6].toNat) + (a[8].toNat * b[5].toNat),
   (a[6].toNat * b[8].toNat) + 2 * (a[7].toNat * b[7].toNat) + (a[8].toNat * b[6].toNat),
   (a[7].toNat * b[8].toNat) + (a[8].toNat * b[7].toNat),
   (a[8].toNat * b[8].toNat)]

/-- the 17 integer sums of `sm2P256Square` (cross terms doubled once more) -/
def squareNat (a : Limbs) : List Nat :=
  [(a[0].toNat * a[0].toNat),
   2 * (a[0].toNat * a[1].toNat),
   2 * (a[0].toNat * a[2].toNat) + 2 * (a[1].toNat * a[1].toNat),
   2 * (a[0].toNat * a[3].toNat) + 2 * (a[1].toNat * a[2].toNat),
   2 * (a[0].toNat * a[4].toNat) + 4 * (a[1].toNat * a[3].toNat) + (a[2].toNat * a[2].toNat),
   2 * (a[0].toNat * a[5].toNat) + 2 * (a[1].toNat * a[4].toNat) + 2 * (a[2].toNat * a[3].toNat),
   2 * (a[0].toNat * a[6].toNat) + 4 * (a[1].toNat * a[5].toNat) + 2 * (a[2].toNat * a[4].toNat) + 2 * (a[3].toNat * a[3].toNat),
   2 * (a[0].toNat * a[7].toNat) + 2 * (a[1].toNat * a[6].toNat) + 2 * (a[2].toNat * a[5].toNat) + 2 * (a[3].toNat * a[4].toNat),
   2 * (a[0].toNat * a[8].toNat) + 4 * (a[1].toNat * a[7].toNat) + 2 * (a[2].toNat * a[6].toNat) + 4 * (a[3].toNat * a[5].toNat) + (a[4].toNat * a[4].toNat),
   2 * (a[1].toNat * a[8].toNat) + 2 * (a[2].toNat * a[7].toNat) + 2 * (a[3].toNat * a[6].toNat) + 2 * (a[4].toNat * a[5].toNat),
   2 * (a[2].toNat * a[8].toNat) + 4 * (a[3].toNat * a[7].toNat) + 2 * (a[4].toNat * a[6].toNat) + 2 * (a[5].toNat * a[5].toNat),
   2 * (a[3].toNat * a[8].toNat) + 2 * (a[4].toNat * a[7].toNat) + 2 * (a[5].toNat * a[6].toNat),
   2 * (a[4].toNat * a[8].toNat) + 4 * (a[5].toNat * a[7].toNat) + (a[6].toNat * a[6].toNat),
   2 * (a[5].toNat * a[8].toNat) + 2 * (a[6].toNat * a[7].toNat),
   2 * (a[6].toNat * a[8].toNat) + 2 * (a[7].toNat * a[7].toNat),
   2 * (a[7].toNat * a[8].toNat),
   (a[8].toNat * a[8].toNat)]

/-- the words `sm2P256ReduceDegree` tolerates: the top word below 2^60 (all others arbitrary) -/
def LargeOK (b : Large) : Prop := b[16].toNat < 2 ^ 60
instance (b : Large) : Decidable (LargeOK b) := by unfold LargeOK; infer_instance

set_option maxHeartbeats 4000000 in
theorem mulLarge_lit (a0 a1 a2 a3 a4 a5 a6 a7 a8 b0 b1 b2 b3 b4 b5 b6 b7 b8 : U32)
    (ha : InBounds #v[a0, a1, a2, a3, a4, a5, a6, a7, a8]) (hb : InBounds #v[b0, b1, b2, b3, b4, b5, b6, b7, b8]) :
    (mulLarge #v[a0, a1, a2, a3, a4, a5, a6, a7, a8] #v[b0, b1, b2, b3, b4, b5, b6, b7, b8]).toList.map (·.toNat) = mulNat #v[a0, a1, a2, a3, a4, a5, a6, a7, a8] #v[b0, b1, b2, b3, b4, b5, b6, b7, b8] ∧
    valueLarge (mulLarge #v[a0, a1, a2, a3, a4, a5, a6, a7, a8] #v[b0, b1, b2, b3, b4, b5, b6, b7, b8]) = value #v[a0, a1, a2, a3, a4, a5, a6, a7, a8] * value #v[b0, b1, b2, b3, b4, b5, b6, b7, b8] ∧ LargeOK (mulLarge #v[a0, a1, a2, a3, a4, a5, a6, a7, a8] #v[b0, b1, b2, b3, b4, b5, b6, b7, b8]) := by
  rw [inBounds_lit] at ha hb
  obtain ⟨ha0, ha1, ha2, ha3, ha4, ha5, ha6, ha7, ha8⟩ := ha
  obtain ⟨hb0, hb1, hb2, hb3, hb4, hb5, hb6, hb7, hb8⟩ := hb
  have e : mulLarge #v[a0, a1, a2, a3, a4, a5, a6, a7, a8] #v[b0, b1, b2, b3, b4, b5, b6, b7, b8] =
      #v[u64 a0 * u64 b0,
         u64 a0 * (u64 b1 <<< 0) + u64 a1 * (u64 b0 <<< 0),
         u64 a0 * (u64 b2 <<< 0) + u64 a1 * (u64 b1 <<< 1) + u64 a2 * (u64 b0 <<< 0),
         u64 a0 * (u64 b3 <<< 0) + u64 a1 * (u64 b2 <<< 0) + u64 a2 * (u64 b1 <<< 0) + u64 a3 * (u64 b0 <<< 0),
         u64 a0 * (u64 b4 <<< 0) + u64 a1 * (u64 b3 <<< 1) + u64 a2 * (u64 b2 <<< 0) + u64 a3 * (u64 b1 <<< 1) + u64 a4 * (u64 b0 <<< 0),
         u64 a0 * (u64 b5 <<< 0) + u64 a1 * (u64 b4 <<< 0) + u64 a2 * (u64 b3 <<< 0) + u64 a3 * (u64 b2 <<< 0) + u64 a4 * (u64 b1 <<< 0) + u64 a5 * (u64 b0 <<< 0),
         u64 a0 * (u64 b6 <<< 0) + u64 a1 * (u64 b5 <<< 1) + u64 a2 * (u64 b4 <<< 0) + u64 a3 * (u64 b3 <<< 1) + u64 a4 * (u64 b2 <<< 0) + u64 a5 * (u64 b1 <<< 1) + u64 a6 * (u64 b0 <<< 0),
         u64 a0 * (u64 b7 <<< 0) + u64 a1 * (u64 b6 <<< 0) + u64 a2 * (u64 b5 <<< 0) + u64 a3 * (u64 b4 <<< 0) + u64 a4 * (u64 b3 <<< 0) + u64 a5 * (u64 b2 <<< 0) + u64 a6 * (u64 b1 <<< 0) + u64 a7 * (u64 b0 <<< 0),
         u64 a0 * (u64 b8 <<< 0) + u64 a1 * (u64 b7 <<< 1) + u64 a2 * (u64 b6 <<< 0) + u64 a3 * (u64 b5 <<< 1) + u64 a4 * (u64 b4 <<< 0) + u64 a5 * (u64 b3 <<< 1) + u64 a6 * (u64 b2 <<< 0) + u64 a7 * (u64 b1 <<< 1) + u64 a8 * (u64 b0 <<< 0),
         u64 a1 * (u64 b8 <<< 0) + u64 a2 * (u64 b7 <<< 0) + u64 a3 * (u64 b6 <<< 0) + u64 a4 * (u64 b5 <<< 0) + u64 a5 * (u64 b4 <<< 0) + u64 a6 * (u64 b3 <<< 0) + u64 a7 * (u64 b2 <<< 0) + u64 a8 * (u64 b1 <<< 0),
         u64 a2 * (u64 b8 <<< 0) + u64 a3 * (u64 b7 <<< 1) + u64 a4 * (u64 b6 <<< 0) + u64 a5 * (u64 b5 <<< 1) + u64 a6 * (u64 b4 <<< 0) + u64 a7 * (u64 b3 <<< 1) + u64 a8 * (u64 b2 <<< 0),
         u64 a3 * (u64 b8 <<< 0) + u64 a4 * (u64 b7 <<< 0) + u64 a5 * (u64 b6 <<< 0) + u64 a6 * (u64 b5 <<< 0) + u64 a7 * (u64 b4 <<< 0) + u64 a8 * (u64 b3 <<< 0),
         u64 a4 * (u64 b8 <<< 0) + u64 a5 * (u64 b7 <<< 1) + u64 a6 * (u64 b6 <<< 0) + u64 a7 * (u64 b5 <<< 1) + u64 a8 * (u64 b4 <<< 0),
         u64 a5 * (u64 b8 <<< 0) + u64 a6 * (u64 b7 <<< 0) + u64 a7 * (u64 b6 <<< 0) + u64 a8 * (u64 b5 <<< 0),
         u64 a6 * (u64 b8 <<< 0) + u64 a7 * (u64 b7 <<< 1) + u64 a8 * (u64 b6 <<< 0),
         u64 a7 * (u64 b8 <<< 0) + u64 a8 * (u64 b7 <<< 0),
         u64 a8 * (u64 b8 <<< 0)] := rfl
  have w0 : (u64 a0 * u64 b0).toNat = (a0.toNat * b0.toNat) := by
    simp only [add64, mul64, u64_toNat, u64_shl0, u64_shl1, u64_shl2, mul_two_comm, mul_four_comm]
    have := prod_bound ha0 hb0
    omega
  have w1 : (u64 a0 * (u64 b1 <<< 0) + u64 a1 * (u64 b0 <<< 0)).toNat = (a0.toNat * b1.toNat) + (a1.toNat * b0.toNat) := by
    simp only [add64, mul64, u64_toNat, u64_shl0, u64_shl1, u64_shl2, mul_two_comm, mul_four_comm]
    have := prod_bound ha0 hb1
    have := prod_bound ha1 hb0
    omega
  have w2 : (u64 a0 * (u64 b2 <<< 0) + u64 a1 * (u64 b1 <<< 1) + u64 a2 * (u64 b0 <<< 0)).toNat = (a0.toNat * b2.toNat) + 2 * (a1.toNat * b1.toNat) + (a2.toNat * b0.toNat) := by
    simp only [add64, mul64, u64_toNat, u64_shl0, u64_shl1, u64_shl2, mul_two_comm, mul_four_comm]
    have := prod_bound ha0 hb2
    have := prod_bound ha1 hb1
    have := prod_bound ha2 hb0
    omega
  have w3 : (u64 a0 * (u64 b3 <<< 0) + u64 a1 * (u64 b2 <<< 0) + u64 a2 * (u64 b1 <<< 0) + u64 a3 * (u64 b0 <<< 0)).toNat = (a0.toNat * b3.toNat) + (a1.toNat * b2.toNat) + (a2.toNat * b1.toNat) + (a3.toNat * b0.toNat) := by
    simp only [add64, mul64, u64_toNat, u64_shl0, u64_shl1, u64_shl2, mul_two_comm, mul_four_comm]
    have := prod_bound ha0 hb3
    have := prod_bound ha1 hb2
    have := prod_bound ha2 hb1
    have := prod_bound ha3 hb0
    omega
  have w4 : (u64 a0 * (u64 b4 <<< 0) + u64 a1 * (u64 b3 <<< 1) + u64 a2 * (u64 b2 <<< 0) + u64 a3 * (u64 b1 <<< 1) + u64 a4 * (u64 b0 <<< 0)).toNat = (a0.toNat * b4.toNat) + 2 * (a1.toNat * b3.toNat) + (a2.toNat * b2.toNat) + 2 * (a3.toNat * b1.toNat) + (a4.toNat * b0.toNat) := by
    simp only [add64, mul64, u64_toNat, u64_shl0, u64_shl1, u64_shl2, mul_two_comm, mul_four_comm]
    have := prod_bound ha0 hb4
    have := prod_bound ha1 hb3
    have := prod_bound ha2 hb2
    have := prod_bound ha3 hb1
    have := prod_bound ha4 hb0
    omega
  have w5 : (u64 a0 * (u64 b5 <<< 0) + u64 a1 * (u64 b4 <<< 0) + u64 a2 * (u64 b3 <<< 0) + u64 a3 * (u64 b2 <<< 0) + u64 a4 * (u64 b1 <<< 0) + u64 a5 * (u64 b0 <<< 0)).toNat = (a0.toNat * b5.toNat) + (a1.toNat * b4.toNat) + (a2.toNat * b3.toNat) + (a3.toNat * b2.toNat) + (a4.toNat * b1.toNat) + (a5.toNat * b0.toNat) := by
    simp only [add64, mul64, u64_toNat, u64_shl0, u64_shl1, u64_shl2, mul_two_comm, mul_four_comm]
    have := prod_bound ha0 hb5
    have := prod_bound ha1 hb4
    have := prod_bound ha2 hb3
    have := prod_bound ha3 hb2
    have := prod_bound ha4 hb1
    have := prod_bound ha5 hb0
    omega
  have w6 : (u64 a0 * (u64 b6 <<< 0) + u64 a1 * (u64 b5 <<< 1) + u64 a2 * (u64 b4 <<< 0) + u64 a3 * (u64 b3 <<< 1) + u64 a4 * (u64 b2 <<< 0) + u64 a5 * (u64 b1 <<< 1) + u64 a6 * (u64 b0 <<< 0)).toNat = (a0.toNat * b6.toNat) + 2 * (a1.toNat * b5.toNat) + (a2.toNat * b4.toNat) + 2 * (a3.toNat * b3.toNat) + (a4.toNat * b2.toNat) + 2 * (a5.toNat * b1.toNat) + (a6.toNat * b0.toNat) := by
    simp only [add64, mul64, u64_toNat, u64_shl0, u64_shl1, u64_shl2, mul_two_comm, mul_four_comm]
    have := prod_bound ha0 hb6
    have := prod_bound ha1 hb5
    have := prod_bound ha2 hb4
    have := prod_bound ha3 hb3
    have := prod_bound ha4 hb2
    have := prod_bound ha5 hb1
    have := prod_bound ha6 hb0
    omega
  have w7 : (u64 a0 * (u64 b7 <<< 0) + u64 a1 * (u64 b6 <<< 0) + u64 a2 * (u64 b5 <<< 0) + u64 a3 * (u64 b4 <<< 0) + u64 a4 * (u64 b3 <<< 0) + u64 a5 * (u64 b2 <<< 0) + u64 a6 * (u64 b1 <<< 0) + u64 a7 * (u64 b0 <<< 0)).toNat = (a0.toNat * b7.toNat) + (a1.toNat * b6.toNat) + (a2.toNat * b5.toNat) + (a3.toNat * b4.toNat) + (a4.toNat * b3.toNat) + (a5.toNat * b2.toNat) + (a6.toNat * b1.toNat) + (a7.toNat * b0.toNat) := by
    simp only [add64, mul64, u64_toNat, u64_shl0, u64_shl1, u64_shl2, mul_two_comm, mul_four_comm]
    have := prod_bound ha0 hb7
    have := prod_bound ha1 hb6
    have := prod_bound ha2 hb5
    have := prod_bound ha3 hb4
    have := prod_bound ha4 hb3
    have := prod_bound ha5 hb2
    have := prod_bound ha6 hb1
    have := prod_bound ha7 hb0
    omega
  have w8 : (u64 a0 * (u64 b8 <<< 0) + u64 a1 * (u64 b7 <<< 1) + u64 a2 * (u64 b6 <<< 0) + u64 a3 * (u64 b5 <<< 1) + u64 a4 * (u64 b4 <<< 0) + u64 a5 * (u64 b3 <<< 1) + u64 a6 * (u64 b2 <<< 0) + u64 a7 * (u64 b1 <<< 1) + u64 a8 * (u64 b0 <<< 0)).toNat = (a0.toNat * b8.toNat) + 2 * (a1.toNat * b7.toNat) + (a2.toNat * b6.toNat) + 2 * (a3.toNat * b5.toNat) + (a4.toNat * b4.toNat) + 2 * (a5.toNat * b3.toNat) + (a6.toNat * b2.toNat) + 2 * (a7.toNat * b1.toNat) + (a8.toNat * b0.toNat) := by
    simp only [add64, mul64, u64_toNat, u64_shl0, u64_shl1, u64_shl2, mul_two_comm, mul_four_comm]
    have := prod_bound ha0 hb8
    have := prod_bound ha1 hb7
    have := prod_bound ha2 hb6
    have := prod_bound ha3 hb5
    have := prod_bound ha4 hb4
    have := prod_bound ha5 hb3
    have := prod_bound ha6 hb2
    have := prod_bound ha7 hb1
    have := prod_bound ha8 hb0
    omega
  have w9 : (u64 a1 * (u64 b8 <<< 0) + u64 a2 * (u64 b7 <<< 0) + u64 a3 * (u64 b6 <<< 0) + u64 a4 * (u64 b5 <<< 0) + u64 a5 * (u64 b4 <<< 0) + u64 a6 * (u64 b3 <<< 0) + u64 a7 * (u64 b2 <<< 0) + u64 a8 * (u64 b1 <<< 0)).toNat = (a1.toNat * b8.toNat) + (a2.toNat * b7.toNat) + (a3.toNat * b6.toNat) + (a4.toNat * b5.toNat) + (a5.toNat * b4.toNat) + (a6.toNat * b3.toNat) + (a7.toNat * b2.toNat) + (a8.toNat * b1.toNat) := by
    simp only [add64, mul64, u64_toNat, u64_shl0, u64_shl1, u64_shl2, mul_two_comm, mul_four_comm]
    have := prod_bound ha1 hb8
    have := prod_bound ha2 hb7
    have := prod_bound ha3 hb6
    have := prod_bound ha4 hb5
    have := prod_bound ha5 hb4
    have := prod_bound ha6 hb3
    have := prod_bound ha7 hb2
    have := prod_bound ha8 hb1
    omega
  have w10 : (u64 a2 * (u64 b8 <<< 0) + u64 a3 * (u64 b7 <<< 1) + u64 a4 * (u64 b6 <<< 0) + u64 a5 * (u64 b5 <<< 1) + u64 a6 * (u64 b4 <<< 0) + u64 a7 * (u64 b3 <<< 1) + u64 a8 * (u64 b2 <<< 0)).toNat = (a2.toNat * b8.toNat) + 2 * (a3.toNat * b7.toNat) + (a4.toNat * b6.toNat) + 2 * (a5.toNat * b5.toNat) + (a6.toNat * b4.toNat) + 2 * (a7.toNat * b3.toNat) + (a8.toNat * b2.toNat) := by
    simp only [add64, mul64, u64_toNat, u64_shl0, u64_shl1, u64_shl2, mul_two_comm, mul_four_comm]
    have := prod_bound ha2 hb8
    have := prod_bound ha3 hb7
    have := prod_bound ha4 hb6
    have := prod_bound ha5 hb5
    have := prod_bound ha6 hb4
    have := prod_bound ha7 hb3
    have := prod_bound ha8 hb2
    omega
  have w11 : (u64 a3 * (u64 b8 <<< 0) + u64 a4 * (u64 b7 <<< 0) + u64 a5 * (u64 b6 <<< 0) + u64 a6 * (u64 b5 <<< 0) + u64 a7 * (u64 b4 <<< 0) + u64 a8 * (u64 b3 <<< 0)).toNat = (a3.toNat * b8.toNat) + (a4.toNat * b7.toNat) + (a5.toNat * b6.toNat) + (a6.toNat * b5.toNat) + (a7.toNat * b4.toNat) + (a8.toNat * b3.toNat) := by
    simp only [add64, mul64, u64_toNat, u64_shl0, u64_shl1, u64_shl2, mul_two_comm, mul_four_comm]
    have := prod_bound ha3 hb8
    have := prod_bound ha4 hb7
    have := prod_bound ha5 hb6
    have := prod_bound ha6 hb5
    have := prod_bound ha7 hb4
    have := prod_bound ha8 hb3
    omega
  have w12 : (u64 a4 * (u64 b8 <<< 0) + u64 a5 * (u64 b7 <<< 1) + u64 a6 * (u64 b6 <<< 0) + u64 a7 * (u64 b5 <<< 1) + u64 a8 * (u64 b4 <<< 0)).toNat = (a4.toNat * b8.toNat) + 2 * (a5.toNat * b7.toNat) + (a6.toNat * b6.toNat) + 2 * (a7.toNat * b5.toNat) + (a8.toNat * b4.toNat) := by
    simp only [add64, mul64, u64_toNat, u64_shl0, u64_shl1, u64_shl2, mul_two_comm, mul_four_comm]
    have := prod_bound ha4 hb8
    have := prod_bound ha5 hb7
    have := prod_bound ha6 hb6
    have := prod_bound ha7 hb5
    have := prod_bound ha8 hb4
    omega
  have w13 : (u64 a5 * (u64 b8 <<< 0) + u64 a6 * (u64 b7 <<< 0) + u64 a7 * (u64 b6 <<< 0) + u64 a8 * (u64 b5 <<< 0)).toNat = (a5.toNat * b8.toNat) + (a6.toNat * b7.toNat) + (a7.toNat * b6.toNat) + (a8.toNat * b5.toNat) := by
    simp only [add64, mul64, u64_toNat, u64_shl0, u64_shl1, u64_shl2, mul_two_comm, mul_four_comm]
    have := prod_bound ha5 hb8
    have := prod_bound ha6 hb7
    have := prod_bound ha7 hb6
    have := prod_bound ha8 hb5
    omega
  have w14 : (u64 a6 * (u64 b8 <<< 0) + u64 a7 * (u64 b7 <<< 1) + u64 a8 * (u64 b6 <<< 0)).toNat = (a6.toNat * b8.toNat) + 2 * (a7.toNat * b7.toNat) + (a8.toNat * b6.toNat) := by
    simp only [add64, mul64, u64_toNat, u64_shl0, u64_shl1, u64_shl2, mul_two_comm, mul_four_comm]
    have := prod_bound ha6 hb8
    have := prod_bound ha7 hb7
    have := prod_bound ha8 hb6
    omega
  have w15 : (u64 a7 * (u64 b8 <<< 0) + u64 a8 * (u64 b7 <<< 0)).toNat = (a7.toNat * b8.toNat) + (a8.toNat * b7.toNat) := by
    simp only [add64, mul64, u64_toNat, u64_shl0, u64_shl1, u64_shl2, mul_two_comm, mul_four_comm]
    have := prod_bound ha7 hb8
    have := prod_bound ha8 hb7
    omega
  have w16 : (u64 a8 * (u64 b8 <<< 0)).toNat = (a8.toNat * b8.toNat) := by
    simp only [add64, mul64, u64_toNat, u64_shl0, u64_shl1, u64_shl2, mul_two_comm, mul_four_comm]
    have := prod_bound ha8 hb8
    omega
  rw [e]
  refine ⟨?_, ?_, ?_⟩
  · show [(u64 a0 * u64 b0).toNat, (u64 a0 * (u64 b1 <<< 0) + u64 a1 * (u64 b0 <<< 0)).toNat, (u64 a0 * (u64 b2 <<< 0) + u64 a1 * (u64 b1 <<< 1) + u64 a2 * (u64 b0 <<< 0)).toNat, (u64 a0 * (u64 b3 <<< 0) + u64 a1 * (u64 b2 <<< 0) + u64 a2 * (u64 b1 <<< 0) + u64 a3 * (u64 b0 <<< 0)).toNat, (u64 a0 * (u64 b4 <<< 0) + u64 a1 * (u64 b3 <<< 1) + u64 a2 * (u64 b2 <<< 0) + u64 a3 * (u64 b1 <<< 1) + u64 a4 * (u64 b0 <<< 0)).toNat, (u64 a0 * (u64 b5 <<< 0) + u64 a1 * (u64 b4 <<< 0) + u64 a2 * (u64 b3 <<< 0) + u64 a3 * (u64 b2 <<< 0) + u64 a4 * (u64 b1 <<< 0) + u64 a5 * (u64 b0 <<< 0)).toNat, (u64 a0 * (u64 b6 <<< 0) + u64 a1 * (u64 b5 <<< 1) + u64 a2 * (u64 b4 <<< 0) + u64 a3 * (u64 b3 <<< 1) + u64 a4 * (u64 b2 <<< 0) + u64 a5 * (u64 b1 <<< 1) + u64 a6 * (u64 b0 <<< 0)).toNat, (u64 a0 * (u64 b7 <<< 0) + u64 a1 * (u64 b6 <<< 0) + u64 a2 * (u64 b5 <<< 0) + u64 a3 * (u64 b4 <<< 0) + u64 a4 * (u64 b3 <<< 0) + u64 a5 * (u64 b2 <<< 0) + u64 a6 * (u64 b1 <<< 0) + u64 a7 * (u64 b0 <<< 0)).toNat, (u64 a0 * (u64 b8 <<< 0) + u64 a1 * (u64 b7 <<< 1) + u64 a2 * (u64 b6 <<< 0) + u64 a3 * (u64 b5 <<< 1) + u64 a4 * (u64 b4 <<< 0) + u64 a5 * (u64 b3 <<< 1) + u64 a6 * (u64 b2 <<< 0) + u64 a7 * (u64 b1 <<< 1) + u64 a8 * (u64 b0 <<< 0)).toNat, (u64 a1 * (u64 b8 <<< 0) + u64 a2 * (u64 b7 <<< 0) + u64 a3 * (u64 b6 <<< 0) + u64 a4 * (u64 b5 <<< 0) + u64 a5 * (u64 b4 <<< 0) + u64 a6 * (u64 b3 <<< 0) + u64 a7 * (u64 b2 <<< 0) + u64 a8 * (u64 b1 <<< 0)).toNat, (u64 a2 * (u64 b8 <<< 0) + u64 a3 * (u64 b7 <<< 1) + u64 a4 * (u64 b6 <<< 0) + u64 a5 * (u64 b5 <<< 1) + u64 a6 * (u64 b4 <<< 0) + u64 a7 * (u64 b3 <<< 1) + u64 a8 * (u64 b2 <<< 0)).toNat, (u64 a3 * (u64 b8 <<< 0) + u64 a4 * (u64 b7 <<< 0) + u64 a5 * (u64 b6 <<< 0) + u64 a6 * (u64 b5 <<< 0) + u64 a7 * (u64 b4 <<< 0) + u64 a8 * (u64 b3 <<< 0)).toNat, (u64 a4 * (u64 b8 <<< 0) + u64 a5 * (u64 b7 <<< 1) + u64 a6 * (u64 b6 <<< 0) + u64 a7 * (u64 b5 <<< 1) + u64 a8 * (u64 b4 <<< 0)).toNat, (u64 a5 * (u64 b8 <<< 0) + u64 a6 * (u64 b7 <<< 0) + u64 a7 * (u64 b6 <<< 0) + u64 a8 * (u64 b5 <<< 0)).toNat, (u64 a6 * (u64 b8 <<< 0) + u64 a7 * (u64 b7 <<< 1) + u64 a8 * (u64 b6 <<< 0)).toNat, (u64 a7 * (u64 b8 <<< 0) + u64 a8 * (u64 b7 <<< 0)).toNat, (u64 a8 * (u64 b8 <<< 0)).toNat] = _
    rw [w0, w1, w2, w3, w4, w5, w6, w7, w8, w9, w10, w11, w12, w13, w14, w15, w16]
    rfl
  · show (u64 a0 * u64 b0).toNat + (u64 a0 * (u64 b1 <<< 0) + u64 a1 * (u64 b0 <<< 0)).toNat * 2 ^ 29 + (u64 a0 * (u64 b2 <<< 0) + u64 a1 * (u64 b1 <<< 1) + u64 a2 * (u64 b0 <<< 0)).toNat * 2 ^ 57 + (u64 a0 * (u64 b3 <<< 0) + u64 a1 * (u64 b2 <<< 0) + u64 a2 * (u64 b1 <<< 0) + u64 a3 * (u64 b0 <<< 0)).toNat * 2 ^ 86 + (u64 a0 * (u64 b4 <<< 0) + u64 a1 * (u64 b3 <<< 1) + u64 a2 * (u64 b2 <<< 0) + u64 a3 * (u64 b1 <<< 1) + u64 a4 * (u64 b0 <<< 0)).toNat * 2 ^ 114 + (u64 a0 * (u64 b5 <<< 0) + u64 a1 * (u64 b4 <<< 0) + u64 a2 * (u64 b3 <<< 0) + u64 a3 * (u64 b2 <<< 0) + u64 a4 * (u64 b1 <<< 0) + u64 a5 * (u64 b0 <<< 0)).toNat * 2 ^ 143 + (u64 a0 * (u64 b6 <<< 0) + u64 a1 * (u64 b5 <<< 1) + u64 a2 * (u64 b4 <<< 0) + u64 a3 * (u64 b3 <<< 1) + u64 a4 * (u64 b2 <<< 0) + u64 a5 * (u64 b1 <<< 1) + u64 a6 * (u64 b0 <<< 0)).toNat * 2 ^ 171 + (u64 a0 * (u64 b7 <<< 0) + u64 a1 * (u64 b6 <<< 0) + u64 a2 * (u64 b5 <<< 0) + u64 a3 * (u64 b4 <<< 0) + u64 a4 * (u64 b3 <<< 0) + u64 a5 * (u64 b2 <<< 0) + u64 a6 * (u64 b1 <<< 0) + u64 a7 * (u64 b0 <<< 0)).toNat * 2 ^ 200 + (u64 a0 * (u64 b8 <<< 0) + u64 a1 * (u64 b7 <<< 1) + u64 a2 * (u64 b6 <<< 0) + u64 a3 * (u64 b5 <<< 1) + u64 a4 * (u64 b4 <<< 0) + u64 a5 * (u64 b3 <<< 1) + u64 a6 * (u64 b2 <<< 0) + u64 a7 * (u64 b1 <<< 1) + u64 a8 * (u64 b0 <<< 0)).toNat * 2 ^ 228 + (u64 a1 * (u64 b8 <<< 0) + u64 a2 * (u64 b7 <<< 0) + u64 a3 * (u64 b6 <<< 0) + u64 a4 * (u64 b5 <<< 0) + u64 a5 * (u64 b4 <<< 0) + u64 a6 * (u64 b3 <<< 0) + u64 a7 * (u64 b2 <<< 0) + u64 a8 * (u64 b1 <<< 0)).toNat * 2 ^ 257 + (u64 a2 * (u64 b8 <<< 0) + u64 a3 * (u64 b7 <<< 1) + u64 a4 * (u64 b6 <<< 0) + u64 a5 * (u64 b5 <<< 1) + u64 a6 * (u64 b4 <<< 0) + u64 a7 * (u64 b3 <<< 1) + u64 a8 * (u64 b2 <<< 0)).toNat * 2 ^ 285 + (u64 a3 * (u64 b8 <<< 0) + u64 a4 * (u64 b7 <<< 0) + u64 a5 * (u64 b6 <<< 0) + u64 a6 * (u64 b5 <<< 0) + u64 a7 * (u64 b4 <<< 0) + u64 a8 * (u64 b3 <<< 0)).toNat * 2 ^ 314 + (u64 a4 * (u64 b8 <<< 0) + u64 a5 * (u64 b7 <<< 1) + u64 a6 * (u64 b6 <<< 0) + u64 a7 * (u64 b5 <<< 1) + u64 a8 * (u64 b4 <<< 0)).toNat * 2 ^ 342 + (u64 a5 * (u64 b8 <<< 0) + u64 a6 * (u64 b7 <<< 0) + u64 a7 * (u64 b6 <<< 0) + u64 a8 * (u64 b5 <<< 0)).toNat * 2 ^ 371 + (u64 a6 * (u64 b8 <<< 0) + u64 a7 * (u64 b7 <<< 1) + u64 a8 * (u64 b6 <<< 0)).toNat * 2 ^ 399 + (u64 a7 * (u64 b8 <<< 0) + u64 a8 * (u64 b7 <<< 0)).toNat * 2 ^ 428 + (u64 a8 * (u64 b8 <<< 0)).toNat * 2 ^ 456 = _
    rw [w0, w1, w2, w3, w4, w5, w6, w7, w8, w9, w10, w11, w12, w13, w14, w15, w16, value_lit, value_lit]
    ring
  · show (u64 a8 * (u64 b8 <<< 0)).toNat < 2 ^ 60
    rw [w16]
    have := prod_bound ha8 hb8
    omega

set_option maxHeartbeats 4000000 in
theorem squareLarge_lit (a0 a1 a2 a3 a4 a5 a6 a7 a8 : U32)
    (ha : InBounds #v[a0, a1, a2, a3, a4, a5, a6, a7, a8]) :
    (squareLarge #v[a0, a1, a2, a3, a4, a5, a6, a7, a8]).toList.map (·.toNat) = squareNat #v[a0, a1, a2, a3, a4, a5, a6, a7, a8] ∧
    valueLarge (squareLarge #v[a0, a1, a2, a3, a4, a5, a6, a7, a8]) = value #v[a0, a1, a2, a3, a4, a5, a6, a7, a8] * value #v[a0, a1, a2, a3, a4, a5, a6, a7, a8] ∧ LargeOK (squareLarge #v[a0, a1, a2, a3, a4, a5, a6, a7, a8]) := by
  rw [inBounds_lit] at ha
  obtain ⟨ha0, ha1, ha2, ha3, ha4, ha5, ha6, ha7, ha8⟩ := ha
  have e : squareLarge #v[a0, a1, a2, a3, a4, a5, a6, a7, a8] =
      #v[u64 a0 * u64 a0,
         u64 a0 * (u64 a1 <<< 1),
         u64 a0 * (u64 a2 <<< 1) + u64 a1 * (u64 a1 <<< 1),
         u64 a0 * (u64 a3 <<< 1) + u64 a1 * (u64 a2 <<< 1),
         u64 a0 * (u64 a4 <<< 1) + u64 a1 * (u64 a3 <<< 2) + u64 a2 * u64 a2,
         u64 a0 * (u64 a5 <<< 1) + u64 a1 * (u64 a4 <<< 1) + u64 a2 * (u64 a3 <<< 1),
         u64 a0 * (u64 a6 <<< 1) + u64 a1 * (u64 a5 <<< 2) + u64 a2 * (u64 a4 <<< 1) + u64 a3 * (u64 a3 <<< 1),
         u64 a0 * (u64 a7 <<< 1) + u64 a1 * (u64 a6 <<< 1) + u64 a2 * (u64 a5 <<< 1) + u64 a3 * (u64 a4 <<< 1),
         u64 a0 * (u64 a8 <<< 1) + u64 a1 * (u64 a7 <<< 2) + u64 a2 * (u64 a6 <<< 1) + u64 a3 * (u64 a5 <<< 2) + u64 a4 * u64 a4,
         u64 a1 * (u64 a8 <<< 1) + u64 a2 * (u64 a7 <<< 1) + u64 a3 * (u64 a6 <<< 1) + u64 a4 * (u64 a5 <<< 1),
         u64 a2 * (u64 a8 <<< 1) + u64 a3 * (u64 a7 <<< 2) + u64 a4 * (u64 a6 <<< 1) + u64 a5 * (u64 a5 <<< 1),
         u64 a3 * (u64 a8 <<< 1) + u64 a4 * (u64 a7 <<< 1) + u64 a5 * (u64 a6 <<< 1),
         u64 a4 * (u64 a8 <<< 1) + u64 a5 * (u64 a7 <<< 2) + u64 a6 * u64 a6,
         u64 a5 * (u64 a8 <<< 1) + u64 a6 * (u64 a7 <<< 1),
         u64 a6 * (u64 a8 <<< 1) + u64 a7 * (u64 a7 <<< 1),
         u64 a7 * (u64 a8 <<< 1),
         u64 a8 * u64 a8] := rfl
  have w0 : (u64 a0 * u64 a0).toNat = (a0.toNat * a0.toNat) := by
    simp only [add64, mul64, u64_toNat, u64_shl0, u64_shl1, u64_shl2, mul_two_comm, mul_four_comm]
    have := prod_bound ha0 ha0
    omega
  have w1 : (u64 a0 * (u64 a1 <<< 1)).toNat = 2 * (a0.toNat * a1.toNat) := by
    simp only [add64, mul64, u64_toNat, u64_shl0, u64_shl1, u64_shl2, mul_two_comm, mul_four_comm]
    have := prod_bound ha0 ha1
    omega
  have w2 : (u64 a0 * (u64 a2 <<< 1) + u64 a1 * (u64 a1 <<< 1)).toNat = 2 * (a0.toNat * a2.toNat) + 2 * (a1.toNat * a1.toNat) := by
    simp only [add64, mul64, u64_toNat, u64_shl0, u64_shl1, u64_shl2, mul_two_comm, mul_four_comm]
    have := prod_bound ha0 ha2
    have := prod_bound ha1 ha1
    omega
  have w3 : (u64 a0 * (u64 a3 <<< 1) + u64 a1 * (u64 a2 <<< 1)).toNat = 2 * (a0.toNat * a3.toNat) + 2 * (a1.toNat * a2.toNat) := by
    simp only [add64, mul64, u64_toNat, u64_shl0, u64_shl1, u64_shl2, mul_two_comm, mul_four_comm]
    have := prod_bound ha0 ha3
    have := prod_bound ha1 ha2
    omega
  have w4 : (u64 a0 * (u64 a4 <<< 1) + u64 a1 * (u64 a3 <<< 2) + u64 a2 * u64 a2).toNat = 2 * (a0.toNat * a4.toNat) + 4 * (a1.toNat * a3.toNat) + (a2.toNat * a2.toNat) := by
    simp only [add64, mul64, u64_toNat, u64_shl0, u64_shl1, u64_shl2, mul_two_comm, mul_four_comm]
    have := prod_bound ha0 ha4
    have := prod_bound ha1 ha3
    have := prod_bound ha2 ha2
    omega
  have w5 : (u64 a0 * (u64 a5 <<< 1) + u64 a1 * (u64 a4 <<< 1) + u64 a2 * (u64 a3 <<< 1)).toNat = 2 * (a0.toNat * a5.toNat) + 2 * (a1.toNat * a4.toNat) + 2 * (a2.toNat * a3.toNat) := by
    simp only [add64, mul64, u64_toNat, u64_shl0, u64_shl1, u64_shl2, mul_two_comm, mul_four_comm]
    have := prod_bound ha0 ha5
    have := prod_bound ha1 ha4
    have := prod_bound ha2 ha3
    omega
  have w6 : (u64 a0 * (u64 a6 <<< 1) + u64 a1 * (u64 a5 <<< 2) + u64 a2 * (u64 a4 <<< 1) + u64 a3 * (u64 a3 <<< 1)).toNat = 2 * (a0.toNat * a6.toNat) + 4 * (a1.toNat * a5.toNat) + 2 * (a2.toNat * a4.toNat) + 2 * (a3.toNat * a3.toNat) := by
    simp only [add64, mul64, u64_toNat, u64_shl0, u64_shl1, u64_shl2, mul_two_comm, mul_four_comm]
    have := prod_bound ha0 ha6
    have := prod_bound ha1 ha5
    have := prod_bound ha2 ha4
    have := prod_bound ha3 ha3
    omega
  have w7 : (u64 a0 * (u64 a7 <<< 1) + u64 a1 * (u64 a6 <<< 1) + u64 a2 * (u64 a5 <<< 1) + u64 a3 * (u64 a4 <<< 1)).toNat = 2 * (a0.toNat * a7.toNat) + 2 * (a1.toNat * a6.toNat) + 2 * (a2.toNat * a5.toNat) + 2 * (a3.toNat * a4.toNat) := by
    simp only [add64, mul64, u64_toNat, u64_shl0, u64_shl1, u64_shl2, mul_two_comm, mul_four_comm]
    have := prod_bound ha0 ha7
    have := prod_bound ha1 ha6
    have := prod_bound ha2 ha5
    have := prod_bound ha3 ha4
    omega
  have w8 : (u64 a0 * (u64 a8 <<< 1) + u64 a1 * (u64 a7 <<< 2) + u64 a2 * (u64 a6 <<< 1) + u64 a3 * (u64 a5 <<< 2) + u64 a4 * u64 a4).toNat = 2 * (a0.toNat * a8.toNat) + 4 * (a1.toNat * a7.toNat) + 2 * (a2.toNat * a6.toNat) + 4 * (a3.toNat * a5.toNat) + (a4.toNat * a4.toNat) := by
    simp only [add64, mul64, u64_toNat, u64_shl0, u64_shl1, u64_shl2, mul_two_comm, mul_four_comm]
    have := prod_bound ha0 ha8
    have := prod_bound ha1 ha7
    have := prod_bound ha2 ha6
    have := prod_bound ha3 ha5
    have := prod_bound ha4 ha4
    omega
  have w9 : (u64 a1 * (u64 a8 <<< 1) + u64 a2 * (u64 a7 <<< 1) + u64 a3 * (u64 a6 <<< 1) + u64 a4 * (u64 a5 <<< 1)).toNat = 2 * (a1.toNat * a8.toNat) + 2 * (a2.toNat * a7.toNat) + 2 * (a3.toNat * a6.toNat) + 2 * (a4.toNat * a5.toNat) := by
    simp only [add64, mul64, u64_toNat, u64_shl0, u64_shl1, u64_shl2, mul_two_comm, mul_four_comm]
    have := prod_bound ha1 ha8
    have := prod_bound ha2 ha7
    have := prod_bound ha3 ha6
    have := prod_bound ha4 ha5
    omega
  have w10 : (u64 a2 * (u64 a8 <<< 1) + u64 a3 * (u64 a7 <<< 2) + u64 a4 * (u64 a6 <<< 1) + u64 a5 * (u64 a5 <<< 1)).toNat = 2 * (a2.toNat * a8.toNat) + 4 * (a3.toNat * a7.toNat) + 2 * (a4.toNat * a6.toNat) + 2 * (a5.toNat * a5.toNat) := by
    simp only [add64, mul64, u64_toNat, u64_shl0, u64_shl1, u64_shl2, mul_two_comm, mul_four_comm]
    have := prod_bound ha2 ha8
    have := prod_bound ha3 ha7
    have := prod_bound ha4 ha6
    have := prod_bound ha5 ha5
    omega
  have w11 : (u64 a3 * (u64 a8 <<< 1) + u64 a4 * (u64 a7 <<< 1) + u64 a5 * (u64 a6 <<< 1)).toNat = 2 * (a3.toNat * a8.toNat) + 2 * (a4.toNat * a7.toNat) + 2 * (a5.toNat * a6.toNat) := by
    simp only [add64, mul64, u64_toNat, u64_shl0, u64_shl1, u64_shl2, mul_two_comm, mul_four_comm]
    have := prod_bound ha3 ha8
    have := prod_bound ha4 ha7
    have := prod_bound ha5 ha6
    omega
  have w12 : (u64 a4 * (u64 a8 <<< 1) + u64 a5 * (u64 a7 <<< 2) + u64 a6 * u64 a6).toNat = 2 * (a4.toNat * a8.toNat) + 4 * (a5.toNat * a7.toNat) + (a6.toNat * a6.toNat) := by
    simp only [add64, mul64, u64_toNat, u64_shl0, u64_shl1, u64_shl2, mul_two_comm, mul_four_comm]
    have := prod_bound ha4 ha8
    have := prod_bound ha5 ha7
    have := prod_bound ha6 ha6
    omega
  have w13 : (u64 a5 * (u64 a8 <<< 1) + u64 a6 * (u64 a7 <<< 1)).toNat = 2 * (a5.toNat * a8.toNat) + 2 * (a6.toNat * a7.toNat) := by
    simp only [add64, mul64, u64_toNat, u64_shl0, u64_shl1, u64_shl2, mul_two_comm, mul_four_comm]
    have := prod_bound ha5 ha8
    have := prod_bound ha6 ha7
    omega
  have w14 : (u64 a6 * (u64 a8 <<< 1) + u64 a7 * (u64 a7 <<< 1)).toNat = 2 * (a6.toNat * a8.toNat) + 2 * (a7.toNat * a7.toNat) := by
    simp only [add64, mul64, u64_toNat, u64_shl0, u64_shl1, u64_shl2, mul_two_comm, mul_four_comm]
    have := prod_bound ha6 ha8
    have := prod_bound ha7 ha7
    omega
  have w15 : (u64 a7 * (u64 a8 <<< 1)).toNat = 2 * (a7.toNat * a8.toNat) := by
    simp only [add64, mul64, u64_toNat, u64_shl0, u64_shl1, u64_shl2, mul_two_comm, mul_four_comm]
    have := prod_bound ha7 ha8
    omega
  have w16 : (u64 a8 * u64 a8).toNat = (a8.toNat * a8.toNat) := by
    simp only [add64, mul64, u64_toNat, u64_shl0, u64_shl1, u64_shl2, mul_two_comm, mul_four_comm]
    have := prod_bound ha8 ha8
    omega
  rw [e]
  refine ⟨?_, ?_, ?_⟩
  · show [(u64 a0 * u64 a0).toNat, (u64 a0 * (u64 a1 <<< 1)).toNat, (u64 a0 * (u64 a2 <<< 1) + u64 a1 * (u64 a1 <<< 1)).toNat, (u64 a0 * (u64 a3 <<< 1) + u64 a1 * (u64 a2 <<< 1)).toNat, (u64 a0 * (u64 a4 <<< 1) + u64 a1 * (u64 a3 <<< 2) + u64 a2 * u64 a2).toNat, (u64 a0 * (u64 a5 <<< 1) + u64 a1 * (u64 a4 <<< 1) + u64 a2 * (u64 a3 <<< 1)).toNat, (u64 a0 * (u64 a6 <<< 1) + u64 a1 * (u64 a5 <<< 2) + u64 a2 * (u64 a4 <<< 1) + u64 a3 * (u64 a3 <<< 1)).toNat, (u64 a0 * (u64 a7 <<< 1) + u64 a1 * (u64 a6 <<< 1) + u64 a2 * (u64 a5 <<< 1) + u64 a3 * (u64 a4 <<< 1)).toNat, (u64 a0 * (u64 a8 <<< 1) + u64 a1 * (u64 a7 <<< 2) + u64 a2 * (u64 a6 <<< 1) + u64 a3 * (u64 a5 <<< 2) + u64 a4 * u64 a4).toNat, (u64 a1 * (u64 a8 <<< 1) + u64 a2 * (u64 a7 <<< 1) + u64 a3 * (u64 a6 <<< 1) + u64 a4 * (u64 a5 <<< 1)).toNat, (u64 a2 * (u64 a8 <<< 1) + u64 a3 * (u64 a7 <<< 2) + u64 a4 * (u64 a6 <<< 1) + u64 a5 * (u64 a5 <<< 1)).toNat, (u64 a3 * (u64 a8 <<< 1) + u64 a4 * (u64 a7 <<< 1) + u64 a5 * (u64 a6 <<< 1)).toNat, (u64 a4 * (u64 a8 <<< 1) + u64 a5 * (u64 a7 <<< 2) + u64 a6 * u64 a6).toNat, (u64 a5 * (u64 a8 <<< 1) + u64 a6 * (u64 a7 <<< 1)).toNat, (u64 a6 * (u64 a8 <<< 1) + u64 a7 * (u64 a7 <<< 1)).toNat, (u64 a7 * (u64 a8 <<< 1)).toNat, (u64 a8 * u64 a8).toNat] = _
    rw [w0, w1, w2, w3, w4, w5, w6, w7, w8, w9, w10, w11, w12, w13, w14, w15, w16]
    rfl
  · show (u64 a0 * u64 a0).toNat + (u64 a0 * (u64 a1 <<< 1)).toNat * 2 ^ 29 + (u64 a0 * (u64 a2 <<< 1) + u64 a1 * (u64 a1 <<< 1)).toNat * 2 ^ 57 + (u64 a0 * (u64 a3 <<< 1) + u64 a1 * (u64 a2 <<< 1)).toNat * 2 ^ 86 + (u64 a0 * (u64 a4 <<< 1) + u64 a1 * (u64 a3 <<< 2) + u64 a2 * u64 a2).toNat * 2 ^ 114 + (u64 a0 * (u64 a5 <<< 1) + u64 a1 * (u64 a4 <<< 1) + u64 a2 * (u64 a3 <<< 1)).toNat * 2 ^ 143 + (u64 a0 * (u64 a6 <<< 1) + u64 a1 * (u64 a5 <<< 2) + u64 a2 * (u64 a4 <<< 1) + u64 a3 * (u64 a3 <<< 1)).toNat * 2 ^ 171 + (u64 a0 * (u64 a7 <<< 1) + u64 a1 * (u64 a6 <<< 1) + u64 a2 * (u64 a5 <<< 1) + u64 a3 * (u64 a4 <<< 1)).toNat * 2 ^ 200 + (u64 a0 * (u64 a8 <<< 1) + u64 a1 * (u64 a7 <<< 2) + u64 a2 * (u64 a6 <<< 1) + u64 a3 * (u64 a5 <<< 2) + u64 a4 * u64 a4).toNat * 2 ^ 228 + (u64 a1 * (u64 a8 <<< 1) + u64 a2 * (u64 a7 <<< 1) + u64 a3 * (u64 a6 <<< 1) + u64 a4 * (u64 a5 <<< 1)).toNat * 2 ^ 257 + (u64 a2 * (u64 a8 <<< 1) + u64 a3 * (u64 a7 <<< 2) + u64 a4 * (u64 a6 <<< 1) + u64 a5 * (u64 a5 <<< 1)).toNat * 2 ^ 285 + (u64 a3 * (u64 a8 <<< 1) + u64 a4 * (u64 a7 <<< 1) + u64 a5 * (u64 a6 <<< 1)).toNat * 2 ^ 314 + (u64 a4 * (u64 a8 <<< 1) + u64 a5 * (u64 a7 <<< 2) + u64 a6 * u64 a6).toNat * 2 ^ 342 + (u64 a5 * (u64 a8 <<< 1) + u64 a6 * (u64 a7 <<< 1)).toNat * 2 ^ 371 + (u64 a6 * (u64 a8 <<< 1) + u64 a7 * (u64 a7 <<< 1)).toNat * 2 ^ 399 + (u64 a7 * (u64 a8 <<< 1)).toNat * 2 ^ 428 + (u64 a8 * u64 a8).toNat * 2 ^ 456 = _
    rw [w0, w1, w2, w3, w4, w5, w6, w7, w8, w9, w10, w11, w12, w13, w14, w15, w16, value_lit]
    ring
  · show (u64 a8 * u64 a8).toNat < 2 ^ 60
    rw [w16]
    have := prod_bound ha8 ha8
    omega

/-- (d) `sm2P256Mul`'s 17 product words: under the input bounds every 64-bit word is the exact integer sum
    (no 64-bit overflow), the weighted sum is `value a * value b`, and the top word is below 2^60 -/
theorem mul_large_ok (a b : Limbs) (ha : InBounds a) (hb : InBounds b) :
    (mulLarge a b).toList.map (·.toNat) = mulNat a b ∧
    valueLarge (mulLarge a b) = value a * value b ∧ LargeOK (mulLarge a b) := by
  obtain ⟨a0, a1, a2, a3, a4, a5, a6, a7, a8, rfl⟩ := exists_lit9 a
  obtain ⟨b0, b1, b2, b3, b4, b5, b6, b7, b8, rfl⟩ := exists_lit9 b
  exact mulLarge_lit _ _ _ _ _ _ _ _ _ _ _ _ _ _ _ _ _ _ ha hb

/-- (d) the same for `sm2P256Square` -/
theorem square_large_ok (a : Limbs) (ha : InBounds a) :
    (squareLarge a).toList.map (·.toNat) = squareNat a ∧
    valueLarge (squareLarge a) = value a * value a ∧ LargeOK (squareLarge a) := by
  obtain ⟨a0, a1, a2, a3, a4, a5, a6, a7, a8, rfl⟩ := exists_lit9 a
  exact squareLarge_lit _ _ _ _ _ _ _ _ _ ha

-- (e) sm2P256ReduceDegree: the elimination loop ---------------------------------------------------------------

theorem lt_iff32 (x y : U32) : x < y ↔ x.toNat < y.toNat := BitVec.lt_def

/-- `if tmp[i+3] < 0x10000000 …` of the even half: exact effect, no wrap-around, bound -/
theorem evA_spec (x t3 : U32) (c : Nat) (_hx : x.toNat < 536870912) (ht : t3.toNat ≤ c) (hlo : 1073741823 ≤ c)
    (hhi : c ≤ 3221225472) :
    (evA x 0xffffffff t3).1.toNat + (x.toNat % 262144) * 1024 = t3.toNat + 268435456 * (evA x 0xffffffff t3).2.toNat ∧
    (evA x 0xffffffff t3).2.toNat ≤ 1 ∧ (evA x 0xffffffff t3).1.toNat ≤ c := by
  unfold evA
  split
  · rename_i h
    rw [lt_iff32] at h
    bv32
    bv32 at h
    omega
  · rename_i h
    rw [lt_iff32] at h
    bv32
    bv32 at h
    omega

/-- `if tmp[i+4] < 0x20000000 …` of the even half (borrow chain through tmp[i+5], tmp[i+6]) -/
theorem evB_spec (x set4 t4 t5 t6 : U32) (c4 c5 c6 : Nat) (_hx : x.toNat < 536870912) (hs : set4.toNat ≤ 1)
    (h4 : t4.toNat ≤ c4) (h5 : t5.toNat ≤ c5) (h6 : t6.toNat ≤ c6)
    (l4 : 1073741823 ≤ c4) (l5 : 1073741823 ≤ c5) (l6 : 1073741823 ≤ c6)
    (u4 : c4 ≤ 3221225472) (u5 : c5 ≤ 3221225472) (u6 : c6 ≤ 3221225472) :
    let r := evB x 0xffffffff set4 t4 t5 t6
    r.1.toNat + 536870912 * r.2.1.toNat + 144115188075855872 * r.2.2.1.toNat + set4.toNat + x.toNat / 262144
      = t4.toNat + 536870912 * t5.toNat + 144115188075855872 * t6.toNat
        + 77371252455336267181195264 * r.2.2.2.toNat ∧
    r.2.2.2.toNat ≤ 1 ∧ r.1.toNat ≤ c4 ∧ r.2.1.toNat ≤ c5 ∧ r.2.2.1.toNat ≤ c6 := by
  intro r
  have hr : r = evB x 0xffffffff set4 t4 t5 t6 := rfl
  clear_value r
  unfold evB at hr
  split at hr
  · rename_i a4
    rw [lt_iff32] at a4; bv32 at a4
    split at hr
    · rename_i a5
      rw [lt_iff32] at a5; bv32 at a5
      split at hr
      · rename_i a6
        rw [lt_iff32] at a6; bv32 at a6
        subst hr
        bv32
        omega
      · rename_i a6
        rw [lt_iff32] at a6; bv32 at a6
        subst hr
        bv32
        omega
    · rename_i a5
      rw [lt_iff32] at a5; bv32 at a5
      subst hr
      bv32
      omega
  · rename_i a4
    rw [lt_iff32] at a4; bv32 at a4
    subst hr
    bv32
    omega

theorem add_nw (x y : U32) (h : x.toNat + y.toNat < 4294967296) : (x + y).toNat = x.toNat + y.toNat := by
  rw [add32]; omega
theorem sub_nw (x y : U32) (h : y.toNat ≤ x.toNat) : (x - y).toNat = x.toNat - y.toNat := by
  rw [sub32]; have := lt32 x; omega
theorem shl7_and29 (x : U32) : ((x <<< 7) &&& bottom29Bits).toNat = x.toNat % 4194304 * 128 := by
  bv32; have := lt32 x; omega
theorem shl10_and28 (x : U32) : ((x <<< 10) &&& bottom28Bits).toNat = x.toNat % 262144 * 1024 := by
  bv32; have := lt32 x; omega
theorem shl24_and28 (x : U32) : ((x <<< 24) &&& bottom28Bits).toNat = x.toNat % 16 * 16777216 := by
  bv32; have := lt32 x; omega
theorem shl28_and29 (x : U32) : ((x <<< 28) &&& bottom29Bits).toNat = x.toNat % 2 * 268435456 := by
  bv32; have := lt32 x; omega
theorem shl7_and28 (x : U32) : ((x <<< 7) &&& bottom28Bits).toNat = x.toNat % 2097152 * 128 := by
  bv32; have := lt32 x; omega
theorem shl11_and29 (x : U32) : ((x <<< 11) &&& bottom29Bits).toNat = x.toNat % 262144 * 2048 := by
  bv32; have := lt32 x; omega
theorem shl25_and29 (x : U32) : ((x <<< 25) &&& bottom29Bits).toNat = x.toNat % 16 * 33554432 := by
  bv32; have := lt32 x; omega

/-- exact (no wrap-around) evaluation of a 32-bit expression: every `+` is shown not to overflow and every
    `-` not to underflow (side conditions by `omega` from the hypotheses in context) -/
syntax "bvexact" : tactic
macro_rules
  | `(tactic| bvexact) =>
    `(tactic| simp (disch := (first | omega | (bvexact; omega))) only [shl7_and29, shl10_and28, shl24_and28,
        shl28_and29, shl7_and28, shl11_and29, shl25_and29, and_ones, add_nw, sub_nw, shr32, BitVec.reduceToNat,
        Nat.reducePow])

theorem borrow8_true (x t8 t9 : U32) :
    borrow8 true x t8 t9 = true ↔ (t8.toNat < 536870912 ∧ (1 < x.toNat ∨ t9.toNat ≠ 0)) := by
  unfold borrow8
  have e9 : (t9 != 0) = true ↔ t9.toNat ≠ 0 := by
    rw [bne_iff_ne, ne_eq, ne_eq, ← BitVec.toNat_inj]
    rfl
  have e8 : (t8 < 0x20000000) ↔ t8.toNat < 536870912 := lt_iff32 _ _
  have ex : (x > 1) ↔ 1 < x.toNat := lt_iff32 _ _
  simp only [if_true, Bool.and_eq_true, Bool.or_eq_true, decide_eq_true_eq, e9, e8, ex]

/-- `if tmp[i+7] < 0x10000000 …` of the even half, REPAIRED source: the borrow from tmp[i+9] is taken only
    when it cannot wrap, so all three words stay exact -/
theorem evC_spec (x set7 t7 t8 t9 : U32) (c7 c8 c9 : Nat) (hx : x.toNat < 536870912) (hx0 : 0 < x.toNat)
    (hs : set7.toNat ≤ 1) (h7 : t7.toNat ≤ c7) (h8 : t8.toNat ≤ c8) (h9 : t9.toNat ≤ c9)
    (l7 : 1073741823 ≤ c7) (l8 : 1073741823 ≤ c8)
    (u7 : c7 ≤ 3221225472) (u8 : c8 ≤ 3221225472) (u9 : c9 ≤ 3221225472) :
    let r := evC true x 0xffffffff set7 t7 t8 t9
    r.1.toNat + 268435456 * r.2.1.toNat + 144115188075855872 * r.2.2.toNat + set7.toNat
        + (x.toNat % 16) * 16777216 + 268435456 * (x.toNat / 16)
      = t7.toNat + 268435456 * t8.toNat + 144115188075855872 * t9.toNat
        + 72057594037927936 * x.toNat ∧
    r.1.toNat ≤ c7 ∧ r.2.1.toNat ≤ c8 + 268435456 ∧ r.2.2.toNat ≤ c9 + 268435455 := by
  intro r
  have hr : r = evC true x 0xffffffff set7 t7 t8 t9 := rfl
  clear_value r
  unfold evC at hr
  split at hr
  · rename_i a7
    rw [lt_iff32] at a7; bv32 at a7
    dsimp only at hr
    split at hr
    · rename_i a8
      rw [borrow8_true] at a8; bv32 at a8
      subst hr
      by_cases hx1 : 1 < x.toNat
      · bvexact
        omega
      · have hx1 : x = 1 := by
          apply BitVec.eq_of_toNat_eq
          show x.toNat = 1
          omega
        subst hx1
        simp only [BitVec.reduceToNat] at a8
        have e1 : ((1 : U32) >>> 1 - 1) = 0xffffffff := by decide
        have e2 : ((1 : U32) <<< 24 &&& bottom28Bits) = 0x1000000 := by decide
        have e3 : ((1 : U32) <<< 28 &&& bottom29Bits) = 0x10000000 := by decide
        have e4 : ((1 : U32) >>> 4) = 0 := by decide
        simp only [e1, e2, e3, e4] at a8 ⊢
        bv32
        omega
    · rename_i a8
      rw [borrow8_true] at a8; bv32 at a8
      subst hr
      bvexact
      omega
  · rename_i a7
    rw [lt_iff32] at a7; bv32 at a7
    dsimp only at hr
    split at hr
    · rename_i a8
      rw [borrow8_true] at a8; bv32 at a8
      subst hr
      by_cases hx1 : 1 < x.toNat
      · bvexact
        omega
      · have hx1 : x = 1 := by
          apply BitVec.eq_of_toNat_eq
          show x.toNat = 1
          omega
        subst hx1
        simp only [BitVec.reduceToNat] at a8
        have e1 : ((1 : U32) >>> 1 - 1) = 0xffffffff := by decide
        have e2 : ((1 : U32) <<< 24 &&& bottom28Bits) = 0x1000000 := by decide
        have e3 : ((1 : U32) <<< 28 &&& bottom29Bits) = 0x10000000 := by decide
        have e4 : ((1 : U32) >>> 4) = 0 := by decide
        simp only [e1, e2, e3, e4] at a8 ⊢
        bv32
        omega
    · rename_i a8
      rw [borrow8_true] at a8; bv32 at a8
      subst hr
      bvexact
      omega

/-- weighted sum of a window starting at an even position (limb widths 29,28,29,…) -/
def winValE (w : Win) : Nat :=
  w.t0.toNat + w.t1.toNat * 2 ^ 29 + w.t2.toNat * 2 ^ 57 + w.t3.toNat * 2 ^ 86 + w.t4.toNat * 2 ^ 114
  + w.t5.toNat * 2 ^ 143 + w.t6.toNat * 2 ^ 171 + w.t7.toNat * 2 ^ 200 + w.t8.toNat * 2 ^ 228 + w.t9.toNat * 2 ^ 257

/-- weighted sum of a window starting at an odd position (limb widths 28,29,28,…) -/
def winValO (w : Win) : Nat :=
  w.t0.toNat + w.t1.toNat * 2 ^ 28 + w.t2.toNat * 2 ^ 57 + w.t3.toNat * 2 ^ 85 + w.t4.toNat * 2 ^ 114
  + w.t5.toNat * 2 ^ 142 + w.t6.toNat * 2 ^ 171 + w.t7.toNat * 2 ^ 199 + w.t8.toNat * 2 ^ 228 + w.t9.toNat * 2 ^ 256

theorem gt_iff32 (x : U32) : x > 0 ↔ 0 < x.toNat := by
  show (0 : U32) < x ↔ _
  rw [lt_iff32]
  rfl

set_option maxHeartbeats 1000000 in
/-- One elimination step at an even position (repaired source): the low 29 bits x of the first word are
    cleared by adding x·p, i.e. the weighted sum of the window grows by exactly x·p; no word wraps around
    (every word stays a true non-negative integer below 2^32) and the words grow by at most the stated
    amounts.  `c1..c9` are arbitrary upper bounds of the window words on entry. -/
theorem rdEven_spec (w : Win) (c1 c2 c3 c4 c5 c6 c7 c8 c9 : Nat)
    (h1 : w.t1.toNat ≤ c1) (h2 : w.t2.toNat ≤ c2) (h3 : w.t3.toNat ≤ c3) (h4 : w.t4.toNat ≤ c4)
    (h5 : w.t5.toNat ≤ c5) (h6 : w.t6.toNat ≤ c6) (h7 : w.t7.toNat ≤ c7) (h8 : w.t8.toNat ≤ c8)
    (h9 : w.t9.toNat ≤ c9)
    (l3 : 1073741823 ≤ c3) (l4 : 1073741823 ≤ c4) (l5 : 1073741823 ≤ c5) (l6 : 1073741823 ≤ c6)
    (l7 : 1073741823 ≤ c7) (l8 : 1073741823 ≤ c8)
    (u1 : c1 ≤ 3000000000) (u2 : c2 ≤ 3000000000) (u3 : c3 ≤ 3000000000) (u4 : c4 ≤ 3000000000)
    (u5 : c5 ≤ 3000000000) (u6 : c6 ≤ 3000000000) (u7 : c7 ≤ 3000000000) (u8 : c8 ≤ 3000000000)
    (u9 : c9 ≤ 3000000000) :
    winValE (rdEven true w) = winValE w + (w.t0.toNat % 2 ^ 29) * P ∧
    (rdEven true w).t0.toNat = 0 ∧ (rdEven true w).t1.toNat ≤ c1 + 7 ∧ (rdEven true w).t2.toNat ≤ c2 + 536870784 ∧
    (rdEven true w).t3.toNat ≤ c3 + 127 ∧ (rdEven true w).t4.toNat ≤ c4 ∧ (rdEven true w).t5.toNat ≤ c5 ∧
    (rdEven true w).t6.toNat ≤ c6 ∧ (rdEven true w).t7.toNat ≤ c7 ∧ (rdEven true w).t8.toNat ≤ c8 + 268435456 ∧
    (rdEven true w).t9.toNat ≤ c9 + 268435455 := by
  obtain ⟨t0, t1, t2, t3, t4, t5, t6, t7, t8, t9⟩ := w
  dsimp only at h1 h2 h3 h4 h5 h6 h7 h8 h9 ⊢
  have hx : (t0 &&& bottom29Bits).toNat = t0.toNat % 536870912 := and29 t0
  have ht0 := lt32 t0
  unfold rdEven
  dsimp only
  generalize t0 &&& bottom29Bits = x at hx ⊢
  split
  · rename_i hpos
    rw [gt_iff32] at hpos
    rw [nz_ones x hpos (by omega)]
    have h3' : (t3 + x >>> 22).toNat = t3.toNat + x.toNat / 4194304 := by bvexact
    have hA := evA_spec x (t3 + x >>> 22) (c3 + 127) (by omega) (by omega) (by omega) (by omega)
    rw [h3'] at hA
    generalize evA x 0xffffffff (t3 + x >>> 22) = a at hA ⊢
    obtain ⟨a1, a2⟩ := a
    dsimp only at hA ⊢
    have hB := evB_spec x a2 t4 t5 t6 c4 c5 c6 (by omega) hA.2.1 h4 h5 h6 l4 l5 l6 (by omega) (by omega) (by omega)
    generalize evB x 0xffffffff a2 t4 t5 t6 = b at hB ⊢
    obtain ⟨b1, b2, b3, b4⟩ := b
    dsimp only at hB ⊢
    have hC := evC_spec x b4 t7 t8 t9 c7 c8 c9 (by omega) hpos hB.2.1 h7 h8 h9 l7 l8 (by omega) (by omega) (by omega)
    generalize evC true x 0xffffffff b4 t7 t8 t9 = c at hC ⊢
    obtain ⟨d1, d2, d3⟩ := c
    dsimp only at hC ⊢
    have e1 : (t1 + t0 >>> 29).toNat = t1.toNat + t0.toNat / 536870912 := by bvexact
    have e2 : (t2 + (x <<< 7 &&& bottom29Bits)).toNat = t2.toNat + x.toNat % 4194304 * 128 := by bvexact
    simp only [winValE, e1, e2, P]
    have z : (0 : U32).toNat = 0 := rfl
    obtain ⟨hA1, hA2, hA3⟩ := hA
    obtain ⟨hB1, hB2, hB3, hB4, hB5⟩ := hB
    obtain ⟨hC1, hC2, hC3, hC4⟩ := hC
    refine ⟨?_, z, ?_, ?_, ?_, ?_, ?_, ?_, ?_, ?_, ?_⟩
    · rw [z]; omega
    all_goals omega
  · rename_i hpos
    rw [gt_iff32] at hpos
    have e1 : (t1 + t0 >>> 29).toNat = t1.toNat + t0.toNat / 536870912 := by bvexact
    simp only [winValE, e1, P]
    have z : (0 : U32).toNat = 0 := rfl
    refine ⟨?_, z, ?_, ?_, ?_, ?_, ?_, ?_, ?_, ?_, ?_⟩
    · rw [z]; omega
    all_goals omega


/-- `if tmp[i+4] < 0x20000000 …` of the odd half -/
theorem odA_spec (x t3 : U32) (c : Nat) (_hx : x.toNat < 268435456) (ht : t3.toNat ≤ c) (hlo : 1073741823 ≤ c)
    (hhi : c ≤ 3221225472) :
    (odA x 0xffffffff t3).1.toNat + (x.toNat % 262144) * 2048 = t3.toNat + 536870912 * (odA x 0xffffffff t3).2.toNat ∧
    (odA x 0xffffffff t3).2.toNat ≤ 1 ∧ (odA x 0xffffffff t3).1.toNat ≤ c := by
  unfold odA
  split
  · rename_i h
    rw [lt_iff32] at h
    bv32 at h
    bvexact
    omega
  · rename_i h
    rw [lt_iff32] at h
    bv32 at h
    bvexact
    omega

/-- `if tmp[i+5] < 0x10000000 …` of the odd half (borrow chain through tmp[i+6], tmp[i+7]) -/
theorem odB_spec (x set5 t4 t5 t6 : U32) (c4 c5 c6 : Nat) (_hx : x.toNat < 268435456) (hs : set5.toNat ≤ 1)
    (h4 : t4.toNat ≤ c4) (h5 : t5.toNat ≤ c5) (h6 : t6.toNat ≤ c6)
    (l4 : 1073741823 ≤ c4) (l5 : 1073741823 ≤ c5) (l6 : 1073741823 ≤ c6)
    (u4 : c4 ≤ 3221225472) (u5 : c5 ≤ 3221225472) (u6 : c6 ≤ 3221225472) :
    let r := odB x 0xffffffff set5 t4 t5 t6
    r.1.toNat + 268435456 * r.2.1.toNat + 144115188075855872 * r.2.2.1.toNat + set5.toNat + x.toNat / 262144
      = t4.toNat + 268435456 * t5.toNat + 144115188075855872 * t6.toNat
        + 38685626227668133590597632 * r.2.2.2.toNat ∧
    r.2.2.2.toNat ≤ 1 ∧ r.1.toNat ≤ c4 ∧ r.2.1.toNat ≤ c5 ∧ r.2.2.1.toNat ≤ c6 := by
  intro r
  have hr : r = odB x 0xffffffff set5 t4 t5 t6 := rfl
  clear_value r
  unfold odB at hr
  split at hr
  · rename_i a4
    rw [lt_iff32] at a4; bv32 at a4
    split at hr
    · rename_i a5
      rw [lt_iff32] at a5; bv32 at a5
      split at hr
      · rename_i a6
        rw [lt_iff32] at a6; bv32 at a6
        subst hr
        bvexact
        omega
      · rename_i a6
        rw [lt_iff32] at a6; bv32 at a6
        subst hr
        bvexact
        omega
    · rename_i a5
      rw [lt_iff32] at a5; bv32 at a5
      subst hr
      bvexact
      omega
  · rename_i a4
    rw [lt_iff32] at a4; bv32 at a4
    subst hr
    bvexact
    omega

/-- `if tmp[i+8] < 0x20000000 …` of the odd half -/
theorem odC_spec (x set8 t7 : U32) (c : Nat) (_hx : x.toNat < 268435456) (hs : set8.toNat ≤ 1) (ht : t7.toNat ≤ c)
    (hlo : 1073741823 ≤ c) (hhi : c ≤ 3221225472) :
    (odC x 0xffffffff set8 t7).1.toNat + set8.toNat + (x.toNat % 16) * 33554432
      = t7.toNat + 536870912 * (odC x 0xffffffff set8 t7).2.toNat ∧
    (odC x 0xffffffff set8 t7).2.toNat ≤ 1 ∧ (odC x 0xffffffff set8 t7).1.toNat ≤ c := by
  unfold odC
  split
  · rename_i h
    rw [lt_iff32] at h
    bv32 at h
    bvexact
    omega
  · rename_i h
    rw [lt_iff32] at h
    bv32 at h
    bvexact
    omega

/-- `if tmp[i+9] < 0x10000000 …` of the odd half (x ≥ 1, so `x - 1` cannot wrap) -/
theorem odD_spec (x set9 t8 t9 : U32) (c8 c9 : Nat) (hx : x.toNat < 268435456) (hx0 : 0 < x.toNat)
    (hs : set9.toNat ≤ 1) (h8 : t8.toNat ≤ c8) (h9 : t9.toNat ≤ c9) (l8 : 1073741823 ≤ c8)
    (u8 : c8 ≤ 3221225472) (u9 : c9 ≤ 3221225472) :
    (odD x 0xffffffff set9 t8 t9).1.toNat + 268435456 * (odD x 0xffffffff set9 t8 t9).2.toNat + set9.toNat
        + x.toNat / 16
      = t8.toNat + 268435456 * t9.toNat + 268435456 * x.toNat ∧
    (odD x 0xffffffff set9 t8 t9).1.toNat ≤ c8 ∧ (odD x 0xffffffff set9 t8 t9).2.toNat ≤ c9 + 268435455 := by
  unfold odD
  split
  · rename_i h
    rw [lt_iff32] at h
    bv32 at h
    bvexact
    omega
  · rename_i h
    rw [lt_iff32] at h
    bv32 at h
    bvexact
    omega

set_option maxHeartbeats 1000000 in
/-- One elimination step at an odd position: as `rdEven_spec` with the low 28 bits of the first word. -/
theorem rdOdd_spec (w : Win) (c1 c2 c3 c4 c5 c6 c7 c8 c9 : Nat)
    (h1 : w.t1.toNat ≤ c1) (h2 : w.t2.toNat ≤ c2) (h3 : w.t3.toNat ≤ c3) (h4 : w.t4.toNat ≤ c4)
    (h5 : w.t5.toNat ≤ c5) (h6 : w.t6.toNat ≤ c6) (h7 : w.t7.toNat ≤ c7) (h8 : w.t8.toNat ≤ c8)
    (h9 : w.t9.toNat ≤ c9)
    (l3 : 1073741823 ≤ c3) (l4 : 1073741823 ≤ c4) (l5 : 1073741823 ≤ c5) (l6 : 1073741823 ≤ c6)
    (l7 : 1073741823 ≤ c7) (l8 : 1073741823 ≤ c8)
    (u1 : c1 ≤ 3000000000) (u2 : c2 ≤ 3000000000) (u3 : c3 ≤ 3000000000) (u4 : c4 ≤ 3000000000)
    (u5 : c5 ≤ 3000000000) (u6 : c6 ≤ 3000000000) (u7 : c7 ≤ 3000000000) (u8 : c8 ≤ 3000000000)
    (u9 : c9 ≤ 3000000000) :
    winValO (rdOdd w) = winValO w + (w.t0.toNat % 2 ^ 28) * P ∧
    (rdOdd w).t0.toNat = 0 ∧ (rdOdd w).t1.toNat ≤ c1 + 15 ∧ (rdOdd w).t2.toNat ≤ c2 + 268435328 ∧
    (rdOdd w).t3.toNat ≤ c3 + 127 ∧ (rdOdd w).t4.toNat ≤ c4 ∧ (rdOdd w).t5.toNat ≤ c5 ∧
    (rdOdd w).t6.toNat ≤ c6 ∧ (rdOdd w).t7.toNat ≤ c7 ∧ (rdOdd w).t8.toNat ≤ c8 ∧
    (rdOdd w).t9.toNat ≤ c9 + 268435455 := by
  obtain ⟨t0, t1, t2, t3, t4, t5, t6, t7, t8, t9⟩ := w
  dsimp only at h1 h2 h3 h4 h5 h6 h7 h8 h9 ⊢
  have hx : (t0 &&& bottom28Bits).toNat = t0.toNat % 268435456 := and28 t0
  have ht0 := lt32 t0
  unfold rdOdd
  dsimp only
  generalize t0 &&& bottom28Bits = x at hx ⊢
  split
  · rename_i hpos
    rw [gt_iff32] at hpos
    rw [nz_ones x hpos (by omega)]
    have h3' : (t3 + x >>> 21).toNat = t3.toNat + x.toNat / 2097152 := by bvexact
    have hA := odA_spec x (t3 + x >>> 21) (c3 + 127) (by omega) (by omega) (by omega) (by omega)
    rw [h3'] at hA
    generalize odA x 0xffffffff (t3 + x >>> 21) = a at hA ⊢
    obtain ⟨a1, a2⟩ := a
    dsimp only at hA ⊢
    have hB := odB_spec x a2 t4 t5 t6 c4 c5 c6 (by omega) hA.2.1 h4 h5 h6 l4 l5 l6 (by omega) (by omega) (by omega)
    generalize odB x 0xffffffff a2 t4 t5 t6 = b at hB ⊢
    obtain ⟨b1, b2, b3, b4⟩ := b
    dsimp only at hB ⊢
    have hC := odC_spec x b4 t7 c7 (by omega) hB.2.1 h7 l7 (by omega)
    generalize odC x 0xffffffff b4 t7 = c at hC ⊢
    obtain ⟨d1, d2⟩ := c
    dsimp only at hC ⊢
    have hD := odD_spec x d2 t8 t9 c8 c9 (by omega) hpos hC.2.1 h8 h9 l8 (by omega) (by omega)
    generalize odD x 0xffffffff d2 t8 t9 = d at hD ⊢
    obtain ⟨g1, g2⟩ := d
    dsimp only at hD ⊢
    have e1 : (t1 + t0 >>> 28).toNat = t1.toNat + t0.toNat / 268435456 := by bvexact
    have e2 : (t2 + (x <<< 7 &&& bottom28Bits)).toNat = t2.toNat + x.toNat % 2097152 * 128 := by bvexact
    simp only [winValO, e1, e2, P]
    have z : (0 : U32).toNat = 0 := rfl
    obtain ⟨hA1, hA2, hA3⟩ := hA
    obtain ⟨hB1, hB2, hB3, hB4, hB5⟩ := hB
    obtain ⟨hC1, hC2, hC3⟩ := hC
    obtain ⟨hD1, hD2, hD3⟩ := hD
    refine ⟨?_, z, ?_, ?_, ?_, ?_, ?_, ?_, ?_, ?_, ?_⟩
    · rw [z]; omega
    all_goals omega
  · rename_i hpos
    rw [gt_iff32] at hpos
    have e1 : (t1 + t0 >>> 28).toNat = t1.toNat + t0.toNat / 268435456 := by bvexact
    simp only [winValO, e1, P]
    have z : (0 : U32).toNat = 0 := rfl
    refine ⟨?_, z, ?_, ?_, ?_, ?_, ?_, ?_, ?_, ?_, ?_⟩
    · rw [z]; omega
    all_goals omega


-- (e) sm2P256ReduceDegree: repacking 17 uint64 words into 18 uint32 words ----------------------------------------

theorem lo32_toNat (x : U64) : (lo32 x).toNat = x.toNat % 4294967296 := by
  unfold lo32; rw [BitVec.toNat_setWidth]
theorem hi32_toNat (x : U64) : (hi32 x).toNat = x.toNat / 4294967296 := by
  unfold hi32
  rw [BitVec.toNat_setWidth, BitVec.toNat_ushiftRight, shrN]
  have := x.isLt
  omega

theorem or_disjoint (a b : U32) (ha : a.toNat < 8) (hb : b.toNat % 8 = 0) : (a ||| b).toNat = a.toNat + b.toNat := by
  rw [BitVec.toNat_or]
  have h := Nat.shiftLeft_add_eq_or_of_lt (i := 3) (b := a.toNat) (by omega) (b.toNat / 8)
  rw [shlN] at h
  have e : b.toNat / 8 * 2 ^ 3 = b.toNat := by omega
  rw [e] at h
  rw [Nat.or_comm, ← h, Nat.add_comm]

/-- the 18 weights: offsets 0,29,57,…,456,485 -/
def valTmp (t : Tmp) : Nat :=
  t[0].toNat + t[1].toNat * 2 ^ 29 + t[2].toNat * 2 ^ 57 + t[3].toNat * 2 ^ 86 + t[4].toNat * 2 ^ 114
  + t[5].toNat * 2 ^ 143 + t[6].toNat * 2 ^ 171 + t[7].toNat * 2 ^ 200 + t[8].toNat * 2 ^ 228
  + t[9].toNat * 2 ^ 257 + t[10].toNat * 2 ^ 285 + t[11].toNat * 2 ^ 314 + t[12].toNat * 2 ^ 342
  + t[13].toNat * 2 ^ 371 + t[14].toNat * 2 ^ 399 + t[15].toNat * 2 ^ 428 + t[16].toNat * 2 ^ 456
  + t[17].toNat * 2 ^ 485

theorem valTmp_lit (t0 t1 t2 t3 t4 t5 t6 t7 t8 t9 t10 t11 t12 t13 t14 t15 t16 t17 : U32) :
    valTmp #v[t0, t1, t2, t3, t4, t5, t6, t7, t8, t9, t10, t11, t12, t13, t14, t15, t16, t17] =
      t0.toNat + t1.toNat * 2 ^ 29 + t2.toNat * 2 ^ 57 + t3.toNat * 2 ^ 86 + t4.toNat * 2 ^ 114 + t5.toNat * 2 ^ 143 + t6.toNat * 2 ^ 171 + t7.toNat * 2 ^ 200 + t8.toNat * 2 ^ 228 + t9.toNat * 2 ^ 257 + t10.toNat * 2 ^ 285 + t11.toNat * 2 ^ 314 + t12.toNat * 2 ^ 342 + t13.toNat * 2 ^ 371 + t14.toNat * 2 ^ 399 + t15.toNat * 2 ^ 428 + t16.toNat * 2 ^ 456 + t17.toNat * 2 ^ 485 := rfl

theorem valueLarge_lit (b0 b1 b2 b3 b4 b5 b6 b7 b8 b9 b10 b11 b12 b13 b14 b15 b16 : U64) :
    valueLarge #v[b0, b1, b2, b3, b4, b5, b6, b7, b8, b9, b10, b11, b12, b13, b14, b15, b16] =
      b0.toNat + b1.toNat * 2 ^ 29 + b2.toNat * 2 ^ 57 + b3.toNat * 2 ^ 86 + b4.toNat * 2 ^ 114 + b5.toNat * 2 ^ 143 + b6.toNat * 2 ^ 171 + b7.toNat * 2 ^ 200 + b8.toNat * 2 ^ 228 + b9.toNat * 2 ^ 257 + b10.toNat * 2 ^ 285 + b11.toNat * 2 ^ 314 + b12.toNat * 2 ^ 342 + b13.toNat * 2 ^ 371 + b14.toNat * 2 ^ 399 + b15.toNat * 2 ^ 428 + b16.toNat * 2 ^ 456 := rfl

theorem exists_lit17 (b : Large) : ∃ b0 b1 b2 b3 b4 b5 b6 b7 b8 b9 b10 b11 b12 b13 b14 b15 b16, b = #v[b0, b1, b2, b3, b4, b5, b6, b7, b8, b9, b10, b11, b12, b13, b14, b15, b16] := by
  refine ⟨b[0], b[1], b[2], b[3], b[4], b[5], b[6], b[7], b[8], b[9], b[10], b[11], b[12], b[13], b[14], b[15], b[16], ?_⟩
  apply Vector.ext
  intro i hi
  match i, hi with
  | 0, _ => rfl
  | 1, _ => rfl
  | 2, _ => rfl
  | 3, _ => rfl
  | 4, _ => rfl
  | 5, _ => rfl
  | 6, _ => rfl
  | 7, _ => rfl
  | 8, _ => rfl
  | 9, _ => rfl
  | 10, _ => rfl
  | 11, _ => rfl
  | 12, _ => rfl
  | 13, _ => rfl
  | 14, _ => rfl
  | 15, _ => rfl
  | 16, _ => rfl
  | n+17, h => omega

theorem exists_lit18 (t : Tmp) : ∃ t0 t1 t2 t3 t4 t5 t6 t7 t8 t9 t10 t11 t12 t13 t14 t15 t16 t17, t = #v[t0, t1, t2, t3, t4, t5, t6, t7, t8, t9, t10, t11, t12, t13, t14, t15, t16, t17] := by
  refine ⟨t[0], t[1], t[2], t[3], t[4], t[5], t[6], t[7], t[8], t[9], t[10], t[11], t[12], t[13], t[14], t[15], t[16], t[17], ?_⟩
  apply Vector.ext
  intro i hi
  match i, hi with
  | 0, _ => rfl
  | 1, _ => rfl
  | 2, _ => rfl
  | 3, _ => rfl
  | 4, _ => rfl
  | 5, _ => rfl
  | 6, _ => rfl
  | 7, _ => rfl
  | 8, _ => rfl
  | 9, _ => rfl
  | 10, _ => rfl
  | 11, _ => rfl
  | 12, _ => rfl
  | 13, _ => rfl
  | 14, _ => rfl
  | 15, _ => rfl
  | 16, _ => rfl
  | 17, _ => rfl
  | n+18, h => omega

theorem rpHead_spec (b0 b1 : U64) :
    (rpHead b0 b1).1.toNat = b0.toNat % 536870912 ∧
    (rpHead b0 b1).2.1.toNat = (b0.toNat / 536870912 % 268435456 + b1.toNat % 268435456) % 268435456 ∧
    (rpHead b0 b1).2.2.toNat = (b0.toNat / 536870912 % 268435456 + b1.toNat % 268435456) / 268435456 := by
  unfold rpHead
  dsimp only
  have hor : (lo32 b0 >>> 29 ||| (hi32 b0 <<< 3 &&& bottom28Bits)).toNat
      = b0.toNat / 536870912 % 268435456 := by
    rw [or_disjoint]
    · simp only [shr32, and28, shl32, lo32_toNat, hi32_toNat, Nat.reducePow]
      have := b0.isLt
      omega
    · simp only [shr32, lo32_toNat, Nat.reducePow]; omega
    · simp only [and28, shl32, hi32_toNat, Nat.reducePow]; omega
  have := b0.isLt
  have := b1.isLt
  refine ⟨?_, ?_, ?_⟩
  · simp only [and29, lo32_toNat]; omega
  · simp only [and28, add32, hor, lo32_toNat]; omega
  · simp only [shr32, add32, hor, and28, lo32_toNat, Nat.reducePow]; omega

/-- first-loop body, even i: hi(b[i-2]) + mid(b[i-1]) + lo(b[i]) + carry, split at 29 bits -/
theorem rpEven_spec (bm2 bm1 bi : U64) (c : U32) (hc : c.toNat ≤ 16) :
    (rpEven bm2 bm1 bi c).1.toNat
      = (bm2.toNat / 144115188075855872 + bm1.toNat / 268435456 % 536870912 + bi.toNat % 536870912 + c.toNat)
          % 536870912 ∧
    (rpEven bm2 bm1 bi c).2.toNat
      = (bm2.toNat / 144115188075855872 + bm1.toNat / 268435456 % 536870912 + bi.toNat % 536870912 + c.toNat)
          / 536870912 := by
  unfold rpEven
  simp only [and29, shr32, shl32, add32, lo32_toNat, hi32_toNat, Nat.reducePow]
  have := bm2.isLt
  have := bm1.isLt
  have := bi.isLt
  omega

/-- first-loop body, odd i: split at 28 bits -/
theorem rpOdd_spec (bm2 bm1 bi : U64) (c : U32) (hc : c.toNat ≤ 16) :
    (rpOdd bm2 bm1 bi c).1.toNat
      = (bm2.toNat / 144115188075855872 + bm1.toNat / 536870912 % 268435456 + bi.toNat % 268435456 + c.toNat)
          % 268435456 ∧
    (rpOdd bm2 bm1 bi c).2.toNat
      = (bm2.toNat / 144115188075855872 + bm1.toNat / 536870912 % 268435456 + bi.toNat % 268435456 + c.toNat)
          / 268435456 := by
  unfold rpOdd
  simp only [and28, shr32, shl32, add32, lo32_toNat, hi32_toNat, Nat.reducePow]
  have := bm2.isLt
  have := bm1.isLt
  have := bi.isLt
  omega

theorem rpTail_spec (b15 b16 : U64) (c : U32) (hc : c.toNat ≤ 16) (h16 : b16.toNat < 1152921504606846976) :
    (rpTail b15 b16 c).toNat = b15.toNat / 144115188075855872 + b16.toNat / 536870912 + c.toNat := by
  unfold rpTail
  simp only [shr32, shl32, add32, lo32_toNat, hi32_toNat, Nat.reducePow]
  have := b15.isLt
  omega

set_option maxHeartbeats 4000000 in
/-- the first part of `sm2P256ReduceDegree`: the 18 words have the same weighted sum as the 17 input words,
    words 0..16 are canonical (29/28 bits), the last one is below 2^31 + 2^8 (for b[16] < 2^60) -/
theorem repack_lit (b0 b1 b2 b3 b4 b5 b6 b7 b8 b9 b10 b11 b12 b13 b14 b15 b16 : U64) (h16 : b16.toNat < 2 ^ 60) :
    ∃ t0 t1 t2 t3 t4 t5 t6 t7 t8 t9 t10 t11 t12 t13 t14 t15 t16 t17 : U32, repack #v[b0, b1, b2, b3, b4, b5, b6, b7, b8, b9, b10, b11, b12, b13, b14, b15, b16] = #v[t0, t1, t2, t3, t4, t5, t6, t7, t8, t9, t10, t11, t12, t13, t14, t15, t16, t17] ∧
      valTmp #v[t0, t1, t2, t3, t4, t5, t6, t7, t8, t9, t10, t11, t12, t13, t14, t15, t16, t17] = valueLarge #v[b0, b1, b2, b3, b4, b5, b6, b7, b8, b9, b10, b11, b12, b13, b14, b15, b16] ∧
      t0.toNat < 536870912 ∧ t1.toNat < 268435456 ∧ t2.toNat < 536870912 ∧ t3.toNat < 268435456 ∧ t4.toNat < 536870912 ∧ t5.toNat < 268435456 ∧ t6.toNat < 536870912 ∧ t7.toNat < 268435456 ∧ t8.toNat < 536870912 ∧ t9.toNat < 268435456 ∧ t10.toNat < 536870912 ∧ t11.toNat < 268435456 ∧ t12.toNat < 536870912 ∧ t13.toNat < 268435456 ∧ t14.toNat < 536870912 ∧ t15.toNat < 268435456 ∧ t16.toNat < 536870912 ∧ t17.toNat < 2147483904 := by
  have hr : ∃ h r2 r3 r4 r5 r6 r7 r8 r9 r10 r11 r12 r13 r14 r15 r16 t17, h = rpHead b0 b1 ∧
      r2 = rpEven b0 b1 b2 h.2.2 ∧
      r3 = rpOdd b1 b2 b3 r2.2 ∧
      r4 = rpEven b2 b3 b4 r3.2 ∧
      r5 = rpOdd b3 b4 b5 r4.2 ∧
      r6 = rpEven b4 b5 b6 r5.2 ∧
      r7 = rpOdd b5 b6 b7 r6.2 ∧
      r8 = rpEven b6 b7 b8 r7.2 ∧
      r9 = rpOdd b7 b8 b9 r8.2 ∧
      r10 = rpEven b8 b9 b10 r9.2 ∧
      r11 = rpOdd b9 b10 b11 r10.2 ∧
      r12 = rpEven b10 b11 b12 r11.2 ∧
      r13 = rpOdd b11 b12 b13 r12.2 ∧
      r14 = rpEven b12 b13 b14 r13.2 ∧
      r15 = rpOdd b13 b14 b15 r14.2 ∧
      r16 = rpEven b14 b15 b16 r15.2 ∧
      t17 = rpTail b15 b16 r16.2 ∧
      repack #v[b0, b1, b2, b3, b4, b5, b6, b7, b8, b9, b10, b11, b12, b13, b14, b15, b16] = #v[h.1, h.2.1, r2.1, r3.1, r4.1, r5.1, r6.1, r7.1, r8.1, r9.1, r10.1, r11.1, r12.1, r13.1, r14.1, r15.1, r16.1, t17] :=
    ⟨_, _, _, _, _, _, _, _, _, _, _, _, _, _, _, _, _, rfl, rfl, rfl, rfl, rfl, rfl, rfl, rfl, rfl, rfl, rfl, rfl, rfl, rfl, rfl, rfl, rfl, rfl⟩
  obtain ⟨h, r2, r3, r4, r5, r6, r7, r8, r9, r10, r11, r12, r13, r14, r15, r16, t17, eh, e2, e3, e4, e5, e6, e7, e8, e9, e10, e11, e12, e13, e14, e15, e16, e17, e⟩ := hr
  refine ⟨h.1, h.2.1, r2.1, r3.1, r4.1, r5.1, r6.1, r7.1, r8.1, r9.1, r10.1, r11.1, r12.1, r13.1, r14.1, r15.1, r16.1, t17, e, ?_⟩
  have sh := rpHead_spec b0 b1; rw [← eh] at sh
  have s2 := rpEven_spec b0 b1 b2 h.2.2 (by omega); rw [← e2] at s2
  have s3 := rpOdd_spec b1 b2 b3 r2.2 (by omega); rw [← e3] at s3
  have s4 := rpEven_spec b2 b3 b4 r3.2 (by omega); rw [← e4] at s4
  have s5 := rpOdd_spec b3 b4 b5 r4.2 (by omega); rw [← e5] at s5
  have s6 := rpEven_spec b4 b5 b6 r5.2 (by omega); rw [← e6] at s6
  have s7 := rpOdd_spec b5 b6 b7 r6.2 (by omega); rw [← e7] at s7
  have s8 := rpEven_spec b6 b7 b8 r7.2 (by omega); rw [← e8] at s8
  have s9 := rpOdd_spec b7 b8 b9 r8.2 (by omega); rw [← e9] at s9
  have s10 := rpEven_spec b8 b9 b10 r9.2 (by omega); rw [← e10] at s10
  have s11 := rpOdd_spec b9 b10 b11 r10.2 (by omega); rw [← e11] at s11
  have s12 := rpEven_spec b10 b11 b12 r11.2 (by omega); rw [← e12] at s12
  have s13 := rpOdd_spec b11 b12 b13 r12.2 (by omega); rw [← e13] at s13
  have s14 := rpEven_spec b12 b13 b14 r13.2 (by omega); rw [← e14] at s14
  have s15 := rpOdd_spec b13 b14 b15 r14.2 (by omega); rw [← e15] at s15
  have s16 := rpEven_spec b14 b15 b16 r15.2 (by omega); rw [← e16] at s16
  have s17 := rpTail_spec b15 b16 r16.2 (by omega) (by omega); rw [← e17] at s17
  clear eh e2 e3 e4 e5 e6 e7 e8 e9 e10 e11 e12 e13 e14 e15 e16 e17 e
  have := b0.isLt
  have := b1.isLt
  have := b2.isLt
  have := b3.isLt
  have := b4.isLt
  have := b5.isLt
  have := b6.isLt
  have := b7.isLt
  have := b8.isLt
  have := b9.isLt
  have := b10.isLt
  have := b11.isLt
  have := b12.isLt
  have := b13.isLt
  have := b14.isLt
  have := b15.isLt
  have := b16.isLt
  rw [valTmp_lit, valueLarge_lit]
  omega

-- (e) sm2P256ReduceDegree: the nine elimination steps on the 18-word temporary ------------------------------------

set_option maxHeartbeats 2000000 in
theorem elim_step0 (t0 t1 t2 t3 t4 t5 t6 t7 t8 t9 t10 t11 t12 t13 t14 t15 t16 t17 : U32)
    (h1 : t1.toNat ≤ 1073741823) (h2 : t2.toNat ≤ 1073741823) (h3 : t3.toNat ≤ 1073741823) (h4 : t4.toNat ≤ 1073741823) (h5 : t5.toNat ≤ 1073741823) (h6 : t6.toNat ≤ 1073741823) (h7 : t7.toNat ≤ 1073741823) (h8 : t8.toNat ≤ 1073741823) (h9 : t9.toNat ≤ 1073741823) :
    ∃ s0 s1 s2 s3 s4 s5 s6 s7 s8 s9 : U32, elimEven true #v[t0, t1, t2, t3, t4, t5, t6, t7, t8, t9, t10, t11, t12, t13, t14, t15, t16, t17] 0 = #v[s0, s1, s2, s3, s4, s5, s6, s7, s8, s9, t10, t11, t12, t13, t14, t15, t16, t17] ∧
      valTmp #v[s0, s1, s2, s3, s4, s5, s6, s7, s8, s9, t10, t11, t12, t13, t14, t15, t16, t17] = valTmp #v[t0, t1, t2, t3, t4, t5, t6, t7, t8, t9, t10, t11, t12, t13, t14, t15, t16, t17] + (t0.toNat % 536870912) * 2 ^ 0 * P ∧
      s0.toNat = 0 ∧ s1.toNat ≤ 1073741830 ∧ s2.toNat ≤ 1610612607 ∧ s3.toNat ≤ 1073741950 ∧ s4.toNat ≤ 1073741823 ∧ s5.toNat ≤ 1073741823 ∧ s6.toNat ≤ 1073741823 ∧ s7.toNat ≤ 1073741823 ∧ s8.toNat ≤ 1342177279 ∧ s9.toNat ≤ 1342177278 := by
  have e : elimEven true #v[t0, t1, t2, t3, t4, t5, t6, t7, t8, t9, t10, t11, t12, t13, t14, t15, t16, t17] 0 =
      (let w := rdEven true ⟨t0, t1, t2, t3, t4, t5, t6, t7, t8, t9⟩
       #v[w.t0, w.t1, w.t2, w.t3, w.t4, w.t5, w.t6, w.t7, w.t8, w.t9, t10, t11, t12, t13, t14, t15, t16, t17]) := rfl
  have sp := rdEven_spec ⟨t0, t1, t2, t3, t4, t5, t6, t7, t8, t9⟩ 1073741823 1073741823 1073741823 1073741823 1073741823 1073741823 1073741823 1073741823 1073741823
    h1 h2 h3 h4 h5 h6 h7 h8 h9
    (by omega) (by omega) (by omega) (by omega) (by omega) (by omega) (by omega) (by omega) (by omega) (by omega) (by omega) (by omega) (by omega) (by omega) (by omega)
  generalize rdEven true ⟨t0, t1, t2, t3, t4, t5, t6, t7, t8, t9⟩ = w at e sp
  obtain ⟨s0, s1, s2, s3, s4, s5, s6, s7, s8, s9⟩ := w
  dsimp only [winValE] at e sp
  refine ⟨s0, s1, s2, s3, s4, s5, s6, s7, s8, s9, e, ?_, sp.2⟩
  have h := sp.1
  rw [valTmp_lit, valTmp_lit]
  simp only [P] at h ⊢
  omega

set_option maxHeartbeats 2000000 in
theorem elim_step1 (t0 t1 t2 t3 t4 t5 t6 t7 t8 t9 t10 t11 t12 t13 t14 t15 t16 t17 : U32)
    (h2 : t2.toNat ≤ 1610612607) (h3 : t3.toNat ≤ 1073741950) (h4 : t4.toNat ≤ 1073741823) (h5 : t5.toNat ≤ 1073741823) (h6 : t6.toNat ≤ 1073741823) (h7 : t7.toNat ≤ 1073741823) (h8 : t8.toNat ≤ 1342177279) (h9 : t9.toNat ≤ 1342177278) (h10 : t10.toNat ≤ 1073741823) :
    ∃ s0 s1 s2 s3 s4 s5 s6 s7 s8 s9 : U32, elimOdd #v[t0, t1, t2, t3, t4, t5, t6, t7, t8, t9, t10, t11, t12, t13, t14, t15, t16, t17] 1 = #v[t0, s0, s1, s2, s3, s4, s5, s6, s7, s8, s9, t11, t12, t13, t14, t15, t16, t17] ∧
      valTmp #v[t0, s0, s1, s2, s3, s4, s5, s6, s7, s8, s9, t11, t12, t13, t14, t15, t16, t17] = valTmp #v[t0, t1, t2, t3, t4, t5, t6, t7, t8, t9, t10, t11, t12, t13, t14, t15, t16, t17] + (t1.toNat % 268435456) * 2 ^ 29 * P ∧
      s0.toNat = 0 ∧ s1.toNat ≤ 1610612622 ∧ s2.toNat ≤ 1342177278 ∧ s3.toNat ≤ 1073741950 ∧ s4.toNat ≤ 1073741823 ∧ s5.toNat ≤ 1073741823 ∧ s6.toNat ≤ 1073741823 ∧ s7.toNat ≤ 1342177279 ∧ s8.toNat ≤ 1342177278 ∧ s9.toNat ≤ 1342177278 := by
  have e : elimOdd #v[t0, t1, t2, t3, t4, t5, t6, t7, t8, t9, t10, t11, t12, t13, t14, t15, t16, t17] 1 =
      (let w := rdOdd ⟨t1, t2, t3, t4, t5, t6, t7, t8, t9, t10⟩
       #v[t0, w.t0, w.t1, w.t2, w.t3, w.t4, w.t5, w.t6, w.t7, w.t8, w.t9, t11, t12, t13, t14, t15, t16, t17]) := rfl
  have sp := rdOdd_spec ⟨t1, t2, t3, t4, t5, t6, t7, t8, t9, t10⟩ 1610612607 1073741950 1073741823 1073741823 1073741823 1073741823 1342177279 1342177278 1073741823
    h2 h3 h4 h5 h6 h7 h8 h9 h10
    (by omega) (by omega) (by omega) (by omega) (by omega) (by omega) (by omega) (by omega) (by omega) (by omega) (by omega) (by omega) (by omega) (by omega) (by omega)
  generalize rdOdd ⟨t1, t2, t3, t4, t5, t6, t7, t8, t9, t10⟩ = w at e sp
  obtain ⟨s0, s1, s2, s3, s4, s5, s6, s7, s8, s9⟩ := w
  dsimp only [winValO] at e sp
  refine ⟨s0, s1, s2, s3, s4, s5, s6, s7, s8, s9, e, ?_, sp.2⟩
  have h := sp.1
  rw [valTmp_lit, valTmp_lit]
  simp only [P] at h ⊢
  omega

set_option maxHeartbeats 2000000 in
theorem elim_step2 (t0 t1 t2 t3 t4 t5 t6 t7 t8 t9 t10 t11 t12 t13 t14 t15 t16 t17 : U32)
    (h3 : t3.toNat ≤ 1342177278) (h4 : t4.toNat ≤ 1073741950) (h5 : t5.toNat ≤ 1073741823) (h6 : t6.toNat ≤ 1073741823) (h7 : t7.toNat ≤ 1073741823) (h8 : t8.toNat ≤ 1342177279) (h9 : t9.toNat ≤ 1342177278) (h10 : t10.toNat ≤ 1342177278) (h11 : t11.toNat ≤ 1073741823) :
    ∃ s0 s1 s2 s3 s4 s5 s6 s7 s8 s9 : U32, elimEven true #v[t0, t1, t2, t3, t4, t5, t6, t7, t8, t9, t10, t11, t12, t13, t14, t15, t16, t17] 2 = #v[t0, t1, s0, s1, s2, s3, s4, s5, s6, s7, s8, s9, t12, t13, t14, t15, t16, t17] ∧
      valTmp #v[t0, t1, s0, s1, s2, s3, s4, s5, s6, s7, s8, s9, t12, t13, t14, t15, t16, t17] = valTmp #v[t0, t1, t2, t3, t4, t5, t6, t7, t8, t9, t10, t11, t12, t13, t14, t15, t16, t17] + (t2.toNat % 536870912) * 2 ^ 57 * P ∧
      s0.toNat = 0 ∧ s1.toNat ≤ 1342177285 ∧ s2.toNat ≤ 1610612734 ∧ s3.toNat ≤ 1073741950 ∧ s4.toNat ≤ 1073741823 ∧ s5.toNat ≤ 1073741823 ∧ s6.toNat ≤ 1342177279 ∧ s7.toNat ≤ 1342177278 ∧ s8.toNat ≤ 1610612734 ∧ s9.toNat ≤ 1342177278 := by
  have e : elimEven true #v[t0, t1, t2, t3, t4, t5, t6, t7, t8, t9, t10, t11, t12, t13, t14, t15, t16, t17] 2 =
      (let w := rdEven true ⟨t2, t3, t4, t5, t6, t7, t8, t9, t10, t11⟩
       #v[t0, t1, w.t0, w.t1, w.t2, w.t3, w.t4, w.t5, w.t6, w.t7, w.t8, w.t9, t12, t13, t14, t15, t16, t17]) := rfl
  have sp := rdEven_spec ⟨t2, t3, t4, t5, t6, t7, t8, t9, t10, t11⟩ 1342177278 1073741950 1073741823 1073741823 1073741823 1342177279 1342177278 1342177278 1073741823
    h3 h4 h5 h6 h7 h8 h9 h10 h11
    (by omega) (by omega) (by omega) (by omega) (by omega) (by omega) (by omega) (by omega) (by omega) (by omega) (by omega) (by omega) (by omega) (by omega) (by omega)
  generalize rdEven true ⟨t2, t3, t4, t5, t6, t7, t8, t9, t10, t11⟩ = w at e sp
  obtain ⟨s0, s1, s2, s3, s4, s5, s6, s7, s8, s9⟩ := w
  dsimp only [winValE] at e sp
  refine ⟨s0, s1, s2, s3, s4, s5, s6, s7, s8, s9, e, ?_, sp.2⟩
  have h := sp.1
  rw [valTmp_lit, valTmp_lit]
  simp only [P] at h ⊢
  omega

set_option maxHeartbeats 2000000 in
theorem elim_step3 (t0 t1 t2 t3 t4 t5 t6 t7 t8 t9 t10 t11 t12 t13 t14 t15 t16 t17 : U32)
    (h4 : t4.toNat ≤ 1610612734) (h5 : t5.toNat ≤ 1073741950) (h6 : t6.toNat ≤ 1073741823) (h7 : t7.toNat ≤ 1073741823) (h8 : t8.toNat ≤ 1342177279) (h9 : t9.toNat ≤ 1342177278) (h10 : t10.toNat ≤ 1610612734) (h11 : t11.toNat ≤ 1342177278) (h12 : t12.toNat ≤ 1073741823) :
    ∃ s0 s1 s2 s3 s4 s5 s6 s7 s8 s9 : U32, elimOdd #v[t0, t1, t2, t3, t4, t5, t6, t7, t8, t9, t10, t11, t12, t13, t14, t15, t16, t17] 3 = #v[t0, t1, t2, s0, s1, s2, s3, s4, s5, s6, s7, s8, s9, t13, t14, t15, t16, t17] ∧
      valTmp #v[t0, t1, t2, s0, s1, s2, s3, s4, s5, s6, s7, s8, s9, t13, t14, t15, t16, t17] = valTmp #v[t0, t1, t2, t3, t4, t5, t6, t7, t8, t9, t10, t11, t12, t13, t14, t15, t16, t17] + (t3.toNat % 268435456) * 2 ^ 86 * P ∧
      s0.toNat = 0 ∧ s1.toNat ≤ 1610612749 ∧ s2.toNat ≤ 1342177278 ∧ s3.toNat ≤ 1073741950 ∧ s4.toNat ≤ 1073741823 ∧ s5.toNat ≤ 1342177279 ∧ s6.toNat ≤ 1342177278 ∧ s7.toNat ≤ 1610612734 ∧ s8.toNat ≤ 1342177278 ∧ s9.toNat ≤ 1342177278 := by
  have e : elimOdd #v[t0, t1, t2, t3, t4, t5, t6, t7, t8, t9, t10, t11, t12, t13, t14, t15, t16, t17] 3 =
      (let w := rdOdd ⟨t3, t4, t5, t6, t7, t8, t9, t10, t11, t12⟩
       #v[t0, t1, t2, w.t0, w.t1, w.t2, w.t3, w.t4, w.t5, w.t6, w.t7, w.t8, w.t9, t13, t14, t15, t16, t17]) := rfl
  have sp := rdOdd_spec ⟨t3, t4, t5, t6, t7, t8, t9, t10, t11, t12⟩ 1610612734 1073741950 1073741823 1073741823 1342177279 1342177278 1610612734 1342177278 1073741823
    h4 h5 h6 h7 h8 h9 h10 h11 h12
    (by omega) (by omega) (by omega) (by omega) (by omega) (by omega) (by omega) (by omega) (by omega) (by omega) (by omega) (by omega) (by omega) (by omega) (by omega)
  generalize rdOdd ⟨t3, t4, t5, t6, t7, t8, t9, t10, t11, t12⟩ = w at e sp
  obtain ⟨s0, s1, s2, s3, s4, s5, s6, s7, s8, s9⟩ := w
  dsimp only [winValO] at e sp
  refine ⟨s0, s1, s2, s3, s4, s5, s6, s7, s8, s9, e, ?_, sp.2⟩
  have h := sp.1
  rw [valTmp_lit, valTmp_lit]
  simp only [P] at h ⊢
  omega

set_option maxHeartbeats 2000000 in
theorem elim_step4 (t0 t1 t2 t3 t4 t5 t6 t7 t8 t9 t10 t11 t12 t13 t14 t15 t16 t17 : U32)
    (h5 : t5.toNat ≤ 1342177278) (h6 : t6.toNat ≤ 1073741950) (h7 : t7.toNat ≤ 1073741823) (h8 : t8.toNat ≤ 1342177279) (h9 : t9.toNat ≤ 1342177278) (h10 : t10.toNat ≤ 1610612734) (h11 : t11.toNat ≤ 1342177278) (h12 : t12.toNat ≤ 1342177278) (h13 : t13.toNat ≤ 1073741823) :
    ∃ s0 s1 s2 s3 s4 s5 s6 s7 s8 s9 : U32, elimEven true #v[t0, t1, t2, t3, t4, t5, t6, t7, t8, t9, t10, t11, t12, t13, t14, t15, t16, t17] 4 = #v[t0, t1, t2, t3, s0, s1, s2, s3, s4, s5, s6, s7, s8, s9, t14, t15, t16, t17] ∧
      valTmp #v[t0, t1, t2, t3, s0, s1, s2, s3, s4, s5, s6, s7, s8, s9, t14, t15, t16, t17] = valTmp #v[t0, t1, t2, t3, t4, t5, t6, t7, t8, t9, t10, t11, t12, t13, t14, t15, t16, t17] + (t4.toNat % 536870912) * 2 ^ 114 * P ∧
      s0.toNat = 0 ∧ s1.toNat ≤ 1342177285 ∧ s2.toNat ≤ 1610612734 ∧ s3.toNat ≤ 1073741950 ∧ s4.toNat ≤ 1342177279 ∧ s5.toNat ≤ 1342177278 ∧ s6.toNat ≤ 1610612734 ∧ s7.toNat ≤ 1342177278 ∧ s8.toNat ≤ 1610612734 ∧ s9.toNat ≤ 1342177278 := by
  have e : elimEven true #v[t0, t1, t2, t3, t4, t5, t6, t7, t8, t9, t10, t11, t12, t13, t14, t15, t16, t17] 4 =
      (let w := rdEven true ⟨t4, t5, t6, t7, t8, t9, t10, t11, t12, t13⟩
       #v[t0, t1, t2, t3, w.t0, w.t1, w.t2, w.t3, w.t4, w.t5, w.t6, w.t7, w.t8, w.t9, t14, t15, t16, t17]) := rfl
  have sp := rdEven_spec ⟨t4, t5, t6, t7, t8, t9, t10, t11, t12, t13⟩ 1342177278 1073741950 1073741823 1342177279 1342177278 1610612734 1342177278 1342177278 1073741823
    h5 h6 h7 h8 h9 h10 h11 h12 h13
    (by omega) (by omega) (by omega) (by omega) (by omega) (by omega) (by omega) (by omega) (by omega) (by omega) (by omega) (by omega) (by omega) (by omega) (by omega)
  generalize rdEven true ⟨t4, t5, t6, t7, t8, t9, t10, t11, t12, t13⟩ = w at e sp
  obtain ⟨s0, s1, s2, s3, s4, s5, s6, s7, s8, s9⟩ := w
  dsimp only [winValE] at e sp
  refine ⟨s0, s1, s2, s3, s4, s5, s6, s7, s8, s9, e, ?_, sp.2⟩
  have h := sp.1
  rw [valTmp_lit, valTmp_lit]
  simp only [P] at h ⊢
  omega

set_option maxHeartbeats 2000000 in
theorem elim_step5 (t0 t1 t2 t3 t4 t5 t6 t7 t8 t9 t10 t11 t12 t13 t14 t15 t16 t17 : U32)
    (h6 : t6.toNat ≤ 1610612734) (h7 : t7.toNat ≤ 1073741950) (h8 : t8.toNat ≤ 1342177279) (h9 : t9.toNat ≤ 1342177278) (h10 : t10.toNat ≤ 1610612734) (h11 : t11.toNat ≤ 1342177278) (h12 : t12.toNat ≤ 1610612734) (h13 : t13.toNat ≤ 1342177278) (h14 : t14.toNat ≤ 1073741823) :
    ∃ s0 s1 s2 s3 s4 s5 s6 s7 s8 s9 : U32, elimOdd #v[t0, t1, t2, t3, t4, t5, t6, t7, t8, t9, t10, t11, t12, t13, t14, t15, t16, t17] 5 = #v[t0, t1, t2, t3, t4, s0, s1, s2, s3, s4, s5, s6, s7, s8, s9, t15, t16, t17] ∧
      valTmp #v[t0, t1, t2, t3, t4, s0, s1, s2, s3, s4, s5, s6, s7, s8, s9, t15, t16, t17] = valTmp #v[t0, t1, t2, t3, t4, t5, t6, t7, t8, t9, t10, t11, t12, t13, t14, t15, t16, t17] + (t5.toNat % 268435456) * 2 ^ 143 * P ∧
      s0.toNat = 0 ∧ s1.toNat ≤ 1610612749 ∧ s2.toNat ≤ 1342177278 ∧ s3.toNat ≤ 1342177406 ∧ s4.toNat ≤ 1342177278 ∧ s5.toNat ≤ 1610612734 ∧ s6.toNat ≤ 1342177278 ∧ s7.toNat ≤ 1610612734 ∧ s8.toNat ≤ 1342177278 ∧ s9.toNat ≤ 1342177278 := by
  have e : elimOdd #v[t0, t1, t2, t3, t4, t5, t6, t7, t8, t9, t10, t11, t12, t13, t14, t15, t16, t17] 5 =
      (let w := rdOdd ⟨t5, t6, t7, t8, t9, t10, t11, t12, t13, t14⟩
       #v[t0, t1, t2, t3, t4, w.t0, w.t1, w.t2, w.t3, w.t4, w.t5, w.t6, w.t7, w.t8, w.t9, t15, t16, t17]) := rfl
  have sp := rdOdd_spec ⟨t5, t6, t7, t8, t9, t10, t11, t12, t13, t14⟩ 1610612734 1073741950 1342177279 1342177278 1610612734 1342177278 1610612734 1342177278 1073741823
    h6 h7 h8 h9 h10 h11 h12 h13 h14
    (by omega) (by omega) (by omega) (by omega) (by omega) (by omega) (by omega) (by omega) (by omega) (by omega) (by omega) (by omega) (by omega) (by omega) (by omega)
  generalize rdOdd ⟨t5, t6, t7, t8, t9, t10, t11, t12, t13, t14⟩ = w at e sp
  obtain ⟨s0, s1, s2, s3, s4, s5, s6, s7, s8, s9⟩ := w
  dsimp only [winValO] at e sp
  refine ⟨s0, s1, s2, s3, s4, s5, s6, s7, s8, s9, e, ?_, sp.2⟩
  have h := sp.1
  rw [valTmp_lit, valTmp_lit]
  simp only [P] at h ⊢
  omega

set_option maxHeartbeats 2000000 in
theorem elim_step6 (t0 t1 t2 t3 t4 t5 t6 t7 t8 t9 t10 t11 t12 t13 t14 t15 t16 t17 : U32)
    (h7 : t7.toNat ≤ 1342177278) (h8 : t8.toNat ≤ 1342177406) (h9 : t9.toNat ≤ 1342177278) (h10 : t10.toNat ≤ 1610612734) (h11 : t11.toNat ≤ 1342177278) (h12 : t12.toNat ≤ 1610612734) (h13 : t13.toNat ≤ 1342177278) (h14 : t14.toNat ≤ 1342177278) (h15 : t15.toNat ≤ 1073741823) :
    ∃ s0 s1 s2 s3 s4 s5 s6 s7 s8 s9 : U32, elimEven true #v[t0, t1, t2, t3, t4, t5, t6, t7, t8, t9, t10, t11, t12, t13, t14, t15, t16, t17] 6 = #v[t0, t1, t2, t3, t4, t5, s0, s1, s2, s3, s4, s5, s6, s7, s8, s9, t16, t17] ∧
      valTmp #v[t0, t1, t2, t3, t4, t5, s0, s1, s2, s3, s4, s5, s6, s7, s8, s9, t16, t17] = valTmp #v[t0, t1, t2, t3, t4, t5, t6, t7, t8, t9, t10, t11, t12, t13, t14, t15, t16, t17] + (t6.toNat % 536870912) * 2 ^ 171 * P ∧
      s0.toNat = 0 ∧ s1.toNat ≤ 1342177285 ∧ s2.toNat ≤ 1879048190 ∧ s3.toNat ≤ 1342177405 ∧ s4.toNat ≤ 1610612734 ∧ s5.toNat ≤ 1342177278 ∧ s6.toNat ≤ 1610612734 ∧ s7.toNat ≤ 1342177278 ∧ s8.toNat ≤ 1610612734 ∧ s9.toNat ≤ 1342177278 := by
  have e : elimEven true #v[t0, t1, t2, t3, t4, t5, t6, t7, t8, t9, t10, t11, t12, t13, t14, t15, t16, t17] 6 =
      (let w := rdEven true ⟨t6, t7, t8, t9, t10, t11, t12, t13, t14, t15⟩
       #v[t0, t1, t2, t3, t4, t5, w.t0, w.t1, w.t2, w.t3, w.t4, w.t5, w.t6, w.t7, w.t8, w.t9, t16, t17]) := rfl
  have sp := rdEven_spec ⟨t6, t7, t8, t9, t10, t11, t12, t13, t14, t15⟩ 1342177278 1342177406 1342177278 1610612734 1342177278 1610612734 1342177278 1342177278 1073741823
    h7 h8 h9 h10 h11 h12 h13 h14 h15
    (by omega) (by omega) (by omega) (by omega) (by omega) (by omega) (by omega) (by omega) (by omega) (by omega) (by omega) (by omega) (by omega) (by omega) (by omega)
  generalize rdEven true ⟨t6, t7, t8, t9, t10, t11, t12, t13, t14, t15⟩ = w at e sp
  obtain ⟨s0, s1, s2, s3, s4, s5, s6, s7, s8, s9⟩ := w
  dsimp only [winValE] at e sp
  refine ⟨s0, s1, s2, s3, s4, s5, s6, s7, s8, s9, e, ?_, sp.2⟩
  have h := sp.1
  rw [valTmp_lit, valTmp_lit]
  simp only [P] at h ⊢
  omega

set_option maxHeartbeats 2000000 in
theorem elim_step7 (t0 t1 t2 t3 t4 t5 t6 t7 t8 t9 t10 t11 t12 t13 t14 t15 t16 t17 : U32)
    (h8 : t8.toNat ≤ 1879048190) (h9 : t9.toNat ≤ 1342177405) (h10 : t10.toNat ≤ 1610612734) (h11 : t11.toNat ≤ 1342177278) (h12 : t12.toNat ≤ 1610612734) (h13 : t13.toNat ≤ 1342177278) (h14 : t14.toNat ≤ 1610612734) (h15 : t15.toNat ≤ 1342177278) (h16 : t16.toNat ≤ 1073741823) :
    ∃ s0 s1 s2 s3 s4 s5 s6 s7 s8 s9 : U32, elimOdd #v[t0, t1, t2, t3, t4, t5, t6, t7, t8, t9, t10, t11, t12, t13, t14, t15, t16, t17] 7 = #v[t0, t1, t2, t3, t4, t5, t6, s0, s1, s2, s3, s4, s5, s6, s7, s8, s9, t17] ∧
      valTmp #v[t0, t1, t2, t3, t4, t5, t6, s0, s1, s2, s3, s4, s5, s6, s7, s8, s9, t17] = valTmp #v[t0, t1, t2, t3, t4, t5, t6, t7, t8, t9, t10, t11, t12, t13, t14, t15, t16, t17] + (t7.toNat % 268435456) * 2 ^ 200 * P ∧
      s0.toNat = 0 ∧ s1.toNat ≤ 1879048205 ∧ s2.toNat ≤ 1610612733 ∧ s3.toNat ≤ 1610612861 ∧ s4.toNat ≤ 1342177278 ∧ s5.toNat ≤ 1610612734 ∧ s6.toNat ≤ 1342177278 ∧ s7.toNat ≤ 1610612734 ∧ s8.toNat ≤ 1342177278 ∧ s9.toNat ≤ 1342177278 := by
  have e : elimOdd #v[t0, t1, t2, t3, t4, t5, t6, t7, t8, t9, t10, t11, t12, t13, t14, t15, t16, t17] 7 =
      (let w := rdOdd ⟨t7, t8, t9, t10, t11, t12, t13, t14, t15, t16⟩
       #v[t0, t1, t2, t3, t4, t5, t6, w.t0, w.t1, w.t2, w.t3, w.t4, w.t5, w.t6, w.t7, w.t8, w.t9, t17]) := rfl
  have sp := rdOdd_spec ⟨t7, t8, t9, t10, t11, t12, t13, t14, t15, t16⟩ 1879048190 1342177405 1610612734 1342177278 1610612734 1342177278 1610612734 1342177278 1073741823
    h8 h9 h10 h11 h12 h13 h14 h15 h16
    (by omega) (by omega) (by omega) (by omega) (by omega) (by omega) (by omega) (by omega) (by omega) (by omega) (by omega) (by omega) (by omega) (by omega) (by omega)
  generalize rdOdd ⟨t7, t8, t9, t10, t11, t12, t13, t14, t15, t16⟩ = w at e sp
  obtain ⟨s0, s1, s2, s3, s4, s5, s6, s7, s8, s9⟩ := w
  dsimp only [winValO] at e sp
  refine ⟨s0, s1, s2, s3, s4, s5, s6, s7, s8, s9, e, ?_, sp.2⟩
  have h := sp.1
  rw [valTmp_lit, valTmp_lit]
  simp only [P] at h ⊢
  omega

set_option maxHeartbeats 2000000 in
theorem elim_step8 (t0 t1 t2 t3 t4 t5 t6 t7 t8 t9 t10 t11 t12 t13 t14 t15 t16 t17 : U32)
    (h9 : t9.toNat ≤ 1610612733) (h10 : t10.toNat ≤ 1610612861) (h11 : t11.toNat ≤ 1342177278) (h12 : t12.toNat ≤ 1610612734) (h13 : t13.toNat ≤ 1342177278) (h14 : t14.toNat ≤ 1610612734) (h15 : t15.toNat ≤ 1342177278) (h16 : t16.toNat ≤ 1342177278) (h17 : t17.toNat ≤ 2147483903) :
    ∃ s0 s1 s2 s3 s4 s5 s6 s7 s8 s9 : U32, elimEven true #v[t0, t1, t2, t3, t4, t5, t6, t7, t8, t9, t10, t11, t12, t13, t14, t15, t16, t17] 8 = #v[t0, t1, t2, t3, t4, t5, t6, t7, s0, s1, s2, s3, s4, s5, s6, s7, s8, s9] ∧
      valTmp #v[t0, t1, t2, t3, t4, t5, t6, t7, s0, s1, s2, s3, s4, s5, s6, s7, s8, s9] = valTmp #v[t0, t1, t2, t3, t4, t5, t6, t7, t8, t9, t10, t11, t12, t13, t14, t15, t16, t17] + (t8.toNat % 536870912) * 2 ^ 228 * P ∧
      s0.toNat = 0 ∧ s1.toNat ≤ 1610612740 ∧ s2.toNat ≤ 2147483645 ∧ s3.toNat ≤ 1342177405 ∧ s4.toNat ≤ 1610612734 ∧ s5.toNat ≤ 1342177278 ∧ s6.toNat ≤ 1610612734 ∧ s7.toNat ≤ 1342177278 ∧ s8.toNat ≤ 1610612734 ∧ s9.toNat ≤ 2415919358 := by
  have e : elimEven true #v[t0, t1, t2, t3, t4, t5, t6, t7, t8, t9, t10, t11, t12, t13, t14, t15, t16, t17] 8 =
      (let w := rdEven true ⟨t8, t9, t10, t11, t12, t13, t14, t15, t16, t17⟩
       #v[t0, t1, t2, t3, t4, t5, t6, t7, w.t0, w.t1, w.t2, w.t3, w.t4, w.t5, w.t6, w.t7, w.t8, w.t9]) := rfl
  have sp := rdEven_spec ⟨t8, t9, t10, t11, t12, t13, t14, t15, t16, t17⟩ 1610612733 1610612861 1342177278 1610612734 1342177278 1610612734 1342177278 1342177278 2147483903
    h9 h10 h11 h12 h13 h14 h15 h16 h17
    (by omega) (by omega) (by omega) (by omega) (by omega) (by omega) (by omega) (by omega) (by omega) (by omega) (by omega) (by omega) (by omega) (by omega) (by omega)
  generalize rdEven true ⟨t8, t9, t10, t11, t12, t13, t14, t15, t16, t17⟩ = w at e sp
  obtain ⟨s0, s1, s2, s3, s4, s5, s6, s7, s8, s9⟩ := w
  dsimp only [winValE] at e sp
  refine ⟨s0, s1, s2, s3, s4, s5, s6, s7, s8, s9, e, ?_, sp.2⟩
  have h := sp.1
  rw [valTmp_lit, valTmp_lit]
  simp only [P] at h ⊢
  omega

set_option maxHeartbeats 2000000 in
/-- the elimination loop (repaired source): for words within the bounds `repack` guarantees, the nine steps
    clear words 0..8, only add multiples of p to the weighted sum, and never wrap a word -/
theorem eliminate_lit (t0 t1 t2 t3 t4 t5 t6 t7 t8 t9 t10 t11 t12 t13 t14 t15 t16 t17 : U32)
    (_h0 : t0.toNat ≤ 1073741823) (h1 : t1.toNat ≤ 1073741823) (h2 : t2.toNat ≤ 1073741823) (h3 : t3.toNat ≤ 1073741823) (h4 : t4.toNat ≤ 1073741823) (h5 : t5.toNat ≤ 1073741823) (h6 : t6.toNat ≤ 1073741823) (h7 : t7.toNat ≤ 1073741823) (h8 : t8.toNat ≤ 1073741823) (h9 : t9.toNat ≤ 1073741823) (h10 : t10.toNat ≤ 1073741823) (h11 : t11.toNat ≤ 1073741823) (h12 : t12.toNat ≤ 1073741823) (h13 : t13.toNat ≤ 1073741823) (h14 : t14.toNat ≤ 1073741823) (h15 : t15.toNat ≤ 1073741823) (h16 : t16.toNat ≤ 1073741823) (h17 : t17.toNat ≤ 2147483903) :
    ∃ s9 s10 s11 s12 s13 s14 s15 s16 s17 : U32, eliminate true #v[t0, t1, t2, t3, t4, t5, t6, t7, t8, t9, t10, t11, t12, t13, t14, t15, t16, t17] = #v[0, 0, 0, 0, 0, 0, 0, 0, 0, s9, s10, s11, s12, s13, s14, s15, s16, s17] ∧
      valTmp #v[0, 0, 0, 0, 0, 0, 0, 0, 0, s9, s10, s11, s12, s13, s14, s15, s16, s17] % P = valTmp #v[t0, t1, t2, t3, t4, t5, t6, t7, t8, t9, t10, t11, t12, t13, t14, t15, t16, t17] % P ∧
      s9.toNat ≤ 1610612740 ∧ s10.toNat ≤ 2147483645 ∧ s11.toNat ≤ 1342177405 ∧ s12.toNat ≤ 1610612734 ∧ s13.toNat ≤ 1342177278 ∧ s14.toNat ≤ 1610612734 ∧ s15.toNat ≤ 1342177278 ∧ s16.toNat ≤ 1610612734 ∧ s17.toNat ≤ 2415919358 := by
  have e : eliminate true #v[t0, t1, t2, t3, t4, t5, t6, t7, t8, t9, t10, t11, t12, t13, t14, t15, t16, t17] =
      elimEven true (elimOdd (elimEven true (elimOdd (elimEven true (elimOdd (elimEven true (elimOdd (elimEven true
        #v[t0, t1, t2, t3, t4, t5, t6, t7, t8, t9, t10, t11, t12, t13, t14, t15, t16, t17] 0) 1) 2) 3) 4) 5) 6) 7) 8 := rfl
  rw [e]; clear e
  obtain ⟨x0_0, x0_1, x0_2, x0_3, x0_4, x0_5, x0_6, x0_7, x0_8, x0_9, e0, v0, z0, b0_1, b0_2, b0_3, b0_4, b0_5, b0_6, b0_7, b0_8, b0_9⟩ := elim_step0 t0 t1 t2 t3 t4 t5 t6 t7 t8 t9 t10 t11 t12 t13 t14 t15 t16 t17 h1 h2 h3 h4 h5 h6 h7 h8 h9
  rw [e0]; clear e0
  have m0 := congrArg (· % P) v0; simp only [← Nat.mul_assoc, Nat.add_mul_mod_self_right] at m0; clear v0
  have zz0 : x0_0 = 0 := BitVec.eq_of_toNat_eq z0
  subst zz0
  obtain ⟨x1_0, x1_1, x1_2, x1_3, x1_4, x1_5, x1_6, x1_7, x1_8, x1_9, e1, v1, z1, b1_1, b1_2, b1_3, b1_4, b1_5, b1_6, b1_7, b1_8, b1_9⟩ := elim_step1 0 x0_1 x0_2 x0_3 x0_4 x0_5 x0_6 x0_7 x0_8 x0_9 t10 t11 t12 t13 t14 t15 t16 t17 b0_2 b0_3 b0_4 b0_5 b0_6 b0_7 b0_8 b0_9 h10
  rw [e1]; clear e1
  have m1 := congrArg (· % P) v1; simp only [← Nat.mul_assoc, Nat.add_mul_mod_self_right] at m1; clear v1
  have zz1 : x1_0 = 0 := BitVec.eq_of_toNat_eq z1
  subst zz1
  obtain ⟨x2_0, x2_1, x2_2, x2_3, x2_4, x2_5, x2_6, x2_7, x2_8, x2_9, e2, v2, z2, b2_1, b2_2, b2_3, b2_4, b2_5, b2_6, b2_7, b2_8, b2_9⟩ := elim_step2 0 0 x1_1 x1_2 x1_3 x1_4 x1_5 x1_6 x1_7 x1_8 x1_9 t11 t12 t13 t14 t15 t16 t17 b1_2 b1_3 b1_4 b1_5 b1_6 b1_7 b1_8 b1_9 h11
  rw [e2]; clear e2
  have m2 := congrArg (· % P) v2; simp only [← Nat.mul_assoc, Nat.add_mul_mod_self_right] at m2; clear v2
  have zz2 : x2_0 = 0 := BitVec.eq_of_toNat_eq z2
  subst zz2
  obtain ⟨x3_0, x3_1, x3_2, x3_3, x3_4, x3_5, x3_6, x3_7, x3_8, x3_9, e3, v3, z3, b3_1, b3_2, b3_3, b3_4, b3_5, b3_6, b3_7, b3_8, b3_9⟩ := elim_step3 0 0 0 x2_1 x2_2 x2_3 x2_4 x2_5 x2_6 x2_7 x2_8 x2_9 t12 t13 t14 t15 t16 t17 b2_2 b2_3 b2_4 b2_5 b2_6 b2_7 b2_8 b2_9 h12
  rw [e3]; clear e3
  have m3 := congrArg (· % P) v3; simp only [← Nat.mul_assoc, Nat.add_mul_mod_self_right] at m3; clear v3
  have zz3 : x3_0 = 0 := BitVec.eq_of_toNat_eq z3
  subst zz3
  obtain ⟨x4_0, x4_1, x4_2, x4_3, x4_4, x4_5, x4_6, x4_7, x4_8, x4_9, e4, v4, z4, b4_1, b4_2, b4_3, b4_4, b4_5, b4_6, b4_7, b4_8, b4_9⟩ := elim_step4 0 0 0 0 x3_1 x3_2 x3_3 x3_4 x3_5 x3_6 x3_7 x3_8 x3_9 t13 t14 t15 t16 t17 b3_2 b3_3 b3_4 b3_5 b3_6 b3_7 b3_8 b3_9 h13
  rw [e4]; clear e4
  have m4 := congrArg (· % P) v4; simp only [← Nat.mul_assoc, Nat.add_mul_mod_self_right] at m4; clear v4
  have zz4 : x4_0 = 0 := BitVec.eq_of_toNat_eq z4
  subst zz4
  obtain ⟨x5_0, x5_1, x5_2, x5_3, x5_4, x5_5, x5_6, x5_7, x5_8, x5_9, e5, v5, z5, b5_1, b5_2, b5_3, b5_4, b5_5, b5_6, b5_7, b5_8, b5_9⟩ := elim_step5 0 0 0 0 0 x4_1 x4_2 x4_3 x4_4 x4_5 x4_6 x4_7 x4_8 x4_9 t14 t15 t16 t17 b4_2 b4_3 b4_4 b4_5 b4_6 b4_7 b4_8 b4_9 h14
  rw [e5]; clear e5
  have m5 := congrArg (· % P) v5; simp only [← Nat.mul_assoc, Nat.add_mul_mod_self_right] at m5; clear v5
  have zz5 : x5_0 = 0 := BitVec.eq_of_toNat_eq z5
  subst zz5
  obtain ⟨x6_0, x6_1, x6_2, x6_3, x6_4, x6_5, x6_6, x6_7, x6_8, x6_9, e6, v6, z6, b6_1, b6_2, b6_3, b6_4, b6_5, b6_6, b6_7, b6_8, b6_9⟩ := elim_step6 0 0 0 0 0 0 x5_1 x5_2 x5_3 x5_4 x5_5 x5_6 x5_7 x5_8 x5_9 t15 t16 t17 b5_2 b5_3 b5_4 b5_5 b5_6 b5_7 b5_8 b5_9 h15
  rw [e6]; clear e6
  have m6 := congrArg (· % P) v6; simp only [← Nat.mul_assoc, Nat.add_mul_mod_self_right] at m6; clear v6
  have zz6 : x6_0 = 0 := BitVec.eq_of_toNat_eq z6
  subst zz6
  obtain ⟨x7_0, x7_1, x7_2, x7_3, x7_4, x7_5, x7_6, x7_7, x7_8, x7_9, e7, v7, z7, b7_1, b7_2, b7_3, b7_4, b7_5, b7_6, b7_7, b7_8, b7_9⟩ := elim_step7 0 0 0 0 0 0 0 x6_1 x6_2 x6_3 x6_4 x6_5 x6_6 x6_7 x6_8 x6_9 t16 t17 b6_2 b6_3 b6_4 b6_5 b6_6 b6_7 b6_8 b6_9 h16
  rw [e7]; clear e7
  have m7 := congrArg (· % P) v7; simp only [← Nat.mul_assoc, Nat.add_mul_mod_self_right] at m7; clear v7
  have zz7 : x7_0 = 0 := BitVec.eq_of_toNat_eq z7
  subst zz7
  obtain ⟨x8_0, x8_1, x8_2, x8_3, x8_4, x8_5, x8_6, x8_7, x8_8, x8_9, e8, v8, z8, b8_1, b8_2, b8_3, b8_4, b8_5, b8_6, b8_7, b8_8, b8_9⟩ := elim_step8 0 0 0 0 0 0 0 0 x7_1 x7_2 x7_3 x7_4 x7_5 x7_6 x7_7 x7_8 x7_9 t17 b7_2 b7_3 b7_4 b7_5 b7_6 b7_7 b7_8 b7_9 h17
  rw [e8]; clear e8
  have m8 := congrArg (· % P) v8; simp only [← Nat.mul_assoc, Nat.add_mul_mod_self_right] at m8; clear v8
  have zz8 : x8_0 = 0 := BitVec.eq_of_toNat_eq z8
  subst zz8
  refine ⟨x8_1, x8_2, x8_3, x8_4, x8_5, x8_6, x8_7, x8_8, x8_9, rfl, ?_, b8_1, b8_2, b8_3, b8_4, b8_5, b8_6, b8_7, b8_8, b8_9⟩
  rw [m8, m7, m6, m5, m4, m3, m2, m1, m0]

-- (e) sm2P256ReduceDegree: the last loop and the theorem --------------------------------------------------------------

theorem outEven_spec (t9 t10 c : U32) (h9 : t9.toNat ≤ 3000000000) (hc : c.toNat ≤ 16) :
    (outEven t9 t10 c).1.toNat = (t9.toNat + c.toNat + t10.toNat % 2 * 268435456) % 536870912 ∧
    (outEven t9 t10 c).2.toNat = (t9.toNat + c.toNat + t10.toNat % 2 * 268435456) / 536870912 := by
  unfold outEven
  dsimp only
  have e : (t9 + c + (t10 <<< 28 &&& bottom29Bits)).toNat = t9.toNat + c.toNat + t10.toNat % 2 * 268435456 := by
    bvexact
  rw [and29, shr32, e]
  exact ⟨rfl, rfl⟩

theorem outOdd_spec (t9 c : U32) (hc : c.toNat ≤ 16) :
    (outOdd t9 c).1.toNat = (t9.toNat / 2 + c.toNat) % 268435456 ∧
    (outOdd t9 c).2.toNat = (t9.toNat / 2 + c.toNat) / 268435456 := by
  unfold outOdd
  dsimp only
  have := lt32 t9
  have e : (t9 >>> 1 + c).toNat = t9.toNat / 2 + c.toNat := by bvexact
  rw [and28, shr32, e]
  exact ⟨rfl, rfl⟩

set_option maxHeartbeats 2000000 in
/-- the last loop of `sm2P256ReduceDegree`: with words 0..8 cleared, the nine upper words (weights
    2^257·(1, 2^28, 2^57, …)) are repacked into canonical limbs and a carry < 8:
    `(value a + carry·2^257)·2^257 = Σ tmp` -/
theorem outChain_lit (s9 s10 s11 s12 s13 s14 s15 s16 s17 : U32)
    (h9 : s9.toNat ≤ 3000000000) (h10 : s10.toNat ≤ 3000000000) (h11 : s11.toNat ≤ 3000000000)
    (h12 : s12.toNat ≤ 3000000000) (h13 : s13.toNat ≤ 3000000000) (h14 : s14.toNat ≤ 3000000000)
    (h15 : s15.toNat ≤ 3000000000) (h16 : s16.toNat ≤ 3000000000) (h17 : s17.toNat ≤ 3000000000) :
    let r := outChain #v[0, 0, 0, 0, 0, 0, 0, 0, 0, s9, s10, s11, s12, s13, s14, s15, s16, s17]
    (value r.1 + r.2.toNat * 2 ^ 257) * 2 ^ 257
      = valTmp #v[0, 0, 0, 0, 0, 0, 0, 0, 0, s9, s10, s11, s12, s13, s14, s15, s16, s17] ∧
    Canon r.1 ∧ r.2.toNat < 8 := by
  have hr : ∃ r0 r1 r2 r3 r4 r5 r6 r7 a8, r0 = outEven s9 s10 0 ∧ r1 = outOdd s10 r0.2 ∧
      r2 = outEven s11 s12 r1.2 ∧ r3 = outOdd s12 r2.2 ∧ r4 = outEven s13 s14 r3.2 ∧ r5 = outOdd s14 r4.2 ∧
      r6 = outEven s15 s16 r5.2 ∧ r7 = outOdd s16 r6.2 ∧ a8 = s17 + r7.2 ∧
      outChain #v[0, 0, 0, 0, 0, 0, 0, 0, 0, s9, s10, s11, s12, s13, s14, s15, s16, s17] =
        (#v[r0.1, r1.1, r2.1, r3.1, r4.1, r5.1, r6.1, r7.1, a8 &&& bottom29Bits], a8 >>> 29) :=
    ⟨_, _, _, _, _, _, _, _, _, rfl, rfl, rfl, rfl, rfl, rfl, rfl, rfl, rfl, rfl⟩
  obtain ⟨r0, r1, r2, r3, r4, r5, r6, r7, a8, e0, e1, e2, e3, e4, e5, e6, e7, e8, e⟩ := hr
  intro r
  have er : r = (#v[r0.1, r1.1, r2.1, r3.1, r4.1, r5.1, r6.1, r7.1, a8 &&& bottom29Bits], a8 >>> 29) := e
  clear_value r
  subst er
  clear e
  have z : (0 : U32).toNat = 0 := rfl
  have := lt32 s10; have := lt32 s12; have := lt32 s14; have := lt32 s16
  have p0 := outEven_spec s9 s10 0 h9 (by omega); rw [← e0] at p0
  have p1 := outOdd_spec s10 r0.2 (by omega); rw [← e1] at p1
  have p2 := outEven_spec s11 s12 r1.2 h11 (by omega); rw [← e2] at p2
  have p3 := outOdd_spec s12 r2.2 (by omega); rw [← e3] at p3
  have p4 := outEven_spec s13 s14 r3.2 h13 (by omega); rw [← e4] at p4
  have p5 := outOdd_spec s14 r4.2 (by omega); rw [← e5] at p5
  have p6 := outEven_spec s15 s16 r5.2 h15 (by omega); rw [← e6] at p6
  have p7 := outOdd_spec s16 r6.2 (by omega); rw [← e7] at p7
  have p8 : a8.toNat = s17.toNat + r7.2.toNat := by rw [e8]; bvexact
  clear e0 e1 e2 e3 e4 e5 e6 e7 e8
  dsimp only
  rw [value_lit, valTmp_lit, canon_lit, and29, shr32]
  simp only [z, Nat.reducePow]
  have := lt32 a8
  omega

/-- what `sm2P256ReduceDegree` needs of its input is `LargeOK`: b[16] < 2^60 (all other words arbitrary).

    (e) `sm2P256ReduceDegree` (repaired source, commit f1a1e85) is a Montgomery reduction:
    `value out · R ≡ Σ b[i]·2^off_i (mod p)`, with the output within the bounds even < 2^30, odd < 2^29.
    Along the way (the lemmas `repack_lit`, `elim_step0..8`, `eliminate_lit`, `outChain_lit`): no 32-bit
    operation of the function wraps around, every word of `tmp` stays a true non-negative integer, each
    elimination step adds exactly x·p·2^off. -/
theorem reduceDegree_ok (b : Large) (hb : LargeOK b) :
    value (reduceDegree b) * R % P = valueLarge b % P ∧ InBounds (reduceDegree b) := by
  obtain ⟨b0, b1, b2, b3, b4, b5, b6, b7, b8, b9, b10, b11, b12, b13, b14, b15, b16, rfl⟩ := exists_lit17 b
  have h16 : b16.toNat < 2 ^ 60 := hb
  obtain ⟨t0, t1, t2, t3, t4, t5, t6, t7, t8, t9, t10, t11, t12, t13, t14, t15, t16, t17, e1, v1, c0, c1, c2, c3, c4,
    c5, c6, c7, c8, c9, c10, c11, c12, c13, c14, c15, c16, c17⟩ := repack_lit b0 b1 b2 b3 b4 b5 b6 b7 b8 b9 b10 b11
      b12 b13 b14 b15 b16 h16
  obtain ⟨s9, s10, s11, s12, s13, s14, s15, s16, s17, e2, v2, d9, d10, d11, d12, d13, d14, d15, d16, d17⟩ :=
    eliminate_lit t0 t1 t2 t3 t4 t5 t6 t7 t8 t9 t10 t11 t12 t13 t14 t15 t16 t17 (by omega) (by omega) (by omega)
      (by omega) (by omega) (by omega) (by omega) (by omega) (by omega) (by omega) (by omega) (by omega) (by omega)
      (by omega) (by omega) (by omega) (by omega) (by omega)
  obtain ⟨v3, cn, ck⟩ := outChain_lit s9 s10 s11 s12 s13 s14 s15 s16 s17 (by omega) (by omega) (by omega) (by omega)
    (by omega) (by omega) (by omega) (by omega) (by omega)
  have e : reduceDegree #v[b0, b1, b2, b3, b4, b5, b6, b7, b8, b9, b10, b11, b12, b13, b14, b15, b16] =
      reduceCarry (outChain #v[0, 0, 0, 0, 0, 0, 0, 0, 0, s9, s10, s11, s12, s13, s14, s15, s16, s17]).1
        (outChain #v[0, 0, 0, 0, 0, 0, 0, 0, 0, s9, s10, s11, s12, s13, s14, s15, s16, s17]).2 := by
    show reduceCarry (outChain (eliminate true (repack _))).1 (outChain (eliminate true (repack _))).2 = _
    rw [e1, e2]
  rw [e]
  generalize outChain #v[0, 0, 0, 0, 0, 0, 0, 0, 0, s9, s10, s11, s12, s13, s14, s15, s16, s17] = r at v3 cn ck ⊢
  obtain ⟨h4, h5⟩ := reduceCarry_exact r.1 r.2 ck cn
  refine ⟨?_, h5⟩
  rw [← v1, ← v2, ← v3]
  have hR : R = 2 ^ 257 := rfl
  rw [hR]
  have e3 : (value r.1 + r.2.toNat * 2 ^ 257) * 2 ^ 257
      = value (reduceCarry r.1 r.2) * 2 ^ 257 + (r.2.toNat * 2 * 2 ^ 257) * P := by
    rw [← h4]
    ring
  rw [e3, Nat.add_mul_mod_self_right]

/-- (f) `sm2P256Mul` (repaired source) is Montgomery multiplication: within the input bounds
    `value (mul a b) · R ≡ value a · value b (mod p)` and the output is within the bounds -/
theorem mul_ok (a b : Limbs) (ha : InBounds a) (hb : InBounds b) :
    value (mul a b) * R % P = value a * value b % P ∧ InBounds (mul a b) := by
  obtain ⟨_, hv, hl⟩ := mul_large_ok a b ha hb
  obtain ⟨h1, h2⟩ := reduceDegree_ok (mulLarge a b) hl
  exact ⟨by rw [← hv]; exact h1, h2⟩

/-- (f) the same for `sm2P256Square` -/
theorem square_ok (a : Limbs) (ha : InBounds a) :
    value (square a) * R % P = value a * value a % P ∧ InBounds (square a) := by
  obtain ⟨_, hv, hl⟩ := square_large_ok a ha
  obtain ⟨h1, h2⟩ := reduceDegree_ok (squareLarge a) hl
  exact ⟨by rw [← hv]; exact h1, h2⟩

/-- from `v·R ≡ w (mod p)` to `v·R⁻¹ ≡ w·R⁻¹·R⁻¹` (any modulus, any R·R⁻¹ ≡ 1) -/
theorem montgomery_aux (v w r ri p : Nat) (hr : r * ri % p = 1) (h : v * r % p = w % p) :
    v * ri % p = w * ri % p * ri % p := by
  have e1 : (v * ri) * (r * ri) = (v * r) * (ri * ri) := by ring
  have e2 : w * (ri * ri) = (w * ri) * ri := by ring
  calc v * ri % p = (v * ri) * (r * ri) % p := by
        rw [Nat.mul_mod (v * ri) (r * ri), hr, Nat.mul_one, Nat.mod_mod]
    _ = (v * r) * (ri * ri) % p := by rw [e1]
    _ = (v * r % p) * (ri * ri) % p := by rw [Nat.mod_mul_mod]
    _ = (w % p) * (ri * ri) % p := by rw [h]
    _ = w * (ri * ri) % p := by rw [Nat.mod_mul_mod]
    _ = (w * ri) * ri % p := by rw [e2]
    _ = (w * ri % p) * ri % p := by rw [Nat.mod_mul_mod]

theorem montgomery_prod (x y ri p : Nat) : x * y * ri % p * ri % p = (x * ri % p) * (y * ri % p) % p := by
  have e : x * y * ri * ri = (x * ri) * (y * ri) := by ring
  rw [Nat.mod_mul_mod, e, Nat.mul_mod]

/-- (f) in terms of the represented field elements: `fieldRepr (mul a b) = fieldRepr a · fieldRepr b mod p` -/
theorem fieldRepr_mul (a b : Limbs) (ha : InBounds a) (hb : InBounds b) :
    fieldRepr (mul a b) = fieldRepr a * fieldRepr b % P := by
  obtain ⟨h, _⟩ := mul_ok a b ha hb
  unfold fieldRepr
  rw [montgomery_aux _ _ R RInverse P R_RInverse h, montgomery_prod]

theorem fieldRepr_square (a : Limbs) (ha : InBounds a) :
    fieldRepr (square a) = fieldRepr a * fieldRepr a % P := by
  obtain ⟨h, _⟩ := square_ok a ha
  unfold fieldRepr
  rw [montgomery_aux _ _ R RInverse P R_RInverse h, montgomery_prod]

theorem fieldRepr_add (a b : Limbs) (ha : InBounds a) (hb : InBounds b) :
    fieldRepr (add a b) = (fieldRepr a + fieldRepr b) % P := by
  obtain ⟨h, _⟩ := add_ok a b ha hb
  unfold fieldRepr
  rw [Nat.mul_mod, h, ← Nat.mul_mod, Nat.add_mul, Nat.add_mod]

theorem fieldRepr_sub (a b : Limbs) (ha : InBounds a) (hb : InBounds b) :
    (fieldRepr (sub a b) + fieldRepr b) % P = fieldRepr a := by
  obtain ⟨h, _⟩ := sub_ok a b ha hb
  unfold fieldRepr
  rw [← Nat.add_mod, ← Nat.add_mul, Nat.mul_mod, h, ← Nat.mul_mod]

-- the function as found (before the repair, commit f1a1e85) --------------------------------------------------------

/-- witness inputs: canonical limbs of two field elements below p -/
def wrapA : Limbs := #v[0, 0, 0x1fffffff, 0xffffff2, 0x2000000, 0, 0, 0, 0x2000]
def wrapB : Limbs := #v[0, 0, 0x1fffffff, 0xfffffff, 0, 0, 0, 1, 1]
/-- the limb vector of the field element 1·R⁻¹ ("1" as limbs) -/
def limbOne : Limbs := #v[1, 0, 0, 0, 0, 0, 0, 0, 0]
/-- Montgomery limbs of the x-coordinate 7e4000018f01277e…8e212782 of a point on the curve -/
def wrapX : Limbs := #v[1, 0, 0, 7, 0, 0, 0, 0x818c24f, 0]

set_option maxRecDepth 100000 in
/-- `sm2P256ReduceDegree` AS FOUND was not a Montgomery reduction (kernel-checked on concrete values).
    In an even elimination step with x = 1 the statement `tmp[i+9] += ((x >> 1) - 1) & xMask` adds
    0xffffffff; when `tmp[i+9]` is 0 the word wraps to 2^32 - 1 (first conjunct: the product 1·1, step 0 —
    the repaired code leaves 0 there).  For the canonical limb vectors `wrapA`, `wrapB` of two field
    elements the old `sm2P256Mul` is off by exactly 2^32·2^371 = 2^403, the repaired one is right; for
    `wrapX`, the x-coordinate of a curve point in Montgomery form, the old `sm2P256Square` is wrong
    (`IsOnCurve` rejected that point, `Double` returned a wrong point). -/
theorem reduceDegree_old_wraps :
    (elimEven false (repack (mulLarge limbOne limbOne)) 0)[9] = 0xffffffff ∧
    (elimEven true (repack (mulLarge limbOne limbOne)) 0)[9] = 0 ∧
    Canon wrapA ∧ Canon wrapB ∧ value wrapA < P ∧ value wrapB < P ∧
    value (mulOld wrapA wrapB) * R % P ≠ value wrapA * value wrapB % P ∧
    value (mulOld wrapA wrapB) * R % P = (value wrapA * value wrapB + 2 ^ 403) % P ∧
    value (mul wrapA wrapB) * R % P = value wrapA * value wrapB % P ∧
    wrapX = fromBig 0x7e4000018f01277ef1ded87e01c000017f1ffffe829fffff701ed8808e212782 ∧
    fieldRepr (squareOld wrapX) ≠ fieldRepr wrapX * fieldRepr wrapX % P ∧
    fieldRepr (square wrapX) = fieldRepr wrapX * fieldRepr wrapX % P := by decide

-- non-vacuity -----------------------------------------------------------------------------------------------------

/-- all limbs at the largest value the input bounds allow -/
def limbMax : Limbs :=
  #v[0x3fffffff, 0x1fffffff, 0x3fffffff, 0x1fffffff, 0x3fffffff, 0x1fffffff, 0x3fffffff, 0x1fffffff, 0x3fffffff]

set_option maxRecDepth 100000 in
example : InBounds limbMax ∧ ¬ Canon limbMax ∧ InBounds (mul limbMax limbMax) ∧ InBounds (add limbMax limbMax) ∧
    InBounds (sub limbOne limbMax) ∧
    value (mul limbMax limbMax) * R % P = value limbMax * value limbMax % P := by decide
set_option maxRecDepth 100000 in
example : toBig (mul (fromBig 3) (fromBig 5)) = 15 ∧ toBig (add (fromBig 3) (fromBig 5)) = 8 ∧
    toBig (sub (fromBig 3) (fromBig 5)) = P - 2 ∧ toBig (square (fromBig (P - 1))) = 1 := by decide
example : toBig (fromBig (P - 1)) = P - 1 ∧ Canon (fromBig (P - 1)) ∧ fromBig 0 = #v[0, 0, 0, 0, 0, 0, 0, 0, 0] := by
  decide
set_option maxRecDepth 100000 in
example : LargeOK (mulLarge limbMax limbMax) ∧ (mulLarge limbMax limbMax)[8].toNat = 8070450512920576013 := by decide
example : reduceCarry limbOne 7 = #v[0xf, 0, 0x1FFFF900, 0x37FF, 0, 0, 0, 0xE000000, 0] := by decide

end Props.C03Limbs
