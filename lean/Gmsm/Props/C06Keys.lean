/-
C06 (continued) — both ends of a GMSSL ECC handshake derive the same keys.
The client encrypts the 48-byte pre-master secret to the server's encryption certificate key with SM2
(GM/T 0003.4); the server decrypts it; both feed it, with the two randoms, to the GM/T 0024 PRF.
With `Props.SM2Group.decrypt_encrypt` (the executable SM2 spec is a group action) this is unconditional.
-/
import Gmsm.Props.SM2Group
import Gmsm.Spec.TLSPRF
namespace Props.C06
open Spec.SM2 Spec.TLSPRF Gmsm

/-- T1 `gm_premaster_agree`: for every server decryption key 1 ≤ d < n, every client nonce 1 ≤ k < n and
    every (non-empty) pre-master secret, what the server decrypts from the ClientKeyExchange is the client's
    pre-master secret. -/
theorem gm_premaster_agree (d k : Nat) (pm ct : Bytes) (ord : Order) (hd : 1 ≤ d ∧ d < n) (hk : 1 ≤ k ∧ k < n)
    (h : encryptWith (enc (smul d G)).1 (enc (smul d G)).2 pm k ord = some ct) :
    decrypt d ct ord = some pm :=
  Props.SM2Group.decrypt_encrypt d k pm ct ord hd hk h

/-- T1 `gm_keys_agree`: hence both ends compute the same master secret and cut the same key block (MAC keys,
    cipher keys, IVs in the same order), for every pair of randoms and every suite's lengths. -/
theorem gm_keys_agree (d k : Nat) (pm ct : Bytes) (ord : Order) (hd : 1 ≤ d ∧ d < n) (hk : 1 ≤ k ∧ k < n)
    (h : encryptWith (enc (smul d G)).1 (enc (smul d G)).2 pm k ord = some ct)
    (crand srand : Bytes) (macLen keyLen ivLen : Nat) :
    ∃ pmS, decrypt d ct ord = some pmS ∧
      masterSecret pmS crand srand = masterSecret pm crand srand ∧
      keyBlock (masterSecret pmS crand srand) crand srand macLen keyLen ivLen =
        keyBlock (masterSecret pm crand srand) crand srand macLen keyLen ivLen :=
  ⟨pm, gm_premaster_agree d k pm ct ord hd hk h, rfl, rfl⟩

end Props.C06
